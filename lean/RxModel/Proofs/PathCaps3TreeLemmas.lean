/-
  Proofs/PathCaps3TreeLemmas — twins, for `straightCaps3` (Spec/PathCaps3), of the lemmas of
  Proofs/PathCapsLemmas (`PathR_inside`, `PathR_capNodes`), Props/C03b (`capNodes_straight`) and
  Proofs/C03cTree (`forestOf_grps`, `forestOf_within`, `forestOK_of_matchRes`, `processMatch_matchRes`,
  `spansOf_map`) that mention `straightCaps` / `MatchRes` / `SearchOK` concretely.  The new node `.rep` binds
  no group (`noCapBr_capsOf`), has no capture node and an empty forest.  Everything else of C03cTree (the
  verification of the tree builder, `forestOf`, `tblOK`, `outF`, `forestOf_node`, …) is re-used unchanged.
-/
import RxModel.Proofs.PathCaps3ScanLemmas
import RxModel.Proofs.C03cTree
namespace Rx
open Rx.C08 (noEmptyAtoms noEmptyAtomsL clsCanon clsCanonL)

mutual
/-- every group of the tree is bound, by a span inside the span of the path -/
theorem PathR_inside3 (env : Env) (cb ml : Bool) (ctx : Ctx) : (op : Op) → straightCaps3 env cb ml op = true → ∀ p e q e', p ≤ ctx.len →
    PathR ctx op p e q e' → ∀ k, k ∈ capsOf op → ∃ a b, e' k = some (a, b) ∧ p ≤ a ∧ a ≤ b ∧ b ≤ q
  | .bol, _, _, _, _, _, _, _, _, hk | .eol, _, _, _, _, _, _, _, _, hk | .nothing, _, _, _, _, _, _, _, _, hk
  | .endProgram, _, _, _, _, _, _, _, _, hk | .atom _, _, _, _, _, _, _, _, _, hk
  | .cls _, _, _, _, _, _, _, _, _, hk | .backref _, _, _, _, _, _, _, _, _, hk => by simp [capsOf] at hk
  | .choice bs, hs, _, _, _, _, _, _, _, hk => by
    rw [plain_capsOf (.choice bs) (by simpa only [straightCaps3, plainOp] using hs)] at hk; cases hk
  | .gfixed c mn mx l, hs, _, _, _, _, _, _, _, hk => by
    rw [plain_capsOf (.gfixed c mn mx l) (by simpa only [straightCaps3, plainOp] using hs)] at hk; cases hk
  | .rfixed c mn mx l, hs, _, _, _, _, _, _, _, hk => by
    rw [plain_capsOf (.rfixed c mn mx l) (by simpa only [straightCaps3, plainOp] using hs)] at hk; cases hk
  | .unamb _ _ _, hs, _, _, _, _, _, _, _, _ => by
    simp [straightCaps3] at hs
  | .rep id c mn mx g, hs, _, _, _, _, _, _, _, hk => by
    rw [noCapBr_capsOf _ (rep3_split hs).2] at hk; cases hk
  | .capture g c, hs, p, e, q, e', hp, h, k, hk => by
    simp only [straightCaps3] at hs
    simp only [PathR] at h
    obtain ⟨e1, h1, rfl⟩ := h
    have hb := PathR_bounds ctx c hp h1
    by_cases hkg : k = g
    · subst hkg
      exact ⟨p, q, CEnv.set_same _ _ _ _, Nat.le_refl _, hb.1, Nat.le_refl _⟩
    · simp only [capsOf, List.mem_cons, hkg, false_or] at hk
      rw [CEnv.set_other _ _ _ _ _ hkg]
      exact PathR_inside3 env cb ml ctx c hs p e q e1 hp h1 k hk
  | .seq ops, hs, p, e, q, e', hp, h, k, hk => by
    simp only [straightCaps3] at hs
    simp only [PathR] at h
    simp only [capsOf] at hk
    exact PathRSeq_inside3 env cb ml ctx ops hs p e q e' hp h k hk
termination_by structural op => op
theorem PathRSeq_inside3 (env : Env) (cb ml : Bool) (ctx : Ctx) : (ops : List Op) → straightCaps3L env cb ml ops = true → ∀ p e q e', p ≤ ctx.len →
    PathRSeq ctx ops p e q e' → ∀ k, k ∈ capsOfL ops → ∃ a b, e' k = some (a, b) ∧ p ≤ a ∧ a ≤ b ∧ b ≤ q
  | [], _, _, _, _, _, _, _, _, hk => by simp [capsOfL] at hk
  | o :: os, hs, p, e, q, e', hp, h, k, hk => by
    simp only [straightCaps3L, Bool.and_eq_true] at hs
    simp only [PathRSeq] at h
    obtain ⟨m, e1, h1, h2⟩ := h
    have hb1 := PathR_bounds ctx o hp h1
    have hb2 := OpR_bounds_seq ctx os m q hb1.2 (PathRSeq_OpR ctx os m e1 q e' hb1.2 h2)
    by_cases hk2 : k ∈ capsOfL os
    · obtain ⟨a, b, h3, h4, h5, h6⟩ := PathRSeq_inside3 env cb ml ctx os hs.2 m e1 q e' hb1.2 h2 k hk2
      exact ⟨a, b, h3, by omega, h5, h6⟩
    · simp only [capsOfL, List.mem_append, hk2, or_false] at hk
      obtain ⟨a, b, h3, h4, h5, h6⟩ := PathR_inside3 env cb ml ctx o hs.1 p e m e1 hp h1 k hk
      rw [PathRSeq_frame3 env cb ml ctx os hs.2 m e1 q e' h2 k hk2]
      exact ⟨a, b, h3, h4, h5, by omega⟩
termination_by structural ops => ops
end


mutual
/-- with distinct group numbers: every capture node `(g, c)` in straight-line position ends up bound to
    a span `(a, b)` inside the path along which its body `c` matched (`PathR ctx c a _ b eb`), and the
    groups of the body keep, in the final environment, the values they had when the group was closed -/
theorem PathR_capNodes3 (env : Env) (cb ml : Bool) (ctx : Ctx) : (op : Op) → straightCaps3 env cb ml op = true → ∀ p e q e', p ≤ ctx.len →
    (capsOf op).Nodup → PathR ctx op p e q e' → ∀ g c, (g, c) ∈ capNodes op →
    ∃ a b ea eb, e' g = some (a, b) ∧ p ≤ a ∧ b ≤ q ∧ PathR ctx c a ea b eb ∧ ∀ k, k ∈ capsOf c → e' k = eb k
  | .capture g' c', hs, p, e, q, e', hp, hnd, h, g, c, hm => by
    simp only [straightCaps3] at hs
    simp only [PathR] at h
    obtain ⟨e1, h1, rfl⟩ := h
    simp only [capsOf, List.nodup_cons] at hnd
    simp only [capNodes, List.mem_cons, Prod.mk.injEq] at hm
    rcases hm with ⟨rfl, rfl⟩ | hm
    · refine ⟨p, q, e, e1, CEnv.set_same _ _ _ _, Nat.le_refl _, Nat.le_refl _, h1, fun k hk => ?_⟩
      exact CEnv.set_other _ _ _ _ _ (fun hc => hnd.1 (hc ▸ hk))
    · obtain ⟨a, b, ea, eb, i1, i2, i3, i4, i5⟩ := PathR_capNodes3 env cb ml ctx c' hs p e q e1 hp hnd.2 h1 g c hm
      have hsub := capNodes_sub c' g c hm
      refine ⟨a, b, ea, eb, ?_, i2, i3, i4, fun k hk => ?_⟩
      · have hne : g ≠ g' := fun hc => hnd.1 (by rw [← hc]; exact hsub.1)
        rw [CEnv.set_other _ _ _ _ _ hne]; exact i1
      · have hne : k ≠ g' := fun hc => hnd.1 (by rw [← hc]; exact hsub.2 k hk)
        rw [CEnv.set_other _ _ _ _ _ hne]; exact i5 k hk
  | .seq ops, hs, p, e, q, e', hp, hnd, h, g, c, hm => by
    simp only [straightCaps3] at hs
    simp only [PathR] at h
    simp only [capsOf] at hnd
    simp only [capNodes] at hm
    exact PathRSeq_capNodes3 env cb ml ctx ops hs p e q e' hp hnd h g c hm
  | .bol, _, _, _, _, _, _, _, _, _, _, h | .eol, _, _, _, _, _, _, _, _, _, _, h
  | .nothing, _, _, _, _, _, _, _, _, _, _, h | .endProgram, _, _, _, _, _, _, _, _, _, _, h
  | .atom _, _, _, _, _, _, _, _, _, _, _, h | .cls _, _, _, _, _, _, _, _, _, _, _, h
  | .backref _, _, _, _, _, _, _, _, _, _, _, h | .choice _, _, _, _, _, _, _, _, _, _, _, h
  | .rep _ _ _ _ _, _, _, _, _, _, _, _, _, _, _, h | .gfixed _ _ _ _, _, _, _, _, _, _, _, _, _, _, h
  | .rfixed _ _ _ _, _, _, _, _, _, _, _, _, _, _, h | .unamb _ _ _, _, _, _, _, _, _, _, _, _, _, h => by
    simp [capNodes] at h
termination_by structural op => op
theorem PathRSeq_capNodes3 (env : Env) (cb ml : Bool) (ctx : Ctx) : (ops : List Op) → straightCaps3L env cb ml ops = true → ∀ p e q e', p ≤ ctx.len →
    (capsOfL ops).Nodup → PathRSeq ctx ops p e q e' → ∀ g c, (g, c) ∈ capNodesL ops →
    ∃ a b ea eb, e' g = some (a, b) ∧ p ≤ a ∧ b ≤ q ∧ PathR ctx c a ea b eb ∧ ∀ k, k ∈ capsOf c → e' k = eb k
  | [], _, _, _, _, _, _, _, _, _, _, hm => by simp [capNodesL] at hm
  | o :: os, hs, p, e, q, e', hp, hnd, h, g, c, hm => by
    simp only [straightCaps3L, Bool.and_eq_true] at hs
    simp only [PathRSeq] at h
    obtain ⟨m, e1, h1, h2⟩ := h
    simp only [capsOfL, List.nodup_append] at hnd
    obtain ⟨hn1, hn2, hdis⟩ := hnd
    have hb1 := PathR_bounds ctx o hp h1
    have hb2 := OpR_bounds_seq ctx os m q hb1.2 (PathRSeq_OpR ctx os m e1 q e' hb1.2 h2)
    simp only [capNodesL, List.mem_append] at hm
    rcases hm with hm | hm
    · obtain ⟨a, b, ea, eb, i1, i2, i3, i4, i5⟩ := PathR_capNodes3 env cb ml ctx o hs.1 p e m e1 hp hn1 h1 g c hm
      have hsub := capNodes_sub o g c hm
      have hfr : ∀ k, k ∈ capsOf o → e' k = e1 k := fun k hk =>
        PathRSeq_frame3 env cb ml ctx os hs.2 m e1 q e' h2 k (fun hc => hdis k hk k hc rfl)
      refine ⟨a, b, ea, eb, ?_, i2, by omega, i4, fun k hk => ?_⟩
      · rw [hfr g hsub.1]; exact i1
      · rw [hfr k (hsub.2 k hk)]; exact i5 k hk
    · obtain ⟨a, b, ea, eb, i1, i2, i3, i4, i5⟩ := PathRSeq_capNodes3 env cb ml ctx os hs.2 m e1 q e' hb1.2 hn2 h2 g c hm
      exact ⟨a, b, ea, eb, i1, by omega, i3, i4, i5⟩
termination_by structural ops => ops
end


mutual
theorem capNodes_straight3 (env : Env) (cb ml : Bool) : (op : Op) → straightCaps3 env cb ml op = true → ∀ g c, (g, c) ∈ capNodes op → straightCaps3 env cb ml c = true
  | .capture g' c', hs, g, c, h => by
    simp only [straightCaps3] at hs
    simp only [capNodes, List.mem_cons, Prod.mk.injEq] at h
    rcases h with ⟨_, rfl⟩ | h
    · exact hs
    · exact capNodes_straight3 env cb ml c' hs g c h
  | .seq ops, hs, g, c, h => by
    simp only [straightCaps3] at hs
    simp only [capNodes] at h
    exact capNodesL_straight3 env cb ml ops hs g c h
  | .bol, _, _, _, h | .eol, _, _, _, h | .nothing, _, _, _, h | .endProgram, _, _, _, h | .atom _, _, _, _, h
  | .cls _, _, _, _, h | .backref _, _, _, _, h | .choice _, _, _, _, h | .rep _ _ _ _ _, _, _, _, h
  | .gfixed _ _ _ _, _, _, _, h | .rfixed _ _ _ _, _, _, _, h | .unamb _ _ _, _, _, _, h => by
    simp [capNodes] at h
termination_by structural op => op
theorem capNodesL_straight3 (env : Env) (cb ml : Bool) : (ops : List Op) → straightCaps3L env cb ml ops = true → ∀ g c, (g, c) ∈ capNodesL ops →
    straightCaps3 env cb ml c = true
  | [], _, _, _, h => by simp [capNodesL] at h
  | o :: os, hs, g, c, h => by
    simp only [straightCaps3L, Bool.and_eq_true] at hs
    simp only [capNodesL, List.mem_append] at h
    rcases h with h | h
    · exact capNodes_straight3 env cb ml o hs.1 g c h
    · exact capNodesL_straight3 env cb ml os hs.2 g c h
termination_by structural ops => ops
end


mutual
theorem forestOf_grps3 (env : Env) (cb ml : Bool) (e' : CEnv) (j : Nat) : (op : Op) → straightCaps3 env cb ml op = true →
    (∀ g ∈ capsOf op, (e' g).isSome = true) → grpsF (forestOf e' j op) = capsOf op
  | .capture g c, hs, hd => by
    simp only [straightCaps3] at hs
    simp only [capsOf] at hd ⊢
    have hg := hd g List.mem_cons_self
    cases he : e' g with
    | none => rw [he] at hg; cases hg
    | some ab =>
      simp only [forestOf, he]
      rw [grpsF_cons, grpsT_node, forestOf_grps3 env cb ml e' j c hs (fun k hk => hd k (List.mem_cons_of_mem _ hk))]
      simp [grpsF, flatF]
  | .seq ops, hs, hd => by
    simp only [straightCaps3] at hs
    simp only [capsOf] at hd ⊢
    simp only [forestOf]
    exact forestOfL_grps3 env cb ml e' j ops hs hd
  | .bol, _, _ | .eol, _, _ | .nothing, _, _ | .endProgram, _, _ | .atom _, _, _ | .cls _, _, _
  | .backref _, _, _ => by simp [forestOf, capsOf, grpsF, flatF]
  | .choice bs, hs, _ => by
    rw [plain_capsOf (.choice bs) (by simpa only [straightCaps3, plainOp] using hs)]
    simp [forestOf, grpsF, flatF]
  | .gfixed c mn mx l, hs, _ => by
    rw [plain_capsOf (.gfixed c mn mx l) (by simpa only [straightCaps3, plainOp] using hs)]
    simp [forestOf, grpsF, flatF]
  | .rfixed c mn mx l, hs, _ => by
    rw [plain_capsOf (.rfixed c mn mx l) (by simpa only [straightCaps3, plainOp] using hs)]
    simp [forestOf, grpsF, flatF]
  | .unamb _ _ _, hs, _ => by simp [straightCaps3] at hs
  | .rep id c mn mx g, hs, _ => by
    rw [noCapBr_capsOf _ (rep3_split hs).2]
    simp [forestOf, grpsF, flatF]
termination_by structural op => op
theorem forestOfL_grps3 (env : Env) (cb ml : Bool) (e' : CEnv) (j : Nat) : (ops : List Op) → straightCaps3L env cb ml ops = true →
    (∀ g ∈ capsOfL ops, (e' g).isSome = true) → grpsF (forestOfL e' j ops) = capsOfL ops
  | [], _, _ => by simp [forestOfL, capsOfL, grpsF, flatF]
  | o :: os, hs, hd => by
    simp only [straightCaps3L, Bool.and_eq_true] at hs
    simp only [capsOfL] at hd ⊢
    simp only [forestOfL]
    rw [grpsF_append, forestOf_grps3 env cb ml e' j o hs.1 (fun k hk => hd k (List.mem_append_left _ hk)),
      forestOfL_grps3 env cb ml e' j os hs.2 (fun k hk => hd k (List.mem_append_right _ hk))]
termination_by structural ops => ops
end

mutual
/-- along a path, the forest of the tree is well nested and ordered inside the span of the path -/
theorem forestOf_within3 (env : Env) (cb ml : Bool) (ctx : Ctx) (e' : CEnv) (j : Nat) : (op : Op) → straightCaps3 env cb ml op = true →
    ∀ p e q e1, p ≤ ctx.len → j ≤ p → PathR ctx op p e q e1 → (capsOf op).Nodup →
    (∀ g ∈ capsOf op, e' g = e1 g) → WithinF (p - j) (q - j) (forestOf e' j op)
  | .capture g c, hs, p, e, q, e1, hp, hj, h, hnd, hag => by
    simp only [straightCaps3] at hs
    simp only [PathR] at h
    obtain ⟨e0, h0, rfl⟩ := h
    simp only [capsOf, List.nodup_cons] at hnd
    simp only [capsOf] at hag
    have hb := PathR_bounds ctx c hp h0
    have hg : e' g = some (p, q) := by rw [hag g List.mem_cons_self, CEnv.set_same]
    simp only [forestOf, hg, WithinF, WithinT, GT.hi]
    refine ⟨⟨Nat.le_refl _, by omega, Nat.le_refl _, ?_⟩, Nat.le_refl _⟩
    apply forestOf_within3 env cb ml ctx e' j c hs p e q e0 hp hj h0 hnd.2
    intro k hk
    have hkg : k ≠ g := fun hc => hnd.1 (by rw [← hc]; exact hk)
    rw [hag k (List.mem_cons_of_mem _ hk), CEnv.set_other _ _ _ _ _ hkg]
  | .seq ops, hs, p, e, q, e1, hp, hj, h, hnd, hag => by
    simp only [straightCaps3] at hs
    simp only [PathR] at h
    simp only [capsOf] at hnd hag
    simp only [forestOf]
    exact forestOfL_within3 env cb ml ctx e' j ops hs p e q e1 hp hj h hnd hag
  | .bol, _, p, e, q, e1, hp, _, h, _, _ => by
    have := PathR_bounds ctx .bol hp h; simp only [forestOf, WithinF]; omega
  | .eol, _, p, e, q, e1, hp, _, h, _, _ => by
    have := PathR_bounds ctx .eol hp h; simp only [forestOf, WithinF]; omega
  | .nothing, _, p, e, q, e1, hp, _, h, _, _ => by
    have := PathR_bounds ctx .nothing hp h; simp only [forestOf, WithinF]; omega
  | .endProgram, _, p, e, q, e1, hp, _, h, _, _ => by
    have := PathR_bounds ctx .endProgram hp h; simp only [forestOf, WithinF]; omega
  | .atom cs, _, p, e, q, e1, hp, _, h, _, _ => by
    have := PathR_bounds ctx (.atom cs) hp h; simp only [forestOf, WithinF]; omega
  | .cls rs, _, p, e, q, e1, hp, _, h, _, _ => by
    have := PathR_bounds ctx (.cls rs) hp h; simp only [forestOf, WithinF]; omega
  | .backref g, _, p, e, q, e1, hp, _, h, _, _ => by
    have := PathR_bounds ctx (.backref g) hp h; simp only [forestOf, WithinF]; omega
  | .choice bs, _, p, e, q, e1, hp, _, h, _, _ => by
    have := PathR_bounds ctx (.choice bs) hp h; simp only [forestOf, WithinF]; omega
  | .gfixed c mn mx l, _, p, e, q, e1, hp, _, h, _, _ => by
    have := PathR_bounds ctx (.gfixed c mn mx l) hp h; simp only [forestOf, WithinF]; omega
  | .rfixed c mn mx l, _, p, e, q, e1, hp, _, h, _, _ => by
    have := PathR_bounds ctx (.rfixed c mn mx l) hp h; simp only [forestOf, WithinF]; omega
  | .unamb _ _ _, hs, _, _, _, _, _, _, _, _, _ => by
    simp [straightCaps3] at hs
  | .rep id c mn mx g, _, p, e, q, e1, hp, _, h, _, _ => by
    have := PathR_bounds ctx (.rep id c mn mx g) hp h; simp only [forestOf, WithinF]; omega
termination_by structural op => op
theorem forestOfL_within3 (env : Env) (cb ml : Bool) (ctx : Ctx) (e' : CEnv) (j : Nat) : (ops : List Op) → straightCaps3L env cb ml ops = true →
    ∀ p e q e1, p ≤ ctx.len → j ≤ p → PathRSeq ctx ops p e q e1 → (capsOfL ops).Nodup →
    (∀ g ∈ capsOfL ops, e' g = e1 g) → WithinF (p - j) (q - j) (forestOfL e' j ops)
  | [], _, p, e, q, e1, _, _, h, _, _ => by
    simp only [PathRSeq] at h
    simp only [forestOfL, WithinF, h.1]
    exact Nat.le_refl _
  | o :: os, hs, p, e, q, e1, hp, hj, h, hnd, hag => by
    simp only [straightCaps3L, Bool.and_eq_true] at hs
    simp only [PathRSeq] at h
    obtain ⟨m, em, h1, h2⟩ := h
    simp only [capsOfL, List.nodup_append] at hnd
    obtain ⟨hn1, hn2, hdis⟩ := hnd
    simp only [capsOfL] at hag
    have hb1 := PathR_bounds ctx o hp h1
    simp only [forestOfL]
    apply WithinF_append _ _ (p - j) (m - j) (q - j)
    · apply forestOf_within3 env cb ml ctx e' j o hs.1 p e m em hp hj h1 hn1
      intro g hg
      rw [hag g (List.mem_append_left _ hg)]
      exact PathRSeq_frame3 env cb ml ctx os hs.2 m em q e1 h2 g (fun hc => hdis g hg g hc rfl)
    · exact forestOfL_within3 env cb ml ctx e' j os hs.2 m em q e1 hb1.2 (by omega) h2 hn2
        (fun g hg => hag g (List.mem_append_right _ hg))
termination_by structural ops => ops
end

/-- **the state of a match on a straight-capture program is a forest state** (for the nesting table
    `tbl` of the pattern, checked against the tree by `tblOK`; groups numbered in the order of their
    opening parentheses) -/
theorem forestOK_of_matchRes3 (env : Env) (ctx : Ctx) (op : Op) (H : StraightOK3 env ctx op)
    (hsorted : (capsOf op).Pairwise (· < ·)) (tbl : List (Nat × Nat)) (htbl : tblOK tbl op 0 = true)
    (input : List Nat) (hin : ctx.len = input.length)
    (j n : Nat) (e' : CEnv) (st' : St) (h : MatchRes3 ctx op j n e' st') (hjn : j < n) :
    ForestOK st' tbl j (slice input j n) (forestOf e' j op) := by
  have hdom : ∀ g ∈ capsOf op, (e' g).isSome = true := fun g hg => (h.dom g).1 hg
  have hgr := forestOf_grps3 env _ _ e' j op H.straight hdom
  have hlen : (slice input j n).length = n - j := length_slice input j n (by rw [← hin]; exact h.len)
  have hspan : ∀ x ∈ flatF (forestOf e' j op), ∃ a b, e' x.1 = some (a, b) ∧ x.2.1 = a - j ∧ x.2.2 = b - j ∧
      j ≤ a ∧ a ≤ b := by
    intro x hx
    obtain ⟨a, b, h1, h2, h3⟩ := forestOf_spans e' j op x hx
    have := h.env x.1 a b h1
    exact ⟨a, b, h1, h2, h3, this.1, this.2.1⟩
  have hmem : ∀ x ∈ flatF (forestOf e' j op), x.1 ∈ capsOf op := by
    intro x hx
    rw [← hgr]
    exact List.mem_map.2 ⟨x, hx, rfl⟩
  refine ⟨h.reprP.pc0, h.start0, ?_, ?_, ?_, ?_, ?_, forestOf_par tbl e' j op 0 htbl, ?_⟩
  · have : (grpsF (forestOf e' j op)).Pairwise (· < ·) := by rw [hgr]; exact hsorted
    unfold grpsF at this
    rw [List.pairwise_map] at this
    exact this
  · intro x hx
    obtain ⟨a, b, h1, h2, h3, h4, h5⟩ := hspan x hx
    have hg1 := C03b.capsPos_capsOf op H.capsPos x.1 (hmem x hx)
    have hpc := h.reprP.pc x.1 hg1 (by simp) (by rw [h1]; rfl)
    exact ⟨hg1, hpc, by omega⟩
  · intro x hx
    obtain ⟨a, b, h1, h2, h3, h4, h5⟩ := hspan x hx
    have hg1 := C03b.capsPos_capsOf op H.capsPos x.1 (hmem x hx)
    have ha := h.reprP.repr.agree x.1 hg1 (by simp)
    rw [h1] at ha
    simp only [getParenStart, getParenEnd, ha.1, ha.2.1, Option.map_some, h2, h3]
    exact ⟨by congr 1; omega, by congr 1; omega⟩
  · intro k hk1 _ hk3
    rw [hgr] at hk3
    have hnone : e' k = none := by
      cases he : e' k with
      | none => rfl
      | some ab => exact absurd ((h.dom k).2 (by rw [he]; rfl)) hk3
    have ha := h.reprP.repr.agree k hk1 (by simp)
    rw [hnone] at ha
    exact ha.1
  · rw [hlen]
    have := forestOf_within3 env _ _ ctx e' j op H.straight j CEnv.empty n e' (Nat.le_trans h.le h.len) (Nat.le_refl _)
      h.path H.nodup (fun _ _ => rfl)
    simpa using this
  · intro hc
    have : (slice input j n).length = 0 := by rw [hc]; rfl
    omega


theorem processMatch_matchRes3 (env : Env) (ctx : Ctx) (op : Op) (H : StraightOK3 env ctx op)
    (hsorted : (capsOf op).Pairwise (· < ·)) (tbl : List (Nat × Nat)) (htbl : tblOK tbl op 0 = true)
    (input : List Nat) (hin : ctx.len = input.length)
    (j n : Nat) (e' : CEnv) (st' : St) (h : MatchRes3 ctx op j n e' st') (hjn : j < n) :
    processMatch tbl st' (slice input j n) = .ok (groupTree op input (j, n, e')) := by
  have hF := forestOK_of_matchRes3 env ctx op H hsorted tbl htbl input hin j n e' st' h hjn
  have hlen : (slice input j n).length = n - j := length_slice input j n (by rw [← hin]; exact h.len)
  rw [processMatch_forest st' tbl j (slice input j n) (forestOf e' j op) hF, hlen]
  rfl


theorem spansOf_map3 {α : Type} {env : Env} {pr : Prog} {lower : Nat → Nat} {input : List Nat} (S : SearchOK3 env pr lower input)
    (φ : St → Nat → Nat → α) (ψ : Nat × Nat × CEnv → α)
    (hφ : ∀ j n e' st', MatchRes3 (pr.ctx lower input) pr.op j n e' st' → j < n → φ st' j n = ψ (j, n, e')) :
    ∀ (f pos : Nat) (st : St), st.panic = none → pos ≤ input.length →
    (C04.spansOf (pr.matcher lower input) input.length f pos st).map (fun x => (x.1, x.2.1, φ x.2.2 x.1 x.2.1)) =
      (specSpans3 (pr.ctx lower input) pr.op f pos).map (fun y => (y.1, y.2.1, ψ y)) := by
  intro f
  induction f with
  | zero => intro pos st _ _; rfl
  | succ f ih =>
    intro pos st hst hp
    have hlen : (pr.ctx lower input).len = input.length := rfl
    unfold C04.spansOf specSpans3
    by_cases hlt : pos < input.length
    · simp only [hlt, if_true, hlen]
      have hfind : (pr.matcher lower input).find st pos = matchesFrom (pr.ctx lower input) pr pos st := rfl
      rw [hfind]
      rcases S.find_step pos hp st hst with ⟨st', j, n, e', he, hfm, hpj, hjn, hres⟩ | ⟨st', he, hfm, hcl⟩
      · rw [he, hfm]
        have hs0 : (pr.matcher lower input).start0 st' = some j := hres.start0
        have he0 : (pr.matcher lower input).end0 st' = some n := hres.end0
        simp only [hs0, he0, List.map_cons]
        rw [ih n st' hres.clean hres.len, hφ j n e' st' hres hjn]
      · rw [he, hfm]
        rfl
    · simp only [hlt, if_false, hlen]
      rfl

end Rx
