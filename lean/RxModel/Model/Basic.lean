/-
  Model/Basic — representation conventions shared by the whole model `E`.

  * a character is its scalar value (`Nat`); a string is `List Nat`; offsets are code points
  * `usize` is `Nat`; the 64-bit limit is explicit where the Rust can reach it
  * a Rust panic is a sticky marker in the matcher state (`St.panic`), a Rust non-termination is
    the marker `panicDiverge` / the stream value `Step.diverge`
  * everything is structurally recursive (or recursive on explicit fuel) so that it reduces in
    the kernel: `List`, `Nat`, `Option`, `Bool` and plain structures only
-/
namespace Rx

def usizeMax : Nat := 18446744073709551615

def satAdd (a b : Nat) : Nat := Nat.min (a + b) usizeMax
def satMul (a b : Nat) : Nat := Nat.min (a * b) usizeMax

abbrev Str := List Nat

/-- `char::is_ascii_digit` -/
def isDigit (c : Nat) : Bool := decide (48 ≤ c) && decide (c ≤ 57)

/-! panic sites (numbers so that states stay kernel-reducible) -/
def panicBackrefIndex : Nat := 1      -- op_back_reference.rs: start_backref[group]
def panicBackrefUnderflow : Nat := 2  -- op_back_reference.rs: e - s
def panicMinLenUnderflow : Nat := 3   -- re_matcher.rs: search.len() - i
def panicPrefixUnderflow : Nat := 4   -- re_matcher.rs: len + 1 - prefix.len()
def panicReplaceSlice : Nat := 5      -- re_matcher.rs: search[pos..start]
def panicNoEnd : Nat := 6             -- get_paren_end(0).unwrap()
def panicTokenSlice : Nat := 7        -- regex.rs: search[prev_end..start]
def panicAnalyze : Nat := 8           -- analyze_string.rs (any unwrap / underflow / pop)
def panicNesting : Nat := 9           -- compute_nesting_table
def panicMaxParens : Nat := 10        -- max_parens - 1 underflow
def panicCaptureIndex : Nat := 11     -- set_start_backref[group]
def panicDiverge : Nat := 999         -- not a panic: the Rust loop does not terminate

/-! option-valued arrays as lists; reads beyond the end give `none`, writes pad -/
def getO (l : List (Option Nat)) (i : Nat) : Option Nat :=
  match l[i]? with
  | some v => v
  | none => none

def setAt : List (Option Nat) → Nat → Option Nat → List (Option Nat)
  | [], 0, v => [v]
  | [], i+1, v => none :: setAt [] i v
  | _ :: xs, 0, v => v :: xs
  | x :: xs, i+1, v => x :: setAt xs i v

/-- `Vec` write without growth (`v[i] = x`, caller has checked the bound) -/
def setIn : List (Option Nat) → Nat → Option Nat → List (Option Nat)
  | [], _, _ => []
  | _ :: xs, 0, v => v :: xs
  | x :: xs, i+1, v => x :: setIn xs i v

structure Cap where
  parenCount : Nat := 0
  startn : List (Option Nat) := []
  endn   : List (Option Nat) := []
deriving Repr, BEq, DecidableEq, Inhabited

structure St where
  cap : Cap := {}
  startBr : List (Option Nat) := []
  endBr   : List (Option Nat) := []
  hist : List (Nat × Nat) := []      -- zero-length-match memo: (repeat node id, position)
  panic : Option Nat := none         -- sticky
deriving Repr, BEq, DecidableEq, Inhabited

def St.setPanic (st : St) (code : Nat) : St :=
  match st.panic with
  | some _ => st
  | none => { st with panic := some code }

def Cap.setStart (c : Cap) (g p : Nat) : Cap := { c with startn := setAt c.startn g (some p) }
def Cap.setEnd (c : Cap) (g p : Nat) : Cap := { c with endn := setAt c.endn g (some p) }

def optGe (a : Option Nat) (pos : Nat) : Bool :=
  match a with
  | some s => decide (s ≥ pos)
  | none => false

/-- `clear_captured_groups_beyond` on one pair of arrays: every group that starts at or after
    `pos` gets `end := start` -/
def clearArr : List (Option Nat) → List (Option Nat) → Nat → List (Option Nat)
  | [], es, _ => es
  | s :: ss, [], pos => (if optGe s pos then s else none) :: clearArr ss [] pos
  | s :: ss, e :: es, pos => (if optGe s pos then s else e) :: clearArr ss es pos

def clearBeyond (st : St) (pos : Nat) : St :=
  { st with cap := { st.cap with endn := clearArr st.cap.startn st.cap.endn pos },
            endBr := clearArr st.startBr st.endBr pos }

def memPair (h : List (Nat × Nat)) (a b : Nat) : Bool :=
  match h with
  | [] => false
  | (x, y) :: t => (x == a && y == b) || memPair t a b

end Rx
