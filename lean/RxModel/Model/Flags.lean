/-
  Model/Flags — `ReFlags::new` (re_flags.rs).
-/
import RxModel.Model.Scan
namespace Rx

structure Flags where
  caseBlind : Bool := false      -- i
  multiLine : Bool := false      -- m
  singleLine : Bool := false     -- s
  allowWs : Bool := false        -- x
  literal : Bool := false        -- q
  xsd : Bool := false            -- language = XSD
  debug : Bool := false          -- ;g
  allowUnknownBlocks : Bool := false  -- ;k / ;K
deriving Repr, DecidableEq, Inhabited

/-- the flags the compiler and the matcher read *after* the whitespace pre-pass: nothing
    downstream of `compileProg` can depend on `x`, `;g`, `;k` because it never sees them -/
structure CFlags where
  caseBlind : Bool := false
  multiLine : Bool := false
  singleLine : Bool := false
  literal : Bool := false
  xsd : Bool := false
deriving Repr, DecidableEq, Inhabited

def Flags.core (f : Flags) : CFlags :=
  { caseBlind := f.caseBlind, multiLine := f.multiLine, singleLine := f.singleLine, literal := f.literal, xsd := f.xsd }

/-- after `;` -/
def parseFlagsTail : List Nat → Flags → Option Flags
  | [], r => some r
  | c :: cs, r =>
    if c == 103 then parseFlagsTail cs { r with debug := true }                 -- g
    else if c == 107 then parseFlagsTail cs { r with allowUnknownBlocks := true }   -- k
    else if c == 75 then parseFlagsTail cs { r with allowUnknownBlocks := false }   -- K
    else none

def parseFlagsGo : List Nat → Flags → Option Flags
  | [], r => some r
  | c :: cs, r =>
    if c == 59 then parseFlagsTail cs r                                         -- ;
    else if c == 105 then parseFlagsGo cs { r with caseBlind := true }           -- i
    else if c == 109 then parseFlagsGo cs { r with multiLine := true }           -- m
    else if c == 115 then parseFlagsGo cs { r with singleLine := true }          -- s
    else if c == 113 then (if r.xsd then none else parseFlagsGo cs { r with literal := true })  -- q
    else if c == 120 then parseFlagsGo cs { r with allowWs := true }             -- x
    else none

/-- `ReFlags::new(flags, language)`; `none` = `Error::InvalidFlags` -/
def parseFlags (flags : List Nat) (xsd : Bool) : Option Flags := parseFlagsGo flags { xsd := xsd }

end Rx
