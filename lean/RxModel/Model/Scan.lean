/-
  Model/Scan — the three scan loops, written over an *abstract* matcher so that the C04 theorems
  hold for every `find`:
    `replace`      re_matcher.rs:225   ReMatcher::replace
    `TokenIter`    regex.rs:121        TokenIter::next
    `AnalyzeIter`  analyze_string.rs:217  AnalyzeIter::next
-/
import RxModel.Model.Basic
namespace Rx

/-- what the loops need from a matcher with internal state `σ` -/
structure MatcherI (σ : Type) where
  find   : σ → Nat → Bool × σ        -- `matches(pos)`
  start0 : σ → Option Nat            -- `get_paren_start(0)`
  end0   : σ → Option Nat            -- `get_paren_end(0)`
  failed : σ → Option Nat            -- sticky panic / divergence marker

inductive Err where
  | internal | invalidFlags | syntax | matchesEmptyString | invalidReplacement
deriving Repr, BEq, DecidableEq, Inhabited

inductive Out (α : Type) where
  | ok (a : α)
  | err (e : Err)
  | panic (site : Nat)
  | diverge
deriving Repr, Inhabited, DecidableEq

def Out.ofFailed {α : Type} (code : Nat) : Out α := if code == panicDiverge then .diverge else .panic code

def slice (s : List Nat) (a b : Nat) : List Nat := (s.drop a).take (b - a)

/-! ### replace -/

/-- one step of substitution: given the state after a successful match, the text to append;
    `none` = InvalidReplacementString; the Bool is the new value of `simple_replacement` -/
abbrev Subst (σ : Type) := σ → (simple : Bool) → Option (List Nat × Bool)

def replaceLoop {σ : Type} (M : MatcherI σ) (subst : Subst σ) (input : List Nat) (literal : Bool) :
    (fuel : Nat) → (pos : Nat) → σ → (first simple : Bool) → (acc : List Nat) → Out (List Nat)
  | 0, _, _, _, _, _ => .diverge
  | f+1, pos, st, first, simple, acc =>
    if pos < input.length then
      match M.find st pos with
      | (false, st') =>
        match M.failed st' with
        | some c => Out.ofFailed c
        | none => if first then .ok input else .ok (acc ++ input.drop pos)
      | (true, st') =>
        match M.failed st' with
        | some c => Out.ofFailed c
        | none =>
        match M.start0 st' with
        | none => .panic panicNoEnd          -- unreachable: match_at sets it
        | some start =>
        if start < pos then .panic panicReplaceSlice else
        let acc := acc ++ slice input pos start
        let simple := if first then literal else simple
        match subst st' simple with
        | none => .err .invalidReplacement
        | some (text, simple') =>
          match M.end0 st' with
          | none => .panic panicNoEnd
          | some e =>
            let newpos := if e == pos then e + 1 else e
            replaceLoop M subst input literal f newpos st' false simple' (acc ++ text)
    else if first then .ok input else .ok (acc ++ input.drop pos)

def replaceWith {σ : Type} (M : MatcherI σ) (subst : Subst σ) (input : List Nat) (literal : Bool) (st : σ) :
    Out (List Nat) :=
  replaceLoop M subst input literal (input.length + 2) 0 st true false []

/-! ### tokenize -/

/-- `TokenIter::next` -/
def tokenNext {σ : Type} (M : MatcherI σ) (input : List Nat) (prevEnd : Option Nat) (st : σ) :
    Out (Option (List Nat)) × Option Nat × σ :=
  match prevEnd with
  | none => (.ok none, none, st)
  | some pe =>
    match M.find st pe with
    | (true, st') =>
      match M.failed st' with
      | some c => (Out.ofFailed c, none, st')
      | none =>
      match M.start0 st' with
      | none => (.panic panicNoEnd, none, st')
      | some start =>
        if start < pe then (.panic panicTokenSlice, none, st') else
        (.ok (some (slice input pe start)), M.end0 st', st')
    | (false, st') =>
      match M.failed st' with
      | some c => (Out.ofFailed c, none, st')
      | none => (.ok (some (input.drop pe)), none, st')

/-- pull at most `limit` tokens; the Bool says whether the iterator was not yet exhausted -/
def tokenLoop {σ : Type} (M : MatcherI σ) (input : List Nat) :
    (limit : Nat) → (prevEnd : Option Nat) → σ → (acc : List (List Nat)) → Out (List (List Nat) × Bool)
  | 0, prevEnd, st, acc =>
    -- one more pull decides whether there is more
    match tokenNext M input prevEnd st with
    | (.ok none, _, _) => .ok (acc, false)
    | (.ok (some _), _, _) => .ok (acc, true)
    | (.err e, _, _) => .err e
    | (.panic c, _, _) => .panic c
    | (.diverge, _, _) => .diverge
  | l+1, prevEnd, st, acc =>
    match tokenNext M input prevEnd st with
    | (.ok none, _, _) => .ok (acc, false)
    | (.ok (some t), pe', st') => tokenLoop M input l pe' st' (acc ++ [t])
    | (.err e, _, _) => .err e
    | (.panic c, _, _) => .panic c
    | (.diverge, _, _) => .diverge

/-! ### analyze -/

inductive MEntry where
  | str (s : List Nat)
  | group (nr : Nat) (value : List MEntry)
deriving Repr, Inhabited

inductive AEntry where
  | nonMatch (s : List Nat)
  | isMatch (es : List MEntry)
deriving Repr, Inhabited

structure AState (σ : Type) where
  st : σ
  nextSub : Option (List Nat) := none
  prevEnd : Option Nat := some 0
  skip : Bool := false

/-- `AnalyzeIter::next`; `entry st text` is `process_matching_substring` -/
def analyzeNext {σ : Type} (M : MatcherI σ) (entry : σ → List Nat → Out (List MEntry)) (input : List Nat)
    (a : AState σ) : Out (Option AEntry) × AState σ :=
  match a.prevEnd with
  | none => (.ok none, a)
  | some pe =>
    match a.nextSub with
    | some sub =>
      -- a non-match was returned last time; now the match that follows it
      let a' := { a with nextSub := none, prevEnd := M.end0 a.st }
      match a'.prevEnd with
      | some _ =>
        match entry a.st sub with
        | .ok es => (.ok (some (.isMatch es)), a')
        | .err e => (.err e, a')
        | .panic c => (.panic c, a')
        | .diverge => (.diverge, a')
      | none => (.ok (some (.nonMatch sub)), a')      -- unreachable: end of group 0 is set
    | none =>
      let len := input.length
      -- previous match was zero-length: step over one character
      let stop : Bool := a.skip && decide (pe + 1 ≥ len) && !decide (pe < len)
      if stop then (.ok none, { a with prevEnd := none }) else
      let searchStart := if a.skip then pe + 1 else pe
      match M.find a.st searchStart with
      | (true, st') =>
        match M.failed st' with
        | some c => (Out.ofFailed c, { a with st := st' })
        | none =>
        match M.start0 st', M.end0 st' with
        | some start, some e =>
          let skip := start == e
          if pe == start then
            let a' : AState σ := { st := st', nextSub := none, prevEnd := some e, skip := skip }
            match entry st' (slice input start e) with
            | .ok es => (.ok (some (.isMatch es)), a')
            | .err er => (.err er, a')
            | .panic c => (.panic c, a')
            | .diverge => (.diverge, a')
          else
            if start < pe then (.panic panicAnalyze, { a with st := st' }) else
            let a' : AState σ := { st := st', nextSub := some (slice input start e), prevEnd := some pe, skip := skip }
            (.ok (some (.nonMatch (slice input pe start))), a')
        | _, _ => (.panic panicNoEnd, { a with st := st' })
      | (false, st') =>
        match M.failed st' with
        | some c => (Out.ofFailed c, { a with st := st' })
        | none =>
          if pe < len then
            (.ok (some (.nonMatch (input.drop pe))), { a with st := st', nextSub := none, prevEnd := none })
          else (.ok none, { a with st := st', prevEnd := none })

def analyzeLoop {σ : Type} (M : MatcherI σ) (entry : σ → List Nat → Out (List MEntry)) (input : List Nat) :
    (limit : Nat) → AState σ → (acc : List AEntry) → Out (List AEntry × Bool)
  | 0, a, acc =>
    match analyzeNext M entry input a with
    | (.ok none, _) => .ok (acc, false)
    | (.ok (some _), _) => .ok (acc, true)
    | (.err e, _) => .err e
    | (.panic c, _) => .panic c
    | (.diverge, _) => .diverge
  | l+1, a, acc =>
    match analyzeNext M entry input a with
    | (.ok none, _) => .ok (acc, false)
    | (.ok (some e), a') => analyzeLoop M entry input l a' (acc ++ [e])
    | (.err e, _) => .err e
    | (.panic c, _) => .panic c
    | (.diverge, _) => .diverge

end Rx
