/-
  Model/Optimize — the per-operation static analyses and rewrites (all op_*.rs):
  `get_match_length`, `get_minimum_match_length`, `matches_empty_string`,
  `get_initial_character_class`, `optimize`, and `ReCompiler::no_ambiguity`.
-/
import RxModel.Model.CharSet
import RxModel.Model.Flags
namespace Rx

/-- library data the compiler reads (ICU tables, block table); a parameter of the model -/
structure Env where
  lower : Nat → Nat                      -- CaseMapper::simple_lowercase
  closure : Nat → List Nat               -- CaseMapCloser::add_case_closure_to
  category : List Nat → Option Ranges    -- category_group(name)
  block : List Nat → Option Ranges       -- category::block(name)
  digit : Ranges                         -- decimal_number()
  word : Ranges                          -- word_char()
  nameStart : Ranges                     -- name_start_char()
  nameChar : Ranges                      -- name_char()

def ZLS_AT_START : Nat := 1
def ZLS_AT_END : Nat := 2
def ZLS_ANYWHERE : Nat := 7
def ZLS_NEVER : Nat := 1024

def natOr (a b : Nat) : Nat := a ||| b
def natAnd (a b : Nat) : Nat := a &&& b

mutual
/-- `get_match_length` -/
def matchLen : Op → Option Nat
  | .bol | .eol | .nothing | .endProgram => some 0
  | .atom cs => some cs.length
  | .cls _ => some 1
  | .backref _ => none
  | .capture _ c => matchLen c
  | .choice bs => matchLenChoice bs
  | .seq ops => matchLenSeq ops
  | .rep _ c mn mx _ => match matchLen c with
      | some l => if mn == mx then some (satMul mn l) else none
      | none => none
  | .gfixed _ mn mx len => if mn == mx then some (satMul mn len) else none
  | .rfixed _ mn mx len => if mn == mx then some (satMul mn len) else none
  | .unamb c mn mx => match matchLen c with
      | some l => if mn == mx then some (satMul mn l) else none
      | none => none
termination_by structural o => o
/-- all branches have the same fixed length as the first -/
def matchLenChoice : List Op → Option Nat
  | [] => none
  | b :: bs => if matchLenAllEq (matchLen b) bs then matchLen b else none
termination_by structural l => l
def matchLenAllEq (fixed : Option Nat) : List Op → Bool
  | [] => true
  | b :: bs => (matchLen b == fixed) && matchLenAllEq fixed bs
termination_by structural l => l
def matchLenSeq : List Op → Option Nat
  | [] => some 0
  | o :: os => match matchLen o, matchLenSeq os with
      | some a, some b => some (satAdd a b)
      | _, _ => none
termination_by structural l => l
end

mutual
/-- `get_minimum_match_length` -/
def minLenOp : Op → Nat
  | .bol | .eol | .nothing | .endProgram => 0
  | .atom cs => cs.length
  | .cls _ => 1
  | .backref _ => 0
  | .capture _ c => minLenOp c
  | .choice bs => minLenChoice bs
  | .seq ops => minLenSeq ops
  | .rep _ c mn _ _ => satMul mn (minLenOp c)
  | .gfixed c mn _ _ => satMul mn (minLenOp c)
  | .rfixed c mn _ _ => satMul mn (minLenOp c)
  | .unamb c mn _ => satMul mn (minLenOp c)
termination_by structural o => o
def minLenChoice : List Op → Nat
  | [] => 0
  | [b] => minLenOp b
  | b :: b2 :: bs => Nat.min (minLenOp b) (minLenChoice (b2 :: bs))
termination_by structural l => l
def minLenSeq : List Op → Nat
  | [] => 0
  | o :: os => satAdd (minLenOp o) (minLenSeq os)
termination_by structural l => l
end

/-- the three passes of `Sequence::matches_empty_string` over the children's values -/
def mzsSeqOf (ms : List Nat) : Nat :=
  -- first loop: NEVER anywhere before the first non-ANYWHERE element → NEVER; all ANYWHERE → ANYWHERE
  let rec first : List Nat → Option Nat
    | [] => some ZLS_ANYWHERE
    | m :: rest => if m == ZLS_NEVER then some ZLS_NEVER else if m != ZLS_ANYWHERE then none else first rest
  match first ms with
  | some r => r
  | none =>
    if ms.all (fun m => natAnd m ZLS_AT_START != 0) then ZLS_AT_START
    else if ms.all (fun m => natAnd m ZLS_AT_END != 0) then ZLS_AT_END
    else 0

mutual
/-- `matches_empty_string` -/
def mzs : Op → Nat
  | .bol => ZLS_AT_START
  | .eol => ZLS_AT_END
  | .nothing | .endProgram => ZLS_ANYWHERE
  | .atom cs => if cs.length == 0 then ZLS_ANYWHERE else ZLS_NEVER
  | .cls _ => ZLS_NEVER
  | .backref _ => 0
  | .capture _ c => mzs c
  | .choice bs => mzsChoice bs
  | .seq ops => mzsSeqOf (mzsL ops)
  | .rep _ c mn _ _ => if mn == 0 then ZLS_ANYWHERE else mzs c
  | .gfixed c mn _ _ => if mn == 0 then ZLS_ANYWHERE else mzs c
  | .rfixed c mn _ _ => if mn == 0 then ZLS_ANYWHERE else mzs c
  | .unamb c mn _ => if mn == 0 then ZLS_ANYWHERE else mzs c
termination_by structural o => o
def mzsChoice : List Op → Nat
  | [] => 0
  | b :: bs => let m := mzs b; let r := mzsChoice bs; if m != ZLS_NEVER then natOr r m else r
termination_by structural l => l
def mzsL : List Op → List Nat
  | [] => []
  | o :: os => mzs o :: mzsL os
termination_by structural l => l
end

mutual
/-- `get_initial_character_class(case_blind)` -/
def initialClass (env : Env) (caseBlind : Bool) : Op → Ranges
  | .atom cs => match cs with
      | [] => []
      | c :: _ => if caseBlind then addChars (env.closure c) (addChar c []) else addChar c []
  | .cls rs => rs
  | .choice bs => initialClassChoice env caseBlind bs
  | .seq ops => initialClassSeq env caseBlind ops
  | .rep _ c mn _ _ => if mn == 0 then allR else initialClass env caseBlind c
  | _ => allR
termination_by structural o => o
def initialClassChoice (env : Env) (caseBlind : Bool) : List Op → Ranges
  | [] => []
  | b :: bs => unionR (initialClass env caseBlind b) (initialClassChoice env caseBlind bs)
termination_by structural l => l
def initialClassSeq (env : Env) (caseBlind : Bool) : List Op → Ranges
  | [] => []
  | o :: os =>
    if mzs o == ZLS_NEVER then initialClass env caseBlind o
    else unionR (initialClass env caseBlind o) (initialClassSeq env caseBlind os)
termination_by structural l => l
end

/-- `Operation::repeat_operation`: (child, min, max, greedy) -/
def repeatParts : Op → Option (Op × Nat × Nat × Bool)
  | .rep _ c mn mx g => some (c, mn, mx, g)
  | .gfixed c mn mx _ => some (c, mn, mx, true)
  | .rfixed c mn mx _ => some (c, mn, mx, false)
  | .unamb c mn mx => some (c, mn, mx, true)
  | _ => none

def isAtomOrClass : Op → Bool
  | .atom _ => true
  | .cls _ => true
  | _ => false

/-- `ReCompiler::no_ambiguity(op0, op1, case_blind, reluctant, multi_line)` -/
def noAmbiguity (env : Env) (op0 op1 : Op) (caseBlind reluctant multiLine : Bool) : Bool :=
  match op1 with
  | .endProgram => !reluctant
  | .bol => false
  | .eol => !multiLine
  | _ =>
    match repeatParts op1 with
    | some (_, 0, _, _) => false
    | _ => isDisjoint (initialClass env caseBlind op0) (initialClass env caseBlind op1)

mutual
/-- `optimize(flags)` -/
def optimize (env : Env) (fl : CFlags) : Op → Op
  | .capture g c => .capture g (optimize env fl c)
  | .choice bs => .choice (optimizeL env fl bs)
  | .seq ops => match ops with
      | [] => .nothing
      | [o] => o
      | o :: o2 :: os => .seq (optimizeSeq env fl (o :: o2 :: os))
  | .rep id c mn mx g =>
      let c' := optimize env fl c
      let mn' := if mn == 0 && mzs c' == ZLS_ANYWHERE then 1 else mn
      .rep id c' mn' mx g
  | .gfixed c mn mx len =>
      if mx == 0 then .nothing
      else if matchLen c == some 0 then c
      else .gfixed (optimize env fl c) mn mx len
  | .rfixed c mn mx len => .rfixed (optimize env fl c) mn mx len
  | .unamb c mn mx => .unamb (optimize env fl c) mn mx
  | o => o
termination_by structural o => o
def optimizeL (env : Env) (fl : CFlags) : List Op → List Op
  | [] => []
  | o :: os => optimize env fl o :: optimizeL env fl os
termination_by structural l => l
/-- the `map` over a sequence of ≥ 2 operations: element `i` is optimized and then possibly
    replaced by an UnambiguousRepeat, judged against the *un-optimized* element `i + 1` -/
def optimizeSeq (env : Env) (fl : CFlags) : List Op → List Op
  | [] => []
  | [o] => [optimize env fl o]
  | o :: nxt :: os =>
    let opt := optimize env fl o
    let r := match repeatParts opt with
      | some (child, mn, mx, greedy) =>
        if isAtomOrClass child then
          if mn == mx then .unamb child mn mx
          else if noAmbiguity env child nxt fl.caseBlind (!greedy) fl.multiLine then .unamb child mn mx
          else opt
        else opt
      | none => opt
    r :: optimizeSeq env fl (nxt :: os)
termination_by structural l => l
end

end Rx
