/-
  Model/Parser — the recursive-descent compiler (re_compiler.rs): `bracket`, `escape`,
  `parse_character_class`, `parse_atom`, `parse_terminal`, `piece`, `parse_branch`, `parse_expr`,
  `make_sequence`.  Transcribed branch by branch; `Error::Internal` sites are kept.
  Recursion is on an explicit fuel (every recursive call and every loop iteration consumes input,
  so `4 * len + 16` is enough; running out is reported as `Error::Internal`).
-/
import RxModel.Model.Optimize
namespace Rx

/-- mutable compiler state -/
structure PS where
  idx : Nat := 0
  parens : Nat := 1            -- capturing_open_paren_count
  bmin : Nat := 0              -- bracket_min
  bmax : Nat := 0              -- bracket_max
  captures : List Nat := []    -- closed capturing groups
  hasBackrefs : Bool := false
deriving Repr, Inhabited

inductive PRes (α : Type) where
  | ok (a : α) (s : PS)
  | err (e : Err)
deriving Inhabited

/-- read-only compiler context -/
structure PC where
  pat : List Nat
  fl : CFlags
  env : Env

def PC.len (c : PC) : Nat := c.pat.length
def PC.at (c : PC) (i : Nat) : Nat := c.pat.getD i 0

/-- `there_follows(s)` -/
def thereFollows (c : PC) (idx : Nat) (s : List Nat) : Bool :=
  decide (idx + s.length ≤ c.len) && ((c.pat.drop idx).take s.length == s)

/-- `CharacterClassBuilder` / back-reference, the result of `escape` -/
inductive Esc where
  | chr (c : Nat)
  | set (rs : Ranges)
  | backref (n : Nat)
deriving Repr, Inhabited

def Esc.toSet : Esc → Ranges
  | .chr c => addChar c []
  | .set rs => rs
  | .backref _ => []

/-! ### `{m,n}` -/

def takeDigitRun (c : PC) : (fuel : Nat) → (idx : Nat) → (acc : Nat) → Nat × Nat
  | 0, idx, acc => (idx, acc)
  | f+1, idx, acc =>
    if idx < c.len && isDigit (c.at idx) then takeDigitRun c f (idx + 1) (acc * 10 + (c.at idx - 48))
    else (idx, acc)

/-- `bracket()`: parses `{m}`, `{m,}`, `{m,n}` into `bmin`/`bmax` -/
def bracket (c : PC) (s : PS) : PRes Unit :=
  if s.idx ≥ c.len then .err .internal else
  if c.at s.idx != 123 then .err .internal else
  let idx := s.idx + 1
  if idx ≥ c.len || !isDigit (c.at idx) then .err .syntax else
  let r := takeDigitRun c (c.len + 1) idx 0
  let idx := r.1
  let mn := r.2
  if mn > usizeMax then .err .syntax else
  if idx ≥ c.len then .err .syntax else
  if c.at idx == 125 then .ok () { s with idx := idx + 1, bmin := mn, bmax := mn } else
  if c.at idx != 44 then .err .syntax else
  let idx := idx + 1
  if idx ≥ c.len then .err .syntax else
  if c.at idx == 125 then .ok () { s with idx := idx + 1, bmin := mn, bmax := usizeMax } else
  if !isDigit (c.at idx) then .err .syntax else
  let r := takeDigitRun c (c.len + 1) idx 0
  let idx := r.1
  let mx := r.2
  if mx > usizeMax then .err .syntax else
  if mx < mn then .err .syntax else
  if idx ≥ c.len || c.at idx != 125 then .err .syntax else
  .ok () { s with idx := idx + 1, bmin := mn, bmax := mx }

/-! ### escapes -/

def escapeS : Ranges := addChars [9, 10, 13, 32] []

/-- position of the first `}` at or after `from` -/
def findClose (c : PC) : (fuel : Nat) → (i : Nat) → Option Nat
  | 0, _ => none
  | f+1, i => if i ≥ c.len then none else if c.at i == 125 then some i else findClose c f (i + 1)

/-- the digits of a back-reference after the first one -/
def backrefDigits (c : PC) (parens : Nat) : (fuel : Nat) → (idx : Nat) → (n : Nat) → Nat × Nat
  | 0, idx, n => (idx, n)
  | f+1, idx, n =>
    if idx < c.len && isDigit (c.at idx) then
      let n2 := n * 10 + (c.at idx - 48)
      if n2 > parens - 1 then (idx, n) else backrefDigits c parens f (idx + 1) n2
    else (idx, n)

/-- `escape(in_square_brackets)` -/
def escape (c : PC) (s : PS) (inBrackets : Bool) : PRes Esc :=
  if c.at s.idx != 92 then .err .internal else
  if s.idx + 1 ≥ c.len then .err .syntax else
  let e := c.at (s.idx + 1)
  let s := { s with idx := s.idx + 2 }
  if e == 110 then .ok (.chr 10) s                      -- n
  else if e == 114 then .ok (.chr 13) s                 -- r
  else if e == 116 then .ok (.chr 9) s                  -- t
  else if e == 92 || e == 124 || e == 46 || e == 45 || e == 94 || e == 63 || e == 42 || e == 43 ||
          e == 123 || e == 125 || e == 40 || e == 41 || e == 91 || e == 93 then .ok (.chr e) s
  else if e == 36 then (if c.fl.xsd then .err .syntax else .ok (.chr 36) s)     -- $
  else if e == 115 then .ok (.set escapeS) s            -- s
  else if e == 83 then .ok (.set (complR escapeS)) s    -- S
  else if e == 105 then .ok (.set c.env.nameStart) s    -- i
  else if e == 73 then .ok (.set (complR c.env.nameStart)) s
  else if e == 99 then .ok (.set c.env.nameChar) s      -- c
  else if e == 67 then .ok (.set (complR c.env.nameChar)) s
  else if e == 100 then .ok (.set c.env.digit) s        -- d
  else if e == 68 then .ok (.set (complR c.env.digit)) s
  else if e == 119 then .ok (.set c.env.word) s         -- w
  else if e == 87 then .ok (.set (complR c.env.word)) s
  else if e == 112 || e == 80 then                      -- p / P
    if s.idx == c.len then .err .syntax else
    if c.at s.idx != 123 then .err .syntax else
    let from_ := s.idx + 1
    match findClose c (c.len + 1) from_ with
    | none => .err .syntax
    | some close =>
      let block := (c.pat.drop from_).take (close - from_)
      if block.length == 1 || block.length == 2 then
        match c.env.category block with
        | none => .err .syntax
        | some rs => .ok (.set (if e == 112 then rs else complR rs)) { s with idx := close + 1 }
      else if block.take 2 == [73, 115] then            -- "Is"
        match c.env.block (block.drop 2) with
        | none => .err .syntax
        | some rs => .ok (.set (if e == 112 then rs else complR rs)) { s with idx := close + 1 }
      else .err .syntax
  else if e == 48 then .err .syntax                     -- 0: octal
  else if 49 ≤ e && e ≤ 57 then                         -- 1..9: back-reference
    if inBrackets then .err .syntax else
    if c.fl.xsd then .err .syntax else
    let r := backrefDigits c s.parens (c.len + 1) s.idx (e - 48)
    if !r.2 ∈ s.captures then .err .syntax else
    .ok (.backref r.2) { s with idx := r.1, hasBackrefs := true }
  else .err .syntax

/-! ### character class expressions -/

/-- add `c` and, under flag i, its case closure -/
def addCharCI (c : PC) (ch : Nat) (rs : Ranges) : Ranges :=
  let rs := addChar ch rs
  if c.fl.caseBlind then addChars (c.env.closure ch) rs else rs

/-- closure of every scalar value in `[a, b]` -/
def addClosureRange (c : PC) : (fuel : Nat) → (a b : Nat) → Ranges → Ranges
  | 0, _, _, rs => rs
  | f+1, a, b, rs =>
    if a > b then rs
    else addClosureRange c f (a + 1) b (if isSurrogate a then rs else addChars (c.env.closure a) rs)

structure ClsSt where
  positive : Bool := true
  definingRange : Bool := false
  rangeStart : Option Nat := none
  builder : Ranges := []
  addend : Option Ranges := none
  subtrahend : Option Ranges := none

def ClsSt.finish (k : ClsSt) : Ranges :=
  let r := match k.addend with
    | some a => unionR k.builder a
    | none => k.builder
  let r := if k.positive then r else complR r
  match k.subtrahend with
  | some sub => diffR r sub
  | none => r

/-- "handle simple character": the tail of the loop body of `parse_character_class` -/
def clsSimple (c : PC) (idx : Nat) (k : ClsSt) (simple : Option Nat) : Option ClsSt :=
  if k.definingRange then
    match k.rangeStart, simple with
    | some st, some en =>
      if st > en then none
      else
        let b := addRange st (en + 1) k.builder
        let b := if c.fl.caseBlind then addClosureRange c (en - st + 2) st en b else b
        some { k with builder := b, definingRange := false, rangeStart := none }
    | _, _ => some k
  else
    if thereFollows c idx [45] then
      if thereFollows c idx [45, 91] || thereFollows c idx [45, 93] || thereFollows c idx [45, 45, 91] then
        match simple with
        | some ch => some { k with builder := addCharCI c ch k.builder }
        | none => some k
      else if thereFollows c idx [45, 45] then none
      else some { k with rangeStart := simple }
    else
      match simple with
      | some ch => some { k with builder := addCharCI c ch k.builder }
      | none => some k

mutual
/-- `parse_character_class()`; `s.idx` is at `[` -/
def parseClass (c : PC) : (fuel : Nat) → PS → PRes Ranges
  | 0, _ => .err .internal
  | f+1, s =>
    if c.at s.idx != 91 then .err .internal else
    let idx := s.idx + 1
    if idx + 1 ≥ c.len || c.at idx == 93 then .err .syntax else
    if thereFollows c idx [94] then
      if thereFollows c idx [94, 45, 91] then .err .syntax
      else if thereFollows c idx [94, 93] then .err .syntax
      else classLoop c f { s with idx := idx + 1 } { positive := false }
    else if thereFollows c idx [45, 91] then .err .syntax
    else classLoop c f { s with idx := idx } {}
/-- the `while` loop of `parse_character_class` -/
def classLoop (c : PC) : (fuel : Nat) → PS → ClsSt → PRes Ranges
  | 0, _, _ => .err .internal
  | f+1, s, k =>
    if s.idx < c.len && c.at s.idx != 93 then
      let ch := c.at s.idx
      if ch == 91 then .err .syntax
      else if ch == 92 then
        match escape c s true with
        | .err e => .err e
        | .ok (.chr x) s' =>
          (match clsSimple c s'.idx k (some x) with
           | none => .err .syntax
           | some k' => classLoop c f s' k')
        | .ok (.set rs) s' =>
          if k.definingRange then .err .syntax
          else classLoop c f s' { k with addend := some (match k.addend with | some a => unionR a rs | none => rs) }
        | .ok (.backref _) _ => .err .internal      -- unreachable!()
      else if ch == 45 then
        if thereFollows c s.idx [45, 91] then
          match parseClass c f { s with idx := s.idx + 1 } with
          | .err e => .err e
          | .ok sub s' =>
            if !thereFollows c s'.idx [93] then .err .syntax
            else
              (match clsSimple c s'.idx { k with subtrahend := some sub } none with
               | none => .err .syntax
               | some k' => classLoop c f s' k')
        else if thereFollows c s.idx [45, 93] then
          (match clsSimple c (s.idx + 1) k (some 45) with
           | none => .err .syntax
           | some k' => classLoop c f { s with idx := s.idx + 1 } k')
        else if k.rangeStart.isSome then
          classLoop c f { s with idx := s.idx + 1 } { k with definingRange := true }
        else if k.definingRange then .err .syntax
        else if thereFollows c s.idx [45, 45] && !thereFollows c s.idx [45, 45, 91] then .err .syntax
        else
          (match clsSimple c (s.idx + 1) k (some 45) with
           | none => .err .syntax
           | some k' => classLoop c f { s with idx := s.idx + 1 } k')
      else
        (match clsSimple c (s.idx + 1) k (some ch) with
         | none => .err .syntax
         | some k' => classLoop c f { s with idx := s.idx + 1 } k')
    else
      if s.idx == c.len then .err .syntax
      else .ok k.finish { s with idx := s.idx + 1 }
end

/-! ### atoms -/

def isQuantChar (ch : Nat) : Bool := ch == 123 || ch == 63 || ch == 42 || ch == 43

/-- `parse_atom()` -/
def parseAtomGo (c : PC) : (fuel : Nat) → PS → (ub : List Nat) → PRes (List Nat)
  | 0, s, ub => .ok ub s
  | f+1, s, ub =>
    if s.idx < c.len then
      -- look-ahead: would the next character bind to a quantifier?
      let look : PRes Bool :=
        if s.idx + 1 < c.len then
          if c.at s.idx == 92 then
            match escape c s false with
            | .err e => .err e
            | .ok _ s' =>
              let ch := if s'.idx < c.len then c.at s'.idx else c.at (s.idx + 1)
              .ok (isQuantChar ch && !ub.isEmpty) { s' with idx := s.idx }
          else .ok (isQuantChar (c.at (s.idx + 1)) && !ub.isEmpty) s
        else .ok false s
      match look with
      | .err e => .err e
      | .ok true s => .ok ub s
      | .ok false s =>
        let ch := c.at s.idx
        if ch == 93 || ch == 46 || ch == 91 || ch == 40 || ch == 41 || ch == 124 then .ok ub s
        else if isQuantChar ch then (if ub.isEmpty then .err .syntax else .ok ub s)
        else if ch == 125 then .err .syntax
        else if ch == 92 then
          match escape c s false with
          | .err e => .err e
          | .ok (.chr x) s' => parseAtomGo c f s' (ub ++ [x])
          | .ok _ s' => .ok ub { s' with idx := s.idx }
        else if (ch == 94 || ch == 36) && !c.fl.xsd then .ok ub s
        else parseAtomGo c f { s with idx := s.idx + 1 } (ub ++ [ch])
    else .ok ub s

def parseAtom (c : PC) (s : PS) : PRes Op :=
  match parseAtomGo c (c.len + 2) s [] with
  | .err e => .err e
  | .ok ub s' => if ub.isEmpty then .err .internal else .ok (.atom ub) s'

/-! ### sequences -/

/-- `make_sequence(o1, o2)` -/
def makeSequence : Op → Op → Op
  | .seq l1, .seq l2 => .seq (l1 ++ l2)
  | .seq l1, o2 => .seq (l1 ++ [o2])
  | o1, .seq l2 => .seq (o1 :: l2)
  | o1, o2 => .seq [o1, o2]

def isAnchor : Op → Bool
  | .bol => true
  | .eol => true
  | _ => false

/-- the quantifier part of `piece()`, after the terminal `ret` has been parsed -/
def pieceQuant (c : PC) (ret : Op) (s : PS) : PRes Op :=
  if s.idx ≥ c.len then .ok ret s else
  let q := c.at s.idx
  let r : PRes Bool :=
    if q == 63 || q == 42 || q == 43 then .ok true { s with idx := s.idx + 1 }
    else if q == 123 then (match bracket c s with | .ok _ s' => .ok true s' | .err e => .err e)
    else .ok false s
  match r with
  | .err e => .err e
  | .ok hasQ s =>
    -- `qt`: 0 = none, else the quantifier character
    let qt0 : Nat := if hasQ then q else 0
    let (ret, qt) : Op × Nat :=
      if hasQ && isAnchor ret then
        if qt0 == 63 || qt0 == 42 || (qt0 == 123 && s.bmin == 0) then (.nothing, 0) else (ret, 0)
      else (ret, qt0)
    let qt : Nat :=
      if hasQ && mzs ret == ZLS_ANYWHERE then
        (if qt == 63 then 0 else if qt == 43 then 42 else if qt == 123 then 42 else qt)
      else qt
    let reluctant := s.idx < c.len && c.at s.idx == 63
    if reluctant && c.fl.xsd then .err .syntax else
    let s := if reluctant then { s with idx := s.idx + 1 } else s
    let greedy := !reluctant
    let mm : Nat × Nat :=
      if qt == 123 then (s.bmin, s.bmax)
      else if qt == 63 then (0, 1)
      else if qt == 43 then (1, usizeMax)
      else if qt == 42 then (0, usizeMax)
      else (1, 1)
    let mn := mm.1
    let mx := mm.2
    if mx == 0 then .ok .nothing s
    else if mn == 1 && mx == 1 then .ok ret s
    else if matchLen ret == some 0 then (if mn == 0 then .ok .nothing s else .ok ret s)
    else if greedy then
      match matchLen ret with
      | some l => if l > 0 then .ok (.gfixed ret mn mx l) s else .ok .nothing s
      | none => .ok (.rep 0 ret mn mx true) s
    else
      match matchLen ret with
      | some l => .ok (.rfixed ret mn mx l) s
      | none => .ok (.rep 0 ret mn mx false) s

mutual
/-- `parse_expr(flags)`; `top` = NODE_TOPLEVEL -/
def parseExpr (c : PC) : (fuel : Nat) → PS → (top : Bool) → PRes Op
  | 0, _, _ => .err .internal
  | f+1, s, top =>
    let closeParens := s.parens
    -- (paren kind: 0 = none, 1 = capturing, 2 = cluster)
    let open_ : PRes Nat :=
      if !top && c.at s.idx == 40 then
        if s.idx + 2 < c.len && c.at (s.idx + 1) == 63 && c.at (s.idx + 2) == 58 then
          (if c.fl.xsd then .err .syntax else .ok 2 { s with idx := s.idx + 3 })
        else .ok 1 { s with idx := s.idx + 1, parens := s.parens + 1 }
      else .ok 0 s
    match open_ with
    | .err e => .err e
    | .ok paren s =>
      match parseBranch c f s none with
      | .err e => .err e
      | .ok b1 s =>
        match parseBranches c f s [b1] with
        | .err e => .err e
        | .ok branches s =>
          let op := match branches with
            | [b] => b
            | bs => .choice bs
          if paren != 0 then
            if s.idx < c.len && c.at s.idx == 41 then
              let s := { s with idx := s.idx + 1 }
              if paren == 1 then .ok (.capture closeParens op) { s with captures := closeParens :: s.captures }
              else .ok op s
            else .err .syntax
          else .ok (makeSequence op .endProgram) s
/-- `while pattern[idx] == '|' { idx += 1; branches.push(parse_branch()?) }` -/
def parseBranches (c : PC) : (fuel : Nat) → PS → List Op → PRes (List Op)
  | 0, _, _ => .err .internal
  | f+1, s, acc =>
    if s.idx < c.len && c.at s.idx == 124 then
      match parseBranch c f { s with idx := s.idx + 1 } none with
      | .err e => .err e
      | .ok b s' => parseBranches c f s' (acc ++ [b])
    else .ok acc s
/-- `parse_branch()`: pieces until `|`, `)` or the end -/
def parseBranch (c : PC) : (fuel : Nat) → PS → (current : Option Op) → PRes Op
  | 0, _, _ => .err .internal
  | f+1, s, current =>
    if s.idx < c.len && c.at s.idx != 124 && c.at s.idx != 41 then
      match parseTerminal c f s with
      | .err e => .err e
      | .ok ret s' =>
        match pieceQuant c ret s' with
        | .err e => .err e
        | .ok op s'' =>
          parseBranch c f s'' (some (match current with | some cur => makeSequence cur op | none => op))
    else .ok (current.getD .nothing) s
/-- `parse_terminal(flags)` -/
def parseTerminal (c : PC) : (fuel : Nat) → PS → PRes Op
  | 0, _ => .err .internal
  | f+1, s =>
    let ch := c.at s.idx
    if ch == 36 && !c.fl.xsd then .ok .eol { s with idx := s.idx + 1 }
    else if ch == 94 && !c.fl.xsd then .ok .bol { s with idx := s.idx + 1 }
    else if ch == 46 then
      .ok (.cls (if c.fl.singleLine then allR else complR (addChars [10, 13] []))) { s with idx := s.idx + 1 }
    else if ch == 91 then
      match parseClass c (c.len + 2) s with
      | .err e => .err e
      | .ok rs s' => .ok (.cls rs) s'
    else if ch == 40 then parseExpr c f s false
    else if ch == 41 then .err .syntax
    else if ch == 124 then .err .internal
    else if ch == 93 then .err .syntax
    else if ch == 63 || ch == 43 || ch == 123 || ch == 42 then .err .syntax
    else if ch == 92 then
      match escape c s false with
      | .err e => .err e
      | .ok (.backref n) s' => if s'.parens ≤ n then .err .syntax else .ok (.backref n) s'
      | .ok (.chr _) s' => parseAtom c { s' with idx := s.idx }
      | .ok (.set rs) s' => .ok (.cls rs) s'
    else parseAtom c s
end

/-! ### the x-flag pre-pass -/

/-- strip XSD whitespace outside `[...]` (re_compiler.rs, `compile`) -/
def stripWs : List Nat → (nesting : Int) → (escaped : Bool) → List Nat
  | [], _, _ => []
  | ch :: rest, nesting, escaped =>
    if ch == 92 && !escaped then ch :: stripWs rest nesting true
    else if ch == 91 && !escaped then ch :: stripWs rest (nesting + 1) escaped
    else if ch == 93 && !escaped then ch :: stripWs rest (nesting - 1) escaped
    else if nesting == 0 && (ch == 9 || ch == 10 || ch == 13 || ch == 32) then stripWs rest nesting escaped
    else ch :: stripWs rest nesting false

end Rx
