/-
  Model/Stream — Rust iterators over shared mutable matcher state as *resumption streams*.

  `Step.cons n st r` : the iterator yields `n` leaving the state `st`; `r st'` is what the same
  iterator does on its next `next()` when the consumer hands back the state `st'`.
  Dropping an iterator = never applying `r`.
-/
import RxModel.Model.Basic
namespace Rx

inductive Step where
  | nil     : St → Step
  | cons    : Nat → St → (St → Step) → Step
  | diverge : Step

/-- `op.matches_iter(matcher, position)` fused with its first `next()` -/
abbrev Gen := Nat → St → Step

namespace Step

def once (n : Nat) (st : St) : Step := .cons n st .nil

def append : Step → (St → Step) → Step
  | .nil st, f => f st
  | .cons n st r, f => .cons n st (fun st' => (r st').append f)
  | .diverge, _ => .diverge

def bind : Step → (Nat → St → Step) → Step
  | .nil st, _ => .nil st
  | .cons n st r, f => (f n st).append (fun st' => (r st').bind f)
  | .diverge, _ => .diverge

/-- like `bind`, but the first element and the later ones are continued differently -/
def bindFR : Step → (Nat → St → Step) → (Nat → St → Step) → Step
  | .nil st, _, _ => .nil st
  | .cons n st r, f, g => (f n st).append (fun st' => (r st').bind g)
  | .diverge, _, _ => .diverge

/-- a state write at every yield -/
def mapSt : Step → (Nat → St → St) → Step
  | .nil st, _ => .nil st
  | .cons n st r, f => .cons n (f n st) (fun st' => (r st').mapSt f)
  | .diverge, _ => .diverge

/-- a state write when the iterator is exhausted -/
def onNil : Step → (St → St) → Step
  | .nil st, f => .nil (f st)
  | .cons n st r, f => .cons n st (fun st' => (r st').onNil f)
  | .diverge, _ => .diverge

/-- `ForceProgressIterator` (operation.rs): gives up after the same position was seen
    four more times in a row -/
def force (cnt : Nat) (cur : Option Nat) : Step → Step
  | .nil st => .nil st
  | .cons n st r =>
    let cnt' := if some n == cur then cnt + 1 else 0
    .cons n st (fun st' => if cnt' > 3 then .nil st' else (r st').force cnt' (some n))
  | .diverge => .diverge

end Step

/-- create an iterator, pull once, drop it -/
def first1 (s : Step) : Option (Nat × St) × St :=
  match s with
  | .cons n st _ => (some (n, st), st)
  | .nil st => (none, st)
  | .diverge => (none, ({} : St).setPanic panicDiverge)

end Rx
