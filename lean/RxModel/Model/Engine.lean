/-
  Model/Engine — one generator per operation kind (op_*.rs, operation.rs, history.rs), and `sem`.
  Transcribed from the tree *after* the `fix:` commits recorded in /verif/KNOWN_FINDINGS.json.
-/
import RxModel.Model.Stream
namespace Rx

/-- character class: list of half-open ranges `[a, b)` (an inversion list, pairwise) -/
abbrev Ranges := List (Nat × Nat)

def clsContains : Ranges → Nat → Bool
  | [], _ => false
  | (a, b) :: rs, c => (decide (a ≤ c) && decide (c < b)) || clsContains rs c

inductive Op where
  | bol | eol | nothing | endProgram
  | atom (cs : List Nat)
  | cls (ranges : Ranges)
  | backref (g : Nat)
  | capture (g : Nat) (child : Op)
  | choice (bs : List Op)
  | seq (ops : List Op)
  | rep (id : Nat) (child : Op) (min max : Nat) (greedy : Bool)
  | gfixed (child : Op) (min max len : Nat)
  | rfixed (child : Op) (min max len : Nat)
  | unamb (child : Op) (min max : Nat)
deriving Repr, Inhabited

/-- what the engine reads from the matcher besides the state -/
structure Ctx where
  input : List Nat
  caseBlind : Bool
  multiLine : Bool
  hasBackrefs : Bool
  maxParens : Nat
  lower : Nat → Nat          -- ICU simple_lowercase (a parameter; tables in Generated/)

def Ctx.len (c : Ctx) : Nat := c.input.length

/-- `ReMatcher::equal_case_blind` -/
def eqCB (lower : Nat → Nat) (a b : Nat) : Bool := a == b || lower a == lower b

def Ctx.eqAt (c : Ctx) (a b : Nat) : Bool := if c.caseBlind then eqCB c.lower a b else a == b

def Ctx.nlAt (c : Ctx) (i : Nat) : Bool := c.input[i]? == some 10

/-- do the characters `cs` occur at the head of `xs` (under the context's comparison)? -/
def prefixMatch (ctx : Ctx) : List Nat → List Nat → Bool
  | [], _ => true
  | _ :: _, [] => false
  | c :: cs, x :: xs => ctx.eqAt x c && prefixMatch ctx cs xs

/-! contains_capturing_expressions -/
def isCapture : Op → Bool
  | .capture _ _ => true
  | _ => false

mutual
def containsCap : Op → Bool
  | .seq ops => containsCapL ops
  | .choice bs => containsCapL bs
  | .rep _ c _ _ _ => isCapture c || containsCap c
  | .gfixed c _ _ _ => isCapture c || containsCap c
  | .rfixed c _ _ _ => isCapture c || containsCap c
  | .unamb c _ _ => isCapture c || containsCap c
  | _ => false
termination_by structural o => o
def containsCapL : List Op → Bool
  | [] => false
  | o :: os => (isCapture o || containsCap o) || containsCapL os
termination_by structural l => l
end

/-! ### leaf operations -/

def atomGen (ctx : Ctx) (cs : List Nat) : Gen := fun p st =>
  if p + cs.length > ctx.len then .nil st
  else if prefixMatch ctx cs (ctx.input.drop p) then .once (p + cs.length) st
  else .nil st

def clsGen (ctx : Ctx) (rs : Ranges) : Gen := fun p st =>
  match ctx.input[p]? with
  | some c => if clsContains rs c then .once (p + 1) st else .nil st
  | none => .nil st

def bolGen (ctx : Ctx) : Gen := fun p st =>
  if p != 0 then
    if ctx.multiLine && ctx.nlAt (p - 1) && decide (p < ctx.len) then .once p st else .nil st
  else .once p st

def eolGen (ctx : Ctx) : Gen := fun p st =>
  if ctx.multiLine then
    if ctx.len == 0 || decide (p ≥ ctx.len) || ctx.nlAt p then .once p st else .nil st
  else if ctx.len == 0 || decide (p ≥ ctx.len) then .once p st else .nil st

def nothingGen : Gen := fun p st => .once p st

/-- EndProgram (non-anchored match): records the end of group 0 -/
def endGen : Gen := fun p st => .once p { st with cap := st.cap.setEnd 0 p }

/-- compare `l` characters at `p` with those at `s` -/
def sameText (ctx : Ctx) : (l : Nat) → (p s : Nat) → Bool
  | 0, _, _ => true
  | l+1, p, s =>
    match ctx.input[p]?, ctx.input[s]? with
    | some a, some b => ctx.eqAt a b && sameText ctx l (p+1) (s+1)
    | _, _ => false

def backrefGen (ctx : Ctx) (g : Nat) : Gen := fun p st =>
  if g ≥ st.startBr.length then .nil (st.setPanic panicBackrefIndex) else
  match getO st.startBr g, getO st.endBr g with
  | some s, some e =>
    if e ≤ s then .once p st     -- empty, or the group was re-entered and has not completed again (fix a635aaf)
    else
      let l := e - s
      if p + l - 1 ≥ ctx.len then .nil st
      else if sameText ctx l p s then .once (p + l) st else .nil st
  | _, _ => .once p st      -- group did not participate: matches the empty string

def captureWrite (ctx : Ctx) (g p n : Nat) (st : St) : St :=
  let cap := st.cap
  let cap := if g ≥ cap.parenCount then { cap with parenCount := g + 1 } else cap
  let cap := (cap.setStart g p).setEnd g n
  let st := { st with cap := cap }
  if ctx.hasBackrefs then { st with startBr := setIn st.startBr g (some p), endBr := setIn st.endBr g (some n) } else st

def captureGen (ctx : Ctx) (g : Nat) (child : Gen) : Gen := fun p st =>
  let st1 := if ctx.hasBackrefs then
      (if g ≥ st.startBr.length then st.setPanic panicCaptureIndex
       else { st with startBr := setIn st.startBr g (some p) })
    else st
  (child p st1).mapSt (fun n st' => captureWrite ctx g p n st')

/-! ### choice and sequence -/

def choiceGen : List Gen → Gen
  | [] => fun _ st => .nil st
  | g :: gs => fun p st => (g p (clearBeyond st p)).append (fun st' => choiceGen gs p st')

def seqGo : List Gen → Gen
  | [] => fun _ st => .nil st            -- unreachable: sequences are non-empty
  | [g] => fun p st => (g p st).mapSt (fun n st' => clearBeyond st' n)
  | g :: g2 :: gs => fun p st => ((g p st).mapSt (fun n st' => clearBeyond st' n)).bind (seqGo (g2 :: gs))

/-- SequenceIterator: `saved_state` is restored when the sequence is exhausted -/
def seqGen (hasCap : Bool) (gs : List Gen) : Gen := fun p st =>
  let saved := st.cap
  (seqGo gs p st).onNil (fun st' => if hasCap then { st' with cap := saved } else st')

/-! ### fixed-length repeats -/

/-- GreedyFixed: eager counting loop -/
def gfixedLoop (child : Gen) (len max guard : Nat) : (fuel : Nat) → (p cnt : Nat) → St → Nat × Nat × St
  | 0, p, m, st => (p, m, st.setPanic panicDiverge)
  | f+1, p, m, st =>
    if p ≤ guard then
      match first1 (child p st) with
      | (some _, st') =>
        let m := m + 1
        let p := p + len
        if m == max then (p, m, st') else gfixedLoop child len max guard f p m st'
      | (none, st') => (p, m, st')
    else (p, m, st)

/-- IntStepIterator with a negative step -/
def descend (len limit : Nat) : (fuel : Nat) → (cur : Nat) → St → Step
  | 0, _, _ => .diverge                 -- only with len = 0 (never built by the compiler)
  | f+1, cur, st =>
    if cur ≥ limit then
      .cons cur st (fun st' => if cur ≥ limit + len then descend len limit f (cur - len) st' else .nil st')
    else .nil st

def gfixedGen (ctx : Ctx) (child : Gen) (min max len : Nat) : Gen := fun position st =>
  let guard0 := ctx.len
  let guard := if max < usizeMax then Nat.min guard0 (position + len * max) else guard0
  if position ≥ guard && decide (min > 0) then .nil st else
  let r := gfixedLoop child len max guard (ctx.len + 2) position 0 st
  if r.2.1 < min then .nil r.2.2
  else descend len (position + len * min) (ctx.len + 3) r.1 r.2.2

/-- the first `min` iterations of a reluctant loop (first match of the body each time) -/
def iterMin (child : Gen) (min : Nat) : (fuel : Nat) → (count pos : Nat) → St → Option (Nat × Nat) × St
  | 0, _, _, st => (none, st.setPanic panicDiverge)
  | f+1, count, pos, st =>
    if count < min then
      match first1 (child pos st) with
      | (some (n, _), st') => iterMin child min f (count+1) n st'
      | (none, st') => (none, st')
    else (some (count, pos), st)

/-- ReluctantFixedIterator after its first result: one more iteration per call -/
def rfixedMore (child : Gen) (max position : Nat) : (fuel : Nat) → (count pos : Nat) → St → Step
  | 0, _, _, _ => .diverge
  | f+1, count, pos, st =>
    if count < max then
      let st1 := clearBeyond st position
      match first1 (child pos st1) with
      | (some (n, _), st') => .cons n st' (fun st'' => rfixedMore child max position f (count+1) n st'')
      | (none, st') => .nil st'
    else .nil st

/-- fuel for loops that the Rust bounds only by a quantifier bound: generous for every input that
    terminates in practice (the body makes progress or the bound is small) -/
def loopFuel (ctx : Ctx) (min : Nat) : Nat := Nat.min (min + 1) (ctx.len + 1000)

def rfixedGen (ctx : Ctx) (child : Gen) (min max : Nat) : Gen := fun position st =>
  match iterMin child min (loopFuel ctx min) 0 position st with
  | (none, st') => .nil st'
  | (some (count, pos), st') =>
    .cons pos st' (fun st'' => rfixedMore child max position (6 * (ctx.len + 3)) count pos st'')

/-- UnambiguousRepeat: longest run, no backtracking -/
def unambLoop (child : Gen) (max guard : Nat) : (fuel : Nat) → (p cnt : Nat) → St → Nat × Nat × St
  | 0, p, m, st => (p, m, st.setPanic panicDiverge)
  | f+1, p, m, st =>
    if decide (m < max) && decide (p ≤ guard) then
      match first1 (child p st) with
      | (some (n, _), st') => unambLoop child max guard f n (m+1) st'
      | (none, st') => (p, m, st')
    else (p, m, st)

def unambGen (ctx : Ctx) (child : Gen) (min max : Nat) : Gen := fun position st =>
  let r := unambLoop child max ctx.len (Nat.min max (ctx.len + 2) + 1) position 0 st
  if r.2.1 < min then .nil r.2.2 else .once r.1 r.2.2

/-! ### variable-length repeats -/

/-- GreedyRepeatIterator as a post-order DFS over the body's result streams.
    `len` = length of the iterator stack (including the zero-iteration entry, if any).
    On the primed (leftmost) path the extension limit is "`primedLeft` more pushes";
    on re-extension paths it is `len < bound`. -/
def greedyNode (child : Gen) (min bound : Nat) :
    (fuel : Nat) → (len : Nat) → (primedLeft : Option Nat) → Nat → St → Step
  | 0, len, _, n, st => if len ≥ min then .once n st else .nil st
  | f+1, len, primedLeft, n, st =>
    let canExtend : Bool := match primedLeft with
      | some k => decide (k > 0)
      | none => decide (len < bound)
    let deeper : Step :=
      if canExtend then
        (child n st).bindFR
          (fun n2 st2 => greedyNode child min bound f (len+1) (primedLeft.map (· - 1)) n2 st2)
          (fun n2 st2 => greedyNode child min bound f (len+1) none n2 st2)
      else .nil st
    deeper.append (fun st' => if len ≥ min then .once n st' else .nil st')

def repGreedyGen (ctx : Ctx) (id : Nat) (child : Gen) (min max : Nat) : Gen := fun position st =>
  let bound := Nat.min max (ctx.len + 1 - position)
  let fuel := ctx.len + 3
  if min == 0 then
    if memPair st.hist id position then
      -- duplicate zero-length match: no zero-iteration entry; the stack starts empty
      if bound == 0 then .nil st else
      ((child position st).bindFR
        (fun n st2 => greedyNode child min bound fuel 1 (some (bound - 1)) n st2)
        (fun n st2 => greedyNode child min bound fuel 1 none n st2)).force 0 none
    else
      -- the zero-iteration entry `once(position)` sits on the stack *unadvanced* while the stack is primed
      -- (its position counts as yielded); when everything above it is exhausted it is advanced for real,
      -- yields `position` a second time and is re-extended under the `len < bound` limit
      let st1 := { st with hist := (id, position) :: st.hist }
      ((greedyNode child min bound fuel 1 (some bound) position st1).append
        (fun st2 => greedyNode child min bound fuel 1 none position st2)).force 0 none
  else
    if bound == 0 then .nil st else
    ((child position st).bindFR
      (fun n st2 => greedyNode child min bound fuel 1 (some (bound - 1)) n st2)
      (fun n st2 => greedyNode child min bound fuel 1 none n st2)).force 0 none

/-- the minimum loop of `ReluctantRepeatIterator` (fix abfdb8a): a zero-width mandatory iteration completes the
    minimum — every remaining mandatory iteration would repeat it at the same position -/
def iterMinZ (child : Gen) (min : Nat) : (fuel : Nat) → (count pos : Nat) → St → Option (Nat × Nat) × St
  | 0, _, _, st => (none, st.setPanic panicDiverge)
  | f+1, count, pos, st =>
    if count < min then
      match first1 (child pos st) with
      | (some (n, _), st') => if n == pos then (some (min, pos), st') else iterMinZ child min f (count+1) n st'
      | (none, st') => (none, st')
    else (some (count, pos), st)

/-- ReluctantRepeatIterator after its first result -/
def relMore (child : Gen) (max : Nat) : (fuel : Nat) → (count pos : Nat) → St → Step
  | 0, _, _, _ => .diverge
  | f+1, count, pos, st =>
    if count < max then
      match first1 (child pos st) with
      | (some (n, _), st') => .cons n st' (fun st'' => relMore child max f (count+1) n st'')
      | (none, st') => .nil st'
    else .nil st

def repReluctantGen (ctx : Ctx) (child : Gen) (min max : Nat) : Gen := fun position st =>
  match iterMinZ child min (loopFuel ctx min) 0 position st with
  | (none, st') => .nil st'
  | (some (count, pos), st') =>
    (Step.cons pos st' (fun st'' => relMore child max (6 * (ctx.len + 3)) count pos st'')).force 0 none

/-! ### the operation tree -/
mutual
def sem (ctx : Ctx) : Op → Gen
  | .bol => bolGen ctx
  | .eol => eolGen ctx
  | .nothing => nothingGen
  | .endProgram => endGen
  | .atom cs => atomGen ctx cs
  | .cls rs => clsGen ctx rs
  | .backref g => backrefGen ctx g
  | .capture g c => captureGen ctx g (sem ctx c)
  | .choice bs => choiceGen (semL ctx bs)
  | .seq ops => seqGen (containsCapL ops) (semL ctx ops)
  | .rep id c min max greedy =>
      if greedy then repGreedyGen ctx id (sem ctx c) min max else repReluctantGen ctx (sem ctx c) min max
  | .gfixed c min max len => gfixedGen ctx (sem ctx c) min max len
  | .rfixed c min max _ => rfixedGen ctx (sem ctx c) min max
  | .unamb c min max => unambGen ctx (sem ctx c) min max
termination_by structural o => o
def semL (ctx : Ctx) : List Op → List Gen
  | [] => []
  | o :: os => sem ctx o :: semL ctx os
termination_by structural l => l
end

end Rx
