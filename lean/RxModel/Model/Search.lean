/-
  Model/Search — ReProgram (as data), `match_at`, `matches` with its five shortcuts and
  `check_preconditions`  (re_matcher.rs:59-223, re_program.rs).
-/
import RxModel.Model.Engine
namespace Rx

structure Pre where
  op : Op
  fixed : Option Nat
  minPos : Nat
deriving Repr, Inhabited

structure Prog where
  op : Op
  caseBlind : Bool := false
  multiLine : Bool := false
  literal : Bool := false
  hasBackrefs : Bool := false
  hasBol : Bool := false
  maxParens : Nat := 1
  minLen : Nat := 0
  prefix_ : Option (List Nat) := none
  icc : Option Ranges := none
  pres : List Pre := []
  pattern : List Nat := []
deriving Repr, Inhabited

def Prog.ctx (pr : Prog) (lower : Nat → Nat) (input : List Nat) : Ctx :=
  { input := input, caseBlind := pr.caseBlind, multiLine := pr.multiLine,
    hasBackrefs := pr.hasBackrefs, maxParens := pr.maxParens, lower := lower }

/-- `ReMatcher::match_at(i, false)` -/
def matchAt (ctx : Ctx) (op : Op) (i : Nat) (st : St) : Bool × St :=
  let cap := { st.cap with parenCount := 1 }
  let cap := cap.setStart 0 i
  let st := { st with cap := cap }
  let st := if ctx.hasBackrefs then
      { st with startBr := List.replicate ctx.maxParens none, endBr := List.replicate ctx.maxParens none }
    else st
  match sem ctx op i st with
  | .cons n st' _ => (true, { st' with cap := st'.cap.setEnd 0 n })
  | .nil st' => (false, { st' with cap := { st'.cap with parenCount := 0 } })
  | .diverge => (false, st.setPanic panicDiverge)

/-- `op.matches_iter(matcher, p).next().is_some()` -/
def preHolds (ctx : Ctx) (op : Op) (p : Nat) (st : St) : Bool × St :=
  match sem ctx op p st with
  | .cons _ st' _ => (true, st')
  | .nil st' => (false, st')
  | .diverge => (false, st.setPanic panicDiverge)

def findFrom (ctx : Ctx) (op : Op) : (fuel : Nat) → (j : Nat) → St → Bool × St
  | 0, _, st => (false, st)
  | f+1, j, st =>
    if j < ctx.len then
      match preHolds ctx op j st with
      | (true, st') => (true, st')
      | (false, st') => if st'.panic.isSome then (false, st') else findFrom ctx op f (j+1) st'
    else (false, st)

/-- `ReMatcher::check_preconditions(start)` -/
def checkPre (ctx : Ctx) (start : Nat) : List Pre → St → Bool × St
  | [], st => (true, st)
  | pre :: rest, st =>
    match pre.fixed with
    | some fixed =>
      match preHolds ctx pre.op fixed st with
      | (true, st') => checkPre ctx start rest st'
      | (false, st') => (false, st')
    | none =>
      let i := if start < pre.minPos then pre.minPos else start
      match findFrom ctx pre.op (ctx.len + 1) i st with
      | (true, st') => checkPre ctx start rest st'
      | (false, st') => (false, st')

/-- try `match_at` at each candidate start, in order -/
def tryCands (ctx : Ctx) (op : Op) : List Nat → St → Bool × St
  | [], st => (false, st)
  | j :: js, st =>
    match matchAt ctx op j st with
    | (true, st') => (true, st')
    | (false, st') => if st'.panic.isSome then (false, st') else tryCands ctx op js st'

/-- all `j` with `lo ≤ j < hi` -/
def rangeFrom (lo hi : Nat) : List Nat := (List.range hi).filter (fun j => decide (j ≥ lo))

/-- `ReMatcher::matches(i)`: find the first match starting at or after `i` -/
def matchesFrom (ctx : Ctx) (pr : Prog) (i : Nat) (st0 : St) : Bool × St :=
  let st := { st0 with cap := {} }
  if pr.hasBol then
    if !ctx.multiLine then
      if i != 0 then (false, st) else
      match checkPre ctx i pr.pres st with
      | (false, st') => (false, st')
      | (true, st') => matchAt ctx pr.op i st'
    else
      -- match_at(i), then the position after every newline at index ≥ i, while < len
      let cands := ((rangeFrom i ctx.len).filter (fun k => ctx.nlAt k)).map (· + 1) |>.filter (fun k => decide (k < ctx.len))
      tryCands ctx pr.op (i :: cands) st
  else
    if i > ctx.len then (false, st.setPanic panicMinLenUnderflow) else
    if ctx.len - i < pr.minLen then (false, st) else
    match pr.prefix_ with
    | some pre =>
      if pre.length > ctx.len + 1 then (false, st.setPanic panicPrefixUnderflow) else
      let cands := (rangeFrom i (ctx.len + 1 - pre.length)).filter (fun j => prefixMatch ctx pre (ctx.input.drop j))
      tryCands ctx pr.op cands st
    | none =>
      match pr.icc with
      | some rs =>
        let cands := (rangeFrom i ctx.len).filter (fun j =>
          match ctx.input[j]? with | some c => clsContains rs c | none => false)
        tryCands ctx pr.op cands st
      | none =>
        match checkPre ctx i pr.pres st with
        | (false, st') => (false, st')
        | (true, st') => tryCands ctx pr.op (rangeFrom i (ctx.len + 1)) st'

/-- the search with every shortcut switched off (what C08 compares against) -/
def matchesNaive (ctx : Ctx) (op : Op) (i : Nat) (st0 : St) : Bool × St :=
  tryCands ctx op (rangeFrom i (ctx.len + 1)) { st0 with cap := {} }

def getParenStart (st : St) (g : Nat) : Option Nat := getO st.cap.startn g
def getParenEnd (st : St) (g : Nat) : Option Nat := getO st.cap.endn g

end Rx
