/-
  Model/Program — `ReProgram::new`, `add_precondition`, `add_repeat_precondition` (re_program.rs).
-/
import RxModel.Model.Optimize
import RxModel.Model.Search
namespace Rx

def isBol : Op → Bool
  | .bol => true
  | _ => false

mutual
/-- `add_precondition(op, fixed_position, min_position)`; returns the preconditions to append -/
def addPre (multiLine : Bool) : Op → Option Nat → Nat → List Pre
  | .atom cs, fp, mp => [{ op := .atom cs, fixed := fp, minPos := mp }]
  | .cls rs, fp, mp => [{ op := .cls rs, fixed := fp, minPos := mp }]
  | .rep id c mn mx g, fp, mp =>
      if mn ≥ 1 then
        (if isAtomOrClass c then
          (if mn == 1 then [{ op := .rep id c mn mx g, fixed := fp, minPos := mp }]
           else [{ op := .rep 0 c mn mn true, fixed := fp, minPos := mp }])
         else addPre multiLine c fp mp)
      else []
  | .gfixed c mn mx len, fp, mp =>
      if mn ≥ 1 then
        (if isAtomOrClass c then
          (if mn == 1 then [{ op := .gfixed c mn mx len, fixed := fp, minPos := mp }]
           else [{ op := .rep 0 c mn mn true, fixed := fp, minPos := mp }])
         else addPre multiLine c fp mp)
      else []
  | .rfixed c mn mx len, fp, mp =>
      if mn ≥ 1 then
        (if isAtomOrClass c then
          (if mn == 1 then [{ op := .rfixed c mn mx len, fixed := fp, minPos := mp }]
           else [{ op := .rep 0 c mn mn true, fixed := fp, minPos := mp }])
         else addPre multiLine c fp mp)
      else []
  | .unamb c mn mx, fp, mp =>
      if mn ≥ 1 then
        (if isAtomOrClass c then
          (if mn == 1 then [{ op := .unamb c mn mx, fixed := fp, minPos := mp }]
           else [{ op := .rep 0 c mn mn true, fixed := fp, minPos := mp }])
         else addPre multiLine c fp mp)
      else []
  | .capture _ c, fp, mp => addPre multiLine c fp mp
  | .seq ops, fp, mp => addPreSeq multiLine ops fp mp
  | _, _, _ => []
termination_by structural o => o
def addPreSeq (multiLine : Bool) : List Op → Option Nat → Nat → List Pre
  | [], _, _ => []
  | o :: os, fp, mp =>
    let fp := if isBol o && !multiLine then some 0 else fp
    let here := addPre multiLine o fp mp
    let fp' := match fp, matchLen o with
      | some f, some l => some (satAdd f l)
      | _, _ => none
    here ++ addPreSeq multiLine os fp' (satAdd mp (minLenOp o))
termination_by structural l => l
end

mutual
/-- give every `rep` node a distinct id, in pre-order starting after `n` (its memo key) -/
def numberReps : Op → Nat → Op × Nat
  | .capture g c, n => let r := numberReps c n; (.capture g r.1, r.2)
  | .choice bs, n => let r := numberRepsL bs n; (.choice r.1, r.2)
  | .seq ops, n => let r := numberRepsL ops n; (.seq r.1, r.2)
  | .rep _ c mn mx g, n => let r := numberReps c (n + 1); (.rep (n + 1) r.1 mn mx g, r.2)
  | .gfixed c mn mx len, n => let r := numberReps c n; (.gfixed r.1 mn mx len, r.2)
  | .rfixed c mn mx len, n => let r := numberReps c n; (.rfixed r.1 mn mx len, r.2)
  | .unamb c mn mx, n => let r := numberReps c n; (.unamb r.1 mn mx, r.2)
  | o, n => (o, n)
termination_by structural o => o
def numberRepsL : List Op → Nat → List Op × Nat
  | [], n => ([], n)
  | o :: os, n => let r := numberReps o n; let rs := numberRepsL os r.2; (r.1 :: rs.1, rs.2)
termination_by structural l => l
end

/-- precondition operations are clones: fresh ids, one block of 1000 per precondition -/
def numberPres : List Pre → Nat → List Pre
  | [], _ => []
  | p :: ps, n =>
    let base := (n / 1000 + 1) * 1000
    let r := numberReps p.op base
    { p with op := r.1 } :: numberPres ps r.2

/-- `ReProgram::new(pattern, operation, max_parens, flags)` (+ OPT_HASBACKREFS set by `compile`) -/
def mkProgram (pattern : List Nat) (op0 : Op) (maxParens : Nat) (fl : CFlags) (hasBackrefs : Bool) : Prog :=
  let r := numberReps op0 0
  let op := r.1
  let base : Prog :=
    { op := op, caseBlind := fl.caseBlind, multiLine := fl.multiLine, literal := fl.literal,
      hasBackrefs := hasBackrefs, maxParens := maxParens, minLen := minLenOp op, pattern := pattern }
  match op with
  | .seq (first :: rest) =>
    let pres := numberPres (addPre fl.multiLine (.seq (first :: rest)) none 0) r.2
    match first with
    | .bol => { base with hasBol := true, pres := pres }
    | .atom cs => { base with prefix_ := some cs, pres := pres }
    | .cls rs => { base with icc := some rs, pres := pres }
    | _ => { base with pres := pres }
  | _ => base

/-- the program the verification hook builds with optimisations off -/
def mkBareProgram (pattern : List Nat) (op0 : Op) (maxParens : Nat) (fl : CFlags) (hasBackrefs : Bool) : Prog :=
  { op := (numberReps op0 0).1, caseBlind := fl.caseBlind, multiLine := fl.multiLine, literal := fl.literal,
    hasBackrefs := hasBackrefs, maxParens := maxParens, minLen := 0, pattern := pattern }

end Rx
