/-
  Model/CharSet — `CodePointInversionListBuilder` / `CodePointInversionList` as canonical lists of
  half-open ranges over code points `[0, 0x110000)` (surrogates included, as in ICU), and
  `CharacterClass::is_disjoint` with its give-up threshold (character_class.rs).
  Canonical = sorted, disjoint, non-adjacent, non-empty ranges: the same list ICU prints.
-/
import RxModel.Model.Engine
namespace Rx

def cpLimit : Nat := 0x110000

/-- insert the range `[a, b)` into a canonical list -/
def addRange (a b : Nat) : Ranges → Ranges
  | [] => if a < b then [(a, b)] else []
  | (c, d) :: rs =>
    if a ≥ b then (c, d) :: rs
    else if b < c then (a, b) :: (c, d) :: rs
    else if d < a then (c, d) :: addRange a b rs
    else addRange (Nat.min a c) (Nat.max b d) rs

def addChar (c : Nat) (rs : Ranges) : Ranges := addRange c (c + 1) rs

def addChars : List Nat → Ranges → Ranges
  | [], rs => rs
  | c :: cs, rs => addChars cs (addChar c rs)

/-- `add_set` -/
def unionR : Ranges → Ranges → Ranges
  | rs, [] => rs
  | rs, (a, b) :: more => unionR (addRange a b rs) more

def complFrom (lo : Nat) : Ranges → Ranges
  | [] => if lo < cpLimit then [(lo, cpLimit)] else []
  | (a, b) :: rs => if lo < a then (lo, a) :: complFrom b rs else complFrom b rs

/-- `complement` (within all code points) -/
def complR (rs : Ranges) : Ranges := complFrom 0 rs

def interR (a b : Ranges) : Ranges := complR (unionR (complR a) (complR b))

/-- `remove_set` -/
def diffR (a b : Ranges) : Ranges := interR a (complR b)

def allR : Ranges := [(0, cpLimit)]

/-! linear-time union of canonical lists (used for the big category tables; `unionR` is the
    builder's incremental `add_set`) -/

def mergeF : Nat → Ranges → Ranges → Ranges
  | 0, _, _ => []
  | _+1, [], ys => ys
  | _+1, xs, [] => xs
  | f+1, x :: xs, y :: ys => if x.1 ≤ y.1 then x :: mergeF f xs (y :: ys) else y :: mergeF f (x :: xs) ys

/-- merge two lists sorted by start -/
def mergeR (xs ys : Ranges) : Ranges := mergeF (xs.length + ys.length + 1) xs ys

def mergeAll : List Ranges → Ranges
  | [] => []
  | l :: ls => mergeR l (mergeAll ls)

/-- fuse overlapping / adjacent neighbours of a list sorted by start -/
def coalesceGo : (Nat × Nat) → Ranges → Ranges
  | (a, b), [] => [(a, b)]
  | (a, b), (c, d) :: rs => if c ≤ b then coalesceGo (a, Nat.max b d) rs else (a, b) :: coalesceGo (c, d) rs

def coalesce : Ranges → Ranges
  | [] => []
  | r :: rs => coalesceGo r rs

/-- union of canonical lists, linear in their total length -/
def unionSorted (ls : List Ranges) : Ranges := coalesce (mergeAll ls)

def isSurrogate (c : Nat) : Bool := decide (0xD800 ≤ c) && decide (c < 0xE000)

/-- the first `n` scalar values of a set (what `iter_chars().take(n)` yields) -/
def takeChars : (n : Nat) → (fuel : Nat) → Ranges → List Nat
  | 0, _, _ => []
  | _, 0, _ => []
  | _, _, [] => []
  | n+1, f+1, (a, b) :: rs =>
    if a ≥ b then takeChars (n+1) f rs
    else if isSurrogate a then takeChars (n+1) f ((Nat.min b 0xE000, b) :: rs)
    else a :: takeChars n f ((a + 1, b) :: rs)

/-- `CharacterClass::is_disjoint(self, other)`: looks at no more than 101 characters of `other` -/
def isDisjointGo (self : Ranges) : List Nat → Nat → Bool
  | [], _ => true
  | c :: cs, count =>
    if clsContains self c then false
    else if count + 1 > 100 then false
    else isDisjointGo self cs (count + 1)

def isDisjoint (self other : Ranges) : Bool :=
  isDisjointGo self (takeChars 101 (101 + 2 * other.length + 2) other) 0

end Rx
