/-
  Model/Unicode — the standard environment: the library data regexml reads, taken from the
  regenerated tables (Generated/*): ICU general categories and case data, the block table of
  block.rs, the category arms of category.rs, the XML name ranges.
-/
import RxModel.Model.Optimize
import RxModel.Generated.IcuGc
import RxModel.Generated.IcuCase
import RxModel.Generated.Blocks
import RxModel.Generated.CategoryArms
import RxModel.Generated.NameRanges
namespace Rx

def lookupL {β : Type} (tbl : List (List Nat × β)) (k : List Nat) : Option β :=
  match tbl with
  | [] => none
  | (a, b) :: t => if a == k then some b else lookupL t k

def lookupN {β : Type} (tbl : List (Nat × β)) (k : Nat) : Option β :=
  match tbl with
  | [] => none
  | (a, b) :: t => if a == k then some b else lookupN t k

/-- `get_category_group` + `builder_for_group`: short name → arm → ICU group -/
def categoryStd (name : List Nat) : Option Ranges :=
  match lookupL Gen.categoryArms name with
  | none => none
  | some long => lookupL Gen.grpAll long

/-- `name.replace([' ', '_'], "")` -/
def normBlockName (n : List Nat) : List Nat := n.filter (fun c => !(c == 32 || c == 95))

/-- the `HashMap` built by `BlockLookup::new`: a later block with the same key wins -/
def blockLookupLast (tbl : List (List Nat × Nat × Nat)) (k : List Nat) (acc : Option (Nat × Nat)) : Option (Nat × Nat) :=
  match tbl with
  | [] => acc
  | (n, a, b) :: t => blockLookupLast t k (if normBlockName n == k then some (a, b) else acc)

/-- `category::block(name)` -/
def blockStd (name : List Nat) : Option Ranges :=
  if name == [80, 114, 105, 118, 97, 116, 101, 85, 115, 101] then      -- "PrivateUse"
    some (Gen.privateUseRanges.foldl (fun acc r => addRange r.1 (r.2 + 1) acc) [])
  else
    match blockLookupLast Gen.allBlocks name none with
    | some (a, b) => some (addRange a (b + 1) [])
    | none => none

def rangesOfInclusive (l : List (Nat × Nat)) : Ranges := l.foldl (fun acc r => addRange r.1 (r.2 + 1) acc) []

def digitStd : Ranges := (lookupL Gen.gcLong Gen.decimalNumberCategory).getD []

/-- `word_char()`: the base range minus the removed groups.  The removed groups are canonical
    lists, so their union is computed by a linear merge and the difference as one complement
    (same set as the builder's three `remove_set` calls — C10.word_def_builder) -/
def wordStd : Ranges :=
  complR (unionSorted (complR (addRange Gen.wordCharBase.1 (Gen.wordCharBase.2 + 1) []) ::
                       Gen.wordCharRemoved.map (fun g => (lookupL Gen.grpAll g).getD [])))

def Env.std : Env :=
  { lower := fun c => (lookupN Gen.lowerTable c).getD c,
    closure := fun c => (lookupN Gen.closureTable c).getD [],
    category := categoryStd,
    block := blockStd,
    digit := digitStd,
    word := wordStd,
    nameStart := rangesOfInclusive Gen.nameStartRanges,
    nameChar := rangesOfInclusive Gen.nameCharRanges }

end Rx
