/-
  Model/World — call histories on a pool of compiled Regex objects with live, partially consumed
  iterators (regex.rs: `Regex::matcher` creates a fresh `ReMatcher` — and with it a fresh capture
  state and zero-length-match memo — for every call and for every iterator; a `TokenIter` /
  `AnalyzeIter` owns its matcher).
-/
import RxModel.Model.Api
namespace Rx

inductive HOp where
  | isMatch (k : Nat) (input : List Nat)
  | replace (k : Nat) (input repl : List Nat)
  | openTok (k j : Nat) (input : List Nat)
  | openAna (k j : Nat) (input : List Nat)
  | next (j : Nat)
  | drop (j : Nat)
deriving Repr, Inhabited

inductive HRes where
  | bool (o : Out Bool)
  | text (o : Out (List Nat))
  | opened
  | failed (e : Err)
  | panicked (c : Nat)
  | tok (o : Out (Option (List Nat)))
  | ana (o : Out (Option AEntry))
  | noIter
  | noObj
  | dropped
deriving Repr, Inhabited

/-- a live iterator: everything it will ever read is inside it -/
inductive Iter where
  | tok (r : Regex) (input : List Nat) (prevEnd : Option Nat) (st : St)
  | ana (r : Regex) (input : List Nat) (tbl : List (Nat × Nat)) (a : AState St)

/-- `Regex::tokenize` / `Regex::analyze`: the iterator, or why it could not be created -/
def Iter.openTok (r : Regex) (input : List Nat) : Except HRes Iter :=
  if input.isEmpty then .ok (.tok r input none {})
  else if r.nullable then .error (.failed .matchesEmptyString)
  else .ok (.tok r input (some 0) {})

def Iter.openAna (r : Regex) (input : List Nat) : Except HRes Iter :=
  if r.nullable then .error (.failed .matchesEmptyString)
  else
    match (if r.prog.literal then some [] else nestingTable r.prog.pattern) with
    | none => .error (.panicked panicNesting)
    | some tbl => .ok (.ana r input tbl { st := ({} : St) })

/-- one `next()` -/
def Iter.pull (lower : Nat → Nat) : Iter → Iter × HRes
  | .tok r input pe st =>
    let x := tokenNext (r.prog.matcher lower input) input pe st
    (.tok r input x.2.1 x.2.2, .tok x.1)
  | .ana r input tbl a =>
    let x := analyzeNext (r.prog.matcher lower input) (processMatch tbl) input a
    (.ana r input tbl x.2, .ana x.1)

structure World where
  objs : Nat → Option Regex          -- never changes: compiled objects are immutable
  its : Nat → Option Iter

def World.setIt (w : World) (j : Nat) (it : Option Iter) : World :=
  { w with its := fun i => if i = j then it else w.its i }

/-- one API call on the shared world -/
def World.step (lower : Nat → Nat) (w : World) : HOp → World × HRes
  | .isMatch k input =>
    match w.objs k with
    | none => (w, .noObj)
    | some r => (w, .bool (r.prog.isMatch lower input))
  | .replace k input repl =>
    match w.objs k with
    | none => (w, .noObj)
    | some r => (w, .text (r.replaceAll lower input repl))
  | .openTok k j input =>
    match w.objs k with
    | none => (w, .noObj)
    | some r =>
      match Iter.openTok r input with
      | .ok it => (w.setIt j (some it), .opened)
      | .error e => (w, e)
  | .openAna k j input =>
    match w.objs k with
    | none => (w, .noObj)
    | some r =>
      match Iter.openAna r input with
      | .ok it => (w.setIt j (some it), .opened)
      | .error e => (w, e)
  | .next j =>
    match w.its j with
    | none => (w, .noIter)
    | some it => let x := it.pull lower; (w.setIt j (some x.1), x.2)
  | .drop j => (w.setIt j none, .dropped)

def World.run (lower : Nat → Nat) : World → List HOp → List HRes
  | _, [] => []
  | w, op :: ops => let x := w.step lower op; x.2 :: World.run lower x.1 ops

/-! the specification: every answer computed from scratch -/

/-- the iterator `j` as the history says it must be: the most recent successful open of `j` (not
    dropped since), pulled as often as `next j` was called after it — built from a FRESH iterator -/
def freshIter (lower : Nat → Nat) (objs : Nat → Option Regex) (j : Nat) : List HOp → Option Iter
  | [] => none
  | op :: earlier =>      -- the history is given most-recent-first
    match op with
    | .openTok k j' input =>
      if j' = j then
        match objs k with
        | none => freshIter lower objs j earlier
        | some r => match Iter.openTok r input with
          | .ok it => some it
          | .error _ => freshIter lower objs j earlier
      else freshIter lower objs j earlier
    | .openAna k j' input =>
      if j' = j then
        match objs k with
        | none => freshIter lower objs j earlier
        | some r => match Iter.openAna r input with
          | .ok it => some it
          | .error _ => freshIter lower objs j earlier
      else freshIter lower objs j earlier
    | .next j' =>
      if j' = j then (freshIter lower objs j earlier).map (fun it => (it.pull lower).1)
      else freshIter lower objs j earlier
    | .drop j' => if j' = j then none else freshIter lower objs j earlier
    | _ => freshIter lower objs j earlier

/-- the answer to `op` after the (most-recent-first) history `past`, from freshly made objects only -/
def specAnswer (lower : Nat → Nat) (objs : Nat → Option Regex) (past : List HOp) : HOp → HRes
  | .isMatch k input => match objs k with
    | none => .noObj
    | some r => .bool (r.prog.isMatch lower input)
  | .replace k input repl => match objs k with
    | none => .noObj
    | some r => .text (r.replaceAll lower input repl)
  | .openTok k _ input => match objs k with
    | none => .noObj
    | some r => match Iter.openTok r input with | .ok _ => .opened | .error e => e
  | .openAna k _ input => match objs k with
    | none => .noObj
    | some r => match Iter.openAna r input with | .ok _ => .opened | .error e => e
  | .next j => match freshIter lower objs j past with
    | none => .noIter
    | some it => (it.pull lower).2
  | .drop _ => .dropped

def specRun (lower : Nat → Nat) (objs : Nat → Option Regex) : (past : List HOp) → List HOp → List HRes
  | _, [] => []
  | past, op :: ops => specAnswer lower objs past op :: specRun lower objs (op :: past) ops

end Rx
