/-
  Model/Api — the concrete matcher behind the scan loops and the public API of `Regex`
  (regex.rs), `$N` / backslash expansion (re_matcher.rs:248-337), `process_matching_substring`
  and `compute_nesting_table` (analyze_string.rs).
-/
import RxModel.Model.Search
import RxModel.Model.Scan
namespace Rx

/-! ### replacement-string expansion -/

/-- longest run of further digits such that the number stays `≤ maxCapture` -/
def takeDigits (maxCapture : Nat) : (n : Nat) → List Nat → Nat × List Nat
  | n, [] => (n, [])
  | n, c :: rest =>
    if isDigit c then
      let m := n * 10 + (c - 48)
      if m > maxCapture then (n, c :: rest) else takeDigits maxCapture m rest
    else (n, c :: rest)

/-- the character loop of `ReMatcher::replace`; `grp n` is `get_paren(n)`.
    Result: the expansion and whether no `\` / `$` was seen; `none` = InvalidReplacementString -/
def expandGo (maxCapture : Nat) (grp : Nat → Option (List Nat)) :
    (fuel : Nat) → List Nat → (acc : List Nat) → (simple : Bool) → Option (List Nat × Bool)
  | 0, _, acc, s => some (acc, s)
  | _+1, [], acc, s => some (acc, s)
  | f+1, c :: rest, acc, s =>
    if c == 92 then          -- backslash
      match rest with
      | [] => none
      | d :: rest' => if d == 92 || d == 36 then expandGo maxCapture grp f rest' (acc ++ [d]) false else none
    else if c == 36 then     -- dollar
      match rest with
      | [] => none
      | d :: rest' =>
        if !isDigit d then none else
        let n := d - 48
        if maxCapture ≤ 9 then
          let acc := if maxCapture ≥ n then acc ++ (grp n).getD [] else acc
          expandGo maxCapture grp f rest' acc false
        else
          let r := takeDigits maxCapture n rest'
          expandGo maxCapture grp f r.2 (acc ++ (grp r.1).getD []) false
    else expandGo maxCapture grp f rest (acc ++ [c]) s

def expand (maxCapture : Nat) (grp : Nat → Option (List Nat)) (repl : List Nat) : Option (List Nat × Bool) :=
  expandGo maxCapture grp (repl.length + 1) repl [] true

/-- `ReMatcher::get_paren` -/
def getParen (input : List Nat) (st : St) (g : Nat) : Option (List Nat) :=
  if g < st.cap.parenCount then
    match getParenStart st g, getParenEnd st g with
    | some s, some e => some (slice input s e)
    | _, _ => none
  else none

/-! ### analyze: nesting table and group events -/

/-- `AnalyzeIter::compute_nesting_table`: group → parent group; `none` = the Rust panics -/
def nestingGo (pat : List Nat) (plen : Nat) :
    (fuel : Nat) → (i : Nat) → (stack : List Nat) → (capStack : List Bool) → (group : Nat) → (inBr : Int) →
    (tbl : List (Nat × Nat)) → Option (List (Nat × Nat))
  | 0, _, _, _, _, _, tbl => some tbl
  | f+1, i, stack, capStack, group, inBr, tbl =>
    match pat[i]? with
    | none => some tbl
    | some ch =>
      if ch == 92 then nestingGo pat plen f (i + 2) stack capStack group inBr tbl
      else if ch == 91 then nestingGo pat plen f (i + 1) stack capStack group (inBr + 1) tbl
      else if ch == 93 then nestingGo pat plen f (i + 1) stack capStack group (inBr - 1) tbl
      else if ch == 40 && inBr == 0 then
        match pat[i+1]? with
        | none => none                              -- pattern[i + 1] out of bounds
        | some nx =>
          let capture := nx != 63
          if capStack.length ≥ plen then none else  -- capture_stack[capture_tos]
          if capture then
            if stack.length ≥ plen then none else   -- stack[tos]
            nestingGo pat plen f (i + 1) (group :: stack) (capture :: capStack) (group + 1) inBr
              ((group, stack.headD 0) :: tbl)
          else nestingGo pat plen f (i + 1) stack (capture :: capStack) group inBr tbl
      else if ch == 41 && inBr == 0 then
        match capStack with
        | [] => none                                -- capture_tos -= 1 underflows
        | cap :: capStack' =>
          if cap then nestingGo pat plen f (i + 1) stack.tail capStack' group inBr tbl
          else nestingGo pat plen f (i + 1) stack capStack' group inBr tbl
      else nestingGo pat plen f (i + 1) stack capStack group inBr tbl

def nestingTable (pat : List Nat) : Option (List (Nat × Nat)) :=
  nestingGo pat pat.length (pat.length + 1) 0 [0] [] 1 0 []

def lookupNat (tbl : List (Nat × Nat)) (k : Nat) : Option Nat :=
  match tbl with
  | [] => none
  | (a, b) :: t => if a == k then some b else lookupNat t k

/-- a group event: `(true, g)` = start of group g, `(false, g)` = end of group g -/
abbrev Ev := Bool × Nat
abbrev Actions := List (Nat × List Ev)

def actGet (a : Actions) (k : Nat) : Option (List Ev) :=
  match a with
  | [] => none
  | (p, v) :: t => if p == k then some v else actGet t k

def actSet (a : Actions) (k : Nat) (v : List Ev) : Actions :=
  match a with
  | [] => [(k, v)]
  | (p, w) :: t => if p == k then (p, v) :: t else (p, w) :: actSet t k v

/-- index of the end event of `parent` in `v`, or `v.length` -/
def findEnd (parent : Nat) : List Ev → Nat
  | [] => 0
  | (isStart, g) :: t => if !isStart && g == parent && parent != 0 then 0 else 1 + findEnd parent t

def insertAt (v : List Ev) (pos : Nat) (xs : List Ev) : List Ev := v.take pos ++ xs ++ v.drop pos

/-- build the position → events map for groups `i .. c` -/
def buildActions (st : St) (tbl : List (Nat × Nat)) (start0 : Nat) :
    (n : Nat) → (i : Nat) → Actions → Option Actions
  | 0, _, acts => some acts
  | n+1, i, acts =>
    match getParenStart st i with
    | none => buildActions st tbl start0 n (i + 1) acts
    | some startI =>
      if startI < start0 then none else                       -- start_i - start_0 underflows
      match getParenEnd st i with
      | none => none                                          -- unwrap on None
      | some endI =>
        if endI < start0 then none else
        let s := startI - start0
        let e := endI - start0
        if s < e then
          let acts := actSet acts s ((actGet acts s).getD [] ++ [(true, i)])
          let acts := actSet acts e ((false, i) :: (actGet acts e).getD [])
          buildActions st tbl start0 n (i + 1) acts
        else
          match lookupNat tbl i with
          | none => none                                      -- nesting_table.get(&i).unwrap()
          | some parent =>
            let acts := match actGet acts s with
              | some v => actSet acts s (insertAt v (findEnd parent v) [(true, i), (false, i)])
              | none => actSet acts s [(true, i), (false, i)]
            buildActions st tbl start0 n (i + 1) acts

/-- RegexMatchHandler: stack of open groups, innermost first -/
abbrev HStack := List (Nat × List MEntry)

def hChars (stk : HStack) (s : List Nat) : Option HStack :=
  match stk with
  | [] => none
  | (nr, es) :: t => some ((nr, es ++ [.str s]) :: t)

def hEvents : List Ev → HStack → Option HStack
  | [], stk => some stk
  | (true, g) :: evs, stk => hEvents evs ((g, []) :: stk)
  | (false, _) :: evs, stk =>
    match stk with
    | (nr, es) :: (nr2, es2) :: t => hEvents evs ((nr2, es2 ++ [.group nr es]) :: t)
    | _ => none                                               -- pop / top on an empty stack

/-- the `for i in 0..=current.len()` loop; `buf` is the pending text -/
def walk (acts : Actions) : (rest : List Nat) → (i : Nat) → (buf : Option (List Nat)) → HStack → Option HStack
  | [], i, buf, stk =>
    match actGet acts i with
    | some evs =>
      match (match buf with | some b => hChars stk b | none => some stk) with
      | none => none
      | some stk' => hEvents evs stk'
    | none => (match buf with | some b => hChars stk b | none => some stk)
  | c :: rest, i, buf, stk =>
    match actGet acts i with
    | some evs =>
      match (match buf with | some b => hChars stk b | none => some stk) with
      | none => none
      | some stk' =>
        match hEvents evs stk' with
        | none => none
        | some stk'' => walk acts rest (i + 1) (some [c]) stk''
    | none => walk acts rest (i + 1) (some (buf.getD [] ++ [c])) stk

/-- `AnalyzeIter::process_matching_substring` -/
def processMatch (tbl : List (Nat × Nat)) (st : St) (current : List Nat) : Out (List MEntry) :=
  if st.cap.parenCount == 0 then .panic panicAnalyze else
  let c := st.cap.parenCount - 1
  if c == 0 then .ok [.str current] else
  let acts? : Option Actions := match getParenStart st 0 with
    | none => some []                 -- no group has (Some, Some): no actions at all
    | some start0 => buildActions st tbl start0 c 1 []
  match acts? with
  | none => .panic panicAnalyze
  | some acts =>
    match walk acts current 0 none [(0, [])] with
    | some ((_, es) :: _) => .ok es
    | _ => .panic panicAnalyze

/-! ### the public API -/

structure Regex where
  prog : Prog
  nullable : Bool
deriving Repr, Inhabited

def stFailed (st : St) : Option Nat := st.panic

def Prog.matcher (pr : Prog) (lower : Nat → Nat) (input : List Nat) : MatcherI St :=
  { find := fun st pos => matchesFrom (pr.ctx lower input) pr pos st,
    start0 := fun st => getParenStart st 0,
    end0 := fun st => getParenEnd st 0,
    failed := stFailed }

/-- `Regex::is_match` -/
def Prog.isMatch (pr : Prog) (lower : Nat → Nat) (input : List Nat) : Out Bool :=
  match matchesFrom (pr.ctx lower input) pr 0 {} with
  | (m, st) =>
    match st.panic with
    | some c => Out.ofFailed c
    | none => .ok m

/-- what `Regex::new` computes after compiling: does the regex match ""? -/
def Prog.nullable (pr : Prog) (lower : Nat → Nat) : Out Bool := pr.isMatch lower []

def Prog.subst (pr : Prog) (input repl : List Nat) : Subst St := fun st simple =>
  if simple then some (repl, true) else
  if pr.maxParens == 0 then none else   -- (max_parens - 1 underflow; never: max_parens ≥ 1)
  expand (pr.maxParens - 1) (getParen input st) repl

/-- `Regex::replace_all` -/
def Regex.replaceAll (r : Regex) (lower : Nat → Nat) (input repl : List Nat) : Out (List Nat) :=
  if r.nullable then .err .matchesEmptyString else
  replaceWith (r.prog.matcher lower input) (r.prog.subst input repl) input r.prog.literal {}

/-- `Regex::tokenize` followed by up to `limit` calls of `next` -/
def Regex.tokenize (r : Regex) (lower : Nat → Nat) (input : List Nat) (limit : Nat) : Out (List (List Nat) × Bool) :=
  if input.isEmpty then .ok ([], false) else
  if r.nullable then .err .matchesEmptyString else
  tokenLoop (r.prog.matcher lower input) input limit (some 0) {} []

/-- `Regex::analyze` followed by up to `limit` calls of `next` -/
def Regex.analyze (r : Regex) (lower : Nat → Nat) (input : List Nat) (limit : Nat) : Out (List AEntry × Bool) :=
  if r.nullable then .err .matchesEmptyString else
  let tbl := if r.prog.literal then some [] else nestingTable r.prog.pattern
  match tbl with
  | none => .panic panicNesting
  | some tbl =>
    analyzeLoop (r.prog.matcher lower input) (processMatch tbl) input limit { st := ({} : St) } []

end Rx
