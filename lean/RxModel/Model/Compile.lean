/-
  Model/Compile — `ReCompiler::compile` and `Regex::new` (re_compiler.rs:949, regex.rs:19):
  flags → (literal | strip → parse → end-of-input check → optimize) → ReProgram → nullability.
-/
import RxModel.Model.Parser
import RxModel.Model.Program
import RxModel.Model.Api
namespace Rx

/-- `ReCompiler::compile` after the whitespace pre-pass; `optimizeOn = false` is the verification
    hook's path -/
def compileCore (env : Env) (fl : CFlags) (pat : List Nat) (optimizeOn : Bool) : Out Prog :=
  if fl.literal then
    let seq := makeSequence (.atom pat) .endProgram
    if optimizeOn then .ok (mkProgram pat seq 1 fl false) else .ok (mkBareProgram pat seq 1 fl false)
  else
    let c : PC := { pat := pat, fl := fl, env := env }
    match parseExpr c (4 * pat.length + 16) {} true with
    | .err e => .err e
    | .ok op s =>
      if s.idx != pat.length then .err .syntax else
      if optimizeOn then .ok (mkProgram pat (optimize env fl op) s.parens fl s.hasBackrefs)
      else .ok (mkBareProgram pat op s.parens fl s.hasBackrefs)

/-- `ReCompiler::compile`: flag x strips whitespace first (not for a literal pattern) -/
def compileProg (env : Env) (fl : Flags) (pattern : List Nat) (optimizeOn : Bool) : Out Prog :=
  compileCore env fl.core (if !fl.literal && fl.allowWs then stripWs pattern 0 false else pattern) optimizeOn

/-- `Regex::new(re, flags, language)` -/
def Regex.new (env : Env) (pattern flags : List Nat) (xsd : Bool) (optimizeOn : Bool := true) : Out Regex :=
  match parseFlags flags xsd with
  | none => .err .invalidFlags
  | some fl =>
    match compileProg env fl pattern optimizeOn with
    | .err e => .err e
    | .panic c => .panic c
    | .diverge => .diverge
    | .ok pr =>
      match pr.nullable env.lower with
      | .ok n => .ok { prog := pr, nullable := n }
      | .err e => .err e
      | .panic c => .panic c
      | .diverge => .diverge

end Rx
