/-
  Driver/Main — line protocol → answers of the model `E` (lean_exe `rxdrv`).

  request (TSV):  id  mode  prog  dialect  pattern  flags  api  input  repl  limit
    mode = eng : `prog` is the implementation's own compiled program (S-expression printed by
                 `rxh … dump`); the model runs its engine, search, scan loops and API glue on it
    mode = full: the model compiles `pattern` / `flags` itself (Model/Compile)
  answer: id <TAB> answer   — same canonical form as the harness.
-/
import RxModel.Model.Compile
import RxModel.Model.Unicode
import RxModel.Props.C02
import RxModel.Props.C05
import RxModel.Props.C06
import RxModel.Props.Findings
import RxModel.Props.Clean
import RxModel.Spec.Enum2
import RxModel.Spec.Enum3
import RxModel.Spec.Enum4
import RxModel.Props.C03b
import RxModel.Proofs.C03cTree
import RxModel.Props.C11b
import RxModel.Proofs.PreLemmas
import Std.Data.HashMap
namespace Rx.Driver
open Rx

inductive SExp where
  | atom (s : String)
  | list (xs : List SExp)
deriving Inhabited

partial def parseSExps (toks : List String) (acc : List SExp) : List SExp × List String :=
  match toks with
  | [] => (acc.reverse, [])
  | ")" :: rest => (acc.reverse, rest)
  | "(" :: rest =>
    let (xs, rest') := parseSExps rest []
    parseSExps rest' (SExp.list xs :: acc)
  | t :: rest => parseSExps rest (SExp.atom t :: acc)

def tokenizeS (s : String) : List String :=
  ((s.replace "(" " ( ").replace ")" " ) ").splitOn " " |>.filter (· ≠ "")

def num : SExp → Nat
  | .atom s => s.toNat!
  | _ => 0

def pairs : List SExp → List (Nat × Nat)
  | a :: b :: rest => (num a, num b) :: pairs rest
  | _ => []

partial def toOp : SExp → Op
  | .list (.atom "bol" :: _) => .bol
  | .list (.atom "eol" :: _) => .eol
  | .list (.atom "nothing" :: _) => .nothing
  | .list (.atom "end" :: _) => .endProgram
  | .list (.atom "atom" :: cs) => .atom (cs.map num)
  | .list (.atom "cls" :: rs) => .cls (pairs rs)
  | .list [.atom "backref", g] => .backref (num g)
  | .list [.atom "capture", g, c] => .capture (num g) (toOp c)
  | .list (.atom "choice" :: bs) => .choice (bs.map toOp)
  | .list (.atom "seq" :: ops) => .seq (ops.map toOp)
  | .list [.atom "rep", id, c, mn, mx, g] => .rep (num id) (toOp c) (num mn) (num mx) (num g == 1)
  | .list [.atom "gfixed", c, mn, mx, l] => .gfixed (toOp c) (num mn) (num mx) (num l)
  | .list [.atom "rfixed", c, mn, mx, l] => .rfixed (toOp c) (num mn) (num mx) (num l)
  | .list [.atom "unamb", c, mn, mx] => .unamb (toOp c) (num mn) (num mx)
  | _ => .nothing

def toProg (xs : List SExp) : Prog := Id.run do
  let mut pr : Prog := { op := .nothing }
  for x in xs do
    match x with
    | .list [.atom "flags", .atom f] =>
      pr := { pr with caseBlind := f.contains 'i', multiLine := f.contains 'm', literal := f.contains 'q' }
    | .list [.atom "maxparens", n] => pr := { pr with maxParens := num n }
    | .list [.atom "hasbackrefs", n] => pr := { pr with hasBackrefs := num n == 1 }
    | .list [.atom "hasbol", n] => pr := { pr with hasBol := num n == 1 }
    | .list [.atom "minlen", n] => pr := { pr with minLen := num n }
    | .list (.atom "prefix" :: cs) => pr := { pr with prefix_ := some (cs.map num) }
    | .list (.atom "icc" :: rs) => pr := { pr with icc := some (pairs rs) }
    | .list [.atom "pre", o, .atom fp, mp] =>
      pr := { pr with pres := pr.pres ++ [{ op := toOp o, fixed := (if fp == "none" then none else some fp.toNat!), minPos := num mp }] }
    | .list (.atom "pattern" :: cs) => pr := { pr with pattern := cs.map num }
    | .list [.atom "op", o] => pr := { pr with op := toOp o }
    | _ => pure ()
  return pr

def parseProg (s : String) : Prog :=
  match (parseSExps (tokenizeS s) []).1 with
  | [.list (.atom "prog" :: xs)] => toProg xs
  | _ => { op := .nothing }

def lowerMap : Std.HashMap Nat Nat := Std.HashMap.ofList Rx.Gen.lowerTable
def lowerFn (c : Nat) : Nat := lowerMap.getD c c
def closureMap : Std.HashMap Nat (List Nat) := Std.HashMap.ofList Rx.Gen.closureTable
def closureFn (c : Nat) : List Nat := closureMap.getD c []

/-- `Env.std` with hash-map lookups for the two per-character tables (same functions) -/
def envFast : Env := { Env.std with lower := lowerFn, closure := closureFn }

partial def opS : Op → String
  | .bol => "(bol)"
  | .eol => "(eol)"
  | .nothing => "(nothing)"
  | .endProgram => "(end)"
  | .atom cs => "(atom " ++ " ".intercalate (cs.map toString) ++ ")"
  | .cls rs => "(cls " ++ " ".intercalate (rs.map fun r => s!"{r.1} {r.2}") ++ ")"
  | .backref g => s!"(backref {g})"
  | .capture g c => s!"(capture {g} {opS c})"
  | .choice bs => "(choice " ++ " ".intercalate (bs.map opS) ++ ")"
  | .seq ops => "(seq " ++ " ".intercalate (ops.map opS) ++ ")"
  | .rep id c mn mx g => s!"(rep {id} {opS c} {mn} {mx} {if g then 1 else 0})"
  | .gfixed c mn mx l => s!"(gfixed {opS c} {mn} {mx} {l})"
  | .rfixed c mn mx l => s!"(rfixed {opS c} {mn} {mx} {l})"
  | .unamb c mn mx => s!"(unamb {opS c} {mn} {mx})"

/-- same text as `rxh … dump` prints for the implementation's program -/
def progS (fl : Flags) (r : Regex) : String :=
  let pr := r.prog
  let f := (if fl.caseBlind then "i" else "") ++ (if fl.multiLine then "m" else "") ++ (if fl.singleLine then "s" else "") ++
           (if fl.allowWs then "x" else "") ++ (if fl.literal then "q" else "")
  let b (x : Bool) : String := if x then "1" else "0"
  s!"(prog (flags {if f.isEmpty then "-" else f}) (xsd {b fl.xsd}) (nullable {b r.nullable}) (maxparens {pr.maxParens}) (hasbackrefs {b pr.hasBackrefs}) (hasbol {b pr.hasBol}) (minlen {pr.minLen})" ++
  (match pr.prefix_ with | some cs => " (prefix " ++ " ".intercalate (cs.map toString) ++ ")" | none => "") ++
  (match pr.icc with | some rs => " (icc " ++ " ".intercalate (rs.map fun r => s!"{r.1} {r.2}") ++ ")" | none => "") ++
  String.join (pr.pres.map fun p => s!" (pre {opS p.op} {match p.fixed with | some f => toString f | none => "none"} {p.minPos})") ++
  " (pattern " ++ " ".intercalate (pr.pattern.map toString) ++ ")" ++
  s!" (op {opS pr.op}))"

def uncps (s : String) : List Nat := (s.splitOn "," |>.filter (· ≠ "")).map String.toNat!
def cps (l : List Nat) : String := ",".intercalate (l.map toString)

def errName : Err → String
  | .internal => "ERR:Internal"
  | .invalidFlags => "ERR:InvalidFlags"
  | .syntax => "ERR:Syntax"
  | .matchesEmptyString => "ERR:MatchesEmptyString"
  | .invalidReplacement => "ERR:InvalidReplacementString"

def showOut {α : Type} (f : α → String) : Out α → String
  | .ok a => f a
  | .err e => errName e
  | .panic c => s!"PANIC:{c}"
  | .diverge => "HANG"

partial def fmtM : List MEntry → String
  | es => " ".intercalate (es.map fun e => match e with
      | .str s => "S:" ++ cps s
      | .group nr v => s!"G{nr}(" ++ fmtM v ++ ")")

def fmtA : AEntry → String
  | .nonMatch s => "N:" ++ cps s
  | .isMatch es => "M(" ++ fmtM es ++ ")"

def runRegex (r : Regex) (api : String) (input repl : List Nat) (limit : Nat) : String :=
      match api with
      | "compile" => "OK"
      | "is_match" => showOut (fun b => if b then "T" else "F") (r.prog.isMatch lowerFn input)
      | "replace" => showOut (fun s => "OK:" ++ cps s) (r.replaceAll lowerFn input repl)
      | "tokenize" => showOut (fun (p : List (List Nat) × Bool) =>
          s!"OK:{p.1.length}:" ++ "|".intercalate (p.1.map cps) ++ (if p.2 then "+MORE" else "")) (r.tokenize lowerFn input limit)
      | "analyze" => showOut (fun (p : List AEntry × Bool) =>
          s!"OK:{p.1.length}:" ++ ";".intercalate (p.1.map fmtA) ++ (if p.2 then "+MORE" else "")) (r.analyze lowerFn input limit)
      | _ => "BADAPI"

/-- the model compiles the pattern itself -/
def runFull (dialect mode : String) (pattern flags : List Nat) (api : String) (input repl : List Nat) (limit : Nat) : String :=
  match Regex.new envFast pattern flags (dialect == "xs") (mode != "noopt") with
  | .err e => errName e
  | .panic _ => "PANIC:compile"
  | .diverge => "HANG"
  | .ok r =>
    if api == "dump" then
      progS ((parseFlags flags (dialect == "xs")).getD {}) r
    else if api == "witness" then
      -- is the program term of Props/Findings (about which the K* theorems speak) the program compiled for this pattern?
      let tbl : List (String × Prog) := [("K2", Findings.progK2), ("K3", Findings.progK3), ("K4", Findings.progK4),
                                         ("K9", Findings.progK9), ("K9'", Findings.progK9')]
      let key (p : Prog) : String := opS p.op ++ s!" {p.minLen} {p.hasBol} {p.hasBackrefs} {p.maxParens} {p.caseBlind} {p.multiLine} " ++
        String.join (p.pres.map fun q => s!"(pre {opS q.op} {match q.fixed with | some f => toString f | none => "none"} {q.minPos})")
      match tbl.lookup (String.ofList (input.map Char.ofNat)) with
      | some pr => if key pr == key { r.prog with pattern := [] } then "WITNESS:same" else "WITNESS:differs " ++ key r.prog
      | none => "WITNESS:unknown"
    else runRegex r api input repl limit

/-- the decidable hypotheses of the engine theorems, evaluated on a concrete compiled program -/
def wfReport (pr : Prog) (len : Nat) : String :=
  let b (x : Bool) : String := if x then "1" else "0"
  let facts : Bool := (match pr.prefix_ with | some pre => decide (pre.length ≤ pr.minLen) || decide (pr.minLen = usizeMax) | none => true) &&
                      pr.pres.all (fun q => !hasBackref q.op)
  s!"WF:wf={b (wfOp pr.op)},caps={b (C02.capsPos pr.op)},small={b (C06.smallMin len pr.op)},pre={b (pr.pres.all (fun q => C06.simplePre q.op))}," ++
  s!"facts={b facts},br={b (!hasBackref pr.op || pr.hasBackrefs)},prewf={b (pr.pres.all (fun q => wfOp q.op))}," ++
  -- the fragment of the full-strength theorems (Props/Clean, SearchComplete), their extra hypothesis, and the class
  -- hypothesis of the case-invariance theorems (Props/C11b; alphabet = everything but U+0130)
  -- the straight-line capture fragment of C03b / C03c (groups and back-references not under a quantifier or inside an
  -- alternative), incl. agreement of the nesting table computed from the pattern text with the tree
  s!"straight={b (C03b.progOK pr.hasBackrefs pr.maxParens pr.op && (match nestingTable pr.pattern with | some tbl => tblOK tbl pr.op 0 | none => false))}," ++
  s!"clean4={b (cleanProg4 envFast pr.caseBlind pr.multiLine pr.op && clsCanonB pr.op && !pr.hasBackrefs)}," ++
  s!"clean3={b (cleanProg3 envFast pr.caseBlind pr.multiLine pr.op && clsCanonB pr.op && !pr.hasBackrefs)}," ++
  s!"clean2={b (cleanProg2 envFast pr.caseBlind pr.multiLine pr.op && clsCanonB pr.op && !pr.hasBackrefs)}," ++
  s!"clean={b (cleanOp pr.op && !pr.hasBackrefs)},nea={b (C08.noEmptyAtoms pr.op)},cicl={b (!pr.caseBlind || C11b.allClsB (C11b.clsClosedOnB (fun c => c != 304)) pr.op)}"

def runApi (pr : Prog) (api : String) (input repl : List Nat) (limit : Nat) : String :=
  match api with
  | "wf" => wfReport pr input.length
  | "compile" => "OK"
  | "is_match" => showOut (fun b => if b then "T" else "F") (pr.isMatch lowerFn input)
  | _ =>
    match pr.nullable lowerFn with
    | .ok nullable =>
      let r : Regex := { prog := pr, nullable := nullable }
      match api with
      | "replace" => showOut (fun s => "OK:" ++ cps s) (r.replaceAll lowerFn input repl)
      | "tokenize" => showOut (fun (p : List (List Nat) × Bool) =>
          s!"OK:{p.1.length}:" ++ "|".intercalate (p.1.map cps) ++ (if p.2 then "+MORE" else "")) (r.tokenize lowerFn input limit)
      | "analyze" => showOut (fun (p : List AEntry × Bool) =>
          s!"OK:{p.1.length}:" ++ ";".intercalate (p.1.map fmtA) ++ (if p.2 then "+MORE" else "")) (r.analyze lowerFn input limit)
      | _ => "BADAPI"
    | .panic _ => "PANIC:compile"
    | .diverge => "HANG"
    | .err e => errName e

def handle (cache : String × Prog) (line : String) : String × (String × Prog) :=
  match line.splitOn "\t" with
  | [id, mode, progS, dialect, pattern, flags, api, input, repl, limit] =>
    if mode == "eng" then
      let pr := if progS == cache.1 then cache.2 else parseProg progS
      (s!"{id}\t{runApi pr api (uncps input) (uncps repl) limit.toNat!}", (progS, pr))
    else if mode == "full" || mode == "fullnoopt" then
      (s!"{id}\t{runFull dialect (if mode == "fullnoopt" then "noopt" else "opt") (uncps pattern) (uncps flags) api (uncps input) (uncps repl) limit.toNat!}", cache)
    else (s!"{id}\tBADMODE", cache)
  | _ => ("bad\tBADREQ", cache)

partial def loop (h : IO.FS.Stream) (out : IO.FS.Stream) (cache : String × Prog) : IO Unit := do
  let line ← h.getLine
  if line.isEmpty then return ()
  let line := if line.back == '\n' then (line.dropEnd 1).toString else line
  let (ans, cache') := handle cache line
  out.putStrLn ans
  loop h out cache'

end Rx.Driver

def main : IO Unit := do
  let out ← IO.getStdout
  Rx.Driver.loop (← IO.getStdin) out ("", { op := .nothing })
