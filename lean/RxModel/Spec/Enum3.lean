/-
  Spec/Enum3 — the fragment of Spec/Enum2 enlarged by the GENERAL greedy repeat `.rep id c mn mx true`
  (variable-length body: `(?:ab|c)+`, `(?:a|bc){2,3}`) under conditions that make the engine's
  post-order DFS (`GreedyRepeatIterator`, Model/Engine `greedyNode`) an exact enumerator:

    `repOK env cb ml c mn`:
      * `1 ≤ mn`            no zero-iteration entry, hence no zero-length-match memo (`st.hist` is read and
                            written only for `min = 0`): the iterator does not depend on the matcher state
      * `cleanOp2 … c`      the body is in the compositional fragment of Spec/Enum2 — in particular it
                            contains no general repeat (no nesting: K3, K9)
      * `nonNull c`         the body is not nullable (K1; progress) — a syntactic test
      * `detB env cb c`     the body is END-DETERMINISTIC by a syntactic test: every alternation in it has
                            non-nullable, themselves deterministic branches with PAIRWISE DISJOINT first sets;
                            fixed-length quantifiers in it are exact (`mn = mx`).  Then from every start the
                            body has at most one end, every iteration count gives a distinct end, the DFS
                            stays on its primed (leftmost) path — the `len < bound` re-extension limit (K4)
                            is never consulted — and the yielded ends strictly decrease, so the
                            force-progress cut (K9: five equal ends in a row) never fires.

  `enum3` : as `enum2`, with `.rep _ c mn mx true ↦ greedyIter (enum3 c) mn mx 0 p` — more iterations first.
  For `mn = 0` this list is what the language prescribes; the engine yields it TWICE when the memo has no
  entry `(id, p)` (the zero-iteration entry is re-extended, Model/Engine) and WITHOUT its last element `p`
  when the memo has the entry: see Props/Clean3, section "min = 0".

  `cleanOp3F` / `cleanOp3` / `cleanProg3` / `shape3` are the predicates of Spec/Enum2 with the extra node.
-/
import RxModel.Spec.Enum2
namespace Rx

/-! ### end-determinism, syntactically -/

mutual
/-- not nullable, syntactically: every member of the language is non-empty.  (The compiler's own
    `matches_empty_string() == NEVER` is useless here: for an alternation it never answers NEVER.) -/
def nonNull : Op → Bool
  | .atom cs => !cs.isEmpty
  | .cls _ => true
  | .capture _ c => nonNull c
  | .choice bs => nonNullAll bs
  | .seq ops => nonNullAny ops
  | .gfixed c mn _ _ => decide (1 ≤ mn) && nonNull c
  | .rfixed c mn _ _ => decide (1 ≤ mn) && nonNull c
  | .unamb c mn _ => decide (1 ≤ mn) && nonNull c
  | .rep _ c mn _ _ => decide (1 ≤ mn) && nonNull c
  | _ => false
termination_by structural o => o
def nonNullAll : List Op → Bool
  | [] => true
  | o :: os => nonNull o && nonNullAll os
termination_by structural l => l
def nonNullAny : List Op → Bool
  | [] => false
  | o :: os => nonNull o || nonNullAny os
termination_by structural l => l
end

mutual
/-- from every start at most one end (a sufficient syntactic condition) -/
def detB (env : Env) (cb : Bool) : Op → Bool
  | .bol | .eol | .nothing | .endProgram | .atom _ | .cls _ => true
  | .unamb _ _ _ => true
  | .capture _ c => detB env cb c
  | .choice bs => detChoice env cb bs
  | .seq ops => detAll env cb ops
  | .gfixed c mn mx _ => (mn == mx) && detB env cb c
  | .rfixed c mn mx _ => (mn == mx) && detB env cb c
  | .backref _ | .rep _ _ _ _ _ => false
termination_by structural o => o
def detAll (env : Env) (cb : Bool) : List Op → Bool
  | [] => true
  | o :: os => detB env cb o && detAll env cb os
termination_by structural l => l
/-- branches: deterministic, not nullable, first sets pairwise disjoint -/
def detChoice (env : Env) (cb : Bool) : List Op → Bool
  | [] => true
  | b :: bs =>
    detB env cb b && nonNull b &&
    bs.all (fun b' => isDisjoint (initialClass env cb b) (initialClass env cb b')) &&
    detChoice env cb bs
termination_by structural l => l
end

/-! ### the fragment -/

mutual
def cleanOp3F (env : Env) (cb ml : Bool) : Bool → List Op → Op → Bool
  | _, _, .bol | _, _, .eol | _, _, .nothing | _, _, .endProgram | _, _, .atom _ | _, _, .cls _ => true
  | top, F, .unamb x mn mx => isAtomOrClass x && (mn == mx || unambJust env cb ml top x F)
  | _, _, .capture _ c => cleanOp3F env cb ml false [] c
  | _, _, .choice bs => cleanAll3 env cb ml bs
  | _, _, .seq ops => cleanSeq3 env cb ml false ops
  | _, _, .gfixed c _ _ _ => cleanOp3F env cb ml false [] c
  | _, _, .rfixed c _ _ _ => cleanOp3F env cb ml false [] c
  | _, _, .rep _ c mn _ g => g && decide (1 ≤ mn) && cleanOp2 env cb ml c && nonNull c && detB env cb c
  | _, _, .backref _ => false
termination_by structural _ _ o => o
def cleanAll3 (env : Env) (cb ml : Bool) : List Op → Bool
  | [] => true
  | o :: os => cleanOp3F env cb ml false [] o && cleanAll3 env cb ml os
termination_by structural l => l
def cleanSeq3 (env : Env) (cb ml : Bool) : Bool → List Op → Bool
  | _, [] => true
  | top, o :: os => cleanOp3F env cb ml top os o && cleanSeq3 env cb ml top os
termination_by structural _ l => l
end

/-- the compositional fragment: `enum3` lists exactly the language -/
def cleanOp3 (env : Env) (cb ml : Bool) (op : Op) : Bool := cleanOp3F env cb ml false [] op

/-- a whole program: the root sequence may end in `X{mn,mx} · EndProgram` (as in Spec/Enum2) -/
def cleanProg3 (env : Env) (cb ml : Bool) : Op → Bool
  | .seq ops => cleanSeq3 env cb ml true ops
  | o => cleanOp3 env cb ml o

mutual
/-- the shape alone: enough for the stream theorem *given* that the repeat bodies are deterministic and
    make progress (a semantic hypothesis there) -/
def shape3 : Op → Bool
  | .bol | .eol | .nothing | .endProgram | .atom _ | .cls _ => true
  | .unamb x _ _ => isAtomOrClass x
  | .capture _ c => shape3 c
  | .choice bs => shape3L bs
  | .seq ops => shape3L ops
  | .gfixed c _ _ _ => shape3 c
  | .rfixed c _ _ _ => shape3 c
  | .rep _ c mn _ g => g && decide (1 ≤ mn) && shape2 c
  | .backref _ => false
termination_by structural o => o
def shape3L : List Op → Bool
  | [] => true
  | o :: os => shape3 o && shape3L os
termination_by structural l => l
end

/-! ### the enumeration -/

mutual
def enum3 (ctx : Ctx) : Op → Nat → List Nat
  | .bol, p =>
      if p = 0 ∨ (ctx.multiLine = true ∧ ctx.input[p - 1]? = some 10 ∧ p < ctx.len) then [p] else []
  | .eol, p =>
      if p ≥ ctx.len ∨ (ctx.multiLine = true ∧ ctx.input[p]? = some 10) then [p] else []
  | .nothing, p => [p]
  | .endProgram, p => [p]
  | .atom cs, p =>
      if p + cs.length ≤ ctx.len ∧ prefixMatch ctx cs (ctx.input.drop p) = true then [p + cs.length] else []
  | .cls rs, p =>
      match ctx.input[p]? with
      | some c => if clsContains rs c = true then [p + 1] else []
      | none => []
  | .capture _ c, p => enum3 ctx c p
  | .choice bs, p => enumAny3 ctx bs p
  | .seq ops, p => enumSeq3 ctx ops p
  | .gfixed c mn mx _, p => greedyIter (enum3 ctx c) mn mx 0 p
  | .rfixed c mn mx _, p => reluctIter (enum3 ctx c) mn mx 0 p
  | .unamb c mn mx, p => if mn ≤ (munch (enum3 ctx c) mx p).1 then [(munch (enum3 ctx c) mx p).2] else []
  | .rep _ c mn mx _, p => greedyIter (enum3 ctx c) mn mx 0 p
  | .backref _, _ => []          -- outside the fragment
termination_by structural o => o
def enumAny3 (ctx : Ctx) : List Op → Nat → List Nat
  | [], _ => []
  | b :: bs, p => enum3 ctx b p ++ enumAny3 ctx bs p
termination_by structural l => l
def enumSeq3 (ctx : Ctx) : List Op → Nat → List Nat
  | [], p => [p]
  | o :: os, p => (enum3 ctx o p).flatMap (enumSeq3 ctx os)
termination_by structural l => l
end

end Rx
