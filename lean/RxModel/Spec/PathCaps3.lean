/-
  Spec/PathCaps3 — the straight-line capture fragment of Spec/PathCaps enlarged by capture-free
  VARIABLE-LENGTH repeats (`(a+)(?:bc|d)+?\1`, `(x)(?:ab|c)+(y)\2`).

  `noCapBr op`     : no `.capture` and no `.backref` anywhere in the tree (any node kind otherwise).
  `straightCaps3`  : `straightCaps` (captures / back-references reachable through `.seq` / `.capture` only,
                     alternation branches and bodies of fixed-length quantifiers plain) plus the node
                         `.rep id c mn mx g`   under the side conditions of Spec/Enum4 (`cleanOp4F`: body in
                         `cleanOp2`, `nonNull`, `detB`; greedy ⇒ `1 ≤ mn`)  and  `noCapBr c`.
  `enumC3`         : `enumC` with `.rep … ↦ (enum4 … p).map (·, e)` — the ends as in `enum4` (greedy: most
                     iterations first; reluctant: fewest first), the environment passes through unchanged.
  The path semantics is `PathR` of Spec/PathCaps (unchanged), scoping is `scopeOK` (a repeat node has no
  groups: `capsOf` is empty on `noCapBr` trees).
-/
import RxModel.Spec.PathCaps
import RxModel.Spec.Enum4
namespace Rx

mutual
/-- no capture and no back-reference anywhere in the tree -/
def noCapBr : Op → Bool
  | .bol | .eol | .nothing | .endProgram | .atom _ | .cls _ => true
  | .choice bs => noCapBrL bs
  | .seq ops => noCapBrL ops
  | .rep _ c _ _ _ => noCapBr c
  | .gfixed c _ _ _ => noCapBr c
  | .rfixed c _ _ _ => noCapBr c
  | .unamb c _ _ => noCapBr c
  | .capture _ _ | .backref _ => false
termination_by structural o => o
def noCapBrL : List Op → Bool
  | [] => true
  | o :: os => noCapBr o && noCapBrL os
termination_by structural l => l
end

mutual
/-- `straightCaps` plus capture-free general repeats of the Clean4 fragment in straight-line position -/
def straightCaps3 (env : Env) (cb ml : Bool) : Op → Bool
  | .bol | .eol | .nothing | .endProgram | .atom _ | .cls _ | .backref _ => true
  | .capture _ c => straightCaps3 env cb ml c
  | .seq ops => straightCaps3L env cb ml ops
  | .choice bs => plainOps bs
  | .gfixed c _ _ _ => plainOp c
  | .rfixed c _ _ _ => plainOp c
  | .rep id c mn mx g => cleanOp4F env cb ml false [] (.rep id c mn mx g) && noCapBr c
  | .unamb _ _ _ => false
termination_by structural o => o
def straightCaps3L (env : Env) (cb ml : Bool) : List Op → Bool
  | [] => true
  | o :: os => straightCaps3 env cb ml o && straightCaps3L env cb ml os
termination_by structural l => l
end

mutual
/-- (end position, environment) of every path of `op` from `(p, e)`, in priority order, on `straightCaps3` -/
def enumC3 (ctx : Ctx) : Op → Nat → CEnv → List (Nat × CEnv)
  | .backref g, p, e =>
      match e g with
      | none => [(p, e)]
      | some (a, b) =>
        if p + (b - a) ≤ ctx.len ∧ sameText ctx (b - a) p a = true then [(p + (b - a), e)] else []
  | .capture g c, p, e => (enumC3 ctx c p e).map (fun x => (x.1, x.2.set g p x.1))
  | .seq ops, p, e => enumC3Seq ctx ops p e
  | .bol, p, e => (enum ctx .bol p).map (fun q => (q, e))
  | .eol, p, e => (enum ctx .eol p).map (fun q => (q, e))
  | .nothing, p, e => (enum ctx .nothing p).map (fun q => (q, e))
  | .endProgram, p, e => (enum ctx .endProgram p).map (fun q => (q, e))
  | .atom cs, p, e => (enum ctx (.atom cs) p).map (fun q => (q, e))
  | .cls rs, p, e => (enum ctx (.cls rs) p).map (fun q => (q, e))
  | .choice bs, p, e => (enum ctx (.choice bs) p).map (fun q => (q, e))
  | .gfixed c mn mx l, p, e => (enum ctx (.gfixed c mn mx l) p).map (fun q => (q, e))
  | .rfixed c mn mx l, p, e => (enum ctx (.rfixed c mn mx l) p).map (fun q => (q, e))
  | .rep id c mn mx g, p, e => (enum4 ctx (.rep id c mn mx g) p).map (fun q => (q, e))
  | .unamb _ _ _, _, _ => []
termination_by structural o => o
def enumC3Seq (ctx : Ctx) : List Op → Nat → CEnv → List (Nat × CEnv)
  | [], p, e => [(p, e)]
  | o :: os, p, e => (enumC3 ctx o p e).flatMap (fun x => enumC3Seq ctx os x.1 x.2)
termination_by structural l => l
end

end Rx
