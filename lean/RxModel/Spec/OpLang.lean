/-
  Spec/OpLang — the language denoted by a compiled operation tree, compositionally:
  alternation = union, sequence = composition, every repetition operator = k-fold composition for
  min ≤ k ≤ max, anchors = position tests, a class = its set.  `OpR ctx op p q` : "`op` can match
  the input from offset `p` to offset `q`".  Independent of iterators, state, order of exploration.
  (A back-reference depends on the capture environment; here it is only constrained to stay
  inside the input — C19 refines it.)
-/
import RxModel.Proofs.StreamCalc
import RxModel.Model.Optimize
namespace Rx

mutual
def OpR (ctx : Ctx) : Op → Nat → Nat → Prop
  | .bol, p, q => q = p ∧ (p = 0 ∨ (ctx.multiLine = true ∧ ctx.input[p - 1]? = some 10 ∧ p < ctx.len))
  | .eol, p, q => q = p ∧ (p ≥ ctx.len ∨ (ctx.multiLine = true ∧ ctx.input[p]? = some 10))
  | .nothing, p, q => q = p
  | .endProgram, p, q => q = p
  | .atom cs, p, q => q = p + cs.length ∧ q ≤ ctx.len ∧ prefixMatch ctx cs (ctx.input.drop p) = true
  | .cls rs, p, q => q = p + 1 ∧ ∃ c, ctx.input[p]? = some c ∧ clsContains rs c = true
  | .backref _, p, q => p ≤ q ∧ q ≤ ctx.len
  | .capture _ c, p, q => OpR ctx c p q
  | .choice bs, p, q => OpRAny ctx bs p q
  | .seq ops, p, q => OpRSeq ctx ops p q
  | .rep _ c mn mx _, p, q => ∃ k, mn ≤ k ∧ k ≤ mx ∧ IterR (fun a b => OpR ctx c a b) k p q
  | .gfixed c mn mx _, p, q => ∃ k, mn ≤ k ∧ k ≤ mx ∧ IterR (fun a b => OpR ctx c a b) k p q
  | .rfixed c mn mx _, p, q => ∃ k, mn ≤ k ∧ k ≤ mx ∧ IterR (fun a b => OpR ctx c a b) k p q
  | .unamb c mn mx, p, q => ∃ k, mn ≤ k ∧ k ≤ mx ∧ IterR (fun a b => OpR ctx c a b) k p q
termination_by structural o => o
def OpRAny (ctx : Ctx) : List Op → Nat → Nat → Prop
  | [], _, _ => False
  | b :: bs, p, q => OpR ctx b p q ∨ OpRAny ctx bs p q
termination_by structural l => l
def OpRSeq (ctx : Ctx) : List Op → Nat → Nat → Prop
  | [], p, q => q = p
  | o :: os, p, q => ∃ m, OpR ctx o p m ∧ OpRSeq ctx os m q
termination_by structural l => l
end

mutual
/-- well-formedness of compiled trees: the recorded body length of a fixed-length repeat is the
    body's real fixed length and is positive; quantifier bounds satisfy `min ≤ max`, `0 < max`;
    sequences and choices are non-empty.  (The compiler only builds such trees; the driver
    re-checks `wfOp` on every program it is given.) -/
def wfOp : Op → Bool
  | .capture _ c => wfOp c
  | .choice bs => !bs.isEmpty && wfOps bs
  | .seq ops => !ops.isEmpty && wfOps ops
  | .rep _ c mn mx _ => wfOp c && decide (mn ≤ mx) && decide (0 < mx)
  | .gfixed c mn mx len =>
      wfOp c && (matchLen c == some len) && decide (0 < len) && decide (len < usizeMax) && decide (mn ≤ mx) && decide (0 < mx)
  | .rfixed c mn mx len =>
      wfOp c && (matchLen c == some len) && decide (0 < len) && decide (len < usizeMax) && decide (mn ≤ mx) && decide (0 < mx)
  | .unamb c mn mx => wfOp c && decide (mn ≤ mx) && decide (0 < mx)
  | _ => true
termination_by structural o => o
def wfOps : List Op → Bool
  | [] => true
  | o :: os => wfOp o && wfOps os
termination_by structural l => l
end

mutual
def hasBackref : Op → Bool
  | .backref _ => true
  | .capture _ c => hasBackref c
  | .choice bs => hasBackrefL bs
  | .seq ops => hasBackrefL ops
  | .rep _ c _ _ _ => hasBackref c
  | .gfixed c _ _ _ => hasBackref c
  | .rfixed c _ _ _ => hasBackref c
  | .unamb c _ _ => hasBackref c
  | _ => false
termination_by structural o => o
def hasBackrefL : List Op → Bool
  | [] => false
  | o :: os => hasBackref o || hasBackrefL os
termination_by structural l => l
end

end Rx
