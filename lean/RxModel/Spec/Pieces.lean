/-
  Spec/Pieces — what "the pieces of the input between consecutive matches" means, independently
  of the three scan loops.  A span is `(a, b)` = code-point offsets `[a, b)`.
-/
import RxModel.Model.Scan
namespace Rx.Spec
open Rx

/-- the pieces of `s` between consecutive spans, starting at offset `pos` -/
def pieces (s : List Nat) : (pos : Nat) → List (Nat × Nat) → List (List Nat)
  | pos, [] => [s.drop pos]
  | pos, (a, b) :: rest => slice s pos a :: pieces s b rest

/-- `s` from `pos` on, with every span replaced by its text `t` -/
def replaced (s : List Nat) : (pos : Nat) → List (Nat × Nat × List Nat) → List Nat
  | pos, [] => s.drop pos
  | pos, (a, b, t) :: rest => slice s pos a ++ t ++ replaced s b rest

/-- the alternating non-match / match entries (no empty non-match entries) -/
def entries (s : List Nat) : (pos : Nat) → List (Nat × Nat × List MEntry) → List AEntry
  | pos, [] => if pos < s.length then [.nonMatch (s.drop pos)] else []
  | pos, (a, b, es) :: rest =>
    (if pos < a then [.nonMatch (slice s pos a)] else []) ++ [.isMatch es] ++ entries s b rest

mutual
def mText : MEntry → List Nat
  | .str s => s
  | .group _ v => mTextL v
def mTextL : List MEntry → List Nat
  | [] => []
  | e :: es => mText e ++ mTextL es
end

def aText : AEntry → List Nat
  | .nonMatch s => s
  | .isMatch es => mTextL es

def aTextL : List AEntry → List Nat
  | [] => []
  | e :: es => aText e ++ aTextL es

def joinWith (r : List Nat) : List (List Nat) → List Nat
  | [] => []
  | [t] => t
  | t :: t2 :: ts => t ++ r ++ joinWith r (t2 :: ts)

end Rx.Spec
