/-
  Spec/Enum4 — the fragment of Spec/Enum3 enlarged by the GENERAL RELUCTANT repeat `.rep id c mn mx false`
  (variable-length body: `(?:ab|c)+?`, `(?:a|bc){2,3}?`, `(?:ab|c)*?`).

  The reluctant iterator (`ReluctantRepeatIterator`, Model/Engine `repReluctantGen`) takes the FIRST match of
  the body per iteration and never backtracks into the body (finding K2 when the body is ambiguous); it does
  not read or write the zero-length-match memo.  Hence, unlike the greedy node, `mn = 0` is allowed:

      `.rep _ c mn mx false`   when  `cleanOp2 … c`  (rep-free body),  `nonNull c`  (progress),
                               `detB env cb c`  (end-deterministic: the first match of the body is its only one)
      `.rep _ c mn mx true`    as in Spec/Enum3 (additionally `1 ≤ mn`)

  `enum4` : as `enum3`, with `.rep _ c mn mx false ↦ reluctIter (enum4 c) mn mx 0 p` — FEWEST iterations first.
-/
import RxModel.Spec.Enum3
namespace Rx

mutual
def cleanOp4F (env : Env) (cb ml : Bool) : Bool → List Op → Op → Bool
  | _, _, .bol | _, _, .eol | _, _, .nothing | _, _, .endProgram | _, _, .atom _ | _, _, .cls _ => true
  | top, F, .unamb x mn mx => isAtomOrClass x && (mn == mx || unambJust env cb ml top x F)
  | _, _, .capture _ c => cleanOp4F env cb ml false [] c
  | _, _, .choice bs => cleanAll4 env cb ml bs
  | _, _, .seq ops => cleanSeq4 env cb ml false ops
  | _, _, .gfixed c _ _ _ => cleanOp4F env cb ml false [] c
  | _, _, .rfixed c _ _ _ => cleanOp4F env cb ml false [] c
  | _, _, .rep _ c mn _ g => (!g || decide (1 ≤ mn)) && cleanOp2 env cb ml c && nonNull c && detB env cb c
  | _, _, .backref _ => false
termination_by structural _ _ o => o
def cleanAll4 (env : Env) (cb ml : Bool) : List Op → Bool
  | [] => true
  | o :: os => cleanOp4F env cb ml false [] o && cleanAll4 env cb ml os
termination_by structural l => l
def cleanSeq4 (env : Env) (cb ml : Bool) : Bool → List Op → Bool
  | _, [] => true
  | top, o :: os => cleanOp4F env cb ml top os o && cleanSeq4 env cb ml top os
termination_by structural _ l => l
end

/-- the compositional fragment: `enum4` lists exactly the language -/
def cleanOp4 (env : Env) (cb ml : Bool) (op : Op) : Bool := cleanOp4F env cb ml false [] op

/-- a whole program: the root sequence may end in `X{mn,mx} · EndProgram` (as in Spec/Enum2) -/
def cleanProg4 (env : Env) (cb ml : Bool) : Op → Bool
  | .seq ops => cleanSeq4 env cb ml true ops
  | o => cleanOp4 env cb ml o

mutual
/-- the shape alone -/
def shape4 : Op → Bool
  | .bol | .eol | .nothing | .endProgram | .atom _ | .cls _ => true
  | .unamb x _ _ => isAtomOrClass x
  | .capture _ c => shape4 c
  | .choice bs => shape4L bs
  | .seq ops => shape4L ops
  | .gfixed c _ _ _ => shape4 c
  | .rfixed c _ _ _ => shape4 c
  | .rep _ c mn _ g => (!g || decide (1 ≤ mn)) && shape2 c
  | .backref _ => false
termination_by structural o => o
def shape4L : List Op → Bool
  | [] => true
  | o :: os => shape4 o && shape4L os
termination_by structural l => l
end

/-! ### the enumeration -/

mutual
def enum4 (ctx : Ctx) : Op → Nat → List Nat
  | .bol, p =>
      if p = 0 ∨ (ctx.multiLine = true ∧ ctx.input[p - 1]? = some 10 ∧ p < ctx.len) then [p] else []
  | .eol, p =>
      if p ≥ ctx.len ∨ (ctx.multiLine = true ∧ ctx.input[p]? = some 10) then [p] else []
  | .nothing, p => [p]
  | .endProgram, p => [p]
  | .atom cs, p =>
      if p + cs.length ≤ ctx.len ∧ prefixMatch ctx cs (ctx.input.drop p) = true then [p + cs.length] else []
  | .cls rs, p =>
      match ctx.input[p]? with
      | some c => if clsContains rs c = true then [p + 1] else []
      | none => []
  | .capture _ c, p => enum4 ctx c p
  | .choice bs, p => enumAny4 ctx bs p
  | .seq ops, p => enumSeq4 ctx ops p
  | .gfixed c mn mx _, p => greedyIter (enum4 ctx c) mn mx 0 p
  | .rfixed c mn mx _, p => reluctIter (enum4 ctx c) mn mx 0 p
  | .unamb c mn mx, p => if mn ≤ (munch (enum4 ctx c) mx p).1 then [(munch (enum4 ctx c) mx p).2] else []
  | .rep _ c mn mx g, p =>
      if g = true then greedyIter (enum4 ctx c) mn mx 0 p else reluctIter (enum4 ctx c) mn mx 0 p
  | .backref _, _ => []          -- outside the fragment
termination_by structural o => o
def enumAny4 (ctx : Ctx) : List Op → Nat → List Nat
  | [], _ => []
  | b :: bs, p => enum4 ctx b p ++ enumAny4 ctx bs p
termination_by structural l => l
def enumSeq4 (ctx : Ctx) : List Op → Nat → List Nat
  | [], p => [p]
  | o :: os, p => (enum4 ctx o p).flatMap (enumSeq4 ctx os)
termination_by structural l => l
end

end Rx
