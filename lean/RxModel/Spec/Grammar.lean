/-
  Spec/Grammar — the XPath 3.1 / XSD 1.1 regular-expression grammar as an abstract syntax tree, its
  rendering to code points, and the well-formedness side conditions (F&O 3.1 §5.6.1 on top of
  XSD 1.1 Part 2, appendix G).  Independent of the parser: nothing here mentions `parseExpr`.

      regExp     ::= branch ('|' branch)*
      branch     ::= piece*
      piece      ::= atom quantifier?
      quantifier ::= ('?' | '*' | '+' | '{n}' | '{n,}' | '{n,m}') '?'?      -- trailing '?': reluctant, XPath only
      atom       ::= normal character | '.' | '^' | '$'                      -- '^' '$': XPath only
                   | '\' single-char escape                                   -- n r t \ | . - ^ ? * + { } ( ) [ ]  ($: XPath)
                   | '\' [sSiIcCdDwW] | '\p{' name '}' | '\P{' name '}'
                   | '\' [1-9][0-9]*                                          -- back-reference, XPath only
                   | charClassExpr                                            -- `C09.CExpr` (Props/C09c)
                   | '(' regExp ')' | '(?:' regExp ')'                        -- '(?:': XPath only

  The tree is three mutually inductive types `Atom` / `Branch` / `RegExp` (a branch is a list of
  pieces, a piece is an atom with an optional quantifier; a regExp is a non-empty list of
  branches).  `Ast` is `RegExp`.

  Side conditions (`ok`), all taken from the two specifications:
    * normal character: not one of `. \ ? * + { } ( ) | [ ]`, and in XPath not `^` `$`
      (in the XSD dialect `^` and `$` ARE normal characters and `Atom.bol` / `Atom.eol` do not exist);
    * quantity numerals are non-empty digit runs, and `n ≤ m` in `{n,m}`;
    * reluctant quantifiers, `(?:`, back-references and `\$` only in the XPath dialect;
    * category / block names of `\p{…}` are known to the environment (`C09.propLookup`);
    * a back-reference `\N`: `N ≥ 1` without leading zero, group `N` has been OPENED before
      (`N ≤ n`, `n` = number of capturing `(` to the left) and is already CLOSED at this point
      (`N ∈ cl`); multi-digit rule: the numeral is the longest one that does not exceed `n`, so the
      text after `\N` must not start with a digit `d` with `10·N + d ≤ n`.
  The groups opened (`n`) and closed (`cl`) so far are threaded left to right by `ok`
  (`groups`, `closed`).

  `inLimit` is NOT part of the grammar: it is the implementation limit of the parser
  (quantity ≤ 2^64 − 1), kept separate so that the deviation stays visible
  (`ParserQuirkFree` in Props/C07b).
-/
import RxModel.Model.Parser
import RxModel.Spec.Repl
import RxModel.Proofs.ClassFullLemmas
namespace Rx.Grammar
open Rx

/-! ### quantifiers -/

/-- a quantity numeral: a non-empty run of ASCII digits (leading zeros allowed) -/
def numeral (ds : List Nat) : Bool := !ds.isEmpty && ds.all isDigit

inductive QKind where
  | opt                          -- `?`
  | star                         -- `*`
  | plus                         -- `+`
  | exact (n : List Nat)         -- `{n}`
  | atLeast (n : List Nat)       -- `{n,}`
  | range (n m : List Nat)       -- `{n,m}`
deriving Repr, DecidableEq

structure Quant where
  kind : QKind
  reluctant : Bool := false      -- trailing `?`
deriving Repr, DecidableEq

def QKind.render : QKind → List Nat
  | .opt => [63]
  | .star => [42]
  | .plus => [43]
  | .exact n => 123 :: (n ++ [125])
  | .atLeast n => 123 :: (n ++ [44, 125])
  | .range n m => 123 :: (n ++ 44 :: (m ++ [125]))

def Quant.render (q : Quant) : List Nat := q.kind.render ++ (if q.reluctant then [63] else [])

def qRender : Option Quant → List Nat
  | none => []
  | some q => q.render

/-- numerals well formed, `n ≤ m` -/
def QKind.ok : QKind → Bool
  | .exact n => numeral n
  | .atLeast n => numeral n
  | .range n m => numeral n && numeral m && decide (Spec.digitsVal n ≤ Spec.digitsVal m)
  | _ => true

/-- the reluctant marker exists in the XPath dialect only -/
def Quant.ok (xsd : Bool) (q : Quant) : Bool := q.kind.ok && !(q.reluctant && xsd)

def qOk (xsd : Bool) : Option Quant → Bool
  | none => true
  | some q => q.ok xsd

/-- implementation limit of the parser (NOT grammar): quantities fit in a `usize` -/
def QKind.inLimit : QKind → Bool
  | .exact n => decide (Spec.digitsVal n ≤ usizeMax)
  | .atLeast n => decide (Spec.digitsVal n ≤ usizeMax)
  | .range n m => decide (Spec.digitsVal n ≤ usizeMax) && decide (Spec.digitsVal m ≤ usizeMax)
  | _ => true

def qInLimit : Option Quant → Bool
  | none => true
  | some q => q.kind.inLimit

/-! ### the tree -/

mutual
inductive Atom where
  | chr (x : Nat)                           -- a normal character
  | dot                                     -- `.`
  | bol                                     -- `^`   (XPath)
  | eol                                     -- `$`   (XPath)
  | esc (e : Nat)                           -- `\e`, single-character escape
  | clsEsc (e : Nat)                        -- `\d \D \s \S \w \W \i \I \c \C`
  | prop (pos : Bool) (name : List Nat)     -- `\p{name}` / `\P{name}`
  | backref (ds : List Nat)                 -- `\N`, `ds` the digits of `N`   (XPath)
  | cls (e : C09.CExpr)                     -- `[...]`
  | group (r : RegExp)                      -- `( r )`
  | ncgroup (r : RegExp)                    -- `(?: r )`   (XPath)
inductive Branch where
  | nil
  | cons (a : Atom) (q : Option Quant) (b : Branch)      -- piece `a q`, then the rest of the branch
inductive RegExp where
  | one (b : Branch)
  | alt (b : Branch) (r : RegExp)                        -- `b | r`
end

abbrev Ast := RegExp

mutual
def Atom.render : Atom → List Nat
  | .chr x => [x]
  | .dot => [46]
  | .bol => [94]
  | .eol => [36]
  | .esc e => [92, e]
  | .clsEsc e => [92, e]
  | .prop pos name => 92 :: (if pos then 112 else 80) :: 123 :: (name ++ [125])
  | .backref ds => 92 :: ds
  | .cls e => e.render
  | .group r => 40 :: (r.render ++ [41])
  | .ncgroup r => 40 :: 63 :: 58 :: (r.render ++ [41])
def Branch.render : Branch → List Nat
  | .nil => []
  | .cons a q b => a.render ++ (qRender q ++ b.render)
def RegExp.render : RegExp → List Nat
  | .one b => b.render
  | .alt b r => b.render ++ 124 :: r.render
end

/- number of capturing groups -/
mutual
def Atom.groups : Atom → Nat
  | .group r => r.groups + 1
  | .ncgroup r => r.groups
  | _ => 0
def Branch.groups : Branch → Nat
  | .nil => 0
  | .cons a _ b => a.groups + b.groups
def RegExp.groups : RegExp → Nat
  | .one b => b.groups
  | .alt b r => b.groups + r.groups
end

/- the capturing groups that are closed after the tree, given `n` groups opened and the groups
    `cl` closed before it (groups are numbered 1, 2, … by their opening parenthesis) -/
mutual
def Atom.closed (n : Nat) (cl : List Nat) : Atom → List Nat
  | .group r => (n + 1) :: r.closed (n + 1) cl
  | .ncgroup r => r.closed n cl
  | _ => cl
def Branch.closed (n : Nat) (cl : List Nat) : Branch → List Nat
  | .nil => cl
  | .cons a _ b => b.closed (n + a.groups) (a.closed n cl)
def RegExp.closed (n : Nat) (cl : List Nat) : RegExp → List Nat
  | .one b => b.closed n cl
  | .alt b r => r.closed (n + b.groups) (b.closed n cl)
end

/-- a character that stands for itself: not a metacharacter -/
def normalChar (xsd : Bool) (x : Nat) : Bool :=
  !(x == 46 || x == 92 || x == 63 || x == 42 || x == 43 || x == 123 || x == 125 || x == 40 ||
    x == 41 || x == 124 || x == 91 || x == 93) && (xsd || !(x == 94 || x == 36))

/-- the digits of a back-reference: non-empty, all digits, no leading zero -/
def backrefNumeral (ds : List Nat) : Bool :=
  match ds with
  | [] => false
  | d :: _ => ds.all isDigit && d != 48

/-- multi-digit rule: with `n` groups opened, `\N` (value `v`) does not continue into `next` -/
def backrefFollowOk (n v : Nat) (next : List Nat) : Bool :=
  match next with
  | [] => true
  | d :: _ => !(isDigit d && decide (v * 10 + (d - 48) ≤ n))

/-- the condition an atom puts on the text that follows it in its branch -/
def Atom.followOk (n : Nat) (a : Atom) (next : List Nat) : Bool :=
  match a with
  | .backref ds => backrefFollowOk n (Spec.digitsVal ds) next
  | _ => true

/- well-formedness, with `n` capturing groups opened and the groups `cl` closed to the left -/
mutual
def Atom.ok (xsd : Bool) (env : Env) (n : Nat) (cl : List Nat) : Atom → Bool
  | .chr x => normalChar xsd x
  | .dot => true
  | .bol => !xsd
  | .eol => !xsd
  | .esc e => C09.escSingleOk xsd e
  | .clsEsc e => C09.clsEscOk e
  | .prop _ name => name.all (· != 125) && (C09.propLookup env name).isSome
  | .backref ds =>
    !xsd && backrefNumeral ds && decide (Spec.digitsVal ds ≤ n) && decide (Spec.digitsVal ds ∈ cl)
  | .cls e => e.ok xsd env
  | .group r => r.ok xsd env (n + 1) cl
  | .ncgroup r => !xsd && r.ok xsd env n cl
def Branch.ok (xsd : Bool) (env : Env) (n : Nat) (cl : List Nat) : Branch → Bool
  | .nil => true
  | .cons a q b =>
    a.ok xsd env n cl && qOk xsd q && a.followOk n (qRender q ++ b.render) &&
      b.ok xsd env (n + a.groups) (a.closed n cl)
def RegExp.ok (xsd : Bool) (env : Env) (n : Nat) (cl : List Nat) : RegExp → Bool
  | .one b => b.ok xsd env n cl
  | .alt b r => b.ok xsd env n cl && r.ok xsd env (n + b.groups) (b.closed n cl)
end

/- parser limit (not grammar): every quantity is at most `usize::MAX` -/
mutual
def Atom.inLimit : Atom → Bool
  | .group r => r.inLimit
  | .ncgroup r => r.inLimit
  | _ => true
def Branch.inLimit : Branch → Bool
  | .nil => true
  | .cons a q b => a.inLimit && qInLimit q && b.inLimit
def RegExp.inLimit : RegExp → Bool
  | .one b => b.inLimit
  | .alt b r => b.inLimit && r.inLimit
end

/-- a whole pattern is well formed for the dialect and environment of the compiler context `c`:
    no group is open or closed at the start -/
def Ast.ok (a : Ast) (c : PC) : Bool := RegExp.ok c.fl.xsd c.env 0 [] a

def Ast.okFor (a : Ast) (xsd : Bool) (env : Env) : Bool := RegExp.ok xsd env 0 [] a

/-- pattern text from a string literal (for examples) -/
def cps (s : String) : List Nat := s.toList.map Char.toNat

end Rx.Grammar

