/-
  Spec/Enum2 — the clean fragment (Spec/Enum) enlarged by the optimiser's `UnambiguousRepeat`.

  `Sequence::optimize` (Model/Optimize `optimizeSeq`) replaces an element `X{mn,mx}` of a sequence, X a
  single literal or class, by `.unamb X mn mx` — take the maximal run of X, never give back — when
      (1) `mn = mx`, or
      (2) `no_ambiguity(X, next)` holds for the NEXT element of the sequence:
          (2a) `next` is `$` (not multi-line), (2b) `next` is EndProgram (greedy quantifier),
          (2c) the first sets of X and of `next` are disjoint (and `next` is not a `{0,…}` repeat).
  `.unamb` has the full language `X^k, mn ≤ k ≤ mx` (Spec/OpLang), of which the engine yields only the
  maximal-munch member; what makes that complete is the context:

    * `cleanOp2F env cb ml top F op` : `op` is in the enlarged fragment when it stands in front of the
      siblings `F` of a sequence (`F = []` : not inside a sequence / last element).  A node
      `.unamb x mn mx` is allowed exactly when `x` is one literal / class (`isAtomOrClass`) and
      (1), (2a) or (2c) holds w.r.t. the head of `F` — or, only in the ROOT sequence (`top = true`),
      (2b) `F = [EndProgram]`.
    * `cleanOp2`  (`top = false`, `F = []`): the COMPOSITIONAL fragment — `enum2` lists exactly `OpR`.
    * `cleanProg2`: a whole program; additionally (2b) in the root sequence — there `enum2` lists
      only the greedy-first end of the final repeat, and what holds is the existence form
      "the language has a member from p  ⇒  enum2 … p ≠ []" (and `enum2.head?` is the reported end).
    * `shape2`    : the shape only (clean + `.unamb` over one literal / class), enough for the stream
      theorem: `unambGen` is deterministic whatever follows.

  `enum2` : as `enum`, with `.unamb x mn mx ↦ [maximal-munch end]` if the run has ≥ mn members, else [].

  Side conditions kept OUT of these predicates and carried by the theorems as decidable hypotheses:
  `C08.noEmptyAtoms op` (no empty literal) and `clsCanonB op` (classes canonical, literals code
  points) — both hold of compiler output.
-/
import RxModel.Spec.Enum
import RxModel.Proofs.PreLemmas
namespace Rx

/-! ### canonical classes, as a Boolean (`C09.Canon` / `C08.clsCanon` are Props) -/

def canonB : Ranges → Bool
  | [] => true
  | [(a, b)] => decide (a < b) && decide (b ≤ cpLimit)
  | (a, b) :: (c, d) :: rs => decide (a < b) && decide (b < c) && canonB ((c, d) :: rs)

mutual
/-- every class of the tree is a canonical range list and every literal character a code point -/
def clsCanonB : Op → Bool
  | .atom cs => cs.all (fun c => decide (c < cpLimit))
  | .cls rs => canonB rs
  | .capture _ c => clsCanonB c
  | .choice bs => clsCanonBL bs
  | .seq ops => clsCanonBL ops
  | .rep _ c _ _ _ => clsCanonB c
  | .gfixed c _ _ _ => clsCanonB c
  | .rfixed c _ _ _ => clsCanonB c
  | .unamb c _ _ => clsCanonB c
  | _ => true
termination_by structural o => o
def clsCanonBL : List Op → Bool
  | [] => true
  | o :: os => clsCanonB o && clsCanonBL os
termination_by structural l => l
end

/-! ### the fragment -/

def isEol : Op → Bool
  | .eol => true
  | _ => false

def isEnd : Op → Bool
  | .endProgram => true
  | _ => false

/-- why the maximal run of `x` loses nothing in front of the siblings `F`: (2a) a `$` that only
    matches at the end of the input, (2b) EndProgram closing the root sequence, (2c) disjoint first sets -/
def unambJust (env : Env) (cb ml top : Bool) (x : Op) : List Op → Bool
  | [] => false
  | nxt :: rest =>
    (isEol nxt && !ml) || (isEnd nxt && rest.isEmpty && top) ||
    isDisjoint (initialClass env cb x) (initialClass env cb nxt)

mutual
def cleanOp2F (env : Env) (cb ml : Bool) : Bool → List Op → Op → Bool
  | _, _, .bol | _, _, .eol | _, _, .nothing | _, _, .endProgram | _, _, .atom _ | _, _, .cls _ => true
  | top, F, .unamb x mn mx => isAtomOrClass x && (mn == mx || unambJust env cb ml top x F)
  | _, _, .capture _ c => cleanOp2F env cb ml false [] c
  | _, _, .choice bs => cleanAll2 env cb ml bs
  | _, _, .seq ops => cleanSeq2 env cb ml false ops
  | _, _, .gfixed c _ _ _ => cleanOp2F env cb ml false [] c
  | _, _, .rfixed c _ _ _ => cleanOp2F env cb ml false [] c
  | _, _, .backref _ | _, _, .rep _ _ _ _ _ => false
termination_by structural _ _ o => o
def cleanAll2 (env : Env) (cb ml : Bool) : List Op → Bool
  | [] => true
  | o :: os => cleanOp2F env cb ml false [] o && cleanAll2 env cb ml os
termination_by structural l => l
/-- the elements of a sequence, each judged against its followers -/
def cleanSeq2 (env : Env) (cb ml : Bool) : Bool → List Op → Bool
  | _, [] => true
  | top, o :: os => cleanOp2F env cb ml top os o && cleanSeq2 env cb ml top os
termination_by structural _ l => l
end

/-- the compositional fragment: `enum2` lists exactly the language -/
def cleanOp2 (env : Env) (cb ml : Bool) (op : Op) : Bool := cleanOp2F env cb ml false [] op

/-- a whole program: the root sequence may end in `X{mn,mx} · EndProgram` -/
def cleanProg2 (env : Env) (cb ml : Bool) : Op → Bool
  | .seq ops => cleanSeq2 env cb ml true ops
  | o => cleanOp2 env cb ml o

mutual
/-- the shape alone: the clean fragment plus `.unamb` over one literal / class -/
def shape2 : Op → Bool
  | .bol | .eol | .nothing | .endProgram | .atom _ | .cls _ => true
  | .unamb x _ _ => isAtomOrClass x
  | .capture _ c => shape2 c
  | .choice bs => shape2L bs
  | .seq ops => shape2L ops
  | .gfixed c _ _ _ => shape2 c
  | .rfixed c _ _ _ => shape2 c
  | .backref _ | .rep _ _ _ _ _ => false
termination_by structural o => o
def shape2L : List Op → Bool
  | [] => true
  | o :: os => shape2 o && shape2L os
termination_by structural l => l
end

/-! ### the enumeration -/

/-- the maximal run: (number of iterations, end), at most `b` iterations, each from the body's
    first end -/
def munch (e : Nat → List Nat) : (b : Nat) → (p : Nat) → Nat × Nat
  | 0, p => (0, p)
  | b+1, p =>
    match e p with
    | [] => (0, p)
    | q :: _ => ((munch e b q).1 + 1, (munch e b q).2)

mutual
/-- end positions of `op` from `p`, in priority order; `.unamb` contributes its maximal-munch end -/
def enum2 (ctx : Ctx) : Op → Nat → List Nat
  | .bol, p =>
      if p = 0 ∨ (ctx.multiLine = true ∧ ctx.input[p - 1]? = some 10 ∧ p < ctx.len) then [p] else []
  | .eol, p =>
      if p ≥ ctx.len ∨ (ctx.multiLine = true ∧ ctx.input[p]? = some 10) then [p] else []
  | .nothing, p => [p]
  | .endProgram, p => [p]
  | .atom cs, p =>
      if p + cs.length ≤ ctx.len ∧ prefixMatch ctx cs (ctx.input.drop p) = true then [p + cs.length] else []
  | .cls rs, p =>
      match ctx.input[p]? with
      | some c => if clsContains rs c = true then [p + 1] else []
      | none => []
  | .capture _ c, p => enum2 ctx c p
  | .choice bs, p => enumAny2 ctx bs p
  | .seq ops, p => enumSeq2 ctx ops p
  | .gfixed c mn mx _, p => greedyIter (enum2 ctx c) mn mx 0 p
  | .rfixed c mn mx _, p => reluctIter (enum2 ctx c) mn mx 0 p
  | .unamb c mn mx, p => if mn ≤ (munch (enum2 ctx c) mx p).1 then [(munch (enum2 ctx c) mx p).2] else []
  | .backref _, _ => []          -- outside the fragment
  | .rep _ _ _ _ _, _ => []      -- outside the fragment
termination_by structural o => o
def enumAny2 (ctx : Ctx) : List Op → Nat → List Nat
  | [], _ => []
  | b :: bs, p => enum2 ctx b p ++ enumAny2 ctx bs p
termination_by structural l => l
def enumSeq2 (ctx : Ctx) : List Op → Nat → List Nat
  | [], p => [p]
  | o :: os, p => (enum2 ctx o p).flatMap (enumSeq2 ctx os)
termination_by structural l => l
end

end Rx
