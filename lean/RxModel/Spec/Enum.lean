/-
  Spec/Enum — the priority-ordered enumeration of matches on the *clean* fragment of operation trees.

  `enum ctx op p` : the end positions reachable by `op` from the start position `p`, in the order in
  which the XPath / XSD regex semantics prefers them:
    * an alternation tries its branches in order (ordered choice);
    * a sequence tries, for each end of its head in order, the ends of its tail from there;
    * a greedy quantifier prefers one more iteration to stopping (longest first);
    * a reluctant quantifier prefers stopping to one more iteration (shortest first).
  Pure, state-free, structurally recursive; written from the semantics, not from the engine.
  Proofs/EnumLemmas and Props/Clean prove that the engine's iterators yield exactly this list.

  The fragment (`cleanOp`): anchors, atoms, classes, captures, alternation, sequence, and the two
  fixed-length-body quantifiers `gfixed` / `rfixed`.  Not in the fragment: back-references (depend on
  the capture state), the general repeat `rep` (zero-length memo + give-up heuristic), `unamb`
  (possessive by construction).

  Quantifiers.  `gfixed` / `rfixed` are built by the compiler only over a body of fixed positive
  length (`wfOp`); such a body has at most one *distinct* end from any start, and an iteration
  continues from that end (the first element of the body's enumeration).  Consequently each end
  position of the quantifier is listed once — see the remark on multiplicities in Props/Clean.
-/
import RxModel.Spec.OpLang
namespace Rx

mutual
/-- the fragment on which the engine is an exact, ordered enumerator -/
def cleanOp : Op → Bool
  | .bol | .eol | .nothing | .endProgram | .atom _ | .cls _ => true
  | .capture _ c => cleanOp c
  | .choice bs => cleanOps bs
  | .seq ops => cleanOps ops
  | .gfixed c _ _ _ => cleanOp c
  | .rfixed c _ _ _ => cleanOp c
  | .backref _ | .rep _ _ _ _ _ | .unamb _ _ _ => false
termination_by structural o => o
def cleanOps : List Op → Bool
  | [] => true
  | o :: os => cleanOp o && cleanOps os
termination_by structural l => l
end

/-- greedy `e{mn,mx}` after `k` iterations, standing at `p`, with `b` more iterations allowed:
    first everything reachable with one more iteration, then — if `k` iterations are enough — `p`.
    `e` enumerates the ends of the body; the next iteration starts at the body's first end. -/
def greedyIter (e : Nat → List Nat) (mn : Nat) : (b : Nat) → (k p : Nat) → List Nat
  | 0, k, p => if mn ≤ k then [p] else []
  | b+1, k, p =>
    (match e p with
     | [] => []
     | q :: _ => greedyIter e mn b (k+1) q) ++ (if mn ≤ k then [p] else [])

/-- reluctant `e{mn,mx}?`: first — if `k` iterations are enough — `p`, then everything reachable
    with one more iteration -/
def reluctIter (e : Nat → List Nat) (mn : Nat) : (b : Nat) → (k p : Nat) → List Nat
  | 0, k, p => if mn ≤ k then [p] else []
  | b+1, k, p =>
    (if mn ≤ k then [p] else []) ++
    (match e p with
     | [] => []
     | q :: _ => reluctIter e mn b (k+1) q)

mutual
/-- end positions of `op` from `p`, in priority order -/
def enum (ctx : Ctx) : Op → Nat → List Nat
  | .bol, p =>
      if p = 0 ∨ (ctx.multiLine = true ∧ ctx.input[p - 1]? = some 10 ∧ p < ctx.len) then [p] else []
  | .eol, p =>
      if p ≥ ctx.len ∨ (ctx.multiLine = true ∧ ctx.input[p]? = some 10) then [p] else []
  | .nothing, p => [p]
  | .endProgram, p => [p]
  | .atom cs, p =>
      if p + cs.length ≤ ctx.len ∧ prefixMatch ctx cs (ctx.input.drop p) = true then [p + cs.length] else []
  | .cls rs, p =>
      match ctx.input[p]? with
      | some c => if clsContains rs c = true then [p + 1] else []
      | none => []
  | .capture _ c, p => enum ctx c p
  | .choice bs, p => enumAny ctx bs p
  | .seq ops, p => enumSeq ctx ops p
  | .gfixed c mn mx _, p => greedyIter (enum ctx c) mn mx 0 p
  | .rfixed c mn mx _, p => reluctIter (enum ctx c) mn mx 0 p
  | .backref _, _ => []          -- outside the fragment
  | .rep _ _ _ _ _, _ => []      -- outside the fragment
  | .unamb _ _ _, _ => []        -- outside the fragment
termination_by structural o => o
/-- ordered choice: the branches' enumerations, concatenated in order -/
def enumAny (ctx : Ctx) : List Op → Nat → List Nat
  | [], _ => []
  | b :: bs, p => enum ctx b p ++ enumAny ctx bs p
termination_by structural l => l
/-- sequence: for each end of the head, in order, the ends of the tail from there -/
def enumSeq (ctx : Ctx) : List Op → Nat → List Nat
  | [], p => [p]
  | o :: os, p => (enum ctx o p).flatMap (enumSeq ctx os)
termination_by structural l => l
end

/-- `s.Seq I l` : the iterator `s` yields exactly the positions `l`, in this order, and then ends —
    whatever state satisfying `I` its consumer hands back at each resumption.  A diverging iterator
    yields no list at all (no constructor).  The weaker `I`, the stronger the statement;
    `I = fun _ => True` quantifies over every consumer. -/
inductive Step.Seq (I : St → Prop) : Step → List Nat → Prop
  | nil (st : St) : Step.Seq I (.nil st) []
  | cons (n : Nat) (st : St) (r : St → Step) (l : List Nat) :
      (∀ st', I st' → Step.Seq I (r st') l) → Step.Seq I (.cons n st r) (n :: l)

/-- no assumption on the states handed back -/
abbrev anySt : St → Prop := fun _ => True

end Rx
