/-
  Spec/PathCaps — a path semantics WITH capture environments ("last participation").

  `CEnv` (capture environment): group number ↦ the span the group captured at its last participation
  on the path so far, `none` if it has not participated.  (`Env` is already the name of the
  compiler's table environment, hence `CEnv`.)

  `PathR ctx op p e q e'` : "`op` can match the input from offset `p` to offset `q` along a path that
  turns the capture environment `e` into `e'`".  The environment is threaded from left to right:
    * anchors, atoms, classes leave it unchanged;
    * `.capture g c` from `p` to `q` runs `c` and then binds `g ↦ (p, q)`;
    * `.backref g` consumes exactly a copy (case-blind per `ctx.eqAt`) of the text of `e g`, the empty
      string if `e g = none` (or the span is empty);
    * a sequence threads the environment through its elements; an alternation is any one branch;
    * a quantifier is the k-fold composition of its body, the environment threaded through the
      iterations — so a group inside the body ends up bound by its LAST iteration.
  Independent of iterators, matcher state and order of exploration.  Erasing the environments gives
  the language `OpR` (Proofs/PathCapsLemmas: `PathR_OpR`).

  `enumC ctx op p e` : the priority-ordered enumeration (Spec/Enum) carrying the environments, on the
  fragment `straightCaps` below.

  The fragment on which the engine provably reports the captures of the selected path
  (Props/C03b): `straightCaps` — every `.capture` and every `.backref` is reachable from the root
  through `.seq` and `.capture` nodes only; alternation branches and quantifier bodies are
  capture-free, back-reference-free clean trees (`plainOp`).  Outside it the statement is false
  (findings K5 / K6; `C03b.captures_in_loop_stale`).
-/
import RxModel.Spec.Enum
namespace Rx

/-- capture environment: group ↦ span of its last participation -/
abbrev CEnv := Nat → Option (Nat × Nat)

def CEnv.empty : CEnv := fun _ => none

def CEnv.set (e : CEnv) (g a b : Nat) : CEnv := fun k => if k = g then some (a, b) else e k

/-- what a back-reference to a group with recorded span `v` can consume from `p` -/
def BackrefR (ctx : Ctx) (v : Option (Nat × Nat)) (p q : Nat) : Prop :=
  match v with
  | none => q = p
  | some (a, b) => q = p + (b - a) ∧ q ≤ ctx.len ∧ sameText ctx (b - a) p a = true

/-- k-fold composition of a relation on (position, environment) -/
inductive IterP (R : Nat → CEnv → Nat → CEnv → Prop) : Nat → Nat → CEnv → Nat → CEnv → Prop
  | zero (p e) : IterP R 0 p e p e
  | succ {k p e q e1 r e2} : IterP R k p e q e1 → R q e1 r e2 → IterP R (k+1) p e r e2

mutual
def PathR (ctx : Ctx) : Op → Nat → CEnv → Nat → CEnv → Prop
  | .bol, p, e, q, e' => e' = e ∧ OpR ctx .bol p q
  | .eol, p, e, q, e' => e' = e ∧ OpR ctx .eol p q
  | .nothing, p, e, q, e' => e' = e ∧ OpR ctx .nothing p q
  | .endProgram, p, e, q, e' => e' = e ∧ OpR ctx .endProgram p q
  | .atom cs, p, e, q, e' => e' = e ∧ OpR ctx (.atom cs) p q
  | .cls rs, p, e, q, e' => e' = e ∧ OpR ctx (.cls rs) p q
  | .backref g, p, e, q, e' => e' = e ∧ BackrefR ctx (e g) p q
  | .capture g c, p, e, q, e' => ∃ e1, PathR ctx c p e q e1 ∧ e' = e1.set g p q
  | .choice bs, p, e, q, e' => PathRAny ctx bs p e q e'
  | .seq ops, p, e, q, e' => PathRSeq ctx ops p e q e'
  | .rep _ c mn mx _, p, e, q, e' =>
      ∃ k, mn ≤ k ∧ k ≤ mx ∧ IterP (fun a x b y => PathR ctx c a x b y) k p e q e'
  | .gfixed c mn mx _, p, e, q, e' =>
      ∃ k, mn ≤ k ∧ k ≤ mx ∧ IterP (fun a x b y => PathR ctx c a x b y) k p e q e'
  | .rfixed c mn mx _, p, e, q, e' =>
      ∃ k, mn ≤ k ∧ k ≤ mx ∧ IterP (fun a x b y => PathR ctx c a x b y) k p e q e'
  | .unamb c mn mx, p, e, q, e' =>
      ∃ k, mn ≤ k ∧ k ≤ mx ∧ IterP (fun a x b y => PathR ctx c a x b y) k p e q e'
termination_by structural o => o
def PathRAny (ctx : Ctx) : List Op → Nat → CEnv → Nat → CEnv → Prop
  | [], _, _, _, _ => False
  | b :: bs, p, e, q, e' => PathR ctx b p e q e' ∨ PathRAny ctx bs p e q e'
termination_by structural l => l
def PathRSeq (ctx : Ctx) : List Op → Nat → CEnv → Nat → CEnv → Prop
  | [], p, e, q, e' => q = p ∧ e' = e
  | o :: os, p, e, q, e' => ∃ m e1, PathR ctx o p e m e1 ∧ PathRSeq ctx os m e1 q e'
termination_by structural l => l
end

/-! ### the fragment -/

mutual
/-- the capturing groups of a tree, in the order of their opening parentheses -/
def capsOf : Op → List Nat
  | .capture g c => g :: capsOf c
  | .choice bs => capsOfL bs
  | .seq ops => capsOfL ops
  | .rep _ c _ _ _ => capsOf c
  | .gfixed c _ _ _ => capsOf c
  | .rfixed c _ _ _ => capsOf c
  | .unamb c _ _ => capsOf c
  | _ => []
termination_by structural o => o
def capsOfL : List Op → List Nat
  | [] => []
  | o :: os => capsOf o ++ capsOfL os
termination_by structural l => l
end

mutual
/-- capture-free, back-reference-free clean trees -/
def plainOp : Op → Bool
  | .bol | .eol | .nothing | .endProgram | .atom _ | .cls _ => true
  | .choice bs => plainOps bs
  | .seq ops => plainOps ops
  | .gfixed c _ _ _ => plainOp c
  | .rfixed c _ _ _ => plainOp c
  | .capture _ _ | .backref _ | .rep _ _ _ _ _ | .unamb _ _ _ => false
termination_by structural o => o
def plainOps : List Op → Bool
  | [] => true
  | o :: os => plainOp o && plainOps os
termination_by structural l => l
end

mutual
/-- captures and back-references only in straight-line position: reachable from the root through
    `.seq` and `.capture` nodes only; alternation branches and quantifier bodies are plain -/
def straightCaps : Op → Bool
  | .bol | .eol | .nothing | .endProgram | .atom _ | .cls _ | .backref _ => true
  | .capture _ c => straightCaps c
  | .seq ops => straightCapsL ops
  | .choice bs => plainOps bs
  | .gfixed c _ _ _ => plainOp c
  | .rfixed c _ _ _ => plainOp c
  | .rep _ _ _ _ _ | .unamb _ _ _ => false
termination_by structural o => o
def straightCapsL : List Op → Bool
  | [] => true
  | o :: os => straightCaps o && straightCapsL os
termination_by structural l => l
end

mutual
/-- scoping of group numbers (what the parser guarantees: `C19.escape_backref_valid`, group numbers
    are allotted once, `maxParens` counts them).  `hbr` = the program's `hasBackrefs` flag, `mp` =
    `maxParens`, `cl` = the groups closed to the left of the node, `fut` = the groups that are open
    around the node or are opened to its right.
      * a capture has a number in `1 .. mp-1`;
      * a back-reference `\g` has `1 ≤ g`, refers to a group that is closed to its left and that is
        not re-opened around it or to its right, and the program has the `hasBackrefs` flag. -/
def scopeOK (hbr : Bool) (mp : Nat) : Op → List Nat → List Nat → Bool
  | .backref g, cl, fut => hbr && decide (1 ≤ g) && cl.contains g && !fut.contains g
  | .capture g c, cl, fut => decide (1 ≤ g) && decide (g < mp) && scopeOK hbr mp c cl (g :: fut)
  | .seq ops, cl, fut => scopeOKL hbr mp ops cl fut
  | _, _, _ => true
termination_by structural o => o
def scopeOKL (hbr : Bool) (mp : Nat) : List Op → List Nat → List Nat → Bool
  | [], _, _ => true
  | o :: os, cl, fut => scopeOK hbr mp o cl (capsOfL os ++ fut) && scopeOKL hbr mp os (capsOf o ++ cl) fut
termination_by structural l => l
end

mutual
/-- the capture nodes of a tree in straight-line position: (group, body) -/
def capNodes : Op → List (Nat × Op)
  | .capture g c => (g, c) :: capNodes c
  | .seq ops => capNodesL ops
  | _ => []
termination_by structural o => o
def capNodesL : List Op → List (Nat × Op)
  | [] => []
  | o :: os => capNodes o ++ capNodesL os
termination_by structural l => l
end

/-! ### the ordered enumeration with environments -/

mutual
/-- (end position, environment) of every path of `op` from `(p, e)`, in priority order — on the
    fragment `straightCaps` (elsewhere captures inside alternations / quantifiers are not tracked) -/
def enumC (ctx : Ctx) : Op → Nat → CEnv → List (Nat × CEnv)
  | .backref g, p, e =>
      match e g with
      | none => [(p, e)]
      | some (a, b) =>
        if p + (b - a) ≤ ctx.len ∧ sameText ctx (b - a) p a = true then [(p + (b - a), e)] else []
  | .capture g c, p, e => (enumC ctx c p e).map (fun x => (x.1, x.2.set g p x.1))
  | .seq ops, p, e => enumCSeq ctx ops p e
  | .bol, p, e => (enum ctx .bol p).map (fun q => (q, e))
  | .eol, p, e => (enum ctx .eol p).map (fun q => (q, e))
  | .nothing, p, e => (enum ctx .nothing p).map (fun q => (q, e))
  | .endProgram, p, e => (enum ctx .endProgram p).map (fun q => (q, e))
  | .atom cs, p, e => (enum ctx (.atom cs) p).map (fun q => (q, e))
  | .cls rs, p, e => (enum ctx (.cls rs) p).map (fun q => (q, e))
  | .choice bs, p, e => (enum ctx (.choice bs) p).map (fun q => (q, e))
  | .gfixed c mn mx l, p, e => (enum ctx (.gfixed c mn mx l) p).map (fun q => (q, e))
  | .rfixed c mn mx l, p, e => (enum ctx (.rfixed c mn mx l) p).map (fun q => (q, e))
  | .rep _ _ _ _ _, _, _ => []
  | .unamb _ _ _, _, _ => []
termination_by structural o => o
def enumCSeq (ctx : Ctx) : List Op → Nat → CEnv → List (Nat × CEnv)
  | [], p, e => [(p, e)]
  | o :: os, p, e => (enumC ctx o p e).flatMap (fun x => enumCSeq ctx os x.1 x.2)
termination_by structural l => l
end

/-! ### what the matcher state says about an environment -/

/-- the four arrays hold `v` at index `k` (the back-reference arrays only when the program uses them) -/
def AgreeAt (ctx : Ctx) (st : St) (k : Nat) (v : Option (Nat × Nat)) : Prop :=
  getO st.cap.startn k = v.map (·.1) ∧ getO st.cap.endn k = v.map (·.2) ∧
  (ctx.hasBackrefs = true → getO st.startBr k = v.map (·.1) ∧ getO st.endBr k = v.map (·.2))

/-- `st` represents `e` on every group `≥ 1` outside `fut`: the reported arrays (`cap.startn/endn`) and,
    when the program has back-references, the arrays the back-references read (`startBr/endBr`) hold
    exactly the span of `e` (reads beyond the end of an array give `none`); the back-reference arrays
    are long enough for every group number of the program; no panic site of the Rust code has been
    reached (the only marker possibly present is the model's fuel marker `panicDiverge`, which
    C06 excludes separately).  `fut` = groups whose entries may be stale (they are re-written before
    they are read or reported). -/
structure ReprOff (ctx : Ctx) (fut : List Nat) (st : St) (e : CEnv) : Prop where
  agree : ∀ k, 1 ≤ k → k ∉ fut → AgreeAt ctx st k (e k)
  lens : ctx.hasBackrefs = true → ctx.maxParens ≤ st.startBr.length ∧ ctx.maxParens ≤ st.endBr.length
  np : st.panic = none ∨ st.panic = some panicDiverge

/-- the arrays are exactly the environment (every group `≥ 1`; group 0 is the match itself) -/
abbrev Repr (ctx : Ctx) (st : St) (e : CEnv) : Prop := ReprOff ctx [] st e

/-- every bound span is well-formed and lies in `[lo, hi]` -/
def EnvIn (e : CEnv) (lo hi : Nat) : Prop := ∀ k a b, e k = some (a, b) → lo ≤ a ∧ a ≤ b ∧ b ≤ hi

/-- every group of `l` is bound -/
def Dom (l : List Nat) (e : CEnv) : Prop := ∀ g, g ∈ l → (e g).isSome = true

/-! ### stream predicates carrying the environment -/

/-- `s.Caps R Q N` : at every yield `(n, st)` there is an environment `e'` with `Q n e'` that `st`
    represents (`R st e'`), provided the consumer resumes the iterator with states that still
    represent the environment of the last yield; at exhaustion the state satisfies `N`. -/
inductive Step.Caps (R : St → CEnv → Prop) (Q : Nat → CEnv → Prop) (N : St → Prop) : Step → Prop
  | nil (st : St) : N st → Step.Caps R Q N (.nil st)
  | cons (n : Nat) (st : St) (r : St → Step) (e' : CEnv) :
      Q n e' → R st e' → (∀ st', R st' e' → Step.Caps R Q N (r st')) → Step.Caps R Q N (.cons n st r)
  | diverge : Step.Caps R Q N .diverge

/-- `s.SeqC R N l` : `s` yields exactly the (position, environment) pairs `l`, in this order, each time
    in a state representing that environment, and then ends in a state satisfying `N` — under every
    consumer that resumes it with a state still representing the environment of the last yield. -/
inductive Step.SeqC (R : St → CEnv → Prop) (N : St → Prop) : Step → List (Nat × CEnv) → Prop
  | nil (st : St) : N st → Step.SeqC R N (.nil st) []
  | cons (n : Nat) (st : St) (r : St → Step) (e' : CEnv) (l : List (Nat × CEnv)) :
      R st e' → (∀ st', R st' e' → Step.SeqC R N (r st') l) → Step.SeqC R N (.cons n st r) ((n, e') :: l)

end Rx
