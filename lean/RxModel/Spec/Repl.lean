/-
  Spec/Repl — the replacement-string language of fn:replace (F&O 3.1 §5.6.4), written as a
  tokeniser that is independent of the character loop in re_matcher.rs:
    `\\` → `\`      `\$` → `$`      `$N` → text of group N      any other character → itself
  `$` must be followed by a digit, `\` by `\` or `$`.  With more than 9 groups `N` is the longest
  run of digits that forms a number not exceeding the number of groups, otherwise one digit.
-/
import RxModel.Model.Api
namespace Rx.Spec
open Rx

inductive RTok where
  | lit (c : Nat)
  | group (n : Nat)
deriving Repr, DecidableEq, Inhabited

/-- value of a run of ASCII digits -/
def digitsVal : List Nat → Nat := fun ds => ds.foldl (fun n d => n * 10 + (d - 48)) 0

/-- the maximal run of digits at the head of a string, and the rest -/
def spanDigits : List Nat → List Nat × List Nat
  | [] => ([], [])
  | c :: rest => if isDigit c then ((spanDigits rest).1 |> (c :: ·), (spanDigits rest).2) else ([], c :: rest)

/-- how many digits of the run `ds` (non-empty) a group reference takes: one digit when there are
    at most 9 groups, else the longest prefix whose value does not exceed `maxCapture` -/
def refLen (maxCapture : Nat) (ds : List Nat) : Nat :=
  if maxCapture ≤ 9 then 1
  else
    match ((List.range ds.length).map (· + 1)).reverse.find? (fun k => decide (digitsVal (ds.take k) ≤ maxCapture)) with
    | some k => k
    | none => 1

/-- is the replacement string well formed? (independent of the regex) -/
def wfRepl : List Nat → Bool
  | [] => true
  | [_c] => !(_c == 92 || _c == 36)
  | c :: d :: rest =>
    if c == 92 then (d == 92 || d == 36) && wfRepl rest
    else if c == 36 then isDigit d && wfRepl rest
    else wfRepl (d :: rest)

/-- tokenise a replacement string; `none` = malformed -/
def tokens (maxCapture : Nat) : (fuel : Nat) → List Nat → Option (List RTok)
  | 0, _ => some []
  | _+1, [] => some []
  | f+1, c :: rest =>
    if c == 92 then
      match rest with
      | d :: rest' => if d == 92 || d == 36 then (tokens maxCapture f rest').map (.lit d :: ·) else none
      | [] => none
    else if c == 36 then
      let ds := (spanDigits rest).1
      if ds.isEmpty then none else
      let k := refLen maxCapture ds
      (tokens maxCapture f (rest.drop k)).map (.group (digitsVal (ds.take k)) :: ·)
    else (tokens maxCapture f rest).map (.lit c :: ·)

/-- the text a token stands for; a group that does not exist or did not participate gives nothing -/
def tokText (maxCapture : Nat) (grp : Nat → Option (List Nat)) : RTok → List Nat
  | .lit c => [c]
  | .group n => if n ≤ maxCapture then (grp n).getD [] else []

def expandSpec (maxCapture : Nat) (grp : Nat → Option (List Nat)) (repl : List Nat) : Option (List Nat) :=
  (tokens maxCapture (repl.length + 1) repl).map (fun ts => (ts.map (tokText maxCapture grp)).flatten)

/-- no `$`, no `\` -/
def plainRepl (repl : List Nat) : Bool := repl.all (fun c => !(c == 92 || c == 36))

end Rx.Spec
