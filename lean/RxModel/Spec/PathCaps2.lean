/-
  Spec/PathCaps2 — the capture fragment enlarged to groups inside ALTERNATIVES.

  `altCaps` : like `straightCaps` (Spec/PathCaps), but a `.choice` branch may contain captures and
  back-references, recursively through seq / capture / choice; still nothing under a quantifier
  (bodies of `gfixed` / `rfixed` are plain; `rep` / `unamb` are excluded).

  The path semantics is `PathR` (Spec/PathCaps): an alternation is any one branch, the environment is
  threaded; the groups of the branches that are not taken stay unbound.

  What the ENGINE does with the groups of an abandoned branch: `choiceGen` calls
  `clear_captured_groups_beyond(p)` before every branch and the sequence iterator clears at every
  yield; a group that was set on an abandoned path is thereby EMPTIED (`end := start`), not unset —
  unless the abandoned branch is a sequence with captures, whose iterator restores the reported arrays.
  `ReprT` says exactly this: every group the path binds is represented exactly; every other group of
  the tree is "tidy" — absent, or an empty span (`TPair`; with a level `some p`: or it starts at or after
  `p`, the transient situation between a failure and the next clearing step).
-/
import RxModel.Spec.PathCaps
namespace Rx

mutual
def altCaps : Op → Bool
  | .bol | .eol | .nothing | .endProgram | .atom _ | .cls _ | .backref _ => true
  | .capture _ c => altCaps c
  | .seq ops => altCapsL ops
  | .choice bs => altCapsL bs
  | .gfixed c _ _ _ => plainOp c
  | .rfixed c _ _ _ => plainOp c
  | .rep _ _ _ _ _ | .unamb _ _ _ => false
termination_by structural o => o
def altCapsL : List Op → Bool
  | [] => true
  | o :: os => altCaps o && altCapsL os
termination_by structural l => l
end

mutual
/-- the groups every path through the tree binds (those not inside an alternation) -/
def sureOf : Op → List Nat
  | .capture g c => g :: sureOf c
  | .seq ops => sureOfL ops
  | _ => []
termination_by structural o => o
def sureOfL : List Op → List Nat
  | [] => []
  | o :: os => sureOf o ++ sureOfL os
termination_by structural l => l
end

mutual
/-- scoping on the enlarged fragment.  `cl` = groups certainly bound to the left (closed on the straight
    line), `ub` = groups possibly bound to the left or open around the node.
      * a capture has a number in `1 .. mp-1` that is not in `ub` (each number is allotted once);
      * a back-reference `\g` has `1 ≤ g`, refers to a group of `cl` (closed earlier on the straight
        line — possibly the straight line of the branch it is in), and the program has `hasBackrefs`. -/
def scopeOK2 (hbr : Bool) (mp : Nat) : Op → List Nat → List Nat → Bool
  | .backref g, cl, _ => hbr && decide (1 ≤ g) && cl.contains g
  | .capture g c, cl, ub => decide (1 ≤ g) && decide (g < mp) && !ub.contains g && scopeOK2 hbr mp c cl (g :: ub)
  | .seq ops, cl, ub => scopeOK2L hbr mp ops cl ub
  | .choice bs, cl, ub => scopeOK2A hbr mp bs cl ub
  | _, _, _ => true
termination_by structural o => o
def scopeOK2L (hbr : Bool) (mp : Nat) : List Op → List Nat → List Nat → Bool
  | [], _, _ => true
  | o :: os, cl, ub => scopeOK2 hbr mp o cl ub && scopeOK2L hbr mp os (sureOf o ++ cl) (capsOf o ++ ub)
termination_by structural l => l
def scopeOK2A (hbr : Bool) (mp : Nat) : List Op → List Nat → List Nat → Bool
  | [], _, _ => true
  | b :: bs, cl, ub => scopeOK2 hbr mp b cl ub && scopeOK2A hbr mp bs cl ub
termination_by structural l => l
end

mutual
/-- (end position, environment) of every path from `(p, e)`, in priority order, on `altCaps` -/
def enumC2 (ctx : Ctx) : Op → Nat → CEnv → List (Nat × CEnv)
  | .backref g, p, e =>
      match e g with
      | none => [(p, e)]
      | some (a, b) =>
        if p + (b - a) ≤ ctx.len ∧ sameText ctx (b - a) p a = true then [(p + (b - a), e)] else []
  | .capture g c, p, e => (enumC2 ctx c p e).map (fun x => (x.1, x.2.set g p x.1))
  | .seq ops, p, e => enumC2Seq ctx ops p e
  | .choice bs, p, e => enumC2Any ctx bs p e
  | .bol, p, e => (enum ctx .bol p).map (fun q => (q, e))
  | .eol, p, e => (enum ctx .eol p).map (fun q => (q, e))
  | .nothing, p, e => (enum ctx .nothing p).map (fun q => (q, e))
  | .endProgram, p, e => (enum ctx .endProgram p).map (fun q => (q, e))
  | .atom cs, p, e => (enum ctx (.atom cs) p).map (fun q => (q, e))
  | .cls rs, p, e => (enum ctx (.cls rs) p).map (fun q => (q, e))
  | .gfixed c mn mx l, p, e => (enum ctx (.gfixed c mn mx l) p).map (fun q => (q, e))
  | .rfixed c mn mx l, p, e => (enum ctx (.rfixed c mn mx l) p).map (fun q => (q, e))
  | .rep _ _ _ _ _, _, _ => []
  | .unamb _ _ _, _, _ => []
termination_by structural o => o
def enumC2Seq (ctx : Ctx) : List Op → Nat → CEnv → List (Nat × CEnv)
  | [], p, e => [(p, e)]
  | o :: os, p, e => (enumC2 ctx o p e).flatMap (fun x => enumC2Seq ctx os x.1 x.2)
termination_by structural l => l
def enumC2Any (ctx : Ctx) : List Op → Nat → CEnv → List (Nat × CEnv)
  | [], _, _ => []
  | b :: bs, p, e => enumC2 ctx b p e ++ enumC2Any ctx bs p e
termination_by structural l => l
end

/-- a (start, end) pair of the reported arrays is tidy: unset, or an empty span, or — at level `some p` —
    it starts at or after `p` -/
def TPair (s e : Option Nat) : Option Nat → Prop
  | none => s = none ∨ e = s
  | some p => s = none ∨ e = s ∨ ∃ a, s = some a ∧ p ≤ a

/-- `st` represents `e` on the enlarged fragment.  `fut` = the groups of the tree (and of what follows);
    `opn` = the groups that are open around the current node, with their start positions.
      * every group `≥ 1` that `e` binds, and every group outside `fut`, is represented EXACTLY (reported
        arrays and, in a program with back-references, the arrays back-references read);
      * every group of `fut` that `e` does not bind is TIDY in the reported arrays at level `lvl`
        (an open group: at the level of its own start);
      * bound groups lie below `parenCount`; the back-reference arrays are long enough; no real panic. -/
structure ReprT (ctx : Ctx) (opn : List (Nat × Nat)) (fut : List Nat) (lvl : Option Nat) (st : St) (e : CEnv) :
    Prop where
  agree : ∀ k, 1 ≤ k → (k ∉ fut ∨ (e k).isSome = true) → AgreeAt ctx st k (e k)
  lens : ctx.hasBackrefs = true → ctx.maxParens ≤ st.startBr.length ∧ ctx.maxParens ≤ st.endBr.length
  np : st.panic = none ∨ st.panic = some panicDiverge
  pc : ∀ k, 1 ≤ k → (e k).isSome = true → k < st.cap.parenCount
  pc0 : 1 ≤ st.cap.parenCount
  tidy : ∀ k, 1 ≤ k → k ∈ fut → e k = none → (∀ pg, (k, pg) ∉ opn) →
    TPair (getO st.cap.startn k) (getO st.cap.endn k) lvl
  tidyO : ∀ k pg, 1 ≤ k → (k, pg) ∈ opn → TPair (getO st.cap.startn k) (getO st.cap.endn k) (some pg)

/-- exact (position, environment) lists (cf. `Step.SeqC`), with relations that know the position of the
    yield: `Y n st e'` is guaranteed at a yield at `n` in the state `st` with environment `e'`; the
    consumer may resume with any state `st'` such that `R n st' e'`; `N` holds at exhaustion -/
inductive Step.SeqT (Y R : Nat → St → CEnv → Prop) (N : St → Prop) : Step → List (Nat × CEnv) → Prop
  | nil (st : St) : N st → Step.SeqT Y R N (.nil st) []
  | cons (n : Nat) (st : St) (r : St → Step) (e' : CEnv) (l : List (Nat × CEnv)) :
      Y n st e' → (∀ st', R n st' e' → Step.SeqT Y R N (r st') l) → Step.SeqT Y R N (.cons n st r) ((n, e') :: l)

/-- a state invariant indexed by a position: `Y n` guaranteed at a yield at `n`, `I n` assumed at the
    resumption, `I p0` guaranteed at exhaustion -/
inductive Step.InvAt (Y I : Nat → St → Prop) (p0 : Nat) : Step → Prop
  | nil (st : St) : I p0 st → Step.InvAt Y I p0 (.nil st)
  | cons (n : Nat) (st : St) (r : St → Step) : Y n st → (∀ st', I n st' → Step.InvAt Y I p0 (r st')) →
      Step.InvAt Y I p0 (.cons n st r)
  | diverge : Step.InvAt Y I p0 .diverge

end Rx
