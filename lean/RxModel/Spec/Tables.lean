/-
  Spec/Tables — the expected tables, typed in once from the specifications (not from the code):
  the category names of XSD 1.1 Part 2 §G.4.2.2 with the ICU group each denotes, the members of the
  one-letter groups, and the NameStartChar / NameChar productions of XML 1.0 (5th ed.) §2.3.
-/
namespace Rx.Spec

def s (x : String) : List Nat := x.toList.map Char.toNat

/-- `\p{X}` names and the ICU `GeneralCategoryGroup` variant each must select -/
def expectedArms : List (String × String) := [
  ("L", "Letter"), ("Lu", "UppercaseLetter"), ("Ll", "LowercaseLetter"), ("Lt", "TitlecaseLetter"),
  ("Lm", "ModifierLetter"), ("Lo", "OtherLetter"),
  ("M", "Mark"), ("Mn", "NonspacingMark"), ("Mc", "SpacingMark"), ("Me", "EnclosingMark"),
  ("N", "Number"), ("Nd", "DecimalNumber"), ("Nl", "LetterNumber"), ("No", "OtherNumber"),
  ("P", "Punctuation"), ("Pc", "ConnectorPunctuation"), ("Pd", "DashPunctuation"), ("Ps", "OpenPunctuation"),
  ("Pe", "ClosePunctuation"), ("Pi", "InitialPunctuation"), ("Pf", "FinalPunctuation"), ("Po", "OtherPunctuation"),
  ("Z", "Separator"), ("Zs", "SpaceSeparator"), ("Zl", "LineSeparator"), ("Zp", "ParagraphSeparator"),
  ("S", "Symbol"), ("Sm", "MathSymbol"), ("Sc", "CurrencySymbol"), ("Sk", "ModifierSymbol"), ("So", "OtherSymbol"),
  ("C", "Other"), ("Cc", "Control"), ("Cf", "Format"), ("Co", "PrivateUse"), ("Cn", "Unassigned")]

/-- the two-letter categories each one-letter group is the union of (Unicode UAX #44, Table 12) -/
def groupMembers : List (String × List String) := [
  ("Letter", ["Lu", "Ll", "Lt", "Lm", "Lo"]),
  ("Mark", ["Mn", "Mc", "Me"]),
  ("Number", ["Nd", "Nl", "No"]),
  ("Punctuation", ["Pc", "Pd", "Ps", "Pe", "Pi", "Pf", "Po"]),
  ("Separator", ["Zs", "Zl", "Zp"]),
  ("Symbol", ["Sm", "Sc", "Sk", "So"]),
  ("Other", ["Cc", "Cf", "Cs", "Co", "Cn"])]

/-- the ICU group a two-letter category name corresponds to -/
def twoLetterGroups : List (String × String) := [
  ("Lu", "UppercaseLetter"), ("Ll", "LowercaseLetter"), ("Lt", "TitlecaseLetter"), ("Lm", "ModifierLetter"), ("Lo", "OtherLetter"),
  ("Mn", "NonspacingMark"), ("Mc", "SpacingMark"), ("Me", "EnclosingMark"),
  ("Nd", "DecimalNumber"), ("Nl", "LetterNumber"), ("No", "OtherNumber"),
  ("Pc", "ConnectorPunctuation"), ("Pd", "DashPunctuation"), ("Ps", "OpenPunctuation"), ("Pe", "ClosePunctuation"),
  ("Pi", "InitialPunctuation"), ("Pf", "FinalPunctuation"), ("Po", "OtherPunctuation"),
  ("Zs", "SpaceSeparator"), ("Zl", "LineSeparator"), ("Zp", "ParagraphSeparator"),
  ("Sm", "MathSymbol"), ("Sc", "CurrencySymbol"), ("Sk", "ModifierSymbol"), ("So", "OtherSymbol"),
  ("Cc", "Control"), ("Cf", "Format"), ("Co", "PrivateUse"), ("Cn", "Unassigned")]

/-- XML 1.0 (5th ed.) [4] NameStartChar, inclusive ranges -/
def xmlNameStart : List (Nat × Nat) := [
  (0x3A, 0x3A), (0x41, 0x5A), (0x5F, 0x5F), (0x61, 0x7A), (0xC0, 0xD6), (0xD8, 0xF6), (0xF8, 0x2FF), (0x370, 0x37D),
  (0x37F, 0x1FFF), (0x200C, 0x200D), (0x2070, 0x218F), (0x2C00, 0x2FEF), (0x3001, 0xD7FF), (0xF900, 0xFDCF),
  (0xFDF0, 0xFFFD), (0x10000, 0xEFFFF)]

/-- XML 1.0 (5th ed.) [4a] NameChar = NameStartChar | "-" | "." | [0-9] | #xB7 | [#x0300-#x036F] | [#x203F-#x2040] -/
def xmlNameCharExtra : List (Nat × Nat) := [(0x2D, 0x2D), (0x2E, 0x2E), (0x30, 0x39), (0xB7, 0xB7), (0x300, 0x36F), (0x203F, 0x2040)]

/-- the three private-use ranges -/
def privateUse : List (Nat × Nat) := [(0xE000, 0xF8FF), (0xF0000, 0xFFFFD), (0x100000, 0x10FFFD)]

end Rx.Spec
