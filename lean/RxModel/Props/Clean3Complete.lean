/-
  Props/Clean3Complete — the search-loop theorems (Props/SearchComplete) instantiated on the fragment with
  the GENERAL greedy repeat over a deterministic, non-nullable body and `min ≥ 1` (Spec/Enum3, Props/Clean3):
  the optimised programs of `x(?:a|bc)+y`, `(?:ab|c){2,3}d`, `((?:ab|c)+|x)y`, …

  For `pr := mkProgram pat op mp fl false` the conditions are on the program's own tree `pr.op` (the
  numbered tree: every `.rep` has received its memo key — irrelevant here, `min ≥ 1` repeats never touch
  the memo):  `cleanProg3 env fl.caseBlind fl.multiLine pr.op`, `clsCanonB pr.op` (decidable), `wfOp op`,
  `noEmptyAtoms op`, (`capsPos op` for spans), and the data hypotheses `InputOKFor env fl lower input`.

    `clean3_isMatch_iff` / `clean3_isMatch_false`     C01 both directions, never panic / diverge
    `clean3_matchesFrom_iff`
    `clean3_match_is_leftmost_first`                  C02: least start; end = `(enum3 …).head?`
    `clean3_opt_eq_noopt`                             shortcuts on / off: Boolean, start, end
  Precondition trees: `add_precondition` records `(x){1,m}` over one character as the repeat itself —
  covered by the fragment (`preShape3`); over a longer body it descends into the body, which is in the
  fragment of Props/Clean2.

  NOT covered: `min = 0` (`*`, `{0,n}`): `CompleteAt` is false there (`Clean3.completeAt_min0_false`),
  see Props/Clean3.
-/
import RxModel.Proofs.Clean3SearchLemmas
import RxModel.Props.Clean2Complete
namespace Rx.Clean3Complete
open Rx Rx.SearchComplete
open Rx.C08 (noEmptyAtoms)

theorem clean3_isMatch_ok (env : Env) (pat : List Nat) (op : Op) (mp : Nat) (fl : CFlags)
    (lower : Nat → Nat) (input : List Nat) (hI : InputOKFor env fl lower input)
    (hc : cleanProg3 env fl.caseBlind fl.multiLine (mkProgram pat op mp fl false).op = true)
    (hwf : wfOp op = true) (hne : noEmptyAtoms op = true)
    (hcan : clsCanonB (mkProgram pat op mp fl false).op = true) (hlen : input.length < usizeMax) :
    ∃ b, (mkProgram pat op mp fl false).isMatch lower input = .ok b ∧
      (b = true ↔ ∃ j q, j ≤ input.length ∧
        OpR ((mkProgram pat op mp fl false).ctx lower input) (mkProgram pat op mp fl false).op j q) := by
  have ho := clean3_outcome env pat op mp fl lower input hI hc hwf hne hcan hlen 0 (Nat.zero_le _) {} rfl
  have hiff := ho.iff
  have hcl := ho.clean
  unfold Prog.isMatch
  generalize matchesFrom ((mkProgram pat op mp fl false).ctx lower input) (mkProgram pat op mp fl false) 0 {} = r at *
  obtain ⟨m, st⟩ := r
  simp only at hcl hiff ⊢
  rw [hcl]
  refine ⟨m, rfl, hiff.trans ?_⟩
  constructor
  · rintro ⟨j, q, _, h2, h3⟩; exact ⟨j, q, h2, h3⟩
  · rintro ⟨j, q, h2, h3⟩; exact ⟨j, q, Nat.zero_le _, h2, h3⟩

theorem clean3_isMatch_iff (env : Env) (pat : List Nat) (op : Op) (mp : Nat) (fl : CFlags)
    (lower : Nat → Nat) (input : List Nat) (hI : InputOKFor env fl lower input)
    (hc : cleanProg3 env fl.caseBlind fl.multiLine (mkProgram pat op mp fl false).op = true)
    (hwf : wfOp op = true) (hne : noEmptyAtoms op = true)
    (hcan : clsCanonB (mkProgram pat op mp fl false).op = true) (hlen : input.length < usizeMax) :
    (mkProgram pat op mp fl false).isMatch lower input = .ok true ↔
      ∃ j q, j ≤ input.length ∧
        OpR ((mkProgram pat op mp fl false).ctx lower input) (mkProgram pat op mp fl false).op j q := by
  obtain ⟨b, hb, hiff⟩ := clean3_isMatch_ok env pat op mp fl lower input hI hc hwf hne hcan hlen
  rw [hb]
  constructor
  · intro h
    simp only [Out.ok.injEq] at h
    exact hiff.1 h
  · intro h
    rw [hiff.2 h]

theorem clean3_isMatch_false (env : Env) (pat : List Nat) (op : Op) (mp : Nat) (fl : CFlags)
    (lower : Nat → Nat) (input : List Nat) (hI : InputOKFor env fl lower input)
    (hc : cleanProg3 env fl.caseBlind fl.multiLine (mkProgram pat op mp fl false).op = true)
    (hwf : wfOp op = true) (hne : noEmptyAtoms op = true)
    (hcan : clsCanonB (mkProgram pat op mp fl false).op = true) (hlen : input.length < usizeMax)
    (hno : ¬ ∃ j q, j ≤ input.length ∧
        OpR ((mkProgram pat op mp fl false).ctx lower input) (mkProgram pat op mp fl false).op j q) :
    (mkProgram pat op mp fl false).isMatch lower input = .ok false := by
  obtain ⟨b, hb, hiff⟩ := clean3_isMatch_ok env pat op mp fl lower input hI hc hwf hne hcan hlen
  rw [hb]
  cases b with
  | false => rfl
  | true => exact absurd (hiff.1 rfl) hno

theorem clean3_matchesFrom_iff (env : Env) (pat : List Nat) (op : Op) (mp : Nat) (fl : CFlags)
    (lower : Nat → Nat) (input : List Nat) (hI : InputOKFor env fl lower input)
    (hc : cleanProg3 env fl.caseBlind fl.multiLine (mkProgram pat op mp fl false).op = true)
    (hwf : wfOp op = true) (hne : noEmptyAtoms op = true)
    (hcan : clsCanonB (mkProgram pat op mp fl false).op = true) (hlen : input.length < usizeMax)
    (i : Nat) (hi : i ≤ input.length) (st : St) (hst : st.panic = none) :
    ((matchesFrom ((mkProgram pat op mp fl false).ctx lower input) (mkProgram pat op mp fl false) i st).1 = true ↔
      ∃ j q, i ≤ j ∧ j ≤ input.length ∧
        OpR ((mkProgram pat op mp fl false).ctx lower input) (mkProgram pat op mp fl false).op j q) ∧
    (matchesFrom ((mkProgram pat op mp fl false).ctx lower input) (mkProgram pat op mp fl false) i st).2.panic = none :=
  let h := clean3_outcome env pat op mp fl lower input hI hc hwf hne hcan hlen i hi st hst
  ⟨h.iff, h.clean⟩

/-- the facts about the program's tree that the span theorems need -/
theorem prog_facts (env : Env) (pat : List Nat) (op : Op) (mp : Nat) (fl : CFlags)
    (lower : Nat → Nat) (input : List Nat)
    (hc : cleanProg3 env fl.caseBlind fl.multiLine (mkProgram pat op mp fl false).op = true)
    (hwf : wfOp op = true) (hne : noEmptyAtoms op = true) (hcp : C02.capsPos op = true) :
    cleanProg3 env ((mkProgram pat op mp fl false).ctx lower input).caseBlind
      ((mkProgram pat op mp fl false).ctx lower input).multiLine (mkProgram pat op mp fl false).op = true ∧
    wfOp (mkProgram pat op mp fl false).op = true ∧ noEmptyAtoms (mkProgram pat op mp fl false).op = true ∧
    C02.capsPos (mkProgram pat op mp fl false).op = true := by
  obtain ⟨hop, _⟩ := WF.mkProgram_op pat op mp fl false
  obtain ⟨hcb, hml, _⟩ := mkProgram_ctx pat op mp fl false lower input
  refine ⟨by rw [hcb, hml]; exact hc, ?_, ?_, ?_⟩
  · rw [hop, WF.wfOp_numberReps]; exact hwf
  · rw [hop, ApiL.noEmptyAtoms_numberReps]; exact hne
  · rw [hop, WF.capsPos_numberReps]; exact hcp

/-- when `matches(i)` succeeds, group 0 is `(j, n)`: `j` the LEAST start `≥ i` from which the language has
    a member, `n` the FIRST element of `enum3` from `j` (ordered choice; greedy = more iterations first) -/
theorem clean3_match_is_leftmost_first (env : Env) (pat : List Nat) (op : Op) (mp : Nat) (fl : CFlags)
    (lower : Nat → Nat) (input : List Nat) (hI : InputOKFor env fl lower input)
    (hc : cleanProg3 env fl.caseBlind fl.multiLine (mkProgram pat op mp fl false).op = true)
    (hwf : wfOp op = true) (hne : noEmptyAtoms op = true)
    (hcan : clsCanonB (mkProgram pat op mp fl false).op = true) (hcp : C02.capsPos op = true)
    (hlen : input.length < usizeMax)
    (i : Nat) (hi : i ≤ input.length) (st st' : St) (hst : st.panic = none)
    (h : matchesFrom ((mkProgram pat op mp fl false).ctx lower input) (mkProgram pat op mp fl false) i st
      = (true, st')) :
    ∃ j n, getParenStart st' 0 = some j ∧ getParenEnd st' 0 = some n ∧
      (enum3 ((mkProgram pat op mp fl false).ctx lower input) (mkProgram pat op mp fl false).op j).head? = some n ∧
      i ≤ j ∧ j ≤ n ∧ n ≤ input.length ∧
      OpR ((mkProgram pat op mp fl false).ctx lower input) (mkProgram pat op mp fl false).op j n ∧
      ∀ k q, i ≤ k → k < j →
        ¬ OpR ((mkProgram pat op mp fl false).ctx lower input) (mkProgram pat op mp fl false).op k q := by
  obtain ⟨f1, f2, f3, f4⟩ := prog_facts env pat op mp fl lower input hc hwf hne hcp
  have ho := clean3_outcome env pat op mp fl lower input hI hc hwf hne hcan hlen i hi st hst
  have := ho.span_clean3 (hI.ctx pat op mp false) f1 f2 f3 hcan f4 (by rw [h])
  rw [h] at this
  exact this

/-- shortcuts on / off on the same tree: Boolean, start and end -/
theorem clean3_opt_eq_noopt (env : Env) (pat : List Nat) (op : Op) (mp : Nat) (fl : CFlags)
    (lower : Nat → Nat) (input : List Nat) (hI : InputOKFor env fl lower input)
    (hc : cleanProg3 env fl.caseBlind fl.multiLine (mkProgram pat op mp fl false).op = true)
    (hwf : wfOp op = true) (hne : noEmptyAtoms op = true)
    (hcan : clsCanonB (mkProgram pat op mp fl false).op = true) (hcp : C02.capsPos op = true)
    (hlen : input.length < usizeMax)
    (i : Nat) (hi : i ≤ input.length) (st1 st2 : St) (h1 : st1.panic = none) (h2 : st2.panic = none) :
    let pr := mkProgram pat op mp fl false
    let ctx := pr.ctx lower input
    (matchesFrom ctx pr i st1).1 = (matchesNaive ctx pr.op i st2).1 ∧
    ((matchesFrom ctx pr i st1).1 = true →
      getParenStart (matchesFrom ctx pr i st1).2 0 = getParenStart (matchesNaive ctx pr.op i st2).2 0 ∧
      getParenEnd (matchesFrom ctx pr i st1).2 0 = getParenEnd (matchesNaive ctx pr.op i st2).2 0) := by
  intro pr ctx
  obtain ⟨f1, f2, f3, f4⟩ := prog_facts env pat op mp fl lower input hc hwf hne hcp
  have o1 := clean3_outcome env pat op mp fl lower input hI hc hwf hne hcan hlen i hi st1 h1
  have o2 := clean3_naive_outcome env pat op mp fl lower input hI hc hwf hne hcan i st2 h2
  have hb : (matchesFrom ctx pr i st1).1 = (matchesNaive ctx pr.op i st2).1 := by
    rw [Bool.eq_iff_iff]
    exact o1.iff.trans o2.iff.symm
  refine ⟨hb, fun ht => ?_⟩
  obtain ⟨j1, n1, hs1, he1, hh1, a1, _, _, hm1, hl1⟩ :=
    o1.span_clean3 (hI.ctx pat op mp false) f1 f2 f3 hcan f4 ht
  obtain ⟨j2, n2, hs2, he2, hh2, a2, _, _, hm2, hl2⟩ :=
    o2.span_clean3 (hI.ctx pat op mp false) f1 f2 f3 hcan f4 (hb ▸ ht)
  have : j1 = j2 := by
    rcases Nat.lt_trichotomy j1 j2 with h | h | h
    · exact absurd hm1 (hl2 j1 n1 a1 h)
    · exact h
    · exact absurd hm2 (hl1 j2 n2 a2 h)
  subst this
  rw [hh1] at hh2
  simp only [Option.some.injEq] at hh2
  subst hh2
  exact ⟨by rw [hs1, hs2], by rw [he1, he2]⟩

/-! ## case-sensitive programs -/

theorem clean3_isMatch_iff_cs (env : Env) (pat : List Nat) (op : Op) (mp : Nat) (fl : CFlags)
    (lower : Nat → Nat) (input : List Nat) (hcb : fl.caseBlind = false)
    (hce : ∀ a x, x ∈ env.closure a → x < cpLimit)
    (hin : ∀ c ∈ input, c < cpLimit) (hsc : ∀ c ∈ input, isSurrogate c = false)
    (hc : cleanProg3 env false fl.multiLine (mkProgram pat op mp fl false).op = true)
    (hwf : wfOp op = true) (hne : noEmptyAtoms op = true)
    (hcan : clsCanonB (mkProgram pat op mp fl false).op = true) (hlen : input.length < usizeMax) :
    (mkProgram pat op mp fl false).isMatch lower input = .ok true ↔
      ∃ j q, j ≤ input.length ∧
        OpR ((mkProgram pat op mp fl false).ctx lower input) (mkProgram pat op mp fl false).op j q :=
  clean3_isMatch_iff env pat op mp fl lower input (.of_caseSensitive hcb hce hin hsc)
    (by rw [hcb]; exact hc) hwf hne hcan hlen

/-! ## non-vacuity: `x(?:a|bc)+y` and `(?:ab|c){2,3}d` as the model's compiler builds them -/
section example_

def exEnv : Env :=
  { lower := id, closure := fun _ => [], category := fun _ => none, block := fun _ => none,
    digit := [], word := [], nameStart := [], nameChar := [] }

/-- `x(?:a|bc)+y` as handed to `ReProgram::new` (un-numbered) -/
def exTree : Op :=
  .seq [.atom [120], .rep 0 (.choice [.atom [97], .atom [98, 99]]) 1 usizeMax true, .atom [121], .endProgram]

/-- "zxabcay" -/
def exInput : List Nat := [122, 120, 97, 98, 99, 97, 121]

def exProg : Prog := mkProgram [] exTree 1 {} false

theorem ex_ok : cleanProg3 exEnv false false exProg.op = true ∧ wfOp exTree = true ∧
    noEmptyAtoms exTree = true ∧ clsCanonB exProg.op = true ∧ C02.capsPos exTree = true := by
  refine ⟨?_, ?_, ?_, ?_, ?_⟩ <;> decide +kernel

/-- the compiler's output for the pattern text has this tree, and `(?:ab|c){2,3}d` is in the fragment too -/
theorem ex_compiled :
    (match compileCore exEnv {} [120, 40, 63, 58, 97, 124, 98, 99, 41, 43, 121] true with
     | .ok pr => cleanProg3 exEnv false false pr.op && clsCanonB pr.op &&
         (enum3 (pr.ctx id exInput) pr.op 1 == enum3 (exProg.ctx id exInput) exProg.op 1)
     | _ => false) = true ∧
    (match compileCore exEnv {} [40, 63, 58, 97, 98, 124, 99, 41, 123, 50, 44, 51, 125, 100] true with
     | .ok pr => cleanProg3 exEnv false false pr.op && clsCanonB pr.op && !cleanProg2 exEnv false false pr.op
     | _ => false) = true := by decide +kernel

theorem exInputOK : InputOKFor exEnv {} id exInput :=
  .of_caseSensitive rfl (fun _ _ h => by cases h) (by decide) (by decide)

/-- what the engine computes: `is_match` true, span (1, 7), `enum3` from 1 is [7] -/
theorem ex_computed :
    exProg.isMatch id exInput = .ok true ∧
    (matchesFrom (exProg.ctx id exInput) exProg 0 {}).1 = true ∧
    getParenStart (matchesFrom (exProg.ctx id exInput) exProg 0 {}).2 0 = some 1 ∧
    getParenEnd (matchesFrom (exProg.ctx id exInput) exProg 0 {}).2 0 = some 7 ∧
    enum3 (exProg.ctx id exInput) exProg.op 1 = [7] ∧ enum3 (exProg.ctx id exInput) exProg.op 0 = [] := by
  decide +kernel

/-- C01 instantiated -/
theorem ex_isMatch : ∃ j q, j ≤ exInput.length ∧ OpR (exProg.ctx id exInput) exProg.op j q :=
  (clean3_isMatch_iff exEnv [] exTree 1 {} id exInput exInputOK ex_ok.1 ex_ok.2.1 ex_ok.2.2.1 ex_ok.2.2.2.1
    (by decide)).1 ex_computed.1

/-- C02 instantiated: the predicted span is the computed one -/
theorem ex_leftmost_first :
    ∃ j n, getParenStart (matchesFrom (exProg.ctx id exInput) exProg 0 {}).2 0 = some j ∧
      getParenEnd (matchesFrom (exProg.ctx id exInput) exProg 0 {}).2 0 = some n ∧
      j = 1 ∧ n = 7 ∧ (enum3 (exProg.ctx id exInput) exProg.op j).head? = some n ∧
      ∀ k q, k < j → ¬ OpR (exProg.ctx id exInput) exProg.op k q := by
  obtain ⟨j, n, hs, he, hh, _, _, _, _, hmin⟩ :=
    clean3_match_is_leftmost_first exEnv [] exTree 1 {} id exInput exInputOK ex_ok.1 ex_ok.2.1 ex_ok.2.2.1
      ex_ok.2.2.2.1 ex_ok.2.2.2.2 (by decide) 0 (Nat.zero_le _) {}
      (matchesFrom (exProg.ctx id exInput) exProg 0 {}).2 rfl
      (by
        have := ex_computed.2.1
        show matchesFrom (exProg.ctx id exInput) exProg 0 {} = _
        rw [← this])
  obtain ⟨_, _, hcs, hce, _, _⟩ := ex_computed
  have hj : j = 1 := by rw [hcs] at hs; exact (Option.some.inj hs).symm
  have hn : n = 7 := by rw [hce] at he; exact (Option.some.inj he).symm
  exact ⟨j, n, hs, he, hj, hn, hh, fun k q hk => hmin k q (Nat.zero_le _) hk⟩

end example_

end Rx.Clean3Complete
