/-
  Props/Clean4Api — the fragment with the GENERAL RELUCTANT repeat (Spec/Enum4, Props/Clean4) from the pattern
  text (`Regex::new`) and up to the API (`replace_all`, `tokenize`, `analyze`), exactly as Props/Clean3Api and
  Props/Clean3ApiComplete do for the greedy fragment.

  The decidable hypotheses are stated on the compiled program's own tree `r.prog.op` (the numbered tree):
      `cleanProg4 env fl.caseBlind fl.multiLine r.prog.op`, `clsCanonB r.prog.op`   (ANY `min`, including 0)
  plus `Api.NoSat`, `r.prog.hasBackrefs = false`, "not the empty pattern under flag q", `InputOKFor`.

  1  namespace `Rx.Clean4Api`: `api_clean4_isMatch_iff`, `api_clean4_match_is_leftmost_first` (end =
     `(enum4 …).head?`, the SHORTEST end of a reluctant repeat), `api_clean4_opt_eq_noopt`; `…_std_cs` over
     `Env.std`, case-sensitive; scan level `clean4_no_zero_length`, `clean4_goodFind`, `clean4_find_clean`,
     `clean4_tokenize_spec`, `api_clean4_goodFind` (+ `_std_cs`)
  2  namespace `Rx.ApiGeneric.Clean4Api`: Proofs/ApiGenericLemmas instantiated with the head of `enum4`
     (`headEnum4`); `Clean4Regex.findOK`; `api4_gate_iff`, `c16_*`, `scan_sees_spans`, `api4_replace_spec`,
     `api4_tokenize_spec`, `api4_analyze_spec`, `api4_*_total`, … with the state-free span list `spans` built
     from `enum4`.  Since `cleanProg4` contains `cleanProg3` and `cleanProg2` these subsume the `api3_…` theorems
     (`clean4Regex_of_clean3`).
  3  `(?:ab|c)+?c` through `Regex.new Env.std` (kernel evaluation), on "xabcc-cc".
  Nothing had to be weakened or refuted.
-/
import RxModel.Proofs.ApiGenericLemmas
import RxModel.Props.ApiComplete
import RxModel.Props.Clean3Api
import RxModel.Props.Clean4
namespace Rx.Clean4Api
open Rx Rx.SearchComplete Rx.Clean2Api
open Rx.C08 (noEmptyAtoms)
open Rx.Clean3Api (new_prog)

/-! ## 1. from `Regex::new` -/

/-- C01 from the pattern text, both directions -/
theorem api_clean4_isMatch_iff (env : Env) (p fs : List Nat) (xsd : Bool) (fl : Flags) (r : Regex)
    (hf : parseFlags fs xsd = some fl) (h : Regex.new env p fs xsd true = .ok r) (hns : Api.NoSat env fl p)
    (hclean : cleanProg4 env fl.caseBlind fl.multiLine r.prog.op = true) (hcan : clsCanonB r.prog.op = true)
    (hnb : r.prog.hasBackrefs = false) (hlit : fl.literal = true → p ≠ [])
    (input : List Nat) (hI : InputOKFor env fl.core env.lower input) (hlen : input.length < usizeMax) :
    (r.prog.isMatch env.lower input = .ok true ↔
      ∃ j q, j ≤ input.length ∧ OpR (r.prog.ctx env.lower input) r.prog.op j q) ∧
    ((¬ ∃ j q, j ≤ input.length ∧ OpR (r.prog.ctx env.lower input) r.prog.op j q) →
      r.prog.isMatch env.lower input = .ok false) := by
  obtain ⟨pat', op', mp, heq, hw, hne, _⟩ := new_prog env p fs xsd fl r hf h hns hnb hlit
  rw [heq] at hclean hcan ⊢
  exact ⟨Rx.Clean4.clean4_isMatch_iff env pat' op' mp fl.core env.lower input hI hclean hw hne hcan hlen,
    Rx.Clean4.clean4_isMatch_false env pat' op' mp fl.core env.lower input hI hclean hw hne hcan hlen⟩

/-- C02 from the pattern text: least start; end = head of the engine's priority enumeration `enum4` -/
theorem api_clean4_match_is_leftmost_first (env : Env) (p fs : List Nat) (xsd : Bool) (fl : Flags) (r : Regex)
    (hf : parseFlags fs xsd = some fl) (h : Regex.new env p fs xsd true = .ok r) (hns : Api.NoSat env fl p)
    (hclean : cleanProg4 env fl.caseBlind fl.multiLine r.prog.op = true) (hcan : clsCanonB r.prog.op = true)
    (hnb : r.prog.hasBackrefs = false) (hlit : fl.literal = true → p ≠ [])
    (input : List Nat) (hI : InputOKFor env fl.core env.lower input) (hlen : input.length < usizeMax)
    (i : Nat) (hi : i ≤ input.length) (st st' : St) (hst : st.panic = none)
    (hm : matchesFrom (r.prog.ctx env.lower input) r.prog i st = (true, st')) :
    ∃ j n, getParenStart st' 0 = some j ∧ getParenEnd st' 0 = some n ∧
      (enum4 (r.prog.ctx env.lower input) r.prog.op j).head? = some n ∧
      i ≤ j ∧ j ≤ n ∧ n ≤ input.length ∧ OpR (r.prog.ctx env.lower input) r.prog.op j n ∧
      ∀ k q, i ≤ k → k < j → ¬ OpR (r.prog.ctx env.lower input) r.prog.op k q := by
  obtain ⟨pat', op', mp, heq, hw, hne, hcp⟩ := new_prog env p fs xsd fl r hf h hns hnb hlit
  rw [heq] at hclean hcan hm ⊢
  exact Rx.Clean4.clean4_match_is_leftmost_first env pat' op' mp fl.core env.lower input hI hclean hw hne
    hcan hcp hlen i hi st st' hst hm

/-- shortcuts on / off on the compiled tree: Boolean, start and end -/
theorem api_clean4_opt_eq_noopt (env : Env) (p fs : List Nat) (xsd : Bool) (fl : Flags) (r : Regex)
    (hf : parseFlags fs xsd = some fl) (h : Regex.new env p fs xsd true = .ok r) (hns : Api.NoSat env fl p)
    (hclean : cleanProg4 env fl.caseBlind fl.multiLine r.prog.op = true) (hcan : clsCanonB r.prog.op = true)
    (hnb : r.prog.hasBackrefs = false) (hlit : fl.literal = true → p ≠ [])
    (input : List Nat) (hI : InputOKFor env fl.core env.lower input) (hlen : input.length < usizeMax)
    (i : Nat) (hi : i ≤ input.length) (st1 st2 : St) (h1 : st1.panic = none) (h2 : st2.panic = none) :
    (matchesFrom (r.prog.ctx env.lower input) r.prog i st1).1 =
      (matchesNaive (r.prog.ctx env.lower input) r.prog.op i st2).1 ∧
    ((matchesFrom (r.prog.ctx env.lower input) r.prog i st1).1 = true →
      getParenStart (matchesFrom (r.prog.ctx env.lower input) r.prog i st1).2 0 =
        getParenStart (matchesNaive (r.prog.ctx env.lower input) r.prog.op i st2).2 0 ∧
      getParenEnd (matchesFrom (r.prog.ctx env.lower input) r.prog i st1).2 0 =
        getParenEnd (matchesNaive (r.prog.ctx env.lower input) r.prog.op i st2).2 0) := by
  obtain ⟨pat', op', mp, heq, hw, hne, hcp⟩ := new_prog env p fs xsd fl r hf h hns hnb hlit
  rw [heq] at hclean hcan ⊢
  exact Rx.Clean4.clean4_opt_eq_noopt env pat' op' mp fl.core env.lower input hI hclean hw hne hcan hcp
    hlen i hi st1 st2 h1 h2

/-! ### the real tables, case-sensitive -/

theorem api_clean4_isMatch_iff_std_cs (p fs : List Nat) (xsd : Bool) (fl : Flags) (r : Regex)
    (hf : parseFlags fs xsd = some fl) (h : Regex.new Env.std p fs xsd true = .ok r)
    (hns : Api.NoSat Env.std fl p) (hcb : fl.caseBlind = false)
    (hclean : cleanProg4 Env.std false fl.multiLine r.prog.op = true) (hcan : clsCanonB r.prog.op = true)
    (hnb : r.prog.hasBackrefs = false) (hlit : fl.literal = true → p ≠ [])
    (input : List Nat) (hsv : ScalarInput input) (hlen : input.length < usizeMax) :
    (r.prog.isMatch Env.std.lower input = .ok true ↔
      ∃ j q, j ≤ input.length ∧ OpR (r.prog.ctx Env.std.lower input) r.prog.op j q) ∧
    ((¬ ∃ j q, j ≤ input.length ∧ OpR (r.prog.ctx Env.std.lower input) r.prog.op j q) →
      r.prog.isMatch Env.std.lower input = .ok false) :=
  api_clean4_isMatch_iff Env.std p fs xsd fl r hf h hns (by rw [hcb]; exact hclean) hcan hnb hlit input
    (inputOK_std_cs hcb hsv) hlen

theorem api_clean4_match_is_leftmost_first_std_cs (p fs : List Nat) (xsd : Bool) (fl : Flags) (r : Regex)
    (hf : parseFlags fs xsd = some fl) (h : Regex.new Env.std p fs xsd true = .ok r)
    (hns : Api.NoSat Env.std fl p) (hcb : fl.caseBlind = false)
    (hclean : cleanProg4 Env.std false fl.multiLine r.prog.op = true) (hcan : clsCanonB r.prog.op = true)
    (hnb : r.prog.hasBackrefs = false) (hlit : fl.literal = true → p ≠ [])
    (input : List Nat) (hsv : ScalarInput input) (hlen : input.length < usizeMax)
    (i : Nat) (hi : i ≤ input.length) (st st' : St) (hst : st.panic = none)
    (hm : matchesFrom (r.prog.ctx Env.std.lower input) r.prog i st = (true, st')) :
    ∃ j n, getParenStart st' 0 = some j ∧ getParenEnd st' 0 = some n ∧
      (enum4 (r.prog.ctx Env.std.lower input) r.prog.op j).head? = some n ∧
      i ≤ j ∧ j ≤ n ∧ n ≤ input.length ∧ OpR (r.prog.ctx Env.std.lower input) r.prog.op j n ∧
      ∀ k q, i ≤ k → k < j → ¬ OpR (r.prog.ctx Env.std.lower input) r.prog.op k q :=
  api_clean4_match_is_leftmost_first Env.std p fs xsd fl r hf h hns (by rw [hcb]; exact hclean) hcan hnb hlit
    input (inputOK_std_cs hcb hsv) hlen i hi st st' hst hm

theorem api_clean4_opt_eq_noopt_std_cs (p fs : List Nat) (xsd : Bool) (fl : Flags) (r : Regex)
    (hf : parseFlags fs xsd = some fl) (h : Regex.new Env.std p fs xsd true = .ok r)
    (hns : Api.NoSat Env.std fl p) (hcb : fl.caseBlind = false)
    (hclean : cleanProg4 Env.std false fl.multiLine r.prog.op = true) (hcan : clsCanonB r.prog.op = true)
    (hnb : r.prog.hasBackrefs = false) (hlit : fl.literal = true → p ≠ [])
    (input : List Nat) (hsv : ScalarInput input) (hlen : input.length < usizeMax)
    (i : Nat) (hi : i ≤ input.length) (st1 st2 : St) (h1 : st1.panic = none) (h2 : st2.panic = none) :
    (matchesFrom (r.prog.ctx Env.std.lower input) r.prog i st1).1 =
      (matchesNaive (r.prog.ctx Env.std.lower input) r.prog.op i st2).1 ∧
    ((matchesFrom (r.prog.ctx Env.std.lower input) r.prog i st1).1 = true →
      getParenStart (matchesFrom (r.prog.ctx Env.std.lower input) r.prog i st1).2 0 =
        getParenStart (matchesNaive (r.prog.ctx Env.std.lower input) r.prog.op i st2).2 0 ∧
      getParenEnd (matchesFrom (r.prog.ctx Env.std.lower input) r.prog i st1).2 0 =
        getParenEnd (matchesNaive (r.prog.ctx Env.std.lower input) r.prog.op i st2).2 0) :=
  api_clean4_opt_eq_noopt Env.std p fs xsd fl r hf h hns (by rw [hcb]; exact hclean) hcan hnb hlit
    input (inputOK_std_cs hcb hsv) hlen i hi st1 st2 h1 h2

/-! ## 2. scan level (C04 / C16) -/

theorem clean4_no_zero_length (env : Env) (pat : List Nat) (op : Op) (mp : Nat) (fl : CFlags) (lower : Nat → Nat)
    (hc : cleanProg4 env fl.caseBlind fl.multiLine (mkProgram pat op mp fl false).op = true)
    (hwf : wfOp op = true) (hne : noEmptyAtoms op = true)
    (hcan : clsCanonB (mkProgram pat op mp fl false).op = true) (hcp : C02.capsPos op = true)
    (hI0 : InputOKFor env fl lower [])
    (hnull : (mkProgram pat op mp fl false).isMatch lower [] = .ok false)
    (input : List Nat) (hI : InputOKFor env fl lower input) (hlen : input.length < usizeMax)
    (i : Nat) (hi : i ≤ input.length) (st st' : St) (hst : st.panic = none)
    (h : matchesFrom ((mkProgram pat op mp fl false).ctx lower input) (mkProgram pat op mp fl false) i st
      = (true, st')) :
    ∃ j n, getParenStart st' 0 = some j ∧ getParenEnd st' 0 = some n ∧ i ≤ j ∧ j < n ∧ n ≤ input.length := by
  obtain ⟨j, n, hs, he, _, hij, hjn, hnl, hopr, _⟩ :=
    Rx.Clean4.clean4_match_is_leftmost_first env pat op mp fl lower input hI hc hwf hne hcan hcp hlen
      i hi st st' hst h
  refine ⟨j, n, hs, he, hij, ?_, hnl⟩
  rcases Nat.lt_or_ge j n with hlt | hge
  · exact hlt
  · exfalso
    have hjn' : j = n := by omega
    subst hjn'
    have hz := C16.OpR_zero_anywhere _ _ j hopr
    have hm := (Rx.Clean4.clean4_isMatch_iff env pat op mp fl lower [] hI0 hc hwf hne hcan (by decide)).2
      ⟨0, 0, Nat.le_refl _, hz⟩
    rw [hnull] at hm
    cases hm

theorem clean4_goodFind (env : Env) (pat : List Nat) (op : Op) (mp : Nat) (fl : CFlags) (lower : Nat → Nat)
    (hc : cleanProg4 env fl.caseBlind fl.multiLine (mkProgram pat op mp fl false).op = true)
    (hwf : wfOp op = true) (hne : noEmptyAtoms op = true)
    (hcan : clsCanonB (mkProgram pat op mp fl false).op = true) (hcp : C02.capsPos op = true)
    (hnull : (mkProgram pat op mp fl false).isMatch lower [] = .ok false)
    (input : List Nat) (hI : InputOKFor env fl lower input) (hlen : input.length < usizeMax) :
    C04.GoodFind ((mkProgram pat op mp fl false).matcher lower input) input.length
      (fun st => st.panic = none) := by
  constructor
  intro st pos st' m hinv hpos hfind hfailed
  refine ⟨hfailed, fun hm => ?_⟩
  subst hm
  obtain ⟨a, b, h1, h2, h3, h4, h5⟩ :=
    clean4_no_zero_length env pat op mp fl lower hc hwf hne hcan hcp (inputOKFor_nil hI) hnull input hI hlen
      pos hpos st st' hinv hfind
  exact ⟨a, b, h1, h2, h3, h4, h5⟩

theorem clean4_find_clean (env : Env) (pat : List Nat) (op : Op) (mp : Nat) (fl : CFlags) (lower : Nat → Nat)
    (hc : cleanProg4 env fl.caseBlind fl.multiLine (mkProgram pat op mp fl false).op = true)
    (hwf : wfOp op = true) (hne : noEmptyAtoms op = true)
    (hcan : clsCanonB (mkProgram pat op mp fl false).op = true)
    (input : List Nat) (hI : InputOKFor env fl lower input) (hlen : input.length < usizeMax)
    (st : St) (hst : st.panic = none) (pos : Nat) (hpos : pos ≤ input.length) :
    ((mkProgram pat op mp fl false).matcher lower input).failed
      (((mkProgram pat op mp fl false).matcher lower input).find st pos).2 = none :=
  (clean4_outcome env pat op mp fl lower input hI hc hwf hne hcan hlen pos hpos st hst).clean

theorem clean4_tokenize_spec (env : Env) (pat : List Nat) (op : Op) (mp : Nat) (fl : CFlags) (lower : Nat → Nat)
    (hc : cleanProg4 env fl.caseBlind fl.multiLine (mkProgram pat op mp fl false).op = true)
    (hwf : wfOp op = true) (hne : noEmptyAtoms op = true)
    (hcan : clsCanonB (mkProgram pat op mp fl false).op = true) (hcp : C02.capsPos op = true)
    (hnull : (mkProgram pat op mp fl false).isMatch lower [] = .ok false)
    (input : List Nat) (hI : InputOKFor env fl lower input) (hlen : input.length < usizeMax)
    (limit : Nat) (hl : input.length + 1 ≤ limit) (toks : List (List Nat)) (more : Bool)
    (h : tokenLoop ((mkProgram pat op mp fl false).matcher lower input) input limit (some 0) {} [] = .ok (toks, more)) :
    toks = Spec.pieces input 0 (C04.spanPairs (C04.spansOf ((mkProgram pat op mp fl false).matcher lower input)
      input.length (input.length + 2) 0 {})) ∧ more = false :=
  C04.tokenize_spec _ _ input (clean4_goodFind env pat op mp fl lower hc hwf hne hcan hcp hnull input hI hlen)
    {} rfl limit hl toks more h

/-- from the pattern text: a regex of the fragment that passes the nullability gate drives the scan loops
    with a matcher satisfying C04's `GoodFind` -/
theorem api_clean4_goodFind (env : Env) (p fs : List Nat) (xsd : Bool) (fl : Flags) (r : Regex)
    (hf : parseFlags fs xsd = some fl) (h : Regex.new env p fs xsd true = .ok r) (hns : Api.NoSat env fl p)
    (hclean : cleanProg4 env fl.caseBlind fl.multiLine r.prog.op = true) (hcan : clsCanonB r.prog.op = true)
    (hnb : r.prog.hasBackrefs = false) (hlit : fl.literal = true → p ≠ []) (hnull : r.nullable = false)
    (input : List Nat) (hI : InputOKFor env fl.core env.lower input) (hlen : input.length < usizeMax) :
    C04.GoodFind (r.prog.matcher env.lower input) input.length (fun st => st.panic = none) := by
  obtain ⟨pat', op', mp, heq, hw, hne, hcp⟩ := new_prog env p fs xsd fl r hf h hns hnb hlit
  have hn := C16.new_nullable env p fs xsd true r h
  rw [hnull, heq] at hn
  rw [heq] at hclean hcan ⊢
  exact clean4_goodFind env pat' op' mp fl.core env.lower hclean hw hne hcan hcp hn input hI hlen

theorem api_clean4_goodFind_std_cs (p fs : List Nat) (xsd : Bool) (fl : Flags) (r : Regex)
    (hf : parseFlags fs xsd = some fl) (h : Regex.new Env.std p fs xsd true = .ok r)
    (hns : Api.NoSat Env.std fl p) (hcb : fl.caseBlind = false)
    (hclean : cleanProg4 Env.std false fl.multiLine r.prog.op = true) (hcan : clsCanonB r.prog.op = true)
    (hnb : r.prog.hasBackrefs = false) (hlit : fl.literal = true → p ≠ []) (hnull : r.nullable = false)
    (input : List Nat) (hsv : ScalarInput input) (hlen : input.length < usizeMax) :
    C04.GoodFind (r.prog.matcher Env.std.lower input) input.length (fun st => st.panic = none) :=
  api_clean4_goodFind Env.std p fs xsd fl r hf h hns (by rw [hcb]; exact hclean) hcan hnb hlit hnull input
    (inputOK_std_cs hcb hsv) hlen

end Rx.Clean4Api

namespace Rx.ApiGeneric.Clean4Api
open Rx Rx.SearchComplete Rx.Spec Rx.Clean2Api Rx.ApiGeneric
open Rx.ApiComplete (GoodInput GoodInput.nil goodInput_std_cs compile_maxParens mkProgram_literal hasCapNode firstFrom
  firstFrom_some firstFrom_none firstFrom_eq_some firstFrom_eq_none ordered_mem)
open Rx.C08 (noEmptyAtoms)

/-- the head of the priority enumeration `enum4` -/
instance headEnum4 : HeadFn := ⟨fun ctx op j => (enum4 ctx op j).head?⟩

/-! ## the bundles -/

/-- `r` is what `Regex::new env p fs xsd` (optimiser on) returned, and satisfies the hypotheses of the
    `api_clean4_*` theorems above -/
structure Clean4New (env : Env) (p fs : List Nat) (xsd : Bool) (fl : Flags) (r : Regex) : Prop where
  hf : parseFlags fs xsd = some fl
  hnew : Regex.new env p fs xsd true = .ok r
  hns : Api.NoSat env fl p
  hclean : cleanProg4 env fl.caseBlind fl.multiLine r.prog.op = true
  hcan : clsCanonB r.prog.op = true
  hnb : r.prog.hasBackrefs = false
  hlit : fl.literal = true → p ≠ []

def Clean4Regex (env : Env) (fl : Flags) (r : Regex) : Prop := ∃ p fs xsd, Clean4New env p fs xsd fl r

/-- everything the proofs below use about such a regex -/
theorem Clean4Regex.core {env : Env} {fl : Flags} {r : Regex} (R : Clean4Regex env fl r) :
    ∃ pat op mp, r.prog = mkProgram pat op mp fl.core false ∧
      cleanProg4 env fl.core.caseBlind fl.core.multiLine (mkProgram pat op mp fl.core false).op = true ∧
      wfOp op = true ∧ noEmptyAtoms op = true ∧ clsCanonB (mkProgram pat op mp fl.core false).op = true ∧
      C02.capsPos op = true ∧
      r.prog.isMatch env.lower [] = .ok r.nullable ∧ r.prog.maxParens ≠ 0 := by
  obtain ⟨p, fs, xsd, N⟩ := R
  obtain ⟨pat, op, mp, heq, hw, hne, hcp⟩ := Rx.Clean3Api.new_prog env p fs xsd fl r N.hf N.hnew N.hns N.hnb N.hlit
  have hcomp := new_compile env p fs xsd true fl r N.hf N.hnew
  rw [compileProg_core] at hcomp
  have hc := N.hclean
  have hca := N.hcan
  rw [heq] at hc hca
  exact ⟨pat, op, mp, heq, hc, hw, hne, hca, hcp, C16.new_nullable env p fs xsd true r N.hnew,
    compile_maxParens env fl.core _ r.prog hcomp⟩

/-- flag `q` of the program is flag `q` of the call -/
theorem Clean4Regex.literal {env : Env} {fl : Flags} {r : Regex} (R : Clean4Regex env fl r) :
    r.prog.literal = fl.literal := by
  obtain ⟨pat, op, mp, heq, _⟩ := R.core
  rw [heq]
  exact mkProgram_literal pat op mp fl.core false

/-- the concrete matcher of a non-nullable regex of the fragment, on a good input -/
theorem Clean4Regex.findOK {env : Env} {fl : Flags} {r : Regex} (R : Clean4Regex env fl r)
    (hnull : r.nullable = false) {input : List Nat} (G : GoodInput env fl input) :
    FindOK (r.prog.ctx env.lower input) r.prog := by
  obtain ⟨pat, op, mp, heq, hc, hw, hne, hca, hcp, hn, _⟩ := R.core
  rw [hnull, heq] at hn
  rw [heq]
  obtain ⟨f1, f2, f3, f4⟩ := Rx.Clean4.prog_facts env pat op mp fl.core env.lower input hc hw hne hcp
  have hIn := G.ok.ctx pat op mp false
  refine findOK_of_outcome f2 f4 ?_ ?_ ?_ (fun pos st hpos hst =>
    clean4_outcome env pat op mp fl.core env.lower input G.ok hc hw hne hca G.len pos hpos st hst)
  · intro k hk hno
    show (enum4 _ _ k).head? = none
    cases hl : enum4 ((mkProgram pat op mp fl.core false).ctx env.lower input) (mkProgram pat op mp fl.core false).op k with
    | nil => rfl
    | cons q l =>
      exact absurd ⟨q, Rx.Clean4.enum4_sound env _ hIn _ f1 f2 f3 hca k q hk (by rw [hl]; exact List.mem_cons_self)⟩ hno
  · intro i r' ho ht
    exact ho.span_clean4 hIn f1 f2 f3 hca f4 ht
  · intro j hj
    have hz := C16.OpR_zero_anywhere _ _ j hj
    have hm := (Rx.Clean4.clean4_isMatch_iff env pat op mp fl.core env.lower [] (inputOKFor_nil G.ok) hc hw hne
      hca (by decide)).2 ⟨0, 0, Nat.le_refl _, hz⟩
    rw [hn] at hm
    cases hm

/-- C01 both ways (§1), in bundle form -/
theorem Clean4Regex.isMatch_iff {env : Env} {fl : Flags} {r : Regex} (R : Clean4Regex env fl r)
    {input : List Nat} (G : GoodInput env fl input) :
    (r.prog.isMatch env.lower input = .ok true ↔
      ∃ j q, j ≤ input.length ∧ OpR (r.prog.ctx env.lower input) r.prog.op j q) ∧
    ((¬ ∃ j q, j ≤ input.length ∧ OpR (r.prog.ctx env.lower input) r.prog.op j q) →
      r.prog.isMatch env.lower input = .ok false) := by
  obtain ⟨p, fs, xsd, N⟩ := R
  exact Rx.Clean4Api.api_clean4_isMatch_iff env p fs xsd fl r N.hf N.hnew N.hns N.hclean N.hcan N.hnb N.hlit input
    G.ok G.len

/-! ## 1. C16 — regexes that match the empty string are rejected up front, and only those -/

/-- the gate bit is SEMANTIC: `r.nullable` iff the empty string is in the language of the program -/
theorem api4_gate_iff {env : Env} {fl : Flags} {r : Regex} (R : Clean4Regex env fl r)
    (G0 : GoodInput env fl []) :
    r.nullable = true ↔ ∃ q, OpR (r.prog.ctx env.lower []) r.prog.op 0 q := by
  obtain ⟨_, _, _, _, _, _, _, _, _, hn, _⟩ := R.core
  obtain ⟨h1, h2⟩ := R.isMatch_iff G0
  constructor
  · intro hnull
    rw [hnull] at hn
    obtain ⟨j, q, hj, hq⟩ := h1.1 hn
    have : j = 0 := by simpa using hj
    subst this
    exact ⟨q, hq⟩
  · rintro ⟨q, hq⟩
    have := h1.2 ⟨0, q, Nat.le_refl _, hq⟩
    rw [hn] at this
    simpa using this

/-- … in the form "matches the empty string": a zero-length member AT 0 of the empty input -/
theorem api4_gate_iff_empty {env : Env} {fl : Flags} {r : Regex} (R : Clean4Regex env fl r)
    (G0 : GoodInput env fl []) :
    r.nullable = true ↔ OpR (r.prog.ctx env.lower []) r.prog.op 0 0 := by
  rw [api4_gate_iff R G0]
  constructor
  · rintro ⟨q, hq⟩
    have := (C01.OpR_bounds _ _ 0 q (Nat.zero_le _) hq).2
    have hq0 : q = 0 := by simpa [Ctx.len, Prog.ctx] using this
    subst hq0
    exact hq
  · intro h; exact ⟨0, h⟩

/-- C16, first sentence: a regex that matches the empty string is rejected by `replace_all`, `analyze`
    and (on a non-empty input) `tokenize` with `MatchesEmptyString` -/
theorem c16_rejected {env : Env} {fl : Flags} {r : Regex} (R : Clean4Regex env fl r) (G0 : GoodInput env fl [])
    (hempty : ∃ q, OpR (r.prog.ctx env.lower []) r.prog.op 0 q)
    (lower : Nat → Nat) (input repl : List Nat) (limit : Nat) :
    r.replaceAll lower input repl = .err .matchesEmptyString ∧
    r.analyze lower input limit = .err .matchesEmptyString ∧
    (input ≠ [] → r.tokenize lower input limit = .err .matchesEmptyString) ∧
    r.tokenize lower [] limit = .ok ([], false) := by
  have hn := (api4_gate_iff R G0).2 hempty
  exact ⟨C16.replace_nullable r lower input repl hn, C16.analyze_nullable r lower input limit hn,
    fun hne => C16.tokenize_nullable r lower input limit hn hne, C16.tokenize_empty r lower limit⟩

/-- C16, second sentence ("and only those"), as equivalences: the error is returned EXACTLY when the
    regex matches the empty string -/
theorem replaceAll_gate_iff {env : Env} {fl : Flags} {r : Regex} (R : Clean4Regex env fl r)
    (G0 : GoodInput env fl []) (lower : Nat → Nat) (input repl : List Nat) :
    r.replaceAll lower input repl = .err .matchesEmptyString ↔
      ∃ q, OpR (r.prog.ctx env.lower []) r.prog.op 0 q := by
  rw [← api4_gate_iff R G0]
  constructor
  · intro h
    cases hn : r.nullable with
    | true => rfl
    | false => exact absurd h (C16.replace_not_nullable r lower input repl hn)
  · exact C16.replace_nullable r lower input repl

theorem analyze_gate_iff {env : Env} {fl : Flags} {r : Regex} (R : Clean4Regex env fl r)
    (G0 : GoodInput env fl []) (lower : Nat → Nat) (input : List Nat) (limit : Nat) :
    r.analyze lower input limit = .err .matchesEmptyString ↔
      ∃ q, OpR (r.prog.ctx env.lower []) r.prog.op 0 q := by
  rw [← api4_gate_iff R G0]
  constructor
  · intro h
    cases hn : r.nullable with
    | true => rfl
    | false => exact absurd h (C16.analyze_not_nullable r lower input limit hn)
  · exact C16.analyze_nullable r lower input limit

theorem tokenize_gate_iff {env : Env} {fl : Flags} {r : Regex} (R : Clean4Regex env fl r)
    (G0 : GoodInput env fl []) (lower : Nat → Nat) (input : List Nat) (limit : Nat) (hne : input ≠ []) :
    r.tokenize lower input limit = .err .matchesEmptyString ↔
      ∃ q, OpR (r.prog.ctx env.lower []) r.prog.op 0 q := by
  rw [← api4_gate_iff R G0]
  constructor
  · intro h
    cases hn : r.nullable with
    | true => rfl
    | false => exact absurd h (C16.tokenize_not_nullable r lower input limit hn)
  · intro hn; exact C16.tokenize_nullable r lower input limit hn hne

theorem c16_only_those {env : Env} {fl : Flags} {r : Regex} (R : Clean4Regex env fl r) (G0 : GoodInput env fl [])
    (hnot : ¬ ∃ q, OpR (r.prog.ctx env.lower []) r.prog.op 0 q)
    (lower : Nat → Nat) (input repl : List Nat) (limit : Nat) :
    r.replaceAll lower input repl ≠ .err .matchesEmptyString ∧
    r.analyze lower input limit ≠ .err .matchesEmptyString ∧
    r.tokenize lower input limit ≠ .err .matchesEmptyString := by
  have hn : r.nullable = false := by
    cases h : r.nullable with
    | false => rfl
    | true => exact absurd ((api4_gate_iff R G0).1 h) hnot
  exact ⟨C16.replace_not_nullable r lower input repl hn, C16.analyze_not_nullable r lower input limit hn,
    C16.tokenize_not_nullable r lower input limit hn⟩

/-! ## 2. C04 — the three APIs partition the input consistently -/

/-- THE span list of a regex on an input, state-free: from position 0, repeatedly the least start with
    a match and the first end of the priority order from it (`firstSpan`), continuing from that end -/
def spans (r : Regex) (lower : Nat → Nat) (input : List Nat) : List (Nat × Nat) :=
  spansFrom (r.prog.ctx lower input) r.prog.op (input.length + 2) 0

/-- what an element of the list is: `firstSpan` from the previous end -/
theorem firstSpan_spec (ctx : Ctx) (op : Op) (pos j n : Nat) (h : firstSpan ctx op pos = some (j, n)) :
    pos ≤ j ∧ j ≤ ctx.len ∧ (enum4 ctx op j).head? = some n ∧
    ∀ k, pos ≤ k → k < j → (enum4 ctx op k).head? = none := by
  obtain ⟨h1, h2, h3, h4⟩ := ApiComplete.firstFrom_some _ _ _ _ _ h
  exact ⟨h1, by omega, h3, h4⟩

/-- … and in terms of the language: a member `[j, n)`, and no member starts in `[pos, j)` -/
theorem firstSpan_sem {env : Env} {fl : Flags} {r : Regex} (R : Clean4Regex env fl r)
    (hnull : r.nullable = false) {input : List Nat} (G : GoodInput env fl input)
    (pos j n : Nat) (hpos : pos ≤ input.length)
    (h : firstSpan (r.prog.ctx env.lower input) r.prog.op pos = some (j, n)) :
    OpR (r.prog.ctx env.lower input) r.prog.op j n ∧ j < n ∧
    ∀ k q, pos ≤ k → k < j → ¬ OpR (r.prog.ctx env.lower input) r.prog.op k q := by
  have F := R.findOK hnull G
  obtain ⟨h1, h2⟩ := (F.sem pos hpos).1 j n h
  refine ⟨h1, ?_, h2⟩
  rcases F.step pos {} hpos rfl with ⟨_, j', n', _, _, a3, _, _, _, a7, _⟩ | ⟨_, _, _, a3⟩
  · rw [h] at a3
    simp only [Option.some.injEq, Prod.mk.injEq] at a3
    obtain ⟨rfl, rfl⟩ := a3
    exact a7
  · rw [h] at a3; cases a3

/-- the list is strictly left to right, its spans are non-empty and inside the input -/
theorem spans_ordered {env : Env} {fl : Flags} {r : Regex} (R : Clean4Regex env fl r)
    (hnull : r.nullable = false) {input : List Nat} (G : GoodInput env fl input) :
    C04.Ordered input.length 0 (spans r env.lower input) :=
  spansFrom_ordered (R.findOK hnull G) _ 0 (Nat.zero_le _)

theorem ordered_mem (len : Nat) : ∀ (l : List (Nat × Nat)) (pos : Nat), C04.Ordered len pos l →
    ∀ x ∈ l, pos ≤ x.1 ∧ x.1 < x.2 ∧ x.2 ≤ len
  | [], _, _, x, hx => by cases hx
  | (a, b) :: rest, pos, ho, x, hx => by
    obtain ⟨h1, h2, h3, h4⟩ := ho
    rcases List.mem_cons.1 hx with rfl | hx
    · exact ⟨h1, h2, h3⟩
    · have := ordered_mem len rest b h4 x hx
      exact ⟨by omega, this.2.1, this.2.2⟩

/-- C16, third sentence: a regex that does not match the empty string never reports an empty span -/
theorem c16_no_empty_span {env : Env} {fl : Flags} {r : Regex} (R : Clean4Regex env fl r)
    (hnull : r.nullable = false) {input : List Nat} (G : GoodInput env fl input) :
    (∀ x ∈ spans r env.lower input, x.1 < x.2 ∧ x.2 ≤ input.length) ∧
    (∀ pos st st', pos ≤ input.length → st.panic = none →
      matchesFrom (r.prog.ctx env.lower input) r.prog pos st = (true, st') →
      ∃ j n, getParenStart st' 0 = some j ∧ getParenEnd st' 0 = some n ∧ pos ≤ j ∧ j < n ∧ n ≤ input.length) := by
  refine ⟨fun x hx => ?_, fun pos st st' hpos hst hm => ?_⟩
  · have := ordered_mem _ _ 0 (spans_ordered R hnull G) x hx
    exact ⟨this.2.1, this.2.2⟩
  · rcases (R.findOK hnull G).step pos st hpos hst with ⟨st2, j, n, he, _, _, a4, a5, a6, a7, a8, _⟩ | ⟨st2, he, _⟩
    · rw [hm] at he
      simp only [Prod.mk.injEq, true_and] at he
      subst he
      exact ⟨j, n, a4, a5, a6, a7, a8⟩
    · rw [hm] at he; cases he

/-- **the scan sees exactly the semantic spans**: the span sequence `C04.spansOf` that the three scan
    loops compute with the concrete, stateful matcher is the state-free list `spans` -/
theorem scan_sees_spans {env : Env} {fl : Flags} {r : Regex} (R : Clean4Regex env fl r)
    (hnull : r.nullable = false) {input : List Nat} (G : GoodInput env fl input) :
    C04.spanPairs (C04.spansOf (r.prog.matcher env.lower input) input.length (input.length + 2) 0 {}) =
      spans r env.lower input :=
  spansOf_eq (R.findOK hnull G) _ 0 {} rfl (Nat.zero_le _)

/-- the matcher satisfies the hypothesis of every theorem of Props/C04 -/
theorem api4_goodFind {env : Env} {fl : Flags} {r : Regex} (R : Clean4Regex env fl r)
    (hnull : r.nullable = false) {input : List Nat} (G : GoodInput env fl input) :
    C04.GoodFind (r.prog.matcher env.lower input) input.length (fun st => st.panic = none) :=
  (R.findOK hnull G).goodFind

/-! ### (a) replace -/

/-- `replace_all` with a well-formed replacement that refers to no group but `$0` (`Dep0`; decidable
    sufficient condition `dollar0Only`): the call SUCCEEDS and returns the input with every span of
    `spans` replaced by the expansion of the replacement for that span -/
theorem api4_replace_spec {env : Env} {fl : Flags} {r : Regex} (R : Clean4Regex env fl r)
    (hnull : r.nullable = false) {input : List Nat} (G : GoodInput env fl input) (repl : List Nat)
    (hd : Dep0 (r.prog.maxParens - 1) repl) :
    r.replaceAll env.lower input repl =
      .ok (replaced input 0 ((spans r env.lower input).map
        (fun x => (x.1, x.2, replText r.prog input repl x.1 x.2)))) := by
  obtain ⟨_, _, _, _, _, _, _, _, _, _, hmp⟩ := R.core
  simp only [Regex.replaceAll, hnull, Bool.false_eq_true, if_false, replaceWith]
  have := replaceLoop_spec (R.findOK hnull G) repl hmp hd (input.length + 2) 0 {} true false [] rfl
    (Nat.zero_le _) (by omega) (fun _ => ⟨rfl, rfl⟩) (fun h => by cases h) (fun h => by cases h)
  simpa [spans] using this

/-- a replacement without `$` and `\`: the pieces between the spans, joined by it -/
theorem api4_replace_plain {env : Env} {fl : Flags} {r : Regex} (R : Clean4Regex env fl r)
    (hnull : r.nullable = false) {input : List Nat} (G : GoodInput env fl input) (repl : List Nat)
    (hp : plainRepl repl = true) :
    r.replaceAll env.lower input repl =
      .ok (joinWith repl (pieces input 0 (spans r env.lower input))) := by
  rw [api4_replace_spec R hnull G repl (dep0_of_plain _ repl hp)]
  have ht : ∀ j n, replText r.prog input repl j n = repl := by
    intro j n
    unfold replText
    split
    · rfl
    · rw [expandSpec_plain _ _ _ hp]; rfl
  simp only [ht]
  rw [replaced_const']

/-- `$0` (without flag q): the input comes back unchanged -/
theorem api4_replace_dollar0 {env : Env} {fl : Flags} {r : Regex} (R : Clean4Regex env fl r)
    (hnull : r.nullable = false) {input : List Nat} (G : GoodInput env fl input)
    (hlit : fl.literal = false) :
    r.replaceAll env.lower input [36, 48] = .ok input := by
  rw [api4_replace_spec R hnull G _ (dep0_dollar0 _)]
  have ht : ∀ j n, replText r.prog input [36, 48] j n = slice input j n := by
    intro j n
    unfold replText
    rw [R.literal, hlit]
    simp only [Bool.false_eq_true, if_false]
    rw [expandSpec_dollar0]; rfl
  simp only [ht]
  rw [replaced_self' input input.length _ 0 (spans_ordered R hnull G)]
  rfl

/-! ### (b) tokenize -/

/-- `tokenize` (pulled to exhaustion): exactly the pieces between consecutive spans — including empty
    leading, trailing and adjacent pieces — and then the iterator is exhausted -/
theorem api4_tokenize_spec {env : Env} {fl : Flags} {r : Regex} (R : Clean4Regex env fl r)
    (hnull : r.nullable = false) {input : List Nat} (G : GoodInput env fl input) (hne : input ≠ [])
    (limit : Nat) (hl : input.length + 1 ≤ limit) :
    r.tokenize env.lower input limit = .ok (pieces input 0 (spans r env.lower input), false) := by
  have he : input.isEmpty = false := by
    cases input with
    | nil => exact absurd rfl hne
    | cons a t => rfl
  simp only [Regex.tokenize, he, hnull, Bool.false_eq_true, if_false]
  have := tokenLoop_spec (R.findOK hnull G) limit (input.length + 2) 0 {} [] rfl (Nat.zero_le _)
    (by omega) (by omega)
  simpa [spans] using this

/-- the number of tokens -/
theorem api4_tokenize_count {env : Env} {fl : Flags} {r : Regex} (R : Clean4Regex env fl r)
    (hnull : r.nullable = false) {input : List Nat} (G : GoodInput env fl input) :
    (pieces input 0 (spans r env.lower input)).length = (spans r env.lower input).length + 1 ∧
    (spans r env.lower input).length ≤ input.length := by
  refine ⟨C04.pieces_length _ _ _, ?_⟩
  have := C04.ordered_length input.length _ 0 (Nat.zero_le _) (spans_ordered R hnull G)
  omega

/-! ### (c) analyze -/

/-- `analyze` (pulled to exhaustion): whatever it answers with `.ok` is the alternating list of
    non-match / match entries over a list `L` whose spans are exactly `spans` — the Match entries are
    exactly the spans (their contents, the group trees, are the subject of Props/C03c) -/
theorem api4_analyze_spec {env : Env} {fl : Flags} {r : Regex} (R : Clean4Regex env fl r)
    (hnull : r.nullable = false) {input : List Nat} (G : GoodInput env fl input)
    (limit : Nat) (hl : 2 * input.length + 1 ≤ limit) (es : List AEntry) (more : Bool)
    (h : r.analyze env.lower input limit = .ok (es, more)) :
    ∃ L : List (Nat × Nat × List MEntry),
      L.map (fun x => (x.1, x.2.1)) = spans r env.lower input ∧ es = entries input 0 L ∧ more = false := by
  simp only [Regex.analyze, hnull, Bool.false_eq_true, if_false] at h
  cases htbl : (if r.prog.literal = true then some [] else nestingTable r.prog.pattern) with
  | none => rw [htbl] at h; cases h
  | some tbl =>
    rw [htbl] at h
    obtain ⟨h1, h2⟩ := C04.analyze_spec (r.prog.matcher env.lower input) (fun st => st.panic = none) input
      (processMatch tbl) (api4_goodFind R hnull G) {} rfl limit hl es more h
    refine ⟨_, ?_, h1, h2⟩
    rw [List.map_map]
    exact scan_sees_spans R hnull G

/-- a regex WITHOUT capturing groups: the Match entry of a span is its text -/
theorem api4_analyze_plain {env : Env} {fl : Flags} {r : Regex} (R : Clean4Regex env fl r)
    (hnull : r.nullable = false) (hnc : hasCapNode r.prog.op = false)
    {input : List Nat} (G : GoodInput env fl input)
    (limit : Nat) (hl : 2 * input.length + 1 ≤ limit) (es : List AEntry) (more : Bool)
    (h : r.analyze env.lower input limit = .ok (es, more)) :
    es = entries input 0 ((spans r env.lower input).map
      (fun x => (x.1, x.2, [MEntry.str (slice input x.1 x.2)]))) ∧ more = false := by
  simp only [Regex.analyze, hnull, Bool.false_eq_true, if_false] at h
  cases htbl : (if r.prog.literal = true then some [] else nestingTable r.prog.pattern) with
  | none => rw [htbl] at h; cases h
  | some tbl =>
    rw [htbl] at h
    obtain ⟨h1, h2⟩ := C04.analyze_spec (r.prog.matcher env.lower input) (fun st => st.panic = none) input
      (processMatch tbl) (api4_goodFind R hnull G) {} rfl limit hl es more h
    refine ⟨?_, h2⟩
    rw [h1]
    congr 1
    exact spansOf_map (R.findOK hnull G)
      (fun st j n => C04.entryD (processMatch tbl) st (slice input j n))
      (fun j n => [MEntry.str (slice input j n)])
      (fun st j n PM => by
        simp only [C04.entryD]
        rw [C03.processMatch_plain tbl st _ (PM.pc1 hnc)])
      (input.length + 2) 0 {} rfl (Nat.zero_le _)

/-- … and the texts of all entries concatenate to the input -/
theorem api4_analyze_concat {env : Env} {fl : Flags} {r : Regex} (R : Clean4Regex env fl r)
    (hnull : r.nullable = false) (hnc : hasCapNode r.prog.op = false)
    {input : List Nat} (G : GoodInput env fl input)
    (limit : Nat) (hl : 2 * input.length + 1 ≤ limit) (es : List AEntry) (more : Bool)
    (h : r.analyze env.lower input limit = .ok (es, more)) : aTextL es = input := by
  rw [(api4_analyze_plain R hnull hnc G limit hl es more h).1]
  exact entries_text' input _ 0 (spans_ordered R hnull G)

/-- the bounds on the number of entries (any regex of the fragment, any limit) -/
theorem api4_analyze_bound {env : Env} {fl : Flags} {r : Regex} (R : Clean4Regex env fl r)
    (hnull : r.nullable = false) {input : List Nat} (G : GoodInput env fl input)
    (limit : Nat) (es : List AEntry) (more : Bool)
    (h : r.analyze env.lower input limit = .ok (es, more)) : es.length ≤ 2 * input.length + 1 := by
  simp only [Regex.analyze, hnull, Bool.false_eq_true, if_false] at h
  cases htbl : (if r.prog.literal = true then some [] else nestingTable r.prog.pattern) with
  | none => rw [htbl] at h; cases h
  | some tbl =>
    rw [htbl] at h
    exact C04.analyze_bound (r.prog.matcher env.lower input) (fun st => st.panic = none) input
      (processMatch tbl) (api4_goodFind R hnull G) {} rfl limit es more h

theorem api4_tokenize_bound {env : Env} {fl : Flags} {r : Regex} (R : Clean4Regex env fl r)
    (hnull : r.nullable = false) {input : List Nat} (G : GoodInput env fl input)
    (limit : Nat) (toks : List (List Nat)) (more : Bool)
    (h : r.tokenize env.lower input limit = .ok (toks, more)) : toks.length ≤ input.length + 1 := by
  unfold Regex.tokenize at h
  split at h
  · simp only [Out.ok.injEq, Prod.mk.injEq] at h
    rw [← h.1]; simp
  · simp only [hnull, Bool.false_eq_true, if_false] at h
    exact C04.tokenize_bound (r.prog.matcher env.lower input) (fun st => st.panic = none) input
      (api4_goodFind R hnull G) {} rfl limit toks more h

/-! ## 3. C06 — the four API functions are total on the fragment -/

theorem api4_isMatch_total {env : Env} {fl : Flags} {r : Regex} (R : Clean4Regex env fl r)
    {input : List Nat} (G : GoodInput env fl input) :
    ∃ b, r.prog.isMatch env.lower input = .ok b := by
  obtain ⟨h1, h2⟩ := R.isMatch_iff G
  by_cases h : ∃ j q, j ≤ input.length ∧ OpR (r.prog.ctx env.lower input) r.prog.op j q
  · exact ⟨true, h1.2 h⟩
  · exact ⟨false, h2 h⟩

/-- `replace_all` with ANY replacement string: `.ok`, or one of the two classified errors — never a
    panic, never divergence -/
theorem api4_replace_total {env : Env} {fl : Flags} {r : Regex} (R : Clean4Regex env fl r)
    {input : List Nat} (G : GoodInput env fl input) (repl : List Nat) :
    (∃ out, r.replaceAll env.lower input repl = .ok out) ∨
    r.replaceAll env.lower input repl = .err .invalidReplacement ∨
    r.replaceAll env.lower input repl = .err .matchesEmptyString := by
  cases hnull : r.nullable with
  | true => exact .inr (.inr (C16.replace_nullable r _ _ _ hnull))
  | false =>
    simp only [Regex.replaceAll, hnull, Bool.false_eq_true, if_false, replaceWith]
    rcases replaceLoop_total (R.findOK hnull G) (r.prog.subst input repl) r.prog.literal
        (input.length + 2) 0 {} true false [] rfl (Nat.zero_le _) (by omega) with h | h
    · exact .inl h
    · exact .inr (.inl h)

/-- `tokenize`, any limit -/
theorem api4_tokenize_total {env : Env} {fl : Flags} {r : Regex} (R : Clean4Regex env fl r)
    {input : List Nat} (G : GoodInput env fl input) (limit : Nat) :
    (∃ toks more, r.tokenize env.lower input limit = .ok (toks, more)) ∨
    r.tokenize env.lower input limit = .err .matchesEmptyString := by
  unfold Regex.tokenize
  split
  · exact .inl ⟨_, _, rfl⟩
  · cases hnull : r.nullable with
    | true => exact .inr (by simp)
    | false =>
      simp only [Bool.false_eq_true, if_false]
      exact .inl (tokenLoop_total (R.findOK hnull G) limit (some 0) {} [] rfl
        (fun p hp => by cases hp; exact Nat.zero_le _))

/-- `analyze`, any limit: `.ok`, the gate error, or a panic at one of the two sites of the group-tree
    builder (`process_matching_substring`, `compute_nesting_table`) — never divergence, no other panic.
    Without capturing groups the builder cannot panic (`api4_analyze_total_plain`). -/
theorem api4_analyze_total {env : Env} {fl : Flags} {r : Regex} (R : Clean4Regex env fl r)
    {input : List Nat} (G : GoodInput env fl input) (limit : Nat) :
    (∃ es more, r.analyze env.lower input limit = .ok (es, more)) ∨
    r.analyze env.lower input limit = .err .matchesEmptyString ∨
    r.analyze env.lower input limit = .panic panicAnalyze ∨
    r.analyze env.lower input limit = .panic panicNesting := by
  cases hnull : r.nullable with
  | true => exact .inr (.inl (C16.analyze_nullable r _ _ _ hnull))
  | false =>
    simp only [Regex.analyze, hnull, Bool.false_eq_true, if_false]
    cases htbl : (if r.prog.literal = true then some [] else nestingTable r.prog.pattern) with
    | none => exact .inr (.inr (.inr rfl))
    | some tbl =>
      simp only
      rcases analyzeLoop_total (R.findOK hnull G) (processMatch tbl) (fun c => c = panicAnalyze)
          (fun st t j n _ => by
            rcases processMatch_cases tbl st t with h | h
            · exact .inl h
            · exact .inr ⟨_, h, rfl⟩)
          limit _ [] (AInv.init r.prog input) with h | ⟨c, h, hc⟩
      · exact .inl h
      · subst hc; exact .inr (.inr (.inl h))

theorem api4_analyze_total_plain {env : Env} {fl : Flags} {r : Regex} (R : Clean4Regex env fl r)
    (hnull : r.nullable = false) (hnc : hasCapNode r.prog.op = false)
    (htbl : r.prog.literal = true ∨ (nestingTable r.prog.pattern).isSome = true)
    {input : List Nat} (G : GoodInput env fl input) (limit : Nat) :
    ∃ es more, r.analyze env.lower input limit = .ok (es, more) := by
  simp only [Regex.analyze, hnull, Bool.false_eq_true, if_false]
  have ht : ∃ tbl, (if r.prog.literal = true then some [] else nestingTable r.prog.pattern) = some tbl := by
    rcases htbl with h | h
    · exact ⟨[], by rw [if_pos h]⟩
    · by_cases hl : r.prog.literal = true
      · exact ⟨[], by rw [if_pos hl]⟩
      · rw [if_neg hl]
        cases hn : nestingTable r.prog.pattern with
        | none => rw [hn] at h; cases h
        | some t => exact ⟨t, rfl⟩
  obtain ⟨tbl, ht⟩ := ht
  rw [ht]
  simp only
  rcases analyzeLoop_total (R.findOK hnull G) (processMatch tbl) (fun _ => False)
      (fun st t j n PM => .inl ⟨_, C03.processMatch_plain tbl st t (PM.pc1 hnc)⟩)
      limit _ [] (AInv.init r.prog input) with h | ⟨c, _, hc⟩
  · exact h
  · exact hc.elim

/-! ## 4. C20 at API level — equivalent spellings -/

/-- the greedy fragment of Props/Clean3Api (and with it that of Props/Clean2Api) is inside: a regex satisfying
    the hypotheses of the `api_clean3_*` theorems satisfies those of the theorems of this file -/
theorem clean4Regex_of_clean3 {env : Env} {p fs : List Nat} {xsd : Bool} {fl : Flags} {r : Regex}
    (hf : parseFlags fs xsd = some fl) (h : Regex.new env p fs xsd true = .ok r) (hns : Api.NoSat env fl p)
    (hclean : cleanProg3 env fl.caseBlind fl.multiLine r.prog.op = true) (hcan : clsCanonB r.prog.op = true)
    (hnb : r.prog.hasBackrefs = false) (hlit : fl.literal = true → p ≠ []) : Clean4Regex env fl r :=
  ⟨p, fs, xsd, ⟨hf, h, hns, Rx.Clean4.cleanProg4_of_cleanProg3 env _ _ _ hclean, hcan, hnb, hlit⟩⟩

/-! ## example: `(?:ab|c)+?c` (and `(?:ab|c)*?d`, min = 0) through `Regex.new Env.std` -/
section example_
open Rx.Clean3Api (noSat_of)

/-- `(?:ab|c)+?c` (the pattern text of `Clean4.ex_compiled` / `Clean4.exProg`) -/
def exPat : List Nat := [40, 63, 58, 97, 98, 124, 99, 41, 43, 63, 99]
/-- `(?:ab|c)*?d` -/
def exPat0 : List Nat := [40, 63, 58, 97, 98, 124, 99, 41, 42, 63, 100]
/-- "xabcc" -/
def exInput : List Nat := Rx.Clean4.exInput
/-- "xabcc-cc" -/
def exInput2 : List Nat := [120, 97, 98, 99, 99, 45, 99, 99]

/-- `Regex::new` accepts both patterns and the compiled programs satisfy the decidable hypotheses;
    they are outside the fragment of Props/Clean3Api -/
theorem ex_new :
    (match Regex.new Env.std exPat [] false true with
     | .ok r => cleanProg4 Env.std false false r.prog.op && clsCanonB r.prog.op && !r.prog.hasBackrefs &&
         !r.nullable && !cleanProg3 Env.std false false r.prog.op
     | _ => false) = true ∧
    (match Regex.new Env.std exPat0 [] false true with
     | .ok r => cleanProg4 Env.std false false r.prog.op && clsCanonB r.prog.op && !r.prog.hasBackrefs &&
         !r.nullable && !cleanProg3 Env.std false false r.prog.op
     | _ => false) = true := by decide +kernel

theorem ex_noSat : Api.NoSat Env.std {} exPat := noSat_of exPat (by decide +kernel)
theorem ex_noSat0 : Api.NoSat Env.std {} exPat0 := noSat_of exPat0 (by decide +kernel)

theorem ex_scalar : ScalarInput exInput2 := by
  intro c hc
  simp only [exInput2, List.mem_cons, List.not_mem_nil, or_false] at hc
  rcases hc with rfl | rfl | rfl | rfl | rfl | rfl | rfl | rfl <;> decide

/-- FROM THE PATTERN TEXT: whatever `Regex.new` returns for `(?:ab|c)+?c` is a regex of the fragment, and it
    passes the nullability gate -/
theorem ex_regex (r : Regex) (h : Regex.new Env.std exPat [] false true = .ok r) :
    Clean4Regex Env.std {} r ∧ r.nullable = false := by
  have hk := ex_new.1
  rw [h] at hk
  simp only [Bool.and_eq_true, Bool.not_eq_true'] at hk
  obtain ⟨⟨⟨⟨k1, k2⟩, k3⟩, k4⟩, _⟩ := hk
  exact ⟨⟨exPat, [], false, ⟨rfl, h, ex_noSat, k1, k2, k3, fun hl => by cases hl⟩⟩, k4⟩

theorem ex_regex0 (r : Regex) (h : Regex.new Env.std exPat0 [] false true = .ok r) :
    Clean4Regex Env.std {} r ∧ r.nullable = false := by
  have hk := ex_new.2
  rw [h] at hk
  simp only [Bool.and_eq_true, Bool.not_eq_true'] at hk
  obtain ⟨⟨⟨⟨k1, k2⟩, k3⟩, k4⟩, _⟩ := hk
  exact ⟨⟨exPat0, [], false, ⟨rfl, h, ex_noSat0, k1, k2, k3, fun hl => by cases hl⟩⟩, k4⟩

/-- … and `Regex.new` does return a regex -/
theorem ex_new_ok : ∃ r, Regex.new Env.std exPat [] false true = .ok r := by
  cases h : Regex.new Env.std exPat [] false true with
  | ok r => exact ⟨r, rfl⟩
  | _ => have := ex_new.1; rw [h] at this; cases this

/-- C01 for `(?:ab|c)+?c`, every input of scalar values (`api_clean4_isMatch_iff_std_cs` instantiated) -/
theorem ex_isMatch_iff (input : List Nat) (hsv : ScalarInput input) (hlen : input.length < usizeMax)
    (r : Regex) (h : Regex.new Env.std exPat [] false true = .ok r) :
    (r.prog.isMatch Env.std.lower input = .ok true ↔
      ∃ j q, j ≤ input.length ∧ OpR (r.prog.ctx Env.std.lower input) r.prog.op j q) ∧
    ((¬ ∃ j q, j ≤ input.length ∧ OpR (r.prog.ctx Env.std.lower input) r.prog.op j q) →
      r.prog.isMatch Env.std.lower input = .ok false) := by
  have hk := ex_new.1
  rw [h] at hk
  simp only [Bool.and_eq_true, Bool.not_eq_true'] at hk
  obtain ⟨⟨⟨⟨k1, k2⟩, k3⟩, _⟩, _⟩ := hk
  exact Rx.Clean4Api.api_clean4_isMatch_iff_std_cs exPat [] false {} r rfl h ex_noSat rfl k1 k2 k3
    (fun hl => by cases hl) input hsv hlen

/-- C02 / shortcuts on-off / `GoodFind` instantiated (`api_clean4_match_is_leftmost_first_std_cs`,
    `api_clean4_opt_eq_noopt_std_cs`, `api_clean4_goodFind_std_cs`) -/
example (r : Regex) (h : Regex.new Env.std exPat [] false true = .ok r)
    (input : List Nat) (hsv : ScalarInput input) (hlen : input.length < usizeMax) :
    (∀ st', matchesFrom (r.prog.ctx Env.std.lower input) r.prog 0 {} = (true, st') →
      ∃ j n, getParenStart st' 0 = some j ∧ getParenEnd st' 0 = some n ∧
        (enum4 (r.prog.ctx Env.std.lower input) r.prog.op j).head? = some n ∧
        ∀ k q, k < j → ¬ OpR (r.prog.ctx Env.std.lower input) r.prog.op k q) ∧
    (matchesFrom (r.prog.ctx Env.std.lower input) r.prog 0 {}).1 =
      (matchesNaive (r.prog.ctx Env.std.lower input) r.prog.op 0 {}).1 ∧
    C04.GoodFind (r.prog.matcher Env.std.lower input) input.length (fun st => st.panic = none) := by
  have hk := ex_new.1
  rw [h] at hk
  simp only [Bool.and_eq_true, Bool.not_eq_true'] at hk
  obtain ⟨⟨⟨⟨k1, k2⟩, k3⟩, k4⟩, _⟩ := hk
  refine ⟨fun st' hm => ?_, ?_, ?_⟩
  · obtain ⟨j, n, a1, a2, a3, _, _, _, _, a8⟩ :=
      Rx.Clean4Api.api_clean4_match_is_leftmost_first_std_cs exPat [] false {} r rfl h ex_noSat rfl k1 k2 k3
        (fun hl => by cases hl) input hsv hlen 0 (Nat.zero_le _) {} st' rfl hm
    exact ⟨j, n, a1, a2, a3, fun k q hk => a8 k q (Nat.zero_le _) hk⟩
  · exact (Rx.Clean4Api.api_clean4_opt_eq_noopt_std_cs exPat [] false {} r rfl h ex_noSat rfl k1 k2 k3
      (fun hl => by cases hl) input hsv hlen 0 (Nat.zero_le _) {} {} rfl rfl).1
  · exact Rx.Clean4Api.api_clean4_goodFind_std_cs exPat [] false {} r rfl h ex_noSat rfl k1 k2 k3
      (fun hl => by cases hl) k4 input hsv hlen

/-- the computed answers: on "xabcc" `is_match`, span (1, 4) = leftmost start, SHORTEST end, `enum4` from 1 is
    [4, 5]; on "xabcc-cc" the state-free span list is [(1, 4), (6, 8)], `tokenize` gives "x", "c-", "" and
    `replace_all` with "R" gives "xRc-R" -/
theorem ex_computed :
    (match Regex.new Env.std exPat [] false true with
     | .ok r => (r.prog.isMatch Env.std.lower exInput == .ok true) &&
         (getParenStart (matchesFrom (r.prog.ctx Env.std.lower exInput) r.prog 0 {}).2 0 == some 1) &&
         (getParenEnd (matchesFrom (r.prog.ctx Env.std.lower exInput) r.prog 0 {}).2 0 == some 4) &&
         (enum4 (r.prog.ctx Env.std.lower exInput) r.prog.op 1 == [4, 5]) &&
         (spans r Env.std.lower exInput2 == [(1, 4), (6, 8)]) &&
         (r.tokenize Env.std.lower exInput2 100 == .ok ([[120], [99, 45], []], false)) &&
         (r.replaceAll Env.std.lower exInput2 [82] == .ok [120, 82, 99, 45, 82])
     | _ => false) = true := by decide +kernel

/-- the generic theorems instantiated on "xabcc-cc": the scan sees exactly the state-free span list, the gate
    bit is semantic, `tokenize` / `replace_all` return what the specifications say, `analyze` is total -/
example (r : Regex) (h : Regex.new Env.std exPat [] false true = .ok r) :
    C04.spanPairs (C04.spansOf (r.prog.matcher Env.std.lower exInput2) exInput2.length (exInput2.length + 2) 0 {}) =
      spans r Env.std.lower exInput2 ∧
    (¬ ∃ q, OpR (r.prog.ctx Env.std.lower []) r.prog.op 0 q) ∧
    r.tokenize Env.std.lower exInput2 100 = .ok (pieces exInput2 0 (spans r Env.std.lower exInput2), false) ∧
    r.replaceAll Env.std.lower exInput2 [82] =
      .ok (joinWith [82] (pieces exInput2 0 (spans r Env.std.lower exInput2))) ∧
    ((∃ es more, r.analyze Env.std.lower exInput2 100 = .ok (es, more)) ∨
      r.analyze Env.std.lower exInput2 100 = .err .matchesEmptyString ∨
      r.analyze Env.std.lower exInput2 100 = .panic panicAnalyze ∨
      r.analyze Env.std.lower exInput2 100 = .panic panicNesting) := by
  obtain ⟨R, hn⟩ := ex_regex r h
  have G : GoodInput Env.std {} exInput2 := goodInput_std_cs rfl ex_scalar (by decide)
  have G0 : GoodInput Env.std {} [] := goodInput_std_cs rfl (fun c hc => by cases hc) (by decide)
  refine ⟨scan_sees_spans R hn G, ?_, api4_tokenize_spec R hn G (by decide) 100 (by decide),
    api4_replace_plain R hn G [82] (by decide), api4_analyze_total R G 100⟩
  intro he
  have := (api4_gate_iff R G0).2 he
  rw [hn] at this
  cases this

/-- `api4_analyze_spec`: its hypothesis (an `.ok` answer) is what `analyze` returns here -/
example (r : Regex) (h : Regex.new Env.std exPat [] false true = .ok r) :
    ∃ es more, r.analyze Env.std.lower exInput2 100 = .ok (es, more) ∧
      ∃ L : List (Nat × Nat × List MEntry),
        L.map (fun x => (x.1, x.2.1)) = spans r Env.std.lower exInput2 ∧ es = entries exInput2 0 L ∧ more = false := by
  obtain ⟨R, hn⟩ := ex_regex r h
  have G : GoodInput Env.std {} exInput2 := goodInput_std_cs rfl ex_scalar (by decide)
  have hk : (match Regex.new Env.std exPat [] false true with
     | .ok r => (match r.analyze Env.std.lower exInput2 100 with | .ok _ => true | _ => false)
     | _ => false) = true := by decide +kernel
  rw [h] at hk
  have hk' : (match r.analyze Env.std.lower exInput2 100 with | .ok _ => true | _ => false) = true := hk
  cases ha : r.analyze Env.std.lower exInput2 100 with
  | ok x =>
    obtain ⟨es, more⟩ := x
    exact ⟨es, more, rfl, api4_analyze_spec R hn G 100 (by decide) es more ha⟩
  | _ => rw [ha] at hk'; cases hk'

/-- the predicted right-hand side of C01 agrees with the computed answer -/
theorem ex_member (r : Regex) (h : Regex.new Env.std exPat [] false true = .ok r) :
    ∃ j q, j ≤ exInput.length ∧ OpR (r.prog.ctx Env.std.lower exInput) r.prog.op j q := by
  have hk := ex_computed
  rw [h] at hk
  simp only [Bool.and_eq_true, beq_iff_eq] at hk
  have hsv : ScalarInput exInput := by
    intro c hc
    simp only [exInput, Rx.Clean4.exInput, List.mem_cons, List.not_mem_nil, or_false] at hc
    rcases hc with rfl | rfl | rfl | rfl | rfl <;> decide
  exact ((ex_isMatch_iff exInput hsv (by decide) r h).1).1 hk.1.1.1.1.1.1

end example_

end Rx.ApiGeneric.Clean4Api
