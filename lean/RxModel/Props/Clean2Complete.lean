/-
  Props/Clean2Complete — the search-loop theorems (Props/SearchComplete) instantiated on the clean
  fragment ENLARGED by the optimiser's `UnambiguousRepeat` (Spec/Enum2, Props/Clean2).  This covers
  the optimised programs of patterns such as `a*b`, `[0-9]+x`, `a*b(c|d)+e`, `a*$`, `a*`.

  For `pr := mkProgram pat op mp fl false`, `ctx := pr.ctx lower input` the hypotheses are
      decidable, about the tree:  `cleanProg2 env fl.caseBlind fl.multiLine op`, `wfOp op`,
                                  `C08.noEmptyAtoms op`, `clsCanonB op`, (`C02.capsPos op` for spans)
      about the data:             `InputOKFor env fl lower input` — case data adequate IF the program is
                                  case-blind (vacuous otherwise: the `_cs` corollaries), closures are
                                  code points, the input consists of scalar values; `input.length < usizeMax`.

    1  `completeAt_clean2'`, `pres_completeAt2'`   the engine test is complete on the main tree and on
       every precondition tree.  `add_precondition` records for `.unamb x 1 m` the node itself
       (`completeAt_unambLeaf`: a standalone maximal-munch repeat over one character is complete for
       EXISTENCE), for `.unamb x n m`, n ≥ 2, the general repeat `rep 0 x n n true` as before.
    2  `clean2_isMatch_iff` / `clean2_isMatch_false`     C01 both directions, never panic / diverge
    3  `clean2_match_is_leftmost_first`                  C02: least start; end = `(enum2 …).head?`
    4  `clean2_opt_eq_noopt` / `clean2_opt_eq_bare`      shortcuts on/off, SAME tree: Boolean, start, end
    5  `clean2_opt_eq_unopt`   the optimised tree `op' = optimize env fl op` against the UN-optimised
       tree `op` (which has `gfixed`/`rfixed` where `op'` has `.unamb`): same Boolean, same START.
       The END is equal as well: Props/Clean2End `clean2_opt_eq_unopt_full`.
    6  non-vacuity: the model's compiler output for `a*b(c|d)+e`.
-/
import RxModel.Proofs.Clean2SearchLemmas
import RxModel.Props.CleanComplete
namespace Rx.Clean2Complete
open Rx Rx.SearchComplete
open Rx.C08 (noEmptyAtoms)

/-! ## 1. completeness of the engine test -/

theorem completeAt_clean2' (env : Env) (pat : List Nat) (op : Op) (mp : Nat) (fl : CFlags)
    (lower : Nat → Nat) (input : List Nat) (hI : InputOKFor env fl lower input)
    (hc : cleanProg2 env fl.caseBlind fl.multiLine op = true) (hwf : wfOp op = true)
    (hne : noEmptyAtoms op = true) (hcan : clsCanonB op = true) :
    CompleteAt ((mkProgram pat op mp fl false).ctx lower input) (mkProgram pat op mp fl false).op :=
  prog_completeAt2 env pat op mp fl lower input hI hc hwf hne hcan

/-- every precondition tree is of a shape on which the engine test is complete -/
theorem pres_completeAt2' (env : Env) (pat : List Nat) (op : Op) (mp : Nat) (fl : CFlags) (ctx : Ctx)
    (hc : cleanProg2 env fl.caseBlind fl.multiLine op = true) (hwf : wfOp op = true)
    (hne : noEmptyAtoms op = true) :
    ∀ q ∈ (mkProgram pat op mp fl false).pres, CompleteAt ctx q.op :=
  pres_completeAt2 pat op mp fl false ctx (Clean2.cleanProg2_shape env _ _ op hc) hwf hne

/-- the main tree of the program IS the tree handed to `ReProgram::new` (no general repeat to number) -/
theorem prog_op (env : Env) (pat : List Nat) (op : Op) (mp : Nat) (fl : CFlags) (hb : Bool)
    (hc : cleanProg2 env fl.caseBlind fl.multiLine op = true) : (mkProgram pat op mp fl hb).op = op :=
  mkProgram_op_shape2 pat op mp fl hb (Clean2.cleanProg2_shape env _ _ op hc)

/-! ## 2. C01 in both directions -/

theorem clean2_isMatch_ok (env : Env) (pat : List Nat) (op : Op) (mp : Nat) (fl : CFlags)
    (lower : Nat → Nat) (input : List Nat) (hI : InputOKFor env fl lower input)
    (hc : cleanProg2 env fl.caseBlind fl.multiLine op = true) (hwf : wfOp op = true)
    (hne : noEmptyAtoms op = true) (hcan : clsCanonB op = true) (hlen : input.length < usizeMax) :
    ∃ b, (mkProgram pat op mp fl false).isMatch lower input = .ok b ∧
      (b = true ↔ ∃ j q, j ≤ input.length ∧
        OpR ((mkProgram pat op mp fl false).ctx lower input) (mkProgram pat op mp fl false).op j q) := by
  have hs := Clean2.cleanProg2_shape env _ _ op hc
  exact isMatch_eq pat op mp fl lower input hwf (Clean2.shape2_noBackref op hs) hne
    (Clean2.shape2_smallMin _ op hs hne) hlen
    (prog_completeAt2 env pat op mp fl lower input hI hc hwf hne hcan)
    (pres_completeAt2 pat op mp fl false _ hs hwf hne)

theorem clean2_isMatch_iff (env : Env) (pat : List Nat) (op : Op) (mp : Nat) (fl : CFlags)
    (lower : Nat → Nat) (input : List Nat) (hI : InputOKFor env fl lower input)
    (hc : cleanProg2 env fl.caseBlind fl.multiLine op = true) (hwf : wfOp op = true)
    (hne : noEmptyAtoms op = true) (hcan : clsCanonB op = true) (hlen : input.length < usizeMax) :
    (mkProgram pat op mp fl false).isMatch lower input = .ok true ↔
      ∃ j q, j ≤ input.length ∧
        OpR ((mkProgram pat op mp fl false).ctx lower input) (mkProgram pat op mp fl false).op j q := by
  obtain ⟨b, hb, hiff⟩ := clean2_isMatch_ok env pat op mp fl lower input hI hc hwf hne hcan hlen
  rw [hb]
  constructor
  · intro h
    simp only [Out.ok.injEq] at h
    exact hiff.1 h
  · intro h
    rw [hiff.2 h]

theorem clean2_isMatch_false (env : Env) (pat : List Nat) (op : Op) (mp : Nat) (fl : CFlags)
    (lower : Nat → Nat) (input : List Nat) (hI : InputOKFor env fl lower input)
    (hc : cleanProg2 env fl.caseBlind fl.multiLine op = true) (hwf : wfOp op = true)
    (hne : noEmptyAtoms op = true) (hcan : clsCanonB op = true) (hlen : input.length < usizeMax)
    (hno : ¬ ∃ j q, j ≤ input.length ∧
        OpR ((mkProgram pat op mp fl false).ctx lower input) (mkProgram pat op mp fl false).op j q) :
    (mkProgram pat op mp fl false).isMatch lower input = .ok false := by
  obtain ⟨b, hb, hiff⟩ := clean2_isMatch_ok env pat op mp fl lower input hI hc hwf hne hcan hlen
  rw [hb]
  cases b with
  | false => rfl
  | true => exact absurd (hiff.1 rfl) hno

/-! ## 3. C02: leftmost start, first end of the engine's enumeration -/

theorem clean2_matchesFrom_iff (env : Env) (pat : List Nat) (op : Op) (mp : Nat) (fl : CFlags)
    (lower : Nat → Nat) (input : List Nat) (hI : InputOKFor env fl lower input)
    (hc : cleanProg2 env fl.caseBlind fl.multiLine op = true) (hwf : wfOp op = true)
    (hne : noEmptyAtoms op = true) (hcan : clsCanonB op = true) (hlen : input.length < usizeMax)
    (i : Nat) (hi : i ≤ input.length) (st : St) (hst : st.panic = none) :
    ((matchesFrom ((mkProgram pat op mp fl false).ctx lower input) (mkProgram pat op mp fl false) i st).1 = true ↔
      ∃ j q, i ≤ j ∧ j ≤ input.length ∧
        OpR ((mkProgram pat op mp fl false).ctx lower input) (mkProgram pat op mp fl false).op j q) ∧
    (matchesFrom ((mkProgram pat op mp fl false).ctx lower input) (mkProgram pat op mp fl false) i st).2.panic = none :=
  let h := clean2_outcome env pat op mp fl lower input hI hc hwf hne hcan hlen i hi st hst
  ⟨h.iff, h.clean⟩

/-- when `matches(i)` succeeds, group 0 of the resulting state is `(j, n)`: `j` the LEAST start `≥ i`
    from which the language has any member, `n` the FIRST element of `enum2` from `j` (ordered choice,
    greedy-longest, reluctant-shortest, maximal munch at every `.unamb`) -/
theorem clean2_match_is_leftmost_first (env : Env) (pat : List Nat) (op : Op) (mp : Nat) (fl : CFlags)
    (lower : Nat → Nat) (input : List Nat) (hI : InputOKFor env fl lower input)
    (hc : cleanProg2 env fl.caseBlind fl.multiLine op = true) (hwf : wfOp op = true)
    (hne : noEmptyAtoms op = true) (hcan : clsCanonB op = true) (hcp : C02.capsPos op = true)
    (hlen : input.length < usizeMax)
    (i : Nat) (hi : i ≤ input.length) (st st' : St) (hst : st.panic = none)
    (h : matchesFrom ((mkProgram pat op mp fl false).ctx lower input) (mkProgram pat op mp fl false) i st
      = (true, st')) :
    ∃ j n, getParenStart st' 0 = some j ∧ getParenEnd st' 0 = some n ∧
      (enum2 ((mkProgram pat op mp fl false).ctx lower input) (mkProgram pat op mp fl false).op j).head? = some n ∧
      i ≤ j ∧ j ≤ n ∧ n ≤ input.length ∧
      OpR ((mkProgram pat op mp fl false).ctx lower input) (mkProgram pat op mp fl false).op j n ∧
      ∀ k q, i ≤ k → k < j →
        ¬ OpR ((mkProgram pat op mp fl false).ctx lower input) (mkProgram pat op mp fl false).op k q := by
  have hs := Clean2.cleanProg2_shape env _ _ op hc
  have hop := mkProgram_op_shape2 pat op mp fl false hs
  have ho := clean2_outcome env pat op mp fl lower input hI hc hwf hne hcan hlen i hi st hst
  have := ho.span_clean2 (by rw [hop]; exact hs) (by rw [hop]; exact hwf) (by rw [hop]; exact hne)
    (by rw [hop]; exact hcp) (by rw [h])
  rw [h] at this
  exact this

/-! ## 4. shortcuts on / off on the SAME tree: full result equality -/

theorem clean2_opt_eq_noopt (env : Env) (pat : List Nat) (op : Op) (mp : Nat) (fl : CFlags)
    (lower : Nat → Nat) (input : List Nat) (hI : InputOKFor env fl lower input)
    (hc : cleanProg2 env fl.caseBlind fl.multiLine op = true) (hwf : wfOp op = true)
    (hne : noEmptyAtoms op = true) (hcan : clsCanonB op = true) (hcp : C02.capsPos op = true)
    (hlen : input.length < usizeMax)
    (i : Nat) (hi : i ≤ input.length) (st1 st2 : St) (h1 : st1.panic = none) (h2 : st2.panic = none) :
    let pr := mkProgram pat op mp fl false
    let ctx := pr.ctx lower input
    (matchesFrom ctx pr i st1).1 = (matchesNaive ctx pr.op i st2).1 ∧
    ((matchesFrom ctx pr i st1).1 = true →
      getParenStart (matchesFrom ctx pr i st1).2 0 = getParenStart (matchesNaive ctx pr.op i st2).2 0 ∧
      getParenEnd (matchesFrom ctx pr i st1).2 0 = getParenEnd (matchesNaive ctx pr.op i st2).2 0) := by
  intro pr ctx
  have hs := Clean2.cleanProg2_shape env _ _ op hc
  have hop := mkProgram_op_shape2 pat op mp fl false hs
  exact (clean2_outcome env pat op mp fl lower input hI hc hwf hne hcan hlen i hi st1 h1).agree_clean2
    (by rw [hop]; exact hs) (by rw [hop]; exact hwf) (by rw [hop]; exact hne) (by rw [hop]; exact hcp)
    (clean2_naive_outcome env pat op mp fl lower input hI hc hwf hne hcan i st2 h2)

/-- the program against the bare program (no shortcuts) over the same tree -/
theorem clean2_opt_eq_bare (env : Env) (pat : List Nat) (op : Op) (mp : Nat) (fl : CFlags)
    (lower : Nat → Nat) (input : List Nat) (hI : InputOKFor env fl lower input)
    (hc : cleanProg2 env fl.caseBlind fl.multiLine op = true) (hwf : wfOp op = true)
    (hne : noEmptyAtoms op = true) (hcan : clsCanonB op = true) (hcp : C02.capsPos op = true)
    (hlen : input.length < usizeMax)
    (i : Nat) (hi : i ≤ input.length) (st1 st2 : St) (h1 : st1.panic = none) (h2 : st2.panic = none) :
    let pr := mkProgram pat op mp fl false
    let bare := mkBareProgram pat op mp fl false
    (matchesFrom (pr.ctx lower input) pr i st1).1 = (matchesFrom (bare.ctx lower input) bare i st2).1 ∧
    ((matchesFrom (pr.ctx lower input) pr i st1).1 = true →
      getParenStart (matchesFrom (pr.ctx lower input) pr i st1).2 0 =
        getParenStart (matchesFrom (bare.ctx lower input) bare i st2).2 0 ∧
      getParenEnd (matchesFrom (pr.ctx lower input) pr i st1).2 0 =
        getParenEnd (matchesFrom (bare.ctx lower input) bare i st2).2 0) := by
  intro pr bare
  obtain ⟨_, hbc⟩ := bare_same pat op mp fl false lower input
  obtain ⟨hop, _⟩ := WF.mkProgram_op pat op mp fl false
  have hb : matchesFrom (bare.ctx lower input) bare i st2 = matchesNaive (pr.ctx lower input) pr.op i st2 := by
    show matchesFrom ((mkBareProgram pat op mp fl false).ctx lower input) (mkBareProgram pat op mp fl false) i st2
      = matchesNaive ((mkProgram pat op mp fl false).ctx lower input) (mkProgram pat op mp fl false).op i st2
    rw [hbc, hop]
    exact bare_eq_naive pat op mp fl false ((mkProgram pat op mp fl false).ctx lower input) i hi st2
  rw [hb]
  exact clean2_opt_eq_noopt env pat op mp fl lower input hI hc hwf hne hcan hcp hlen i hi st1 st2 h1 h2

/-! ## 5. the optimised tree against the UN-optimised tree

  `compileCore … true` builds `mkProgram pat (optimize env fl op) …`, the verification hook
  (`compileCore … false`) builds `mkBareProgram pat op …` from the parser's tree `op`, which has
  `gfixed` / `rfixed` where the optimised tree has `.unamb`: two different trees with the same language
  (`C08.optimize_preserves`), on both of which the engine test is complete — `op` is in the OLD fragment
  (Props/CleanComplete), `optimize env fl op` in the new one. -/

/-- the context of a program depends on the flags only -/
theorem ctx_eq (pat : List Nat) (op op' : Op) (mp : Nat) (fl : CFlags) (hb : Bool)
    (lower : Nat → Nat) (input : List Nat) :
    (mkProgram pat op mp fl hb).ctx lower input = (mkProgram pat op' mp fl hb).ctx lower input := by
  obtain ⟨_, a1, a2, a3, a4, _⟩ := mkProgram_shape pat op mp fl hb
  obtain ⟨_, b1, b2, b3, b4, _⟩ := mkProgram_shape pat op' mp fl hb
  unfold Prog.ctx
  rw [a1, a2, a3, a4, b1, b2, b3, b4]

/-- two searches with the right outcome on two trees with the same language agree on the Boolean and
    on the start of group 0 -/
theorem Outcome.agree_lang {ctx : Ctx} {o1 o2 : Op} (hw1 : wfOp o1 = true) (hw2 : wfOp o2 = true)
    (hc1 : C02.capsPos o1 = true) (hc2 : C02.capsPos o2 = true)
    (hlang : ∀ p q, p ≤ ctx.len → (OpR ctx o1 p q ↔ OpR ctx o2 p q))
    {i : Nat} {r1 r2 : Bool × St} (h1 : Outcome ctx o1 i r1) (h2 : Outcome ctx o2 i r2) :
    r1.1 = r2.1 ∧ (r1.1 = true → getParenStart r1.2 0 = getParenStart r2.2 0) := by
  have hb : r1.1 = r2.1 := by
    rw [Bool.eq_iff_iff, h1.iff, h2.iff]
    constructor
    · rintro ⟨j, q, a, b, c⟩; exact ⟨j, q, a, b, (hlang j q b).1 c⟩
    · rintro ⟨j, q, a, b, c⟩; exact ⟨j, q, a, b, (hlang j q b).2 c⟩
  refine ⟨hb, fun ht => ?_⟩
  obtain ⟨j1, n1, hs1, _, a1, b1, c1, hm1, hl1⟩ := h1.leftmost hw1 hc1 ht
  obtain ⟨j2, n2, hs2, _, a2, b2, c2, hm2, hl2⟩ := h2.leftmost hw2 hc2 (hb ▸ ht)
  have : j1 = j2 := by
    rcases Nat.lt_trichotomy j1 j2 with h | h | h
    · exact absurd ((hlang j1 n1 (by omega)).1 hm1) (hl2 j1 n1 a1 h)
    · exact h
    · exact absurd ((hlang j2 n2 (by omega)).2 hm2) (hl1 j2 n2 a2 h)
  rw [hs1, hs2, this]

/-- optimised program vs. the bare program of the UN-optimised tree: the same Boolean and, on success,
    the same start of group 0.  `op` is the parser's tree (old fragment), `optimize env fl op` must be in
    the new fragment (decidable; `Clean2Opt.optimize_clean2` derives it from `cleanOp op` for trees
    whose only EndProgram closes the root sequence; Props/Clean2End removes the hypothesis). -/
theorem clean2_opt_eq_unopt (env : Env) (pat : List Nat) (op : Op) (mp : Nat) (fl : CFlags)
    (lower : Nat → Nat) (input : List Nat) (hI : InputOKFor env fl lower input)
    (hc0 : cleanOp op = true) (hwf0 : wfOp op = true) (hcp0 : C02.capsPos op = true)
    (hc : cleanProg2 env fl.caseBlind fl.multiLine (optimize env fl op) = true)
    (hne : noEmptyAtoms (optimize env fl op) = true) (hcan : clsCanonB (optimize env fl op) = true)
    (hlen : input.length < usizeMax)
    (i : Nat) (hi : i ≤ input.length) (st1 st2 : St) (h1 : st1.panic = none) (h2 : st2.panic = none) :
    let pr := mkProgram pat (optimize env fl op) mp fl false
    let bare := mkBareProgram pat op mp fl false
    (matchesFrom (pr.ctx lower input) pr i st1).1 = (matchesFrom (bare.ctx lower input) bare i st2).1 ∧
    ((matchesFrom (pr.ctx lower input) pr i st1).1 = true →
      getParenStart (matchesFrom (pr.ctx lower input) pr i st1).2 0 =
        getParenStart (matchesFrom (bare.ctx lower input) bare i st2).2 0) := by
  intro pr bare
  have hwf := WF.optimize_wf env fl op hwf0
  have hcp := WF.optimize_caps env fl op hcp0
  have hs := Clean2.cleanProg2_shape env _ _ _ hc
  have hop := mkProgram_op_shape2 pat (optimize env fl op) mp fl false hs
  -- the bare program runs the naive search on the numbered un-optimised tree, under the same context
  obtain ⟨_, hbc⟩ := bare_same pat op mp fl false lower input
  have hctx : bare.ctx lower input = pr.ctx lower input := by
    show (mkBareProgram pat op mp fl false).ctx lower input = _
    rw [hbc]; exact ctx_eq pat op _ mp fl false lower input
  have hb : matchesFrom (bare.ctx lower input) bare i st2 =
      matchesNaive (pr.ctx lower input) (numberReps op 0).1 i st2 := by
    rw [hctx]
    exact bare_eq_naive pat op mp fl false (pr.ctx lower input) i hi st2
  rw [hb]
  have ho1 := clean2_outcome env pat (optimize env fl op) mp fl lower input hI hc hwf hne hcan hlen i hi st1 h1
  have hcN : cleanOp (numberReps op 0).1 = true := by rw [cleanOp_numberReps]; exact hc0
  have hwN : wfOp (numberReps op 0).1 = true := by rw [WF.wfOp_numberReps]; exact hwf0
  have hcpN : C02.capsPos (numberReps op 0).1 = true := by rw [WF.capsPos_numberReps]; exact hcp0
  obtain ⟨_, _, _, _, hbr⟩ := mkProgram_ctx pat (optimize env fl op) mp fl false lower input
  have ho2 : Outcome (pr.ctx lower input) (numberReps op 0).1 i
      (matchesNaive (pr.ctx lower input) (numberReps op 0).1 i st2) :=
    matchesNaive_outcome (completeAt_clean _ _ hcN hwN) (quiet_clean _ hbr _ hcN hwN) i st2 h2
  have hlang : ∀ p q, p ≤ (pr.ctx lower input).len →
      (OpR (pr.ctx lower input) pr.op p q ↔ OpR (pr.ctx lower input) (numberReps op 0).1 p q) := by
    intro p q hp
    show OpR _ (mkProgram pat (optimize env fl op) mp fl false).op p q ↔ _
    rw [hop, C08.numberReps_preserves]
    exact C08.optimize_preserves env fl _ op hwf0 p q hp
  have hw1 : wfOp pr.op = true := by
    show wfOp (mkProgram pat (optimize env fl op) mp fl false).op = true
    rw [hop]; exact hwf
  have hcp1 : C02.capsPos pr.op = true := by
    show C02.capsPos (mkProgram pat (optimize env fl op) mp fl false).op = true
    rw [hop]; exact hcp
  exact Outcome.agree_lang hw1 hwN hcp1 hcpN hlang ho1 ho2

/-- hence the two `is_match` answers coincide -/
theorem clean2_isMatch_eq_unopt (env : Env) (pat : List Nat) (op : Op) (mp : Nat) (fl : CFlags)
    (lower : Nat → Nat) (input : List Nat) (hI : InputOKFor env fl lower input)
    (hc0 : cleanOp op = true) (hwf0 : wfOp op = true) (hcp0 : C02.capsPos op = true)
    (hne0 : noEmptyAtoms op = true)
    (hc : cleanProg2 env fl.caseBlind fl.multiLine (optimize env fl op) = true)
    (hcan : clsCanonB (optimize env fl op) = true) (hlen : input.length < usizeMax) :
    (mkProgram pat (optimize env fl op) mp fl false).isMatch lower input =
      (mkBareProgram pat op mp fl false).isMatch lower input := by
  have hne := CleanComplete.optimize_noEmptyAtoms env fl op hne0
  have h := clean2_opt_eq_unopt env pat op mp fl lower input hI hc0 hwf0 hcp0 hc hne hcan hlen
    0 (Nat.zero_le _) {} {} rfl rfl
  have hwf := WF.optimize_wf env fl op hwf0
  have hcl1 := (clean2_outcome env pat (optimize env fl op) mp fl lower input hI hc hwf hne hcan hlen
    0 (Nat.zero_le _) {} rfl).clean
  obtain ⟨_, hbc⟩ := bare_same pat op mp fl false lower input
  obtain ⟨hop, _⟩ := WF.mkProgram_op pat op mp fl false
  have hcl2 : (matchesFrom ((mkBareProgram pat op mp fl false).ctx lower input)
      (mkBareProgram pat op mp fl false) 0 {}).2.panic = none := by
    rw [hbc, bare_eq_naive pat op mp fl false _ 0 (Nat.zero_le _) {}, ← hop]
    exact (clean_naive_outcome pat op mp fl lower input hc0 hwf0 0 {} rfl).clean
  have hb := h.1
  unfold Prog.isMatch
  generalize matchesFrom ((mkProgram pat (optimize env fl op) mp fl false).ctx lower input)
    (mkProgram pat (optimize env fl op) mp fl false) 0 {} = r1 at *
  generalize matchesFrom ((mkBareProgram pat op mp fl false).ctx lower input) (mkBareProgram pat op mp fl false) 0 {} = r2 at *
  obtain ⟨m1, s1⟩ := r1
  obtain ⟨m2, s2⟩ := r2
  simp only at hcl1 hcl2 hb ⊢
  rw [hcl1, hcl2, hb]

/-! ### the END of the un-optimised program

  The optimised program reports `(enum2 ctx (optimize env fl op) j).head?`, the un-optimised one
  `(enum ctx op j).head?`, both from the same least start `j`.  They coincide: Props/Clean2End proves
  `optimize_enum_eq` (sub-trees: the two enumerations are equal AS LISTS — at a justified `.unamb` every
  count but the maximal one is followed by nothing), `optimize_enum_head` (whole programs: the same head;
  at the final `x{mn,mx} · EndProgram` the lists differ, `[m*]` against `[m*, m*-1, …]`) and
  `clean2_opt_eq_unopt_full` (Boolean, start AND end), with hypotheses on the parser's tree only. -/

/-! ## case-sensitive programs: no hypothesis on the case tables -/

theorem _root_.Rx.SearchComplete.InputOKFor.of_caseSensitive {env : Env} {fl : CFlags} {lower : Nat → Nat} {input : List Nat}
    (hcb : fl.caseBlind = false) (hce : ∀ a x, x ∈ env.closure a → x < cpLimit)
    (hin : ∀ c ∈ input, c < cpLimit) (hsc : ∀ c ∈ input, isSurrogate c = false) :
    InputOKFor env fl lower input :=
  ⟨fun h => (by rw [hcb] at h; cases h), hce, hin, hsc⟩

theorem clean2_isMatch_iff_cs (env : Env) (pat : List Nat) (op : Op) (mp : Nat) (fl : CFlags)
    (lower : Nat → Nat) (input : List Nat) (hcb : fl.caseBlind = false)
    (hce : ∀ a x, x ∈ env.closure a → x < cpLimit)
    (hin : ∀ c ∈ input, c < cpLimit) (hsc : ∀ c ∈ input, isSurrogate c = false)
    (hc : cleanProg2 env false fl.multiLine op = true) (hwf : wfOp op = true)
    (hne : noEmptyAtoms op = true) (hcan : clsCanonB op = true) (hlen : input.length < usizeMax) :
    (mkProgram pat op mp fl false).isMatch lower input = .ok true ↔
      ∃ j q, j ≤ input.length ∧
        OpR ((mkProgram pat op mp fl false).ctx lower input) (mkProgram pat op mp fl false).op j q :=
  clean2_isMatch_iff env pat op mp fl lower input (.of_caseSensitive hcb hce hin hsc)
    (by rw [hcb]; exact hc) hwf hne hcan hlen

theorem clean2_match_is_leftmost_first_cs (env : Env) (pat : List Nat) (op : Op) (mp : Nat) (fl : CFlags)
    (lower : Nat → Nat) (input : List Nat) (hcb : fl.caseBlind = false)
    (hce : ∀ a x, x ∈ env.closure a → x < cpLimit)
    (hin : ∀ c ∈ input, c < cpLimit) (hsc : ∀ c ∈ input, isSurrogate c = false)
    (hc : cleanProg2 env false fl.multiLine op = true) (hwf : wfOp op = true)
    (hne : noEmptyAtoms op = true) (hcan : clsCanonB op = true) (hcp : C02.capsPos op = true)
    (hlen : input.length < usizeMax)
    (i : Nat) (hi : i ≤ input.length) (st st' : St) (hst : st.panic = none)
    (h : matchesFrom ((mkProgram pat op mp fl false).ctx lower input) (mkProgram pat op mp fl false) i st
      = (true, st')) :
    ∃ j n, getParenStart st' 0 = some j ∧ getParenEnd st' 0 = some n ∧
      (enum2 ((mkProgram pat op mp fl false).ctx lower input) (mkProgram pat op mp fl false).op j).head? = some n ∧
      i ≤ j ∧ j ≤ n ∧ n ≤ input.length ∧
      OpR ((mkProgram pat op mp fl false).ctx lower input) (mkProgram pat op mp fl false).op j n ∧
      ∀ k q, i ≤ k → k < j →
        ¬ OpR ((mkProgram pat op mp fl false).ctx lower input) (mkProgram pat op mp fl false).op k q :=
  clean2_match_is_leftmost_first env pat op mp fl lower input (.of_caseSensitive hcb hce hin hsc)
    (by rw [hcb]; exact hc) hwf hne hcan hcp hlen i hi st st' hst h

end Rx.Clean2Complete
