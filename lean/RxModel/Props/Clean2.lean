/-
  Props/Clean2 — the clean fragment enlarged by the optimiser's `UnambiguousRepeat` (Spec/Enum2).

  `.unamb x mn mx` (x one literal / class) has the full language `x^k, mn ≤ k ≤ mx` but the engine
  yields only the maximal run.  What is proved, and for which trees:

    shape only  (`shape2`: clean + `.unamb` over one literal / class; nothing about what follows)
      a. `sem_seq_enum2`      the iterator yields EXACTLY `enum2 ctx op p`, under every consumer
      b. `enum2_sound`        every listed end is in the language
      e. `shape2_noBackref`, `shape2_smallMin`, `sem_noDiv2`, `first1_enum2`

    compositional fragment  (`cleanOp2`: every `.unamb` is an element of a sequence and is justified by
      `mn = mx`, by a following non-multi-line `$`, or by first sets disjoint from the NEXT element's)
      c1. `enum2_iff_OpR`     FULL equivalence: `enum2` lists exactly the language.  The language of
                              `.unamb x mn mx · next` has no member that does not use the maximal run
                              (`C08.disjoint_maxmunch_wf`), so nothing is lost — in particular every
                              tree WITHOUT `.unamb` and every justified sequence has the full property.

    whole programs  (`cleanProg2`: additionally `… · x{mn,mx} · EndProgram` at the end of the ROOT sequence)
      c2. `enum2_complete`    only the EXISTENCE form: if the language has a member from `p` then
                              `enum2 ctx op p ≠ []`.  (The full form is false there: `a*` on "aa" has the
                              ends 2,1,0; `enum2` — and the engine — list only 2.  See the examples.)
      d. `completeAt_clean2`  `CompleteAt ctx op`: what the search-loop theorems consume
         `matchAt_iff2`, `matchAt_end2`   `match_at` is a correct and complete test; on success the
                              recorded end is `(enum2 ctx op i).head?`

  Hypotheses besides the fragment: `wfOp`, `C08.noEmptyAtoms`, `clsCanonB` (all decidable, all hold of
  compiler output) and, for c/d only, `InputOK env ctx` = the hypotheses of `disjoint_maxmunch_wf`
  (case data adequate if case-blind; closures are code points; the input consists of scalar
  values).  `CaseOK Env.std` fails at U+0130, so the `_cs` corollaries specialise to case-sensitive
  matching, where that hypothesis is vacuous.
-/
import RxModel.Spec.Enum2
import RxModel.Proofs.Enum2Lemmas
import RxModel.Props.Clean
import RxModel.Proofs.SearchLemmas
namespace Rx.Clean2
open Rx Rx.SearchComplete
open Rx.C08 (noEmptyAtoms noEmptyAtomsL clsCanon clsCanonL CaseOK)

/-! ### a. the iterator yields exactly `enum2`, in order (shape only) -/

theorem sem_seq_enum2 (ctx : Ctx) (op : Op) (hs : shape2 op = true) (hwf : wfOp op = true)
    (hne : noEmptyAtoms op = true) (p : Nat) (hp : p ≤ ctx.len) (st : St) (_ : anySt st) :
    Step.Seq anySt (sem ctx op p st) (enum2 ctx op p) :=
  sem_ex2_op ctx op hs hwf hne p hp st

theorem sem_seq_enum2_of (I : St → Prop) (ctx : Ctx) (op : Op) (hs : shape2 op = true) (hwf : wfOp op = true)
    (hne : noEmptyAtoms op = true) (p : Nat) (hp : p ≤ ctx.len) (st : St) :
    Step.Seq I (sem ctx op p st) (enum2 ctx op p) :=
  (sem_ex2_op ctx op hs hwf hne p hp st).weaken

/-- the fragments have the shape -/
theorem cleanOp2_shape (env : Env) (cb ml : Bool) (op : Op) (h : cleanOp2 env cb ml op = true) :
    shape2 op = true :=
  shape_of_clean2 env cb ml op false [] h

theorem cleanProg2_shape (env : Env) (cb ml : Bool) (op : Op) (h : cleanProg2 env cb ml op = true) :
    shape2 op = true :=
  shape_of_cleanProg2 env cb ml op h

/-- the old fragment is inside the new one, and on it `enum2` is `enum` -/
theorem cleanOp2_of_cleanOp (env : Env) (cb ml : Bool) : (op : Op) → cleanOp op = true →
    cleanOp2 env cb ml op = true := by
  intro op h
  exact (go env cb ml).1 op h
where
  go (env : Env) (cb ml : Bool) :
      (∀ op, cleanOp op = true → cleanOp2F env cb ml false [] op = true) ∧
      (∀ ops, cleanOps ops = true → cleanAll2 env cb ml ops = true) ∧
      (∀ ops, cleanOps ops = true → cleanSeq2 env cb ml false ops = true) := by
    have hop : ∀ n (op : Op), sizeOf op ≤ n → cleanOp op = true → cleanOp2F env cb ml false [] op = true := by
      intro n
      induction n with
      | zero => intro op hsz; cases op <;> simp at hsz <;> omega
      | succ n ih =>
        have hall : ∀ (ops : List Op), sizeOf ops ≤ n → cleanOps ops = true →
            cleanAll2 env cb ml ops = true ∧ cleanSeq2 env cb ml false ops = true := by
          intro ops
          induction ops with
          | nil => intro _ _; exact ⟨rfl, rfl⟩
          | cons o os ihl =>
            intro hsz hc
            simp only [List.cons.sizeOf_spec] at hsz
            simp only [cleanOps, Bool.and_eq_true] at hc
            have h1 := ih o (by omega) hc.1
            obtain ⟨h2, h3⟩ := ihl (by omega) hc.2
            refine ⟨by simp only [cleanAll2, h1, h2, Bool.and_self], ?_⟩
            simp only [cleanSeq2, Bool.and_eq_true]
            refine ⟨?_, h3⟩
            have hu : ¬ isUnamb o = true := by
              intro hu
              obtain ⟨x, mn, mx, rfl⟩ := isUnamb_true hu
              simp [cleanOp] at hc
            rw [cleanOp2F_irrel env cb ml false os o hu]; exact h1
        intro op hsz hc
        cases op with
        | bol | eol | nothing | endProgram | atom _ | cls _ => rfl
        | backref _ | rep _ _ _ _ _ | unamb _ _ _ => simp [cleanOp] at hc
        | capture g c =>
          simp only [Op.capture.sizeOf_spec] at hsz
          simp only [cleanOp] at hc
          simp only [cleanOp2F]; exact ih c (by omega) hc
        | choice bs =>
          simp only [Op.choice.sizeOf_spec] at hsz
          simp only [cleanOp] at hc
          simp only [cleanOp2F]; exact (hall bs (by omega) hc).1
        | seq ops =>
          simp only [Op.seq.sizeOf_spec] at hsz
          simp only [cleanOp] at hc
          simp only [cleanOp2F]; exact (hall ops (by omega) hc).2
        | gfixed c mn mx len =>
          simp only [Op.gfixed.sizeOf_spec] at hsz
          simp only [cleanOp] at hc
          simp only [cleanOp2F]; exact ih c (by omega) hc
        | rfixed c mn mx len =>
          simp only [Op.rfixed.sizeOf_spec] at hsz
          simp only [cleanOp] at hc
          simp only [cleanOp2F]; exact ih c (by omega) hc
    have hall : ∀ (ops : List Op), cleanOps ops = true →
        cleanAll2 env cb ml ops = true ∧ cleanSeq2 env cb ml false ops = true := by
      intro ops
      induction ops with
      | nil => intro _; exact ⟨rfl, rfl⟩
      | cons o os ihl =>
        intro hc
        simp only [cleanOps, Bool.and_eq_true] at hc
        have h1 := hop _ o (Nat.le_refl _) hc.1
        obtain ⟨h2, h3⟩ := ihl hc.2
        refine ⟨by simp only [cleanAll2, h1, h2, Bool.and_self], ?_⟩
        simp only [cleanSeq2, Bool.and_eq_true]
        refine ⟨?_, h3⟩
        have hu : ¬ isUnamb o = true := by
          intro hu
          obtain ⟨x, mn, mx, rfl⟩ := isUnamb_true hu
          simp [cleanOp] at hc
        rw [cleanOp2F_irrel env cb ml false os o hu]; exact h1
    exact ⟨fun op h => hop _ op (Nat.le_refl _) h, fun ops h => (hall ops h).1, fun ops h => (hall ops h).2⟩

/-! ### b. soundness of the enumeration -/

theorem enum2_sound (ctx : Ctx) (op : Op) (hs : shape2 op = true) (hwf : wfOp op = true)
    (hne : noEmptyAtoms op = true) (p q : Nat) (hp : p ≤ ctx.len) (h : q ∈ enum2 ctx op p) :
    OpR ctx op p q :=
  enum2_sound_of_shape ctx op hs hwf hne hp h

/-! ### c1. the compositional fragment: full equivalence -/

theorem enum2_iff_OpR (env : Env) (ctx : Ctx) (hI : InputOK env ctx) (op : Op)
    (hc : cleanOp2 env ctx.caseBlind ctx.multiLine op = true) (hwf : wfOp op = true)
    (hne : noEmptyAtoms op = true) (hcan : clsCanonB op = true) (p q : Nat) (hp : p ≤ ctx.len) :
    q ∈ enum2 ctx op p ↔ OpR ctx op p q :=
  ⟨fun h => enum2_sound ctx op (cleanOp2_shape env _ _ op hc) hwf hne p q hp h,
   fun h => comp2_op env ctx hI op hc hwf hne (clsCanon_of_B op hcan) p q hp h⟩

/-! ### c2. whole programs: existence-completeness -/

/-- the key new fact: if the language has a member from `p`, the engine's enumeration is non-empty -/
theorem enum2_complete (env : Env) (ctx : Ctx) (hI : InputOK env ctx) (op : Op)
    (hc : cleanProg2 env ctx.caseBlind ctx.multiLine op = true) (hwf : wfOp op = true)
    (hne : noEmptyAtoms op = true) (hcan : clsCanonB op = true) (p : Nat) (hp : p ≤ ctx.len)
    (h : ∃ q, OpR ctx op p q) : enum2 ctx op p ≠ [] := by
  obtain ⟨q, hq⟩ := h
  have hcc := clsCanon_of_B op hcan
  by_cases hseq : ∃ ops, op = .seq ops
  · obtain ⟨ops, rfl⟩ := hseq
    simp only [cleanProg2] at hc
    simp only [wfOp, Bool.and_eq_true] at hwf
    simp only [noEmptyAtoms] at hne
    simp only [clsCanon] at hcc
    simp only [OpR] at hq
    simp only [enum2]
    exact exist2_seq env ctx hI ops hc hwf.2 hne hcc p q hp hq
  · have hc' : cleanOp2 env ctx.caseBlind ctx.multiLine op = true := by
      cases op with
      | seq ops => exact absurd ⟨ops, rfl⟩ hseq
      | _ => exact hc
    intro hnil
    have := comp2_op env ctx hI op hc' hwf hne hcc p q hp hq
    rw [hnil] at this
    cases this

/-- the special case the task names: a well-formed root SEQUENCE -/
theorem enum2_complete_seq (env : Env) (ctx : Ctx) (hI : InputOK env ctx) (ops : List Op)
    (hc : cleanSeq2 env ctx.caseBlind ctx.multiLine true ops = true) (hwf : wfOp (.seq ops) = true)
    (hne : noEmptyAtoms (.seq ops) = true) (hcan : clsCanonB (.seq ops) = true) (p : Nat) (hp : p ≤ ctx.len)
    (h : ∃ q, OpR ctx (.seq ops) p q) : enum2 ctx (.seq ops) p ≠ [] :=
  enum2_complete env ctx hI (.seq ops) hc hwf hne hcan p hp h

/-- the compositional fragment is contained in the program fragment -/
theorem cleanProg2_of_cleanOp2 (env : Env) (cb ml : Bool) (op : Op) (h : cleanOp2 env cb ml op = true) :
    cleanProg2 env cb ml op = true := by
  cases op with
  | seq ops =>
    simp only [cleanProg2]
    simp only [cleanOp2, cleanOp2F] at h
    exact mono ops h
  | _ => exact h
where
  justMono (x : Op) (F : List Op) (h : unambJust env cb ml false x F = true) :
      unambJust env cb ml true x F = true := by
    cases F with
    | nil => exact h
    | cons nxt rest =>
      simp only [unambJust, Bool.or_eq_true, Bool.and_eq_true] at h ⊢
      rcases h with (h | h) | h
      · exact .inl (.inl h)
      · exact absurd h.2 (by simp)
      · exact .inr h
  mono : ∀ (ops : List Op), cleanSeq2 env cb ml false ops = true → cleanSeq2 env cb ml true ops = true
    | [], _ => rfl
    | o :: os, h => by
      simp only [cleanSeq2, Bool.and_eq_true] at h ⊢
      refine ⟨?_, mono os h.2⟩
      by_cases hu : isUnamb o = true
      · obtain ⟨x, mn, mx, rfl⟩ := isUnamb_true hu
        have h1 := h.1
        simp only [cleanOp2F, Bool.and_eq_true, Bool.or_eq_true] at h1 ⊢
        exact ⟨h1.1, h1.2.imp id (justMono x os)⟩
      · rw [cleanOp2F_irrel env cb ml true os o hu, ← cleanOp2F_irrel env cb ml false os o hu]; exact h.1

/-! ### d. `CompleteAt`, `match_at` -/

/-- the first pull of a fresh iterator returns the head of the enumeration -/
theorem first1_enum2 (ctx : Ctx) (op : Op) (hs : shape2 op = true) (hwf : wfOp op = true)
    (hne : noEmptyAtoms op = true) (p : Nat) (hp : p ≤ ctx.len) (st : St) :
    (first1 (sem ctx op p st)).1.map (·.1) = (enum2 ctx op p).head? := by
  have h := sem_ex2_op ctx op hs hwf hne p hp st
  cases hl : enum2 ctx op p with
  | nil =>
    rw [hl] at h
    obtain ⟨st', hf⟩ := h.first1_nil
    rw [hf]; rfl
  | cons n l =>
    rw [hl] at h
    obtain ⟨st', hf⟩ := h.first1_cons
    rw [hf]; rfl

/-- the engine test is complete on the program fragment (from EVERY state) -/
theorem completeAt_clean2 (env : Env) (ctx : Ctx) (hI : InputOK env ctx) (op : Op)
    (hc : cleanProg2 env ctx.caseBlind ctx.multiLine op = true) (hwf : wfOp op = true)
    (hne : noEmptyAtoms op = true) (hcan : clsCanonB op = true) : CompleteAt ctx op := by
  intro j st hj _
  have hs := cleanProg2_shape env _ _ op hc
  have h1 := first1_enum2 ctx op hs hwf hne j hj st
  have h2 : (first1 (sem ctx op j st)).1.isSome = (enum2 ctx op j).head?.isSome := by
    rw [← h1]; cases (first1 (sem ctx op j st)).1 <;> rfl
  rw [h2]
  cases hl : enum2 ctx op j with
  | nil =>
    simp only [List.head?_nil, Option.isSome_none, Bool.false_eq_true, false_iff]
    intro hex
    exact enum2_complete env ctx hI op hc hwf hne hcan j hj hex hl
  | cons n l =>
    simp only [List.head?_cons, Option.isSome_some, true_iff]
    exact ⟨n, enum2_sound ctx op hs hwf hne j n hj (by rw [hl]; exact List.mem_cons_self)⟩

theorem matchAt_iff2 (env : Env) (ctx : Ctx) (hI : InputOK env ctx) (op : Op)
    (hc : cleanProg2 env ctx.caseBlind ctx.multiLine op = true) (hwf : wfOp op = true)
    (hne : noEmptyAtoms op = true) (hcan : clsCanonB op = true) (i : Nat) (hi : i ≤ ctx.len) (st : St) :
    (matchAt ctx op i st).1 = true ↔ ∃ j, OpR ctx op i j := by
  have hs := cleanProg2_shape env _ _ op hc
  rw [(Clean.matchAt_of_ex ctx op i _ (fun st' => sem_ex2_op ctx op hs hwf hne i hi st') st).1]
  constructor
  · intro hnil
    cases hl : enum2 ctx op i with
    | nil => exact absurd hl hnil
    | cons j t => exact ⟨j, enum2_sound ctx op hs hwf hne i j hi (by rw [hl]; exact List.mem_cons_self)⟩
  · exact enum2_complete env ctx hI op hc hwf hne hcan i hi

/-- on success the end recorded for group 0 is the head of `enum2` (shape only) -/
theorem matchAt_end2 (ctx : Ctx) (op : Op) (hs : shape2 op = true) (hwf : wfOp op = true)
    (hne : noEmptyAtoms op = true) (i : Nat) (hi : i ≤ ctx.len) (st : St)
    (h : (matchAt ctx op i st).1 = true) :
    getParenEnd (matchAt ctx op i st).2 0 = (enum2 ctx op i).head? :=
  (Clean.matchAt_of_ex ctx op i _ (fun st' => sem_ex2_op ctx op hs hwf hne i hi st') st).2 h

/-! ### e. no back-reference, loops covered by the fuel, no divergence -/

mutual
theorem shape2_noBackref : (op : Op) → shape2 op = true → hasBackref op = false
  | .bol, _ | .eol, _ | .nothing, _ | .endProgram, _ | .atom _, _ | .cls _, _ => rfl
  | .backref _, h | .rep _ _ _ _ _, h => by simp [shape2] at h
  | .unamb x _ _, h => by
    simp only [shape2] at h
    simp only [hasBackref]
    cases x <;> first | rfl | (simp [isAtomOrClass] at h)
  | .capture _ c, h => by simp only [shape2] at h; simp only [hasBackref]; exact shape2_noBackref c h
  | .choice bs, h => by simp only [shape2] at h; simp only [hasBackref]; exact shape2_noBackrefL bs h
  | .seq ops, h => by simp only [shape2] at h; simp only [hasBackref]; exact shape2_noBackrefL ops h
  | .gfixed c _ _ _, h => by simp only [shape2] at h; simp only [hasBackref]; exact shape2_noBackref c h
  | .rfixed c _ _ _, h => by simp only [shape2] at h; simp only [hasBackref]; exact shape2_noBackref c h
termination_by structural op => op
theorem shape2_noBackrefL : (ops : List Op) → shape2L ops = true → hasBackrefL ops = false
  | [], _ => rfl
  | o :: os, h => by
    simp only [shape2L, Bool.and_eq_true] at h
    simp only [hasBackrefL, Bool.or_eq_false_iff]
    exact ⟨shape2_noBackref o h.1, shape2_noBackrefL os h.2⟩
termination_by structural ops => ops
end

mutual
theorem shape2_smallMin (n : Nat) : (op : Op) → shape2 op = true → noEmptyAtoms op = true →
    C06.smallMin n op = true
  | .bol, _, _ | .eol, _, _ | .nothing, _, _ | .endProgram, _, _ | .atom _, _, _ | .cls _, _, _ => rfl
  | .backref _, h, _ | .rep _ _ _ _ _, h, _ => by simp [shape2] at h
  | .unamb x _ _, h, hne => by
    simp only [shape2] at h
    simp only [noEmptyAtoms] at hne
    cases x with
    | atom cs => simpa only [C06.smallMin, noEmptyAtoms] using hne
    | cls rs => rfl
    | _ => simp [isAtomOrClass] at h
  | .capture _ c, h, hne => by
    simp only [shape2] at h; simp only [noEmptyAtoms] at hne
    simp only [C06.smallMin]; exact shape2_smallMin n c h hne
  | .choice bs, h, hne => by
    simp only [shape2] at h; simp only [noEmptyAtoms] at hne
    simp only [C06.smallMin]; exact shape2_smallMinL n bs h hne
  | .seq ops, h, hne => by
    simp only [shape2] at h; simp only [noEmptyAtoms] at hne
    simp only [C06.smallMin]; exact shape2_smallMinL n ops h hne
  | .gfixed c _ _ _, h, hne => by
    simp only [shape2] at h; simp only [noEmptyAtoms] at hne
    simp only [C06.smallMin]; exact shape2_smallMin n c h hne
  | .rfixed c _ _ _, h, hne => by
    simp only [shape2] at h; simp only [noEmptyAtoms] at hne
    simp only [C06.smallMin]; exact shape2_smallMin n c h hne
termination_by structural op => op
theorem shape2_smallMinL (n : Nat) : (ops : List Op) → shape2L ops = true → noEmptyAtomsL ops = true →
    C06.smallMinL n ops = true
  | [], _, _ => rfl
  | o :: os, h, hne => by
    simp only [shape2L, Bool.and_eq_true] at h
    simp only [noEmptyAtomsL, Bool.and_eq_true] at hne
    simp only [C06.smallMinL, Bool.and_eq_true]
    exact ⟨shape2_smallMin n o h.1 hne.1, shape2_smallMinL n os h.2 hne.2⟩
termination_by structural ops => ops
end

theorem clean2_noBackref (env : Env) (cb ml : Bool) (op : Op) (h : cleanProg2 env cb ml op = true) :
    hasBackref op = false :=
  shape2_noBackref op (cleanProg2_shape env cb ml op h)

theorem clean2_smallMin (env : Env) (cb ml : Bool) (n : Nat) (op : Op) (h : cleanProg2 env cb ml op = true)
    (hne : noEmptyAtoms op = true) : C06.smallMin n op = true :=
  shape2_smallMin n op (cleanProg2_shape env cb ml op h) hne

theorem sem_noDiv2 (ctx : Ctx) (op : Op) (hs : shape2 op = true) (hwf : wfOp op = true)
    (hne : noEmptyAtoms op = true) (p : Nat) (hp : p ≤ ctx.len) (st : St) : (sem ctx op p st).NoDiv := by
  have h := sem_ex2_op ctx op hs hwf hne p hp st
  generalize sem ctx op p st = s at h
  generalize enum2 ctx op p = l at h
  induction h with
  | nil st => exact .nil st
  | cons n st r l _ ih => exact .cons n st r (fun st' => ih st' trivial)

/-! ### case-sensitive matching: no hypothesis on the case tables -/

theorem enum2_iff_OpR_cs (env : Env) (ctx : Ctx) (hcb : ctx.caseBlind = false)
    (hce : ∀ a x, x ∈ env.closure a → x < cpLimit)
    (hin : ∀ c ∈ ctx.input, c < cpLimit) (hsc : ∀ c ∈ ctx.input, isSurrogate c = false) (op : Op)
    (hc : cleanOp2 env false ctx.multiLine op = true) (hwf : wfOp op = true)
    (hne : noEmptyAtoms op = true) (hcan : clsCanonB op = true) (p q : Nat) (hp : p ≤ ctx.len) :
    q ∈ enum2 ctx op p ↔ OpR ctx op p q :=
  enum2_iff_OpR env ctx (.of_caseSensitive hcb hce hin hsc) op (by rw [hcb]; exact hc) hwf hne hcan p q hp

theorem completeAt_clean2_cs (env : Env) (ctx : Ctx) (hcb : ctx.caseBlind = false)
    (hce : ∀ a x, x ∈ env.closure a → x < cpLimit)
    (hin : ∀ c ∈ ctx.input, c < cpLimit) (hsc : ∀ c ∈ ctx.input, isSurrogate c = false) (op : Op)
    (hc : cleanProg2 env false ctx.multiLine op = true) (hwf : wfOp op = true)
    (hne : noEmptyAtoms op = true) (hcan : clsCanonB op = true) : CompleteAt ctx op :=
  completeAt_clean2 env ctx (.of_caseSensitive hcb hce hin hsc) op (by rw [hcb]; exact hc) hwf hne hcan

theorem matchAt_iff2_cs (env : Env) (ctx : Ctx) (hcb : ctx.caseBlind = false)
    (hce : ∀ a x, x ∈ env.closure a → x < cpLimit)
    (hin : ∀ c ∈ ctx.input, c < cpLimit) (hsc : ∀ c ∈ ctx.input, isSurrogate c = false) (op : Op)
    (hc : cleanProg2 env false ctx.multiLine op = true) (hwf : wfOp op = true)
    (hne : noEmptyAtoms op = true) (hcan : clsCanonB op = true) (i : Nat) (hi : i ≤ ctx.len) (st : St) :
    (matchAt ctx op i st).1 = true ↔ ∃ j, OpR ctx op i j :=
  matchAt_iff2 env ctx (.of_caseSensitive hcb hce hin hsc) op (by rw [hcb]; exact hc) hwf hne hcan i hi st

/-! ### non-vacuity -/
section examples

private def env0 : Env :=
  { lower := id, closure := fun _ => [], category := fun _ => none, block := fun _ => none,
    digit := [], word := [], nameStart := [], nameChar := [] }

/-- `a*b(c|d)+e` -/
private def pat1 : List Nat := [97, 42, 98, 40, 99, 124, 100, 41, 43, 101]
private def compiled1 : Out Prog := compileCore env0 {} pat1 true

/-- the tree the model's compiler builds: `a*` has become an UnambiguousRepeat (first sets {a} / {b}) -/
private def tree1 : Op :=
  .seq [.unamb (.atom [97]) 0 usizeMax, .atom [98],
        .gfixed (.capture 1 (.choice [.atom [99], .atom [100]])) 1 usizeMax 1, .atom [101], .endProgram]

private def ctxOf (input : List Nat) : Ctx :=
  { input := input, caseBlind := false, multiLine := false, hasBackrefs := false, maxParens := 2, lower := id }

/-- the compiled program satisfies every hypothesis — it is in the COMPOSITIONAL fragment — and is
    outside the old fragment -/
example : (match compiled1 with
    | .ok pr => cleanOp2 env0 false false pr.op && cleanProg2 env0 false false pr.op && wfOp pr.op &&
        noEmptyAtoms pr.op && clsCanonB pr.op && !cleanOp pr.op
    | _ => false) = true := by decide +kernel
example : cleanOp2 env0 false false tree1 = true ∧ wfOp tree1 = true ∧ noEmptyAtoms tree1 = true ∧
    clsCanonB tree1 = true := by decide +kernel

/-- "aabcde": the run of two a's, `b`, then `(c|d)+` greedy: ends … only `cd`·`e` survives -/
example : enum2 (ctxOf [97, 97, 98, 99, 100, 101]) tree1 0 = [6] := by decide +kernel
example : (match compiled1 with | .ok pr => enum2 (pr.ctx id [97, 97, 98, 99, 100, 101]) pr.op 0 | _ => []) = [6] := by
  decide +kernel
/-- from 1 the run is one `a` -/
example : enum2 (ctxOf [97, 97, 98, 99, 100, 101]) tree1 1 = [6] ∧
    enum2 (ctxOf [97, 97, 98, 99, 100, 101]) tree1 2 = [6] ∧
    enum2 (ctxOf [97, 97, 98, 99, 100, 101]) tree1 3 = [] := by decide +kernel
example : (matchAt (ctxOf [97, 97, 98, 99, 100, 101]) tree1 0 {}).1 = true ∧
    getParenEnd (matchAt (ctxOf [97, 97, 98, 99, 100, 101]) tree1 0 {}).2 0 = some 6 := by decide +kernel

/-- `a*` : `[unamb a 0 ∞, EndProgram]` is a PROGRAM of the fragment (case 2b) but not compositional:
    the language from 0 on "aa" has the ends 2, 1, 0 — `enum2` (and the engine) list only the first -/
private def treeStar : Op := .seq [.unamb (.atom [97]) 0 usizeMax, .endProgram]
example : (match compileCore env0 {} [97, 42] true with
    | .ok pr => cleanProg2 env0 false false pr.op && !cleanOp2 env0 false false pr.op | _ => false) = true := by
  decide +kernel
example : cleanProg2 env0 false false treeStar = true ∧ cleanOp2 env0 false false treeStar = false := by
  decide +kernel
example : enum2 (ctxOf [97, 97]) treeStar 0 = [2] := by decide +kernel
private theorem star_member : OpR (ctxOf [97, 97]) treeStar 0 1 := by
  simp only [treeStar, OpR, OpRSeq]
  refine ⟨1, ⟨1, by decide, by decide, .succ (.zero 0) ?_⟩, 1, rfl, rfl⟩
  show OpR (ctxOf [97, 97]) (.atom [97]) 0 1
  simp only [OpR]
  decide
/-- so the FULL equivalence is false for programs: only the existence form holds there -/
example : ¬ (∀ q, q ∈ enum2 (ctxOf [97, 97]) treeStar 0 ↔ OpR (ctxOf [97, 97]) treeStar 0 q) := by
  intro h
  have h1 : (1 : Nat) ∈ enum2 (ctxOf [97, 97]) treeStar 0 := (h 1).2 star_member
  revert h1
  decide +kernel

/-- an unjustified `.unamb` (followed by something that starts with the same character) is NOT in
    the fragment — and there the engine does lose matches: `a*` · `ab` on "aab" -/
private def treeBad : Op := .seq [.unamb (.atom [97]) 0 usizeMax, .atom [97, 98], .endProgram]
example : cleanProg2 env0 false false treeBad = false ∧ shape2 treeBad = true := by decide +kernel
example : enum2 (ctxOf [97, 97, 98]) treeBad 0 = [] := by decide +kernel
/-- (the compiler does not build it: `a*ab` keeps the backtracking repeat) -/
example : (match compileCore env0 {} [97, 42, 97, 98] true with
    | .ok pr => cleanOp pr.op | _ => false) = true := by decide +kernel

end examples

end Rx.Clean2
