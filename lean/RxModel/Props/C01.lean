/-
  Props/C01 — is_match decides membership of some substring in the regex's language.

  Proved here (over the model E, for every compiled tree, input, start position and state):
    * `sem_sound`    every position any iterator ever yields — under every behaviour of its
                     consumer — is in the compositional language `OpR` of its operation
    * `sem_bounds`   … and lies between the start position and the end of the input
    * `matchLen_sound` a fixed match length claimed by `get_match_length` is the real one
    * `isMatch_sound`  `is_match = true` ⇒ some substring `[i, j)` is in the language of the program
  The converse (completeness) is false of the engine in the catalogued cases (KNOWN_FINDINGS) and
  is established on the remaining fragment by correspondence + oracle search, not by a theorem.
-/
import RxModel.Spec.OpLang
import RxModel.Model.Api
import RxModel.Proofs.EngineSound
namespace Rx.C01
open Rx

/-- a fixed length reported by `get_match_length` is the length of every match -/
theorem matchLen_sound (ctx : Ctx) (op : Op) (hwf : wfOp op = true) (l : Nat)
    (hl : matchLen op = some l) (hlt : l < usizeMax) (p : Nat) (st : St) :
    (sem ctx op p st).All (fun n => n = p + l) :=
  matchLen_sound_op ctx op hwf l hl hlt p st

/-- every yielded position is in the language of the operation (for a start position inside the
    input; see the counterexample below for why `hp` is needed) -/
theorem sem_sound (ctx : Ctx) (op : Op) (hwf : wfOp op = true) (p : Nat) (hp : p ≤ ctx.len) (st : St) :
    (sem ctx op p st).All (fun n => OpR ctx op p n) :=
  (sem_sound_op ctx op hwf p st).mono (fun _ h => h hp)

/-- members of the language lie inside the input, to the right of the start -/
theorem OpR_bounds (ctx : Ctx) (op : Op) (p q : Nat) (hp : p ≤ ctx.len) (h : OpR ctx op p q) :
    p ≤ q ∧ q ≤ ctx.len :=
  OpR_bounds_op ctx op p q hp h

/-- every yielded position lies inside the input, to the right of the start -/
theorem sem_bounds (ctx : Ctx) (op : Op) (hwf : wfOp op = true) (p : Nat) (hp : p ≤ ctx.len) (st : St) :
    (sem ctx op p st).All (fun n => p ≤ n ∧ n ≤ ctx.len) :=
  (sem_sound ctx op hwf p hp st).mono (fun n h => OpR_bounds ctx op p n hp h)

/-- `match_at(j)` succeeds only on a member of the language starting at `j` (for a start position
    inside the input; see the counterexample below for why `hj` is needed) -/
theorem matchAt_sound (ctx : Ctx) (op : Op) (hwf : wfOp op = true) (j : Nat) (hj : j ≤ ctx.len)
    (st st' : St) (h : matchAt ctx op j st = (true, st')) : ∃ n, OpR ctx op j n :=
  matchAt_sound_aux ctx op hwf j hj st st' h

/-! Why `hp` / `hj`: a back-reference to a group that did not participate matches the empty string
    at *any* position, also one beyond the end of the input, where `OpR` (which keeps a
    back-reference inside the input) is empty.  The search never starts there (`isMatch_sound`). -/
section counterexample
private def cexCtx : Ctx :=
  { input := [], caseBlind := false, multiLine := false, hasBackrefs := true, maxParens := 1,
    lower := fun c => c }
private def cexSt : St := { startBr := [none] }

example : wfOp (.backref 0) = true := by decide
example : sem cexCtx (.backref 0) 1 cexSt = .once 1 cexSt := rfl
example : ¬ OpR cexCtx (.backref 0) 1 1 := by simp [OpR, cexCtx, Ctx.len]

/-- `sem_sound` without `hp` is false -/
example : ¬ ∀ (ctx : Ctx) (op : Op), wfOp op = true → ∀ (p : Nat) (st : St),
    (sem ctx op p st).All (fun n => OpR ctx op p n) := by
  intro h
  have h1 := h cexCtx (.backref 0) rfl 1 cexSt
  have h2 : sem cexCtx (.backref 0) 1 cexSt = .cons 1 cexSt .nil := rfl
  rw [h2] at h1
  have h3 := h1.head
  simp [OpR, cexCtx, Ctx.len] at h3

/-- `matchAt_sound` without `hj` is false -/
example : ¬ ∀ (ctx : Ctx) (op : Op), wfOp op = true → ∀ (j : Nat) (st st' : St),
    matchAt ctx op j st = (true, st') → ∃ n, OpR ctx op j n := by
  intro h
  obtain ⟨n, hn⟩ := h cexCtx (.backref 0) rfl 1 {} _ rfl
  simp only [OpR, cexCtx, Ctx.len, List.length_nil] at hn
  omega
end counterexample

/-- `is_match` answers `true` only if some substring of the input is in the program's language
    (all five search shortcuts included) -/
theorem isMatch_sound (pr : Prog) (lower : Nat → Nat) (input : List Nat) (hwf : wfOp pr.op = true)
    (h : pr.isMatch lower input = .ok true) :
    ∃ i j, i ≤ j ∧ j ≤ input.length ∧ OpR (pr.ctx lower input) pr.op i j := by
  obtain ⟨st, hm⟩ := isMatch_true h
  obtain ⟨i, hi, st1, st2, hma⟩ := matchesFrom_sound _ pr 0 _ _ (Nat.zero_le _) hm
  obtain ⟨j, hj⟩ := matchAt_sound _ pr.op hwf i hi st1 st2 hma
  have hb := OpR_bounds _ pr.op i j hi hj
  exact ⟨i, j, hb.1, hb.2, hj⟩

/-! the language is compositional, so it cannot depend on the order of exploration -/

theorem OpR_choice_comm (ctx : Ctx) (a b : Op) (p q : Nat) :
    OpR ctx (.choice [a, b]) p q ↔ OpR ctx (.choice [b, a]) p q := by
  simp only [OpR, OpRAny, or_false]
  exact Or.comm

theorem OpR_seq_assoc (ctx : Ctx) (a b c : Op) (p q : Nat) :
    OpR ctx (.seq [.seq [a, b], c]) p q ↔ OpR ctx (.seq [a, .seq [b, c]]) p q := by
  simp only [OpR, OpRSeq]
  constructor
  · rintro ⟨m, ⟨m1, ha, m2, hb, rfl⟩, m3, hc, rfl⟩
    exact ⟨m1, ha, q, ⟨m, hb, q, hc, rfl⟩, rfl⟩
  · rintro ⟨m1, ha, m, ⟨m2, hb, m3, hc, rfl⟩, rfl⟩
    exact ⟨m2, ⟨m1, ha, m2, hb, rfl⟩, q, hc, rfl⟩

/-- a greedy and a reluctant repeat denote the same language -/
theorem OpR_rep_greedy_irrelevant (ctx : Ctx) (id1 id2 : Nat) (c : Op) (mn mx : Nat) (p q : Nat) :
    OpR ctx (.rep id1 c mn mx true) p q ↔ OpR ctx (.rep id2 c mn mx false) p q := by
  simp only [OpR]

/-! non-vacuity -/
example : wfOp (.seq [.gfixed (.atom [97]) 0 usizeMax 1, .atom [98], .endProgram]) = true := by decide

end Rx.C01
