/-
  Props/C01 — is_match decides membership of some substring in the regex's language.

  Proved here (over the model E, for every compiled tree, input, start position and state):
    * `sem_sound`    every position any iterator ever yields — under every behaviour of its
                     consumer — is in the compositional language `OpR` of its operation
    * `sem_bounds`   … and lies between the start position and the end of the input
    * `matchLen_sound` a fixed match length claimed by `get_match_length` is the real one
    * `isMatch_sound`  `is_match = true` ⇒ some substring `[i, j)` is in the language of the program
  The converse (completeness) is false of the engine in the catalogued cases (KNOWN_FINDINGS) and
  is established on the remaining fragment by correspondence + oracle search, not by a theorem.
-/
import RxModel.Spec.OpLang
import RxModel.Model.Api
namespace Rx.C01
open Rx

/-- a fixed length reported by `get_match_length` is the length of every match -/
theorem matchLen_sound (ctx : Ctx) (op : Op) (hwf : wfOp op = true) (l : Nat)
    (hl : matchLen op = some l) (hlt : l < usizeMax) (p : Nat) (st : St) :
    (sem ctx op p st).All (fun n => n = p + l) := by
  sorry

/-- every yielded position is in the language of the operation -/
theorem sem_sound (ctx : Ctx) (op : Op) (hwf : wfOp op = true) (p : Nat) (st : St) :
    (sem ctx op p st).All (fun n => OpR ctx op p n) := by
  sorry

/-- members of the language lie inside the input, to the right of the start -/
theorem OpR_bounds (ctx : Ctx) (op : Op) (p q : Nat) (hp : p ≤ ctx.len) (h : OpR ctx op p q) :
    p ≤ q ∧ q ≤ ctx.len := by
  sorry

/-- every yielded position lies inside the input, to the right of the start -/
theorem sem_bounds (ctx : Ctx) (op : Op) (hwf : wfOp op = true) (p : Nat) (hp : p ≤ ctx.len) (st : St) :
    (sem ctx op p st).All (fun n => p ≤ n ∧ n ≤ ctx.len) := by
  sorry

/-- `match_at(j)` succeeds only on a member of the language starting at `j` -/
theorem matchAt_sound (ctx : Ctx) (op : Op) (hwf : wfOp op = true) (j : Nat) (st st' : St)
    (h : matchAt ctx op j st = (true, st')) : ∃ n, OpR ctx op j n := by
  sorry

/-- `is_match` answers `true` only if some substring of the input is in the program's language
    (all five search shortcuts included) -/
theorem isMatch_sound (pr : Prog) (lower : Nat → Nat) (input : List Nat) (hwf : wfOp pr.op = true)
    (h : pr.isMatch lower input = .ok true) :
    ∃ i j, i ≤ j ∧ j ≤ input.length ∧ OpR (pr.ctx lower input) pr.op i j := by
  sorry

/-! the language is compositional, so it cannot depend on the order of exploration -/

theorem OpR_choice_comm (ctx : Ctx) (a b : Op) (p q : Nat) :
    OpR ctx (.choice [a, b]) p q ↔ OpR ctx (.choice [b, a]) p q := by
  sorry

theorem OpR_seq_assoc (ctx : Ctx) (a b c : Op) (p q : Nat) :
    OpR ctx (.seq [.seq [a, b], c]) p q ↔ OpR ctx (.seq [a, .seq [b, c]]) p q := by
  sorry

/-- a greedy and a reluctant repeat denote the same language -/
theorem OpR_rep_greedy_irrelevant (ctx : Ctx) (id1 id2 : Nat) (c : Op) (mn mx : Nat) (p q : Nat) :
    OpR ctx (.rep id1 c mn mx true) p q ↔ OpR ctx (.rep id2 c mn mx false) p q := by
  sorry

/-! non-vacuity -/
example : wfOp (.seq [.gfixed (.atom [97]) 0 usizeMax 1, .atom [98], .endProgram]) = true := by decide

end Rx.C01
