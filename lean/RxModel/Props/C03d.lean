/-
  Props/C03d — the nesting table that `analyze` computes by RE-SCANNING the pattern text
  (`AnalyzeIter::compute_nesting_table`, modelled by `nestingTable`) agrees with the grammar and with
  the compiled tree:

    nesting_of_render      on the rendering of a well-formed tree `a` the scanner returns exactly
                           `tableOf a` (group ↦ innermost enclosing capturing group; latest group first,
                           the order in which the Rust pushes) — it never panics there
    compile_nesting_some   for every accepted non-literal pattern the scanner succeeds on the text
                           stored in the program (flag x: the STRIPPED text — `compileCore` stores the
                           text it is given, and `compileProg` strips before calling it)
    compile_tblOK          … and the table agrees with the capture nesting of the COMPILED tree
                           (`tblOK tbl pr.op 0`, the hypothesis of Props/C03c), optimiser on or off
    analyze_no_nesting_panic / api_…   `analyze` never panics in `compute_nesting_table`
    analyze_groups_from_text, analyze_match_groups_from_text
                           the C03c theorems without their `tblOK` / table hypotheses

  FINDING: no defect.  On every grammar-conformant pattern the second scanner and the parser agree:
  escapes (a backslash skips one character in both), classes incl. nested subtraction `[a-[b]]`,
  `\]`, `[(]` (parentheses inside `[…]` are ignored), `\p{…}` (braces are ordinary), `(?:`,
  quantifier text, back-reference digits.  One hypothesis is needed about the ENVIRONMENT, not the
  crate: the category / block names it knows contain none of `\ [ ] ( )` (`EnvNamesPlain`) — otherwise
  `\p{a(}` would be accepted by the parser and mis-scanned.  It holds for the real tables
  (`envNamesPlain_std`, a kernel-checked test over both tables).
-/
import RxModel.Model.Compile
import RxModel.Model.Unicode
import RxModel.Proofs.NestingLemmas
import RxModel.Props.C03c
import RxModel.Props.C05b
import RxModel.Props.C07d
namespace Rx.C03d
open Rx Rx.Grammar
open Rx.C07b (ParserQuirkFree)

/-! ### 1. the scanner on grammar-conformant text -/

/-- MAIN THEOREM (text).  `compute_nesting_table` on the rendering of a well-formed tree returns the
    syntactic nesting table of that tree. -/
theorem nesting_of_render (env : Env) (henv : EnvNamesPlain env) (xsd : Bool) (a : Ast)
    (hok : a.okFor xsd env = true) : nestingTable a.render = some (tableOf a) :=
  nestingTable_render henv a hok

/-- the table as a function: every group `1 … groups a` has an entry, and the entry is the
    syntactic parent; the keys are strictly decreasing (latest group first) -/
theorem tableOf_keys (a : Ast) :
    (tableOf a).Pairwise (fun p q => q.1 < p.1) ∧ ∀ p ∈ tableOf a, 1 ≤ p.1 ∧ p.1 ≤ a.groups := by
  obtain ⟨h1, h2⟩ := RegExp.tbl_keys 0 0 a
  exact ⟨h1, fun p hp => by have := h2 p hp; omega⟩

theorem tableOf_lookup (a : Ast) (p : Nat × Nat) (hp : p ∈ tableOf a) :
    lookupNat (tableOf a) p.1 = some p.2 := agree_tableOf a p hp

/-! ### the environment hypothesis, for the real tables -/

theorem mem_of_lookupL {β : Type} : ∀ (tbl : List (List Nat × β)) (k : List Nat) (v : β),
    lookupL tbl k = some v → ∃ e ∈ tbl, e.1 = k := by
  intro tbl
  induction tbl with
  | nil => intro k v h; cases h
  | cons x xs ih =>
    intro k v h
    obtain ⟨a, b⟩ := x
    rw [lookupL] at h
    by_cases hk : (a == k) = true
    · exact ⟨(a, b), List.mem_cons_self .., eq_of_beq hk⟩
    · rw [if_neg hk] at h
      obtain ⟨e, he, hek⟩ := ih k v h
      exact ⟨e, List.mem_cons_of_mem _ he, hek⟩

theorem mem_of_blockLookupLast : ∀ (tbl : List (List Nat × Nat × Nat)) (k : List Nat)
    (acc : Option (Nat × Nat)) (v : Nat × Nat), blockLookupLast tbl k acc = some v →
    acc = some v ∨ ∃ e ∈ tbl, normBlockName e.1 = k := by
  intro tbl
  induction tbl with
  | nil => intro k acc v h; exact .inl h
  | cons x xs ih =>
    intro k acc v h
    obtain ⟨n, a, b⟩ := x
    rw [blockLookupLast] at h
    rcases ih k _ v h with h1 | ⟨e, he, hek⟩
    · by_cases hk : (normBlockName n == k) = true
      · exact .inr ⟨(n, a, b), List.mem_cons_self .., eq_of_beq hk⟩
      · rw [if_neg hk] at h1; exact .inl h1
    · exact .inr ⟨e, List.mem_cons_of_mem _ he, hek⟩

/-- every key of the category table and every (normalised) block name is free of `\ [ ] ( )` -/
theorem tables_plain :
    Gen.categoryArms.all (fun e => e.1.all plainNameChar) = true ∧
    Gen.allBlocks.all (fun e => (normBlockName e.1).all plainNameChar) = true := by decide +kernel

/-- the real environment satisfies `EnvNamesPlain` -/
theorem envNamesPlain_std : EnvNamesPlain Env.std := by
  intro name h
  obtain ⟨rs, hrs⟩ := Option.isSome_iff_exists.1 h
  unfold C09.propLookup at hrs
  split at hrs
  · -- a category
    have hc : categoryStd name = some rs := hrs
    unfold categoryStd at hc
    cases hl : lookupL Gen.categoryArms name with
    | none => rw [hl] at hc; cases hc
    | some long =>
      obtain ⟨e, he, hek⟩ := mem_of_lookupL _ _ _ hl
      have := (List.all_eq_true.1 tables_plain.1) e he
      rw [hek] at this; exact this
  · split at hrs
    · rename_i hIs
      have hb : blockStd (name.drop 2) = some rs := hrs
      have hname : name = [73, 115] ++ name.drop 2 := by
        have := eq_of_beq hIs
        rw [← this, List.take_append_drop]
      have hplain : (name.drop 2).all plainNameChar = true := by
        unfold blockStd at hb
        split at hb
        · rename_i hpu
          rw [eq_of_beq hpu]; decide
        · cases hl : blockLookupLast Gen.allBlocks (name.drop 2) none with
          | none => rw [hl] at hb; cases hb
          | some v =>
            rcases mem_of_blockLookupLast _ _ _ _ hl with h0 | ⟨e, he, hek⟩
            · cases h0
            · have := (List.all_eq_true.1 tables_plain.2) e he
              rw [hek] at this; exact this
      rw [hname, List.all_append, hplain]; rfl
    · cases hrs

/-! ### 2. accepted patterns: the scanner succeeds, and agrees with the compiled tree -/

/-- for every accepted non-literal pattern (scalar values) the scanner computes, from the text stored
    in the program, the table of the tree the pattern renders -/
theorem compile_nesting (env : Env) (henv : EnvNamesPlain env) (fl : CFlags) (hlit : fl.literal = false)
    (pat : List Nat) (hps : ∀ x ∈ pat, x < cpLimit) (opt : Bool) (pr : Prog)
    (h : compileCore env fl pat opt = .ok pr) :
    ∃ a : Ast, a.okFor fl.xsd env = true ∧ ParserQuirkFree a ∧ pat = a.render ∧ pr.pattern = pat ∧
      pr.literal = false ∧ nestingTable pr.pattern = some (tableOf a) ∧
      tblOK (tableOf a) pr.op 0 = true := by
  obtain ⟨a, a1, a2, a3, a4, a5, a6, a7⟩ := compile_table env henv fl hlit pat
    (C07d.classInv_of_scalar { pat := pat, fl := fl, env := env } hps) opt pr h
  exact ⟨a, a1, a2, a3, a4, a5, a6, tblOK_of_tblD _ _ _ a7⟩

/-- `compute_nesting_table` does not panic on an accepted pattern -/
theorem compile_nesting_some (env : Env) (henv : EnvNamesPlain env) (fl : CFlags)
    (hlit : fl.literal = false) (pat : List Nat) (hps : ∀ x ∈ pat, x < cpLimit) (opt : Bool) (pr : Prog)
    (h : compileCore env fl pat opt = .ok pr) : ∃ tbl, nestingTable pr.pattern = some tbl := by
  obtain ⟨a, _, _, _, _, _, a6, _⟩ := compile_nesting env henv fl hlit pat hps opt pr h
  exact ⟨_, a6⟩

/-- … and the table it computes agrees with the capture nesting of the compiled tree: the `tblOK`
    hypothesis of Props/C03c holds for every compiled program -/
theorem compile_tblOK (env : Env) (henv : EnvNamesPlain env) (fl : CFlags) (hlit : fl.literal = false)
    (pat : List Nat) (hps : ∀ x ∈ pat, x < cpLimit) (opt : Bool) (pr : Prog)
    (h : compileCore env fl pat opt = .ok pr) (tbl : List (Nat × Nat))
    (htbl : nestingTable pr.pattern = some tbl) : tblOK tbl pr.op 0 = true := by
  obtain ⟨a, _, _, _, _, _, a6, a7⟩ := compile_nesting env henv fl hlit pat hps opt pr h
  rw [a6] at htbl
  simp only [Option.some.injEq] at htbl
  rw [← htbl]; exact a7

/-- the preservation lemma on its own: `optimize` never re-parents a capture
    (`tblD` = `tblOK` extended below alternations and repeats) -/
theorem tblOK_optimize (env : Env) (fl : CFlags) (T : List (Nat × Nat)) (op : Op) (par : Nat)
    (h : tblD T op par = true) : tblOK T (optimize env fl op) par = true :=
  tblOK_of_tblD _ _ _ (tblD_optimize env fl T op par h)

/-! ### flag x, flag q: `compileProg` -/

theorem mem_stripWs : ∀ (l : List Nat) (n : Int) (e : Bool) (x : Nat), x ∈ stripWs l n e → x ∈ l := by
  intro l
  induction l with
  | nil => intro n e x h; simp [stripWs] at h
  | cons ch rest ih =>
    intro n e x h
    rw [stripWs] at h
    repeat' (split at h)
    all_goals first
      | (rcases List.mem_cons.1 h with rfl | h'
         · exact List.mem_cons_self ..
         · exact List.mem_cons_of_mem _ (ih _ _ _ h'))
      | exact List.mem_cons_of_mem _ (ih _ _ _ h)

/-- the table entry `analyze` uses for a program made by `ReCompiler::compile`: `[]` for a literal
    pattern, otherwise the scanner's table of the stored (stripped) text — it exists, and agrees with
    the compiled tree -/
theorem compileProg_table (env : Env) (henv : EnvNamesPlain env) (fl : Flags) (p : List Nat)
    (hps : ∀ x ∈ p, x < cpLimit) (pr : Prog) (h : compileProg env fl p true = .ok pr) :
    ∃ tbl, (if pr.literal then some [] else nestingTable pr.pattern) = some tbl ∧
      tblOK tbl pr.op 0 = true := by
  unfold compileProg at h
  cases hlit : fl.literal with
  | true =>
    have hl : fl.core.literal = true := hlit
    unfold compileCore at h
    simp only [hl, if_true, Out.ok.injEq] at h
    obtain ⟨f1, f2, f3⟩ := mkProgram_fields
      (if (!fl.literal && fl.allowWs) = true then stripWs p 0 false else p)
      (makeSequence (.atom (if (!fl.literal && fl.allowWs) = true then stripWs p 0 false else p)) .endProgram)
      1 fl.core false
    rw [← h]
    refine ⟨[], by rw [f3, hl]; rfl, ?_⟩
    rw [f2]
    rfl
  | false =>
    have hl : fl.core.literal = false := hlit
    have hps' : ∀ x ∈ (if (!fl.literal && fl.allowWs) = true then stripWs p 0 false else p), x < cpLimit := by
      intro x hx
      split at hx
      · exact hps x (mem_stripWs _ _ _ _ hx)
      · exact hps x hx
    obtain ⟨a, _, _, _, _, a5, a6, a7⟩ := compile_nesting env henv fl.core hl _ hps' true pr h
    exact ⟨tableOf a, by rw [a5]; exact a6, a7⟩

/-! ### 3. `analyze`: no panic in `compute_nesting_table` -/

/-- with a table, the only panic site left in `analyze` is the tree builder -/
theorem analyze_panic_only_builder (r : Regex) (lower : Nat → Nat) (input : List Nat) (limit : Nat)
    (hs : progOK r.prog = true) (hcp : C02.capsPos r.prog.op = true) (hlen : input.length < usizeMax)
    (tbl : List (Nat × Nat))
    (htbl : (if r.prog.literal then some [] else nestingTable r.prog.pattern) = some tbl)
    (c : Nat) (h : r.analyze lower input limit = .panic c) : c = panicAnalyze := by
  unfold Regex.analyze at h
  split at h
  · cases h
  · dsimp only at h
    rw [htbl] at h
    dsimp only at h
    obtain ⟨st, t, ht⟩ := analyzeLoop_panic _ NoRealPanic (processMatch tbl) input
      (C05b.prog_safeFind r.prog lower input hs hcp hlen) c limit { st := ({} : St) } []
      ⟨.inl rfl, (fun pe hpe => by cases hpe; exact Nat.zero_le _), (fun hx => by cases hx)⟩ h
    exact C05b.processMatch_panic tbl st t c ht

/-- **from the pattern text**: `analyze` on a regex made by `Regex::new` never panics in
    `compute_nesting_table`; the tree builder is the only panic site left (closed for straight-capture
    programs by C03c) -/
theorem api_analyze_no_nesting_panic (env : Env) (henv : EnvNamesPlain env) (p fs : List Nat)
    (xsd : Bool) (fl : Flags) (r : Regex) (hf : parseFlags fs xsd = some fl)
    (h : Regex.new env p fs xsd true = .ok r) (hps : ∀ x ∈ p, x < cpLimit) (hns : Api.NoSat env fl p)
    (input : List Nat) (limit : Nat) (hlen : input.length < usizeMax) (c : Nat)
    (hc : r.analyze env.lower input limit = .panic c) : c = panicAnalyze ∧ c ≠ panicNesting := by
  obtain ⟨tbl, htbl, _⟩ := compileProg_table env henv fl p hps r.prog (C05b.new_compiled env p fs xsd fl r hf h)
  have := analyze_panic_only_builder r env.lower input limit (C05b.new_progOK env p fs xsd fl r hf h hns)
    (Api.new_wf env p fs xsd fl r hf h hns).2.1 hlen tbl htbl c hc
  exact ⟨this, by rw [this]; decide⟩

/-! ### 4. C03c without the table hypotheses -/

/-- `C03c.analyze_match_groups` for a compiled program: the table is the one `analyze` computes from
    the stored text; no `tblOK` hypothesis -/
theorem analyze_match_groups_from_text (env : Env) (henv : EnvNamesPlain env) (fl : CFlags)
    (hlit : fl.literal = false) (pat : List Nat) (hps : ∀ x ∈ pat, x < cpLimit) (pr : Prog)
    (hc : compileCore env fl pat true = .ok pr) (ctx : Ctx)
    (hok : C03b.progOK ctx.hasBackrefs ctx.maxParens pr.op = true)
    (hsorted : (capsOf pr.op).Pairwise (· < ·)) :
    ∃ tbl, nestingTable pr.pattern = some tbl ∧
      ∀ (input : List Nat), ctx.len = input.length → ∀ (j n : Nat) (e' : CEnv) (st' : St),
        MatchRes ctx pr.op j n e' st' → j < n →
        processMatch tbl st' (slice input j n) = .ok (groupTree pr.op input (j, n, e')) := by
  obtain ⟨a, _, _, _, _, _, a6, a7⟩ := compile_nesting env henv fl hlit pat hps true pr hc
  exact ⟨tableOf a, a6, fun input hin j n e' st' hm hjn =>
    C03c.analyze_match_groups ctx pr.op hok hsorted (tableOf a) a7 input hin j n e' st' hm hjn⟩

/-- `C03c.analyze_groups` for a regex made by `Regex::new`: neither the table nor `tblOK` is a
    hypothesis any more -/
theorem analyze_groups_from_text (env : Env) (henv : EnvNamesPlain env) (p fs : List Nat) (xsd : Bool)
    (fl : Flags) (r : Regex) (hf : parseFlags fs xsd = some fl)
    (hnew : Regex.new env p fs xsd true = .ok r) (hps : ∀ x ∈ p, x < cpLimit)
    (lower : Nat → Nat) (input : List Nat) (S : SearchOK r.prog lower input)
    (hsorted : (capsOf r.prog.op).Pairwise (· < ·))
    (limit : Nat) (hl : 2 * input.length + 1 ≤ limit) (es : List AEntry) (more : Bool)
    (h : r.analyze lower input limit = .ok (es, more)) :
    es = Spec.entries input 0
      ((specSpans (r.prog.ctx lower input) r.prog.op (input.length + 2) 0).map
        (fun y => (y.1, y.2.1, groupTree r.prog.op input y))) ∧ more = false := by
  obtain ⟨tbl, htbl, hok⟩ := compileProg_table env henv fl p hps r.prog (C05b.new_compiled env p fs xsd fl r hf hnew)
  have hnull : r.nullable = false := by
    cases hn : r.nullable with
    | false => rfl
    | true => simp [Regex.analyze, hn] at h
  exact C03c.analyze_groups r lower input S hnull hsorted tbl htbl hok limit hl es more h

/-! ### 5. examples (environment `C09.envT`; `decide +kernel`) -/

theorem envNamesPlain_envT : EnvNamesPlain C09.envT := by
  intro name h
  obtain ⟨rs, hrs⟩ := Option.isSome_iff_exists.1 h
  unfold C09.propLookup at hrs
  split at hrs
  · simp only [C09.envT] at hrs
    split at hrs
    · rename_i hn; rw [hn]; decide
    · split at hrs
      · rename_i hn; rw [hn]; decide
      · cases hrs
  · split at hrs
    · rename_i hIs
      have hname : name = [73, 115] ++ name.drop 2 := by
        have := eq_of_beq hIs
        rw [← this, List.take_append_drop]
      simp only [C09.envT] at hrs
      split at hrs
      · rename_i hn; rw [hname, hn]; decide
      · cases hrs
    · cases hrs

/-- `((a)|[(\]]+(?:b(c)))\2`: a `(` and an escaped `]` inside a class, a non-capturing group,
    groups 2 and 3 inside group 1 -/
def ex1 : Ast :=
  .one (.cons (.group (.alt (.cons (.group (.one (.cons (.chr 97) none .nil))) none .nil)
      (.one (.cons (.cls (.leaf false [.one (.plain 40), .one (.esc 93)])) (some ⟨.plus, false⟩)
        (.cons (.ncgroup (.one (.cons (.chr 98) none
            (.cons (.group (.one (.cons (.chr 99) none .nil))) none .nil)))) none .nil))))) none
    (.cons (.backref [50]) none .nil))

example : ex1.render = cps "((a)|[(\\]]+(?:b(c)))\\2" := by decide
example : ex1.okFor false C09.envT = true := by decide
example : tableOf ex1 = [(3, 1), (2, 1), (1, 0)] := by decide
example : nestingTable (cps "((a)|[(\\]]+(?:b(c)))\\2") = some [(3, 1), (2, 1), (1, 0)] := by
  decide +kernel
/-- … and by the theorem -/
example : nestingTable ex1.render = some (tableOf ex1) :=
  nesting_of_render C09.envT envNamesPlain_envT false ex1 (by decide)

/-- `[^a-[b(-[)]]](x)\((y)\)`: nested subtraction with parentheses inside, escaped parentheses
    outside: two groups, both at top level -/
def ex2 : Ast :=
  .one (.cons (.cls (.minus true [.one (.plain 97)]
          (.minus false [.one (.plain 98), .one (.plain 40)] (.leaf false [.one (.plain 41)])))) none
    (.cons (.group (.one (.cons (.chr 120) none .nil))) none
      (.cons (.esc 40) none (.cons (.group (.one (.cons (.chr 121) none .nil))) none
        (.cons (.esc 41) none .nil)))))

example : ex2.render = cps "[^a-[b(-[)]]](x)\\((y)\\)" := by decide
example : ex2.okFor false C09.envT = true := by decide
example : tableOf ex2 = [(2, 0), (1, 0)] ∧ nestingTable ex2.render = some [(2, 0), (1, 0)] := by
  decide +kernel

/-- `(?:(a)(b(c)){2,3}?)\p{L}`: groups below a non-capturing group and a quantifier; braces of the
    quantifier and of `\p{L}` are ordinary text for the scanner -/
def ex3 : Ast :=
  .one (.cons (.ncgroup (.one (.cons (.group (.one (.cons (.chr 97) none .nil))) none
      (.cons (.group (.one (.cons (.chr 98) none
          (.cons (.group (.one (.cons (.chr 99) none .nil))) none .nil))))
        (some ⟨.range [50] [51], true⟩) .nil)))) none
    (.cons (.prop true [76]) none .nil))

example : ex3.render = cps "(?:(a)(b(c)){2,3}?)\\p{L}" := by decide
example : ex3.okFor false C09.envT = true := by decide
example : tableOf ex3 = [(3, 2), (2, 0), (1, 0)] ∧
    nestingTable ex3.render = some [(3, 2), (2, 0), (1, 0)] := by decide +kernel

/-- the compiled programs: the table `analyze` computes agrees with the compiled tree (checked, and
    by the theorem) -/
def progOf (r : Out Prog) : Prog :=
  match r with
  | .ok pr => pr
  | _ => mkBareProgram [] .nothing 1 {} false

example : tblOK [(3, 1), (2, 1), (1, 0)] (progOf (compileCore C09.envT {} ex1.render true)).op 0 = true := by
  decide +kernel
example : tblOK [(3, 2), (2, 0), (1, 0)] (progOf (compileCore C09.envT {} ex3.render true)).op 0 = true := by
  decide +kernel
example (pr : Prog) (h : compileCore C09.envT {} ex1.render true = .ok pr) :
    ∃ tbl, nestingTable pr.pattern = some tbl ∧ tblOK tbl pr.op 0 = true := by
  obtain ⟨a, _, _, _, _, _, a6, a7⟩ := compile_nesting C09.envT envNamesPlain_envT {} rfl ex1.render
    (by decide) true pr h
  exact ⟨_, a6, a7⟩

/-- `analyze` itself on `ex1`: no panic, 3 entries on the input `xaabcz` (non-match, match, non-match) -/
def analyzeCount (pat input : List Nat) : Option Nat :=
  match Regex.new C09.envT pat [] false true with
  | .ok r =>
    (match r.analyze id input 100 with
     | .ok (es, _) => some es.length
     | _ => none)
  | _ => none

example : analyzeCount ex1.render (cps "x(]bcbcz") = some 3 := by decide +kernel
example : analyzeCount ex3.render (cps "abcbcQ") = some 1 := by decide +kernel

/-- why `EnvNamesPlain` is a hypothesis: an environment that knew a category called `a)` would
    make the parser accept `\p{a)}`, on which the scanner panics (`)` with an empty stack).  Not a
    defect of the crate — its names are the Unicode ones (`envNamesPlain_std`). -/
def envOdd : Env := { C09.envT with category := fun n => if n = [97, 41] then some [(0, 1)] else none }

example : (match compileCore envOdd {} (cps "\\p{a)}") true with | .ok _ => true | _ => false) = true ∧
    nestingTable (cps "\\p{a)}") = none := by decide +kernel

end Rx.C03d
