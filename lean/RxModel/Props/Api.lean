/-
  Props/Api — end-to-end corollaries: from the pattern TEXT to the API answer.

  The engine theorems (C01, C02, C05, C06) are stated for compiled programs satisfying decidable
  hypotheses; Props/WF shows the compiler establishes them.  Chained together they speak about
  `Regex.new` (flags → pre-pass → parser → optimize → ReProgram::new → nullability) and `is_match`
  on ANY pattern text, flag string and input.  `NoSat` is the only side condition (no saturated
  body length, i.e. quantifier bounds whose products stay below 2^64).
-/
import RxModel.Props.WF
import RxModel.Props.C01
import RxModel.Props.C02
import RxModel.Props.C05
import RxModel.Props.C06
import RxModel.Props.C08b
import RxModel.Proofs.ApiLemmas
namespace Rx.Api
open Rx

/-- the side condition of `WF.compile_wf` for a pattern under given flags -/
def NoSat (env : Env) (fl : Flags) (p : List Nat) : Prop :=
  ∀ op s, parseExpr { pat := (if !fl.literal && fl.allowWs then stripWs p 0 false else p), fl := fl.core, env := env }
            (4 * (if !fl.literal && fl.allowWs then stripWs p 0 false else p).length + 16) {} true = .ok op s →
          WF.noSat (optimize env fl.core op) = true ∧ WF.noSat op = true

/-- whatever `Regex::new` accepts is a program satisfying the hypotheses of the engine theorems -/
theorem new_wf (env : Env) (p fs : List Nat) (xsd : Bool) (fl : Flags) (r : Regex)
    (hf : parseFlags fs xsd = some fl) (h : Regex.new env p fs xsd true = .ok r) (hns : NoSat env fl p) :
    wfOp r.prog.op = true ∧ C02.capsPos r.prog.op = true ∧
    (hasBackref r.prog.op = true → r.prog.hasBackrefs = true) ∧
    (hasBackref r.prog.op = false → C05.FactsOK r.prog) := by
  unfold Regex.new at h
  rw [hf] at h
  dsimp only at h
  cases hc : compileProg env fl p true with
  | ok pr =>
    rw [hc] at h
    dsimp only at h
    cases hn : pr.nullable env.lower with
    | ok n =>
      rw [hn] at h
      simp only [Out.ok.injEq] at h
      subst h
      exact WF.compile_wf env fl.core _ pr hc hns
    | err e => rw [hn] at h; cases h
    | panic c => rw [hn] at h; cases h
    | diverge => rw [hn] at h; cases h
  | err e => rw [hc] at h; cases h
  | panic c => rw [hc] at h; cases h
  | diverge => rw [hc] at h; cases h

/-- C01, sound half, from pattern text: `is_match = true` only if some substring of the input is in
    the language of the compiled pattern -/
theorem isMatch_sound (env : Env) (p fs : List Nat) (xsd : Bool) (fl : Flags) (r : Regex)
    (hf : parseFlags fs xsd = some fl) (h : Regex.new env p fs xsd true = .ok r) (hns : NoSat env fl p)
    (input : List Nat) (hm : r.prog.isMatch env.lower input = .ok true) :
    ∃ i j, i ≤ j ∧ j ≤ input.length ∧ OpR (r.prog.ctx env.lower input) r.prog.op i j := by
  obtain ⟨hwf, _, _, _⟩ := new_wf env p fs xsd fl r hf h hns
  exact C01.isMatch_sound r.prog env.lower input hwf hm

/-- C05 from pattern text: for a pattern without back-references `is_match` never panics -/
theorem isMatch_no_panic (env : Env) (p fs : List Nat) (xsd : Bool) (fl : Flags) (r : Regex)
    (hf : parseFlags fs xsd = some fl) (h : Regex.new env p fs xsd true = .ok r) (hns : NoSat env fl p)
    (hnb : hasBackref r.prog.op = false) (hb : r.prog.hasBackrefs = false)
    (input : List Nat) (hlen : input.length < usizeMax) (c : Nat) :
    r.prog.isMatch env.lower input ≠ .panic c := by
  obtain ⟨_, _, _, hfo⟩ := new_wf env p fs xsd fl r hf h hns
  exact C05.isMatch_no_panic r.prog env.lower input hb hnb (hfo hnb) hlen c

/-- the preconditions `ReProgram::new` records are of the simple shape C06 needs -/
theorem addPre_simple (ml : Bool) (op : Op) (hwf : wfOp op = true) (hne : C08.noEmptyAtoms op = true)
    (fp : Option Nat) (mp : Nat) : ∀ q ∈ addPre ml op fp mp, C06.simplePre q.op = true :=
  ApiL.addPre_simple ml op hwf hne fp mp

/-- C06 from pattern text: `is_match` terminates (the model's fuels suffice) for every accepted
    pattern whose reluctant variable repeats have a minimum below `len + 1000` -/
theorem isMatch_terminates (env : Env) (p fs : List Nat) (xsd : Bool) (fl : Flags) (r : Regex)
    (hf : parseFlags fs xsd = some fl) (h : Regex.new env p fs xsd true = .ok r) (hns : NoSat env fl p)
    (input : List Nat) (hsm : C06.smallMin input.length r.prog.op = true)
    (hpre : ∀ q ∈ r.prog.pres, C06.simplePre q.op = true) :
    r.prog.isMatch env.lower input ≠ .diverge := by
  obtain ⟨hwf, _, _, _⟩ := new_wf env p fs xsd fl r hf h hns
  exact C06.isMatch_no_diverge r.prog env.lower input hwf hsm hpre

/-- C02 from pattern text: a reported match is a span inside the input, at or after the requested
    position, and a member of the language of the compiled pattern -/
theorem match_span (env : Env) (p fs : List Nat) (xsd : Bool) (fl : Flags) (r : Regex)
    (hf : parseFlags fs xsd = some fl) (h : Regex.new env p fs xsd true = .ok r) (hns : NoSat env fl p)
    (input : List Nat) (i : Nat) (hi : i ≤ input.length) (st st' : St)
    (hm : matchesFrom (r.prog.ctx env.lower input) r.prog i st = (true, st')) :
    ∃ a b, getParenStart st' 0 = some a ∧ getParenEnd st' 0 = some b ∧ i ≤ a ∧ a ≤ b ∧ b ≤ input.length ∧
      OpR (r.prog.ctx env.lower input) r.prog.op a b := by
  obtain ⟨hwf, hcp, _, _⟩ := new_wf env p fs xsd fl r hf h hns
  exact C02.matchesFrom_span r.prog env.lower input hwf hcp i hi st st' hm

/-- bonus: the hypothesis `hpre` of `isMatch_terminates` holds for every program `ReProgram::new`
    builds from a well-formed tree without empty literal (`addPre_simple` through `numberPres` /
    `numberReps`) -/
theorem pres_simple (pat : List Nat) (op : Op) (mp : Nat) (fl : CFlags) (hb : Bool)
    (hwf : wfOp op = true) (hne : C08.noEmptyAtoms op = true) :
    ∀ q ∈ (mkProgram pat op mp fl hb).pres, C06.simplePre q.op = true :=
  ApiL.mkProgram_pres_simple pat op mp fl hb hwf hne

end Rx.Api
