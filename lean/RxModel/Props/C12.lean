/-
  Props/C12 — anchors and dot follow the m and s flags exactly.
-/
import RxModel.Model.Compile
import RxModel.Props.C09
namespace Rx.C12
open Rx

/-- `^`: a pure position test — offset 0, or (flag m) right after a newline that is not the last
    character of the input; yields only its own position and leaves the state alone -/
theorem bol_spec (ctx : Ctx) (p : Nat) (st : St) :
    bolGen ctx p st =
      if p = 0 ∨ (ctx.multiLine = true ∧ ctx.input[p - 1]? = some 10 ∧ p < ctx.len)
      then Step.once p st else Step.nil st := by
  unfold bolGen Ctx.nlAt
  by_cases hp : p = 0
  · simp [hp]
  · simp [hp, and_assoc]

/-- `$`: the end of the input, or (flag m) right before a newline -/
theorem eol_spec (ctx : Ctx) (p : Nat) (st : St) :
    eolGen ctx p st =
      if p ≥ ctx.len ∨ (ctx.multiLine = true ∧ ctx.input[p]? = some 10)
      then Step.once p st else Step.nil st := by
  unfold eolGen Ctx.nlAt
  by_cases hm : ctx.multiLine = true <;> by_cases hp : p ≥ ctx.len <;> by_cases hz : ctx.len = 0 <;>
    simp [hm, hp, hz] <;> omega

/-- without m, `^` matches only at offset 0 -/
theorem bol_no_m (ctx : Ctx) (hm : ctx.multiLine = false) (p : Nat) (hp : p ≠ 0) (st : St) :
    bolGen ctx p st = Step.nil st := by
  rw [bol_spec]; simp [hm, hp]

/-- with m, `^` does not match after a final newline -/
theorem bol_not_after_final_newline (ctx : Ctx) (p : Nat) (hp : p ≠ 0) (hend : p = ctx.len) (st : St) :
    bolGen ctx p st = Step.nil st := by
  rw [bol_spec, if_neg]; omega

/-- without m, `$` matches only at the end -/
theorem eol_no_m (ctx : Ctx) (hm : ctx.multiLine = false) (p : Nat) (hp : p < ctx.len) (st : St) :
    eolGen ctx p st = Step.nil st := by
  rw [eol_spec, if_neg]; simp [hm]; omega

/-- the compiler turns `.` into the class "everything but LF and CR", or "everything" with flag s,
    whatever the other flags are -/
theorem dot_compiles (c : PC) (f : Nat) (s : PS) (h : c.at s.idx = 46) :
    parseTerminal c (f + 1) s =
      .ok (.cls (if c.fl.singleLine then allR else complR (addChars [10, 13] []))) { s with idx := s.idx + 1 } := by
  rw [parseTerminal]; simp [h]

/-- in the XPath dialect `^` / `$` compile to the anchors wherever a terminal may stand -/
theorem bol_compiles (c : PC) (hx : c.fl.xsd = false) (f : Nat) (s : PS) (h : c.at s.idx = 94) :
    parseTerminal c (f + 1) s = .ok .bol { s with idx := s.idx + 1 } := by
  rw [parseTerminal]; simp [h, hx]

theorem eol_compiles (c : PC) (hx : c.fl.xsd = false) (f : Nat) (s : PS) (h : c.at s.idx = 36) :
    parseTerminal c (f + 1) s = .ok .eol { s with idx := s.idx + 1 } := by
  rw [parseTerminal]; simp [h, hx]

/-- a quantified anchor: `^*`, `^?`, `^{0,n}` require nothing; `^+`, `^{n,m}` (n ≥ 1) are the anchor -/
theorem anchor_star (c : PC) (ret : Op) (ha : isAnchor ret = true) (s : PS) (hlt : s.idx < c.len)
    (hq : c.at s.idx = 42 ∨ c.at s.idx = 63)
    (hnr : ¬ (s.idx + 1 < c.len ∧ c.at (s.idx + 1) = 63)) :
    pieceQuant c ret s = .ok .nothing { s with idx := s.idx + 1 } := by
  unfold pieceQuant
  have h1 : ¬ (s.idx ≥ c.len) := by omega
  have hr : (decide (s.idx + 1 < c.len) && c.at (s.idx + 1) == 63) = false := by
    simpa using hnr
  rcases hq with hq | hq <;> simp [h1, hq, ha, hr, mzs, ZLS_ANYWHERE]

theorem anchor_plus (c : PC) (ret : Op) (ha : isAnchor ret = true) (s : PS) (hlt : s.idx < c.len)
    (hq : c.at s.idx = 43)
    (hnr : ¬ (s.idx + 1 < c.len ∧ c.at (s.idx + 1) = 63)) :
    pieceQuant c ret s = .ok ret { s with idx := s.idx + 1 } := by
  unfold pieceQuant
  have h1 : ¬ (s.idx ≥ c.len) := by omega
  have hr : (decide (s.idx + 1 < c.len) && c.at (s.idx + 1) == 63) = false := by
    simpa using hnr
  cases ret <;> simp [isAnchor] at ha <;>
    simp [h1, hq, hr, mzs, isAnchor, ZLS_ANYWHERE, ZLS_AT_START, ZLS_AT_END]

example : bolGen { input := [97, 10, 98, 10], caseBlind := false, multiLine := true, hasBackrefs := false, maxParens := 1, lower := id } 2 {}
    = Step.once 2 {} := by rfl
example : bolGen { input := [97, 10, 98, 10], caseBlind := false, multiLine := true, hasBackrefs := false, maxParens := 1, lower := id } 4 {}
    = Step.nil {} := by rfl

end Rx.C12
