/-
  Props/C03e — captured groups inside ALTERNATIVES ("groups inside alternations that fail and are
  retried", C03): what the engine reports, proved, and where it deviates from the property.

  Fragment `altCaps` (Spec/PathCaps2): `straightCaps` plus captures and back-references inside the
  branches of alternations, recursively through seq / capture / choice; nothing under a quantifier.
  A back-reference may refer to any group closed earlier on the straight line (also the straight line
  of the branch it sits in) — `scopeOK2`; group numbers are allotted once.

  WHAT IS TRUE (theorems below; `ReprT … none`):
    * the engine enumerates exactly the paths of the semantics with their environments, in priority
      order (`sem_enumC_alt`): alternatives in order, and inside them as on the straight fragment;
    * after `match_at` / `matches`: every group the selected path BINDS is reported exactly (reported
      arrays and the arrays back-references read), every group outside the tree is absent, and every
      group of an alternative that was NOT selected (abandoned after it had set the group, or never
      tried) is reported ABSENT OR AS AN EMPTY SPAN — never as a stale non-empty span.  The mechanism:
      `choiceGen` runs `clear_captured_groups_beyond(p)` before every branch and the sequence iterator
      clears at every yield (`end := start` for every group starting at or after the position), so a
      group set on an abandoned path is emptied before anything to its right is tried again; when the
      abandoned branch is a sequence with captures its iterator restores the reported arrays and the
      group is absent again.
    * consequently `get_paren(g)` of a group that did not participate is `None` or `Some("")`, and the
      `$N` expansion of `replace` is the one the property prescribes (`getParen_alt`).
  THE DEVIATION (kernel-checked on a compiled program, confirmed read-only against the crate with
  `/tmp/ag/rq '((a)|ab)c' '' analyze abc` → `M(G1(G2() S:'ab') S:'c')`): a group of an abandoned
  alternative that is not restored is reported as an EMPTY group, not as an absent one.  `analyze`
  therefore emits an empty `Group` node for it (C03 says "absent (analyze)"); the full `Repr` of C03b
  fails (`alt_empty_not_absent`).  `replace` is not affected ("empty (replace)").
  Back-reference arrays: the entries of abandoned groups are emptied by the same clearing steps and are
  never restored; a back-reference to such a group would match the empty string, as the semantics
  prescribes for a group that did not participate — not proved here (`scopeOK2` only allows
  back-references to groups that are certainly bound), see the example at the end.
-/
import RxModel.Spec.PathCaps2
import RxModel.Proofs.PathCaps2Lemmas
import RxModel.Proofs.C03cTree
namespace Rx.C03e
open Rx

/-! ### 1. the engine against the path semantics -/

/-- **exactness on the enlarged fragment.**  Started at `p` in an all-tidy state representing `e`, the
    iterator yields exactly `enumC2 ctx op p e`; at the yield `(n, e')` the state represents `e'`
    exactly on the groups `e'` binds and is tidy at level `n` on the other groups of `fut`; this holds
    under every consumer that resumes with such a state; at exhaustion the state represents `e`, tidy at
    level `p`. -/
theorem sem_enumC_alt (ctx : Ctx) (op : Op) (hs : altCaps op = true) (hwf : wfOp op = true)
    (cl ub : List Nat) (opn : List (Nat × Nat)) (fut : List Nat)
    (hsc : scopeOK2 ctx.hasBackrefs ctx.maxParens op cl ub = true)
    (hfut : ∀ g ∈ capsOf op, g ∈ fut) (hopn : ∀ g pg, (g, pg) ∈ opn → g ∈ ub)
    (lo p : Nat) (e : CEnv) (st : St) (hp : p ≤ ctx.len) (hlo : lo ≤ p) (he : EnvIn e lo p) (hd : Dom cl e)
    (hsub : ∀ k, (e k).isSome = true → k ∈ ub) (hst : ReprT ctx opn fut none st e) :
    Step.SeqT (fun n st' e' => ReprT ctx opn fut (some n) st' e') (fun n st' e' => ReprT ctx opn fut (some n) st' e')
      (fun st' => ReprT ctx opn fut (some p) st' e) (sem ctx op p st) (enumC2 ctx op p e) :=
  sem_seqT ctx lo op hs hwf cl ub opn fut hsc hfut hopn p e st hp hlo he hd hsub hst

/-- `enumC2` lists exactly the (end, environment) pairs of the path semantics -/
theorem enumC2_iff_PathR (ctx : Ctx) (op : Op) (hs : altCaps op = true) (hwf : wfOp op = true)
    (lo p : Nat) (e : CEnv) (hp : p ≤ ctx.len) (hlo : lo ≤ p) (he : EnvIn e lo p) (q : Nat) (e' : CEnv) :
    (q, e') ∈ enumC2 ctx op p e ↔ PathR ctx op p e q e' :=
  ⟨fun h => (enumC2_facts ctx lo op hs hwf [] p e hp hlo he (Dom.nil e) (q, e') h).path,
   fun h => enumC2_complete ctx op hs hwf p e q e' hp h⟩

/-! ### 2. `match_at` and `matches` -/

/-- the decidable program-side hypotheses: the tree is a sequence in the fragment, well-formed, with
    group numbers `≥ 1`, correctly scoped -/
def altOK (hbr : Bool) (mp : Nat) (op : Op) : Bool :=
  match op with
  | .seq _ => altCaps op && wfOp op && C02.capsPos op && scopeOK2 hbr mp op [] []
  | _ => false

theorem altOK2_of {ctx : Ctx} {op : Op} (h : altOK ctx.hasBackrefs ctx.maxParens op = true) : AltOK2 ctx op := by
  cases op with
  | seq ops =>
    simp only [altOK, Bool.and_eq_true] at h
    exact ⟨ops, rfl, ⟨h.1.1.1, h.1.1.2, h.1.2, h.2⟩⟩
  | _ => simp [altOK] at h

/-- **`match_at` on the enlarged fragment** (from a state whose reported arrays are clear outside the
    tree and tidy on it, e.g. a fresh one): the first path of the priority order, group 0, and
    `ReprT … none`: every bound group exact, every other group absent or empty -/
theorem matchAt_caps_alt (ctx : Ctx) (op : Op) (hok : altOK ctx.hasBackrefs ctx.maxParens op = true)
    (j : Nat) (hj : j ≤ ctx.len) (st st' : St) (hst : Good2 op st) (h : matchAt ctx op j st = (true, st')) :
    ∃ n e', MatchRes2 ctx op j n e' st' := by
  rcases matchAt_casesT2 ctx op (altOK2_of hok) j hj st hst with ⟨_, st2, n, e', he, hres⟩ | ⟨_, st2, he, _⟩
  · rw [h] at he
    simp only [Prod.mk.injEq, true_and] at he
    subst he
    exact ⟨n, e', hres⟩
  · rw [h] at he; cases he

/-- reading `ReprT … none`: what `get_paren_start / get_paren_end` report for every group `≥ 1` -/
theorem groups_alt {ctx : Ctx} {op : Op} {st' : St} {e' : CEnv} (h : ReprT ctx [] (capsOf op) none st' e')
    (g : Nat) (hg : 1 ≤ g) :
    (∀ a b, e' g = some (a, b) → getParenStart st' g = some a ∧ getParenEnd st' g = some b) ∧
    (e' g = none → g ∉ capsOf op → getParenStart st' g = none ∧ getParenEnd st' g = none) ∧
    (e' g = none → getParenStart st' g = none ∨ getParenEnd st' g = getParenStart st' g) := by
  refine ⟨fun a b he => ?_, fun he hn => ?_, fun he => ?_⟩
  · have := h.agree g hg (.inr (by rw [he]; rfl))
    rw [he] at this
    exact ⟨this.1, this.2.1⟩
  · have := h.agree g hg (.inl hn)
    rw [he] at this
    exact ⟨this.1, this.2.1⟩
  · by_cases hm : g ∈ capsOf op
    · exact h.tidy g hg hm he (fun pg hc => by cases hc)
    · have := h.agree g hg (.inl hm)
      rw [he] at this
      exact .inl this.1

/-- hence `replace` sees the prescribed text: `$N` of a group that did not participate is empty -/
theorem getParen_alt {ctx : Ctx} {op : Op} {j n : Nat} {e' : CEnv} {st' : St}
    (h : MatchRes2 ctx op j n e' st') (input : List Nat) (g : Nat) :
    (getParen input st' g).getD [] = (grpOf input j n e' g).getD [] := by
  unfold getParen grpOf
  by_cases hg : g = 0
  · subst hg
    have := h.reprT.pc0
    rw [if_pos (by omega), h.start0, h.end0]
    simp
  · have hg1 : 1 ≤ g := by omega
    rw [if_neg hg]
    cases he : e' g with
    | some ab =>
      have ha := h.reprT.agree g hg1 (.inr (by rw [he]; rfl))
      rw [he] at ha
      have hpc := h.reprT.pc g hg1 (by rw [he]; rfl)
      simp only [getParenStart, getParenEnd, ha.1, ha.2.1, Option.map_some, if_pos hpc]
    | none =>
      simp only [Option.map_none, Option.getD_none]
      have := (groups_alt h.reprT g hg1).2.2 he
      split
      · rcases this with hs | hs
        · rw [hs]; rfl
        · rw [hs]
          cases hst : getParenStart st' g with
          | none => rfl
          | some a => simp [slice]
      · rfl

/-- **`matches(i)` on the enlarged fragment**: the leftmost start from which a path exists, the first
    path of the priority order from there, and the state of `matchAt_caps_alt` -/
theorem matchesFrom_caps_alt (pr : Prog) (lower : Nat → Nat) (input : List Nat)
    (hok : altOK pr.hasBackrefs pr.maxParens pr.op = true)
    (F : SearchComplete.SearchFacts (pr.ctx lower input) pr)
    (hpres : ∀ q ∈ pr.pres, SearchComplete.preShape q.op = true ∧ C06.simplePre q.op = true)
    (hlen : input.length < usizeMax)
    (i : Nat) (hi : i ≤ input.length) (st st' : St) (hst : st.panic = none)
    (h : matchesFrom (pr.ctx lower input) pr i st = (true, st')) :
    ∃ j n e', i ≤ j ∧ MatchRes2 (pr.ctx lower input) pr.op j n e' st' ∧
      (∀ k, i ≤ k → k < j → ¬ ∃ n' e'', PathR (pr.ctx lower input) pr.op k CEnv.empty n' e'') := by
  have ho := matchesFrom_outcomeT F hlen (altOK2_of (ctx := pr.ctx lower input) hok)
    (fun q hq => ⟨SearchComplete.preShape_completeAt _ q.op (hpres q hq).1, (hpres q hq).2⟩) i hi st hst
  rw [h] at ho
  rcases ho with ⟨_, j, stj, n, e', h1, _, h3, _, hres⟩ | ⟨hf, _⟩
  · exact ⟨j, n, e', h1, hres, h3⟩
  · cases hf

/-- `matches(i) = false`: no path starts at or after `i`; the state stays clean -/
theorem matchesFrom_caps_alt_false (pr : Prog) (lower : Nat → Nat) (input : List Nat)
    (hok : altOK pr.hasBackrefs pr.maxParens pr.op = true)
    (F : SearchComplete.SearchFacts (pr.ctx lower input) pr)
    (hpres : ∀ q ∈ pr.pres, SearchComplete.preShape q.op = true ∧ C06.simplePre q.op = true)
    (hlen : input.length < usizeMax)
    (i : Nat) (hi : i ≤ input.length) (st st' : St) (hst : st.panic = none)
    (h : matchesFrom (pr.ctx lower input) pr i st = (false, st')) :
    (∀ j, i ≤ j → j ≤ input.length → ¬ ∃ n e', PathR (pr.ctx lower input) pr.op j CEnv.empty n e') ∧
    st'.panic = none := by
  have ho := matchesFrom_outcomeT F hlen (altOK2_of (ctx := pr.ctx lower input) hok)
    (fun q hq => ⟨SearchComplete.preShape_completeAt _ q.op (hpres q hq).1, (hpres q hq).2⟩) i hi st hst
  rw [h] at ho
  rcases ho with ⟨ht, _⟩ | ⟨_, hg, hno⟩
  · cases ht
  · exact ⟨hno, hg.2⟩

/-! ### 3. the deviation: an abandoned group is reported EMPTY, not ABSENT -/
section deviation

private def env0 : Env :=
  { lower := id, closure := fun _ => [], category := fun _ => none, block := fun _ => none,
    digit := [], word := [], nameStart := [], nameChar := [] }

/-- `((a)|ab)c` -/
private def devPat : List Nat := [40, 40, 97, 41, 124, 97, 98, 41, 99]

/-- the tree the compiler builds for it -/
def devTree : Op :=
  .seq [.capture 1 (.choice [.capture 2 (.atom [97]), .atom [97, 98]]), .atom [99], .endProgram]

/-- on "abc" -/
def devCtx : Ctx :=
  { input := [97, 98, 99], caseBlind := false, multiLine := false, hasBackrefs := false, maxParens := 3, lower := id }

example : (match compileCore env0 {} devPat true with
    | .ok pr => opEq pr.op devTree && (pr.hasBackrefs == false) && (pr.maxParens == 3) && !pr.caseBlind && !pr.multiLine
    | _ => false) = true := by decide +kernel

/-- the only path from 0: the SECOND alternative; group 1 = "ab", group 2 did not participate -/
theorem dev_paths (n : Nat) (e' : CEnv) (h : PathR devCtx devTree 0 CEnv.empty n e') :
    n = 3 ∧ e' 1 = some (0, 2) ∧ e' 2 = none := by
  simp only [devTree, PathR, PathRSeq, PathRAny, OpR, or_false] at h
  obtain ⟨m, e1, ⟨e0, hb, rfl⟩, m2, e2, ⟨rfl, rfl, hm2, hpm⟩, m3, e3, ⟨rfl, rfl⟩, rfl, rfl⟩ := h
  rcases hb with ⟨e00, ⟨rfl, hm, _, _⟩, rfl⟩ | ⟨rfl, hm, _, _⟩
  · simp only [List.length_cons, List.length_nil] at hm
    subst hm
    exact absurd hpm (by decide)
  · simp only [List.length_cons, List.length_nil] at hm
    subst hm
    refine ⟨rfl, by simp [CEnv.set], by simp [CEnv.set, CEnv.empty]⟩

/-- **the full statement of C03b (`Repr`) is false on the enlarged fragment.**  For `((a)|ab)c` on "abc"
    — in the fragment, so `matchAt_caps_alt` applies — `match_at(0)` succeeds and reports group 2 as the
    EMPTY span `(0, 0)`, whereas on the only path group 2 did not participate: no path is represented
    exactly by the final state.  (First alternative `(a)`: group 2 := `(0, 1)`, then `c` fails; before the
    second alternative `clear_captured_groups_beyond(0)` sets `end := start`.) -/
theorem alt_empty_not_absent :
    altOK devCtx.hasBackrefs devCtx.maxParens devTree = true ∧
    (matchAt devCtx devTree 0 {}).1 = true ∧
    getParenStart (matchAt devCtx devTree 0 {}).2 2 = some 0 ∧
    getParenEnd (matchAt devCtx devTree 0 {}).2 2 = some 0 ∧
    ¬ ∃ n e', PathR devCtx devTree 0 CEnv.empty n e' ∧ Repr devCtx (matchAt devCtx devTree 0 {}).2 e' := by
  have hs : getParenStart (matchAt devCtx devTree 0 {}).2 2 = some 0 := by decide +kernel
  refine ⟨by decide, by decide +kernel, hs, by decide +kernel, ?_⟩
  rintro ⟨n, e', hp, hr⟩
  have h1 := (dev_paths n e' hp).2.2
  have h2 := (C03b.matchAt_groups hr 2 (by decide)).1
  rw [h1, hs] at h2
  simp at h2

/-- … while the weaker statement proved above does hold of that state -/
example : ∃ n e', MatchRes2 devCtx devTree 0 n e' (matchAt devCtx devTree 0 {}).2 :=
  matchAt_caps_alt devCtx devTree (by decide) 0 (by decide) {} _ ⟨cap2_of_nil _ _ rfl rfl, rfl⟩
    (by
      have h : (matchAt devCtx devTree 0 {}).1 = true := by decide +kernel
      rw [← h])

/-- `analyze` on the compiled regex emits the empty `Group 2` node (the crate answers the same:
    `M(G1(G2() S:'ab') S:'c')`), where C03 prescribes no node for a group that did not participate
    (`groupTree` of the path: `Group 1 [ab]`, `c`) -/
example : (match Regex.new env0 devPat [] false with
    | .ok r =>
      (match r.analyze id [97, 98, 99] 100 with
       | .ok (es, _) =>
         aEqL es [.isMatch [.group 1 [.group 2 [], .str [97, 98]], .str [99]]] &&
         !aEqL es [.isMatch (groupTree devTree [97, 98, 99]
            (0, 3, ((enumC2 devCtx devTree 0 CEnv.empty).head?.map (·.2)).getD CEnv.empty))] &&
         mEqL (groupTree devTree [97, 98, 99]
            (0, 3, ((enumC2 devCtx devTree 0 CEnv.empty).head?.map (·.2)).getD CEnv.empty))
           [.group 1 [.str [97, 98]], .str [99]]
       | _ => false)
    | _ => false) = true := by decide +kernel

/-- `replace` is not affected: `[$1|$2]` gives `[ab|]` -/
example : (match Regex.new env0 devPat [] false with
    | .ok r => decide (r.replaceAll id [97, 98, 99] [91, 36, 49, 124, 36, 50, 93] = .ok [91, 97, 98, 124, 93])
    | _ => false) = true := by decide +kernel

end deviation

/-! ### 4. non-vacuity: compiled programs with groups and back-references inside alternatives -/
section examples

private def env1 : Env :=
  { lower := id, closure := fun _ => [], category := fun _ => none, block := fun _ => none,
    digit := [], word := [], nameStart := [], nameChar := [] }

private theorem matchAt_mk {ctx : Ctx} {op : Op} {i : Nat} {st : St} (h : (matchAt ctx op i st).1 = true) :
    matchAt ctx op i st = (true, (matchAt ctx op i st).2) := by
  rw [← h]

private def groups4 (st' : St) : List (Option Nat) :=
  [getParenStart st' 0, getParenEnd st' 0, getParenStart st' 1, getParenEnd st' 1,
   getParenStart st' 2, getParenEnd st' 2, getParenStart st' 3, getParenEnd st' 3]

/-- `(x)(?:(a)\1|(a)\3)c` on "xaac": the first alternative sets group 2, its back-reference `\1` fails, the
    sequence iterator restores group 2 (absent); the second alternative sets group 3 and `\3` matches -/
private def t5 : Op :=
  .seq [.capture 1 (.atom [120]),
        .choice [.seq [.capture 2 (.atom [97]), .backref 1], .seq [.capture 3 (.atom [97]), .backref 3]],
        .atom [99], .endProgram]
private def ctx5 : Ctx :=
  { input := [120, 97, 97, 99], caseBlind := false, multiLine := false, hasBackrefs := true, maxParens := 4, lower := id }

example : (match compileCore env1 {}
      [40, 120, 41, 40, 63, 58, 40, 97, 41, 92, 49, 124, 40, 97, 41, 92, 51, 41, 99] true with
    | .ok pr => opEq pr.op t5 && (pr.hasBackrefs == true) && (pr.maxParens == 4) && !pr.caseBlind && !pr.multiLine &&
        altOK pr.hasBackrefs pr.maxParens pr.op
    | _ => false) = true := by decide +kernel

example : ∃ n e', MatchRes2 ctx5 t5 0 n e' (matchAt ctx5 t5 0 {}).2 :=
  matchAt_caps_alt ctx5 t5 (by decide) 0 (by decide) {} _ ⟨cap2_of_nil _ _ rfl rfl, rfl⟩
    (matchAt_mk (by decide +kernel))
example : groups4 (matchAt ctx5 t5 0 {}).2 = [some 0, some 4, some 0, some 1, none, none, some 1, some 2] ∧
    (enumC2 ctx5 t5 0 CEnv.empty).map (fun x => (x.1, x.2 1, x.2 2, x.2 3)) =
      [(4, some (0, 1), none, some (1, 2))] := ⟨by decide +kernel, by decide +kernel⟩

/-- `(?:(a)|(ab))c` on "abc": group 1 of the abandoned alternative is reported empty, group 2 exact -/
private def t6 : Op :=
  .seq [.choice [.capture 1 (.atom [97]), .capture 2 (.atom [97, 98])], .atom [99], .endProgram]
private def ctx6 : Ctx :=
  { input := [97, 98, 99], caseBlind := false, multiLine := false, hasBackrefs := false, maxParens := 3, lower := id }

example : (match compileCore env1 {} [40, 63, 58, 40, 97, 41, 124, 40, 97, 98, 41, 41, 99] true with
    | .ok pr => opEq pr.op t6 && (pr.hasBackrefs == false) && (pr.maxParens == 3) &&
        altOK pr.hasBackrefs pr.maxParens pr.op
    | _ => false) = true := by decide +kernel
example : ∃ n e', MatchRes2 ctx6 t6 0 n e' (matchAt ctx6 t6 0 {}).2 :=
  matchAt_caps_alt ctx6 t6 (by decide) 0 (by decide) {} _ ⟨cap2_of_nil _ _ rfl rfl, rfl⟩
    (matchAt_mk (by decide +kernel))
example : groups4 (matchAt ctx6 t6 0 {}).2 = [some 0, some 3, some 0, some 0, some 0, some 2, none, none] ∧
    (enumC2 ctx6 t6 0 CEnv.empty).map (fun x => (x.1, x.2 1, x.2 2)) = [(3, none, some (0, 2))] :=
  ⟨by decide +kernel, by decide +kernel⟩

/-- the back-reference arrays: `(?:(a)(b)x|ab)c\1` on "abc".  The abandoned alternative had set groups 1
    and 2; the reported arrays are restored (absent), the back-reference arrays are only emptied:
    `(0, 0)` and `(1, 1)`; `\1` then matches the empty string, as for a group that did not participate.
    (This back-reference is outside `scopeOK2`; the example is evidence, not a theorem.) -/
example : (match compileCore env1 {} [40, 63, 58, 40, 97, 41, 40, 98, 41, 120, 124, 97, 98, 41, 99, 92, 49] true with
    | .ok pr =>
      let r := matchAt (pr.ctx id [97, 98, 99]) pr.op 0 {}
      r.1 && (getParenStart r.2 1 == none) && (getParenStart r.2 2 == none) &&
      (r.2.startBr == [none, some 0, some 1]) && (r.2.endBr == [none, some 0, some 1]) &&
      !altOK pr.hasBackrefs pr.maxParens pr.op
    | _ => false) = true := by decide +kernel

/-- the search loop: `matchesFrom_caps_alt` applied to the program `ReProgram::new` builds for
    `((a)|ab)c`, on "xabc" from 0: the match is found at 1 -/
def exProgD : Prog := mkProgram [40, 40, 97, 41, 124, 97, 98, 41, 99] devTree 3 {} false

example : (match Regex.new env1 [40, 40, 97, 41, 124, 97, 98, 41, 99] [] false with
    | .ok r => progEq r.prog exProgD
    | _ => false) = true := by decide +kernel

example : ∃ j n e', 0 ≤ j ∧ MatchRes2 (exProgD.ctx id [120, 97, 98, 99]) exProgD.op j n e'
      (matchesFrom (exProgD.ctx id [120, 97, 98, 99]) exProgD 0 {}).2 ∧
      (∀ k, 0 ≤ k → k < j → ¬ ∃ n' e'', PathR (exProgD.ctx id [120, 97, 98, 99]) exProgD.op k CEnv.empty n' e'') :=
  matchesFrom_caps_alt exProgD id [120, 97, 98, 99] (by decide +kernel)
    (SearchComplete.mkProgram_searchFacts _ devTree 3 {} false id _ (by decide) (by decide) (by decide))
    (by
      have h : exProgD.pres.all (fun q => SearchComplete.preShape q.op && C06.simplePre q.op) = true := by
        decide +kernel
      intro q hq
      have := List.all_eq_true.1 h q hq
      simpa only [Bool.and_eq_true] using this)
    (by decide) 0 (by decide) {} _ rfl
    (by
      have h : (matchesFrom (exProgD.ctx id [120, 97, 98, 99]) exProgD 0 {}).1 = true := by decide +kernel
      rw [← h])
example : groups4 (matchesFrom (exProgD.ctx id [120, 97, 98, 99]) exProgD 0 {}).2 =
    [some 1, some 4, some 1, some 3, some 1, some 1, none, none] := by decide +kernel

end examples

end Rx.C03e
