/-
  Props/C07e — C07 for the real constructor `Regex::new(pattern, flags, language)`:

    new_iff      the constructor succeeds IFF the flag string is valid and — unless flag q — the
                 pattern (after x-stripping) is the rendering of a well-formed grammar tree with
                 quantities below 2^64
    new_errors   otherwise: `Error::InvalidFlags` when the flag string is invalid (checked FIRST, whatever
                 the pattern), `Error::Syntax` when the flags are valid, q is off and the pattern is
                 not in the grammar; no other error

  Side conditions of `new_iff` (right-to-left only — they concern the nullability probe
  `is_match("")` that `Regex::new` runs on the compiled program; `Regex.new` passes a panic or a
  non-termination of that probe on as `.panic` / `.diverge`):
    * `hns` — no fixed-length repeat body whose length saturates `usize` (`Api.NoSat`, the side
      condition of `WF.compile_wf` / `C05b.api_new_no_panic`): gives "the probe does not panic";
    * `NoHugeReluctantMin` — on the compiled program, `C06.smallMin 0` (every reluctant variable repeat
      has a minimum below 1000; a non-backtracking repeat is over one character) and the recorded
      preconditions are of the simple shape: gives "the probe terminates within the model's fuel".
      NOT dischargeable in general, and it reflects a real observation on the crate:
      `Regex::xpath("(?:^|bc){100000000}?", "")` spins through 10^8 zero-width iterations at
      construction.
  `new_errors` and the left-to-right half of `new_iff` need neither.
  AFTER fix abfdb8a (the reluctant minimum loop stops at a zero-width iteration; that crate run now
  returns) the second hypothesis is discharged for every compiled program: `probe_ok_all`,
  `new_iff_all` (only `NoSat` left), `api_isMatch_no_diverge`.  `new_iff` is kept as it was.
-/
import RxModel.Props.C07d
import RxModel.Props.C03d
import RxModel.Props.C05b
import RxModel.Props.C06
import RxModel.Props.C06b
import RxModel.Proofs.ProbeLemmas
import RxModel.Props.C07
import RxModel.Props.WF
namespace Rx.C07e
open Rx Rx.Grammar
open Rx.C07b (ParserQuirkFree)

/-- the text the parser sees: flag x strips whitespace (not for a literal pattern) -/
def effPat (fl : Flags) (p : List Nat) : List Nat :=
  if !fl.literal && fl.allowWs then stripWs p 0 false else p

theorem effPat_scalar (fl : Flags) (p : List Nat) (hps : ∀ x ∈ p, x < cpLimit) :
    ∀ x ∈ effPat fl p, x < cpLimit := by
  intro x hx
  unfold effPat at hx
  split at hx
  · exact hps x (C03d.mem_stripWs _ _ _ _ hx)
  · exact hps x hx

/-- the probe hypotheses on whatever the compiler produces for this pattern and flag string -/
def NoHugeReluctantMin (env : Env) (p fs : List Nat) (xsd : Bool) : Prop :=
  ∀ fl pr, parseFlags fs xsd = some fl → compileProg env fl p true = .ok pr →
    C06.smallMin 0 pr.op = true ∧ ∀ q ∈ pr.pres, C06.simplePre q.op = true

/-- the nullability probe returns, under the hypotheses of C05b (no panic) and C06 (termination) -/
theorem probe_ok (pr : Prog) (lower : Nat → Nat) (hok : progOK pr = true) (hwf : wfOp pr.op = true)
    (hsm : C06.smallMin 0 pr.op = true) (hpre : ∀ q ∈ pr.pres, C06.simplePre q.op = true) :
    ∃ n, pr.nullable lower = .ok n := by
  unfold Prog.nullable
  cases h : pr.isMatch lower [] with
  | ok n => exact ⟨n, rfl⟩
  | err e => exact absurd h (isMatch_ne_err _ _ _ _)
  | panic c => exact absurd h (C05b.isMatch_no_panic_backrefs pr lower [] hok (by decide) c)
  | diverge => exact absurd h (C06.isMatch_no_diverge pr lower [] hwf hsm hpre)

/-- `Regex::new`, unfolded -/
theorem new_eq (env : Env) (p fs : List Nat) (xsd : Bool) :
    Regex.new env p fs xsd true =
      match parseFlags fs xsd with
      | none => .err .invalidFlags
      | some fl =>
        match compileProg env fl p true with
        | .err e => .err e
        | .panic c => .panic c
        | .diverge => .diverge
        | .ok pr =>
          match pr.nullable env.lower with
          | .ok n => .ok { prog := pr, nullable := n }
          | .err e => .err e
          | .panic c => .panic c
          | .diverge => .diverge := rfl

/-- what the compiler does with valid flags: q → always a program; otherwise the grammar decides -/
theorem compileProg_iff (env : Env) (fl : Flags) (p : List Nat) (hps : ∀ x ∈ p, x < cpLimit) :
    (∃ pr, compileProg env fl p true = .ok pr) ↔
      (fl.literal = true ∨ ∃ a : Ast, a.okFor fl.xsd env = true ∧ ParserQuirkFree a ∧
        (if fl.allowWs then stripWs p 0 false else p) = a.render) := by
  cases hlit : fl.literal with
  | true =>
    refine ⟨fun _ => .inl rfl, fun _ => ?_⟩
    have hl : fl.core.literal = true := hlit
    unfold compileProg compileCore
    simp only [hl, if_true]
    exact ⟨_, rfl⟩
  | false =>
    have hl : fl.core.literal = false := hlit
    have heff : effPat fl p = (if fl.allowWs then stripWs p 0 false else p) := by
      simp [effPat, hlit]
    have hiff := C07d.compile_iff_full env fl.core hl (effPat fl p) (effPat_scalar fl p hps) true
    rw [heff] at hiff
    have hcp : compileProg env fl p true =
        compileCore env fl.core (if fl.allowWs then stripWs p 0 false else p) true := by
      rw [← heff]; rfl
    rw [hcp]
    constructor
    · intro h; exact .inr (hiff.1 h)
    · rintro (h | h)
      · cases h
      · exact hiff.2 h

/-- **C07 for `Regex::new`.** -/
theorem new_iff (env : Env) (p fs : List Nat) (xsd : Bool) (hps : ∀ x ∈ p, x < cpLimit)
    (hns : ∀ fl, parseFlags fs xsd = some fl → Api.NoSat env fl p)
    (hnh : NoHugeReluctantMin env p fs xsd) :
    (∃ r, Regex.new env p fs xsd true = .ok r) ↔
      ∃ fl, parseFlags fs xsd = some fl ∧
        (fl.literal = true ∨ ∃ a : Ast, a.okFor xsd env = true ∧ ParserQuirkFree a ∧
          (if fl.allowWs then stripWs p 0 false else p) = a.render) := by
  constructor
  · rintro ⟨r, h⟩
    cases hf : parseFlags fs xsd with
    | none => rw [new_eq, hf] at h; cases h
    | some fl =>
      have hx : fl.xsd = xsd := (C07.flags_values fs xsd fl hf).1
      have hc := C05b.new_compiled env p fs xsd fl r hf h
      have := (compileProg_iff env fl p hps).1 ⟨_, hc⟩
      rw [hx] at this
      exact ⟨fl, rfl, this⟩
  · rintro ⟨fl, hf, h⟩
    have hx : fl.xsd = xsd := (C07.flags_values fs xsd fl hf).1
    rw [← hx] at h
    obtain ⟨pr, hc⟩ := (compileProg_iff env fl p hps).2 h
    have hok : progOK pr = true := C05b.compile_progOK env fl.core _ pr hc (hns fl hf)
    have hwf : wfOp pr.op = true := (WF.compile_wf env fl.core _ pr hc (hns fl hf)).1
    obtain ⟨hsm, hpre⟩ := hnh fl pr hf hc
    obtain ⟨n, hn⟩ := probe_ok pr env.lower hok hwf hsm hpre
    exact ⟨{ prog := pr, nullable := n }, by rw [new_eq, hf]; simp only [hc, hn]⟩

/-- the nullability probe returns for EVERY compiled program (fixes a635aaf: no panic; abfdb8a: the
    reluctant minimum loop stops at a zero-width iteration) — no `NoHugeReluctantMin` -/
theorem probe_ok_all (env : Env) (fl : Flags) (p : List Nat) (pr : Prog)
    (hc : compileProg env fl p true = .ok pr) (hns : Api.NoSat env fl p) (lower : Nat → Nat) :
    ∃ n, pr.nullable lower = .ok n := by
  have hok : progOK pr = true := C05b.compile_progOK env fl.core _ pr hc hns
  unfold Prog.nullable
  cases h : pr.isMatch lower [] with
  | ok n => exact ⟨n, rfl⟩
  | err e => exact absurd h (isMatch_ne_err _ _ _ _)
  | panic c => exact absurd h (C05b.isMatch_no_panic_backrefs pr lower [] hok (by decide) c)
  | diverge => exact absurd h (Rx.compile_no_diverge env fl.core _ pr hc hns lower [])

/-- **C07 for `Regex::new`, without the probe hypothesis**: `NoSat` is the only side condition left -/
theorem new_iff_all (env : Env) (p fs : List Nat) (xsd : Bool) (hps : ∀ x ∈ p, x < cpLimit)
    (hns : ∀ fl, parseFlags fs xsd = some fl → Api.NoSat env fl p) :
    (∃ r, Regex.new env p fs xsd true = .ok r) ↔
      ∃ fl, parseFlags fs xsd = some fl ∧
        (fl.literal = true ∨ ∃ a : Ast, a.okFor xsd env = true ∧ ParserQuirkFree a ∧
          (if fl.allowWs then stripWs p 0 false else p) = a.render) := by
  constructor
  · rintro ⟨r, h⟩
    cases hf : parseFlags fs xsd with
    | none => rw [new_eq, hf] at h; cases h
    | some fl =>
      have hx : fl.xsd = xsd := (C07.flags_values fs xsd fl hf).1
      have hc := C05b.new_compiled env p fs xsd fl r hf h
      have := (compileProg_iff env fl p hps).1 ⟨_, hc⟩
      rw [hx] at this
      exact ⟨fl, rfl, this⟩
  · rintro ⟨fl, hf, h⟩
    have hx : fl.xsd = xsd := (C07.flags_values fs xsd fl hf).1
    rw [← hx] at h
    obtain ⟨pr, hc⟩ := (compileProg_iff env fl p hps).2 h
    obtain ⟨n, hn⟩ := probe_ok_all env fl p pr hc (hns fl hf) env.lower
    exact ⟨{ prog := pr, nullable := n }, by rw [new_eq, hf]; simp only [hc, hn]⟩

/-- `is_match` never diverges on whatever `Regex::new` accepts: C06 from the pattern text, for every
    accepted pattern and every input -/
theorem api_isMatch_no_diverge (env : Env) (p fs : List Nat) (xsd : Bool) (fl : Flags) (r : Regex)
    (hf : parseFlags fs xsd = some fl) (h : Regex.new env p fs xsd true = .ok r) (hns : Api.NoSat env fl p)
    (input : List Nat) : r.prog.isMatch env.lower input ≠ .diverge :=
  Rx.compile_no_diverge env fl.core _ r.prog (C05b.new_compiled env p fs xsd fl r hf h) hns env.lower input

/-- left to right needs no side condition -/
theorem new_ok_grammar (env : Env) (p fs : List Nat) (xsd : Bool) (hps : ∀ x ∈ p, x < cpLimit)
    (r : Regex) (h : Regex.new env p fs xsd true = .ok r) :
    ∃ fl, parseFlags fs xsd = some fl ∧
      (fl.literal = true ∨ ∃ a : Ast, a.okFor xsd env = true ∧ ParserQuirkFree a ∧
        (if fl.allowWs then stripWs p 0 false else p) = a.render) := by
  cases hf : parseFlags fs xsd with
  | none => rw [new_eq, hf] at h; cases h
  | some fl =>
    have hx : fl.xsd = xsd := (C07.flags_values fs xsd fl hf).1
    have hc := C05b.new_compiled env p fs xsd fl r hf h
    have := (compileProg_iff env fl p hps).1 ⟨_, hc⟩
    rw [hx] at this
    exact ⟨fl, rfl, this⟩

/-- **the errors, and their causes.**  The flag string is checked first: an invalid one gives
    `InvalidFlags` whatever the pattern; with valid flags (q off) a pattern outside the grammar gives
    `Syntax`; and these are the only errors `Regex::new` reports. -/
theorem new_errors (env : Env) (p fs : List Nat) (xsd : Bool) (hps : ∀ x ∈ p, x < cpLimit) :
    (C07.flagsOK xsd fs = false → Regex.new env p fs xsd true = .err .invalidFlags) ∧
    (∀ fl, parseFlags fs xsd = some fl → fl.literal = false →
      (¬ ∃ a : Ast, a.okFor xsd env = true ∧ ParserQuirkFree a ∧
          (if fl.allowWs then stripWs p 0 false else p) = a.render) →
      Regex.new env p fs xsd true = .err .syntax) ∧
    (∀ e, Regex.new env p fs xsd true = .err e →
      (e = .invalidFlags ∧ C07.flagsOK xsd fs = false) ∨
      (e = .syntax ∧ ∃ fl, parseFlags fs xsd = some fl ∧ fl.literal = false ∧
        ¬ ∃ a : Ast, a.okFor xsd env = true ∧ ParserQuirkFree a ∧
          (if fl.allowWs then stripWs p 0 false else p) = a.render)) := by
  refine ⟨fun h => (C07.new_invalid_flags env p fs xsd true).2 h, ?_, ?_⟩
  · intro fl hf hlit hno
    have hx : fl.xsd = xsd := (C07.flags_values fs xsd fl hf).1
    have hl : fl.core.literal = false := hlit
    have heff : effPat fl p = (if fl.allowWs then stripWs p 0 false else p) := by simp [effPat, hlit]
    have hrej := C07d.reject_syntax_full env fl.core hl (effPat fl p) (effPat_scalar fl p hps) true
      (by rw [heff]; show ¬ ∃ a : Ast, a.okFor fl.xsd env = true ∧ _; rw [hx]; exact hno)
    have hc : compileProg env fl p true = .err .syntax := hrej
    rw [new_eq, hf]
    simp only [hc]
  · intro e h
    cases hf : parseFlags fs xsd with
    | none =>
      left
      rw [new_eq, hf] at h
      simp only [Out.err.injEq] at h
      refine ⟨h.symm, ?_⟩
      rw [← C07.flags_spec, hf]; rfl
    | some fl =>
      right
      have hx : fl.xsd = xsd := (C07.flags_values fs xsd fl hf).1
      rw [new_eq, hf] at h
      simp only [] at h
      cases hc : compileProg env fl p true with
      | ok pr =>
        rw [hc] at h
        simp only [] at h
        cases hn : pr.nullable env.lower with
        | ok n => rw [hn] at h; cases h
        | err e2 => exact absurd hn (isMatch_ne_err _ _ _ _)
        | panic c => rw [hn] at h; cases h
        | diverge => rw [hn] at h; cases h
      | panic c => rw [hc] at h; cases h
      | diverge => rw [hc] at h; cases h
      | err e2 =>
        rw [hc] at h
        simp only [Out.err.injEq] at h
        subst h
        have hsyn := C07c.compileProg_err_syntax env fl p true _ hc
        have hnone : ¬ ∃ pr, compileProg env fl p true = .ok pr := by
          rintro ⟨pr, hp⟩; rw [hp] at hc; cases hc
        have hcases := fun hh => hnone ((compileProg_iff env fl p hps).2 hh)
        rw [hx] at hcases
        refine ⟨hsyn, fl, rfl, ?_, fun ha => hcases (.inr ha)⟩
        cases hl : fl.literal with
        | false => rfl
        | true => exact absurd (.inl hl) hcases

/-! ### examples (environment `C09.envT`) -/

/-- 0 = ok, 1 = `Syntax`, 2 = `InvalidFlags`, 3 = anything else -/
def outcome (r : Out Regex) : Nat :=
  match r with
  | .ok _ => 0
  | .err .syntax => 1
  | .err .invalidFlags => 2
  | _ => 3

/-- `Regex::new("(a", "")` is a syntax error; `Regex::new("a", "z")` has invalid flags (also with a
    bad pattern: flags first); `Regex::new("( a )", "x")` succeeds, `"( a )"` without x as well (a
    space is a normal character), `"(a"` with q succeeds -/
example : outcome (Regex.new C09.envT (cps "(a") (cps "") false true) = 1 ∧
    outcome (Regex.new C09.envT (cps "a") (cps "z") false true) = 2 ∧
    outcome (Regex.new C09.envT (cps "(a") (cps "z") false true) = 2 ∧
    outcome (Regex.new C09.envT (cps "( a )") (cps "x") false true) = 0 ∧
    outcome (Regex.new C09.envT (cps "( a )") (cps "") false true) = 0 ∧
    outcome (Regex.new C09.envT (cps "(a") (cps "q") false true) = 0 := by decide +kernel

/-- the tree behind `"( a )"` with flag x: the stripped text `(a)` -/
example : stripWs (cps "( a )") 0 false =
    (RegExp.one (.cons (.group (.one (.cons (.chr 97) none .nil))) none .nil)).render := by decide

/-- non-vacuity of the probe hypothesis: `(a|b)*?c` (a reluctant variable repeat with minimum 0) -/
example : NoHugeReluctantMin C09.envT (cps "(a|b)*?c") (cps "") false := by
  intro fl pr hf hc
  have hfl : parseFlags (cps "") false = some {} := by decide
  rw [hfl] at hf
  simp only [Option.some.injEq] at hf
  subst hf
  have hpr : C03d.progOf (compileProg C09.envT {} (cps "(a|b)*?c") true) = pr := by rw [hc]; rfl
  rw [← hpr]
  have h1 : C06.smallMin 0 (C03d.progOf (compileProg C09.envT {} (cps "(a|b)*?c") true)).op = true := by
    decide +kernel
  have h2 : (C03d.progOf (compileProg C09.envT {} (cps "(a|b)*?c") true)).pres.all
      (fun q => C06.simplePre q.op) = true := by decide +kernel
  exact ⟨h1, fun q hq => List.all_eq_true.1 h2 q hq⟩

end Rx.C07e
