/-
  Props/C08 — compile-time optimisations never change a result (the part that is a theorem).

  Stated against the compositional language `OpR` of the compiled tree (Spec/OpLang), which does
  not know about iterators, state or exploration order:
    * each search shortcut only skips start positions at which no member of the language starts
      (minimum length, literal prefix, first-character class, start anchor);
    * `optimize` preserves the language of every well-formed tree; the static analyses it relies
      on (`matches_empty_string`, `get_minimum_match_length`) are sound.
  That the optimised and the un-optimised *engine* return identical results (spans, captures, every
  API) is not a theorem — the zero-length-match memo makes results depend on which positions were
  tried — and is decided by running the real crate both ways (hook H1) on every run.
-/
import RxModel.Spec.OpLang
import RxModel.Model.Program
import RxModel.Props.C01
namespace Rx.C08
open Rx

/-- every member of the language is at least `get_minimum_match_length` long -/
theorem minLen_sound (ctx : Ctx) (hlen : ctx.len < usizeMax) (op : Op) (p q : Nat) (hp : p ≤ ctx.len)
    (h : OpR ctx op p q) : p + minLenOp op ≤ q := by
  sorry

/-- minimum-length cut-off: if fewer than `minimum_length` characters remain after `i`, no member
    of the language starts at or after `i` -/
theorem minlen_cutoff_sound (ctx : Ctx) (hlen : ctx.len < usizeMax) (op : Op) (i j q : Nat)
    (hcut : ctx.len - i < minLenOp op) (hij : i ≤ j) (hj : j ≤ ctx.len) : ¬ OpR ctx op j q := by
  sorry

/-- literal-prefix scan: a member of the language of `atom cs · rest` starts with `cs` -/
theorem prefix_sound (ctx : Ctx) (cs : List Nat) (rest : List Op) (j q : Nat)
    (h : OpR ctx (.seq (.atom cs :: rest)) j q) :
    j + cs.length ≤ ctx.len ∧ prefixMatch ctx cs (ctx.input.drop j) = true := by
  sorry

/-- first-character filter: a member of the language of `cls rs · rest` starts with a character of `rs` -/
theorem icc_sound (ctx : Ctx) (rs : Ranges) (rest : List Op) (j q : Nat)
    (h : OpR ctx (.seq (.cls rs :: rest)) j q) :
    ∃ c, ctx.input[j]? = some c ∧ clsContains rs c = true := by
  sorry

/-- start-anchor fast path: a member of the language of `^ · rest` starts at offset 0, or (flag m)
    right after a newline that is not the last character -/
theorem hasbol_sound (ctx : Ctx) (rest : List Op) (j q : Nat) (h : OpR ctx (.seq (.bol :: rest)) j q) :
    j = 0 ∨ (ctx.multiLine = true ∧ ctx.input[j - 1]? = some 10 ∧ j < ctx.len) := by
  sorry

/-- `matches_empty_string() == MATCHES_ZLS_ANYWHERE` is sound: the empty match exists at every offset -/
theorem mzs_anywhere_sound (ctx : Ctx) (op : Op) (h : mzs op = ZLS_ANYWHERE) (p : Nat) (hp : p ≤ ctx.len) :
    OpR ctx op p p := by
  sorry

/-- `matches_empty_string() == MATCHES_ZLS_NEVER` is sound: no empty match anywhere -/
theorem mzs_never_sound (ctx : Ctx) (op : Op) (h : mzs op = ZLS_NEVER) (p : Nat) : ¬ OpR ctx op p p := by
  sorry

/-- `optimize` preserves the language of every well-formed tree -/
theorem optimize_preserves (env : Env) (fl : CFlags) (ctx : Ctx) (op : Op) (hwf : wfOp op = true)
    (p q : Nat) (hp : p ≤ ctx.len) :
    OpR ctx (optimize env fl op) p q ↔ OpR ctx op p q := by
  sorry

/-- numbering the repeat nodes (their memo keys) does not change the language -/
theorem numberReps_preserves (ctx : Ctx) (op : Op) (n : Nat) (p q : Nat) :
    OpR ctx (numberReps op n).1 p q ↔ OpR ctx op p q := by
  sorry

end Rx.C08
