/-
  Props/C08 — compile-time optimisations never change a result (the part that is a theorem).

  Stated against the compositional language `OpR` of the compiled tree (Spec/OpLang), which does
  not know about iterators, state or exploration order:
    * each search shortcut only skips start positions at which no member of the language starts
      (minimum length, literal prefix, first-character class, start anchor);
    * `optimize` preserves the language of every well-formed tree; the static analyses it relies
      on (`matches_empty_string`, `get_minimum_match_length`) are sound.
  That the optimised and the un-optimised *engine* return identical results (spans, captures, every
  API) is not a theorem — the zero-length-match memo makes results depend on which positions were
  tried — and is decided by running the real crate both ways (hook H1) on every run.
-/
import RxModel.Spec.OpLang
import RxModel.Model.Program
import RxModel.Props.C01
import RxModel.Proofs.OptLemmas
namespace Rx.C08
open Rx

/-- every member of the language is at least `get_minimum_match_length` long
    (`hlen` and `hp` turn out not to be needed: saturation only lowers the bound) -/
theorem minLen_sound (ctx : Ctx) (hlen : ctx.len < usizeMax) (op : Op) (p q : Nat) (hp : p ≤ ctx.len)
    (h : OpR ctx op p q) : p + minLenOp op ≤ q := by
  have _ := hlen
  have _ := hp
  exact OptL.minLen_op ctx op p q h

/-- minimum-length cut-off: if fewer than `minimum_length` characters remain after `i`, no member
    of the language starts at or after `i` -/
theorem minlen_cutoff_sound (ctx : Ctx) (hlen : ctx.len < usizeMax) (op : Op) (i j q : Nat)
    (hcut : ctx.len - i < minLenOp op) (hij : i ≤ j) (hj : j ≤ ctx.len) : ¬ OpR ctx op j q := by
  intro h
  have h1 := minLen_sound ctx hlen op j q hj h
  have h2 := (C01.OpR_bounds ctx op j q hj h).2
  omega

/-- literal-prefix scan: a member of the language of `atom cs · rest` starts with `cs` -/
theorem prefix_sound (ctx : Ctx) (cs : List Nat) (rest : List Op) (j q : Nat)
    (h : OpR ctx (.seq (.atom cs :: rest)) j q) :
    j + cs.length ≤ ctx.len ∧ prefixMatch ctx cs (ctx.input.drop j) = true := by
  simp only [OpR, OpRSeq] at h
  obtain ⟨m, ⟨rfl, hm, hpre⟩, _⟩ := h
  exact ⟨hm, hpre⟩

/-- first-character filter: a member of the language of `cls rs · rest` starts with a character of `rs` -/
theorem icc_sound (ctx : Ctx) (rs : Ranges) (rest : List Op) (j q : Nat)
    (h : OpR ctx (.seq (.cls rs :: rest)) j q) :
    ∃ c, ctx.input[j]? = some c ∧ clsContains rs c = true := by
  simp only [OpR, OpRSeq] at h
  obtain ⟨m, ⟨_, hc⟩, _⟩ := h
  exact hc

/-- start-anchor fast path: a member of the language of `^ · rest` starts at offset 0, or (flag m)
    right after a newline that is not the last character -/
theorem hasbol_sound (ctx : Ctx) (rest : List Op) (j q : Nat) (h : OpR ctx (.seq (.bol :: rest)) j q) :
    j = 0 ∨ (ctx.multiLine = true ∧ ctx.input[j - 1]? = some 10 ∧ j < ctx.len) := by
  simp only [OpR, OpRSeq] at h
  obtain ⟨m, ⟨_, hb⟩, _⟩ := h
  exact hb

/-- `matches_empty_string() == MATCHES_ZLS_ANYWHERE` is sound: the empty match exists at every offset.

    ORIGINAL STATEMENT — FALSE as stated (no well-formedness hypothesis): for a repeat with
    `min > max` (e.g. `.rep 0 .nothing 2 1 true`) `matches_empty_string` answers ANYWHERE (it only
    looks at `min` and the child) but the language is empty.  Kept as a `Prop`; refuted by
    `mzs_anywhere_sound_false`; the true statement (for well-formed trees, which is all the compiler
    builds and all the driver admits) is `mzs_anywhere_sound_partial`. -/
def mzs_anywhere_sound : Prop :=
  ∀ (ctx : Ctx) (op : Op), mzs op = ZLS_ANYWHERE → ∀ (p : Nat), p ≤ ctx.len → OpR ctx op p p

section counterexample
private def cexCtx : Ctx :=
  { input := [], caseBlind := false, multiLine := false, hasBackrefs := false, maxParens := 1,
    lower := fun c => c }
private def cexOp : Op := .rep 0 .nothing 2 1 true

example : mzs cexOp = ZLS_ANYWHERE := by decide
example : wfOp cexOp = false := by decide

/-- the original `mzs_anywhere_sound` is false -/
theorem mzs_anywhere_sound_false : ¬ mzs_anywhere_sound := by
  intro h
  have h1 := h cexCtx cexOp (by decide) 0 (Nat.zero_le _)
  simp only [cexOp, OpR] at h1
  obtain ⟨k, h2, h3, _⟩ := h1
  omega
end counterexample

/-- `matches_empty_string() == MATCHES_ZLS_ANYWHERE` is sound on well-formed trees: the empty match
    exists at every offset.  (Only the quantifier-bound part of `wfOp` is used:
    `OptL.anywhere_op` needs `OptL.bnd op`, i.e. `min ≤ max` on every repeat.) -/
theorem mzs_anywhere_sound_partial (ctx : Ctx) (op : Op) (hwf : wfOp op = true)
    (h : mzs op = ZLS_ANYWHERE) (p : Nat) (hp : p ≤ ctx.len) : OpR ctx op p p :=
  OptL.anywhere_op ctx op (OptL.bnd_of_wf op hwf) h p hp

/-- `matches_empty_string() == MATCHES_ZLS_NEVER` is sound: no empty match anywhere -/
theorem mzs_never_sound (ctx : Ctx) (op : Op) (h : mzs op = ZLS_NEVER) (p : Nat) : ¬ OpR ctx op p p :=
  OptL.never_op ctx op h p

/-- `optimize` preserves the language of every well-formed tree -/
theorem optimize_preserves (env : Env) (fl : CFlags) (ctx : Ctx) (op : Op) (hwf : wfOp op = true)
    (p q : Nat) (hp : p ≤ ctx.len) :
    OpR ctx (optimize env fl op) p q ↔ OpR ctx op p q :=
  OptL.opt_op env fl ctx op hwf p q hp

/-- numbering the repeat nodes (their memo keys) does not change the language -/
theorem numberReps_preserves (ctx : Ctx) (op : Op) (n : Nat) (p q : Nat) :
    OpR ctx (numberReps op n).1 p q ↔ OpR ctx op p q :=
  OptL.num_op ctx op n p q

end Rx.C08
