/-
  Props/C18 — a compiled Regex is a pure, reusable value (the part that is a theorem about E).

  `World.run` executes a history of calls — is_match, replace_all, opening tokenize / analyze
  iterators, `next` on any live iterator in any interleaving, drops — against shared objects.
  `specRun` answers every call from freshly made objects only: a call's answer is a function of
  (pattern object, arguments), and the k-th `next` of an iterator is the k-th step of a fresh
  iterator over the same regex and input.  The theorem: the two coincide for every history.
  What the model cannot exhibit — real thread interleavings, the process-wide block table, RefCell
  re-entrancy — is explored by the harness (histories run sequentially and from several OS threads
  on shared objects, every answer compared with the fresh single call); `Regex: Send + Sync` is a
  compile-time assertion in the harness.
-/
import RxModel.Model.World
import RxModel.Proofs.WorldLemmas
namespace Rx.C18
open Rx

/-- history independence: starting with no live iterators, every answer in every history is the
    answer computed from scratch -/
theorem history_independence (lower : Nat → Nat) (objs : Nat → Option Regex) (ops : List HOp) :
    World.run lower { objs := objs, its := fun _ => none } ops = specRun lower objs [] ops :=
  run_eq_specRun lower objs ops _ [] (agree_init lower objs)

/-- the compiled objects are never modified by any call -/
theorem objs_immutable (lower : Nat → Nat) (w : World) (op : HOp) : (w.step lower op).1.objs = w.objs :=
  World.step_objs lower w op

/-- a call touches at most the one iterator it names: all others are left exactly as they were -/
theorem other_iterators_untouched (lower : Nat → Nat) (w : World) (op : HOp) (i : Nat)
    (hi : match op with
          | .openTok _ j _ => i ≠ j | .openAna _ j _ => i ≠ j | .next j => i ≠ j | .drop j => i ≠ j | _ => True) :
    (w.step lower op).1.its i = w.its i :=
  World.step_its_other lower w op i hi

/-- re-running any stateless call gives the same answer, whatever happened in between -/
theorem stateless_calls_repeatable (lower : Nat → Nat) (w : World) (mid : List HOp) (k : Nat) (input : List Nat) :
    (w.step lower (.isMatch k input)).2 =
      (((mid.foldl (fun w' op => (w'.step lower op).1) w)).step lower (.isMatch k input)).2 := by
  have key : ∀ w₁ w₂ : World, w₁.objs = w₂.objs →
      (w₁.step lower (.isMatch k input)).2 = (w₂.step lower (.isMatch k input)).2 := by
    intro w₁ w₂ h
    simp only [World.step, h]
    split <;> rfl
  exact key _ _ (World.foldl_step_objs lower mid w).symm

/-- two objects compiled from the same pattern are interchangeable -/
theorem same_pattern_same_answers (lower : Nat → Nat) (objs : Nat → Option Regex) (k1 k2 : Nat)
    (h : objs k1 = objs k2) (past : List HOp) (input : List Nat) :
    specAnswer lower objs past (.isMatch k1 input) = specAnswer lower objs past (.isMatch k2 input) := by
  simp only [specAnswer, h]

end Rx.C18
