/-
  Props/Clean4Laws — two families of laws carried over to the larger fragments `cleanProg3` (greedy variable
  repeats over deterministic bodies, Spec/Enum3) and `cleanProg4` (plus general reluctant repeats, Spec/Enum4).

  A. CASE INVARIANCE (C11), the `enum4` versions of Props/C11c:
       `enum4_case_invariant`, `enum4_pattern_case_invariant` (and `enum3_…`): the ordered enumerations are
         EQUAL LISTS on case-equivalent inputs / for case-equivalent trees (every tree).  The existing relation
         `CaseEquivOps` (Props/C11b) already relates `.rep` nodes, so no new relation is needed.
       `clean4_isMatch_case_invariant`, `clean4_span_case_invariant`, `clean4_pattern_case_invariant`:
         same `is_match`, same Boolean of `matches(i)`, same (start, end) of group 0.
       `clean4_…_case_invariant_std`: the real lower-case table `Env.std.lower` on inputs without U+0130.
         As for Clean2 (Props/C11c, header item 4) the Clean4 completeness theorems need under flag i the
         UNRESTRICTED `CaseOK env lower` of the tables `env` used for the side conditions of `cleanProg4`;
         that is false of `env = Env.std` (`EnvStd.caseOK_std_false`), so `env` stays a parameter here.
       `clean3_…`: the `cleanProg3` corollaries.
  B. EQUIVALENT SPELLINGS (C20): `api4_same_language`, `api4_same_spans`, `api4_same_spans_of_unique`.
-/
import RxModel.Proofs.Clean4CaseLemmas
import RxModel.Props.Clean4Api
namespace Rx.Clean4Laws
open Rx Rx.C11b Rx.SearchComplete Rx.Clean4Case
open Rx.C08 (noEmptyAtoms)

/-! ## A.1 the ordered enumeration -/

/-- **`enum4` on case-equivalent inputs**: the same ends in the same priority order (every tree) -/
theorem enum4_case_invariant (A : Nat → Bool) (ctx : Ctx) (ys : List Nat) (hcb : ctx.caseBlind = true)
    (hin : CaseEquivInputs ctx.lower ctx.input ys) (hA : Over A ctx.input) (hA' : Over A ys)
    (hnl : NewlineCaseless ctx.lower) (op : Op) (hc : allClsClosedOn A ctx.lower op) (p : Nat) :
    enum4 ctx op p = enum4 { ctx with input := ys } op p :=
  enum4_inv_op A ctx { ctx with input := ys } (sameSettings_input ctx ys) hcb hin hA hA' hnl op hc p

/-- **`enum4` of two case-equivalent trees** (`CaseEquivOps` relates `.rep` nodes with the same id, bounds
    and greediness and case-equivalent bodies) -/
theorem enum4_pattern_case_invariant (ctx : Ctx) (hcb : ctx.caseBlind = true) (op op' : Op)
    (he : CaseEquivOps ctx.lower op op') (p : Nat) : enum4 ctx op p = enum4 ctx op' p :=
  enum4_pat_op ctx hcb op op' he p

theorem enum3_case_invariant (A : Nat → Bool) (ctx : Ctx) (ys : List Nat) (hcb : ctx.caseBlind = true)
    (hin : CaseEquivInputs ctx.lower ctx.input ys) (hA : Over A ctx.input) (hA' : Over A ys)
    (hnl : NewlineCaseless ctx.lower) (op : Op) (hc : allClsClosedOn A ctx.lower op) (p : Nat) :
    enum3 ctx op p = enum3 { ctx with input := ys } op p :=
  enum3_inv_op A ctx { ctx with input := ys } (sameSettings_input ctx ys) hcb hin hA hA' hnl op hc p

theorem enum3_pattern_case_invariant (ctx : Ctx) (hcb : ctx.caseBlind = true) (op op' : Op)
    (he : CaseEquivOps ctx.lower op op') (p : Nat) : enum3 ctx op p = enum3 ctx op' p :=
  enum3_pat_op ctx hcb op op' he p

/-! ## A.2 `is_match` and the reported span on case-equivalent inputs (`cleanProg4` fragment)

  `InputOKFor` is needed for BOTH inputs (their characters differ).  The side conditions `detB`, `nonNull`,
  first sets of `cleanProg4` refer to the tree only. -/

/-- the language of the program on the two inputs -/
theorem prog_lang (A : Nat → Bool) (pat : List Nat) (op : Op) (mp : Nat) (fl : CFlags) (lower : Nat → Nat)
    (xs ys : List Nat) (hi : fl.caseBlind = true) (hcl : allClsClosedOn A lower op) (hnl : NewlineCaseless lower)
    (hin : CaseEquivInputs lower xs ys) (hA : Over A xs) (hA' : Over A ys) (p q : Nat) :
    OpR ((mkProgram pat op mp fl false).ctx lower xs) (mkProgram pat op mp fl false).op p q ↔
    OpR ((mkProgram pat op mp fl false).ctx lower ys) (mkProgram pat op mp fl false).op p q := by
  have hcb : (mkProgram pat op mp fl false).caseBlind = true := by
    rw [(mkProgram_shape pat op mp fl false).2.1]; exact hi
  rw [prog_language_case_invariant_on A (mkProgram pat op mp fl false) lower xs ys hcb hin hA hA' hnl
    (allClsClosedOn_mkProgram A lower pat op mp fl false hcl)]

/-- **`is_match` on case-equivalent inputs**, general greedy and reluctant repeats allowed -/
theorem clean4_isMatch_case_invariant (A : Nat → Bool) (env : Env) (pat : List Nat) (op : Op) (mp : Nat)
    (fl : CFlags) (lower : Nat → Nat) (xs ys : List Nat) (hi : fl.caseBlind = true)
    (hIx : InputOKFor env fl lower xs) (hIy : InputOKFor env fl lower ys)
    (hc : cleanProg4 env fl.caseBlind fl.multiLine (mkProgram pat op mp fl false).op = true)
    (hwf : wfOp op = true) (hne : noEmptyAtoms op = true)
    (hcan : clsCanonB (mkProgram pat op mp fl false).op = true)
    (hcl : allClsClosedOn A lower op) (hnl : NewlineCaseless lower)
    (hin : CaseEquivInputs lower xs ys) (hA : Over A xs) (hA' : Over A ys) (hlen : xs.length < usizeMax) :
    (mkProgram pat op mp fl false).isMatch lower xs = (mkProgram pat op mp fl false).isMatch lower ys :=
  CaseE.isMatch_agree
    (prog_lang A pat op mp fl lower xs ys hi hcl hnl hin hA hA')
    hin.1
    (Clean4.clean4_isMatch_ok env pat op mp fl lower xs hIx hc hwf hne hcan hlen)
    (Clean4.clean4_isMatch_ok env pat op mp fl lower ys hIy hc hwf hne hcan (hin.1 ▸ hlen))

/-- **`matches(i)` on case-equivalent inputs**: same Boolean, same start AND same end of group 0, from any
    two clean states -/
theorem clean4_span_case_invariant (A : Nat → Bool) (env : Env) (pat : List Nat) (op : Op) (mp : Nat)
    (fl : CFlags) (lower : Nat → Nat) (xs ys : List Nat) (hi : fl.caseBlind = true)
    (hIx : InputOKFor env fl lower xs) (hIy : InputOKFor env fl lower ys)
    (hc : cleanProg4 env fl.caseBlind fl.multiLine (mkProgram pat op mp fl false).op = true)
    (hwf : wfOp op = true) (hne : noEmptyAtoms op = true)
    (hcan : clsCanonB (mkProgram pat op mp fl false).op = true)
    (hcl : allClsClosedOn A lower op) (hnl : NewlineCaseless lower)
    (hin : CaseEquivInputs lower xs ys) (hA : Over A xs) (hA' : Over A ys) (hlen : xs.length < usizeMax)
    (i : Nat) (hix : i ≤ xs.length) (st1 st2 : St) (h1 : st1.panic = none) (h2 : st2.panic = none) :
    let pr := mkProgram pat op mp fl false
    (matchesFrom (pr.ctx lower xs) pr i st1).1 = (matchesFrom (pr.ctx lower ys) pr i st2).1 ∧
    (C02.capsPos op = true → (matchesFrom (pr.ctx lower xs) pr i st1).1 = true →
      getParenStart (matchesFrom (pr.ctx lower xs) pr i st1).2 0 =
        getParenStart (matchesFrom (pr.ctx lower ys) pr i st2).2 0 ∧
      getParenEnd (matchesFrom (pr.ctx lower xs) pr i st1).2 0 =
        getParenEnd (matchesFrom (pr.ctx lower ys) pr i st2).2 0) := by
  intro pr
  have hleny : ys.length < usizeMax := hin.1 ▸ hlen
  have hiy : i ≤ ys.length := hin.1 ▸ hix
  have hL := prog_lang A pat op mp fl lower xs ys hi hcl hnl hin hA hA'
  have hb := CaseE.found_agree hL hin.1
    (Clean4.clean4_matchesFrom_iff env pat op mp fl lower xs hIx hc hwf hne hcan hlen i hix st1 h1).1
    (Clean4.clean4_matchesFrom_iff env pat op mp fl lower ys hIy hc hwf hne hcan hleny i hiy st2 h2).1
  refine ⟨hb, fun hcp ht => ?_⟩
  obtain ⟨j1, n1, a1, b1, c1, d1, _, _, e1, f1⟩ :=
    Clean4.clean4_match_is_leftmost_first env pat op mp fl lower xs hIx hc hwf hne hcan hcp hlen i hix st1
      (matchesFrom (pr.ctx lower xs) pr i st1).2 h1 (Prod.ext ht rfl)
  obtain ⟨j2, n2, a2, b2, c2, d2, _, _, e2, f2⟩ :=
    Clean4.clean4_match_is_leftmost_first env pat op mp fl lower ys hIy hc hwf hne hcan hcp hleny i hiy st2
      (matchesFrom (pr.ctx lower ys) pr i st2).2 h2 (Prod.ext (hb ▸ ht) rfl)
  have hcb : (pr.ctx lower xs).caseBlind = true := by
    show (mkProgram pat op mp fl false).caseBlind = true
    rw [(mkProgram_shape pat op mp fl false).2.1]; exact hi
  exact CaseE.Reports.agree hL
    (fun j => by
      rw [enum4_inv_op A (pr.ctx lower xs) (pr.ctx lower ys) (C11c.prog_settings pr lower xs ys) hcb hin hA hA' hnl
        pr.op (allClsClosedOn_mkProgram A lower pat op mp fl false hcl) j])
    ⟨j1, n1, a1, b1, c1, d1, e1, f1⟩ ⟨j2, n2, a2, b2, c2, d2, e2, f2⟩

/-! ## A.3 pattern letters replaced by case counterparts -/

/-- **two case-equivalent trees on one input**: the same `is_match` answer, the same Boolean of
    `matches(i)`, the same start and the same end of group 0 -/
theorem clean4_pattern_case_invariant (env : Env) (pat1 pat2 : List Nat) (op1 op2 : Op) (mp : Nat) (fl : CFlags)
    (lower : Nat → Nat) (input : List Nat) (hi : fl.caseBlind = true) (hI : InputOKFor env fl lower input)
    (hc1 : cleanProg4 env fl.caseBlind fl.multiLine (mkProgram pat1 op1 mp fl false).op = true)
    (hwf1 : wfOp op1 = true) (hne1 : noEmptyAtoms op1 = true)
    (hcan1 : clsCanonB (mkProgram pat1 op1 mp fl false).op = true)
    (hc2 : cleanProg4 env fl.caseBlind fl.multiLine (mkProgram pat2 op2 mp fl false).op = true)
    (hwf2 : wfOp op2 = true) (hne2 : noEmptyAtoms op2 = true)
    (hcan2 : clsCanonB (mkProgram pat2 op2 mp fl false).op = true)
    (he : CaseEquivOps lower op1 op2) (hlen : input.length < usizeMax) :
    let pr1 := mkProgram pat1 op1 mp fl false
    let pr2 := mkProgram pat2 op2 mp fl false
    pr1.isMatch lower input = pr2.isMatch lower input ∧
    ∀ (i : Nat), i ≤ input.length → ∀ (st1 st2 : St), st1.panic = none → st2.panic = none →
      (matchesFrom (pr1.ctx lower input) pr1 i st1).1 = (matchesFrom (pr2.ctx lower input) pr2 i st2).1 ∧
      (C02.capsPos op1 = true → C02.capsPos op2 = true → (matchesFrom (pr1.ctx lower input) pr1 i st1).1 = true →
        getParenStart (matchesFrom (pr1.ctx lower input) pr1 i st1).2 0 =
          getParenStart (matchesFrom (pr2.ctx lower input) pr2 i st2).2 0 ∧
        getParenEnd (matchesFrom (pr1.ctx lower input) pr1 i st1).2 0 =
          getParenEnd (matchesFrom (pr2.ctx lower input) pr2 i st2).2 0) := by
  intro pr1 pr2
  have hctx : pr1.ctx lower input = pr2.ctx lower input := CaseE.ctx_eq' pat1 pat2 op1 op2 mp fl false lower input
  have hcb : (pr2.ctx lower input).caseBlind = true := by
    show (mkProgram pat2 op2 mp fl false).caseBlind = true
    rw [(mkProgram_shape pat2 op2 mp fl false).2.1]; exact hi
  have heP : CaseEquivOps (pr2.ctx lower input).lower pr1.op pr2.op :=
    caseEquiv_mkProgram lower pat1 pat2 op1 op2 mp fl false he
  have hL : ∀ p q, OpR (pr1.ctx lower input) pr1.op p q ↔ OpR (pr2.ctx lower input) pr2.op p q := by
    intro p q
    rw [hctx]
    exact OpR_pattern_case_invariant (pr2.ctx lower input) hcb pr1.op pr2.op heP p q
  have hE : ∀ j, (enum4 (pr1.ctx lower input) pr1.op j).head? = (enum4 (pr2.ctx lower input) pr2.op j).head? := by
    intro j
    rw [hctx, enum4_pattern_case_invariant (pr2.ctx lower input) hcb pr1.op pr2.op heP j]
  refine ⟨CaseE.isMatch_agree hL rfl
    (Clean4.clean4_isMatch_ok env pat1 op1 mp fl lower input hI hc1 hwf1 hne1 hcan1 hlen)
    (Clean4.clean4_isMatch_ok env pat2 op2 mp fl lower input hI hc2 hwf2 hne2 hcan2 hlen), ?_⟩
  intro i hii st1 st2 h1 h2
  have hb := CaseE.found_agree hL rfl
    (Clean4.clean4_matchesFrom_iff env pat1 op1 mp fl lower input hI hc1 hwf1 hne1 hcan1 hlen i hii st1 h1).1
    (Clean4.clean4_matchesFrom_iff env pat2 op2 mp fl lower input hI hc2 hwf2 hne2 hcan2 hlen i hii st2 h2).1
  refine ⟨hb, fun hcp1 hcp2 ht => ?_⟩
  obtain ⟨j1, n1, a1, b1, c1, d1, _, _, e1, f1⟩ :=
    Clean4.clean4_match_is_leftmost_first env pat1 op1 mp fl lower input hI hc1 hwf1 hne1 hcan1 hcp1 hlen
      i hii st1 (matchesFrom (pr1.ctx lower input) pr1 i st1).2 h1 (Prod.ext ht rfl)
  obtain ⟨j2, n2, a2, b2, c2, d2, _, _, e2, f2⟩ :=
    Clean4.clean4_match_is_leftmost_first env pat2 op2 mp fl lower input hI hc2 hwf2 hne2 hcan2 hcp2 hlen
      i hii st2 (matchesFrom (pr2.ctx lower input) pr2 i st2).2 h2 (Prod.ext (hb ▸ ht) rfl)
  exact CaseE.Reports.agree hL hE ⟨j1, n1, a1, b1, c1, d1, e1, f1⟩ ⟨j2, n2, a2, b2, c2, d2, e2, f2⟩

/-! ## A.4 the real lower-case table, inputs without U+0130 -/

/-- **`is_match` under flag i with the real lower-case table**: classes checked by the decidable
    `allClsB (clsClosedOnB notDottedI)`, inputs case-equivalent and without U+0130.  `env` (the tables used by
    the side conditions of `cleanProg4`) must be case-adequate for `Env.std.lower` (`InputOKFor`). -/
theorem clean4_isMatch_case_invariant_std (env : Env) (pat : List Nat) (op : Op) (mp : Nat) (fl : CFlags)
    (xs ys : List Nat) (hi : fl.caseBlind = true)
    (hIx : InputOKFor env fl Env.std.lower xs) (hIy : InputOKFor env fl Env.std.lower ys)
    (hc : cleanProg4 env fl.caseBlind fl.multiLine (mkProgram pat op mp fl false).op = true)
    (hwf : wfOp op = true) (hne : noEmptyAtoms op = true)
    (hcan : clsCanonB (mkProgram pat op mp fl false).op = true)
    (hchk : allClsB (clsClosedOnB notDottedI) op = true)
    (hin : CaseEquivInputs Env.std.lower xs ys) (hx : Over notDottedI xs) (hy : Over notDottedI ys)
    (hlen : xs.length < usizeMax) :
    (mkProgram pat op mp fl false).isMatch Env.std.lower xs = (mkProgram pat op mp fl false).isMatch Env.std.lower ys :=
  clean4_isMatch_case_invariant notDottedI env pat op mp fl Env.std.lower xs ys hi hIx hIy hc hwf hne hcan
    (allClsClosedOn_of_check notDottedI op hchk) newlineCaseless_std hin hx hy hlen

/-- … and so are the Boolean of `matches(i)` and the span of group 0 -/
theorem clean4_span_case_invariant_std (env : Env) (pat : List Nat) (op : Op) (mp : Nat) (fl : CFlags)
    (xs ys : List Nat) (hi : fl.caseBlind = true)
    (hIx : InputOKFor env fl Env.std.lower xs) (hIy : InputOKFor env fl Env.std.lower ys)
    (hc : cleanProg4 env fl.caseBlind fl.multiLine (mkProgram pat op mp fl false).op = true)
    (hwf : wfOp op = true) (hne : noEmptyAtoms op = true)
    (hcan : clsCanonB (mkProgram pat op mp fl false).op = true)
    (hchk : allClsB (clsClosedOnB notDottedI) op = true)
    (hin : CaseEquivInputs Env.std.lower xs ys) (hx : Over notDottedI xs) (hy : Over notDottedI ys)
    (hlen : xs.length < usizeMax)
    (i : Nat) (hix : i ≤ xs.length) (st1 st2 : St) (h1 : st1.panic = none) (h2 : st2.panic = none) :
    let pr := mkProgram pat op mp fl false
    (matchesFrom (pr.ctx Env.std.lower xs) pr i st1).1 = (matchesFrom (pr.ctx Env.std.lower ys) pr i st2).1 ∧
    (C02.capsPos op = true → (matchesFrom (pr.ctx Env.std.lower xs) pr i st1).1 = true →
      getParenStart (matchesFrom (pr.ctx Env.std.lower xs) pr i st1).2 0 =
        getParenStart (matchesFrom (pr.ctx Env.std.lower ys) pr i st2).2 0 ∧
      getParenEnd (matchesFrom (pr.ctx Env.std.lower xs) pr i st1).2 0 =
        getParenEnd (matchesFrom (pr.ctx Env.std.lower ys) pr i st2).2 0) :=
  clean4_span_case_invariant notDottedI env pat op mp fl Env.std.lower xs ys hi hIx hIy hc hwf hne hcan
    (allClsClosedOn_of_check notDottedI op hchk) newlineCaseless_std hin hx hy hlen i hix st1 st2 h1 h2

/-! ## A.5 the `cleanProg3` corollaries (greedy variable repeats only) -/

theorem clean3_isMatch_case_invariant (A : Nat → Bool) (env : Env) (pat : List Nat) (op : Op) (mp : Nat)
    (fl : CFlags) (lower : Nat → Nat) (xs ys : List Nat) (hi : fl.caseBlind = true)
    (hIx : InputOKFor env fl lower xs) (hIy : InputOKFor env fl lower ys)
    (hc : cleanProg3 env fl.caseBlind fl.multiLine (mkProgram pat op mp fl false).op = true)
    (hwf : wfOp op = true) (hne : noEmptyAtoms op = true)
    (hcan : clsCanonB (mkProgram pat op mp fl false).op = true)
    (hcl : allClsClosedOn A lower op) (hnl : NewlineCaseless lower)
    (hin : CaseEquivInputs lower xs ys) (hA : Over A xs) (hA' : Over A ys) (hlen : xs.length < usizeMax) :
    (mkProgram pat op mp fl false).isMatch lower xs = (mkProgram pat op mp fl false).isMatch lower ys :=
  clean4_isMatch_case_invariant A env pat op mp fl lower xs ys hi hIx hIy
    (Clean4.cleanProg4_of_cleanProg3 env _ _ _ hc) hwf hne hcan hcl hnl hin hA hA' hlen

theorem clean3_span_case_invariant (A : Nat → Bool) (env : Env) (pat : List Nat) (op : Op) (mp : Nat)
    (fl : CFlags) (lower : Nat → Nat) (xs ys : List Nat) (hi : fl.caseBlind = true)
    (hIx : InputOKFor env fl lower xs) (hIy : InputOKFor env fl lower ys)
    (hc : cleanProg3 env fl.caseBlind fl.multiLine (mkProgram pat op mp fl false).op = true)
    (hwf : wfOp op = true) (hne : noEmptyAtoms op = true)
    (hcan : clsCanonB (mkProgram pat op mp fl false).op = true)
    (hcl : allClsClosedOn A lower op) (hnl : NewlineCaseless lower)
    (hin : CaseEquivInputs lower xs ys) (hA : Over A xs) (hA' : Over A ys) (hlen : xs.length < usizeMax)
    (i : Nat) (hix : i ≤ xs.length) (st1 st2 : St) (h1 : st1.panic = none) (h2 : st2.panic = none) :
    let pr := mkProgram pat op mp fl false
    (matchesFrom (pr.ctx lower xs) pr i st1).1 = (matchesFrom (pr.ctx lower ys) pr i st2).1 ∧
    (C02.capsPos op = true → (matchesFrom (pr.ctx lower xs) pr i st1).1 = true →
      getParenStart (matchesFrom (pr.ctx lower xs) pr i st1).2 0 =
        getParenStart (matchesFrom (pr.ctx lower ys) pr i st2).2 0 ∧
      getParenEnd (matchesFrom (pr.ctx lower xs) pr i st1).2 0 =
        getParenEnd (matchesFrom (pr.ctx lower ys) pr i st2).2 0) :=
  clean4_span_case_invariant A env pat op mp fl lower xs ys hi hIx hIy
    (Clean4.cleanProg4_of_cleanProg3 env _ _ _ hc) hwf hne hcan hcl hnl hin hA hA' hlen i hix st1 st2 h1 h2

/-! ## A.6 non-vacuity: `(?:ab|c)+?c` under flag i with toy ASCII case tables, "xABcC" / "xabcc" -/

section example_

/-- ASCII lower-casing -/
def lowerA (x : Nat) : Nat := if 65 ≤ x ∧ x ≤ 90 then x + 32 else x
/-- tables whose case closure is the ASCII one -/
def envA : Env :=
  { lower := lowerA,
    closure := fun a => if 65 ≤ a ∧ a ≤ 90 then [a + 32] else if 97 ≤ a ∧ a ≤ 122 then [a - 32] else [],
    category := fun _ => none, block := fun _ => none, digit := [], word := [], nameStart := [], nameChar := [] }

theorem caseOK_A : C08.CaseOK envA lowerA := by
  refine ⟨fun a x h => ?_, fun a x h => ?_⟩
  · simp only [eqCB, lowerA, Bool.or_eq_true, beq_iff_eq] at h
    simp only [envA]
    split at h <;> split at h <;> split <;> (try split) <;>
      simp only [List.mem_cons, List.not_mem_nil, or_false] <;> omega
  · simp only [envA] at h
    split at h
    · simp only [List.mem_cons, List.not_mem_nil, or_false] at h
      simp only [cpLimit]; omega
    · split at h
      · simp only [List.mem_cons, List.not_mem_nil, or_false] at h
        simp only [cpLimit]; omega
      · cases h

theorem newlineCaseless_A : NewlineCaseless lowerA := by
  intro a h
  simp only [eqCB, lowerA, Bool.or_eq_true, beq_iff_eq] at h
  have h10 : ¬ (65 ≤ 10 ∧ 10 ≤ 90) := by decide
  rw [if_neg h10] at h
  split at h <;> omega

def flI : CFlags := { caseBlind := true }
/-- "xABcC" and "xabcc" -/
def exUpper : List Nat := [120, 65, 66, 99, 67]
def exLower : List Nat := [120, 97, 98, 99, 99]

theorem inputOK_A (xs : List Nat) (h1 : ∀ c ∈ xs, c < cpLimit) (h2 : ∀ c ∈ xs, isSurrogate c = false) :
    InputOKFor envA flI lowerA xs :=
  ⟨fun _ => caseOK_A, caseOK_A.2, h1, h2⟩

/-- the decidable hypotheses for the tree of `(?:ab|c)+?c` (Props/Clean4 `exTree`) under flag i -/
theorem ex_ok_i :
    cleanProg4 envA flI.caseBlind flI.multiLine (mkProgram [] Clean4.exTree 1 flI false).op = true ∧
    wfOp Clean4.exTree = true ∧ noEmptyAtoms Clean4.exTree = true ∧
    clsCanonB (mkProgram [] Clean4.exTree 1 flI false).op = true ∧ C02.capsPos Clean4.exTree = true := by
  refine ⟨?_, ?_, ?_, ?_, ?_⟩ <;> decide +kernel

theorem ex_inputs : CaseEquivInputs lowerA exUpper exLower :=
  .cons (by decide) (.cons (by decide) (.cons (by decide) (.cons (by decide) (.cons (by decide) (.nil _)))))

/-- the hypotheses of `clean4_isMatch_case_invariant` / `clean4_span_case_invariant` are satisfiable: a general
    RELUCTANT repeat under flag i, the inputs "xABcC" and "xabcc" — same answer, same span -/
example :
    let pr := mkProgram [] Clean4.exTree 1 flI false
    pr.isMatch lowerA exUpper = pr.isMatch lowerA exLower ∧
    (matchesFrom (pr.ctx lowerA exUpper) pr 0 {}).1 = (matchesFrom (pr.ctx lowerA exLower) pr 0 {}).1 ∧
    ((matchesFrom (pr.ctx lowerA exUpper) pr 0 {}).1 = true →
      getParenStart (matchesFrom (pr.ctx lowerA exUpper) pr 0 {}).2 0 =
        getParenStart (matchesFrom (pr.ctx lowerA exLower) pr 0 {}).2 0 ∧
      getParenEnd (matchesFrom (pr.ctx lowerA exUpper) pr 0 {}).2 0 =
        getParenEnd (matchesFrom (pr.ctx lowerA exLower) pr 0 {}).2 0) := by
  obtain ⟨hc, hwf, hne, hcan, hcp⟩ := ex_ok_i
  have hIx := inputOK_A exUpper (by decide) (by decide)
  have hIy := inputOK_A exLower (by decide) (by decide)
  have hcl : allClsClosedOn (fun _ => true) lowerA Clean4.exTree := by
    simp only [allClsClosedOn, Clean4.exTree, allCls, allClsL, and_self]
  have hA : ∀ xs : List Nat, Over (fun _ => true) xs := fun _ _ _ => rfl
  have hs := clean4_span_case_invariant (fun _ => true) envA [] Clean4.exTree 1 flI lowerA exUpper exLower rfl
    hIx hIy hc hwf hne hcan hcl newlineCaseless_A ex_inputs (hA _) (hA _) (by decide) 0 (Nat.zero_le _) {} {} rfl rfl
  exact ⟨clean4_isMatch_case_invariant (fun _ => true) envA [] Clean4.exTree 1 flI lowerA exUpper exLower rfl
    hIx hIy hc hwf hne hcan hcl newlineCaseless_A ex_inputs (hA _) (hA _) (by decide), hs.1, hs.2 hcp⟩

/-- … and the computed values agree: both `.ok true`, both spans `(1, 4)`; the enumerations from 1 are the
    same list `[4, 5]` (`enum4_case_invariant`) -/
theorem ex_computed_i :
    let pr := mkProgram [] Clean4.exTree 1 flI false
    ((pr.isMatch lowerA exUpper == .ok true) && (pr.isMatch lowerA exLower == .ok true) &&
     (getParenStart (matchesFrom (pr.ctx lowerA exUpper) pr 0 {}).2 0 == some 1) &&
     (getParenEnd (matchesFrom (pr.ctx lowerA exUpper) pr 0 {}).2 0 == some 4) &&
     (getParenStart (matchesFrom (pr.ctx lowerA exLower) pr 0 {}).2 0 == some 1) &&
     (getParenEnd (matchesFrom (pr.ctx lowerA exLower) pr 0 {}).2 0 == some 4) &&
     (enum4 (pr.ctx lowerA exUpper) pr.op 1 == [4, 5]) && (enum4 (pr.ctx lowerA exLower) pr.op 1 == [4, 5])) = true := by
  decide +kernel

/-- `enum4_pattern_case_invariant` applies to `(?:ab|c)+?c` against `(?:AB|c)+?C` -/
example (ctx : Ctx) (hcb : ctx.caseBlind = true) (hl : ctx.lower = lowerA) (p : Nat) :
    enum4 ctx Clean4.exTree p =
      enum4 ctx (.seq [.rep 0 (.choice [.atom [65, 66], .atom [99]]) 1 usizeMax false, .atom [67], .endProgram]) p :=
  enum4_pattern_case_invariant ctx hcb _ _ (by
    simp only [Clean4.exTree, CaseEquivOps, CaseEquivOpsL, hl, and_true, true_and]
    exact ⟨⟨CaseEquivInputs.cons (by decide) (CaseEquivInputs.cons (by decide) (CaseEquivInputs.nil _)),
      CaseEquivInputs.refl _ _⟩, CaseEquivInputs.cons (by decide) (CaseEquivInputs.nil _)⟩) p

end example_

/-! ## B. C20 at API level — equivalent spellings, `Clean4Regex` (Props/Clean4Api) -/

section spellings
open Rx.ApiGeneric Rx.ApiGeneric.Clean4Api Rx.Clean2Api
open Rx.ApiComplete (GoodInput firstFrom_none OpR_ctx_congr firstFrom_congr)

/-- the fields of the context the language depends on come from the flags -/
theorem ctx_flags4 {env : Env} {fl : Flags} {r : Regex} (R : Clean4Regex env fl r)
    (lower : Nat → Nat) (input : List Nat) :
    (r.prog.ctx lower input).caseBlind = fl.caseBlind ∧ (r.prog.ctx lower input).multiLine = fl.multiLine := by
  obtain ⟨pat, op, mp, heq, _⟩ := R.core
  rw [heq]
  obtain ⟨h1, h2, _⟩ := mkProgram_ctx pat op mp fl.core false lower input
  exact ⟨h1, h2⟩

/-- language equality of the two trees, moved to the two programs' own contexts -/
theorem lang_transfer4 {env : Env} {fl : Flags} {r1 r2 : Regex} (R1 : Clean4Regex env fl r1)
    (R2 : Clean4Regex env fl r2)
    (hlang : ∀ ctx p q, OpR ctx r1.prog.op p q ↔ OpR ctx r2.prog.op p q)
    (lower : Nat → Nat) (input : List Nat) (p q : Nat) :
    OpR (r1.prog.ctx lower input) r1.prog.op p q ↔ OpR (r2.prog.ctx lower input) r2.prog.op p q := by
  obtain ⟨a1, a2⟩ := ctx_flags4 R1 lower input
  obtain ⟨b1, b2⟩ := ctx_flags4 R2 lower input
  exact (hlang _ p q).trans
    (OpR_ctx_congr (r1.prog.ctx lower input) (r2.prog.ctx lower input) rfl (a1.trans b1.symm)
      (a2.trans b2.symm) rfl r2.prog.op p q)

/-- **two regexes of the Clean4 fragment whose trees have the same language**: the same gate bit, the same
    `is_match` on every good input, and — if they pass the gate — from every position the NEXT match starts
    at the same place -/
theorem api4_same_language {env : Env} {fl : Flags} {r1 r2 : Regex} (R1 : Clean4Regex env fl r1)
    (R2 : Clean4Regex env fl r2)
    (hlang : ∀ ctx p q, OpR ctx r1.prog.op p q ↔ OpR ctx r2.prog.op p q)
    {input : List Nat} (G : GoodInput env fl input) :
    r1.nullable = r2.nullable ∧
    r1.prog.isMatch env.lower input = r2.prog.isMatch env.lower input ∧
    (r1.nullable = false → ∀ pos, pos ≤ input.length →
      (firstSpan (r1.prog.ctx env.lower input) r1.prog.op pos).map (·.1) =
      (firstSpan (r2.prog.ctx env.lower input) r2.prog.op pos).map (·.1)) := by
  have hn : r1.nullable = r2.nullable := by
    rw [Bool.eq_iff_iff, api4_gate_iff R1 G.nil, api4_gate_iff R2 G.nil]
    constructor
    · rintro ⟨q, hq⟩; exact ⟨q, (lang_transfer4 R1 R2 hlang _ _ 0 q).1 hq⟩
    · rintro ⟨q, hq⟩; exact ⟨q, (lang_transfer4 R1 R2 hlang _ _ 0 q).2 hq⟩
  refine ⟨hn, ?_, ?_⟩
  · obtain ⟨a1, a2⟩ := R1.isMatch_iff G
    obtain ⟨b1, b2⟩ := R2.isMatch_iff G
    by_cases h : ∃ j q, j ≤ input.length ∧ OpR (r1.prog.ctx env.lower input) r1.prog.op j q
    · rw [a1.2 h]
      obtain ⟨j, q, hj, hq⟩ := h
      rw [b1.2 ⟨j, q, hj, (lang_transfer4 R1 R2 hlang _ _ j q).1 hq⟩]
    · rw [a2 h]
      rw [b2 (fun ⟨j, q, hj, hq⟩ => h ⟨j, q, hj, (lang_transfer4 R1 R2 hlang _ _ j q).2 hq⟩)]
  · intro hn1 pos hpos
    have F1 := R1.findOK hn1 G
    have F2 := R2.findOK (hn ▸ hn1) G
    obtain ⟨s1, t1⟩ := F1.sem pos hpos
    obtain ⟨s2, t2⟩ := F2.sem pos hpos
    have hlen2 : (r2.prog.ctx env.lower input).len = input.length := rfl
    have hlen1 : (r1.prog.ctx env.lower input).len = input.length := rfl
    cases h1 : firstSpan (r1.prog.ctx env.lower input) r1.prog.op pos with
    | none =>
      cases h2 : firstSpan (r2.prog.ctx env.lower input) r2.prog.op pos with
      | none => rfl
      | some x =>
        obtain ⟨j2, n2⟩ := x
        obtain ⟨c1, c2, _⟩ := firstSpan_spec _ _ _ _ _ h2
        exact absurd ((lang_transfer4 R1 R2 hlang _ _ j2 n2).2 (s2 j2 n2 h2).1) (t1 h1 j2 n2 c1 (by omega))
    | some x =>
      obtain ⟨j1, n1⟩ := x
      obtain ⟨c1, c2, _⟩ := firstSpan_spec _ _ _ _ _ h1
      cases h2 : firstSpan (r2.prog.ctx env.lower input) r2.prog.op pos with
      | none =>
        exact absurd ((lang_transfer4 R1 R2 hlang _ _ j1 n1).1 (s1 j1 n1 h1).1) (t2 h2 j1 n1 c1 (by omega))
      | some y =>
        obtain ⟨j2, n2⟩ := y
        obtain ⟨d1, d2, _⟩ := firstSpan_spec _ _ _ _ _ h2
        simp only [Option.map_some, Option.some.injEq]
        rcases Nat.lt_trichotomy j1 j2 with h | h | h
        · exact absurd ((lang_transfer4 R1 R2 hlang _ _ j1 n1).1 (s1 j1 n1 h1).1) ((s2 j2 n2 h2).2 j1 n1 c1 h)
        · exact h
        · exact absurd ((lang_transfer4 R1 R2 hlang _ _ j2 n2).2 (s2 j2 n2 h2).1) ((s1 j1 n1 h1).2 j2 n2 d1 h)

theorem spansFrom_congr4 (ctx ctx' : Ctx) (o o' : Op) (hlen : ctx.len = ctx'.len)
    (h : ∀ pos, firstSpan ctx o pos = firstSpan ctx' o' pos) :
    ∀ (f pos : Nat), spansFrom ctx o f pos = spansFrom ctx' o' f pos := by
  intro f
  induction f with
  | zero => intro pos; rfl
  | succ f ih =>
    intro pos
    rw [spansFrom, spansFrom, hlen, h pos]
    split
    · split
      · rw [ih]
      · rfl
    · rfl

/-- … and the same span list outright — hence the same `replace_all`, `tokenize`, `analyze` spans
    (`api4_replace_spec`, `api4_tokenize_spec`, `api4_analyze_spec` are functions of `spans`) —
    when in addition the heads of the two priority enumerations `enum4` agree at every start -/
theorem api4_same_spans {r1 r2 : Regex} (lower : Nat → Nat) (input : List Nat)
    (hheads : ∀ j, j ≤ input.length →
      (enum4 (r1.prog.ctx lower input) r1.prog.op j).head? = (enum4 (r2.prog.ctx lower input) r2.prog.op j).head?) :
    spans r1 lower input = spans r2 lower input := by
  unfold spans
  refine spansFrom_congr4 (r1.prog.ctx lower input) (r2.prog.ctx lower input) r1.prog.op r2.prog.op rfl
    (fun pos => ?_) _ _
  unfold firstSpan
  have hl1 : (r1.prog.ctx lower input).len = input.length := rfl
  have hl2 : (r2.prog.ctx lower input).len = input.length := rfl
  rw [hl1, hl2]
  exact firstFrom_congr _ _ _ _ (fun k _ hk2 => hheads k (by omega))

/-- when that is the case: the languages are equal and from every start there is at most ONE end -/
theorem heads_of_unique4 {env : Env} {fl : Flags} {r1 r2 : Regex} (R1 : Clean4Regex env fl r1)
    (R2 : Clean4Regex env fl r2) (hn1 : r1.nullable = false)
    (hlang : ∀ ctx p q, OpR ctx r1.prog.op p q ↔ OpR ctx r2.prog.op p q)
    {input : List Nat} (G : GoodInput env fl input)
    (huniq : ∀ j q q', OpR (r1.prog.ctx env.lower input) r1.prog.op j q →
      OpR (r1.prog.ctx env.lower input) r1.prog.op j q' → q = q') :
    ∀ j, j ≤ input.length →
      (enum4 (r1.prog.ctx env.lower input) r1.prog.op j).head? =
      (enum4 (r2.prog.ctx env.lower input) r2.prog.op j).head? := by
  have hn := (api4_same_language R1 R2 hlang G).1
  have F1 := R1.findOK hn1 G
  have F2 := R2.findOK (hn ▸ hn1) G
  have key : ∀ (r : Regex) (F : FindOK (r.prog.ctx env.lower input) r.prog) (j : Nat), j ≤ input.length →
      (∃ n, (enum4 (r.prog.ctx env.lower input) r.prog.op j).head? = some n ∧
          OpR (r.prog.ctx env.lower input) r.prog.op j n) ∨
      ((enum4 (r.prog.ctx env.lower input) r.prog.op j).head? = none ∧
          ∀ q, ¬ OpR (r.prog.ctx env.lower input) r.prog.op j q) := by
    intro r F j hj
    obtain ⟨s, t⟩ := F.sem j hj
    cases h : firstSpan (r.prog.ctx env.lower input) r.prog.op j with
    | none =>
      right
      refine ⟨Rx.ApiComplete.firstFrom_none _ _ _ h j (Nat.le_refl _) ?_, fun q => t h j q (Nat.le_refl _) hj⟩
      have : (r.prog.ctx env.lower input).len = input.length := rfl
      omega
    | some x =>
      obtain ⟨j', n⟩ := x
      obtain ⟨c1, _, c3, c4⟩ := firstSpan_spec _ _ _ _ _ h
      by_cases hjj : j' = j
      · subst hjj
        exact .inl ⟨n, c3, (s j' n h).1⟩
      · right
        exact ⟨c4 j (Nat.le_refl _) (by omega), fun q => (s j' n h).2 j q (Nat.le_refl _) (by omega)⟩
  intro j hj
  rcases key r1 F1 j hj with ⟨n1, e1, m1⟩ | ⟨e1, m1⟩ <;> rcases key r2 F2 j hj with ⟨n2, e2, m2⟩ | ⟨e2, m2⟩
  · rw [e1, e2]
    have := huniq j n1 n2 m1 ((lang_transfer4 R1 R2 hlang _ _ j n2).2 m2)
    rw [this]
  · exact absurd ((lang_transfer4 R1 R2 hlang _ _ j n1).1 m1) (m2 n1)
  · exact absurd ((lang_transfer4 R1 R2 hlang _ _ j n2).2 m2) (m1 n2)
  · rw [e1, e2]

/-- … hence the same span list -/
theorem api4_same_spans_of_unique {env : Env} {fl : Flags} {r1 r2 : Regex} (R1 : Clean4Regex env fl r1)
    (R2 : Clean4Regex env fl r2) (hn1 : r1.nullable = false)
    (hlang : ∀ ctx p q, OpR ctx r1.prog.op p q ↔ OpR ctx r2.prog.op p q)
    {input : List Nat} (G : GoodInput env fl input)
    (huniq : ∀ j q q', OpR (r1.prog.ctx env.lower input) r1.prog.op j q →
      OpR (r1.prog.ctx env.lower input) r1.prog.op j q' → q = q') :
    spans r1 env.lower input = spans r2 env.lower input :=
  api4_same_spans env.lower input (heads_of_unique4 R1 R2 hn1 hlang G huniq)

/-! ### example: the reluctant spellings `(?:ab|c)+?c` and `(?:c|ab)+?c` (real tables, "xabcc-cc")

  (The suggested pair `(?:ab|c)+?c` / `(?:ab|c)(?:ab|c)*?c` does NOT satisfy the hypothesis `hlang`, which
  quantifies over every context: `+?` is `{1,usizeMax}` while `x x*?` allows `usizeMax + 1` iterations, and
  `OpR` reads the bound literally.  The alternation-order pair below has different trees, different priority
  order inside the body, and the same language.) -/
section example_spellings
open Rx.Clean3Api (noSat_of)

/-- `(?:c|ab)+?c` -/
def exPatB : List Nat := [40, 63, 58, 99, 124, 97, 98, 41, 43, 63, 99]
def treeA : Op := .seq [.rep 1 (.choice [.atom [97, 98], .atom [99]]) 1 usizeMax false, .atom [99], .endProgram]
def treeB : Op := .seq [.rep 1 (.choice [.atom [99], .atom [97, 98]]) 1 usizeMax false, .atom [99], .endProgram]

theorem exAB_new :
    (match Regex.new Env.std Clean4Api.exPat [] false true with
     | .ok r => opEq r.prog.op treeA
     | _ => false) = true ∧
    (match Regex.new Env.std exPatB [] false true with
     | .ok r => cleanProg4 Env.std false false r.prog.op && clsCanonB r.prog.op && !r.prog.hasBackrefs &&
         !r.nullable && opEq r.prog.op treeB
     | _ => false) = true := by decide +kernel

theorem lang_AB (ctx : Ctx) (p q : Nat) : OpR ctx treeA p q ↔ OpR ctx treeB p q := by
  have hb : ∀ a b, OpR ctx (.choice [.atom [97, 98], .atom [99]]) a b ↔ OpR ctx (.choice [.atom [99], .atom [97, 98]]) a b := by
    intro a b
    simp only [OpR, OpRAny, or_false]
    exact Or.comm
  simp only [treeA, treeB, OpR, OpRSeq]
  constructor
  · rintro ⟨m, ⟨k, h1, h2, hi⟩, rest⟩
    exact ⟨m, ⟨k, h1, h2, CaseL.IterR_mono (fun a b => (hb a b).1) hi⟩, rest⟩
  · rintro ⟨m, ⟨k, h1, h2, hi⟩, rest⟩
    exact ⟨m, ⟨k, h1, h2, CaseL.IterR_mono (fun a b => (hb a b).2) hi⟩, rest⟩

/-- `api4_same_language` applies to the two spellings on "xabcc-cc": the same gate bit, the same `is_match`
    answer, the same next start from every position -/
example (r1 r2 : Regex) (h1 : Regex.new Env.std Clean4Api.exPat [] false true = .ok r1)
    (h2 : Regex.new Env.std exPatB [] false true = .ok r2) :
    r1.nullable = r2.nullable ∧
    r1.prog.isMatch Env.std.lower Clean4Api.exInput2 = r2.prog.isMatch Env.std.lower Clean4Api.exInput2 ∧
    (r1.nullable = false → ∀ pos, pos ≤ Clean4Api.exInput2.length →
      (firstSpan (r1.prog.ctx Env.std.lower Clean4Api.exInput2) r1.prog.op pos).map (·.1) =
      (firstSpan (r2.prog.ctx Env.std.lower Clean4Api.exInput2) r2.prog.op pos).map (·.1)) := by
  have ka := exAB_new.1
  have kb := exAB_new.2
  rw [h1] at ka
  rw [h2] at kb
  simp only [Bool.and_eq_true, Bool.not_eq_true'] at kb
  obtain ⟨⟨⟨⟨k1, k2⟩, k3⟩, _⟩, k5⟩ := kb
  have o1 := opEq_sound _ _ ka
  have o2 := opEq_sound _ _ k5
  have R1 := (Clean4Api.ex_regex r1 h1).1
  have R2 : Clean4Regex Env.std {} r2 :=
    ⟨exPatB, [], false, ⟨rfl, h2, noSat_of exPatB (by decide +kernel), k1, k2, k3, fun hl => by cases hl⟩⟩
  exact api4_same_language R1 R2 (fun ctx p q => by rw [o1, o2]; exact lang_AB ctx p q)
    (Rx.ApiComplete.goodInput_std_cs rfl Clean4Api.ex_scalar (by decide))

end example_spellings

end spellings

end Rx.Clean4Laws
