/-
  Props/Clean2Api — the enlarged clean fragment (Spec/Enum2) from the PATTERN TEXT: `Regex::new`.

  1  `parse_shape`           every tree `parseExpr` returns satisfies `seqGe2` and `endTop` — ALWAYS (no
                             pattern yields a one-element sequence or an inner EndProgram: every `.seq` is
                             built by `makeSequence`).  So of the hypotheses of `optimize_clean2` /
                             `compile_clean2` / `compile_opt_eq_unopt` only the decidable `cleanOp` (the
                             pattern uses no general repeat / back-reference) and `clsCanonB` remain.
  2  for a regex accepted by `Regex::new` (optimiser on) with the DECIDABLE condition
         `cleanProg2 env fl.caseBlind fl.multiLine r.prog.op ∧ clsCanonB r.prog.op`      on the compiled program
     (+ `Api.NoSat`, `r.prog.hasBackrefs = false`, "not the empty pattern under flag q", `InputOKFor`):
       `api_clean2_isMatch_iff`              C01, both directions, never panic / diverge
       `api_clean2_match_is_leftmost_first`  C02: least start, end = `(enum2 …).head?`
       `api_clean2_opt_eq_noopt`             shortcuts on/off on the same tree: Boolean, start, end
     two trees — `Regex::new … true` against `Regex::new … false` (the verification hook's path):
       `api_clean2_opt_eq_unopt`             same `is_match`, same Boolean / start / end of `matches(i)`;
                                             hypotheses on the UN-optimised compilation only
                                             (`cleanOp`, `clsCanonB`, no back-reference flag)
     the real tables, case-sensitive (`Env.std`, no flag i): `…_std_cs` — the only hypothesis on the
     data left is `ScalarInput input` (every input code point is a Unicode scalar value).
  3  scan level: `clean2_no_zero_length`, `clean2_goodFind`, `clean2_find_clean`, `clean2_tokenize_spec`,
     `api_clean2_goodFind` (C04 / C16)
  4  non-vacuity: `a*b(c|d)+e` through `Regex.new Env.std`.

  NOT DONE: `…_std_i` (flag i with `Env.std`, inputs and literals avoiding U+0130).  The maximal-munch
  step of Proofs/Enum2Lemmas (`unamb_maximal`) uses `C08.disjoint_maxmunch_wf` through the hypothesis
  `InputOK.hcase : ctx.caseBlind = true → CaseOK env ctx.lower`, which is false of `Env.std`
  (`EnvStd.caseOK_std_false`); the alphabet-relative replacement (`CaseOKOn`, `EnvStdL.maxmunch_on`) needs
  `atomsOverB notDottedI` of the element and of its follower, i.e. one more hypothesis threaded through
  the three mutual inductions `comp2_op/any/seq`, `exist2_seq` and every client — a change to the
  delivered files Proofs/Enum2Lemmas, Props/Clean2, Props/Clean2Complete, Props/Clean2End, not an
  addition.  With `CaseOK` as a hypothesis the case-blind theorems are all here (they are the general
  ones); what is missing is only their instantiation at `Env.std`.  That the restriction is real is the
  engine finding `EnvStd.dotted_I_unamb_finding`.
-/
import RxModel.Proofs.Clean2ApiLemmas
import RxModel.Props.EnvStd
namespace Rx.Clean2Api
open Rx Rx.SearchComplete Rx.Clean2Opt Rx.Clean2End
open Rx.C08 (noEmptyAtoms)

/-! ## 2. from `Regex::new` -/

/-- a regex accepted by `Regex::new` whose program is in the enlarged fragment: the program is
    `mkProgram` of a tree satisfying every hypothesis of the theorems of Props/Clean2Complete -/
theorem new_clean2 (env : Env) (p fs : List Nat) (xsd : Bool) (fl : Flags) (r : Regex)
    (hf : parseFlags fs xsd = some fl) (h : Regex.new env p fs xsd true = .ok r) (hns : Api.NoSat env fl p)
    (hclean : cleanProg2 env fl.caseBlind fl.multiLine r.prog.op = true) (hcan : clsCanonB r.prog.op = true)
    (hnb : r.prog.hasBackrefs = false) (hlit : fl.literal = true → p ≠ []) :
    ∃ pat' op' mp, r.prog = mkProgram pat' op' mp fl.core false ∧
      cleanProg2 env fl.core.caseBlind fl.core.multiLine op' = true ∧ wfOp op' = true ∧
      noEmptyAtoms op' = true ∧ clsCanonB op' = true ∧ C02.capsPos op' = true := by
  obtain ⟨hwf, hcp, _, _⟩ := Api.new_wf env p fs xsd fl r hf h hns
  have hcomp := new_compile env p fs xsd true fl r hf h
  rw [compileProg_core] at hcomp
  have hlit' : fl.core.literal = true → effPat fl p ≠ [] := by
    intro hl
    have hl' : fl.literal = true := hl
    unfold effPat
    rw [hl']
    simp only [Bool.not_true, Bool.false_and, Bool.false_eq_true, if_false]
    exact hlit hl'
  have hne := SearchComplete.compile_noEmptyAtoms env fl.core _ r.prog hcomp hlit'
  obtain ⟨op', mp, hb, heq⟩ := CleanComplete.compile_is_mkProgram env fl.core _ r.prog hcomp
  obtain ⟨hop, hhb⟩ := WF.mkProgram_op (effPat fl p) op' mp fl.core hb
  rw [heq] at hclean hcan hwf hcp hne hnb
  rw [hhb] at hnb
  subst hnb
  rw [hop] at hclean hcan hwf hcp hne
  have hid := numberReps_id_of_shape op' (Clean2.cleanProg2_shape env _ _ _ hclean)
  rw [hid] at hclean hcan hwf hcp hne
  exact ⟨_, op', mp, heq, hclean, hwf, hne, hcan, hcp⟩

/-- C01 from the pattern text, both directions -/
theorem api_clean2_isMatch_iff (env : Env) (p fs : List Nat) (xsd : Bool) (fl : Flags) (r : Regex)
    (hf : parseFlags fs xsd = some fl) (h : Regex.new env p fs xsd true = .ok r) (hns : Api.NoSat env fl p)
    (hclean : cleanProg2 env fl.caseBlind fl.multiLine r.prog.op = true) (hcan : clsCanonB r.prog.op = true)
    (hnb : r.prog.hasBackrefs = false) (hlit : fl.literal = true → p ≠ [])
    (input : List Nat) (hI : InputOKFor env fl.core env.lower input) (hlen : input.length < usizeMax) :
    (r.prog.isMatch env.lower input = .ok true ↔
      ∃ j q, j ≤ input.length ∧ OpR (r.prog.ctx env.lower input) r.prog.op j q) ∧
    ((¬ ∃ j q, j ≤ input.length ∧ OpR (r.prog.ctx env.lower input) r.prog.op j q) →
      r.prog.isMatch env.lower input = .ok false) := by
  obtain ⟨pat', op', mp, heq, hc, hw, hne, hca, _⟩ := new_clean2 env p fs xsd fl r hf h hns hclean hcan hnb hlit
  rw [heq]
  exact ⟨Clean2Complete.clean2_isMatch_iff env pat' op' mp fl.core env.lower input hI hc hw hne hca hlen,
    Clean2Complete.clean2_isMatch_false env pat' op' mp fl.core env.lower input hI hc hw hne hca hlen⟩

/-- C02 from the pattern text: least start; end = head of the engine's priority enumeration -/
theorem api_clean2_match_is_leftmost_first (env : Env) (p fs : List Nat) (xsd : Bool) (fl : Flags) (r : Regex)
    (hf : parseFlags fs xsd = some fl) (h : Regex.new env p fs xsd true = .ok r) (hns : Api.NoSat env fl p)
    (hclean : cleanProg2 env fl.caseBlind fl.multiLine r.prog.op = true) (hcan : clsCanonB r.prog.op = true)
    (hnb : r.prog.hasBackrefs = false) (hlit : fl.literal = true → p ≠ [])
    (input : List Nat) (hI : InputOKFor env fl.core env.lower input) (hlen : input.length < usizeMax)
    (i : Nat) (hi : i ≤ input.length) (st st' : St) (hst : st.panic = none)
    (hm : matchesFrom (r.prog.ctx env.lower input) r.prog i st = (true, st')) :
    ∃ j n, getParenStart st' 0 = some j ∧ getParenEnd st' 0 = some n ∧
      (enum2 (r.prog.ctx env.lower input) r.prog.op j).head? = some n ∧
      i ≤ j ∧ j ≤ n ∧ n ≤ input.length ∧ OpR (r.prog.ctx env.lower input) r.prog.op j n ∧
      ∀ k q, i ≤ k → k < j → ¬ OpR (r.prog.ctx env.lower input) r.prog.op k q := by
  obtain ⟨pat', op', mp, heq, hc, hw, hne, hca, hcp⟩ := new_clean2 env p fs xsd fl r hf h hns hclean hcan hnb hlit
  rw [heq] at hm ⊢
  exact Clean2Complete.clean2_match_is_leftmost_first env pat' op' mp fl.core env.lower input hI hc hw hne hca hcp
    hlen i hi st st' hst hm

/-- shortcuts on / off on the compiled tree: Boolean, start and end -/
theorem api_clean2_opt_eq_noopt (env : Env) (p fs : List Nat) (xsd : Bool) (fl : Flags) (r : Regex)
    (hf : parseFlags fs xsd = some fl) (h : Regex.new env p fs xsd true = .ok r) (hns : Api.NoSat env fl p)
    (hclean : cleanProg2 env fl.caseBlind fl.multiLine r.prog.op = true) (hcan : clsCanonB r.prog.op = true)
    (hnb : r.prog.hasBackrefs = false) (hlit : fl.literal = true → p ≠ [])
    (input : List Nat) (hI : InputOKFor env fl.core env.lower input) (hlen : input.length < usizeMax)
    (i : Nat) (hi : i ≤ input.length) (st1 st2 : St) (h1 : st1.panic = none) (h2 : st2.panic = none) :
    (matchesFrom (r.prog.ctx env.lower input) r.prog i st1).1 =
      (matchesNaive (r.prog.ctx env.lower input) r.prog.op i st2).1 ∧
    ((matchesFrom (r.prog.ctx env.lower input) r.prog i st1).1 = true →
      getParenStart (matchesFrom (r.prog.ctx env.lower input) r.prog i st1).2 0 =
        getParenStart (matchesNaive (r.prog.ctx env.lower input) r.prog.op i st2).2 0 ∧
      getParenEnd (matchesFrom (r.prog.ctx env.lower input) r.prog i st1).2 0 =
        getParenEnd (matchesNaive (r.prog.ctx env.lower input) r.prog.op i st2).2 0) := by
  obtain ⟨pat', op', mp, heq, hc, hw, hne, hca, hcp⟩ := new_clean2 env p fs xsd fl r hf h hns hclean hcan hnb hlit
  rw [heq]
  exact Clean2Complete.clean2_opt_eq_noopt env pat' op' mp fl.core env.lower input hI hc hw hne hca hcp
    hlen i hi st1 st2 h1 h2

/-! ### two trees: `Regex::new` with and without the optimiser -/

/-- `Regex::new … true` against `Regex::new … false` (what the crate's verification hook exercises):
    the same `is_match`, and `matches(i)` reports the same Boolean and the same span of group 0 — on
    every input of scalar values.  Hypotheses on the UN-optimised compilation only: its tree is in the
    OLD fragment `cleanOp` (decidable: the pattern has no general repeat and no back-reference), its
    classes are canonical (decidable), the back-reference flag is off.  Everything else comes from the
    parser (`parse_shape`, `parse_wf`, `parse_noEmptyAtoms`) and from `optimize_clean2`. -/
theorem api_clean2_opt_eq_unopt (env : Env) (p fs : List Nat) (xsd : Bool) (fl : Flags) (r r0 : Regex)
    (hf : parseFlags fs xsd = some fl)
    (h1 : Regex.new env p fs xsd true = .ok r) (h0 : Regex.new env p fs xsd false = .ok r0)
    (hns : Api.NoSat env fl p) (hlit : fl.literal = true → p ≠ [])
    (hnb : r0.prog.hasBackrefs = false) (hc : cleanOp r0.prog.op = true) (hcan : clsCanonB r0.prog.op = true)
    (input : List Nat) (hI : InputOKFor env fl.core env.lower input) (hlen : input.length < usizeMax) :
    r.prog.isMatch env.lower input = r0.prog.isMatch env.lower input ∧
    ∀ (i : Nat), i ≤ input.length → ∀ (st1 st2 : St), st1.panic = none → st2.panic = none →
      (matchesFrom (r.prog.ctx env.lower input) r.prog i st1).1 =
        (matchesFrom (r0.prog.ctx env.lower input) r0.prog i st2).1 ∧
      ((matchesFrom (r.prog.ctx env.lower input) r.prog i st1).1 = true →
        getParenStart (matchesFrom (r.prog.ctx env.lower input) r.prog i st1).2 0 =
          getParenStart (matchesFrom (r0.prog.ctx env.lower input) r0.prog i st2).2 0 ∧
        getParenEnd (matchesFrom (r.prog.ctx env.lower input) r.prog i st1).2 0 =
          getParenEnd (matchesFrom (r0.prog.ctx env.lower input) r0.prog i st2).2 0) := by
  have hc1 := new_compile env p fs xsd true fl r hf h1
  have hc0 := new_compile env p fs xsd false fl r0 hf h0
  rw [compileProg_core] at hc1 hc0
  by_cases hl : fl.literal = true
  · -- a literal pattern is not optimised: the same tree, with and without the search shortcuts
    have hl' : fl.core.literal = true := hl
    have hpe : effPat fl p = p := by
      unfold effPat; rw [hl]; simp
    rw [hpe] at hc1 hc0
    unfold compileCore at hc1 hc0
    rw [hl'] at hc1 hc0
    simp only [if_true, Bool.false_eq_true, if_false, Out.ok.injEq] at hc1 hc0
    rw [← hc1, ← hc0]
    have hpne := hlit hl
    have hs : makeSequence (.atom p) .endProgram = .seq [.atom p, .endProgram] := rfl
    rw [hs]
    have hcl : cleanOp (.seq [.atom p, .endProgram]) = true := rfl
    have hw : wfOp (.seq [.atom p, .endProgram]) = true := rfl
    have hcp : C02.capsPos (.seq [.atom p, .endProgram]) = true := rfl
    have hne : noEmptyAtoms (.seq [.atom p, .endProgram]) = true := by
      cases p with
      | nil => exact absurd rfl hpne
      | cons a t => rfl
    exact ⟨CleanComplete.clean_isMatch_eq_bare p _ 1 fl.core env.lower input hcl hw hne hcp hlen,
      fun i hi st1 st2 a b =>
        CleanComplete.clean_opt_eq_bare p _ 1 fl.core env.lower input hcl hw hne hcp hlen i hi st1 st2 a b⟩
  · have hl' : fl.core.literal = false := by
      have : fl.literal = false := by simpa using hl
      exact this
    have hns' : ∀ op s, parseExpr { pat := effPat fl p, fl := fl.core, env := env }
        (4 * (effPat fl p).length + 16) {} true = .ok op s → WF.noSat op = true :=
      fun op s hp => (hns op s hp).2
    obtain ⟨b1, b2, b3, b4, b5⟩ := bare_facts env fl.core (effPat fl p) r0.prog hl' hc0 hns' hc
    exact compile_opt_eq_unopt env fl.core (effPat fl p) r.prog r0.prog hl' hc1 hc0 hnb hc b1 b2 b3 b4 hcan b5
      env.lower input hI hlen

/-- … and the optimised program is then in the enlarged fragment BY CONSTRUCTION: the decidable
    condition of the single-tree theorems follows from `cleanOp` of the un-optimised compilation -/
theorem api_clean2_by_construction (env : Env) (p fs : List Nat) (xsd : Bool) (fl : Flags) (r r0 : Regex)
    (hf : parseFlags fs xsd = some fl)
    (h1 : Regex.new env p fs xsd true = .ok r) (h0 : Regex.new env p fs xsd false = .ok r0)
    (hns : Api.NoSat env fl p) (hc : cleanOp r0.prog.op = true) (hcan : clsCanonB r0.prog.op = true) :
    cleanProg2 env fl.caseBlind fl.multiLine r.prog.op = true ∧ clsCanonB r.prog.op = true := by
  have hc1 := new_compile env p fs xsd true fl r hf h1
  have hc0 := new_compile env p fs xsd false fl r0 hf h0
  rw [compileProg_core] at hc1 hc0
  by_cases hl : fl.literal = true
  · have hl' : fl.core.literal = true := hl
    unfold compileCore at hc1 hc0
    rw [hl'] at hc1 hc0
    simp only [if_true, Bool.false_eq_true, if_false, Out.ok.injEq] at hc1 hc0
    have e : r.prog.op = r0.prog.op := by
      rw [← hc1, ← hc0]; exact (WF.mkProgram_op _ _ _ _ _).1
    rw [e]
    exact ⟨Clean2.cleanProg2_of_cleanOp2 env _ _ _ (Clean2.cleanOp2_of_cleanOp env _ _ _ hc), hcan⟩
  · have hl' : fl.core.literal = false := by
      have : fl.literal = false := by simpa using hl
      exact this
    have hns' : ∀ op s, parseExpr { pat := effPat fl p, fl := fl.core, env := env }
        (4 * (effPat fl p).length + 16) {} true = .ok op s → WF.noSat op = true :=
      fun op s hp => (hns op s hp).2
    obtain ⟨b1, b2, b3, _, _⟩ := bare_facts env fl.core (effPat fl p) r0.prog hl' hc0 hns' hc
    obtain ⟨g1, g2⟩ := compile_clean2 env fl.core (effPat fl p) r.prog r0.prog hc1 hc0 hc b1 b2 b3
    refine ⟨g1, ?_⟩
    rcases g2 with g2 | g2
    · rw [g2]; exact hcan
    · rw [g2]; exact optimize_clsCanonB env fl.core _ hcan

/-! ### the real tables, case-sensitive -/

/-- every input code point is a Unicode scalar value (what a Rust `&str` guarantees) -/
def ScalarInput (input : List Nat) : Prop := ∀ c ∈ input, c < cpLimit ∧ isSurrogate c = false

theorem inputOK_std_cs {fl : Flags} (hcb : fl.caseBlind = false) {input : List Nat} (hsv : ScalarInput input) :
    InputOKFor Env.std fl.core Env.std.lower input :=
  .of_caseSensitive hcb EnvStd.closure_bound_std (fun c hc => (hsv c hc).1) (fun c hc => (hsv c hc).2)

theorem api_clean2_isMatch_iff_std_cs (p fs : List Nat) (xsd : Bool) (fl : Flags) (r : Regex)
    (hf : parseFlags fs xsd = some fl) (h : Regex.new Env.std p fs xsd true = .ok r)
    (hns : Api.NoSat Env.std fl p) (hcb : fl.caseBlind = false)
    (hclean : cleanProg2 Env.std false fl.multiLine r.prog.op = true) (hcan : clsCanonB r.prog.op = true)
    (hnb : r.prog.hasBackrefs = false) (hlit : fl.literal = true → p ≠ [])
    (input : List Nat) (hsv : ScalarInput input) (hlen : input.length < usizeMax) :
    (r.prog.isMatch Env.std.lower input = .ok true ↔
      ∃ j q, j ≤ input.length ∧ OpR (r.prog.ctx Env.std.lower input) r.prog.op j q) ∧
    ((¬ ∃ j q, j ≤ input.length ∧ OpR (r.prog.ctx Env.std.lower input) r.prog.op j q) →
      r.prog.isMatch Env.std.lower input = .ok false) :=
  api_clean2_isMatch_iff Env.std p fs xsd fl r hf h hns (by rw [hcb]; exact hclean) hcan hnb hlit input
    (inputOK_std_cs hcb hsv) hlen

theorem api_clean2_match_is_leftmost_first_std_cs (p fs : List Nat) (xsd : Bool) (fl : Flags) (r : Regex)
    (hf : parseFlags fs xsd = some fl) (h : Regex.new Env.std p fs xsd true = .ok r)
    (hns : Api.NoSat Env.std fl p) (hcb : fl.caseBlind = false)
    (hclean : cleanProg2 Env.std false fl.multiLine r.prog.op = true) (hcan : clsCanonB r.prog.op = true)
    (hnb : r.prog.hasBackrefs = false) (hlit : fl.literal = true → p ≠ [])
    (input : List Nat) (hsv : ScalarInput input) (hlen : input.length < usizeMax)
    (i : Nat) (hi : i ≤ input.length) (st st' : St) (hst : st.panic = none)
    (hm : matchesFrom (r.prog.ctx Env.std.lower input) r.prog i st = (true, st')) :
    ∃ j n, getParenStart st' 0 = some j ∧ getParenEnd st' 0 = some n ∧
      (enum2 (r.prog.ctx Env.std.lower input) r.prog.op j).head? = some n ∧
      i ≤ j ∧ j ≤ n ∧ n ≤ input.length ∧ OpR (r.prog.ctx Env.std.lower input) r.prog.op j n ∧
      ∀ k q, i ≤ k → k < j → ¬ OpR (r.prog.ctx Env.std.lower input) r.prog.op k q :=
  api_clean2_match_is_leftmost_first Env.std p fs xsd fl r hf h hns (by rw [hcb]; exact hclean) hcan hnb hlit
    input (inputOK_std_cs hcb hsv) hlen i hi st st' hst hm

theorem api_clean2_opt_eq_noopt_std_cs (p fs : List Nat) (xsd : Bool) (fl : Flags) (r : Regex)
    (hf : parseFlags fs xsd = some fl) (h : Regex.new Env.std p fs xsd true = .ok r)
    (hns : Api.NoSat Env.std fl p) (hcb : fl.caseBlind = false)
    (hclean : cleanProg2 Env.std false fl.multiLine r.prog.op = true) (hcan : clsCanonB r.prog.op = true)
    (hnb : r.prog.hasBackrefs = false) (hlit : fl.literal = true → p ≠ [])
    (input : List Nat) (hsv : ScalarInput input) (hlen : input.length < usizeMax)
    (i : Nat) (hi : i ≤ input.length) (st1 st2 : St) (h1 : st1.panic = none) (h2 : st2.panic = none) :
    (matchesFrom (r.prog.ctx Env.std.lower input) r.prog i st1).1 =
      (matchesNaive (r.prog.ctx Env.std.lower input) r.prog.op i st2).1 ∧
    ((matchesFrom (r.prog.ctx Env.std.lower input) r.prog i st1).1 = true →
      getParenStart (matchesFrom (r.prog.ctx Env.std.lower input) r.prog i st1).2 0 =
        getParenStart (matchesNaive (r.prog.ctx Env.std.lower input) r.prog.op i st2).2 0 ∧
      getParenEnd (matchesFrom (r.prog.ctx Env.std.lower input) r.prog i st1).2 0 =
        getParenEnd (matchesNaive (r.prog.ctx Env.std.lower input) r.prog.op i st2).2 0) :=
  api_clean2_opt_eq_noopt Env.std p fs xsd fl r hf h hns (by rw [hcb]; exact hclean) hcan hnb hlit
    input (inputOK_std_cs hcb hsv) hlen i hi st1 st2 h1 h2

theorem api_clean2_opt_eq_unopt_std_cs (p fs : List Nat) (xsd : Bool) (fl : Flags) (r r0 : Regex)
    (hf : parseFlags fs xsd = some fl)
    (h1 : Regex.new Env.std p fs xsd true = .ok r) (h0 : Regex.new Env.std p fs xsd false = .ok r0)
    (hns : Api.NoSat Env.std fl p) (hcb : fl.caseBlind = false) (hlit : fl.literal = true → p ≠ [])
    (hnb : r0.prog.hasBackrefs = false) (hc : cleanOp r0.prog.op = true) (hcan : clsCanonB r0.prog.op = true)
    (input : List Nat) (hsv : ScalarInput input) (hlen : input.length < usizeMax) :
    r.prog.isMatch Env.std.lower input = r0.prog.isMatch Env.std.lower input ∧
    ∀ (i : Nat), i ≤ input.length → ∀ (st1 st2 : St), st1.panic = none → st2.panic = none →
      (matchesFrom (r.prog.ctx Env.std.lower input) r.prog i st1).1 =
        (matchesFrom (r0.prog.ctx Env.std.lower input) r0.prog i st2).1 ∧
      ((matchesFrom (r.prog.ctx Env.std.lower input) r.prog i st1).1 = true →
        getParenStart (matchesFrom (r.prog.ctx Env.std.lower input) r.prog i st1).2 0 =
          getParenStart (matchesFrom (r0.prog.ctx Env.std.lower input) r0.prog i st2).2 0 ∧
        getParenEnd (matchesFrom (r.prog.ctx Env.std.lower input) r.prog i st1).2 0 =
          getParenEnd (matchesFrom (r0.prog.ctx Env.std.lower input) r0.prog i st2).2 0) :=
  api_clean2_opt_eq_unopt Env.std p fs xsd fl r r0 hf h1 h0 hns hlit hnb hc hcan input
    (inputOK_std_cs hcb hsv) hlen

/-! ## 3. scan level (C04 / C16): a non-nullable program of the fragment reports only non-empty spans -/

theorem clean2_no_zero_length (env : Env) (pat : List Nat) (op : Op) (mp : Nat) (fl : CFlags) (lower : Nat → Nat)
    (hc : cleanProg2 env fl.caseBlind fl.multiLine op = true) (hwf : wfOp op = true)
    (hne : noEmptyAtoms op = true) (hcan : clsCanonB op = true) (hcp : C02.capsPos op = true)
    (hI0 : InputOKFor env fl lower [])
    (hnull : (mkProgram pat op mp fl false).isMatch lower [] = .ok false)
    (input : List Nat) (hI : InputOKFor env fl lower input) (hlen : input.length < usizeMax)
    (i : Nat) (hi : i ≤ input.length) (st st' : St) (hst : st.panic = none)
    (h : matchesFrom ((mkProgram pat op mp fl false).ctx lower input) (mkProgram pat op mp fl false) i st
      = (true, st')) :
    ∃ j n, getParenStart st' 0 = some j ∧ getParenEnd st' 0 = some n ∧ i ≤ j ∧ j < n ∧ n ≤ input.length := by
  obtain ⟨j, n, hs, he, _, hij, hjn, hnl, hopr, _⟩ :=
    Clean2Complete.clean2_match_is_leftmost_first env pat op mp fl lower input hI hc hwf hne hcan hcp hlen
      i hi st st' hst h
  refine ⟨j, n, hs, he, hij, ?_, hnl⟩
  rcases Nat.lt_or_ge j n with hlt | hge
  · exact hlt
  · exfalso
    have hjn' : j = n := by omega
    subst hjn'
    have hz := C16.OpR_zero_anywhere _ _ j hopr
    have hm := (Clean2Complete.clean2_isMatch_iff env pat op mp fl lower [] hI0 hc hwf hne hcan (by decide)).2
      ⟨0, 0, Nat.le_refl _, hz⟩
    rw [hnull] at hm
    cases hm

/-- the data hypotheses for every input a scan loop may see: case data and closures as before, and
    the input of scalar values -/
theorem inputOKFor_nil {env : Env} {fl : CFlags} {lower : Nat → Nat} {input : List Nat}
    (h : InputOKFor env fl lower input) : InputOKFor env fl lower [] :=
  ⟨h.hcase, h.hce, fun c hc => (by cases hc), fun c hc => (by cases hc)⟩

/-- hence the concrete matcher satisfies the hypothesis `GoodFind` of every C04 theorem, with the
    invariant "panic marker clear" -/
theorem clean2_goodFind (env : Env) (pat : List Nat) (op : Op) (mp : Nat) (fl : CFlags) (lower : Nat → Nat)
    (hc : cleanProg2 env fl.caseBlind fl.multiLine op = true) (hwf : wfOp op = true)
    (hne : noEmptyAtoms op = true) (hcan : clsCanonB op = true) (hcp : C02.capsPos op = true)
    (hnull : (mkProgram pat op mp fl false).isMatch lower [] = .ok false)
    (input : List Nat) (hI : InputOKFor env fl lower input) (hlen : input.length < usizeMax) :
    C04.GoodFind ((mkProgram pat op mp fl false).matcher lower input) input.length
      (fun st => st.panic = none) := by
  constructor
  intro st pos st' m hinv hpos hfind hfailed
  refine ⟨hfailed, fun hm => ?_⟩
  subst hm
  obtain ⟨a, b, h1, h2, h3, h4, h5⟩ :=
    clean2_no_zero_length env pat op mp fl lower hc hwf hne hcan hcp (inputOKFor_nil hI) hnull input hI hlen
      pos hpos st st' hinv hfind
  exact ⟨a, b, h1, h2, h3, h4, h5⟩

/-- … and it never fails from a clean state -/
theorem clean2_find_clean (env : Env) (pat : List Nat) (op : Op) (mp : Nat) (fl : CFlags) (lower : Nat → Nat)
    (hc : cleanProg2 env fl.caseBlind fl.multiLine op = true) (hwf : wfOp op = true)
    (hne : noEmptyAtoms op = true) (hcan : clsCanonB op = true)
    (input : List Nat) (hI : InputOKFor env fl lower input) (hlen : input.length < usizeMax)
    (st : St) (hst : st.panic = none) (pos : Nat) (hpos : pos ≤ input.length) :
    ((mkProgram pat op mp fl false).matcher lower input).failed
      (((mkProgram pat op mp fl false).matcher lower input).find st pos).2 = none :=
  (clean2_outcome env pat op mp fl lower input hI hc hwf hne hcan hlen pos hpos st hst).clean

/-- C04 applied: the tokens the scan loop produces are the pieces between the spans -/
theorem clean2_tokenize_spec (env : Env) (pat : List Nat) (op : Op) (mp : Nat) (fl : CFlags) (lower : Nat → Nat)
    (hc : cleanProg2 env fl.caseBlind fl.multiLine op = true) (hwf : wfOp op = true)
    (hne : noEmptyAtoms op = true) (hcan : clsCanonB op = true) (hcp : C02.capsPos op = true)
    (hnull : (mkProgram pat op mp fl false).isMatch lower [] = .ok false)
    (input : List Nat) (hI : InputOKFor env fl lower input) (hlen : input.length < usizeMax)
    (limit : Nat) (hl : input.length + 1 ≤ limit) (toks : List (List Nat)) (more : Bool)
    (h : tokenLoop ((mkProgram pat op mp fl false).matcher lower input) input limit (some 0) {} [] = .ok (toks, more)) :
    toks = Spec.pieces input 0 (C04.spanPairs (C04.spansOf ((mkProgram pat op mp fl false).matcher lower input)
      input.length (input.length + 2) 0 {})) ∧ more = false :=
  C04.tokenize_spec _ _ input (clean2_goodFind env pat op mp fl lower hc hwf hne hcan hcp hnull input hI hlen)
    {} rfl limit hl toks more h

/-- from the pattern text: a regex of the fragment that passes the nullability gate drives the scan
    loops (replace / tokenize / analyze) with a matcher satisfying C04's `GoodFind` -/
theorem api_clean2_goodFind (env : Env) (p fs : List Nat) (xsd : Bool) (fl : Flags) (r : Regex)
    (hf : parseFlags fs xsd = some fl) (h : Regex.new env p fs xsd true = .ok r) (hns : Api.NoSat env fl p)
    (hclean : cleanProg2 env fl.caseBlind fl.multiLine r.prog.op = true) (hcan : clsCanonB r.prog.op = true)
    (hnb : r.prog.hasBackrefs = false) (hlit : fl.literal = true → p ≠ []) (hnull : r.nullable = false)
    (input : List Nat) (hI : InputOKFor env fl.core env.lower input) (hlen : input.length < usizeMax) :
    C04.GoodFind (r.prog.matcher env.lower input) input.length (fun st => st.panic = none) := by
  obtain ⟨pat', op', mp, heq, hc, hw, hne, hca, hcp⟩ := new_clean2 env p fs xsd fl r hf h hns hclean hcan hnb hlit
  have hn := C16.new_nullable env p fs xsd true r h
  rw [hnull, heq] at hn
  rw [heq]
  exact clean2_goodFind env pat' op' mp fl.core env.lower hc hw hne hca hcp hn input hI hlen

theorem api_clean2_goodFind_std_cs (p fs : List Nat) (xsd : Bool) (fl : Flags) (r : Regex)
    (hf : parseFlags fs xsd = some fl) (h : Regex.new Env.std p fs xsd true = .ok r)
    (hns : Api.NoSat Env.std fl p) (hcb : fl.caseBlind = false)
    (hclean : cleanProg2 Env.std false fl.multiLine r.prog.op = true) (hcan : clsCanonB r.prog.op = true)
    (hnb : r.prog.hasBackrefs = false) (hlit : fl.literal = true → p ≠ []) (hnull : r.nullable = false)
    (input : List Nat) (hsv : ScalarInput input) (hlen : input.length < usizeMax) :
    C04.GoodFind (r.prog.matcher Env.std.lower input) input.length (fun st => st.panic = none) :=
  api_clean2_goodFind Env.std p fs xsd fl r hf h hns (by rw [hcb]; exact hclean) hcan hnb hlit hnull input
    (inputOK_std_cs hcb hsv) hlen

/-! ## 4. non-vacuity: `a*b(c|d)+e` through `Regex.new Env.std` (the real tables), no flags -/
section example_

/-- `a*b(c|d)+e` -/
def exPat : List Nat := [97, 42, 98, 40, 99, 124, 100, 41, 43, 101]

/-- "xaabcde" -/
def exInput : List Nat := [120, 97, 97, 98, 99, 100, 101]

/-- `Regex::new` accepts the pattern (with and without the optimiser), and both compilations satisfy
    the decidable hypotheses — kernel evaluation of the model's compiler over `Env.std` -/
theorem ex_new :
    (match Regex.new Env.std exPat [] false true with
     | .ok r => cleanProg2 Env.std false false r.prog.op && clsCanonB r.prog.op && !r.prog.hasBackrefs &&
         !r.nullable && !cleanOp r.prog.op
     | _ => false) = true ∧
    (match Regex.new Env.std exPat [] false false with
     | .ok r0 => cleanOp r0.prog.op && clsCanonB r0.prog.op && !r0.prog.hasBackrefs
     | _ => false) = true := by decide +kernel

/-- the side condition `NoSat` for this pattern (no saturated body length) -/
theorem ex_noSat : Api.NoSat Env.std {} exPat := by
  intro op s hp
  have hk : (match parseExpr { pat := exPat, fl := ({} : Flags).core, env := Env.std }
      (4 * exPat.length + 16) {} true with
    | .ok op _ => WF.noSat (optimize Env.std ({} : Flags).core op) && WF.noSat op
    | .err _ => true) = true := by decide +kernel
  have hp' : parseExpr { pat := exPat, fl := ({} : Flags).core, env := Env.std }
      (4 * exPat.length + 16) {} true = .ok op s := hp
  rw [hp'] at hk
  simpa only [Bool.and_eq_true] using hk

theorem ex_scalar : ScalarInput exInput := by
  intro c hc
  simp only [exInput, List.mem_cons, List.not_mem_nil, or_false] at hc
  rcases hc with rfl | rfl | rfl | rfl | rfl | rfl | rfl <;> decide

/-- `api_clean2_isMatch_iff_std_cs` instantiated: for EVERY input of scalar values, the regex compiled
    from the pattern text by `Regex.new Env.std` answers `true` exactly when some substring is in the
    language of the compiled tree, and `false` otherwise -/
theorem ex_isMatch_iff (input : List Nat) (hsv : ScalarInput input) (hlen : input.length < usizeMax)
    (r : Regex) (h : Regex.new Env.std exPat [] false true = .ok r) :
    (r.prog.isMatch Env.std.lower input = .ok true ↔
      ∃ j q, j ≤ input.length ∧ OpR (r.prog.ctx Env.std.lower input) r.prog.op j q) ∧
    ((¬ ∃ j q, j ≤ input.length ∧ OpR (r.prog.ctx Env.std.lower input) r.prog.op j q) →
      r.prog.isMatch Env.std.lower input = .ok false) := by
  have hk := ex_new.1
  rw [h] at hk
  simp only [Bool.and_eq_true, Bool.not_eq_true'] at hk
  obtain ⟨⟨⟨⟨k1, k2⟩, k3⟩, _⟩, _⟩ := hk
  exact api_clean2_isMatch_iff_std_cs exPat [] false {} r rfl h ex_noSat rfl k1 k2 k3
    (fun hl => by cases hl) input hsv hlen

/-- … it passes the nullability gate, so it drives the scan loops with a `GoodFind` matcher -/
theorem ex_goodFind (input : List Nat) (hsv : ScalarInput input) (hlen : input.length < usizeMax)
    (r : Regex) (h : Regex.new Env.std exPat [] false true = .ok r) :
    C04.GoodFind (r.prog.matcher Env.std.lower input) input.length (fun st => st.panic = none) := by
  have hk := ex_new.1
  rw [h] at hk
  simp only [Bool.and_eq_true, Bool.not_eq_true'] at hk
  obtain ⟨⟨⟨⟨k1, k2⟩, k3⟩, k4⟩, _⟩ := hk
  exact api_clean2_goodFind_std_cs exPat [] false {} r rfl h ex_noSat rfl k1 k2 k3
    (fun hl => by cases hl) k4 input hsv hlen

/-- … and the optimised and the un-optimised regex agree on every input of scalar values -/
theorem ex_opt_eq_unopt (input : List Nat) (hsv : ScalarInput input) (hlen : input.length < usizeMax)
    (r r0 : Regex) (h1 : Regex.new Env.std exPat [] false true = .ok r)
    (h0 : Regex.new Env.std exPat [] false false = .ok r0) :
    r.prog.isMatch Env.std.lower input = r0.prog.isMatch Env.std.lower input := by
  have hk := ex_new.2
  rw [h0] at hk
  simp only [Bool.and_eq_true, Bool.not_eq_true'] at hk
  obtain ⟨⟨k1, k2⟩, k3⟩ := hk
  exact (api_clean2_opt_eq_unopt_std_cs exPat [] false {} r r0 rfl h1 h0 ex_noSat rfl
    (fun hl => by cases hl) k3 k1 k2 input hsv hlen).1

/-- the computed answer on "xaabcde" (kernel evaluation) — `true`, span (1, 7) — agrees with the
    right-hand side the theorem predicts -/
theorem ex_computed :
    (match Regex.new Env.std exPat [] false true with
     | .ok r => (r.prog.isMatch Env.std.lower exInput == .ok true) &&
         (getParenStart (matchesFrom (r.prog.ctx Env.std.lower exInput) r.prog 0 {}).2 0 == some 1) &&
         (getParenEnd (matchesFrom (r.prog.ctx Env.std.lower exInput) r.prog 0 {}).2 0 == some 7) &&
         (enum2 (r.prog.ctx Env.std.lower exInput) r.prog.op 1 == [7])
     | _ => false) = true := by decide +kernel

theorem ex_member (r : Regex) (h : Regex.new Env.std exPat [] false true = .ok r) :
    ∃ j q, j ≤ exInput.length ∧ OpR (r.prog.ctx Env.std.lower exInput) r.prog.op j q := by
  have hk := ex_computed
  rw [h] at hk
  simp only [Bool.and_eq_true, beq_iff_eq] at hk
  exact ((ex_isMatch_iff exInput ex_scalar (by decide) r h).1).1 hk.1.1.1

end example_

end Rx.Clean2Api
