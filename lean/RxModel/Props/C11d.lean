/-
  Props/C11d — classes written in a pattern under flag i are CASE-CLOSED for the REAL tables
  (`Env.std`, the generated ICU case-closure table `Gen.closureTable`), from the pattern text.

  1. The closure table (2884 rows) is an equivalence on its domain and avoids surrogates — kernel
     computations (`Proofs/ClosureStdLemmas`: the rows are looked up in a search tree built from
     the table; the check is sound because every look-up is required to succeed):
       closure_sym_std      `y ∈ closure x → x ∈ closure y`                           TRUE
       closure_trans_std    `y ∈ closure x → z ∈ closure y → z = x ∨ z ∈ closure x`   TRUE
       surrogateFree_std    surrogates have no closure                                TRUE
       closureEquiv_std     `C09.ClosureEquiv Env.std`
     (nothing had to be refuted: all three hold of the real table)
  2. `class_case_closed_std`: a positive class of single characters / hyphens / ranges, parsed
     under flag i against the real tables, is a canonical list that is closed under
     `Env.std.closure` and contains every case-sensitive member.
  3. Connection with C11b (`clsClosedOn`, phrased with the COMPARISON relation `eqCB lower`):
       clsClosedOn_of_closure_closed   a set closed under the closure table is `clsClosedOn` the
                                       alphabet without U+0130 (`C11b.notDottedI`)
       class_clsClosedOn_std           … hence every such class of the pattern is
       class_node_input_case_invariant_std
                                       … so `C11b.OpR_input_case_invariant_on` applies to its node
       class_clsClosed_all_false       on the FULL alphabet it is false: `[i]` under i is `{I, i}`
                                       and lacks U+0130, which the comparison identifies with `i`
                                       (K10)
       closure_not_comparison          conversely the closure table relates characters the
                                       comparison keeps apart: `s` and U+017F (K8) — so the class
                                       `[s]` under i matches U+017F although the literal `s` does
                                       not; this direction does not harm `clsClosedOn`
-/
import RxModel.Props.C09e
import RxModel.Props.C11b
import RxModel.Proofs.ClosureStdLemmas
namespace Rx.C11d
open Rx Rx.C09 Rx.EnvStd Rx.EnvStdL Rx.ClosureStdL

/-! ### 1. the closure table -/

/-- the symmetry-and-transitivity check of the real table (kernel computation, about 10 s) -/
theorem closureTable_equiv : equivCheck Gen.closureTable = true := by decide +kernel

/-- no key of the real table is a surrogate -/
theorem closureTable_noSurKey : noSurKeyB Gen.closureTable = true := by decide +kernel

/-- the case closure of the real tables is symmetric -/
theorem closure_sym_std : ∀ x y, y ∈ Env.std.closure x → x ∈ Env.std.closure y := by
  intro x y h
  rw [stdClosure_eq] at h ⊢
  exact sym_of_check 20 _ closureTable_keysInc closureTable_equiv x y h

/-- the case closure of the real tables is transitive (up to the character itself, which a closure
    need not list) -/
theorem closure_trans_std :
    ∀ x y z, y ∈ Env.std.closure x → z ∈ Env.std.closure y → z = x ∨ z ∈ Env.std.closure x := by
  intro x y z h h'
  rw [stdClosure_eq] at h h' ⊢
  exact trans_of_check 20 _ closureTable_keysInc closureTable_equiv x y z h h'

/-- surrogates have no case closure in the real tables -/
theorem surrogateFree_std : SurrogateFree Env.std := by
  intro s hs
  rw [stdClosure_eq]
  exact noSur_of_check _ closureTable_noSurKey s hs

theorem closureEquiv_std : ClosureEquiv Env.std := ⟨closure_sym_std, closure_trans_std⟩

/-- a character with a case variant is a code point (so are its variants: `closure_bound_std`) -/
theorem closure_key_bound_std (x y : Nat) (h : y ∈ Env.std.closure x) : x < cpLimit :=
  closure_bound_std y x (closure_sym_std x y h)

/-- the hypotheses are met non-trivially: `K`, `k` and the Kelvin sign U+212A -/
example : 8490 ∈ Env.std.closure 75 ∧ 107 ∈ Env.std.closure 8490 ∧ 107 ∈ Env.std.closure 75 := by
  decide +kernel
example : 75 ∈ Env.std.closure 8490 := closure_sym_std 75 8490 (by decide +kernel)
example : 107 = 75 ∨ 107 ∈ Env.std.closure 75 :=
  closure_trans_std 75 8490 107 (by decide +kernel) (by decide +kernel)
example : Env.std.closure 55296 = [] := surrogateFree_std 55296 (by decide)

/-! ### 2. classes of the pattern are closed under the closure table -/

/-- the set-algebra reading: the members under flag i of a positive class of characters and ranges
    are closed under the real closure table (`C09.PositiveClassCaseClosed`, hypotheses discharged) -/
theorem memberI_closed_std (items : List Item) (hch : CharsOnly items) (x y : Nat)
    (hx : (CExpr.leaf false items).MemberI Env.std x) (hy : y ∈ Env.std.closure x) :
    (CExpr.leaf false items).MemberI Env.std y :=
  positive_class_case_closed_partial Env.std surrogateFree_std closureEquiv_std items hch x y hx hy

/-- MAIN THEOREM.  Flag i, the real tables, a well-formed positive class of single characters,
    literal hyphens and ranges at the cursor: the parser consumes it and returns a canonical list
    `R` that is closed under the case closure and contains every case-sensitive member. -/
theorem class_case_closed_std (c : PC) (hci : c.fl.caseBlind = true) (henv : c.env = Env.std)
    (items : List Item) (hch : CharsOnly items)
    (hok : (CExpr.leaf false items).ok c.fl.xsd c.env = true) (s : PS) (rest : List Nat)
    (hpat : c.pat.drop s.idx = (CExpr.leaf false items).render ++ rest) (fuel : Nat)
    (hfuel : (CExpr.leaf false items).render.length ≤ fuel) :
    ∃ R, parseClass c fuel s =
        .ok R { s with idx := s.idx + (CExpr.leaf false items).render.length } ∧
      Canon R ∧
      (∀ x y, clsContains R x = true → y ∈ Env.std.closure x → clsContains R y = true) ∧
      (∀ x, x < cpLimit → (CExpr.leaf false items).Member Env.std x → clsContains R x = true) := by
  obtain ⟨R, hp, _, hcan, hmem⟩ :=
    parse_class_full_i_std c hci henv (.leaf false items) hok s rest hpat fuel hfuel
  rw [henv] at hmem
  refine ⟨R, hp, hcan, fun x y hx hy => ?_, fun x hx hm => ?_⟩
  · have hxl := contains_lt_limit R hcan x hx
    have hyl := closure_bound_std x y hy
    exact (hmem y hyl).2 (memberI_closed_std items hch x y ((hmem x hxl).1 hx) hy)
  · exact (hmem x hx).2 (superset_of_cs Env.std items x hm)

/-! ### 3. connection with C11b: closed under the table ⇒ closed under the comparison, off U+0130 -/

/-- a set closed under the closure table is `clsClosedOn` the alphabet without U+0130: there the
    comparison `eqCB lower` is contained in the closure relation (`caseOK_std_on`) -/
theorem clsClosedOn_of_closure_closed (R : Ranges)
    (hcl : ∀ x y, clsContains R x = true → y ∈ Env.std.closure x → clsContains R y = true) :
    C11b.clsClosedOn C11b.notDottedI Env.std.lower R := by
  intro a b ha hb hab
  have hba : eqCB Env.std.lower b a = true := by
    rw [C11.eqCB_iff_lower] at hab ⊢
    exact hab.symm
  rcases caseOK_std_on.1 a b ha hb hba with h1 | h1
  · rw [h1]
  rcases caseOK_std_on.1 b a hb ha hab with h2 | h2
  · rw [h2]
  exact Bool.eq_iff_iff.2 ⟨fun h => hcl a b h h1, fun h => hcl b a h h2⟩

/-- the class of `class_case_closed_std` meets the hypothesis of
    `C11b.OpR_input_case_invariant_on C11b.notDottedI` (`clsClosedOn` at its class node) -/
theorem class_clsClosedOn_std (c : PC) (hci : c.fl.caseBlind = true) (henv : c.env = Env.std)
    (items : List Item) (hch : CharsOnly items)
    (hok : (CExpr.leaf false items).ok c.fl.xsd c.env = true) (s : PS) (rest : List Nat)
    (hpat : c.pat.drop s.idx = (CExpr.leaf false items).render ++ rest) (fuel : Nat)
    (hfuel : (CExpr.leaf false items).render.length ≤ fuel) :
    ∃ R, parseClass c fuel s =
        .ok R { s with idx := s.idx + (CExpr.leaf false items).render.length } ∧
      C11b.clsClosedOn C11b.notDottedI Env.std.lower R ∧
      C11b.allCls (C11b.clsClosedOn C11b.notDottedI Env.std.lower) (.cls R) := by
  obtain ⟨R, hp, _, hcl, _⟩ := class_case_closed_std c hci henv items hch hok s rest hpat fuel hfuel
  have h := clsClosedOn_of_closure_closed R hcl
  exact ⟨R, hp, h, by simpa [C11b.allCls] using h⟩

/-- END TO END with C11b: the class node built from the pattern text matches the same spans on two
    inputs that differ by case only (real lower-casing table, inputs without U+0130) -/
theorem class_node_input_case_invariant_std (c : PC) (hci : c.fl.caseBlind = true)
    (henv : c.env = Env.std) (items : List Item) (hch : CharsOnly items)
    (hok : (CExpr.leaf false items).ok c.fl.xsd c.env = true) (s : PS) (rest : List Nat)
    (hpat : c.pat.drop s.idx = (CExpr.leaf false items).render ++ rest) (fuel : Nat)
    (hfuel : (CExpr.leaf false items).render.length ≤ fuel) :
    ∃ R, parseClass c fuel s =
        .ok R { s with idx := s.idx + (CExpr.leaf false items).render.length } ∧
      ∀ (ctx : Ctx) (ys : List Nat), ctx.caseBlind = true → ctx.lower = Env.std.lower →
        C11b.CaseEquivInputs ctx.lower ctx.input ys →
        C11b.Over C11b.notDottedI ctx.input → C11b.Over C11b.notDottedI ys →
        ∀ p q, OpR ctx (.cls R) p q ↔ OpR { ctx with input := ys } (.cls R) p q := by
  obtain ⟨R, hp, _, hall⟩ := class_clsClosedOn_std c hci henv items hch hok s rest hpat fuel hfuel
  refine ⟨R, hp, fun ctx ys hcb hl hin hA hA' p q => ?_⟩
  exact C11b.OpR_input_case_invariant_on C11b.notDottedI ctx ys hcb hin hA hA'
    (hl ▸ C11b.newlineCaseless_std) (.cls R) (hl ▸ hall) p q

/-- `[i]` -/
def exI : CExpr := .leaf false [.one (.plain 105)]

/-- under flag i, with the real tables, `[i]` is `{I, i}` -/
theorem exI_denote : exI.denoteI Env.std = [(73, 74), (105, 106)] := by decide +kernel

/-- the requested connection on the FULL alphabet -/
def class_clsClosed_all : Prop :=
  ∀ items, CharsOnly items → (CExpr.leaf false items).ok false Env.std = true →
    C11b.clsClosed Env.std.lower ((CExpr.leaf false items).denoteI Env.std)

/-- FALSE (K10): the comparison identifies U+0130 with `i` (simple lower-casing), the closure table
    does not, so the class `[i]` under i contains `i` and not U+0130.  The true variant is
    `class_clsClosedOn_std` (alphabet without U+0130). -/
theorem class_clsClosed_all_false : ¬ class_clsClosed_all := by
  intro h
  have h1 := h [.one (.plain 105)] (by intro i hi; simp only [List.mem_singleton] at hi; subst hi; rfl)
    (by decide)
  have he : eqCB Env.std.lower 304 105 = true :=
    (C11.eqCB_iff_lower _ _ _).2 (by decide +kernel : Env.std.lower 304 = Env.std.lower 105)
  have h2 := h1 304 105 he
  have hd : (CExpr.leaf false [.one (.plain 105)]).denoteI Env.std = [(73, 74), (105, 106)] := exI_denote
  rw [hd] at h2
  revert h2
  decide

/-- the two relations differ in the other direction too (K8): the closure table relates `s` and
    U+017F (long s), the comparison by simple lower-casing does not.  A class is therefore closed
    under MORE than the comparison requires, which `clsClosedOn` allows. -/
theorem closure_not_comparison :
    383 ∈ Env.std.closure 115 ∧ 115 ∈ Env.std.closure 383 ∧ eqCB Env.std.lower 115 383 = false := by
  decide +kernel

/-- … and only U+0130 separates them the harmful way (`EnvStd.caseOK_std_on`, restated): off
    U+0130 whatever the comparison identifies is related by the closure table -/
theorem comparison_sub_closure (a b : Nat) (ha : a ≠ 304) (hb : b ≠ 304)
    (h : eqCB Env.std.lower a b = true) : a = b ∨ a ∈ Env.std.closure b :=
  caseOK_std_on.1 b a (by simpa [C11b.notDottedI] using hb) (by simpa [C11b.notDottedI] using ha) h

/-! ### non-vacuity: `[a-c]` and `[k]` against the real tables -/

/-- the hypotheses of `class_case_closed_std` / `class_clsClosedOn_std` are satisfiable -/
example : ∃ R, parseClass ⟨exAC.render, { caseBlind := true }, Env.std⟩ 7 {} = .ok R { idx := 5 } ∧
    Canon R ∧
    (∀ x y, clsContains R x = true → y ∈ Env.std.closure x → clsContains R y = true) ∧
    (∀ x, x < cpLimit → exAC.Member Env.std x → clsContains R x = true) :=
  class_case_closed_std ⟨exAC.render, { caseBlind := true }, Env.std⟩ rfl rfl
    [.range (.plain 97) (.plain 99)]
    (by intro i hi; simp only [List.mem_singleton] at hi; subst hi; rfl)
    (by decide) {} [] (by decide) 7 (by decide)

example : ∃ R, parseClass ⟨exAC.render, { caseBlind := true }, Env.std⟩ 7 {} = .ok R { idx := 5 } ∧
    C11b.clsClosedOn C11b.notDottedI Env.std.lower R ∧
    C11b.allCls (C11b.clsClosedOn C11b.notDottedI Env.std.lower) (.cls R) :=
  class_clsClosedOn_std ⟨exAC.render, { caseBlind := true }, Env.std⟩ rfl rfl
    [.range (.plain 97) (.plain 99)]
    (by intro i hi; simp only [List.mem_singleton] at hi; subst hi; rfl)
    (by decide) {} [] (by decide) 7 (by decide)

/-- the ctx-side hypotheses of `class_node_input_case_invariant_std` are satisfiable: the inputs
    "b" and "B" under the real lower-casing table -/
example : (fun (ctx : Ctx) (ys : List Nat) => ctx.caseBlind = true ∧ ctx.lower = Env.std.lower ∧
    C11b.CaseEquivInputs ctx.lower ctx.input ys ∧
    C11b.Over C11b.notDottedI ctx.input ∧ C11b.Over C11b.notDottedI ys)
    { input := [98], caseBlind := true, multiLine := false, hasBackrefs := false, maxParens := 1,
      lower := Env.std.lower } [66] := by
  refine ⟨rfl, rfl, ⟨rfl, fun k h1 h2 => ?_⟩, ?_, ?_⟩
  · have : k = 0 := by simp at h1; omega
    subst this
    show eqCB Env.std.lower 98 66 = true
    decide +kernel
  · intro x hx; simp only [List.mem_singleton] at hx; subst hx; rfl
  · intro x hx; simp only [List.mem_singleton] at hx; subst hx; rfl

/-- `[k]` under i is `{K, k, U+212A}`: a three-element closure class -/
example : (CExpr.leaf false [.one (.plain 107)]).denoteI Env.std = [(75, 76), (107, 108), (8490, 8491)] := by
  decide +kernel

/-- `memberI_closed_std` applies: U+212A is a member of `[k]` because `K` is -/
example : (CExpr.leaf false [.one (.plain 107)]).MemberI Env.std 8490 :=
  memberI_closed_std _ (by intro i hi; simp only [List.mem_singleton] at hi; subst hi; rfl) 75 8490
    (by simp only [CExpr.MemberI, iff_true]
        exact ⟨_, List.mem_singleton.2 rfl, Or.inr (by decide +kernel)⟩)
    (by decide +kernel)

end Rx.C11d
