/-
  Props/Clean3MemoSpans — the scan functions (`replace_all`, `tokenize`, `analyze`) on programs of the memo
  fragment (`Prog3m` of Props/Clean3MemoScan: a root sequence with skippable greedy repeats `x*`, `x{0,n}` over
  deterministic bodies) that pass the nullability gate see EXACTLY the state-free span list `spans`
  (Props/Clean3ApiComplete: from 0, repeatedly the least start with a match and the head of `enum3` from it,
  continuing at that end) — STARTS AND ENDS — although the zero-length memo is threaded from one `matches`
  call to the next.

  This closes the "NOT DONE" of Props/Clean3MemoScan (`SpansSpec` fixed the starts only), with the end now
  known from Props/Clean3MemoEnd (`clean3m_match_is_leftmost_first_from`).

  The generic loop layer (Proofs/ApiGenericLemmas, `FindOK`) asks the matcher to be correct from EVERY clean
  state, which the memo matcher is not; Proofs/MemoSpansLemmas repeats it over `FindOKI I`, where a search from
  `pos` is only asked to be correct in states with `I pos st`, and a success reporting `[j, n)` must give
  `I n st'`.  Here `I := HRfrom ctx l` (`clean3m_findOKI`: `clean3m_outcome_from`,
  `clean3m_match_is_leftmost_first_from`, `clean3m_success_keeps`, `MemoEnd.enumSeq3m_sound`).

  Headline theorems (over the bundle `Memo3 env lower r input`; constructors `Memo3.of_prog` — any `Prog3m`
  program — and `Memo3.of_new` — what `Regex::new` returned):

    `clean3m_scan_sees_spans`      `spanPairs (spansOf matcher … 0 {}) = spans r lower input`
    `clean3m_spans_ordered`, `clean3m_span_sem`, `clean3m_spans_spec` (the list satisfies `SpansSpec` of
       Props/Clean3MemoScan)
    `clean3m_replace_spec` (+ `_plain`, `_dollar0`), `clean3m_tokenize_spec_full`, `clean3m_analyze_spec`
       (+ `clean3m_analyze_plain`)
    totality: `clean3m_replace_total`, `clean3m_tokenize_total`, `clean3m_analyze_total` (+ `_plain`), and with the
       gate, through `Regex::new`: `api_clean3m_replace_total`, `api_clean3m_tokenize_total`,
       `api_clean3m_analyze_total`
  All statements are TRUE as asked; nothing was weakened.
-/
import RxModel.Proofs.MemoSpansLemmas
import RxModel.Props.Clean3MemoEnd
import RxModel.Props.Clean3ApiComplete
namespace Rx.Clean3MemoSpans
open Rx Rx.SearchComplete Rx.Spec Rx.Memo Rx.MemoScan Rx.MemoEnd Rx.Clean3MemoScan Rx.Clean3MemoEnd
open Rx.ApiGeneric Rx.ApiMemo
open Rx.ApiGeneric.Clean3 (headEnum3 spans)
open Rx.ApiComplete (GoodInput hasCapNode compile_maxParens)
open Rx.C08 (noEmptyAtoms)

/-! ## one search, under the scan invariant -/

section
variable {env : Env} {pat : List Nat} {op : Op} {mp : Nat} {fl : CFlags} {lower : Nat → Nat}
  {input : List Nat} {l : List Op}

/-- KEY STEP: the memo-threaded matcher of a non-nullable `Prog3m` program satisfies `FindOKI` with the
    invariant `HRfrom` — every search from a state satisfying `HRfrom pos` finds exactly the state-free
    `firstSpan` (least start, priority-first end) and leaves `HRfrom end` -/
theorem clean3m_findOKI (P : Prog3m env pat op mp fl lower input l)
    (hnull : (mkProgram pat op mp fl false).isMatch lower [] = .ok false) :
    FindOKI (HRfrom ((mkProgram pat op mp fl false).ctx lower input) l)
      ((mkProgram pat op mp fl false).ctx lower input) (mkProgram pat op mp fl false) := by
  obtain ⟨T, _, _⟩ := program_facts env pat op mp fl lower input P.inp l P.hop P.clean P.wf P.ne P.can P.len
  obtain ⟨hwT, hcT⟩ := prog_wf P
  have hlen : ((mkProgram pat op mp fl false).ctx lower input).len = input.length := rfl
  refine findOKI_of_outcome (by rw [P.hop]; exact hwT) (by rw [P.hop]; exact hcT)
    (fun pos => HRfrom_fresh _ l pos) ?_ ?_ ?_ ?_
  · intro k hk hno
    show (enum3 _ _ k).head? = none
    rw [P.hop]
    cases hl : enum3 ((mkProgram pat op mp fl false).ctx lower input) (.seq l) k with
    | nil => rfl
    | cons q rest =>
      exfalso
      apply hno
      refine ⟨q, ?_⟩
      rw [P.hop]
      have hc := T.clean
      have hw := T.wf
      have hn := T.ne
      have hcc := T.can
      simp only [cleanProg3m, Bool.and_eq_true, decide_eq_true_eq] at hc
      simp only [wfOp, Bool.and_eq_true, Bool.not_eq_true', List.isEmpty_eq_false_iff] at hw
      simp only [noEmptyAtoms] at hn
      simp only [C08.clsCanon] at hcc
      have hmem : q ∈ enumSeq3 ((mkProgram pat op mp fl false).ctx lower input) l k := by
        have : q ∈ enum3 ((mkProgram pat op mp fl false).ctx lower input) (.seq l) k := by
          rw [hl]; exact List.mem_cons_self
        simpa only [enum3] using this
      have := enumSeq3m_sound env _ T.inp l hc.1 hw.2 hn hcc k q hk hmem
      simpa only [OpR] using this
  · intro j hj
    rw [P.hop] at hj
    exact no_zero P hnull j hj
  · intro pos st hpos hst hI
    rw [P.hop]
    exact (clean3m_outcome_from P pos hpos st hst hI).1
  · intro pos st st' hpos hst hI hm
    obtain ⟨j, n, h1, h2, h3, h4, h5, h6, h7, h8⟩ :=
      clean3m_match_is_leftmost_first_from P pos hpos st st' hst hI hm
    obtain ⟨j', n', _, g2, _, _, _, _, _, _, gI⟩ := clean3m_success_keeps P hnull pos hpos st st' hst hI hm
    have hn : n' = n := Option.some.inj (by rw [← g2, ← h2])
    subst hn
    exact ⟨j, n', h1, h2, h8, h3, h4, h5, h6, h7, gI⟩

end

/-! ## the bundle -/

/-- `r` is a regex that passed the nullability gate and whose program is a `Prog3m` program (with `input`) -/
structure Memo3 (env : Env) (lower : Nat → Nat) (r : Regex) (input : List Nat) : Prop where
  ex : ∃ pat op mp fl l, r.prog = mkProgram pat op mp fl false ∧ Prog3m env pat op mp fl lower input l ∧
    (mkProgram pat op mp fl false).isMatch lower [] = .ok false
  gate : r.nullable = false
  mp : r.prog.maxParens ≠ 0

/-- from a `Prog3m` program that does not match the empty string -/
theorem Memo3.of_prog {env : Env} {pat : List Nat} {op : Op} {mp : Nat} {fl : CFlags} {lower : Nat → Nat}
    {input : List Nat} {l : List Op} (P : Prog3m env pat op mp fl lower input l)
    (hnull : (mkProgram pat op mp fl false).isMatch lower [] = .ok false)
    (hmp : (mkProgram pat op mp fl false).maxParens ≠ 0) :
    Memo3 env lower ⟨mkProgram pat op mp fl false, false⟩ input :=
  ⟨⟨pat, op, mp, fl, l, rfl, P, hnull⟩, rfl, hmp⟩

/-- from `Regex::new` (hypotheses of `api_clean3m_scan_spans`) -/
theorem Memo3.of_new (env : Env) (p fs : List Nat) (xsd : Bool) (fl : Flags) (r : Regex)
    (hf : parseFlags fs xsd = some fl) (h : Regex.new env p fs xsd true = .ok r) (hns : Api.NoSat env fl p)
    (hclean : Memo.cleanProg3m env fl.caseBlind fl.multiLine r.prog.op = true) (hcan : clsCanonB r.prog.op = true)
    (hnb : r.prog.hasBackrefs = false) (hlit : fl.literal = true → p ≠ []) (hnull : r.nullable = false)
    (input : List Nat) (G : GoodInput env fl input) : Memo3 env env.lower r input := by
  obtain ⟨pat', op', mp, l, heq, _, P⟩ :=
    new_prog3m env p fs xsd fl r hf h hns hclean hcan hnb hlit input G.ok G.len
  have hn := C16.new_nullable env p fs xsd true r h
  rw [hnull, heq] at hn
  have hcomp := Clean2Api.new_compile env p fs xsd true fl r hf h
  rw [Clean2Api.compileProg_core] at hcomp
  exact ⟨⟨pat', op', mp, fl.core, l, heq, P, hn⟩, hnull, compile_maxParens env fl.core _ r.prog hcomp⟩

section
variable {env : Env} {lower : Nat → Nat} {r : Regex} {input : List Nat}

/-- the matcher satisfies `FindOKI` for SOME invariant that holds of the fresh matcher -/
theorem Memo3.findOKI (M : Memo3 env lower r input) :
    ∃ I : Nat → St → Prop, FindOKI I (r.prog.ctx lower input) r.prog := by
  obtain ⟨pat, op, mp, fl, l, heq, P, hn⟩ := M.ex
  rw [heq]
  exact ⟨_, clean3m_findOKI P hn⟩

/-- `C04.GoodFind` (from any state) -/
theorem Memo3.goodFind (M : Memo3 env lower r input) :
    C04.GoodFind (r.prog.matcher lower input) input.length (fun _ => True) := by
  obtain ⟨pat, op, mp, fl, l, heq, P, hn⟩ := M.ex
  rw [heq]
  exact clean3m_goodFind P hn

/-! ## 1. the scan sees exactly the state-free spans -/

/-- **THE SCAN SEES EXACTLY THE STATE-FREE SPANS** (starts and ends): the span sequence the three scan loops
    compute with the memo threaded from match to match, from a fresh matcher, is `spans` — the list built
    from `enum3` alone -/
theorem clean3m_scan_sees_spans (M : Memo3 env lower r input) :
    C04.spanPairs (C04.spansOf (r.prog.matcher lower input) input.length (input.length + 2) 0 {}) =
      spans r lower input := by
  obtain ⟨I, F⟩ := M.findOKI
  exact spansOf_eqI F _ 0 {} rfl (Nat.zero_le _) (F.fresh 0)

/-- the list is strictly left to right, its spans are non-empty and inside the input -/
theorem clean3m_spans_ordered (M : Memo3 env lower r input) :
    C04.Ordered input.length 0 (spans r lower input) := by
  obtain ⟨I, F⟩ := M.findOKI
  exact spansFrom_orderedI F _ 0 (Nat.zero_le _)

/-- what an element of the list is, in terms of the language: `firstSpan` from the previous end is a member
    `[j, n)` with `n` the head of `enum3` from `j`, and no member starts in `[pos, j)` -/
theorem clean3m_span_sem (M : Memo3 env lower r input) (pos j n : Nat) (hpos : pos ≤ input.length)
    (h : firstSpan (r.prog.ctx lower input) r.prog.op pos = some (j, n)) :
    pos ≤ j ∧ (enum3 (r.prog.ctx lower input) r.prog.op j).head? = some n ∧
    OpR (r.prog.ctx lower input) r.prog.op j n ∧
    ∀ k q, pos ≤ k → k < j → ¬ OpR (r.prog.ctx lower input) r.prog.op k q := by
  obtain ⟨I, F⟩ := M.findOKI
  obtain ⟨h1, h2⟩ := (F.sem pos hpos).1 j n h
  obtain ⟨g1, _, g3, _⟩ := Clean3.firstSpan_spec _ _ pos j n h
  exact ⟨g1, g3, h1, h2⟩

/-- link with Props/Clean3MemoScan: the state-free list satisfies the specification `SpansSpec` proved there for
    the memo-threaded scan (which left the ends open) -/
theorem clean3m_spans_spec (M : Memo3 env lower r input) :
    SpansSpec (r.prog.ctx lower input) r.prog.op 0 (spans r lower input) := by
  rw [← clean3m_scan_sees_spans M]
  obtain ⟨pat, op, mp, fl, l, heq, P, hn⟩ := M.ex
  rw [heq, P.hop]
  exact clean3m_scan_spans P hn

/-! ## 2. replace -/

/-- `replace_all` with a well-formed replacement that refers to no group but `$0`: SUCCEEDS and returns the
    input with every span of `spans` replaced by the expansion of the replacement for that span -/
theorem clean3m_replace_spec (M : Memo3 env lower r input) (repl : List Nat)
    (hd : Dep0 (r.prog.maxParens - 1) repl) :
    r.replaceAll lower input repl =
      .ok (replaced input 0 ((spans r lower input).map
        (fun x => (x.1, x.2, ApiGeneric.replText r.prog input repl x.1 x.2)))) := by
  obtain ⟨I, F⟩ := M.findOKI
  simp only [Regex.replaceAll, M.gate, Bool.false_eq_true, if_false, replaceWith]
  have := replaceLoop_specI F repl M.mp hd (input.length + 2) 0 {} true false [] rfl
    (Nat.zero_le _) (F.fresh 0) (by omega) (fun _ => ⟨rfl, rfl⟩) (fun h => by cases h) (fun h => by cases h)
  simpa [spans] using this

/-- a replacement without `$` and `\`: the pieces between the spans, joined by it -/
theorem clean3m_replace_plain (M : Memo3 env lower r input) (repl : List Nat) (hp : plainRepl repl = true) :
    r.replaceAll lower input repl = .ok (joinWith repl (pieces input 0 (spans r lower input))) := by
  rw [clean3m_replace_spec M repl (dep0_of_plain _ repl hp)]
  have ht : ∀ j n, ApiGeneric.replText r.prog input repl j n = repl := by
    intro j n
    unfold ApiGeneric.replText
    split
    · rfl
    · rw [expandSpec_plain _ _ _ hp]; rfl
  simp only [ht]
  rw [replaced_const']

/-- `$0` (without flag q): the input comes back unchanged -/
theorem clean3m_replace_dollar0 (M : Memo3 env lower r input) (hlit : r.prog.literal = false) :
    r.replaceAll lower input [36, 48] = .ok input := by
  rw [clean3m_replace_spec M _ (dep0_dollar0 _)]
  have ht : ∀ j n, ApiGeneric.replText r.prog input [36, 48] j n = slice input j n := by
    intro j n
    unfold ApiGeneric.replText
    rw [hlit]
    simp only [Bool.false_eq_true, if_false]
    rw [expandSpec_dollar0]; rfl
  simp only [ht]
  rw [replaced_self' input input.length _ 0 (clean3m_spans_ordered M)]
  rfl

/-! ## 3. tokenize -/

/-- `tokenize` (pulled to exhaustion): exactly the pieces between consecutive spans of `spans` — including
    empty leading, trailing and adjacent pieces — and then the iterator is exhausted -/
theorem clean3m_tokenize_spec_full (M : Memo3 env lower r input) (hne : input ≠ [])
    (limit : Nat) (hl : input.length + 1 ≤ limit) :
    r.tokenize lower input limit = .ok (pieces input 0 (spans r lower input), false) := by
  obtain ⟨I, F⟩ := M.findOKI
  have he : input.isEmpty = false := by
    cases input with
    | nil => exact absurd rfl hne
    | cons a t => rfl
  simp only [Regex.tokenize, he, M.gate, Bool.false_eq_true, if_false]
  have := tokenLoop_specI F limit (input.length + 2) 0 {} [] rfl (Nat.zero_le _) (F.fresh 0)
    (by omega) (by omega)
  simpa [spans] using this

/-- the number of tokens -/
theorem clean3m_tokenize_count (M : Memo3 env lower r input) :
    (pieces input 0 (spans r lower input)).length = (spans r lower input).length + 1 ∧
    (spans r lower input).length ≤ input.length := by
  refine ⟨C04.pieces_length _ _ _, ?_⟩
  have := C04.ordered_length input.length _ 0 (Nat.zero_le _) (clean3m_spans_ordered M)
  omega

/-! ## 4. analyze -/

/-- `analyze` (pulled to exhaustion): whatever it answers with `.ok` is the alternating list of non-match /
    match entries over a list `L` whose spans are exactly `spans` -/
theorem clean3m_analyze_spec (M : Memo3 env lower r input)
    (limit : Nat) (hl : 2 * input.length + 1 ≤ limit) (es : List AEntry) (more : Bool)
    (h : r.analyze lower input limit = .ok (es, more)) :
    ∃ L : List (Nat × Nat × List MEntry),
      L.map (fun x => (x.1, x.2.1)) = spans r lower input ∧ es = entries input 0 L ∧ more = false := by
  simp only [Regex.analyze, M.gate, Bool.false_eq_true, if_false] at h
  cases htbl : (if r.prog.literal = true then some [] else nestingTable r.prog.pattern) with
  | none => rw [htbl] at h; cases h
  | some tbl =>
    rw [htbl] at h
    obtain ⟨h1, h2⟩ := C04.analyze_spec (r.prog.matcher lower input) (fun _ => True) input
      (processMatch tbl) M.goodFind {} trivial limit hl es more h
    refine ⟨_, ?_, h1, h2⟩
    rw [List.map_map]
    exact clean3m_scan_sees_spans M

/-- a regex WITHOUT capturing groups: the Match entry of a span is its text -/
theorem clean3m_analyze_plain (M : Memo3 env lower r input) (hnc : hasCapNode r.prog.op = false)
    (limit : Nat) (hl : 2 * input.length + 1 ≤ limit) (es : List AEntry) (more : Bool)
    (h : r.analyze lower input limit = .ok (es, more)) :
    es = entries input 0 ((spans r lower input).map
      (fun x => (x.1, x.2, [MEntry.str (slice input x.1 x.2)]))) ∧ more = false := by
  obtain ⟨I, F⟩ := M.findOKI
  simp only [Regex.analyze, M.gate, Bool.false_eq_true, if_false] at h
  cases htbl : (if r.prog.literal = true then some [] else nestingTable r.prog.pattern) with
  | none => rw [htbl] at h; cases h
  | some tbl =>
    rw [htbl] at h
    obtain ⟨h1, h2⟩ := C04.analyze_spec (r.prog.matcher lower input) (fun _ => True) input
      (processMatch tbl) M.goodFind {} trivial limit hl es more h
    refine ⟨?_, h2⟩
    rw [h1]
    congr 1
    exact spansOf_mapI F
      (fun st j n => C04.entryD (processMatch tbl) st (slice input j n))
      (fun j n => [MEntry.str (slice input j n)])
      (fun st j n PM => by
        simp only [C04.entryD]
        rw [C03.processMatch_plain tbl st _ (PM.pc1 hnc)])
      (input.length + 2) 0 {} rfl (Nat.zero_le _) (F.fresh 0)

/-- … and the texts of all entries concatenate to the input -/
theorem clean3m_analyze_concat (M : Memo3 env lower r input) (hnc : hasCapNode r.prog.op = false)
    (limit : Nat) (hl : 2 * input.length + 1 ≤ limit) (es : List AEntry) (more : Bool)
    (h : r.analyze lower input limit = .ok (es, more)) : aTextL es = input := by
  rw [(clean3m_analyze_plain M hnc limit hl es more h).1]
  exact entries_text' input _ 0 (clean3m_spans_ordered M)

/-! ## 5. totality -/

/-- `replace_all` with ANY replacement string: `.ok`, or the classified error — never a panic, never
    divergence -/
theorem clean3m_replace_total (M : Memo3 env lower r input) (repl : List Nat) :
    (∃ out, r.replaceAll lower input repl = .ok out) ∨
    r.replaceAll lower input repl = .err .invalidReplacement := by
  obtain ⟨I, F⟩ := M.findOKI
  simp only [Regex.replaceAll, M.gate, Bool.false_eq_true, if_false, replaceWith]
  exact replaceLoop_totalI F (r.prog.subst input repl) r.prog.literal
    (input.length + 2) 0 {} true false [] rfl (Nat.zero_le _) (F.fresh 0) (by omega)

/-- `tokenize`, any limit -/
theorem clean3m_tokenize_total (M : Memo3 env lower r input) (limit : Nat) :
    ∃ toks more, r.tokenize lower input limit = .ok (toks, more) := by
  obtain ⟨I, F⟩ := M.findOKI
  unfold Regex.tokenize
  split
  · exact ⟨_, _, rfl⟩
  · simp only [M.gate, Bool.false_eq_true, if_false]
    exact tokenLoop_totalI F limit (some 0) {} [] rfl
      (fun p hp => by cases hp; exact ⟨Nat.zero_le _, F.fresh 0⟩)

/-- `analyze`, any limit: `.ok`, or a panic at one of the two sites of the group-tree builder
    (`process_matching_substring`, `compute_nesting_table`) — never divergence, no other panic -/
theorem clean3m_analyze_total (M : Memo3 env lower r input) (limit : Nat) :
    (∃ es more, r.analyze lower input limit = .ok (es, more)) ∨
    r.analyze lower input limit = .panic panicAnalyze ∨
    r.analyze lower input limit = .panic panicNesting := by
  obtain ⟨I, F⟩ := M.findOKI
  simp only [Regex.analyze, M.gate, Bool.false_eq_true, if_false]
  cases htbl : (if r.prog.literal = true then some [] else nestingTable r.prog.pattern) with
  | none => exact .inr (.inr rfl)
  | some tbl =>
    simp only
    rcases analyzeLoop_totalI F (processMatch tbl) (fun c => c = panicAnalyze)
        (fun st t j n _ => by
          rcases processMatch_cases tbl st t with h | h
          · exact .inl h
          · exact .inr ⟨_, h, rfl⟩)
        limit _ [] (AInvI.init F) with h | ⟨c, h, hc⟩
    · exact .inl h
    · subst hc; exact .inr (.inl h)

/-- without capturing groups (and with a nesting table) the builder cannot panic -/
theorem clean3m_analyze_total_plain (M : Memo3 env lower r input) (hnc : hasCapNode r.prog.op = false)
    (htbl : r.prog.literal = true ∨ (nestingTable r.prog.pattern).isSome = true) (limit : Nat) :
    ∃ es more, r.analyze lower input limit = .ok (es, more) := by
  obtain ⟨I, F⟩ := M.findOKI
  simp only [Regex.analyze, M.gate, Bool.false_eq_true, if_false]
  have ht : ∃ tbl, (if r.prog.literal = true then some [] else nestingTable r.prog.pattern) = some tbl := by
    rcases htbl with h | h
    · exact ⟨[], by rw [if_pos h]⟩
    · by_cases hl : r.prog.literal = true
      · exact ⟨[], by rw [if_pos hl]⟩
      · rw [if_neg hl]
        cases hn : nestingTable r.prog.pattern with
        | none => rw [hn] at h; cases h
        | some t => exact ⟨t, rfl⟩
  obtain ⟨tbl, ht⟩ := ht
  rw [ht]
  simp only
  rcases analyzeLoop_totalI F (processMatch tbl) (fun _ => False)
      (fun st t j n PM => .inl ⟨_, C03.processMatch_plain tbl st t (PM.pc1 hnc)⟩)
      limit _ [] (AInvI.init F) with h | ⟨c, _, hc⟩
  · exact h
  · exact hc.elim

end

/-! ## example: the compiled tree of `(?:ab|c)*c` (`starcProg`, Props/Clean3MemoEnd) -/
section examples
open Rx.Clean3Memo (exEnv exInputOK)

/-- the regex value: `starcProg`, gate bit `false` -/
def starcRegex : Regex := ⟨starcProg, false⟩

theorem starc_gate : starcProg.isMatch id [] = .ok false ∧ starcProg.maxParens ≠ 0 ∧
    hasCapNode starcProg.op = false ∧ starcProg.literal = false := by
  refine ⟨?_, ?_, ?_, ?_⟩ <;> decide +kernel

/-- the hypotheses of all the headline theorems hold for `(?:ab|c)*c` on EVERY input of scalar values -/
theorem starc_memo3 (input : List Nat) (hin : ∀ c ∈ input, c < cpLimit)
    (hsc : ∀ c ∈ input, isSurrogate c = false) (hlen : input.length < usizeMax) :
    Memo3 exEnv id starcRegex input :=
  Memo3.of_prog (l := starcList)
    ⟨exInputOK input hin hsc, starc_op, starc_ok.1, starc_ok.2.1, starc_ok.2.2.1, starc_ok.2.2.2.1,
      starc_ok.2.2.2.2, hlen⟩ starc_gate.1 starc_gate.2.1

/-- "abccxcxabc": the memo-threaded scan and the state-free list are both `(0,4)`, `(5,6)`, `(7,10)` — in the
    first and the last span the repeat gives back its last iteration; computed by kernel evaluation -/
theorem starc_spans_computed :
    spans starcRegex id [97, 98, 99, 99, 120, 99, 120, 97, 98, 99] = [(0, 4), (5, 6), (7, 10)] ∧
    C04.spanPairs (C04.spansOf (starcProg.matcher id [97, 98, 99, 99, 120, 99, 120, 97, 98, 99]) 10 12 0 {}) =
      [(0, 4), (5, 6), (7, 10)] := by
  refine ⟨?_, ?_⟩ <;> decide +kernel

/-- … and the memo IS in play in that scan: the state the first successful `matches` leaves behind (the one
    the second search starts from) has a non-empty memo -/
theorem starc_memo_nonempty :
    (matchesFrom (starcProg.ctx id [97, 98, 99, 99, 120, 99, 120, 97, 98, 99]) starcProg 0 {}).2.hist ≠ [] := by
  decide +kernel

/-- the hypotheses of the headline theorems are satisfiable on a concrete non-trivial instance -/
example : Memo3 exEnv id starcRegex [97, 98, 99, 99, 120, 99, 120, 97, 98, 99] :=
  starc_memo3 _ (by decide +kernel) (by decide +kernel) (by decide)

example (input : List Nat) (hin : ∀ c ∈ input, c < cpLimit) (hsc : ∀ c ∈ input, isSurrogate c = false)
    (hlen : input.length < usizeMax) :
    C04.spanPairs (C04.spansOf (starcProg.matcher id input) input.length (input.length + 2) 0 {}) =
      spans starcRegex id input :=
  clean3m_scan_sees_spans (starc_memo3 input hin hsc hlen)

example (input : List Nat) (hin : ∀ c ∈ input, c < cpLimit) (hsc : ∀ c ∈ input, isSurrogate c = false)
    (hlen : input.length < usizeMax) : starcRegex.replaceAll id input [36, 48] = .ok input :=
  clean3m_replace_dollar0 (starc_memo3 input hin hsc hlen) starc_gate.2.2.2

example (input : List Nat) (hin : ∀ c ∈ input, c < cpLimit) (hsc : ∀ c ∈ input, isSurrogate c = false)
    (hlen : input.length < usizeMax) (hne : input ≠ []) :
    starcRegex.tokenize id input (input.length + 1) = .ok (pieces input 0 (spans starcRegex id input), false) :=
  clean3m_tokenize_spec_full (starc_memo3 input hin hsc hlen) hne _ (Nat.le_refl _)

/-- `analyze` answers `.ok` on every input of scalar values (so the hypothesis of `clean3m_analyze_spec` /
    `clean3m_analyze_plain` is satisfiable), and its entries concatenate to the input -/
example (input : List Nat) (hin : ∀ c ∈ input, c < cpLimit) (hsc : ∀ c ∈ input, isSurrogate c = false)
    (hlen : input.length < usizeMax) :
    ∃ es more, starcRegex.analyze id input (2 * input.length + 1) = .ok (es, more) ∧ aTextL es = input ∧
      es = entries input 0 ((spans starcRegex id input).map
        (fun x => (x.1, x.2, [MEntry.str (slice input x.1 x.2)]))) := by
  have M := starc_memo3 input hin hsc hlen
  obtain ⟨es, more, h⟩ := clean3m_analyze_total_plain M starc_gate.2.2.1 (.inr (by decide +kernel))
    (2 * input.length + 1)
  exact ⟨es, more, h, clean3m_analyze_concat M starc_gate.2.2.1 _ (Nat.le_refl _) es more h,
    (clean3m_analyze_plain M starc_gate.2.2.1 _ (Nat.le_refl _) es more h).1⟩

/-- tokenize "abccxcxabc" at `(?:ab|c)*c`: `["", "x", "x", ""]` -/
theorem starc_tokenize_computed :
    starcRegex.tokenize id [97, 98, 99, 99, 120, 99, 120, 97, 98, 99] 11 = .ok ([[], [120], [120], []], false) := by
  rw [clean3m_tokenize_spec_full (starc_memo3 _ (by decide +kernel) (by decide +kernel) (by decide))
    (by decide) 11 (by decide), starc_spans_computed.1]
  decide +kernel

end examples

/-! ## from `Regex::new`: the example `(?:ab|c)*d` of Props/Clean3MemoScan through the real tables -/
section example_new
open Rx.Clean3Api Rx.Clean2Api

theorem ex0_memo3 (input : List Nat) (hsv : ScalarInput input) (hlen : input.length < usizeMax)
    (r : Regex) (h : Regex.new Env.std exPat0 [] false true = .ok r) : Memo3 Env.std Env.std.lower r input := by
  have hk := Clean3Api.ex_new.2
  have hg := ex0_gate
  rw [h] at hk hg
  simp only [Bool.and_eq_true, Bool.not_eq_true'] at hk hg
  obtain ⟨⟨⟨k1, k2⟩, k3⟩, _⟩ := hk
  exact Memo3.of_new Env.std exPat0 [] false {} r rfl h ex_noSat0 k1 k2 k3 (fun hl => by cases hl) hg input
    (ApiComplete.goodInput_std_cs rfl hsv hlen)

/-- every scan of `(?:ab|c)*d` over scalar values sees exactly the state-free span list -/
example (input : List Nat) (hsv : ScalarInput input) (hlen : input.length < usizeMax)
    (r : Regex) (h : Regex.new Env.std exPat0 [] false true = .ok r) :
    C04.spanPairs (C04.spansOf (r.prog.matcher Env.std.lower input) input.length (input.length + 2) 0 {}) =
      spans r Env.std.lower input :=
  clean3m_scan_sees_spans (ex0_memo3 input hsv hlen r h)

/-! ### totality through `Regex::new`, gate included (the shape of `api3_*_total` of Props/Clean3ApiComplete) -/

theorem api_clean3m_replace_total (env : Env) (p fs : List Nat) (xsd : Bool) (fl : Flags) (r : Regex)
    (hf : parseFlags fs xsd = some fl) (h : Regex.new env p fs xsd true = .ok r) (hns : Api.NoSat env fl p)
    (hclean : Memo.cleanProg3m env fl.caseBlind fl.multiLine r.prog.op = true) (hcan : clsCanonB r.prog.op = true)
    (hnb : r.prog.hasBackrefs = false) (hlit : fl.literal = true → p ≠ [])
    (input : List Nat) (G : ApiComplete.GoodInput env fl input) (repl : List Nat) :
    (∃ out, r.replaceAll env.lower input repl = .ok out) ∨
    r.replaceAll env.lower input repl = .err .invalidReplacement ∨
    r.replaceAll env.lower input repl = .err .matchesEmptyString := by
  cases hnull : r.nullable with
  | true => exact .inr (.inr (C16.replace_nullable r _ _ _ hnull))
  | false =>
    rcases clean3m_replace_total
      (Memo3.of_new env p fs xsd fl r hf h hns hclean hcan hnb hlit hnull input G) repl with h1 | h1
    · exact .inl h1
    · exact .inr (.inl h1)

theorem api_clean3m_tokenize_total (env : Env) (p fs : List Nat) (xsd : Bool) (fl : Flags) (r : Regex)
    (hf : parseFlags fs xsd = some fl) (h : Regex.new env p fs xsd true = .ok r) (hns : Api.NoSat env fl p)
    (hclean : Memo.cleanProg3m env fl.caseBlind fl.multiLine r.prog.op = true) (hcan : clsCanonB r.prog.op = true)
    (hnb : r.prog.hasBackrefs = false) (hlit : fl.literal = true → p ≠ [])
    (input : List Nat) (G : ApiComplete.GoodInput env fl input) (limit : Nat) :
    (∃ toks more, r.tokenize env.lower input limit = .ok (toks, more)) ∨
    r.tokenize env.lower input limit = .err .matchesEmptyString := by
  cases hnull : r.nullable with
  | true =>
    by_cases hne : input = []
    · subst hne; exact .inl ⟨_, _, C16.tokenize_empty r _ limit⟩
    · exact .inr (C16.tokenize_nullable r _ input limit hnull hne)
  | false =>
    exact .inl (clean3m_tokenize_total
      (Memo3.of_new env p fs xsd fl r hf h hns hclean hcan hnb hlit hnull input G) limit)

theorem api_clean3m_analyze_total (env : Env) (p fs : List Nat) (xsd : Bool) (fl : Flags) (r : Regex)
    (hf : parseFlags fs xsd = some fl) (h : Regex.new env p fs xsd true = .ok r) (hns : Api.NoSat env fl p)
    (hclean : Memo.cleanProg3m env fl.caseBlind fl.multiLine r.prog.op = true) (hcan : clsCanonB r.prog.op = true)
    (hnb : r.prog.hasBackrefs = false) (hlit : fl.literal = true → p ≠ [])
    (input : List Nat) (G : ApiComplete.GoodInput env fl input) (limit : Nat) :
    (∃ es more, r.analyze env.lower input limit = .ok (es, more)) ∨
    r.analyze env.lower input limit = .err .matchesEmptyString ∨
    r.analyze env.lower input limit = .panic panicAnalyze ∨
    r.analyze env.lower input limit = .panic panicNesting := by
  cases hnull : r.nullable with
  | true => exact .inr (.inl (C16.analyze_nullable r _ _ _ hnull))
  | false =>
    rcases clean3m_analyze_total
      (Memo3.of_new env p fs xsd fl r hf h hns hclean hcan hnb hlit hnull input G) limit with h1 | h1 | h1
    · exact .inl h1
    · exact .inr (.inr (.inl h1))
    · exact .inr (.inr (.inr h1))

end example_new

end Rx.Clean3MemoSpans
