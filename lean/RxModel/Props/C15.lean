/-
  Props/C15 — replacement strings follow the `$N` and backslash rules exactly.

  `expand` (Model/Api) is the transcription of the character loop of `ReMatcher::replace`;
  `Spec.expandSpec` / `Spec.wfRepl` (Spec/Repl) are the rules as the property states them.
-/
import RxModel.Spec.Repl
import RxModel.Props.C04
import RxModel.Proofs.ReplLemmas
namespace Rx.C15
open Rx Rx.Spec Rx.ReplLemmas

/-- the character loop computes exactly the specified expansion -/
theorem expand_spec (maxCapture : Nat) (grp : Nat → Option (List Nat)) (repl : List Nat) :
    (expand maxCapture grp repl).map (·.1) = expandSpec maxCapture grp repl := by
  unfold expand expandSpec
  rw [expandGo_tokens maxCapture grp _ repl [] true (Nat.lt_succ_self _)]
  simp [Option.map_map, Function.comp_def]

/-- malformed replacement strings — and only those — are rejected, whatever the groups hold -/
theorem expand_isSome_iff_wf (maxCapture : Nat) (grp : Nat → Option (List Nat)) (repl : List Nat) :
    (expand maxCapture grp repl).isSome = wfRepl repl := by
  exact expandGo_isSome maxCapture grp _ repl [] true (Nat.lt_succ_self _)

/-- a replacement without `$` and `\` stands for itself and is flagged "simple" -/
theorem expand_plain (maxCapture : Nat) (grp : Nat → Option (List Nat)) (repl : List Nat)
    (h : plainRepl repl = true) : expand maxCapture grp repl = some (repl, true) := by
  unfold expand
  rw [expandGo_plain maxCapture grp _ repl [] true (Nat.lt_succ_self _) h]
  simp

/-- the `simple_replacement` latch is sound: the flag is raised only for a replacement without
    metacharacters, for which later expansions would return the replacement verbatim anyway -/
theorem latch_sound (maxCapture : Nat) (grp : Nat → Option (List Nat)) (repl t : List Nat)
    (h : expand maxCapture grp repl = some (t, true)) :
    plainRepl repl = true ∧ t = repl ∧ ∀ grp', expand maxCapture grp' repl = some (repl, true) := by
  unfold expand at h
  rw [expandGo_tokens maxCapture grp _ repl [] true (Nat.lt_succ_self _)] at h
  have hp : plainRepl repl = true := by
    cases ht : tokens maxCapture (repl.length + 1) repl with
    | none => simp [ht] at h
    | some ts =>
      simp only [ht, Option.map_some, Option.some.injEq, Prod.mk.injEq, Bool.true_and] at h
      exact h.2
  have hall : ∀ grp', expand maxCapture grp' repl = some (repl, true) :=
    fun grp' => expand_plain maxCapture grp' repl hp
  refine ⟨hp, ?_, hall⟩
  have h' := hall grp
  unfold expand at h'
  rw [expandGo_tokens maxCapture grp _ repl [] true (Nat.lt_succ_self _)] at h'
  rw [h] at h'
  simp only [Option.some.injEq, Prod.mk.injEq, and_true] at h'
  exact h'

/-! decision logic stated outright (one step of the loop) -/

theorem expand_cons_plain (mc : Nat) (grp : Nat → Option (List Nat)) (c : Nat) (rest : List Nat)
    (hc : c ≠ 92 ∧ c ≠ 36) :
    (expand mc grp (c :: rest)).map (·.1) = (expand mc grp rest).map (fun r => c :: r.1) := by
  have hb92 : (c == 92) = false := by simp [hc.1]
  have hb36 : (c == 36) = false := by simp [hc.2]
  unfold expand
  simp only [List.length_cons, expandGo, hb92, hb36, Bool.false_eq_true, if_false]
  rw [expandGo_eq_expand mc grp _ rest _ true (Nat.lt_succ_self _)]
  unfold expand
  simp [Option.map_map, Function.comp_def]

theorem expand_backslash (mc : Nat) (grp : Nat → Option (List Nat)) (d : Nat) (rest : List Nat) :
    (expand mc grp (92 :: d :: rest)).map (·.1) =
      if d = 92 ∨ d = 36 then (expand mc grp rest).map (fun r => d :: r.1) else none := by
  unfold expand
  simp only [List.length_cons, expandGo, beq_self_eq_true, if_true]
  by_cases hd : d = 92 ∨ d = 36
  · have hd' : (d == 92 || d == 36) = true := by simpa using hd
    rw [if_pos hd', if_pos hd, expandGo_eq_expand mc grp _ rest _ false (by omega)]
    unfold expand
    simp [Option.map_map, Function.comp_def]
  · have hd' : ¬ (d == 92 || d == 36) = true := by simpa using hd
    rw [if_neg hd', if_neg hd]
    rfl

theorem expand_backslash_end (mc : Nat) (grp : Nat → Option (List Nat)) :
    expand mc grp [92] = none := by
  simp [expand, expandGo]

theorem expand_dollar_end (mc : Nat) (grp : Nat → Option (List Nat)) :
    expand mc grp [36] = none := by
  simp [expand, expandGo]

theorem expand_dollar_nondigit (mc : Nat) (grp : Nat → Option (List Nat)) (d : Nat) (rest : List Nat)
    (hd : isDigit d = false) : expand mc grp (36 :: d :: rest) = none := by
  simp [expand, expandGo, hd]

/-- at most 9 groups: `$d` is group `d` (nothing when there is no such group), one digit only -/
theorem expand_dollar_small (mc : Nat) (grp : Nat → Option (List Nat)) (d : Nat) (rest : List Nat)
    (hd : isDigit d = true) (hmc : mc ≤ 9) :
    (expand mc grp (36 :: d :: rest)).map (·.1) =
      (expand mc grp rest).map (fun r => (if d - 48 ≤ mc then (grp (d - 48)).getD [] else []) ++ r.1) := by
  have h3692 : (36 == 92) = false := by decide
  unfold expand
  by_cases hn : d - 48 ≤ mc
  · simp only [List.length_cons, expandGo, hd, hmc, hn, h3692, Bool.false_eq_true, if_false,
      if_true, beq_self_eq_true, Bool.not_true]
    rw [expandGo_eq_expand mc grp _ rest _ false (by omega)]
    unfold expand
    simp [Option.map_map, Function.comp_def]
  · simp only [List.length_cons, expandGo, hd, hmc, hn, h3692, Bool.false_eq_true, if_false,
      if_true, beq_self_eq_true, Bool.not_true]
    rw [expandGo_eq_expand mc grp _ rest _ false (by omega)]
    unfold expand
    simp [Option.map_map, Function.comp_def]

/-- `$0` is the whole match -/
theorem expand_dollar0 (mc : Nat) (grp : Nat → Option (List Nat)) :
    (expand mc grp [36, 48]).map (·.1) = some ((grp 0).getD []) := by
  by_cases hmc : mc ≤ 9
  · have h := expand_dollar_small mc grp 48 [] (by decide) hmc
    rw [h]
    simp [expand, expandGo]
  · simp [expand, expandGo, isDigit, hmc, takeDigits]

/-! the API level: a malformed replacement is an error exactly when a match is found -/

/-- with a malformed replacement (and without flag q) the first match makes the call fail … -/
theorem replace_malformed_err {σ : Type} (M : MatcherI σ) (input : List Nat) (subst : Subst σ) (st0 : σ)
    (hsub : ∀ st, subst st false = none)
    (hpos : 0 < input.length)
    (st' : σ) (hfind : M.find st0 0 = (true, st')) (hok : M.failed st' = none)
    (a : Nat) (hstart : M.start0 st' = some a) :
    replaceWith M subst input false st0 = .err .invalidReplacement := by
  unfold replaceWith
  simp [replaceLoop, hpos, hfind, hok, hstart, hsub]

/-- … and without any match the input is returned as it is, whatever the replacement -/
theorem replace_nomatch {σ : Type} (M : MatcherI σ) (input : List Nat) (subst : Subst σ) (lit : Bool) (st0 : σ)
    (st' : σ) (hfind : M.find st0 0 = (false, st')) (hok : M.failed st' = none) :
    replaceWith M subst input lit st0 = .ok input := by
  unfold replaceWith
  by_cases hpos : 0 < input.length
  · simp [replaceLoop, hpos, hfind, hok]
  · simp [replaceLoop, hpos]

/-- the concrete substitution of the model: malformed replacement ⇒ `none` (for `hsub` above) -/
theorem subst_malformed (pr : Prog) (input repl : List Nat) (st : St)
    (hmp : pr.maxParens ≠ 0) (h : wfRepl repl = false) : pr.subst input repl st false = none := by
  have hmp' : (pr.maxParens == 0) = false := by simp [hmp]
  have hs := expand_isSome_iff_wf (pr.maxParens - 1) (getParen input st) repl
  rw [h] at hs
  simp only [Prog.subst, Bool.false_eq_true, if_false, hmp']
  cases he : expand (pr.maxParens - 1) (getParen input st) repl with
  | none => rfl
  | some r => simp [he] at hs

/-- flag q: the replacement is used verbatim (`simple` starts out true) -/
theorem subst_literal (pr : Prog) (input repl : List Nat) (st : St) :
    pr.subst input repl st true = some (repl, true) := by
  simp [Prog.subst]

/-! non-vacuity / samples (kernel-evaluated) -/
example : (expand 2 (fun n => if n = 1 then some [120] else none) [97, 36, 49, 36, 50, 92, 36]).map (·.1)
    = some [97, 120, 36] := by decide
example : expand 12 (fun n => some [n]) [36, 49, 50, 51] = some ([12, 51], false) := by decide
example : expand 12 (fun n => some [n]) [36, 49, 51] = some ([1, 51], false) := by decide
example : wfRepl [36, 97] = false ∧ wfRepl [92, 97] = false ∧ wfRepl [92, 92, 36, 48] = true := by decide

end Rx.C15
