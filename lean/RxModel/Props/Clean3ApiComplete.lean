/-
  Props/Clean3ApiComplete — the headline theorems of Props/ApiComplete for the fragment with the GENERAL greedy
  repeat (`cleanProg3`, `min ≥ 1`; Spec/Enum3, Props/Clean3Complete, Props/Clean3Api).

  Proofs/ApiGenericLemmas is Proofs/ApiCompleteLemmas with the enumerator's head as a parameter (class
  `HeadFn`); here it is instantiated with `fun ctx op j => (enum3 ctx op j).head?`, `FindOK` is proved for
  the concrete matcher of a non-nullable regex of the fragment (`Clean3Regex.findOK`: `clean3_outcome`,
  `Clean3.enum3_sound`, `Outcome.span_clean3`), and the statements and proofs of Props/ApiComplete §1–§4
  (gate, spans, replace / tokenize / analyze specifications, totality) are repeated verbatim over the bundle
  `Clean3Regex` with the names `api3_…`.  Not repeated: §5 of Props/ApiComplete (two regexes with the same
  language / the same spans).
-/
import RxModel.Proofs.ApiGenericLemmas
import RxModel.Props.ApiComplete
import RxModel.Props.Clean3Api
namespace Rx.ApiGeneric.Clean3
open Rx Rx.SearchComplete Rx.Spec Rx.Clean2Api Rx.ApiGeneric
open Rx.ApiComplete (GoodInput GoodInput.nil goodInput_std_cs compile_maxParens mkProgram_literal hasCapNode firstFrom
  firstFrom_some firstFrom_none firstFrom_eq_some firstFrom_eq_none ordered_mem)
open Rx.C08 (noEmptyAtoms)

/-- the head of the priority enumeration `enum3` -/
instance headEnum3 : HeadFn := ⟨fun ctx op j => (enum3 ctx op j).head?⟩

/-! ## the bundles -/

/-- `r` is what `Regex::new env p fs xsd` (optimiser on) returned, and satisfies the hypotheses of the
    `api_clean3_*` theorems of Props/Clean3Api -/
structure Clean3New (env : Env) (p fs : List Nat) (xsd : Bool) (fl : Flags) (r : Regex) : Prop where
  hf : parseFlags fs xsd = some fl
  hnew : Regex.new env p fs xsd true = .ok r
  hns : Api.NoSat env fl p
  hclean : cleanProg3 env fl.caseBlind fl.multiLine r.prog.op = true
  hcan : clsCanonB r.prog.op = true
  hnb : r.prog.hasBackrefs = false
  hlit : fl.literal = true → p ≠ []

def Clean3Regex (env : Env) (fl : Flags) (r : Regex) : Prop := ∃ p fs xsd, Clean3New env p fs xsd fl r

/-- everything the proofs below use about such a regex -/
theorem Clean3Regex.core {env : Env} {fl : Flags} {r : Regex} (R : Clean3Regex env fl r) :
    ∃ pat op mp, r.prog = mkProgram pat op mp fl.core false ∧
      cleanProg3 env fl.core.caseBlind fl.core.multiLine (mkProgram pat op mp fl.core false).op = true ∧
      wfOp op = true ∧ noEmptyAtoms op = true ∧ clsCanonB (mkProgram pat op mp fl.core false).op = true ∧
      C02.capsPos op = true ∧
      r.prog.isMatch env.lower [] = .ok r.nullable ∧ r.prog.maxParens ≠ 0 := by
  obtain ⟨p, fs, xsd, N⟩ := R
  obtain ⟨pat, op, mp, heq, hw, hne, hcp⟩ := Clean3Api.new_prog env p fs xsd fl r N.hf N.hnew N.hns N.hnb N.hlit
  have hcomp := new_compile env p fs xsd true fl r N.hf N.hnew
  rw [compileProg_core] at hcomp
  have hc := N.hclean
  have hca := N.hcan
  rw [heq] at hc hca
  exact ⟨pat, op, mp, heq, hc, hw, hne, hca, hcp, C16.new_nullable env p fs xsd true r N.hnew,
    compile_maxParens env fl.core _ r.prog hcomp⟩

/-- flag `q` of the program is flag `q` of the call -/
theorem Clean3Regex.literal {env : Env} {fl : Flags} {r : Regex} (R : Clean3Regex env fl r) :
    r.prog.literal = fl.literal := by
  obtain ⟨pat, op, mp, heq, _⟩ := R.core
  rw [heq]
  exact mkProgram_literal pat op mp fl.core false

/-- the concrete matcher of a non-nullable regex of the fragment, on a good input -/
theorem Clean3Regex.findOK {env : Env} {fl : Flags} {r : Regex} (R : Clean3Regex env fl r)
    (hnull : r.nullable = false) {input : List Nat} (G : GoodInput env fl input) :
    FindOK (r.prog.ctx env.lower input) r.prog := by
  obtain ⟨pat, op, mp, heq, hc, hw, hne, hca, hcp, hn, _⟩ := R.core
  rw [hnull, heq] at hn
  rw [heq]
  obtain ⟨f1, f2, f3, f4⟩ := Clean3Complete.prog_facts env pat op mp fl.core env.lower input hc hw hne hcp
  have hIn := G.ok.ctx pat op mp false
  refine findOK_of_outcome f2 f4 ?_ ?_ ?_ (fun pos st hpos hst =>
    clean3_outcome env pat op mp fl.core env.lower input G.ok hc hw hne hca G.len pos hpos st hst)
  · intro k hk hno
    show (enum3 _ _ k).head? = none
    cases hl : enum3 ((mkProgram pat op mp fl.core false).ctx env.lower input) (mkProgram pat op mp fl.core false).op k with
    | nil => rfl
    | cons q l =>
      exact absurd ⟨q, Clean3.enum3_sound env _ hIn _ f1 f2 f3 hca k q hk (by rw [hl]; exact List.mem_cons_self)⟩ hno
  · intro i r' ho ht
    exact ho.span_clean3 hIn f1 f2 f3 hca f4 ht
  · intro j hj
    have hz := C16.OpR_zero_anywhere _ _ j hj
    have hm := (Clean3Complete.clean3_isMatch_iff env pat op mp fl.core env.lower [] (inputOKFor_nil G.ok) hc hw hne
      hca (by decide)).2 ⟨0, 0, Nat.le_refl _, hz⟩
    rw [hn] at hm
    cases hm

/-- C01 both ways (Props/Clean3Api), in bundle form -/
theorem Clean3Regex.isMatch_iff {env : Env} {fl : Flags} {r : Regex} (R : Clean3Regex env fl r)
    {input : List Nat} (G : GoodInput env fl input) :
    (r.prog.isMatch env.lower input = .ok true ↔
      ∃ j q, j ≤ input.length ∧ OpR (r.prog.ctx env.lower input) r.prog.op j q) ∧
    ((¬ ∃ j q, j ≤ input.length ∧ OpR (r.prog.ctx env.lower input) r.prog.op j q) →
      r.prog.isMatch env.lower input = .ok false) := by
  obtain ⟨p, fs, xsd, N⟩ := R
  exact Clean3Api.api_clean3_isMatch_iff env p fs xsd fl r N.hf N.hnew N.hns N.hclean N.hcan N.hnb N.hlit input
    G.ok G.len

/-! ## 1. C16 — regexes that match the empty string are rejected up front, and only those -/

/-- the gate bit is SEMANTIC: `r.nullable` iff the empty string is in the language of the program -/
theorem api3_gate_iff {env : Env} {fl : Flags} {r : Regex} (R : Clean3Regex env fl r)
    (G0 : GoodInput env fl []) :
    r.nullable = true ↔ ∃ q, OpR (r.prog.ctx env.lower []) r.prog.op 0 q := by
  obtain ⟨_, _, _, _, _, _, _, _, _, hn, _⟩ := R.core
  obtain ⟨h1, h2⟩ := R.isMatch_iff G0
  constructor
  · intro hnull
    rw [hnull] at hn
    obtain ⟨j, q, hj, hq⟩ := h1.1 hn
    have : j = 0 := by simpa using hj
    subst this
    exact ⟨q, hq⟩
  · rintro ⟨q, hq⟩
    have := h1.2 ⟨0, q, Nat.le_refl _, hq⟩
    rw [hn] at this
    simpa using this

/-- … in the form "matches the empty string": a zero-length member AT 0 of the empty input -/
theorem api3_gate_iff_empty {env : Env} {fl : Flags} {r : Regex} (R : Clean3Regex env fl r)
    (G0 : GoodInput env fl []) :
    r.nullable = true ↔ OpR (r.prog.ctx env.lower []) r.prog.op 0 0 := by
  rw [api3_gate_iff R G0]
  constructor
  · rintro ⟨q, hq⟩
    have := (C01.OpR_bounds _ _ 0 q (Nat.zero_le _) hq).2
    have hq0 : q = 0 := by simpa [Ctx.len, Prog.ctx] using this
    subst hq0
    exact hq
  · intro h; exact ⟨0, h⟩

/-- C16, first sentence: a regex that matches the empty string is rejected by `replace_all`, `analyze`
    and (on a non-empty input) `tokenize` with `MatchesEmptyString` -/
theorem c16_rejected {env : Env} {fl : Flags} {r : Regex} (R : Clean3Regex env fl r) (G0 : GoodInput env fl [])
    (hempty : ∃ q, OpR (r.prog.ctx env.lower []) r.prog.op 0 q)
    (lower : Nat → Nat) (input repl : List Nat) (limit : Nat) :
    r.replaceAll lower input repl = .err .matchesEmptyString ∧
    r.analyze lower input limit = .err .matchesEmptyString ∧
    (input ≠ [] → r.tokenize lower input limit = .err .matchesEmptyString) ∧
    r.tokenize lower [] limit = .ok ([], false) := by
  have hn := (api3_gate_iff R G0).2 hempty
  exact ⟨C16.replace_nullable r lower input repl hn, C16.analyze_nullable r lower input limit hn,
    fun hne => C16.tokenize_nullable r lower input limit hn hne, C16.tokenize_empty r lower limit⟩

/-- C16, second sentence ("and only those"), as equivalences: the error is returned EXACTLY when the
    regex matches the empty string -/
theorem replaceAll_gate_iff {env : Env} {fl : Flags} {r : Regex} (R : Clean3Regex env fl r)
    (G0 : GoodInput env fl []) (lower : Nat → Nat) (input repl : List Nat) :
    r.replaceAll lower input repl = .err .matchesEmptyString ↔
      ∃ q, OpR (r.prog.ctx env.lower []) r.prog.op 0 q := by
  rw [← api3_gate_iff R G0]
  constructor
  · intro h
    cases hn : r.nullable with
    | true => rfl
    | false => exact absurd h (C16.replace_not_nullable r lower input repl hn)
  · exact C16.replace_nullable r lower input repl

theorem analyze_gate_iff {env : Env} {fl : Flags} {r : Regex} (R : Clean3Regex env fl r)
    (G0 : GoodInput env fl []) (lower : Nat → Nat) (input : List Nat) (limit : Nat) :
    r.analyze lower input limit = .err .matchesEmptyString ↔
      ∃ q, OpR (r.prog.ctx env.lower []) r.prog.op 0 q := by
  rw [← api3_gate_iff R G0]
  constructor
  · intro h
    cases hn : r.nullable with
    | true => rfl
    | false => exact absurd h (C16.analyze_not_nullable r lower input limit hn)
  · exact C16.analyze_nullable r lower input limit

theorem tokenize_gate_iff {env : Env} {fl : Flags} {r : Regex} (R : Clean3Regex env fl r)
    (G0 : GoodInput env fl []) (lower : Nat → Nat) (input : List Nat) (limit : Nat) (hne : input ≠ []) :
    r.tokenize lower input limit = .err .matchesEmptyString ↔
      ∃ q, OpR (r.prog.ctx env.lower []) r.prog.op 0 q := by
  rw [← api3_gate_iff R G0]
  constructor
  · intro h
    cases hn : r.nullable with
    | true => rfl
    | false => exact absurd h (C16.tokenize_not_nullable r lower input limit hn)
  · intro hn; exact C16.tokenize_nullable r lower input limit hn hne

theorem c16_only_those {env : Env} {fl : Flags} {r : Regex} (R : Clean3Regex env fl r) (G0 : GoodInput env fl [])
    (hnot : ¬ ∃ q, OpR (r.prog.ctx env.lower []) r.prog.op 0 q)
    (lower : Nat → Nat) (input repl : List Nat) (limit : Nat) :
    r.replaceAll lower input repl ≠ .err .matchesEmptyString ∧
    r.analyze lower input limit ≠ .err .matchesEmptyString ∧
    r.tokenize lower input limit ≠ .err .matchesEmptyString := by
  have hn : r.nullable = false := by
    cases h : r.nullable with
    | false => rfl
    | true => exact absurd ((api3_gate_iff R G0).1 h) hnot
  exact ⟨C16.replace_not_nullable r lower input repl hn, C16.analyze_not_nullable r lower input limit hn,
    C16.tokenize_not_nullable r lower input limit hn⟩

/-! ## 2. C04 — the three APIs partition the input consistently -/

/-- THE span list of a regex on an input, state-free: from position 0, repeatedly the least start with
    a match and the first end of the priority order from it (`firstSpan`), continuing from that end -/
def spans (r : Regex) (lower : Nat → Nat) (input : List Nat) : List (Nat × Nat) :=
  spansFrom (r.prog.ctx lower input) r.prog.op (input.length + 2) 0

/-- what an element of the list is: `firstSpan` from the previous end -/
theorem firstSpan_spec (ctx : Ctx) (op : Op) (pos j n : Nat) (h : firstSpan ctx op pos = some (j, n)) :
    pos ≤ j ∧ j ≤ ctx.len ∧ (enum3 ctx op j).head? = some n ∧
    ∀ k, pos ≤ k → k < j → (enum3 ctx op k).head? = none := by
  obtain ⟨h1, h2, h3, h4⟩ := ApiComplete.firstFrom_some _ _ _ _ _ h
  exact ⟨h1, by omega, h3, h4⟩

/-- … and in terms of the language: a member `[j, n)`, and no member starts in `[pos, j)` -/
theorem firstSpan_sem {env : Env} {fl : Flags} {r : Regex} (R : Clean3Regex env fl r)
    (hnull : r.nullable = false) {input : List Nat} (G : GoodInput env fl input)
    (pos j n : Nat) (hpos : pos ≤ input.length)
    (h : firstSpan (r.prog.ctx env.lower input) r.prog.op pos = some (j, n)) :
    OpR (r.prog.ctx env.lower input) r.prog.op j n ∧ j < n ∧
    ∀ k q, pos ≤ k → k < j → ¬ OpR (r.prog.ctx env.lower input) r.prog.op k q := by
  have F := R.findOK hnull G
  obtain ⟨h1, h2⟩ := (F.sem pos hpos).1 j n h
  refine ⟨h1, ?_, h2⟩
  rcases F.step pos {} hpos rfl with ⟨_, j', n', _, _, a3, _, _, _, a7, _⟩ | ⟨_, _, _, a3⟩
  · rw [h] at a3
    simp only [Option.some.injEq, Prod.mk.injEq] at a3
    obtain ⟨rfl, rfl⟩ := a3
    exact a7
  · rw [h] at a3; cases a3

/-- the list is strictly left to right, its spans are non-empty and inside the input -/
theorem spans_ordered {env : Env} {fl : Flags} {r : Regex} (R : Clean3Regex env fl r)
    (hnull : r.nullable = false) {input : List Nat} (G : GoodInput env fl input) :
    C04.Ordered input.length 0 (spans r env.lower input) :=
  spansFrom_ordered (R.findOK hnull G) _ 0 (Nat.zero_le _)

theorem ordered_mem (len : Nat) : ∀ (l : List (Nat × Nat)) (pos : Nat), C04.Ordered len pos l →
    ∀ x ∈ l, pos ≤ x.1 ∧ x.1 < x.2 ∧ x.2 ≤ len
  | [], _, _, x, hx => by cases hx
  | (a, b) :: rest, pos, ho, x, hx => by
    obtain ⟨h1, h2, h3, h4⟩ := ho
    rcases List.mem_cons.1 hx with rfl | hx
    · exact ⟨h1, h2, h3⟩
    · have := ordered_mem len rest b h4 x hx
      exact ⟨by omega, this.2.1, this.2.2⟩

/-- C16, third sentence: a regex that does not match the empty string never reports an empty span -/
theorem c16_no_empty_span {env : Env} {fl : Flags} {r : Regex} (R : Clean3Regex env fl r)
    (hnull : r.nullable = false) {input : List Nat} (G : GoodInput env fl input) :
    (∀ x ∈ spans r env.lower input, x.1 < x.2 ∧ x.2 ≤ input.length) ∧
    (∀ pos st st', pos ≤ input.length → st.panic = none →
      matchesFrom (r.prog.ctx env.lower input) r.prog pos st = (true, st') →
      ∃ j n, getParenStart st' 0 = some j ∧ getParenEnd st' 0 = some n ∧ pos ≤ j ∧ j < n ∧ n ≤ input.length) := by
  refine ⟨fun x hx => ?_, fun pos st st' hpos hst hm => ?_⟩
  · have := ordered_mem _ _ 0 (spans_ordered R hnull G) x hx
    exact ⟨this.2.1, this.2.2⟩
  · rcases (R.findOK hnull G).step pos st hpos hst with ⟨st2, j, n, he, _, _, a4, a5, a6, a7, a8, _⟩ | ⟨st2, he, _⟩
    · rw [hm] at he
      simp only [Prod.mk.injEq, true_and] at he
      subst he
      exact ⟨j, n, a4, a5, a6, a7, a8⟩
    · rw [hm] at he; cases he

/-- **the scan sees exactly the semantic spans**: the span sequence `C04.spansOf` that the three scan
    loops compute with the concrete, stateful matcher is the state-free list `spans` -/
theorem scan_sees_spans {env : Env} {fl : Flags} {r : Regex} (R : Clean3Regex env fl r)
    (hnull : r.nullable = false) {input : List Nat} (G : GoodInput env fl input) :
    C04.spanPairs (C04.spansOf (r.prog.matcher env.lower input) input.length (input.length + 2) 0 {}) =
      spans r env.lower input :=
  spansOf_eq (R.findOK hnull G) _ 0 {} rfl (Nat.zero_le _)

/-- the matcher satisfies the hypothesis of every theorem of Props/C04 -/
theorem api3_goodFind {env : Env} {fl : Flags} {r : Regex} (R : Clean3Regex env fl r)
    (hnull : r.nullable = false) {input : List Nat} (G : GoodInput env fl input) :
    C04.GoodFind (r.prog.matcher env.lower input) input.length (fun st => st.panic = none) :=
  (R.findOK hnull G).goodFind

/-! ### (a) replace -/

/-- `replace_all` with a well-formed replacement that refers to no group but `$0` (`Dep0`; decidable
    sufficient condition `dollar0Only`): the call SUCCEEDS and returns the input with every span of
    `spans` replaced by the expansion of the replacement for that span -/
theorem api3_replace_spec {env : Env} {fl : Flags} {r : Regex} (R : Clean3Regex env fl r)
    (hnull : r.nullable = false) {input : List Nat} (G : GoodInput env fl input) (repl : List Nat)
    (hd : Dep0 (r.prog.maxParens - 1) repl) :
    r.replaceAll env.lower input repl =
      .ok (replaced input 0 ((spans r env.lower input).map
        (fun x => (x.1, x.2, replText r.prog input repl x.1 x.2)))) := by
  obtain ⟨_, _, _, _, _, _, _, _, _, _, hmp⟩ := R.core
  simp only [Regex.replaceAll, hnull, Bool.false_eq_true, if_false, replaceWith]
  have := replaceLoop_spec (R.findOK hnull G) repl hmp hd (input.length + 2) 0 {} true false [] rfl
    (Nat.zero_le _) (by omega) (fun _ => ⟨rfl, rfl⟩) (fun h => by cases h) (fun h => by cases h)
  simpa [spans] using this

/-- a replacement without `$` and `\`: the pieces between the spans, joined by it -/
theorem api3_replace_plain {env : Env} {fl : Flags} {r : Regex} (R : Clean3Regex env fl r)
    (hnull : r.nullable = false) {input : List Nat} (G : GoodInput env fl input) (repl : List Nat)
    (hp : plainRepl repl = true) :
    r.replaceAll env.lower input repl =
      .ok (joinWith repl (pieces input 0 (spans r env.lower input))) := by
  rw [api3_replace_spec R hnull G repl (dep0_of_plain _ repl hp)]
  have ht : ∀ j n, replText r.prog input repl j n = repl := by
    intro j n
    unfold replText
    split
    · rfl
    · rw [expandSpec_plain _ _ _ hp]; rfl
  simp only [ht]
  rw [replaced_const']

/-- `$0` (without flag q): the input comes back unchanged -/
theorem api3_replace_dollar0 {env : Env} {fl : Flags} {r : Regex} (R : Clean3Regex env fl r)
    (hnull : r.nullable = false) {input : List Nat} (G : GoodInput env fl input)
    (hlit : fl.literal = false) :
    r.replaceAll env.lower input [36, 48] = .ok input := by
  rw [api3_replace_spec R hnull G _ (dep0_dollar0 _)]
  have ht : ∀ j n, replText r.prog input [36, 48] j n = slice input j n := by
    intro j n
    unfold replText
    rw [R.literal, hlit]
    simp only [Bool.false_eq_true, if_false]
    rw [expandSpec_dollar0]; rfl
  simp only [ht]
  rw [replaced_self' input input.length _ 0 (spans_ordered R hnull G)]
  rfl

/-! ### (b) tokenize -/

/-- `tokenize` (pulled to exhaustion): exactly the pieces between consecutive spans — including empty
    leading, trailing and adjacent pieces — and then the iterator is exhausted -/
theorem api3_tokenize_spec {env : Env} {fl : Flags} {r : Regex} (R : Clean3Regex env fl r)
    (hnull : r.nullable = false) {input : List Nat} (G : GoodInput env fl input) (hne : input ≠ [])
    (limit : Nat) (hl : input.length + 1 ≤ limit) :
    r.tokenize env.lower input limit = .ok (pieces input 0 (spans r env.lower input), false) := by
  have he : input.isEmpty = false := by
    cases input with
    | nil => exact absurd rfl hne
    | cons a t => rfl
  simp only [Regex.tokenize, he, hnull, Bool.false_eq_true, if_false]
  have := tokenLoop_spec (R.findOK hnull G) limit (input.length + 2) 0 {} [] rfl (Nat.zero_le _)
    (by omega) (by omega)
  simpa [spans] using this

/-- the number of tokens -/
theorem api3_tokenize_count {env : Env} {fl : Flags} {r : Regex} (R : Clean3Regex env fl r)
    (hnull : r.nullable = false) {input : List Nat} (G : GoodInput env fl input) :
    (pieces input 0 (spans r env.lower input)).length = (spans r env.lower input).length + 1 ∧
    (spans r env.lower input).length ≤ input.length := by
  refine ⟨C04.pieces_length _ _ _, ?_⟩
  have := C04.ordered_length input.length _ 0 (Nat.zero_le _) (spans_ordered R hnull G)
  omega

/-! ### (c) analyze -/

/-- `analyze` (pulled to exhaustion): whatever it answers with `.ok` is the alternating list of
    non-match / match entries over a list `L` whose spans are exactly `spans` — the Match entries are
    exactly the spans (their contents, the group trees, are the subject of Props/C03c) -/
theorem api3_analyze_spec {env : Env} {fl : Flags} {r : Regex} (R : Clean3Regex env fl r)
    (hnull : r.nullable = false) {input : List Nat} (G : GoodInput env fl input)
    (limit : Nat) (hl : 2 * input.length + 1 ≤ limit) (es : List AEntry) (more : Bool)
    (h : r.analyze env.lower input limit = .ok (es, more)) :
    ∃ L : List (Nat × Nat × List MEntry),
      L.map (fun x => (x.1, x.2.1)) = spans r env.lower input ∧ es = entries input 0 L ∧ more = false := by
  simp only [Regex.analyze, hnull, Bool.false_eq_true, if_false] at h
  cases htbl : (if r.prog.literal = true then some [] else nestingTable r.prog.pattern) with
  | none => rw [htbl] at h; cases h
  | some tbl =>
    rw [htbl] at h
    obtain ⟨h1, h2⟩ := C04.analyze_spec (r.prog.matcher env.lower input) (fun st => st.panic = none) input
      (processMatch tbl) (api3_goodFind R hnull G) {} rfl limit hl es more h
    refine ⟨_, ?_, h1, h2⟩
    rw [List.map_map]
    exact scan_sees_spans R hnull G

/-- a regex WITHOUT capturing groups: the Match entry of a span is its text -/
theorem api3_analyze_plain {env : Env} {fl : Flags} {r : Regex} (R : Clean3Regex env fl r)
    (hnull : r.nullable = false) (hnc : hasCapNode r.prog.op = false)
    {input : List Nat} (G : GoodInput env fl input)
    (limit : Nat) (hl : 2 * input.length + 1 ≤ limit) (es : List AEntry) (more : Bool)
    (h : r.analyze env.lower input limit = .ok (es, more)) :
    es = entries input 0 ((spans r env.lower input).map
      (fun x => (x.1, x.2, [MEntry.str (slice input x.1 x.2)]))) ∧ more = false := by
  simp only [Regex.analyze, hnull, Bool.false_eq_true, if_false] at h
  cases htbl : (if r.prog.literal = true then some [] else nestingTable r.prog.pattern) with
  | none => rw [htbl] at h; cases h
  | some tbl =>
    rw [htbl] at h
    obtain ⟨h1, h2⟩ := C04.analyze_spec (r.prog.matcher env.lower input) (fun st => st.panic = none) input
      (processMatch tbl) (api3_goodFind R hnull G) {} rfl limit hl es more h
    refine ⟨?_, h2⟩
    rw [h1]
    congr 1
    exact spansOf_map (R.findOK hnull G)
      (fun st j n => C04.entryD (processMatch tbl) st (slice input j n))
      (fun j n => [MEntry.str (slice input j n)])
      (fun st j n PM => by
        simp only [C04.entryD]
        rw [C03.processMatch_plain tbl st _ (PM.pc1 hnc)])
      (input.length + 2) 0 {} rfl (Nat.zero_le _)

/-- … and the texts of all entries concatenate to the input -/
theorem api3_analyze_concat {env : Env} {fl : Flags} {r : Regex} (R : Clean3Regex env fl r)
    (hnull : r.nullable = false) (hnc : hasCapNode r.prog.op = false)
    {input : List Nat} (G : GoodInput env fl input)
    (limit : Nat) (hl : 2 * input.length + 1 ≤ limit) (es : List AEntry) (more : Bool)
    (h : r.analyze env.lower input limit = .ok (es, more)) : aTextL es = input := by
  rw [(api3_analyze_plain R hnull hnc G limit hl es more h).1]
  exact entries_text' input _ 0 (spans_ordered R hnull G)

/-- the bounds on the number of entries (any regex of the fragment, any limit) -/
theorem api3_analyze_bound {env : Env} {fl : Flags} {r : Regex} (R : Clean3Regex env fl r)
    (hnull : r.nullable = false) {input : List Nat} (G : GoodInput env fl input)
    (limit : Nat) (es : List AEntry) (more : Bool)
    (h : r.analyze env.lower input limit = .ok (es, more)) : es.length ≤ 2 * input.length + 1 := by
  simp only [Regex.analyze, hnull, Bool.false_eq_true, if_false] at h
  cases htbl : (if r.prog.literal = true then some [] else nestingTable r.prog.pattern) with
  | none => rw [htbl] at h; cases h
  | some tbl =>
    rw [htbl] at h
    exact C04.analyze_bound (r.prog.matcher env.lower input) (fun st => st.panic = none) input
      (processMatch tbl) (api3_goodFind R hnull G) {} rfl limit es more h

theorem api3_tokenize_bound {env : Env} {fl : Flags} {r : Regex} (R : Clean3Regex env fl r)
    (hnull : r.nullable = false) {input : List Nat} (G : GoodInput env fl input)
    (limit : Nat) (toks : List (List Nat)) (more : Bool)
    (h : r.tokenize env.lower input limit = .ok (toks, more)) : toks.length ≤ input.length + 1 := by
  unfold Regex.tokenize at h
  split at h
  · simp only [Out.ok.injEq, Prod.mk.injEq] at h
    rw [← h.1]; simp
  · simp only [hnull, Bool.false_eq_true, if_false] at h
    exact C04.tokenize_bound (r.prog.matcher env.lower input) (fun st => st.panic = none) input
      (api3_goodFind R hnull G) {} rfl limit toks more h

/-! ## 3. C06 — the four API functions are total on the fragment -/

theorem api3_isMatch_total {env : Env} {fl : Flags} {r : Regex} (R : Clean3Regex env fl r)
    {input : List Nat} (G : GoodInput env fl input) :
    ∃ b, r.prog.isMatch env.lower input = .ok b := by
  obtain ⟨h1, h2⟩ := R.isMatch_iff G
  by_cases h : ∃ j q, j ≤ input.length ∧ OpR (r.prog.ctx env.lower input) r.prog.op j q
  · exact ⟨true, h1.2 h⟩
  · exact ⟨false, h2 h⟩

/-- `replace_all` with ANY replacement string: `.ok`, or one of the two classified errors — never a
    panic, never divergence -/
theorem api3_replace_total {env : Env} {fl : Flags} {r : Regex} (R : Clean3Regex env fl r)
    {input : List Nat} (G : GoodInput env fl input) (repl : List Nat) :
    (∃ out, r.replaceAll env.lower input repl = .ok out) ∨
    r.replaceAll env.lower input repl = .err .invalidReplacement ∨
    r.replaceAll env.lower input repl = .err .matchesEmptyString := by
  cases hnull : r.nullable with
  | true => exact .inr (.inr (C16.replace_nullable r _ _ _ hnull))
  | false =>
    simp only [Regex.replaceAll, hnull, Bool.false_eq_true, if_false, replaceWith]
    rcases replaceLoop_total (R.findOK hnull G) (r.prog.subst input repl) r.prog.literal
        (input.length + 2) 0 {} true false [] rfl (Nat.zero_le _) (by omega) with h | h
    · exact .inl h
    · exact .inr (.inl h)

/-- `tokenize`, any limit -/
theorem api3_tokenize_total {env : Env} {fl : Flags} {r : Regex} (R : Clean3Regex env fl r)
    {input : List Nat} (G : GoodInput env fl input) (limit : Nat) :
    (∃ toks more, r.tokenize env.lower input limit = .ok (toks, more)) ∨
    r.tokenize env.lower input limit = .err .matchesEmptyString := by
  unfold Regex.tokenize
  split
  · exact .inl ⟨_, _, rfl⟩
  · cases hnull : r.nullable with
    | true => exact .inr (by simp)
    | false =>
      simp only [Bool.false_eq_true, if_false]
      exact .inl (tokenLoop_total (R.findOK hnull G) limit (some 0) {} [] rfl
        (fun p hp => by cases hp; exact Nat.zero_le _))

/-- `analyze`, any limit: `.ok`, the gate error, or a panic at one of the two sites of the group-tree
    builder (`process_matching_substring`, `compute_nesting_table`) — never divergence, no other panic.
    Without capturing groups the builder cannot panic (`api3_analyze_total_plain`). -/
theorem api3_analyze_total {env : Env} {fl : Flags} {r : Regex} (R : Clean3Regex env fl r)
    {input : List Nat} (G : GoodInput env fl input) (limit : Nat) :
    (∃ es more, r.analyze env.lower input limit = .ok (es, more)) ∨
    r.analyze env.lower input limit = .err .matchesEmptyString ∨
    r.analyze env.lower input limit = .panic panicAnalyze ∨
    r.analyze env.lower input limit = .panic panicNesting := by
  cases hnull : r.nullable with
  | true => exact .inr (.inl (C16.analyze_nullable r _ _ _ hnull))
  | false =>
    simp only [Regex.analyze, hnull, Bool.false_eq_true, if_false]
    cases htbl : (if r.prog.literal = true then some [] else nestingTable r.prog.pattern) with
    | none => exact .inr (.inr (.inr rfl))
    | some tbl =>
      simp only
      rcases analyzeLoop_total (R.findOK hnull G) (processMatch tbl) (fun c => c = panicAnalyze)
          (fun st t j n _ => by
            rcases processMatch_cases tbl st t with h | h
            · exact .inl h
            · exact .inr ⟨_, h, rfl⟩)
          limit _ [] (AInv.init r.prog input) with h | ⟨c, h, hc⟩
      · exact .inl h
      · subst hc; exact .inr (.inr (.inl h))

theorem api3_analyze_total_plain {env : Env} {fl : Flags} {r : Regex} (R : Clean3Regex env fl r)
    (hnull : r.nullable = false) (hnc : hasCapNode r.prog.op = false)
    (htbl : r.prog.literal = true ∨ (nestingTable r.prog.pattern).isSome = true)
    {input : List Nat} (G : GoodInput env fl input) (limit : Nat) :
    ∃ es more, r.analyze env.lower input limit = .ok (es, more) := by
  simp only [Regex.analyze, hnull, Bool.false_eq_true, if_false]
  have ht : ∃ tbl, (if r.prog.literal = true then some [] else nestingTable r.prog.pattern) = some tbl := by
    rcases htbl with h | h
    · exact ⟨[], by rw [if_pos h]⟩
    · by_cases hl : r.prog.literal = true
      · exact ⟨[], by rw [if_pos hl]⟩
      · rw [if_neg hl]
        cases hn : nestingTable r.prog.pattern with
        | none => rw [hn] at h; cases h
        | some t => exact ⟨t, rfl⟩
  obtain ⟨tbl, ht⟩ := ht
  rw [ht]
  simp only
  rcases analyzeLoop_total (R.findOK hnull G) (processMatch tbl) (fun _ => False)
      (fun st t j n PM => .inl ⟨_, C03.processMatch_plain tbl st t (PM.pc1 hnc)⟩)
      limit _ [] (AInv.init r.prog input) with h | ⟨c, _, hc⟩
  · exact h
  · exact hc.elim

/-! ## 4. C20 at API level — equivalent spellings -/


/-! ## example: `x(?:a|bc)+y` through `Regex.new Env.std` -/
section example_
open Rx.Clean3Api

theorem ex_regex (r : Regex) (h : Regex.new Env.std Clean3Api.exPat [] false true = .ok r) :
    Clean3Regex Env.std {} r ∧ r.nullable = false := by
  have hk := Clean3Api.ex_new.1
  rw [h] at hk
  simp only [Bool.and_eq_true, Bool.not_eq_true'] at hk
  obtain ⟨⟨⟨⟨k1, k2⟩, k3⟩, k4⟩, _⟩ := hk
  exact ⟨⟨Clean3Api.exPat, [], false, ⟨rfl, h, Clean3Api.ex_noSat, k1, k2, k3, fun hl => by cases hl⟩⟩, k4⟩

/-- the scan of "zxabcay-xay" sees exactly the state-free span list -/
theorem ex_scan (r : Regex) (h : Regex.new Env.std Clean3Api.exPat [] false true = .ok r)
    (input : List Nat) (hsv : ScalarInput input) (hlen : input.length < usizeMax) :
    C04.spanPairs (C04.spansOf (r.prog.matcher Env.std.lower input) input.length (input.length + 2) 0 {}) =
      spans r Env.std.lower input :=
  scan_sees_spans (ex_regex r h).1 (ex_regex r h).2 (goodInput_std_cs rfl hsv hlen)

theorem ex_spans_computed :
    (match Regex.new Env.std Clean3Api.exPat [] false true with
     | .ok r => spans r Env.std.lower [122, 120, 97, 98, 99, 97, 121, 45, 120, 97, 121] == [(1, 7), (8, 11)]
     | _ => false) = true := by decide +kernel

end example_

end Rx.ApiGeneric.Clean3
