/-
  Props/C07 — the compiler accepts exactly the grammar and the flag set (flag and `{m,n}` parts;
  the grammar round trip for whole patterns is established by correspondence + oracle, see
  DESIGN.md §6 C07).
-/
import RxModel.Model.Compile
import RxModel.Spec.Repl
import RxModel.Proofs.MiscLemmas
namespace Rx.C07
open Rx

def isMainFlag (xsd : Bool) (c : Nat) : Bool :=
  c == 105 || c == 109 || c == 115 || c == 120 || (c == 113 && !xsd)      -- i m s x q
def isTailFlag (c : Nat) : Bool := c == 103 || c == 107 || c == 75          -- g k K

/-- the accepted flag strings: letters from {s,m,i,x,q} (q only for XPath), optionally followed by
    `;` and letters from {g,k,K} -/
def flagsOK (xsd : Bool) : List Nat → Bool
  | [] => true
  | c :: cs => if c == 59 then cs.all isTailFlag else isMainFlag xsd c && flagsOK xsd cs

theorem isMainFlag_eq : isMainFlag = isMainFlag' := rfl
theorem isTailFlag_eq : isTailFlag = isTailFlag' := rfl
theorem flagsOK_eq (xsd : Bool) (fs : List Nat) : flagsOK xsd fs = flagsOK' xsd fs := by
  induction fs with
  | nil => rfl
  | cons c cs ih => simp only [flagsOK, flagsOK', ih, isMainFlag_eq, isTailFlag_eq]

/-- `ReFlags::new` succeeds exactly on those (otherwise `Error::InvalidFlags`) -/
theorem flags_spec (fs : List Nat) (xsd : Bool) : (parseFlags fs xsd).isSome = flagsOK xsd fs := by
  rw [flagsOK_eq]; exact parseFlagsGo_isSome fs { xsd := xsd }

/-- and the flags it returns are the letters that occur before the `;` -/
theorem flags_values (fs : List Nat) (xsd : Bool) (fl : Flags) (h : parseFlags fs xsd = some fl) :
    fl.xsd = xsd ∧
    fl.caseBlind = (fs.takeWhile (· != 59)).contains 105 ∧
    fl.multiLine = (fs.takeWhile (· != 59)).contains 109 ∧
    fl.singleLine = (fs.takeWhile (· != 59)).contains 115 ∧
    fl.allowWs = (fs.takeWhile (· != 59)).contains 120 ∧
    fl.literal = (fs.takeWhile (· != 59)).contains 113 := by
  simpa using parseFlagsGo_values fs { xsd := xsd } fl h

/-- an unknown flag letter is rejected -/
theorem flags_unknown (pre post : List Nat) (c : Nat) (xsd : Bool)
    (hpre : pre.all (isMainFlag xsd) = true) (hc : isMainFlag xsd c = false) (hsemi : c ≠ 59) :
    parseFlags (pre ++ c :: post) xsd = none :=
  parseFlagsGo_unknown pre post c xsd hpre hc hsemi { xsd := xsd } rfl

/-- `Regex::new` reports InvalidFlags exactly for those flag strings -/
theorem new_invalid_flags (env : Env) (p fs : List Nat) (xsd opt : Bool) :
    Regex.new env p fs xsd opt = .err .invalidFlags ↔ flagsOK xsd fs = false := by
  rw [← flags_spec]
  constructor
  · intro h
    rcases Regex.new_err _ _ _ _ _ _ h with ⟨_, hn⟩ | ⟨h1, _⟩
    · simp [hn]
    · rcases h1 with h1 | h1 <;> cases h1
  · intro h
    have hn : parseFlags fs xsd = none := by
      cases hp : parseFlags fs xsd with
      | none => rfl
      | some fl => rw [hp] at h; simp at h
    simp [Regex.new, hn]

/-! `{m}`, `{m,}`, `{m,n}` -/

/-- a decimal numeral: a non-empty run of ASCII digits (leading zeros allowed) -/
def isNumeral (ds : List Nat) : Bool := !ds.isEmpty && ds.all isDigit

theorem isNumeral_iff {ds : List Nat} (h : isNumeral ds = true) : ds ≠ [] ∧ ds.all isDigit = true := by
  simp only [isNumeral, Bool.and_eq_true, Bool.not_eq_true', List.isEmpty_eq_false_iff] at h
  exact h

/-- `{n}` is accepted with min = max = n (n < 2^64) -/
theorem bracket_exact (c : PC) (s : PS) (ds rest : List Nat) (hds : isNumeral ds = true)
    (hn : Spec.digitsVal ds ≤ usizeMax)
    (hpat : c.pat.drop s.idx = 123 :: ds ++ 125 :: rest) :
    bracket c s = .ok () { s with idx := s.idx + ds.length + 2, bmin := Spec.digitsVal ds, bmax := Spec.digitsVal ds } :=
  bracket_exact' c s ds rest (isNumeral_iff hds).1 (isNumeral_iff hds).2 hn (by simpa using hpat)

/-- `{n,}` is accepted with max = usize::MAX -/
theorem bracket_open (c : PC) (s : PS) (ds rest : List Nat) (hds : isNumeral ds = true)
    (hn : Spec.digitsVal ds ≤ usizeMax)
    (hpat : c.pat.drop s.idx = 123 :: ds ++ 44 :: 125 :: rest) :
    bracket c s = .ok () { s with idx := s.idx + ds.length + 3, bmin := Spec.digitsVal ds, bmax := usizeMax } :=
  bracket_open' c s ds rest (isNumeral_iff hds).1 (isNumeral_iff hds).2 hn (by simpa using hpat)

/-- `{n,m}` is accepted iff n ≤ m -/
theorem bracket_range (c : PC) (s : PS) (ds es rest : List Nat) (hds : isNumeral ds = true) (hes : isNumeral es = true)
    (hn : Spec.digitsVal ds ≤ usizeMax) (hm : Spec.digitsVal es ≤ usizeMax)
    (hpat : c.pat.drop s.idx = 123 :: ds ++ 44 :: es ++ 125 :: rest) :
    bracket c s = if Spec.digitsVal ds ≤ Spec.digitsVal es
                  then .ok () { s with idx := s.idx + ds.length + es.length + 3, bmin := Spec.digitsVal ds, bmax := Spec.digitsVal es }
                  else .err .syntax :=
  bracket_range' c s ds es rest (isNumeral_iff hds).1 (isNumeral_iff hds).2 (isNumeral_iff hes).1 (isNumeral_iff hes).2
    hn hm (by simpa using hpat)

/-- a bound of 2^64 or more is rejected -/
theorem bracket_overflow (c : PC) (s : PS) (ds rest : List Nat) (hds : isNumeral ds = true)
    (hn : Spec.digitsVal ds > usizeMax) (hrest : ∀ x, rest.head? = some x → isDigit x = false)
    (hpat : c.pat.drop s.idx = 123 :: ds ++ rest) :
    bracket c s = .err .syntax :=
  bracket_overflow' c s ds rest (isNumeral_iff hds).1 (isNumeral_iff hds).2 hn hrest (by simpa using hpat)

/-- whatever `bracket` accepts has `min ≤ max` and both below 2^64 -/
theorem bracket_ok_bounds (c : PC) (s s' : PS) (h : bracket c s = .ok () s') :
    s'.bmin ≤ s'.bmax ∧ s'.bmax ≤ usizeMax ∧ s.idx < s'.idx :=
  bracket_ok_bounds' c s s' h

/-- `bracket` never reports `Error::Internal` when called at a `{` -/
theorem bracket_no_internal (c : PC) (s : PS) (hlt : s.idx < c.len) (hch : c.at s.idx = 123) :
    bracket c s ≠ .err .internal := by
  intro h
  rcases bracket_err c s _ h with h1 | ⟨_, h2⟩
  · cases h1
  · exact h2 ⟨hlt, hch⟩

example : flagsOK false [105, 113, 59, 103] = true ∧ flagsOK true [113] = false ∧ flagsOK false [122] = false := by decide

end Rx.C07
