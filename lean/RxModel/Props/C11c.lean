/-
  Props/C11c — flag i, at the level of the ENGINE's answers: on the fragments where the engine is proved
  complete (`cleanOp`, Props/CleanComplete; `cleanProg2`, Props/Clean2Complete) "replacing input
  characters or pattern letters by their case counterparts never changes is_match or the match spans".

    1  `enum_case_invariant`, `enum_pattern_case_invariant` (and `enum2_…`): the priority-ordered
       enumeration of ends is the SAME LIST on case-equivalent inputs / for case-equivalent trees
       (holds for every tree: outside the fragment `enum` is `[]`);
    2  `clean_isMatch_case_invariant`, `clean_span_case_invariant`: same `is_match` answer, same
       Boolean of `matches(i)` and same (start, end) of group 0 on case-equivalent inputs;
    3  `clean_pattern_case_invariant`: the same for two case-equivalent trees on one input;
    4  `clean2_…`: 2 and 3 with the optimiser's `.unamb` nodes (hypothesis `InputOKFor`, which under
       flag i contains the UNRESTRICTED `CaseOK` — false of `Env.std` because of U+0130
       (`EnvStd.caseOK_std_false`); the alphabet-relative `CaseOKOn` cannot be fed to the Clean2 theorems
       without changing their signatures, so there is no `Env.std` instance of 4 here);
    5  `clean_isMatch_case_invariant_std`, `clean_span_case_invariant_std`: 2 for the real tables on
       the alphabet without U+0130, classes checked by `allClsB (clsClosedOnB notDottedI)`;
    6  `OpR_mono_flag_i`: for a FIXED tree everything in the language without i is in the language
       with i; the sentence "everything that matches without i still matches with it" fails for
       PATTERNS with negated classes because the compiler builds a different class under i
       (`negated_class_not_monotone`, the catalogued finding K7 / 21);
    7  non-vacuity: `[a-k]x` compiled by the model's compiler under flag i, "HIx" / "hiX".
-/
import RxModel.Proofs.CaseEngineLemmas
import RxModel.Props.EnvStd
namespace Rx.C11c
open Rx Rx.C11b Rx.SearchComplete
open Rx.C08 (noEmptyAtoms)

/-! ## 1. the ordered enumeration -/

theorem enum_cls_leaf {ctx ctx' : Ctx} (A : Nat → Bool) (hin : CaseEquivInputs ctx.lower ctx.input ctx'.input)
    (hA : Over A ctx.input) (hA' : Over A ctx'.input) (rs : Ranges) (hcl : clsClosedOn A ctx.lower rs) (p : Nat) :
    enum ctx (.cls rs) p = enum ctx' (.cls rs) p := by
  rcases Nat.lt_or_ge p ctx.input.length with hp | hp
  · have hp' : p < ctx'.input.length := by have := hin.1; omega
    simp only [enum, List.getElem?_eq_getElem hp, List.getElem?_eq_getElem hp']
    rw [hcl _ _ (hA _ (List.getElem_mem hp)) (hA' _ (List.getElem_mem hp')) (hin.2 p hp hp')]
  · have hp' : ctx'.input.length ≤ p := by have := hin.1; omega
    simp only [enum, List.getElem?_eq_none hp, List.getElem?_eq_none hp']

theorem enum2_cls_leaf {ctx ctx' : Ctx} (A : Nat → Bool) (hin : CaseEquivInputs ctx.lower ctx.input ctx'.input)
    (hA : Over A ctx.input) (hA' : Over A ctx'.input) (rs : Ranges) (hcl : clsClosedOn A ctx.lower rs) (p : Nat) :
    enum2 ctx (.cls rs) p = enum2 ctx' (.cls rs) p := by
  rcases Nat.lt_or_ge p ctx.input.length with hp | hp
  · have hp' : p < ctx'.input.length := by have := hin.1; omega
    simp only [enum2, List.getElem?_eq_getElem hp, List.getElem?_eq_getElem hp']
    rw [hcl _ _ (hA _ (List.getElem_mem hp)) (hA' _ (List.getElem_mem hp')) (hin.2 p hp hp')]
  · have hp' : ctx'.input.length ≤ p := by have := hin.1; omega
    simp only [enum2, List.getElem?_eq_none hp, List.getElem?_eq_none hp']

mutual
theorem enum_inv_op (A : Nat → Bool) (ctx ctx' : Ctx) (hs : SameSettings ctx ctx') (hcb : ctx.caseBlind = true)
    (hin : CaseEquivInputs ctx.lower ctx.input ctx'.input) (hA : Over A ctx.input) (hA' : Over A ctx'.input)
    (hnl : NewlineCaseless ctx.lower) :
    (op : Op) → allClsClosedOn A ctx.lower op → ∀ p, enum ctx op p = enum ctx' op p
  | .bol, _, p => by simp only [enum, hs.multiLine, len_eq hin, nl_leaf hin hnl]
  | .eol, _, p => by simp only [enum, hs.multiLine, len_eq hin, nl_leaf hin hnl]
  | .nothing, _, p => by simp only [enum]
  | .endProgram, _, p => by simp only [enum]
  | .atom cs, _, p => by simp only [enum, len_eq hin, atom_leaf hs hcb hin]
  | .cls rs, hc, p => by
    simp only [allClsClosedOn, allCls] at hc
    exact enum_cls_leaf A hin hA hA' rs hc p
  | .backref _, _, p => by simp only [enum]
  | .rep _ _ _ _ _, _, p => by simp only [enum]
  | .capture _ c, hc, p => by
    simp only [allClsClosedOn, allCls] at hc
    simp only [enum]
    exact enum_inv_op A ctx ctx' hs hcb hin hA hA' hnl c hc p
  | .choice bs, hc, p => by
    simp only [allClsClosedOn, allCls] at hc
    simp only [enum]
    exact enum_inv_any A ctx ctx' hs hcb hin hA hA' hnl bs hc p
  | .seq ops, hc, p => by
    simp only [allClsClosedOn, allCls] at hc
    simp only [enum]
    exact enum_inv_seq A ctx ctx' hs hcb hin hA hA' hnl ops hc p
  | .gfixed c mn mx _, hc, p => by
    simp only [allClsClosedOn, allCls] at hc
    have h : enum ctx c = enum ctx' c := funext (fun a => enum_inv_op A ctx ctx' hs hcb hin hA hA' hnl c hc a)
    simp only [enum, h]
  | .rfixed c mn mx _, hc, p => by
    simp only [allClsClosedOn, allCls] at hc
    have h : enum ctx c = enum ctx' c := funext (fun a => enum_inv_op A ctx ctx' hs hcb hin hA hA' hnl c hc a)
    simp only [enum, h]
  | .unamb _ _ _, _, p => by simp only [enum]
theorem enum_inv_any (A : Nat → Bool) (ctx ctx' : Ctx) (hs : SameSettings ctx ctx') (hcb : ctx.caseBlind = true)
    (hin : CaseEquivInputs ctx.lower ctx.input ctx'.input) (hA : Over A ctx.input) (hA' : Over A ctx'.input)
    (hnl : NewlineCaseless ctx.lower) :
    (bs : List Op) → allClsL (clsClosedOn A ctx.lower) bs → ∀ p, enumAny ctx bs p = enumAny ctx' bs p
  | [], _, p => by simp only [enumAny]
  | b :: bs, hc, p => by
    simp only [allClsL] at hc
    simp only [enumAny, enum_inv_op A ctx ctx' hs hcb hin hA hA' hnl b hc.1 p, enum_inv_any A ctx ctx' hs hcb hin hA hA' hnl bs hc.2 p]
theorem enum_inv_seq (A : Nat → Bool) (ctx ctx' : Ctx) (hs : SameSettings ctx ctx') (hcb : ctx.caseBlind = true)
    (hin : CaseEquivInputs ctx.lower ctx.input ctx'.input) (hA : Over A ctx.input) (hA' : Over A ctx'.input)
    (hnl : NewlineCaseless ctx.lower) :
    (ops : List Op) → allClsL (clsClosedOn A ctx.lower) ops → ∀ p, enumSeq ctx ops p = enumSeq ctx' ops p
  | [], _, p => by simp only [enumSeq]
  | o :: os, hc, p => by
    simp only [allClsL] at hc
    have h : enumSeq ctx os = enumSeq ctx' os := funext (fun a => enum_inv_seq A ctx ctx' hs hcb hin hA hA' hnl os hc.2 a)
    simp only [enumSeq, enum_inv_op A ctx ctx' hs hcb hin hA hA' hnl o hc.1 p, h]
end

mutual
theorem enum_pat_op (ctx : Ctx) (hcb : ctx.caseBlind = true) :
    (op op' : Op) → CaseEquivOps ctx.lower op op' → ∀ p, enum ctx op p = enum ctx op' p
  | .bol, op', he, p => by
    cases op' <;> simp only [CaseEquivOps] at he
    rfl
  | .eol, op', he, p => by
    cases op' <;> simp only [CaseEquivOps] at he
    rfl
  | .nothing, op', he, p => by
    cases op' <;> simp only [CaseEquivOps] at he
    rfl
  | .endProgram, op', he, p => by
    cases op' <;> simp only [CaseEquivOps] at he
    rfl
  | .atom cs, op', he, p => by
    cases op' <;> simp only [CaseEquivOps] at he
    rename_i ds
    simp only [enum, he.1,
      CaseL.prefixMatch_case_congr ctx hcb cs ds _ _ he.1 he.2 rfl (fun _ _ _ => C11.eqCB_refl _ _)]
  | .cls rs, op', he, p => by
    cases op' <;> simp only [CaseEquivOps] at he
    subst he
    rfl
  | .backref g, op', he, p => by
    cases op' <;> simp only [CaseEquivOps] at he
    simp only [enum]
  | .rep id c mn mx gr, op', he, p => by
    cases op' <;> simp only [CaseEquivOps] at he
    simp only [enum]
  | .capture g c, op', he, p => by
    cases op' <;> simp only [CaseEquivOps] at he
    simp only [enum]
    exact enum_pat_op ctx hcb c _ he.2 p
  | .choice bs, op', he, p => by
    cases op' <;> simp only [CaseEquivOps] at he
    simp only [enum]
    exact enum_pat_any ctx hcb bs _ he p
  | .seq ops, op', he, p => by
    cases op' <;> simp only [CaseEquivOps] at he
    simp only [enum]
    exact enum_pat_seq ctx hcb ops _ he p
  | .gfixed c mn mx len, op', he, p => by
    cases op' <;> simp only [CaseEquivOps] at he
    obtain ⟨rfl, rfl, _, hec⟩ := he
    have h := funext (fun a => enum_pat_op ctx hcb c _ hec a)
    simp only [enum, h]
  | .rfixed c mn mx len, op', he, p => by
    cases op' <;> simp only [CaseEquivOps] at he
    obtain ⟨rfl, rfl, _, hec⟩ := he
    have h := funext (fun a => enum_pat_op ctx hcb c _ hec a)
    simp only [enum, h]
  | .unamb c mn mx, op', he, p => by
    cases op' <;> simp only [CaseEquivOps] at he
    simp only [enum]
theorem enum_pat_any (ctx : Ctx) (hcb : ctx.caseBlind = true) :
    (bs bs' : List Op) → CaseEquivOpsL ctx.lower bs bs' → ∀ p, enumAny ctx bs p = enumAny ctx bs' p
  | [], bs', he, p => by
    cases bs' <;> simp only [CaseEquivOpsL] at he
    rfl
  | b :: bs, bs', he, p => by
    cases bs' <;> simp only [CaseEquivOpsL] at he
    simp only [enumAny, enum_pat_op ctx hcb b _ he.1 p, enum_pat_any ctx hcb bs _ he.2 p]
theorem enum_pat_seq (ctx : Ctx) (hcb : ctx.caseBlind = true) :
    (ops ops' : List Op) → CaseEquivOpsL ctx.lower ops ops' → ∀ p, enumSeq ctx ops p = enumSeq ctx ops' p
  | [], ops', he, p => by
    cases ops' <;> simp only [CaseEquivOpsL] at he
    rfl
  | o :: os, ops', he, p => by
    cases ops' <;> simp only [CaseEquivOpsL] at he
    have h := funext (fun a => enum_pat_seq ctx hcb os _ he.2 a)
    simp only [enumSeq, enum_pat_op ctx hcb o _ he.1 p, h]
end

mutual
theorem enum2_inv_op (A : Nat → Bool) (ctx ctx' : Ctx) (hs : SameSettings ctx ctx') (hcb : ctx.caseBlind = true)
    (hin : CaseEquivInputs ctx.lower ctx.input ctx'.input) (hA : Over A ctx.input) (hA' : Over A ctx'.input)
    (hnl : NewlineCaseless ctx.lower) :
    (op : Op) → allClsClosedOn A ctx.lower op → ∀ p, enum2 ctx op p = enum2 ctx' op p
  | .bol, _, p => by simp only [enum2, hs.multiLine, len_eq hin, nl_leaf hin hnl]
  | .eol, _, p => by simp only [enum2, hs.multiLine, len_eq hin, nl_leaf hin hnl]
  | .nothing, _, p => by simp only [enum2]
  | .endProgram, _, p => by simp only [enum2]
  | .atom cs, _, p => by simp only [enum2, len_eq hin, atom_leaf hs hcb hin]
  | .cls rs, hc, p => by
    simp only [allClsClosedOn, allCls] at hc
    exact enum2_cls_leaf A hin hA hA' rs hc p
  | .backref _, _, p => by simp only [enum2]
  | .rep _ _ _ _ _, _, p => by simp only [enum2]
  | .capture _ c, hc, p => by
    simp only [allClsClosedOn, allCls] at hc
    simp only [enum2]
    exact enum2_inv_op A ctx ctx' hs hcb hin hA hA' hnl c hc p
  | .choice bs, hc, p => by
    simp only [allClsClosedOn, allCls] at hc
    simp only [enum2]
    exact enum2_inv_any A ctx ctx' hs hcb hin hA hA' hnl bs hc p
  | .seq ops, hc, p => by
    simp only [allClsClosedOn, allCls] at hc
    simp only [enum2]
    exact enum2_inv_seq A ctx ctx' hs hcb hin hA hA' hnl ops hc p
  | .gfixed c mn mx _, hc, p => by
    simp only [allClsClosedOn, allCls] at hc
    have h : enum2 ctx c = enum2 ctx' c := funext (fun a => enum2_inv_op A ctx ctx' hs hcb hin hA hA' hnl c hc a)
    simp only [enum2, h]
  | .rfixed c mn mx _, hc, p => by
    simp only [allClsClosedOn, allCls] at hc
    have h : enum2 ctx c = enum2 ctx' c := funext (fun a => enum2_inv_op A ctx ctx' hs hcb hin hA hA' hnl c hc a)
    simp only [enum2, h]
  | .unamb c mn mx, hc, p => by
    simp only [allClsClosedOn, allCls] at hc
    have h : enum2 ctx c = enum2 ctx' c := funext (fun a => enum2_inv_op A ctx ctx' hs hcb hin hA hA' hnl c hc a)
    simp only [enum2, h]
theorem enum2_inv_any (A : Nat → Bool) (ctx ctx' : Ctx) (hs : SameSettings ctx ctx') (hcb : ctx.caseBlind = true)
    (hin : CaseEquivInputs ctx.lower ctx.input ctx'.input) (hA : Over A ctx.input) (hA' : Over A ctx'.input)
    (hnl : NewlineCaseless ctx.lower) :
    (bs : List Op) → allClsL (clsClosedOn A ctx.lower) bs → ∀ p, enumAny2 ctx bs p = enumAny2 ctx' bs p
  | [], _, p => by simp only [enumAny2]
  | b :: bs, hc, p => by
    simp only [allClsL] at hc
    simp only [enumAny2, enum2_inv_op A ctx ctx' hs hcb hin hA hA' hnl b hc.1 p, enum2_inv_any A ctx ctx' hs hcb hin hA hA' hnl bs hc.2 p]
theorem enum2_inv_seq (A : Nat → Bool) (ctx ctx' : Ctx) (hs : SameSettings ctx ctx') (hcb : ctx.caseBlind = true)
    (hin : CaseEquivInputs ctx.lower ctx.input ctx'.input) (hA : Over A ctx.input) (hA' : Over A ctx'.input)
    (hnl : NewlineCaseless ctx.lower) :
    (ops : List Op) → allClsL (clsClosedOn A ctx.lower) ops → ∀ p, enumSeq2 ctx ops p = enumSeq2 ctx' ops p
  | [], _, p => by simp only [enumSeq2]
  | o :: os, hc, p => by
    simp only [allClsL] at hc
    have h : enumSeq2 ctx os = enumSeq2 ctx' os := funext (fun a => enum2_inv_seq A ctx ctx' hs hcb hin hA hA' hnl os hc.2 a)
    simp only [enumSeq2, enum2_inv_op A ctx ctx' hs hcb hin hA hA' hnl o hc.1 p, h]
end

mutual
theorem enum2_pat_op (ctx : Ctx) (hcb : ctx.caseBlind = true) :
    (op op' : Op) → CaseEquivOps ctx.lower op op' → ∀ p, enum2 ctx op p = enum2 ctx op' p
  | .bol, op', he, p => by
    cases op' <;> simp only [CaseEquivOps] at he
    rfl
  | .eol, op', he, p => by
    cases op' <;> simp only [CaseEquivOps] at he
    rfl
  | .nothing, op', he, p => by
    cases op' <;> simp only [CaseEquivOps] at he
    rfl
  | .endProgram, op', he, p => by
    cases op' <;> simp only [CaseEquivOps] at he
    rfl
  | .atom cs, op', he, p => by
    cases op' <;> simp only [CaseEquivOps] at he
    rename_i ds
    simp only [enum2, he.1,
      CaseL.prefixMatch_case_congr ctx hcb cs ds _ _ he.1 he.2 rfl (fun _ _ _ => C11.eqCB_refl _ _)]
  | .cls rs, op', he, p => by
    cases op' <;> simp only [CaseEquivOps] at he
    subst he
    rfl
  | .backref g, op', he, p => by
    cases op' <;> simp only [CaseEquivOps] at he
    simp only [enum2]
  | .rep id c mn mx gr, op', he, p => by
    cases op' <;> simp only [CaseEquivOps] at he
    simp only [enum2]
  | .capture g c, op', he, p => by
    cases op' <;> simp only [CaseEquivOps] at he
    simp only [enum2]
    exact enum2_pat_op ctx hcb c _ he.2 p
  | .choice bs, op', he, p => by
    cases op' <;> simp only [CaseEquivOps] at he
    simp only [enum2]
    exact enum2_pat_any ctx hcb bs _ he p
  | .seq ops, op', he, p => by
    cases op' <;> simp only [CaseEquivOps] at he
    simp only [enum2]
    exact enum2_pat_seq ctx hcb ops _ he p
  | .gfixed c mn mx len, op', he, p => by
    cases op' <;> simp only [CaseEquivOps] at he
    obtain ⟨rfl, rfl, _, hec⟩ := he
    have h := funext (fun a => enum2_pat_op ctx hcb c _ hec a)
    simp only [enum2, h]
  | .rfixed c mn mx len, op', he, p => by
    cases op' <;> simp only [CaseEquivOps] at he
    obtain ⟨rfl, rfl, _, hec⟩ := he
    have h := funext (fun a => enum2_pat_op ctx hcb c _ hec a)
    simp only [enum2, h]
  | .unamb c mn mx, op', he, p => by
    cases op' <;> simp only [CaseEquivOps] at he
    obtain ⟨rfl, rfl, hec⟩ := he
    have h := funext (fun a => enum2_pat_op ctx hcb c _ hec a)
    simp only [enum2, h]
theorem enum2_pat_any (ctx : Ctx) (hcb : ctx.caseBlind = true) :
    (bs bs' : List Op) → CaseEquivOpsL ctx.lower bs bs' → ∀ p, enumAny2 ctx bs p = enumAny2 ctx bs' p
  | [], bs', he, p => by
    cases bs' <;> simp only [CaseEquivOpsL] at he
    rfl
  | b :: bs, bs', he, p => by
    cases bs' <;> simp only [CaseEquivOpsL] at he
    simp only [enumAny2, enum2_pat_op ctx hcb b _ he.1 p, enum2_pat_any ctx hcb bs _ he.2 p]
theorem enum2_pat_seq (ctx : Ctx) (hcb : ctx.caseBlind = true) :
    (ops ops' : List Op) → CaseEquivOpsL ctx.lower ops ops' → ∀ p, enumSeq2 ctx ops p = enumSeq2 ctx ops' p
  | [], ops', he, p => by
    cases ops' <;> simp only [CaseEquivOpsL] at he
    rfl
  | o :: os, ops', he, p => by
    cases ops' <;> simp only [CaseEquivOpsL] at he
    have h := funext (fun a => enum2_pat_seq ctx hcb os _ he.2 a)
    simp only [enumSeq2, enum2_pat_op ctx hcb o _ he.1 p, h]
end


/-- **the enumeration on case-equivalent inputs**: the same ends in the same priority order -/
theorem enum_case_invariant (A : Nat → Bool) (ctx : Ctx) (ys : List Nat) (hcb : ctx.caseBlind = true)
    (hin : CaseEquivInputs ctx.lower ctx.input ys) (hA : Over A ctx.input) (hA' : Over A ys)
    (hnl : NewlineCaseless ctx.lower) (op : Op) (hc : allClsClosedOn A ctx.lower op) (p : Nat) :
    enum ctx op p = enum { ctx with input := ys } op p :=
  enum_inv_op A ctx { ctx with input := ys } (sameSettings_input ctx ys) hcb hin hA hA' hnl op hc p

/-- **the enumeration of two case-equivalent trees** -/
theorem enum_pattern_case_invariant (ctx : Ctx) (hcb : ctx.caseBlind = true) (op op' : Op)
    (he : CaseEquivOps ctx.lower op op') (p : Nat) : enum ctx op p = enum ctx op' p :=
  enum_pat_op ctx hcb op op' he p

/-- the same with `.unamb` = maximal munch -/
theorem enum2_case_invariant (A : Nat → Bool) (ctx : Ctx) (ys : List Nat) (hcb : ctx.caseBlind = true)
    (hin : CaseEquivInputs ctx.lower ctx.input ys) (hA : Over A ctx.input) (hA' : Over A ys)
    (hnl : NewlineCaseless ctx.lower) (op : Op) (hc : allClsClosedOn A ctx.lower op) (p : Nat) :
    enum2 ctx op p = enum2 { ctx with input := ys } op p :=
  enum2_inv_op A ctx { ctx with input := ys } (sameSettings_input ctx ys) hcb hin hA hA' hnl op hc p

theorem enum2_pattern_case_invariant (ctx : Ctx) (hcb : ctx.caseBlind = true) (op op' : Op)
    (he : CaseEquivOps ctx.lower op op') (p : Nat) : enum2 ctx op p = enum2 ctx op' p :=
  enum2_pat_op ctx hcb op op' he p

/-! ## 2. `is_match` and the reported span on case-equivalent inputs (`cleanOp` fragment) -/

theorem prog_settings (pr : Prog) (lower : Nat → Nat) (xs ys : List Nat) :
    SameSettings (pr.ctx lower xs) (pr.ctx lower ys) := ⟨rfl, rfl, rfl⟩

/-- the language of the program on the two inputs -/
theorem clean_lang (A : Nat → Bool) (pat : List Nat) (op : Op) (mp : Nat) (fl : CFlags) (lower : Nat → Nat)
    (xs ys : List Nat) (hi : fl.caseBlind = true) (hop : (mkProgram pat op mp fl false).op = op)
    (hcl : allClsClosedOn A lower op) (hnl : NewlineCaseless lower)
    (hin : CaseEquivInputs lower xs ys) (hA : Over A xs) (hA' : Over A ys) (p q : Nat) :
    OpR ((mkProgram pat op mp fl false).ctx lower xs) (mkProgram pat op mp fl false).op p q ↔
    OpR ((mkProgram pat op mp fl false).ctx lower ys) (mkProgram pat op mp fl false).op p q := by
  have hcb : (mkProgram pat op mp fl false).caseBlind = true := by
    rw [(mkProgram_shape pat op mp fl false).2.1]; exact hi
  rw [prog_language_case_invariant_on A (mkProgram pat op mp fl false) lower xs ys hcb hin hA hA' hnl
    (by rw [hop]; exact hcl)]

/-- **`is_match` on case-equivalent inputs**: the same `.ok` Boolean -/
theorem clean_isMatch_case_invariant (A : Nat → Bool) (pat : List Nat) (op : Op) (mp : Nat) (fl : CFlags)
    (lower : Nat → Nat) (xs ys : List Nat) (hi : fl.caseBlind = true)
    (hc : cleanOp op = true) (hwf : wfOp op = true) (hne : noEmptyAtoms op = true)
    (hcl : allClsClosedOn A lower op) (hnl : NewlineCaseless lower)
    (hin : CaseEquivInputs lower xs ys) (hA : Over A xs) (hA' : Over A ys) (hlen : xs.length < usizeMax) :
    (mkProgram pat op mp fl false).isMatch lower xs = (mkProgram pat op mp fl false).isMatch lower ys :=
  CaseE.isMatch_agree
    (clean_lang A pat op mp fl lower xs ys hi (CaseE.mkProgram_op_clean pat op mp fl false hc) hcl hnl hin hA hA')
    hin.1
    (CleanComplete.clean_isMatch_ok pat op mp fl lower xs hc hwf hne hlen)
    (CleanComplete.clean_isMatch_ok pat op mp fl lower ys hc hwf hne (hin.1 ▸ hlen))

/-- **`matches(i)` on case-equivalent inputs**: the same Boolean and — for a tree whose captures are
    numbered from 1 (`capsPos`) — the same start AND the same end of group 0, from any two clean states -/
theorem clean_span_case_invariant (A : Nat → Bool) (pat : List Nat) (op : Op) (mp : Nat) (fl : CFlags)
    (lower : Nat → Nat) (xs ys : List Nat) (hi : fl.caseBlind = true)
    (hc : cleanOp op = true) (hwf : wfOp op = true) (hne : noEmptyAtoms op = true)
    (hcl : allClsClosedOn A lower op) (hnl : NewlineCaseless lower)
    (hin : CaseEquivInputs lower xs ys) (hA : Over A xs) (hA' : Over A ys) (hlen : xs.length < usizeMax)
    (i : Nat) (hix : i ≤ xs.length) (st1 st2 : St) (h1 : st1.panic = none) (h2 : st2.panic = none) :
    let pr := mkProgram pat op mp fl false
    (matchesFrom (pr.ctx lower xs) pr i st1).1 = (matchesFrom (pr.ctx lower ys) pr i st2).1 ∧
    (C02.capsPos op = true → (matchesFrom (pr.ctx lower xs) pr i st1).1 = true →
      getParenStart (matchesFrom (pr.ctx lower xs) pr i st1).2 0 =
        getParenStart (matchesFrom (pr.ctx lower ys) pr i st2).2 0 ∧
      getParenEnd (matchesFrom (pr.ctx lower xs) pr i st1).2 0 =
        getParenEnd (matchesFrom (pr.ctx lower ys) pr i st2).2 0) := by
  intro pr
  have hop := CaseE.mkProgram_op_clean pat op mp fl false hc
  have hleny : ys.length < usizeMax := hin.1 ▸ hlen
  have hiy : i ≤ ys.length := hin.1 ▸ hix
  have hL := clean_lang A pat op mp fl lower xs ys hi hop hcl hnl hin hA hA'
  have hb := CaseE.found_agree hL hin.1
    (CleanComplete.clean_matchesFrom_iff pat op mp fl lower xs hc hwf hne hlen i hix st1 h1).1
    (CleanComplete.clean_matchesFrom_iff pat op mp fl lower ys hc hwf hne hleny i hiy st2 h2).1
  refine ⟨hb, fun hcp ht => ?_⟩
  obtain ⟨j1, n1, a1, b1, c1, d1, _, _, e1, f1⟩ :=
    CleanComplete.clean_match_is_leftmost_first pat op mp fl lower xs hc hwf hne hcp hlen i hix st1
      (matchesFrom (pr.ctx lower xs) pr i st1).2 h1 (Prod.ext ht rfl)
  obtain ⟨j2, n2, a2, b2, c2, d2, _, _, e2, f2⟩ :=
    CleanComplete.clean_match_is_leftmost_first pat op mp fl lower ys hc hwf hne hcp hleny i hiy st2
      (matchesFrom (pr.ctx lower ys) pr i st2).2 h2 (Prod.ext (hb ▸ ht) rfl)
  have hcb : (pr.ctx lower xs).caseBlind = true := by
    show (mkProgram pat op mp fl false).caseBlind = true
    rw [(mkProgram_shape pat op mp fl false).2.1]; exact hi
  exact CaseE.Reports.agree hL
    (fun j => by
      rw [enum_inv_op A (pr.ctx lower xs) (pr.ctx lower ys) (prog_settings pr lower xs ys) hcb hin hA hA' hnl
        pr.op (by rw [hop]; exact hcl) j])
    ⟨j1, n1, a1, b1, c1, d1, e1, f1⟩ ⟨j2, n2, a2, b2, c2, d2, e2, f2⟩

/-! ## 3. pattern letters replaced by case counterparts (`cleanOp` fragment) -/

/-- **two case-equivalent clean trees on one input**: the same `is_match` answer, the same Boolean of
    `matches(i)`, the same start and the same end of group 0 -/
theorem clean_pattern_case_invariant (pat1 pat2 : List Nat) (op1 op2 : Op) (mp : Nat) (fl : CFlags)
    (lower : Nat → Nat) (input : List Nat) (hi : fl.caseBlind = true)
    (hc1 : cleanOp op1 = true) (hwf1 : wfOp op1 = true) (hne1 : noEmptyAtoms op1 = true)
    (hc2 : cleanOp op2 = true) (hwf2 : wfOp op2 = true) (hne2 : noEmptyAtoms op2 = true)
    (he : CaseEquivOps lower op1 op2) (hlen : input.length < usizeMax) :
    let pr1 := mkProgram pat1 op1 mp fl false
    let pr2 := mkProgram pat2 op2 mp fl false
    pr1.isMatch lower input = pr2.isMatch lower input ∧
    ∀ (i : Nat), i ≤ input.length → ∀ (st1 st2 : St), st1.panic = none → st2.panic = none →
      (matchesFrom (pr1.ctx lower input) pr1 i st1).1 = (matchesFrom (pr2.ctx lower input) pr2 i st2).1 ∧
      (C02.capsPos op1 = true → C02.capsPos op2 = true → (matchesFrom (pr1.ctx lower input) pr1 i st1).1 = true →
        getParenStart (matchesFrom (pr1.ctx lower input) pr1 i st1).2 0 =
          getParenStart (matchesFrom (pr2.ctx lower input) pr2 i st2).2 0 ∧
        getParenEnd (matchesFrom (pr1.ctx lower input) pr1 i st1).2 0 =
          getParenEnd (matchesFrom (pr2.ctx lower input) pr2 i st2).2 0) := by
  intro pr1 pr2
  have hop1 : pr1.op = op1 := CaseE.mkProgram_op_clean pat1 op1 mp fl false hc1
  have hop2 : pr2.op = op2 := CaseE.mkProgram_op_clean pat2 op2 mp fl false hc2
  have hctx : pr1.ctx lower input = pr2.ctx lower input := CaseE.ctx_eq' pat1 pat2 op1 op2 mp fl false lower input
  have hcb : (pr2.ctx lower input).caseBlind = true := by
    show (mkProgram pat2 op2 mp fl false).caseBlind = true
    rw [(mkProgram_shape pat2 op2 mp fl false).2.1]; exact hi
  have hL : ∀ p q, OpR (pr1.ctx lower input) pr1.op p q ↔ OpR (pr2.ctx lower input) pr2.op p q := by
    intro p q
    rw [hctx, hop1, hop2]
    exact OpR_pattern_case_invariant (pr2.ctx lower input) hcb op1 op2 he p q
  have hE : ∀ j, (enum (pr1.ctx lower input) pr1.op j).head? = (enum (pr2.ctx lower input) pr2.op j).head? := by
    intro j
    rw [hctx, hop1, hop2, enum_pattern_case_invariant (pr2.ctx lower input) hcb op1 op2 he j]
  refine ⟨CaseE.isMatch_agree hL rfl
    (CleanComplete.clean_isMatch_ok pat1 op1 mp fl lower input hc1 hwf1 hne1 hlen)
    (CleanComplete.clean_isMatch_ok pat2 op2 mp fl lower input hc2 hwf2 hne2 hlen), ?_⟩
  intro i hii st1 st2 h1 h2
  have hb := CaseE.found_agree hL rfl
    (CleanComplete.clean_matchesFrom_iff pat1 op1 mp fl lower input hc1 hwf1 hne1 hlen i hii st1 h1).1
    (CleanComplete.clean_matchesFrom_iff pat2 op2 mp fl lower input hc2 hwf2 hne2 hlen i hii st2 h2).1
  refine ⟨hb, fun hcp1 hcp2 ht => ?_⟩
  obtain ⟨j1, n1, a1, b1, c1, d1, _, _, e1, f1⟩ :=
    CleanComplete.clean_match_is_leftmost_first pat1 op1 mp fl lower input hc1 hwf1 hne1 hcp1 hlen i hii st1
      (matchesFrom (pr1.ctx lower input) pr1 i st1).2 h1 (Prod.ext ht rfl)
  obtain ⟨j2, n2, a2, b2, c2, d2, _, _, e2, f2⟩ :=
    CleanComplete.clean_match_is_leftmost_first pat2 op2 mp fl lower input hc2 hwf2 hne2 hcp2 hlen i hii st2
      (matchesFrom (pr2.ctx lower input) pr2 i st2).2 h2 (Prod.ext (hb ▸ ht) rfl)
  exact CaseE.Reports.agree hL hE ⟨j1, n1, a1, b1, c1, d1, e1, f1⟩ ⟨j2, n2, a2, b2, c2, d2, e2, f2⟩

/-! ## 4. the same with the optimiser's `.unamb` nodes (`cleanProg2` fragment)

  `InputOKFor env fl lower input` (Proofs/Clean2SearchLemmas): under flag i the case tables are coherent
  (`CaseOK env lower`), closure members and input characters are code points, no surrogate in the
  input.  It is needed for BOTH inputs (their characters differ). -/

/-- **`is_match` on case-equivalent inputs**, `.unamb` allowed -/
theorem clean2_isMatch_case_invariant (A : Nat → Bool) (env : Env) (pat : List Nat) (op : Op) (mp : Nat)
    (fl : CFlags) (lower : Nat → Nat) (xs ys : List Nat) (hi : fl.caseBlind = true)
    (hIx : InputOKFor env fl lower xs) (hIy : InputOKFor env fl lower ys)
    (hc : cleanProg2 env fl.caseBlind fl.multiLine op = true) (hwf : wfOp op = true)
    (hne : noEmptyAtoms op = true) (hcan : clsCanonB op = true)
    (hcl : allClsClosedOn A lower op) (hnl : NewlineCaseless lower)
    (hin : CaseEquivInputs lower xs ys) (hA : Over A xs) (hA' : Over A ys) (hlen : xs.length < usizeMax) :
    (mkProgram pat op mp fl false).isMatch lower xs = (mkProgram pat op mp fl false).isMatch lower ys :=
  CaseE.isMatch_agree
    (clean_lang A pat op mp fl lower xs ys hi (Clean2Complete.prog_op env pat op mp fl false hc) hcl hnl hin hA hA')
    hin.1
    (Clean2Complete.clean2_isMatch_ok env pat op mp fl lower xs hIx hc hwf hne hcan hlen)
    (Clean2Complete.clean2_isMatch_ok env pat op mp fl lower ys hIy hc hwf hne hcan (hin.1 ▸ hlen))

/-- **`matches(i)` on case-equivalent inputs**, `.unamb` allowed: same Boolean, same start, same end -/
theorem clean2_span_case_invariant (A : Nat → Bool) (env : Env) (pat : List Nat) (op : Op) (mp : Nat)
    (fl : CFlags) (lower : Nat → Nat) (xs ys : List Nat) (hi : fl.caseBlind = true)
    (hIx : InputOKFor env fl lower xs) (hIy : InputOKFor env fl lower ys)
    (hc : cleanProg2 env fl.caseBlind fl.multiLine op = true) (hwf : wfOp op = true)
    (hne : noEmptyAtoms op = true) (hcan : clsCanonB op = true)
    (hcl : allClsClosedOn A lower op) (hnl : NewlineCaseless lower)
    (hin : CaseEquivInputs lower xs ys) (hA : Over A xs) (hA' : Over A ys) (hlen : xs.length < usizeMax)
    (i : Nat) (hix : i ≤ xs.length) (st1 st2 : St) (h1 : st1.panic = none) (h2 : st2.panic = none) :
    let pr := mkProgram pat op mp fl false
    (matchesFrom (pr.ctx lower xs) pr i st1).1 = (matchesFrom (pr.ctx lower ys) pr i st2).1 ∧
    (C02.capsPos op = true → (matchesFrom (pr.ctx lower xs) pr i st1).1 = true →
      getParenStart (matchesFrom (pr.ctx lower xs) pr i st1).2 0 =
        getParenStart (matchesFrom (pr.ctx lower ys) pr i st2).2 0 ∧
      getParenEnd (matchesFrom (pr.ctx lower xs) pr i st1).2 0 =
        getParenEnd (matchesFrom (pr.ctx lower ys) pr i st2).2 0) := by
  intro pr
  have hop := Clean2Complete.prog_op env pat op mp fl false hc
  have hleny : ys.length < usizeMax := hin.1 ▸ hlen
  have hiy : i ≤ ys.length := hin.1 ▸ hix
  have hL := clean_lang A pat op mp fl lower xs ys hi hop hcl hnl hin hA hA'
  have hb := CaseE.found_agree hL hin.1
    (Clean2Complete.clean2_matchesFrom_iff env pat op mp fl lower xs hIx hc hwf hne hcan hlen i hix st1 h1).1
    (Clean2Complete.clean2_matchesFrom_iff env pat op mp fl lower ys hIy hc hwf hne hcan hleny i hiy st2 h2).1
  refine ⟨hb, fun hcp ht => ?_⟩
  obtain ⟨j1, n1, a1, b1, c1, d1, _, _, e1, f1⟩ :=
    Clean2Complete.clean2_match_is_leftmost_first env pat op mp fl lower xs hIx hc hwf hne hcan hcp hlen i hix st1
      (matchesFrom (pr.ctx lower xs) pr i st1).2 h1 (Prod.ext ht rfl)
  obtain ⟨j2, n2, a2, b2, c2, d2, _, _, e2, f2⟩ :=
    Clean2Complete.clean2_match_is_leftmost_first env pat op mp fl lower ys hIy hc hwf hne hcan hcp hleny i hiy st2
      (matchesFrom (pr.ctx lower ys) pr i st2).2 h2 (Prod.ext (hb ▸ ht) rfl)
  have hcb : (pr.ctx lower xs).caseBlind = true := by
    show (mkProgram pat op mp fl false).caseBlind = true
    rw [(mkProgram_shape pat op mp fl false).2.1]; exact hi
  exact CaseE.Reports.agree hL
    (fun j => by
      rw [enum2_inv_op A (pr.ctx lower xs) (pr.ctx lower ys) (prog_settings pr lower xs ys) hcb hin hA hA' hnl
        pr.op (by rw [hop]; exact hcl) j])
    ⟨j1, n1, a1, b1, c1, d1, e1, f1⟩ ⟨j2, n2, a2, b2, c2, d2, e2, f2⟩

/-- **two case-equivalent trees on one input**, `.unamb` allowed -/
theorem clean2_pattern_case_invariant (env : Env) (pat1 pat2 : List Nat) (op1 op2 : Op) (mp : Nat) (fl : CFlags)
    (lower : Nat → Nat) (input : List Nat) (hi : fl.caseBlind = true) (hI : InputOKFor env fl lower input)
    (hc1 : cleanProg2 env fl.caseBlind fl.multiLine op1 = true) (hwf1 : wfOp op1 = true)
    (hne1 : noEmptyAtoms op1 = true) (hcan1 : clsCanonB op1 = true)
    (hc2 : cleanProg2 env fl.caseBlind fl.multiLine op2 = true) (hwf2 : wfOp op2 = true)
    (hne2 : noEmptyAtoms op2 = true) (hcan2 : clsCanonB op2 = true)
    (he : CaseEquivOps lower op1 op2) (hlen : input.length < usizeMax) :
    let pr1 := mkProgram pat1 op1 mp fl false
    let pr2 := mkProgram pat2 op2 mp fl false
    pr1.isMatch lower input = pr2.isMatch lower input ∧
    ∀ (i : Nat), i ≤ input.length → ∀ (st1 st2 : St), st1.panic = none → st2.panic = none →
      (matchesFrom (pr1.ctx lower input) pr1 i st1).1 = (matchesFrom (pr2.ctx lower input) pr2 i st2).1 ∧
      (C02.capsPos op1 = true → C02.capsPos op2 = true → (matchesFrom (pr1.ctx lower input) pr1 i st1).1 = true →
        getParenStart (matchesFrom (pr1.ctx lower input) pr1 i st1).2 0 =
          getParenStart (matchesFrom (pr2.ctx lower input) pr2 i st2).2 0 ∧
        getParenEnd (matchesFrom (pr1.ctx lower input) pr1 i st1).2 0 =
          getParenEnd (matchesFrom (pr2.ctx lower input) pr2 i st2).2 0) := by
  intro pr1 pr2
  have hop1 : pr1.op = op1 := Clean2Complete.prog_op env pat1 op1 mp fl false hc1
  have hop2 : pr2.op = op2 := Clean2Complete.prog_op env pat2 op2 mp fl false hc2
  have hctx : pr1.ctx lower input = pr2.ctx lower input := CaseE.ctx_eq' pat1 pat2 op1 op2 mp fl false lower input
  have hcb : (pr2.ctx lower input).caseBlind = true := by
    show (mkProgram pat2 op2 mp fl false).caseBlind = true
    rw [(mkProgram_shape pat2 op2 mp fl false).2.1]; exact hi
  have hL : ∀ p q, OpR (pr1.ctx lower input) pr1.op p q ↔ OpR (pr2.ctx lower input) pr2.op p q := by
    intro p q
    rw [hctx, hop1, hop2]
    exact OpR_pattern_case_invariant (pr2.ctx lower input) hcb op1 op2 he p q
  have hE : ∀ j, (enum2 (pr1.ctx lower input) pr1.op j).head? = (enum2 (pr2.ctx lower input) pr2.op j).head? := by
    intro j
    rw [hctx, hop1, hop2, enum2_pattern_case_invariant (pr2.ctx lower input) hcb op1 op2 he j]
  refine ⟨CaseE.isMatch_agree hL rfl
    (Clean2Complete.clean2_isMatch_ok env pat1 op1 mp fl lower input hI hc1 hwf1 hne1 hcan1 hlen)
    (Clean2Complete.clean2_isMatch_ok env pat2 op2 mp fl lower input hI hc2 hwf2 hne2 hcan2 hlen), ?_⟩
  intro i hii st1 st2 h1 h2
  have hb := CaseE.found_agree hL rfl
    (Clean2Complete.clean2_matchesFrom_iff env pat1 op1 mp fl lower input hI hc1 hwf1 hne1 hcan1 hlen i hii st1 h1).1
    (Clean2Complete.clean2_matchesFrom_iff env pat2 op2 mp fl lower input hI hc2 hwf2 hne2 hcan2 hlen i hii st2 h2).1
  refine ⟨hb, fun hcp1 hcp2 ht => ?_⟩
  obtain ⟨j1, n1, a1, b1, c1, d1, _, _, e1, f1⟩ :=
    Clean2Complete.clean2_match_is_leftmost_first env pat1 op1 mp fl lower input hI hc1 hwf1 hne1 hcan1 hcp1 hlen
      i hii st1 (matchesFrom (pr1.ctx lower input) pr1 i st1).2 h1 (Prod.ext ht rfl)
  obtain ⟨j2, n2, a2, b2, c2, d2, _, _, e2, f2⟩ :=
    Clean2Complete.clean2_match_is_leftmost_first env pat2 op2 mp fl lower input hI hc2 hwf2 hne2 hcan2 hcp2 hlen
      i hii st2 (matchesFrom (pr2.ctx lower input) pr2 i st2).2 h2 (Prod.ext (hb ▸ ht) rfl)
  exact CaseE.Reports.agree hL hE ⟨j1, n1, a1, b1, c1, d1, e1, f1⟩ ⟨j2, n2, a2, b2, c2, d2, e2, f2⟩

/-! ## 5. the real tables (`cleanOp` fragment, alphabet without U+0130) -/

/-- **`is_match` under flag i against the real ICU tables**: for a clean tree whose classes pass the
    decidable check, the answer is the same on case-equivalent inputs that avoid U+0130 -/
theorem clean_isMatch_case_invariant_std (pat : List Nat) (op : Op) (mp : Nat) (fl : CFlags)
    (xs ys : List Nat) (hi : fl.caseBlind = true)
    (hc : cleanOp op = true) (hwf : wfOp op = true) (hne : noEmptyAtoms op = true)
    (hchk : allClsB (clsClosedOnB notDottedI) op = true)
    (hin : CaseEquivInputs Env.std.lower xs ys) (hx : Over notDottedI xs) (hy : Over notDottedI ys)
    (hlen : xs.length < usizeMax) :
    (mkProgram pat op mp fl false).isMatch Env.std.lower xs = (mkProgram pat op mp fl false).isMatch Env.std.lower ys :=
  clean_isMatch_case_invariant notDottedI pat op mp fl Env.std.lower xs ys hi hc hwf hne
    (allClsClosedOn_of_check notDottedI op hchk) newlineCaseless_std hin hx hy hlen

/-- … and so are the Boolean of `matches(i)` and the span of group 0 -/
theorem clean_span_case_invariant_std (pat : List Nat) (op : Op) (mp : Nat) (fl : CFlags)
    (xs ys : List Nat) (hi : fl.caseBlind = true)
    (hc : cleanOp op = true) (hwf : wfOp op = true) (hne : noEmptyAtoms op = true)
    (hchk : allClsB (clsClosedOnB notDottedI) op = true)
    (hin : CaseEquivInputs Env.std.lower xs ys) (hx : Over notDottedI xs) (hy : Over notDottedI ys)
    (hlen : xs.length < usizeMax)
    (i : Nat) (hix : i ≤ xs.length) (st1 st2 : St) (h1 : st1.panic = none) (h2 : st2.panic = none) :
    let pr := mkProgram pat op mp fl false
    (matchesFrom (pr.ctx Env.std.lower xs) pr i st1).1 = (matchesFrom (pr.ctx Env.std.lower ys) pr i st2).1 ∧
    (C02.capsPos op = true → (matchesFrom (pr.ctx Env.std.lower xs) pr i st1).1 = true →
      getParenStart (matchesFrom (pr.ctx Env.std.lower xs) pr i st1).2 0 =
        getParenStart (matchesFrom (pr.ctx Env.std.lower ys) pr i st2).2 0 ∧
      getParenEnd (matchesFrom (pr.ctx Env.std.lower xs) pr i st1).2 0 =
        getParenEnd (matchesFrom (pr.ctx Env.std.lower ys) pr i st2).2 0) :=
  clean_span_case_invariant notDottedI pat op mp fl Env.std.lower xs ys hi hc hwf hne
    (allClsClosedOn_of_check notDottedI op hchk) newlineCaseless_std hin hx hy hlen i hix st1 st2 h1 h2

/-- lower-casing the whole input (real tables; `lower` is idempotent, `EnvStd.lower_idem_std`) -/
theorem clean_isMatch_lowercased_std (pat : List Nat) (op : Op) (mp : Nat) (fl : CFlags)
    (xs : List Nat) (hi : fl.caseBlind = true)
    (hc : cleanOp op = true) (hwf : wfOp op = true) (hne : noEmptyAtoms op = true)
    (hchk : allClsB (clsClosedOnB notDottedI) op = true)
    (hx : Over notDottedI xs) (hy : Over notDottedI (xs.map Env.std.lower)) (hlen : xs.length < usizeMax) :
    (mkProgram pat op mp fl false).isMatch Env.std.lower xs =
      (mkProgram pat op mp fl false).isMatch Env.std.lower (xs.map Env.std.lower) :=
  clean_isMatch_case_invariant_std pat op mp fl xs _ hi hc hwf hne hchk
    (EnvStd.caseEquiv_map_lower_std xs) hx hy hlen

/-! ## 6. "everything that matches without i still matches with it"

  For a FIXED tree the language can only grow when flag i is switched on — for every tree, classes
  included, because a class node is a set and does not read the flag.  The sentence fails for PATTERNS:
  the compiler builds a different class under i (closure first, complement after), so `[^a]` loses
  `A` (finding K7 / 21, mandated by F&O §5.6.1.1).  For patterns made of literals only the compiled
  tree does not depend on the flag and the theorem applies as it stands. -/

mutual
theorem mono_op (ctx : Ctx) (hcb : ctx.caseBlind = false) :
    (op : Op) → ∀ p q, OpR ctx op p q → OpR { ctx with caseBlind := true } op p q
  | .bol, p, q, h => by simp only [OpR, Ctx.len] at h ⊢; exact h
  | .eol, p, q, h => by simp only [OpR, Ctx.len] at h ⊢; exact h
  | .nothing, p, q, h => by simp only [OpR] at h ⊢; exact h
  | .endProgram, p, q, h => by simp only [OpR] at h ⊢; exact h
  | .atom cs, p, q, h => by
    simp only [OpR, Ctx.len] at h ⊢
    exact ⟨h.1, h.2.1, CaseE.prefixMatch_mono_i ctx hcb cs _ h.2.2⟩
  | .cls rs, p, q, h => by simp only [OpR] at h ⊢; exact h
  | .backref _, p, q, h => by simp only [OpR, Ctx.len] at h ⊢; exact h
  | .capture _ c, p, q, h => by
    simp only [OpR] at h ⊢
    exact mono_op ctx hcb c p q h
  | .choice bs, p, q, h => by
    simp only [OpR] at h ⊢
    exact mono_any ctx hcb bs p q h
  | .seq ops, p, q, h => by
    simp only [OpR] at h ⊢
    exact mono_seq ctx hcb ops p q h
  | .rep _ c mn mx _, p, q, h => by
    simp only [OpR] at h ⊢
    obtain ⟨k, h1, h2, hi⟩ := h
    exact ⟨k, h1, h2, CaseL.IterR_mono (fun a b => mono_op ctx hcb c a b) hi⟩
  | .gfixed c mn mx _, p, q, h => by
    simp only [OpR] at h ⊢
    obtain ⟨k, h1, h2, hi⟩ := h
    exact ⟨k, h1, h2, CaseL.IterR_mono (fun a b => mono_op ctx hcb c a b) hi⟩
  | .rfixed c mn mx _, p, q, h => by
    simp only [OpR] at h ⊢
    obtain ⟨k, h1, h2, hi⟩ := h
    exact ⟨k, h1, h2, CaseL.IterR_mono (fun a b => mono_op ctx hcb c a b) hi⟩
  | .unamb c mn mx, p, q, h => by
    simp only [OpR] at h ⊢
    obtain ⟨k, h1, h2, hi⟩ := h
    exact ⟨k, h1, h2, CaseL.IterR_mono (fun a b => mono_op ctx hcb c a b) hi⟩
theorem mono_any (ctx : Ctx) (hcb : ctx.caseBlind = false) :
    (bs : List Op) → ∀ p q, OpRAny ctx bs p q → OpRAny { ctx with caseBlind := true } bs p q
  | [], p, q, h => by simp only [OpRAny] at h
  | b :: bs, p, q, h => by
    simp only [OpRAny] at h ⊢
    exact h.imp (mono_op ctx hcb b p q) (mono_any ctx hcb bs p q)
theorem mono_seq (ctx : Ctx) (hcb : ctx.caseBlind = false) :
    (ops : List Op) → ∀ p q, OpRSeq ctx ops p q → OpRSeq { ctx with caseBlind := true } ops p q
  | [], p, q, h => by simp only [OpRSeq] at h ⊢; exact h
  | o :: os, p, q, h => by
    simp only [OpRSeq] at h ⊢
    obtain ⟨m, h1, h2⟩ := h
    exact ⟨m, mono_op ctx hcb o p m h1, mono_seq ctx hcb os m q h2⟩
end

/-- **monotonicity in flag i for a fixed tree**: every span of the language without i is a span of
    the language with i -/
theorem OpR_mono_flag_i (ctx : Ctx) (hcb : ctx.caseBlind = false) (op : Op) (p q : Nat)
    (h : OpR ctx op p q) : OpR { ctx with caseBlind := true } op p q :=
  mono_op ctx hcb op p q h

/-- the sentence for patterns … -/
def matches_without_i_matches_with_i : Prop :=
  ∀ (pat input : List Nat) (pr pri : Prog),
    compileCore Env.std {} pat true = .ok pr → compileCore Env.std { caseBlind := true } pat true = .ok pri →
    pr.isMatch Env.std.lower input = .ok true → pri.isMatch Env.std.lower input = .ok true

/-- what the compiler builds for `[^a]` without and with flag i, and what `is_match` answers on "A" -/
theorem negated_class_computed :
    (match compileCore Env.std {} [91, 94, 97, 93] true with
      | .ok pr => (clsList pr.op == [[(0, 97), (98, 1114112)]]) && (pr.isMatch Env.std.lower [65] == .ok true)
      | _ => false) = true ∧
    (match compileCore Env.std { caseBlind := true } [91, 94, 97, 93] true with
      | .ok pr => (clsList pr.op == [[(0, 65), (66, 97), (98, 1114112)]]) && (pr.isMatch Env.std.lower [65] == .ok false)
      | _ => false) = true := by decide +kernel

/-- … is false with a negated class: `[^a]` matches "A" without i and not with i (K7) -/
theorem negated_class_not_monotone : ¬ matches_without_i_matches_with_i := by
  intro h
  obtain ⟨h1, h2⟩ := negated_class_computed
  cases hc1 : compileCore Env.std {} [91, 94, 97, 93] true with
  | ok pr =>
    cases hc2 : compileCore Env.std { caseBlind := true } [91, 94, 97, 93] true with
    | ok pri =>
      rw [hc1] at h1
      rw [hc2] at h2
      simp only [Bool.and_eq_true, beq_iff_eq] at h1 h2
      have := h _ [65] pr pri hc1 hc2 h1.2
      rw [h2.2] at this
      cases this
    | err e => rw [hc2] at h2; cases h2
    | panic c => rw [hc2] at h2; cases h2
    | diverge => rw [hc2] at h2; cases h2
  | err e => rw [hc1] at h1; cases h1
  | panic c => rw [hc1] at h1; cases h1
  | diverge => rw [hc1] at h1; cases h1

/-! ## 7. non-vacuity: `[a-k]x` compiled under flag i against the real tables, "HIx" / "hiX" -/

/-- a successful compilation without back-references is `mkProgram` of a tree that inherits the
    decidable facts checked on the program's tree -/
theorem compile_clean (env : Env) (fl : CFlags) (pat : List Nat) (pr : Prog)
    (h : compileCore env fl pat true = .ok pr) (hnb : pr.hasBackrefs = false)
    (hc : cleanOp pr.op = true) (hwf : wfOp pr.op = true) (hne : noEmptyAtoms pr.op = true)
    (hcp : C02.capsPos pr.op = true) :
    ∃ op mp, pr = mkProgram pat op mp fl false ∧ pr.op = op ∧ cleanOp op = true ∧ wfOp op = true ∧
      noEmptyAtoms op = true ∧ C02.capsPos op = true := by
  obtain ⟨op, mp, hb, heq⟩ := CleanComplete.compile_is_mkProgram env fl pat pr h
  obtain ⟨hop, hhb⟩ := WF.mkProgram_op pat op mp fl hb
  subst heq
  rw [hhb] at hnb
  subst hnb
  rw [hop] at hc hwf hne hcp
  rw [SearchComplete.cleanOp_numberReps] at hc
  rw [WF.wfOp_numberReps] at hwf
  rw [WF.capsPos_numberReps] at hcp
  rw [ApiL.noEmptyAtoms_numberReps] at hne
  exact ⟨op, mp, rfl, CaseE.mkProgram_op_clean pat op mp fl false hc, hc, hwf, hne, hcp⟩

def exFlags : CFlags := { caseBlind := true }
/-- `[a-k]x` -/
def exPat : List Nat := [91, 97, 45, 107, 93, 120]
/-- "HIx" and "hiX" -/
def exUpper : List Nat := [72, 73, 120]
def exLower : List Nat := [104, 105, 88]

/-- the compiled program is in the `cleanOp` fragment (its tree is `[A-Ka-kK] · x · End`) and meets
    every decidable hypothesis, on the alphabet without U+0130 -/
theorem ex_facts :
    (match compileCore Env.std exFlags exPat true with
      | .ok pr => !pr.hasBackrefs && cleanOp pr.op && wfOp pr.op && noEmptyAtoms pr.op && C02.capsPos pr.op &&
          allClsB (clsClosedOnB notDottedI) pr.op && (clsList pr.op == [[(65, 76), (97, 108), (8490, 8491)]])
      | _ => false) = true := by decide +kernel

theorem ex_inputs : CaseEquivInputs Env.std.lower exUpper exLower ∧ Over notDottedI exUpper ∧ Over notDottedI exLower := by
  refine ⟨.cons (by decide +kernel) (.cons (by decide +kernel) (.cons (by decide +kernel) (.nil _))), ?_, ?_⟩ <;>
    intro x hx <;> simp only [exUpper, exLower, List.mem_cons, List.not_mem_nil, or_false] at hx <;>
    rcases hx with rfl | rfl | rfl <;> decide

/-- the theorems applied to the compiled program: same `is_match` answer and same reported span on
    "HIx" and "hiX" … -/
theorem ex_invariant (pr : Prog) (hpr : compileCore Env.std exFlags exPat true = .ok pr) :
    pr.isMatch Env.std.lower exUpper = pr.isMatch Env.std.lower exLower ∧
    (matchesFrom (pr.ctx Env.std.lower exUpper) pr 0 {}).1 = (matchesFrom (pr.ctx Env.std.lower exLower) pr 0 {}).1 ∧
    ((matchesFrom (pr.ctx Env.std.lower exUpper) pr 0 {}).1 = true →
      getParenStart (matchesFrom (pr.ctx Env.std.lower exUpper) pr 0 {}).2 0 =
        getParenStart (matchesFrom (pr.ctx Env.std.lower exLower) pr 0 {}).2 0 ∧
      getParenEnd (matchesFrom (pr.ctx Env.std.lower exUpper) pr 0 {}).2 0 =
        getParenEnd (matchesFrom (pr.ctx Env.std.lower exLower) pr 0 {}).2 0) := by
  have hf := ex_facts
  rw [hpr] at hf
  simp only [Bool.and_eq_true, Bool.not_eq_true'] at hf
  obtain ⟨⟨⟨⟨⟨⟨hnb, hc⟩, hwf⟩, hne⟩, hcp⟩, hchk⟩, _⟩ := hf
  obtain ⟨op, mp, heq, hop, hc', hwf', hne', hcp'⟩ := compile_clean Env.std exFlags exPat pr hpr hnb hc hwf hne hcp
  rw [hop] at hchk
  obtain ⟨hin, hx, hy⟩ := ex_inputs
  subst heq
  have hs := clean_span_case_invariant_std exPat op mp exFlags exUpper exLower rfl hc' hwf' hne' hchk hin hx hy
    (by decide) 0 (Nat.zero_le _) {} {} rfl rfl
  exact ⟨clean_isMatch_case_invariant_std exPat op mp exFlags exUpper exLower rfl hc' hwf' hne' hchk hin hx hy
    (by decide), hs.1, hs.2 hcp'⟩

/-- … and the computed values agree with the prediction: both `.ok true`, both spans `(1, 3)` -/
theorem ex_computed :
    (match compileCore Env.std exFlags exPat true with
      | .ok pr =>
        (pr.isMatch Env.std.lower exUpper == .ok true) && (pr.isMatch Env.std.lower exLower == .ok true) &&
        (getParenStart (matchesFrom (pr.ctx Env.std.lower exUpper) pr 0 {}).2 0 == some 1) &&
        (getParenEnd (matchesFrom (pr.ctx Env.std.lower exUpper) pr 0 {}).2 0 == some 3) &&
        (getParenStart (matchesFrom (pr.ctx Env.std.lower exLower) pr 0 {}).2 0 == some 1) &&
        (getParenEnd (matchesFrom (pr.ctx Env.std.lower exLower) pr 0 {}).2 0 == some 3)
      | _ => false) = true := by decide +kernel

end Rx.C11c
