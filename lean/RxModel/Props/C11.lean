/-
  Props/C11 — flag i makes matching case-insensitive, and only flag i does.
-/
import RxModel.Model.Compile
import RxModel.Props.C09
import RxModel.Proofs.LeafLemmas
namespace Rx.C11
open Rx

/-- `equal_case_blind` is "equal after simple lower-casing" … -/
theorem eqCB_iff (lower : Nat → Nat) (a b : Nat) : eqCB lower a b = true ↔ lower a = lower b ∨ a = b := by
  simp [eqCB, or_comm]

theorem eqCB_iff_lower (lower : Nat → Nat) (a b : Nat) : eqCB lower a b = true ↔ lower a = lower b := by
  rw [eqCB_iff]
  constructor
  · rintro (h | h)
    · exact h
    · rw [h]
  · exact Or.inl

/-- … hence an equivalence relation -/
theorem eqCB_refl (lower : Nat → Nat) (a : Nat) : eqCB lower a a = true := by
  simp [eqCB]
theorem eqCB_symm (lower : Nat → Nat) (a b : Nat) : eqCB lower a b = eqCB lower b a := by
  rw [Bool.eq_iff_iff, eqCB_iff_lower, eqCB_iff_lower]; exact eq_comm
theorem eqCB_trans (lower : Nat → Nat) (a b c : Nat) (h1 : eqCB lower a b = true) (h2 : eqCB lower b c = true) :
    eqCB lower a c = true := by
  rw [eqCB_iff_lower] at *; exact h1.trans h2

/-- a character and its simple lower-case counterpart are interchangeable, in the input or in the pattern -/
theorem eqCB_lower_left (lower : Nat → Nat) (hidem : ∀ x, lower (lower x) = lower x) (a b : Nat) :
    eqCB lower (lower a) b = eqCB lower a b := by
  rw [Bool.eq_iff_iff, eqCB_iff_lower, eqCB_iff_lower, hidem]

/-- without flag i a literal matches only the identical characters -/
theorem atom_exact (ctx : Ctx) (hcb : ctx.caseBlind = false) (cs xs : List Nat) :
    prefixMatch ctx cs xs = true ↔ cs <+: xs := by
  induction cs generalizing xs with
  | nil => simp [prefixMatch]
  | cons c cs ih =>
    cases xs with
    | nil => simp [prefixMatch]
    | cons x xs =>
      simp only [prefixMatch, Ctx.eqAt, hcb, Bool.false_eq_true, if_false, Bool.and_eq_true,
        beq_iff_eq, ih, List.cons_prefix_cons]
      constructor <;> rintro ⟨h1, h2⟩ <;> exact ⟨h1.symm, h2⟩

/-- with flag i a literal matches character by character up to case -/
theorem atom_ci (ctx : Ctx) (hcb : ctx.caseBlind = true) (cs xs : List Nat) :
    prefixMatch ctx cs xs = true ↔
      cs.length ≤ xs.length ∧ ∀ k (hk : k < cs.length) (hx : k < xs.length), eqCB ctx.lower xs[k] cs[k] = true := by
  exact Leaf.prefixMatch_ci ctx hcb cs xs

/-- the literal generator: yields `p + |cs|` exactly when the characters at `p` match, state untouched -/
theorem atomGen_spec (ctx : Ctx) (cs : List Nat) (p : Nat) (st : St) :
    atomGen ctx cs p st =
      if p + cs.length ≤ ctx.len ∧ prefixMatch ctx cs (ctx.input.drop p) = true
      then Step.once (p + cs.length) st else Step.nil st := by
  unfold atomGen
  by_cases h : p + cs.length ≤ ctx.len
  · have : ¬ (p + cs.length > ctx.len) := by omega
    simp [h, this]
  · have : (p + cs.length > ctx.len) := by omega
    simp [h, this]

/-- replacing input characters by case counterparts does not change what a literal matches -/
theorem atom_input_case_invariant (ctx : Ctx) (hcb : ctx.caseBlind = true) (cs xs ys : List Nat)
    (hlen : xs.length = ys.length)
    (hcase : ∀ k (h1 : k < xs.length) (h2 : k < ys.length), ctx.lower xs[k] = ctx.lower ys[k]) :
    prefixMatch ctx cs xs = prefixMatch ctx cs ys := by
  rw [Bool.eq_iff_iff, atom_ci ctx hcb, atom_ci ctx hcb]
  simp only [eqCB_iff_lower]
  constructor
  · rintro ⟨hl, h⟩
    exact ⟨by omega, fun k hk hx => by rw [← hcase k (by omega) hx]; exact h k hk (by omega)⟩
  · rintro ⟨hl, h⟩
    exact ⟨by omega, fun k hk hx => by rw [hcase k hx (by omega)]; exact h k hk (by omega)⟩

/-- … nor does replacing pattern letters -/
theorem atom_pattern_case_invariant (ctx : Ctx) (hcb : ctx.caseBlind = true) (cs ds xs : List Nat)
    (hlen : cs.length = ds.length)
    (hcase : ∀ k (h1 : k < cs.length) (h2 : k < ds.length), ctx.lower cs[k] = ctx.lower ds[k]) :
    prefixMatch ctx cs xs = prefixMatch ctx ds xs := by
  rw [Bool.eq_iff_iff, atom_ci ctx hcb, atom_ci ctx hcb]
  simp only [eqCB_iff_lower]
  constructor
  · rintro ⟨hl, h⟩
    exact ⟨by omega, fun k hk hx => by rw [← hcase k (by omega) hk]; exact h k (by omega) hx⟩
  · rintro ⟨hl, h⟩
    exact ⟨by omega, fun k hk hx => by rw [hcase k hk (by omega)]; exact h k (by omega) hx⟩

/-- a class member under flag i: the character itself and its whole case closure -/
theorem class_member_ci (c : PC) (ch : Nat) (rs : Ranges) (hc : C09.Canon rs) (x : Nat) :
    clsContains (addCharCI c ch rs) x =
      (decide (x = ch) || (c.fl.caseBlind && (c.env.closure ch).contains x) || clsContains rs x) := by
  have h0 := Leaf.sorted_of_canon hc
  have h1 := Leaf.sorted_contains_addChar rs h0 ch x
  have h2 := Leaf.sorted_addChar rs h0 ch
  unfold addCharCI
  cases hcb : c.fl.caseBlind with
  | false => simp [h1]
  | true =>
    simp only [if_true, Bool.true_and]
    rw [(Leaf.addChars_spec _ _ h2 x).1, h1]
    grind

/-- class escapes and the category / block escapes do not look at flag i -/
theorem escape_ignores_i (c : PC) (b : Bool) (s : PS) (inBr : Bool) :
    escape { c with fl := { c.fl with caseBlind := b } } s inBr = escape c s inBr := by
  exact Leaf.escape_fl c { c.fl with caseBlind := b } rfl s inBr

/-- the dot does not look at flag i -/
theorem dot_ignores_i (c : PC) (b : Bool) (f : Nat) (s : PS) (h : c.at s.idx = 46) :
    parseTerminal { c with fl := { c.fl with caseBlind := b } } (f + 1) s = parseTerminal c (f + 1) s := by
  have h' : PC.at { c with fl := { c.fl with caseBlind := b } } s.idx = 46 := h
  rw [parseTerminal, parseTerminal]
  simp [h, h']

end Rx.C11
