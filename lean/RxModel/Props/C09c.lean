/-
  Props/C09c — the class parser builds the denoted set, for the FULL class grammar (case-sensitive):
  plain and escaped single characters, ranges with plain or escaped end points, literal hyphens in
  the positions the parser allows, class escapes `\d \D \s \S \w \W \i \I \c \C \p{..} \P{..}`,
  negation `[^…]` and (nested) subtraction `[A-[B]]`, `[^A-[B]]` = complement(A) minus B.

  `parse_character_class` (`parseClass`) applied to the rendered text of a well-formed class
  expression `e` returns exactly the inversion list `e.denote` — (characters ∪ class escapes),
  complemented for `^`, minus the subtrahend — consumes exactly the expression, and that list is
  canonical and contains `x` iff `x` is a member in the set-algebra reading `e.Member`.

  Syntax and denotation are defined in `Proofs/ClassFullLemmas.lean` (so that the lemmas can
  mention them):

     inductive Single | plain (x : Nat) | esc (e : Nat)          -- `x`, `\e`
       plainC x        := x ∉ { `\`, `[`, `]`, `-` }
       escSingleOk xsd e := e ∈ { n r t \ | . - ^ ? * + { } ( ) [ ] }  or  (e = `$` and not xsd)
       Single.val      := the character (`\n` ↦ 10, `\r` ↦ 13, `\t` ↦ 9, otherwise `e`)

     inductive Item
       | one (a : Single) | range (a b : Single) | hyphen
       | cls (e : Nat)                      -- e ∈ { s S i I c C d D w W }
       | prop (pos : Bool) (name : List Nat)  -- `\p{name}` / `\P{name}`, `name` without `}`,
                                              --   `propLookup env name` defined
       Item.ok: end points well-formed, `a.val ≤ b.val`, characters below `cpLimit`
       adjOk / itemsOk: no two hyphens in a row; a hyphen directly after a single character is the
         last member.  (So `-` is a literal as first member `[-a]`, as last member `[a-]`,
         `[a--[b]]`, and — parser leniency — after a range or class escape: `[a-z-9]`, `[\d-x]`.)

     inductive CExpr | leaf (neg) (items) | minus (neg) (items) (sub : CExpr)
       CExpr.ok: members non-empty and `itemsOk`; a positive class does not begin with `^`
       CExpr.render: `[`, `^`?, members, (`-` render sub)?, `]`
       CExpr.denote env: ClsSt.finish of { positive := !neg, builder := chars/ranges added left to
         right with addChar/addRange, addend := class-escape sets joined left to right with unionR,
         subtrahend := sub.denote }
         = diffR (if neg then complR U else U) (sub.denote),  U = unionR builder addend
-/
import RxModel.Model.Parser
import RxModel.Props.C09
import RxModel.Proofs.ClassFullLemmas
namespace Rx.C09
open Rx

/-! ### the set-algebra reading -/

/-- `x` is matched by one member.  The class escapes are read through the environment's tables:
    the lower-case letter is the table, the upper-case letter its complement. -/
def Item.Mem (env : Env) (x : Nat) : Item → Prop
  | .one a => x = a.val
  | .range a b => a.val ≤ x ∧ x ≤ b.val
  | .hyphen => x = 45
  | .cls e => clsContains (clsBase env e) x = clsPos e
  | .prop pos name => ∃ rs, propLookup env name = some rs ∧ clsContains rs x = pos

/-- (member of some item) XOR negated, and not a member of the subtrahend -/
def CExpr.Member (env : Env) (x : Nat) : CExpr → Prop
  | .leaf neg items => ((∃ i ∈ items, i.Mem env x) ↔ neg = false)
  | .minus neg items sub => ((∃ i ∈ items, i.Mem env x) ↔ neg = false) ∧ ¬ sub.Member env x

theorem Item.mem_iff (env : Env) (x : Nat) (i : Item) : i.mem env x = true ↔ i.Mem env x := by
  cases i with
  | one a => simp [Item.mem, Item.Mem]
  | range a b => simp [Item.mem, Item.Mem]
  | hyphen => simp [Item.mem, Item.Mem]
  | cls e =>
    simp only [Item.mem, Item.Mem]
    cases clsPos e <;> cases clsContains (clsBase env e) x <;> simp
  | prop pos name =>
    simp only [Item.mem, Item.Mem]
    cases propLookup env name with
    | none => simp
    | some rs => cases pos <;> cases clsContains rs x <;> simp

theorem items_any_iff (env : Env) (x : Nat) (items : List Item) :
    items.any (Item.mem env x) = true ↔ ∃ i ∈ items, i.Mem env x := by
  rw [List.any_eq_true]
  constructor
  · rintro ⟨i, hi, h⟩; exact ⟨i, hi, (Item.mem_iff env x i).1 h⟩
  · rintro ⟨i, hi, h⟩; exact ⟨i, hi, (Item.mem_iff env x i).2 h⟩

theorem xor_iff (a neg : Bool) : (a ^^ neg) = true ↔ (a = true ↔ neg = false) := by
  cases a <;> cases neg <;> simp

/-- the Boolean and the propositional readings agree -/
theorem CExpr.mem_iff (env : Env) (x : Nat) (e : CExpr) : e.mem env x = true ↔ e.Member env x := by
  induction e with
  | leaf neg items =>
    simp only [CExpr.mem, CExpr.Member, xor_iff, items_any_iff]
  | minus neg items sub ih =>
    simp only [CExpr.mem, CExpr.Member, Bool.and_eq_true, xor_iff, items_any_iff,
      Bool.not_eq_true', ← ih]
    cases CExpr.mem env x sub <;> simp

/-! ### the parser is correct on every well-formed class expression -/

/-- literal form: the parser returns exactly `e.denote` and consumes exactly `e.render`.
    Fuel: one unit per character of the expression is enough. -/
theorem parse_class_denote (c : PC) (hci : c.fl.caseBlind = false) (e : CExpr)
    (hok : e.ok c.fl.xsd c.env = true) (s : PS) (rest : List Nat)
    (hpat : c.pat.drop s.idx = e.render ++ rest) (fuel : Nat) (hfuel : e.render.length ≤ fuel) :
    parseClass c fuel s = .ok (e.denote c.env) { s with idx := s.idx + e.render.length } :=
  parseClass_render hci e s rest fuel hok hpat hfuel

/-- `e.denote` is the set algebra: canonical, and `x` is in it iff `x` is (a member of some item
    XOR the class is negated) and not in the subtrahend -/
theorem denote_member (env : Env) (henv : EnvCanon env) (xsd : Bool) (e : CExpr)
    (hok : e.ok xsd env = true) :
    Canon (e.denote env) ∧
      ∀ x, x < cpLimit → (clsContains (e.denote env) x = true ↔ e.Member env x) := by
  refine ⟨(denote_spec henv 0 (by decide) e hok).1, ?_⟩
  intro x hx
  rw [(denote_spec henv x hx e hok).2]
  exact CExpr.mem_iff env x e

/-- the same with `diffR`/`complR` spelled out on the members' union `U` -/
theorem denote_eq (env : Env) (neg : Bool) (items : List Item) (sub : CExpr) :
    let k := items.foldl (Item.step env) { positive := !neg }
    let U := match k.addend with | some a => unionR k.builder a | none => k.builder
    (CExpr.leaf neg items).denote env = (if neg then complR U else U) ∧
    (CExpr.minus neg items sub).denote env = diffR (if neg then complR U else U) (sub.denote env) := by
  have hp := (foldl_step_fields env items { positive := !neg }).2.2.1
  have hs := (foldl_step_fields env items { positive := !neg }).2.2.2
  simp only [CExpr.denote, ClsSt.finish, hp, hs]
  cases neg <;> exact ⟨rfl, rfl⟩

/-- MAIN THEOREM.  If the pattern text at `s.idx` is the rendering of a well-formed class
    expression, `parse_character_class` succeeds, consumes exactly the expression, and the
    resulting class is the canonical inversion list of the denoted set. -/
theorem parse_class_full (c : PC) (hci : c.fl.caseBlind = false) (henv : EnvCanon c.env) (e : CExpr)
    (hok : e.ok c.fl.xsd c.env = true) (s : PS) (rest : List Nat)
    (hpat : c.pat.drop s.idx = e.render ++ rest) (fuel : Nat) (hfuel : e.render.length ≤ fuel) :
    ∃ R, parseClass c fuel s = .ok R { s with idx := s.idx + e.render.length } ∧
      R = e.denote c.env ∧ Canon R ∧
      ∀ x, x < cpLimit → (clsContains R x = true ↔ e.Member c.env x) := by
  obtain ⟨h1, h2⟩ := denote_member c.env henv c.fl.xsd e hok
  exact ⟨_, parse_class_denote c hci e hok s rest hpat fuel hfuel, rfl, h1, h2⟩

/-- the fuel `parse_terminal` passes (`c.len + 2`) is always enough -/
theorem parse_class_full_terminal (c : PC) (hci : c.fl.caseBlind = false) (e : CExpr)
    (hok : e.ok c.fl.xsd c.env = true) (s : PS) (rest : List Nat)
    (hpat : c.pat.drop s.idx = e.render ++ rest) :
    parseClass c (c.len + 2) s = .ok (e.denote c.env) { s with idx := s.idx + e.render.length } := by
  apply parse_class_denote c hci e hok s rest hpat
  have := drop_len hpat
  simp only [List.length_append] at this
  omega

/-! ### the two dialects

  The only place where the dialect (`c.fl.xsd`) enters the class parser is the escape `\$`: it is a
  single-character escape in the XPath dialect and a syntax error in the XSD dialect.  A class
  expression that is well-formed for XSD is well-formed for XPath and parses to the same list. -/

theorem Single.ok_xsd_iff (a : Single) :
    a.ok true = true ↔ (a.ok false = true ∧ a ≠ .esc 36) := by
  cases a with
  | plain x => simp [Single.ok]
  | esc e =>
    by_cases h : e = 36
    · subst h; decide
    · simp [Single.ok, escSingleOk, h]

theorem Single.ok_mono {a : Single} (h : a.ok true = true) (xsd : Bool) : a.ok xsd = true := by
  cases xsd
  · exact ((Single.ok_xsd_iff a).1 h).1
  · exact h

theorem Item.ok_mono {env : Env} {i : Item} (h : i.ok true env = true) (xsd : Bool) :
    i.ok xsd env = true := by
  cases i with
  | one a =>
    simp only [Item.ok, Bool.and_eq_true] at h ⊢
    exact ⟨Single.ok_mono h.1 xsd, h.2⟩
  | range a b =>
    simp only [Item.ok, Bool.and_eq_true] at h ⊢
    exact ⟨⟨⟨Single.ok_mono h.1.1.1 xsd, Single.ok_mono h.1.1.2 xsd⟩, h.1.2⟩, h.2⟩
  | hyphen => rfl
  | cls e => exact h
  | prop pos name => exact h

theorem itemsOk_mono {env : Env} : ∀ {items : List Item}, itemsOk true env items = true →
    ∀ xsd, itemsOk xsd env items = true := by
  intro items
  induction items with
  | nil => intro _ _; rfl
  | cons i more ih =>
    intro h xsd
    simp only [itemsOk, Bool.and_eq_true] at h ⊢
    exact ⟨⟨Item.ok_mono h.1.1 xsd, h.1.2⟩, ih h.2 xsd⟩

theorem CExpr.ok_mono {env : Env} : ∀ {e : CExpr}, e.ok true env = true → ∀ xsd, e.ok xsd env = true := by
  intro e
  induction e with
  | leaf neg items =>
    intro h xsd
    simp only [CExpr.ok, headOk, Bool.and_eq_true] at h ⊢
    exact ⟨⟨h.1.1, itemsOk_mono h.1.2 xsd⟩, h.2⟩
  | minus neg items sub ih =>
    intro h xsd
    simp only [CExpr.ok, headOk, Bool.and_eq_true] at h ⊢
    exact ⟨⟨⟨h.1.1.1, itemsOk_mono h.1.1.2 xsd⟩, h.1.2⟩, ih h.2 xsd⟩

/-- both dialects: an expression that is well-formed for XSD (no `\$`) parses, in either dialect,
    to the same inversion list -/
theorem parse_class_full_xsd_xpath (c : PC) (hci : c.fl.caseBlind = false) (henv : EnvCanon c.env)
    (e : CExpr) (hok : e.ok true c.env = true) (s : PS) (rest : List Nat)
    (hpat : c.pat.drop s.idx = e.render ++ rest) (fuel : Nat) (hfuel : e.render.length ≤ fuel) :
    parseClass c fuel s = .ok (e.denote c.env) { s with idx := s.idx + e.render.length } ∧
    Canon (e.denote c.env) ∧
    ∀ x, x < cpLimit → (clsContains (e.denote c.env) x = true ↔ e.Member c.env x) := by
  have hok' := CExpr.ok_mono hok c.fl.xsd
  obtain ⟨h1, h2⟩ := denote_member c.env henv c.fl.xsd e hok'
  exact ⟨parse_class_denote c hci e hok' s rest hpat fuel hfuel, h1, h2⟩

/-- where the dialect matters: `\$` is rejected by `escape` in the XSD dialect -/
theorem escape_dollar_xsd {c : PC} {s : PS} {tl : List Nat} (b : Bool) (hx : c.fl.xsd = true)
    (h : c.pat.drop s.idx = 92 :: 36 :: tl) : escape c s b = .err .syntax := by
  obtain ⟨hlt0, hat0, h1⟩ := drop_cons_facts h
  obtain ⟨hlt1, hat1, _⟩ := drop_cons_facts h1
  have c0 : (c.at s.idx != 92) = false := by simp [hat0]
  have c1 : ¬ (s.idx + 1 ≥ c.len) := by omega
  unfold escape
  simp [c0, c1, hat1, hx]

/-! ### rejections -/

/-- `[]`, `[^]`, `[-[…`, `[^-[…`: a class (or minuend) without members is a syntax error -/
theorem empty_class_rejected (c : PC) (fuel : Nat) (hf : 0 < fuel) (s : PS) (rest : List Nat)
    (h : c.pat.drop s.idx = 91 :: 93 :: rest ∨ c.pat.drop s.idx = 91 :: 94 :: 93 :: rest ∨
         c.pat.drop s.idx = 91 :: 45 :: 91 :: rest ∨ c.pat.drop s.idx = 91 :: 94 :: 45 :: 91 :: rest) :
    parseClass c fuel s = .err .syntax := by
  obtain ⟨f, rfl⟩ : ∃ f, fuel = f + 1 := ⟨fuel - 1, by omega⟩
  rcases h with h | h | h | h
  · exact parseClass_empty h
  · exact parseClass_neg_empty h
  · exact parseClass_sub_only h
  · exact parseClass_neg_sub_only h

/-- `[b-a…`, `[^b-a…` with the end points (plain or escaped) in the wrong order -/
theorem reversed_range_rejected (c : PC) (fuel : Nat) (hf : 4 ≤ fuel) (s : PS) (neg : Bool)
    (a b : Single) (rest : List Nat)
    (h : c.pat.drop s.idx = 91 :: ((if neg then [94] else []) ++ ((a.render ++ 45 :: b.render) ++ rest)))
    (ha : a.ok c.fl.xsd = true) (hb : b.ok c.fl.xsd = true) (hab : b.val < a.val)
    (h94 : neg = false → a ≠ .plain 94) :
    parseClass c fuel s = .err .syntax := by
  obtain ⟨f, rfl⟩ : ∃ f, fuel = f + 4 := ⟨fuel - 4, by omega⟩
  exact parseClass_reversed h ha hb hab h94

/-- a reversed range after any prefix of the member list: the loop fails (from any state outside a
    range) -/
theorem reversed_range_rejected_loop (c : PC) (f : Nat) (st : PS) (k : ClsSt) (a b : Single)
    (nxt : List Nat) (h : c.pat.drop st.idx = (a.render ++ 45 :: b.render) ++ nxt)
    (ha : a.ok c.fl.xsd = true) (hb : b.ok c.fl.xsd = true) (hab : b.val < a.val)
    (hk : k.definingRange = false) : classLoop c (f + 3) st k = .err .syntax :=
  classLoop_range_rev h ha hb hab hk

/-- unclosed class: the pattern ends at most one character after `[`, or the loop reaches the end
    of the pattern -/
theorem unclosed_class_rejected (c : PC) (f : Nat) :
    (∀ (s : PS) (tl : List Nat), c.pat.drop s.idx = 91 :: tl → tl.length ≤ 1 →
        parseClass c (f + 1) s = .err .syntax) ∧
    (∀ (st : PS) (k : ClsSt), st.idx = c.len → classLoop c (f + 1) st k = .err .syntax) :=
  ⟨fun _ _ h hl => parseClass_short h hl, fun _ _ h => classLoop_eof h⟩

/-- "and only these", structurally: whatever `parse_character_class` accepts (from any text, with
    any fuel) ends with a `]` strictly after the start and inside the pattern -/
theorem accepted_class_closed (c : PC) (fuel : Nat) (s s' : PS) (R : Ranges)
    (h : parseClass c fuel s = .ok R s') :
    s.idx < s'.idx ∧ s'.idx ≤ c.len ∧ c.at (s'.idx - 1) = 93 :=
  (class_ok_closes c fuel).1 s R s' h

/-- an unclosed class — no `]` anywhere from the `[` on — is never accepted -/
theorem unclosed_class_never_accepted (c : PC) (fuel : Nat) (s : PS)
    (h : 93 ∉ c.pat.drop s.idx) (R : Ranges) (s' : PS) : parseClass c fuel s ≠ .ok R s' := by
  intro hp
  obtain ⟨h1, h2, h3⟩ := accepted_class_closed c fuel s s' R hp
  exact h (mem_drop_of_at (j := s'.idx - 1) (by omega) (by omega) h3)

/-! ### non-vacuity: concrete class expressions against a small hand-made environment -/

/-- digits `0-9`; word characters `0-9A-Z_a-z`; name start `A-Za-z`; name characters `0-9A-Za-z`;
    category `L` = `A-Za-z`, category `Nd` = `0-9`; block `Basic` = 0..127 -/
def envT : Env :=
  { lower := id, closure := fun _ => [],
    category := fun n => if n = [76] then some [(65, 91), (97, 123)]
                         else if n = [78, 100] then some [(48, 58)] else none,
    block := fun n => if n = [66, 97, 115, 105, 99] then some [(0, 128)] else none,
    digit := [(48, 58)], word := [(48, 58), (65, 91), (95, 96), (97, 123)],
    nameStart := [(65, 91), (97, 123)], nameChar := [(48, 58), (65, 91), (97, 123)] }

theorem envT_canon : EnvCanon envT where
  digit := by simp [envT, Canon, cpLimit]
  word := by simp [envT, Canon, cpLimit]
  nameStart := by simp [envT, Canon, cpLimit]
  nameChar := by simp [envT, Canon, cpLimit]
  category := by
    intro n rs h
    simp only [envT] at h
    split at h
    · cases h; simp [Canon, cpLimit]
    · split at h
      · cases h; simp [Canon, cpLimit]
      · cases h
  block := by
    intro n rs h
    simp only [envT] at h
    split at h
    · cases h; simp [Canon, cpLimit]
    · cases h

/-- what the parser returns, in decidable form: the list and the new index, or the error -/
inductive Res where
  | ok (R : Ranges × Nat)
  | error (e : Err)
deriving DecidableEq, Repr

def resOf (r : PRes Ranges) : Res :=
  match r with
  | .ok R s => .ok (R, s.idx)
  | .err e => .error e

/-- the class parser on a whole pattern, XPath dialect -/
def run (pat : List Nat) : Res :=
  resOf (parseClass ⟨pat, {}, envT⟩ (pat.length + 2) {})

/-- … and in the XSD dialect -/
def runXsd (pat : List Nat) : Res :=
  resOf (parseClass ⟨pat, { xsd := true }, envT⟩ (pat.length + 2) {})

/-- `[a-z-[aeiou]]` -/
def exVowels : CExpr :=
  .minus false [.range (.plain 97) (.plain 122)]
    (.leaf false [.one (.plain 97), .one (.plain 101), .one (.plain 105), .one (.plain 111),
      .one (.plain 117)])

example : exVowels.render = [91, 97, 45, 122, 45, 91, 97, 101, 105, 111, 117, 93, 93] := by decide
example : exVowels.ok true envT = true := by decide
example : run exVowels.render =
    .ok ([(98, 101), (102, 105), (106, 111), (112, 117), (118, 123)], 13) := by decide +kernel
example : exVowels.denote envT = [(98, 101), (102, 105), (106, 111), (112, 117), (118, 123)] := by
  decide +kernel
/-- the theorem applies to it (all hypotheses are met) -/
example : ∃ R, parseClass ⟨exVowels.render, {}, envT⟩ 15 {} = .ok R { idx := 13 } ∧
    R = exVowels.denote envT ∧ Canon R ∧
    ∀ x, x < cpLimit → (clsContains R x = true ↔ exVowels.Member envT x) :=
  parse_class_full ⟨exVowels.render, {}, envT⟩ rfl envT_canon exVowels (by decide) {} []
    (by decide) 15 (by decide)
example : clsContains (exVowels.denote envT) 98 = true ∧ clsContains (exVowels.denote envT) 101 = false ∧
    clsContains (exVowels.denote envT) 65 = false := by decide +kernel

/-- `[^\d-[5]]`: complement(digits) minus {5} -/
def exNotDigit : CExpr := .minus true [.cls 100] (.leaf false [.one (.plain 53)])

example : exNotDigit.render = [91, 94, 92, 100, 45, 91, 53, 93, 93] := by decide
example : exNotDigit.ok true envT = true := by decide
example : run exNotDigit.render = .ok ([(0, 48), (58, 1114112)], 9) := by decide +kernel
example : exNotDigit.denote envT = [(0, 48), (58, 1114112)] := by decide +kernel
example : clsContains (exNotDigit.denote envT) 97 = true ∧ clsContains (exNotDigit.denote envT) 53 = false ∧
    clsContains (exNotDigit.denote envT) 55 = false := by decide +kernel
/-- … whereas `[^\d-[x]]` removes `x` from the complement -/
example : run [91, 94, 92, 100, 45, 91, 120, 93, 93] = .ok ([(0, 48), (58, 120), (121, 1114112)], 9) := by
  decide +kernel

/-- `[\-a]`: an escaped hyphen and `a` -/
def exEscHyphen : CExpr := .leaf false [.one (.esc 45), .one (.plain 97)]

example : exEscHyphen.render = [91, 92, 45, 97, 93] := by decide
example : exEscHyphen.ok true envT = true := by decide
example : run exEscHyphen.render = .ok ([(45, 46), (97, 98)], 5) := by decide +kernel
example : exEscHyphen.denote envT = [(45, 46), (97, 98)] := by decide +kernel

/-- `[a--[b]]`: `a`, a literal hyphen, minus `b` -/
def exHyphenSub : CExpr := .minus false [.one (.plain 97), .hyphen] (.leaf false [.one (.plain 98)])

example : exHyphenSub.render = [91, 97, 45, 45, 91, 98, 93, 93] := by decide
example : exHyphenSub.ok true envT = true := by decide
example : run exHyphenSub.render = .ok ([(45, 46), (97, 98)], 8) := by decide +kernel
example : exHyphenSub.denote envT = [(45, 46), (97, 98)] := by decide +kernel

/-- `[-a-c\p{Nd}\P{L}-]`: leading and trailing hyphen, a range, a category and a complemented
    category; nested subtraction `[\w-[a-f-[c]]]` -/
def exMixed : CExpr :=
  .leaf false [.hyphen, .range (.plain 97) (.plain 99), .prop true [78, 100], .prop false [76], .hyphen]
def exNested : CExpr :=
  .minus false [.cls 119]
    (.minus false [.range (.plain 97) (.plain 102)] (.leaf false [.one (.plain 99)]))

example : exMixed.ok true envT = true ∧ exNested.ok true envT = true := by decide
example : run exMixed.render = .ok (exMixed.denote envT, exMixed.render.length) := by decide +kernel
example : exMixed.denote envT = [(0, 65), (91, 100), (123, 1114112)] := by decide +kernel
example : run exNested.render = .ok (exNested.denote envT, exNested.render.length) := by decide +kernel
example : exNested.denote envT = [(48, 58), (65, 91), (95, 96), (99, 100), (103, 123)] := by
  decide +kernel

/-- the dialect: `[\$]` is `{$}` in XPath and a syntax error in XSD; `[a-z]` is the same in both -/
example : run [91, 92, 36, 93] = .ok ([(36, 37)], 4) ∧ runXsd [91, 92, 36, 93] = .error .syntax := by
  decide +kernel
example : (CExpr.leaf false [.one (.esc 36)]).ok false envT = true ∧
    (CExpr.leaf false [.one (.esc 36)]).ok true envT = false := by decide
example : run [91, 97, 45, 122, 93] = .ok ([(97, 123)], 5) ∧
    runXsd [91, 97, 45, 122, 93] = .ok ([(97, 123)], 5) := by decide +kernel

/-- rejections: `[]`, `[^]`, `[z-a]`, `[a-z`, `[a`, `[--a]`, `[a--]`, `[a-\d]` -/
example : run [91, 93] = .error .syntax ∧ run [91, 94, 93] = .error .syntax ∧
    run [91, 122, 45, 97, 93] = .error .syntax ∧ run [91, 97, 45, 122] = .error .syntax ∧
    run [91, 97] = .error .syntax ∧ run [91, 45, 45, 97, 93] = .error .syntax ∧
    run [91, 97, 45, 45, 93] = .error .syntax ∧ run [91, 97, 45, 92, 100, 93] = .error .syntax := by
  decide +kernel

/-- an unescaped hyphen cannot be a range end point: `[+--]`, `[--a]`, `[---]` are syntax errors
    (write `[+-\-]`); and nothing may follow a subtraction: `[a-[b]c]` -/
example : run [91, 43, 45, 45, 93] = .error .syntax ∧ run [91, 45, 45, 45, 93] = .error .syntax ∧
    run [91, 43, 45, 92, 45, 93] = .ok ([(43, 46)], 6) ∧
    run [91, 97, 45, 91, 98, 93, 99, 93] = .error .syntax := by decide +kernel

/-- parser leniency (reported): a hyphen after a range or a class escape is a literal
    member — `[a-c-9]` = {a,b,c,-,9}, `[\d-x]` = digits ∪ {-,x} -/
example : run [91, 97, 45, 99, 45, 57, 93] = .ok ([(45, 46), (57, 58), (97, 100)], 7) ∧
    run [91, 92, 100, 45, 120, 93] = .ok ([(45, 46), (48, 58), (120, 121)], 6) := by decide +kernel
example : (CExpr.leaf false [.range (.plain 97) (.plain 99), .hyphen, .one (.plain 57)]).ok true envT = true := by
  decide

end Rx.C09
