/-
  Props/C07c — C07, the "only if" half: the compiler accepts ONLY patterns that conform to the
  XPath 3.1 / XSD 1.1 regular-expression grammar of Spec/Grammar.

    parse_sound      a successful top-level `parse_expr` that consumed the whole pattern yields a
                     tree `a` with `a.ok c`, `c.pat = a.render`, `s'.parens = a.groups + 1`
                     (and `ParserQuirkFree a`: all quantities are below 2^64)
    compile_sound    the same from `compileCore … = .ok pr`
    compile_iff      `Regex::xpath(p)` succeeds IFF `p` is the rendering of a well-formed tree whose
                     quantities are below 2^64  (with Props/C07b for the "if" half)
    parse_sound_*    the generalised statements for sub-parses at arbitrary positions
    parse_err_syntax / compileCore_err_syntax / Regex.new_err_syntax
                     `Error::Internal` is unreachable: every failure is `Error::Syntax`
                     (unconditional — no `ClassInv`, any pattern, any flags)

  The class parser enters through the hypothesis `ClassInv c` ("whatever `parse_character_class`
  accepts is the rendering of a well-formed `C09.CExpr`", proved separately); `*_nobracket` are the
  unconditional versions for patterns that contain no `[`.
  To plug the class inversion in: `compile_iff env fl hlit pat (fun f s R s' h => C09.parse_class_inv … h) opt`.

  FINDING: in this direction there is NO deviation outside character classes — every text the
  parser accepts is grammar-conformant (no named exclusion is needed on the left of `compile_iff`).
  The only exclusion is the one already known from C07b, on the grammar side: a quantity of 2^64 or
  more is grammar-valid but rejected (`ParserQuirkFree`).
-/
import RxModel.Model.Compile
import RxModel.Spec.Grammar
import RxModel.Proofs.GrammarInvLemmas
import RxModel.Props.C07b
namespace Rx.C07c
open Rx Rx.Grammar
open Rx.C07b (ParserQuirkFree)

/-- `Span c s s' txt g cl'` in the words of the task: the text between the two positions is
    `txt`, the group counter went up by `g`, the closed groups are `cl'` -/
theorem span_iff_take {c : PC} {s s' : PS} {txt : List Nat} {g : Nat} {cl' : List Nat}
    (h : Span c s s' txt g cl') :
    (c.pat.drop s.idx).take (s'.idx - s.idx) = txt ∧ s.idx ≤ s'.idx ∧
      s'.parens = s.parens + g ∧ s'.captures = cl' := by
  refine ⟨?_, by rw [h.idx]; omega, h.parens, h.caps⟩
  rw [h.text, h.idx, Nat.add_sub_cancel_left]
  simp

/-! ### sub-parses at arbitrary positions

  `n` capturing groups are open or closed to the left of `s` (`s.parens = n + 1`), `s.captures` are
  the closed ones.  Any fuel. -/

/-- `parse_expr` at top level (no parenthesis): the consumed text is a well-formed regExp -/
theorem parse_sound_regexp (c : PC) (hcls : ClassInv c) (f : Nat) (s : PS) (op : Op) (s' : PS) (n : Nat)
    (h : parseExpr c f s true = .ok op s') (hp : s.parens = n + 1) (hs : s.idx ≤ c.len) :
    ∃ r : RegExp, r.ok c.fl.xsd c.env n s.captures = true ∧ r.inLimit = true ∧
      Span c s s' r.render r.groups (r.closed n s.captures) :=
  parse_top_inv c hcls f s op s' n h hp hs

/-- `parse_expr` at a `(`: a capturing or non-capturing group -/
theorem parse_sound_group (c : PC) (hcls : ClassInv c) (f : Nat) (s : PS) (op : Op) (s' : PS) (n : Nat)
    (h : parseExpr c f s false = .ok op s') (h40 : c.at s.idx = 40) (hp : s.parens = n + 1) :
    ∃ a : Atom, a.ok c.fl.xsd c.env n s.captures = true ∧ a.inLimit = true ∧
      Span c s s' a.render a.groups (a.closed n s.captures) := by
  obtain ⟨a, a1, a2, _, a4⟩ := (parse_inv_all c hcls f).1 s op s' n h h40 hp
  exact ⟨a, a1, a2, a4⟩

/-- `parse_branch`: a well-formed branch -/
theorem parse_sound_branch (c : PC) (hcls : ClassInv c) (f : Nat) (s : PS) (cur : Option Op) (op : Op)
    (s' : PS) (n : Nat) (h : parseBranch c f s cur = .ok op s') (hp : s.parens = n + 1)
    (hs : s.idx ≤ c.len) :
    ∃ b : Branch, b.ok c.fl.xsd c.env n s.captures = true ∧ b.inLimit = true ∧
      Span c s s' b.render b.groups (b.closed n s.captures) :=
  (parse_inv_all c hcls f).2.2.1 s cur op s' n h hp hs

/-- the `|`-loop: nothing, or `| r` for a well-formed regExp `r` -/
theorem parse_sound_alternatives (c : PC) (hcls : ClassInv c) (f : Nat) (s : PS) (acc l : List Op)
    (s' : PS) (n : Nat) (h : parseBranches c f s acc = .ok l s') (hp : s.parens = n + 1)
    (hs : s.idx ≤ c.len) :
    Span c s s' [] 0 s.captures ∨
    ∃ r : RegExp, r.ok c.fl.xsd c.env n s.captures = true ∧ r.inLimit = true ∧
      Span c s s' (124 :: r.render) r.groups (r.closed n s.captures) :=
  (parse_inv_all c hcls f).2.1 s acc l s' n h hp hs

/-- `parse_terminal`: one atom `a` — preceded by further unquantified character atoms `front`
    when `parse_atom` merged a run of characters into one literal.  `followOk` is the multi-digit
    rule of a back-reference, read off the text that actually follows. -/
theorem parse_sound_terminal (c : PC) (hcls : ClassInv c) (f : Nat) (s : PS) (ret : Op) (s' : PS)
    (n : Nat) (h : parseTerminal c f s = .ok ret s') (hp : s.parens = n + 1) (hs : s.idx ≤ c.len) :
    ∃ (front : List Atom) (a : Atom), CharAtoms c.fl.xsd c.env front ∧
      a.ok c.fl.xsd c.env n s.captures = true ∧ a.inLimit = true ∧
      a.followOk n (c.pat.drop s'.idx) = true ∧
      Span c s s' (renderAtoms front ++ a.render) a.groups (a.closed n s.captures) :=
  (parse_inv_all c hcls f).2.2.2 s ret s' n h hp hs

/-! ### whole patterns -/

/-- MAIN THEOREM.  What the top-level `parse_expr` accepts, when it has consumed the whole pattern
    (which is what `compileCore` checks), is the rendering of a well-formed tree. -/
theorem parse_sound (c : PC) (hcls : ClassInv c) (fuel : Nat) (op : Op) (s' : PS)
    (h : parseExpr c fuel {} true = .ok op s') (hend : s'.idx = c.pat.length) :
    ∃ a : Ast, a.ok c = true ∧ ParserQuirkFree a ∧ c.pat = a.render ∧ s'.parens = a.groups + 1 ∧
      s'.captures = a.closed 0 [] := by
  obtain ⟨r, r1, r2, r3⟩ := parse_top_inv c hcls fuel {} op s' 0 h rfl (Nat.zero_le _)
  refine ⟨r, r1, r2, ?_, by rw [r3.parens]; show 1 + r.groups = r.groups + 1; omega, r3.caps⟩
  have := r3.text
  rw [hend, List.drop_length] at this
  simpa using this

/-- unconditional: a pattern without `[` -/
theorem parse_sound_nobracket (c : PC) (hnb : 91 ∉ c.pat) (fuel : Nat) (op : Op) (s' : PS)
    (h : parseExpr c fuel {} true = .ok op s') (hend : s'.idx = c.pat.length) :
    ∃ a : Ast, a.ok c = true ∧ ParserQuirkFree a ∧ c.pat = a.render ∧ s'.parens = a.groups + 1 ∧
      s'.captures = a.closed 0 [] :=
  parse_sound c (classInv_of_no_bracket c hnb) fuel op s' h hend

/-- what `ReCompiler::compile` accepts is grammar-conformant -/
theorem compile_sound (env : Env) (fl : CFlags) (hlit : fl.literal = false) (pat : List Nat)
    (hcls : ClassInv { pat := pat, fl := fl, env := env }) (opt : Bool) (pr : Prog)
    (h : compileCore env fl pat opt = .ok pr) :
    ∃ a : Ast, a.okFor fl.xsd env = true ∧ ParserQuirkFree a ∧ pat = a.render ∧
      pr.maxParens = a.groups + 1 := by
  rw [compileCore_eq env fl pat opt hlit] at h
  cases hp : parseExpr { pat := pat, fl := fl, env := env } (4 * pat.length + 16) {} true with
  | err e => rw [hp] at h; cases h
  | ok op s' =>
    rw [hp] at h
    simp only [] at h
    by_cases hi : (s'.idx != pat.length) = true
    · rw [if_pos hi] at h; cases h
    rw [if_neg hi] at h
    have hend : s'.idx = pat.length := by simpa using hi
    obtain ⟨a, a1, a2, a3, a4, _⟩ := parse_sound _ hcls _ op s' hp hend
    refine ⟨a, a1, a2, a3, ?_⟩
    cases opt with
    | true =>
      simp only [if_true, Out.ok.injEq] at h
      rw [← h, mkProgram_maxParens]; exact a4
    | false =>
      simp only [Bool.false_eq_true, if_false, Out.ok.injEq] at h
      rw [← h]; exact a4

/-- C07 AS ONE THEOREM.  For a non-literal compilation (flag `q` off; flag `x` already stripped),
    `Regex::xpath` / `Regex::xsd` succeeds on `pat` if and only if `pat` is the rendering of a tree
    that is well formed for the dialect and the environment and whose quantities are below 2^64. -/
theorem compile_iff (env : Env) (fl : CFlags) (hlit : fl.literal = false) (pat : List Nat)
    (hcls : ClassInv { pat := pat, fl := fl, env := env }) (opt : Bool) :
    (∃ pr, compileCore env fl pat opt = .ok pr) ↔
      ∃ a : Ast, a.okFor fl.xsd env = true ∧ ParserQuirkFree a ∧ pat = a.render := by
  constructor
  · rintro ⟨pr, h⟩
    obtain ⟨a, a1, a2, a3, _⟩ := compile_sound env fl hlit pat hcls opt pr h
    exact ⟨a, a1, a2, a3⟩
  · rintro ⟨a, a1, a2, rfl⟩
    obtain ⟨pr, h, _⟩ := C07b.compile_accepts env fl hlit a a1 a2 opt
    exact ⟨pr, h⟩

/-- … and the group count of the program is that of the tree, whichever tree renders to `pat` is
    chosen by the parser -/
theorem compile_iff_groups (env : Env) (fl : CFlags) (hlit : fl.literal = false) (pat : List Nat)
    (hcls : ClassInv { pat := pat, fl := fl, env := env }) (opt : Bool) (pr : Prog) :
    compileCore env fl pat opt = .ok pr →
      ∃ a : Ast, a.okFor fl.xsd env = true ∧ ParserQuirkFree a ∧ pat = a.render ∧
        pr.maxParens = a.groups + 1 :=
  compile_sound env fl hlit pat hcls opt pr

/-- unconditional: patterns without `[` -/
theorem compile_iff_nobracket (env : Env) (fl : CFlags) (hlit : fl.literal = false) (pat : List Nat)
    (hnb : 91 ∉ pat) (opt : Bool) :
    (∃ pr, compileCore env fl pat opt = .ok pr) ↔
      ∃ a : Ast, a.okFor fl.xsd env = true ∧ ParserQuirkFree a ∧ pat = a.render :=
  compile_iff env fl hlit pat (classInv_of_no_bracket _ hnb) opt

/-- rejection, wholesale: a pattern that is not the rendering of any well-formed tree within the
    limit is not compiled -/
theorem reject_of_no_tree (env : Env) (fl : CFlags) (hlit : fl.literal = false) (pat : List Nat)
    (hcls : ClassInv { pat := pat, fl := fl, env := env }) (opt : Bool)
    (hno : ¬ ∃ a : Ast, a.okFor fl.xsd env = true ∧ ParserQuirkFree a ∧ pat = a.render) :
    ∀ pr, compileCore env fl pat opt ≠ .ok pr :=
  fun pr h => hno ((compile_iff env fl hlit pat hcls opt).1 ⟨pr, h⟩)

/-! ### `Error::Internal` is unreachable

  The `Error::Internal` sites of the compiler (fuel exhaustion, `bracket` / `escape` /
  `parse_character_class` called at the wrong character, the empty literal of `parse_atom`, `|` in
  `parse_terminal`, a back-reference returned inside a class) are all dead: for EVERY pattern and
  flag set the parser fails with `Error::Syntax` only.  (Props/C07 had "Syntax or Internal".) -/

/-- the top-level parse, with the fuel `compileCore` gives it, never returns `Error::Internal` -/
theorem parse_no_internal (c : PC) : parseExpr c (4 * c.pat.length + 16) {} true ≠ .err .internal :=
  parseExpr_top_ni c

/-- every failure of the top-level parse is `Error::Syntax` -/
theorem parse_err_syntax (c : PC) (e : Err)
    (h : parseExpr c (4 * c.pat.length + 16) {} true = .err e) : e = .syntax := by
  rcases (parseExpr_good c _ _ _).err e h with rfl | rfl
  · rfl
  · exact absurd h (parse_no_internal c)

/-- `ReCompiler::compile` fails with `Error::Syntax` only -/
theorem compileCore_err_syntax (env : Env) (fl : CFlags) (pat : List Nat) (opt : Bool) (e : Err)
    (h : compileCore env fl pat opt = .err e) : e = .syntax := by
  cases hlit : fl.literal with
  | true =>
    unfold compileCore at h
    simp only [hlit, if_true] at h
    cases opt <;> simp at h
  | false =>
    rw [compileCore_eq env fl pat opt hlit] at h
    cases hp : parseExpr { pat := pat, fl := fl, env := env } (4 * pat.length + 16) {} true with
    | err e2 =>
      rw [hp] at h
      simp only [Out.err.injEq] at h
      subst h
      exact parse_err_syntax _ _ hp
    | ok op s' =>
      rw [hp] at h
      simp only [] at h
      split at h
      · simp only [Out.err.injEq] at h; exact h.symm
      · split at h <;> cases h

theorem compileProg_err_syntax (env : Env) (fl : Flags) (pat : List Nat) (opt : Bool) (e : Err)
    (h : compileProg env fl pat opt = .err e) : e = .syntax :=
  compileCore_err_syntax _ _ _ _ _ h

/-- `Regex::new` fails with `InvalidFlags` (exactly for a rejected flag string) or `Syntax` — never
    `Internal` -/
theorem Regex.new_err_syntax (env : Env) (p fs : List Nat) (xsd opt : Bool) (e : Err)
    (h : Regex.new env p fs xsd opt = .err e) :
    (e = .invalidFlags ∧ parseFlags fs xsd = none) ∨ (e = .syntax ∧ (parseFlags fs xsd).isSome = true) := by
  cases hf : parseFlags fs xsd with
  | none =>
    simp only [Rx.Regex.new, hf, Out.err.injEq] at h
    exact .inl ⟨h.symm, rfl⟩
  | some fl =>
    right
    refine ⟨?_, rfl⟩
    rcases Rx.Regex.new_err env p fs xsd opt e h with ⟨_, hn⟩ | ⟨hs | hi, _⟩
    · rw [hf] at hn; cases hn
    · exact hs
    · exfalso
      subst hi
      simp only [Rx.Regex.new, hf] at h
      cases hc : compileProg env fl p opt with
      | err e2 =>
        rw [hc] at h
        simp only [Out.err.injEq] at h
        subst h
        have := compileProg_err_syntax env fl p opt _ hc
        cases this
      | ok pr =>
        rw [hc] at h
        simp only [] at h
        cases hn : pr.nullable env.lower with
        | ok n => rw [hn] at h; cases h
        | err e3 => exact absurd hn (isMatch_ne_err _ _ _ _)
        | panic c => rw [hn] at h; cases h
        | diverge => rw [hn] at h; cases h
      | panic c => rw [hc] at h; cases h
      | diverge => rw [hc] at h; cases h

/-! ### examples: the reconstructed tree for a few patterns (environment `C09.envT`)

  Each example gives the tree the parser's run corresponds to, checks `ok` / the limit / the
  rendering by `decide`, and obtains the success of the compiler from `compile_iff` (right to left);
  conversely the success computed by `decide +kernel` yields, through `compile_iff` (left to right),
  the existence of a tree. -/

open Rx.C07b (parensOf isSyntaxErr)

/-- `^*?a`: a quantified anchor with the reluctant marker, then `a` (the crate once mis-parsed this) -/
def t1 : Ast := .one (.cons .bol (some ⟨.star, true⟩) (.cons (.chr 97) none .nil))
example : cps "^*?a" = t1.render ∧ t1.okFor false C09.envT = true ∧ ParserQuirkFree t1 := by decide
example : ∃ pr, compileCore C09.envT {} (cps "^*?a") true = .ok pr :=
  (compile_iff_nobracket C09.envT {} rfl _ (by decide) true).2 ⟨t1, by decide, by decide, by decide⟩
example : ∃ a : Ast, a.okFor false C09.envT = true ∧ ParserQuirkFree a ∧ cps "^*?a" = a.render :=
  (compile_iff_nobracket C09.envT {} rfl _ (by decide) true).1
    (by
      have h : parensOf (compileCore C09.envT {} (cps "^*?a") true) = some 1 := by decide +kernel
      cases hc : compileCore C09.envT {} (cps "^*?a") true with
      | ok pr => exact ⟨pr, rfl⟩
      | err e => rw [hc] at h; cases h
      | panic c => rw [hc] at h; cases h
      | diverge => rw [hc] at h; cases h)

/-- `abc*|(?:x|\p{L}){2,}?`: `parse_atom` reads `ab` as one literal and `c` as the operand of `*`;
    in the tree these are three pieces -/
def t2 : Ast :=
  .alt (.cons (.chr 97) none (.cons (.chr 98) none (.cons (.chr 99) (some ⟨.star, false⟩) .nil)))
    (.one (.cons (.ncgroup (.alt (.cons (.chr 120) none .nil)
        (.one (.cons (.prop true [76]) none .nil)))) (some ⟨.atLeast [50], true⟩) .nil))
example : cps "abc*|(?:x|\\p{L}){2,}?" = t2.render ∧ t2.okFor false C09.envT = true ∧
    ParserQuirkFree t2 := by decide
example : parensOf (compileCore C09.envT {} t2.render true) = some 1 := by decide +kernel

/-- `(a)(b)\2\1\.`: two groups, both closed when referenced -/
def t3 : Ast :=
  .one (.cons (.group (.one (.cons (.chr 97) none .nil))) none
    (.cons (.group (.one (.cons (.chr 98) none .nil))) none
      (.cons (.backref [50]) none (.cons (.backref [49]) none (.cons (.esc 46) none .nil)))))
example : cps "(a)(b)\\2\\1\\." = t3.render ∧ t3.okFor false C09.envT = true ∧ t3.groups = 2 := by
  decide
example : parensOf (compileCore C09.envT {} t3.render true) = some 3 := by decide +kernel

/-- the grammar decided by running the compiler: none of `a{`, `a}`, `x**`, `(?a)`, `a|)`, `\p{Lx}`,
    `(a\1)`, `\` is the rendering of a well-formed tree -/
theorem no_tree_of_rejected (pat : List Nat) (hnb : 91 ∉ pat)
    (h : isSyntaxErr (compileCore C09.envT {} pat true) = true) :
    ¬ ∃ a : Ast, a.okFor false C09.envT = true ∧ ParserQuirkFree a ∧ pat = a.render := by
  intro hex
  obtain ⟨pr, hp⟩ := (compile_iff_nobracket C09.envT {} rfl pat hnb true).2 hex
  rw [hp] at h
  cases h

example : ¬ ∃ a : Ast, a.okFor false C09.envT = true ∧ ParserQuirkFree a ∧ cps "a{" = a.render :=
  no_tree_of_rejected _ (by decide) (by decide +kernel)
example : ¬ ∃ a : Ast, a.okFor false C09.envT = true ∧ ParserQuirkFree a ∧ cps "x**" = a.render :=
  no_tree_of_rejected _ (by decide) (by decide +kernel)
example : ¬ ∃ a : Ast, a.okFor false C09.envT = true ∧ ParserQuirkFree a ∧ cps "(?a)" = a.render :=
  no_tree_of_rejected _ (by decide) (by decide +kernel)
example : ¬ ∃ a : Ast, a.okFor false C09.envT = true ∧ ParserQuirkFree a ∧ cps "a|)" = a.render :=
  no_tree_of_rejected _ (by decide) (by decide +kernel)
example : ¬ ∃ a : Ast, a.okFor false C09.envT = true ∧ ParserQuirkFree a ∧ cps "(a\\1)" = a.render :=
  no_tree_of_rejected _ (by decide) (by decide +kernel)
example : ¬ ∃ a : Ast, a.okFor false C09.envT = true ∧ ParserQuirkFree a ∧ cps "\\p{Lx}" = a.render :=
  no_tree_of_rejected _ (by decide) (by decide +kernel)

/-- the probes of the task, all in agreement with the grammar: `^*?a` `^??` `$+?` `(?:)` accepted;
    `^*??` `(?a)` `(?` `a|)` `\p{}` `\p{L` `\pL` `a{` `}` `a{1}{2}` `a\` `]` rejected;
    `(a)\10` = `\1` then `0` (one group) accepted -/
example : parensOf (compileCore C09.envT {} (cps "^??") true) = some 1 ∧
    parensOf (compileCore C09.envT {} (cps "$+?") true) = some 1 ∧
    parensOf (compileCore C09.envT {} (cps "(?:)") true) = some 1 ∧
    parensOf (compileCore C09.envT {} (cps "(a)\\10") true) = some 2 ∧
    isSyntaxErr (compileCore C09.envT {} (cps "^*??") true) = true ∧
    isSyntaxErr (compileCore C09.envT {} (cps "(?") true) = true ∧
    isSyntaxErr (compileCore C09.envT {} (cps "\\p{}") true) = true ∧
    isSyntaxErr (compileCore C09.envT {} (cps "\\p{L") true) = true ∧
    isSyntaxErr (compileCore C09.envT {} (cps "\\pL") true) = true ∧
    isSyntaxErr (compileCore C09.envT {} (cps "}") true) = true ∧
    isSyntaxErr (compileCore C09.envT {} (cps "a{1}{2}") true) = true ∧
    isSyntaxErr (compileCore C09.envT {} (cps "a\\") true) = true ∧
    isSyntaxErr (compileCore C09.envT {} (cps "]") true) = true := by decide +kernel

end Rx.C07c
