/-
  Props/CleanComplete — the search-loop theorems (Props/SearchComplete) instantiated on the CLEAN
  fragment (Spec/Enum: anchors, literals, classes, captures, alternation, sequence, the two
  fixed-length-body quantifiers), on which Props/Clean proves the iterators to be exact,
  priority-ordered enumerators.  No hypothesis about the engine is left: for
  `pr := mkProgram pat op mp fl false`, `ctx := pr.ctx lower input` the hypotheses are the decidable
      `cleanOp op`, `wfOp op`, `C08.noEmptyAtoms op`, (`C02.capsPos op` where the recorded span is
      mentioned), `input.length < usizeMax`.

    1  `completeAt_clean`            the engine test is complete on the fragment
    2  `pres_clean` is FALSE (`pres_clean_false`): `add_precondition` records `x{n}`, n ≥ 2, as the
       GENERAL greedy repeat `rep 0 x n n true`, which is outside the fragment.  True and sufficient:
       `pres_clean_partial` — every precondition tree is clean + well-formed or of that one shape,
       `pres_completeAt` — and the engine test is complete on both (`completeAt_repLeaf`).
    3a `clean_isMatch_iff` / `clean_isMatch_false`    C01, both directions, never panic / diverge
    3b `clean_match_is_leftmost_first`                C02: leftmost start, ordered-choice-first end
    3c `clean_opt_eq_noopt` / `clean_opt_eq_bare`     C08 with FULL equality (Boolean, start, end)
    3d `clean_same_language_same_answer`              C20 at engine level
    3e `clean_no_zero_length`, `clean_goodFind`, `clean_tokenize_spec`   C16 ⇒ C04's hypothesis
    5  non-vacuity: `(a|ab)(c|bcd)(d*)` on "xabcdd"
-/
import RxModel.Proofs.CleanSearchLemmas
import RxModel.Props.SearchComplete
import RxModel.Props.C04
import RxModel.Props.C16
import RxModel.Props.Api
namespace Rx.CleanComplete
open Rx Rx.SearchComplete

/-! ## 1. the engine test is complete on the fragment -/

theorem completeAt_clean (ctx : Ctx) (op : Op) (hc : cleanOp op = true) (hwf : wfOp op = true) :
    CompleteAt ctx op :=
  SearchComplete.completeAt_clean ctx op hc hwf

/-- numbering of the repeat nodes keeps the fragment -/
theorem cleanOp_numberReps (op : Op) (n : Nat) : cleanOp (numberReps op n).1 = cleanOp op :=
  SearchComplete.cleanOp_numberReps op n

/-- the main tree of the program is the numbered tree: still clean, well-formed, `capsPos` -/
theorem prog_clean (pat : List Nat) (op : Op) (mp : Nat) (fl : CFlags) (hb : Bool)
    (hc : cleanOp op = true) (hwf : wfOp op = true) :
    (mkProgram pat op mp fl hb).op = (numberReps op 0).1 ∧
    cleanOp (mkProgram pat op mp fl hb).op = true ∧ wfOp (mkProgram pat op mp fl hb).op = true ∧
    (C02.capsPos op = true → C02.capsPos (mkProgram pat op mp fl hb).op = true) :=
  ⟨(WF.mkProgram_op pat op mp fl hb).1, clean_prog pat op mp fl hb hc hwf⟩

/-! ## 2. the precondition trees -/

/-- ORIGINAL STATEMENT — FALSE: "every precondition tree of a program built from a clean
    well-formed tree is itself clean and well-formed".  `add_precondition` turns `x{n}` / `x{n,m}`
    with n ≥ 2 over a literal or class `x` into the general greedy repeat `rep 0 x n n true`
    (Model/Program `addPre`, `gfixed` / `rfixed` arms), and `rep` is not in the fragment.
    Refuted by `pres_clean_false`; what is true — and all the search theorems need — is
    `pres_clean_partial` + `pres_completeAt`. -/
def pres_clean : Prop :=
  ∀ (pat : List Nat) (op : Op) (mp : Nat) (fl : CFlags), cleanOp op = true → wfOp op = true →
    ∀ q ∈ (mkProgram pat op mp fl false).pres, cleanOp q.op = true ∧ wfOp q.op = true

/-- `a{2,3}` : the recorded precondition is `rep 1001 a 2 2 true` -/
theorem pres_clean_false : ¬ pres_clean := by
  intro h
  have hp : (mkProgram [] (.seq [.gfixed (.atom [97]) 2 3 1, .endProgram]) 1 {} false).pres =
      [{ op := .rep 1001 (.atom [97]) 2 2 true, fixed := none, minPos := 0 }] := rfl
  have := (h [] (.seq [.gfixed (.atom [97]) 2 3 1, .endProgram]) 1 {} rfl rfl _
    (by rw [hp]; exact List.mem_cons_self)).1
  exact absurd this (by decide)

/-- the closest true statement: every precondition tree is clean and well-formed, OR it is
    `rep id x n n true` with `x` a non-empty literal / a class and `n ≥ 1` (added: the second
    disjunct; and `noEmptyAtoms`, without which `x` could be the empty literal) -/
theorem pres_clean_partial (pat : List Nat) (op : Op) (mp : Nat) (fl : CFlags)
    (hc : cleanOp op = true) (hwf : wfOp op = true) (hne : C08.noEmptyAtoms op = true) :
    ∀ q ∈ (mkProgram pat op mp fl false).pres,
      (cleanOp q.op = true ∧ wfOp q.op = true) ∨
      ∃ id x n, q.op = .rep id x n n true ∧ isAtomOrClass x = true ∧ C08.noEmptyAtoms x = true ∧ 1 ≤ n := by
  intro q hq
  have h := mkProgram_pres_preShape pat op mp fl false hc hwf hne q hq
  unfold preShape at h
  rcases Bool.or_eq_true_iff.1 h with h | h
  · simp only [Bool.and_eq_true] at h; exact .inl h
  · right
    cases hop : q.op with
    | rep id c mn mx g =>
      rw [hop] at h
      simp only [Bool.and_eq_true, beq_iff_eq, decide_eq_true_eq] at h
      obtain ⟨⟨⟨⟨rfl, hac⟩, hne'⟩, rfl⟩, hmn⟩ := h
      exact ⟨id, c, mn, rfl, hac, hne', hmn⟩
    | _ => rw [hop] at h; simp at h

/-- the engine test is complete on every precondition tree (on the second shape by a direct proof
    about the greedy repeat over a single character, `completeAt_repLeaf`) -/
theorem pres_completeAt (pat : List Nat) (op : Op) (mp : Nat) (fl : CFlags) (ctx : Ctx)
    (hc : cleanOp op = true) (hwf : wfOp op = true) (hne : C08.noEmptyAtoms op = true) :
    ∀ q ∈ (mkProgram pat op mp fl false).pres, CompleteAt ctx q.op :=
  pres_completeAt' pat op mp fl false ctx hc hwf hne

/-! ## 3a. C01 in both directions -/

/-- `is_match` answers `.ok b` with `b` = "some substring is in the language" -/
theorem clean_isMatch_ok (pat : List Nat) (op : Op) (mp : Nat) (fl : CFlags)
    (lower : Nat → Nat) (input : List Nat)
    (hc : cleanOp op = true) (hwf : wfOp op = true) (hne : C08.noEmptyAtoms op = true)
    (hlen : input.length < usizeMax) :
    ∃ b, (mkProgram pat op mp fl false).isMatch lower input = .ok b ∧
      (b = true ↔ ∃ j q, j ≤ input.length ∧
        OpR ((mkProgram pat op mp fl false).ctx lower input) (mkProgram pat op mp fl false).op j q) := by
  obtain ⟨hc', hw', _⟩ := clean_prog pat op mp fl false hc hwf
  exact isMatch_eq pat op mp fl lower input hwf (Clean.clean_noBackref op hc) hne
    (Clean.clean_smallMin _ op hc) hlen (SearchComplete.completeAt_clean _ _ hc' hw')
    (pres_completeAt' pat op mp fl false _ hc hwf hne)

theorem clean_isMatch_iff (pat : List Nat) (op : Op) (mp : Nat) (fl : CFlags)
    (lower : Nat → Nat) (input : List Nat)
    (hc : cleanOp op = true) (hwf : wfOp op = true) (hne : C08.noEmptyAtoms op = true)
    (hlen : input.length < usizeMax) :
    (mkProgram pat op mp fl false).isMatch lower input = .ok true ↔
      ∃ j q, j ≤ input.length ∧
        OpR ((mkProgram pat op mp fl false).ctx lower input) (mkProgram pat op mp fl false).op j q := by
  obtain ⟨b, hb, hiff⟩ := clean_isMatch_ok pat op mp fl lower input hc hwf hne hlen
  rw [hb]
  constructor
  · intro h
    simp only [Out.ok.injEq] at h
    exact hiff.1 h
  · intro h
    rw [hiff.2 h]

/-- … and `.ok false` otherwise: never a panic, never divergence -/
theorem clean_isMatch_false (pat : List Nat) (op : Op) (mp : Nat) (fl : CFlags)
    (lower : Nat → Nat) (input : List Nat)
    (hc : cleanOp op = true) (hwf : wfOp op = true) (hne : C08.noEmptyAtoms op = true)
    (hlen : input.length < usizeMax)
    (hno : ¬ ∃ j q, j ≤ input.length ∧
        OpR ((mkProgram pat op mp fl false).ctx lower input) (mkProgram pat op mp fl false).op j q) :
    (mkProgram pat op mp fl false).isMatch lower input = .ok false := by
  obtain ⟨b, hb, hiff⟩ := clean_isMatch_ok pat op mp fl lower input hc hwf hne hlen
  rw [hb]
  cases b with
  | false => rfl
  | true => exact absurd (hiff.1 rfl) hno

/-! ## 3b. C02: leftmost start, ordered-choice-preferred end -/

/-- `matches(i)` from a clean state answers true iff some start `≥ i` has a match -/
theorem clean_matchesFrom_iff (pat : List Nat) (op : Op) (mp : Nat) (fl : CFlags)
    (lower : Nat → Nat) (input : List Nat)
    (hc : cleanOp op = true) (hwf : wfOp op = true) (hne : C08.noEmptyAtoms op = true)
    (hlen : input.length < usizeMax) (i : Nat) (hi : i ≤ input.length) (st : St) (hst : st.panic = none) :
    ((matchesFrom ((mkProgram pat op mp fl false).ctx lower input) (mkProgram pat op mp fl false) i st).1 = true ↔
      ∃ j q, i ≤ j ∧ j ≤ input.length ∧
        OpR ((mkProgram pat op mp fl false).ctx lower input) (mkProgram pat op mp fl false).op j q) ∧
    (matchesFrom ((mkProgram pat op mp fl false).ctx lower input) (mkProgram pat op mp fl false) i st).2.panic = none :=
  let h := clean_outcome pat op mp fl lower input hc hwf hne hlen i hi st hst
  ⟨h.iff, h.clean⟩

/-- when `matches(i)` succeeds, group 0 of the resulting state is `(j, n)` where `j` is the LEAST
    start `≥ i` from which the language has any member, and `n` is the FIRST element of the
    priority-ordered enumeration from `j` (ordered choice, greedy-longest, reluctant-shortest) -/
theorem clean_match_is_leftmost_first (pat : List Nat) (op : Op) (mp : Nat) (fl : CFlags)
    (lower : Nat → Nat) (input : List Nat)
    (hc : cleanOp op = true) (hwf : wfOp op = true) (hne : C08.noEmptyAtoms op = true)
    (hcp : C02.capsPos op = true) (hlen : input.length < usizeMax)
    (i : Nat) (hi : i ≤ input.length) (st st' : St) (hst : st.panic = none)
    (h : matchesFrom ((mkProgram pat op mp fl false).ctx lower input) (mkProgram pat op mp fl false) i st
      = (true, st')) :
    ∃ j n, getParenStart st' 0 = some j ∧ getParenEnd st' 0 = some n ∧
      (enum ((mkProgram pat op mp fl false).ctx lower input) (mkProgram pat op mp fl false).op j).head? = some n ∧
      i ≤ j ∧ j ≤ n ∧ n ≤ input.length ∧
      OpR ((mkProgram pat op mp fl false).ctx lower input) (mkProgram pat op mp fl false).op j n ∧
      ∀ k q, i ≤ k → k < j →
        ¬ OpR ((mkProgram pat op mp fl false).ctx lower input) (mkProgram pat op mp fl false).op k q := by
  obtain ⟨hc', hw', hcp'⟩ := clean_prog pat op mp fl false hc hwf
  have ho := clean_outcome pat op mp fl lower input hc hwf hne hlen i hi st hst
  have := ho.span_clean hc' hw' (hcp' hcp) (by rw [h])
  rw [h] at this
  exact this

/-! ## 3c. C08 with full result equality -/

/-- shortcuts on / off: the same Boolean and, on success, the same start AND the same end of
    group 0 — from any two clean states (on the fragment the end is `enum.head?` whatever the
    state, so the zero-length-match memo cannot make a difference) -/
theorem clean_opt_eq_noopt (pat : List Nat) (op : Op) (mp : Nat) (fl : CFlags)
    (lower : Nat → Nat) (input : List Nat)
    (hc : cleanOp op = true) (hwf : wfOp op = true) (hne : C08.noEmptyAtoms op = true)
    (hcp : C02.capsPos op = true) (hlen : input.length < usizeMax)
    (i : Nat) (hi : i ≤ input.length) (st1 st2 : St) (h1 : st1.panic = none) (h2 : st2.panic = none) :
    let pr := mkProgram pat op mp fl false
    let ctx := pr.ctx lower input
    (matchesFrom ctx pr i st1).1 = (matchesNaive ctx pr.op i st2).1 ∧
    ((matchesFrom ctx pr i st1).1 = true →
      getParenStart (matchesFrom ctx pr i st1).2 0 = getParenStart (matchesNaive ctx pr.op i st2).2 0 ∧
      getParenEnd (matchesFrom ctx pr i st1).2 0 = getParenEnd (matchesNaive ctx pr.op i st2).2 0) := by
  intro pr ctx
  obtain ⟨hc', hw', hcp'⟩ := clean_prog pat op mp fl false hc hwf
  exact (clean_outcome pat op mp fl lower input hc hwf hne hlen i hi st1 h1).agree_clean hc' hw' (hcp' hcp)
    (clean_naive_outcome pat op mp fl lower input hc hwf i st2 h2)

/-- optimised program vs. the bare program the verification hook builds -/
theorem clean_opt_eq_bare (pat : List Nat) (op : Op) (mp : Nat) (fl : CFlags)
    (lower : Nat → Nat) (input : List Nat)
    (hc : cleanOp op = true) (hwf : wfOp op = true) (hne : C08.noEmptyAtoms op = true)
    (hcp : C02.capsPos op = true) (hlen : input.length < usizeMax)
    (i : Nat) (hi : i ≤ input.length) (st1 st2 : St) (h1 : st1.panic = none) (h2 : st2.panic = none) :
    let pr := mkProgram pat op mp fl false
    let bare := mkBareProgram pat op mp fl false
    (matchesFrom (pr.ctx lower input) pr i st1).1 = (matchesFrom (bare.ctx lower input) bare i st2).1 ∧
    ((matchesFrom (pr.ctx lower input) pr i st1).1 = true →
      getParenStart (matchesFrom (pr.ctx lower input) pr i st1).2 0 =
        getParenStart (matchesFrom (bare.ctx lower input) bare i st2).2 0 ∧
      getParenEnd (matchesFrom (pr.ctx lower input) pr i st1).2 0 =
        getParenEnd (matchesFrom (bare.ctx lower input) bare i st2).2 0) := by
  intro pr bare
  obtain ⟨_, hbc⟩ := bare_same pat op mp fl false lower input
  obtain ⟨hop, _⟩ := WF.mkProgram_op pat op mp fl false
  have hb : matchesFrom (bare.ctx lower input) bare i st2 = matchesNaive (pr.ctx lower input) pr.op i st2 := by
    show matchesFrom ((mkBareProgram pat op mp fl false).ctx lower input) (mkBareProgram pat op mp fl false) i st2
      = matchesNaive ((mkProgram pat op mp fl false).ctx lower input) (mkProgram pat op mp fl false).op i st2
    rw [hbc, hop]
    exact bare_eq_naive pat op mp fl false ((mkProgram pat op mp fl false).ctx lower input) i hi st2
  rw [hb]
  exact clean_opt_eq_noopt pat op mp fl lower input hc hwf hne hcp hlen i hi st1 st2 h1 h2

/-- the bare program's `is_match` is the optimised program's -/
theorem clean_isMatch_eq_bare (pat : List Nat) (op : Op) (mp : Nat) (fl : CFlags)
    (lower : Nat → Nat) (input : List Nat)
    (hc : cleanOp op = true) (hwf : wfOp op = true) (hne : C08.noEmptyAtoms op = true)
    (hcp : C02.capsPos op = true) (hlen : input.length < usizeMax) :
    (mkProgram pat op mp fl false).isMatch lower input = (mkBareProgram pat op mp fl false).isMatch lower input := by
  have h := clean_opt_eq_bare pat op mp fl lower input hc hwf hne hcp hlen 0 (Nat.zero_le _) {} {} rfl rfl
  have hcl1 := (clean_outcome pat op mp fl lower input hc hwf hne hlen 0 (Nat.zero_le _) {} rfl).clean
  obtain ⟨_, hbc⟩ := bare_same pat op mp fl false lower input
  obtain ⟨hop, _⟩ := WF.mkProgram_op pat op mp fl false
  have hcl2 : (matchesFrom ((mkBareProgram pat op mp fl false).ctx lower input)
      (mkBareProgram pat op mp fl false) 0 {}).2.panic = none := by
    rw [hbc, bare_eq_naive pat op mp fl false _ 0 (Nat.zero_le _) {}, ← hop]
    exact (clean_naive_outcome pat op mp fl lower input hc hwf 0 {} rfl).clean
  have hb := h.1
  unfold Prog.isMatch
  generalize matchesFrom ((mkProgram pat op mp fl false).ctx lower input) (mkProgram pat op mp fl false) 0 {} = r1 at *
  generalize matchesFrom ((mkBareProgram pat op mp fl false).ctx lower input) (mkBareProgram pat op mp fl false) 0 {} = r2 at *
  obtain ⟨m1, s1⟩ := r1
  obtain ⟨m2, s2⟩ := r2
  simp only at hcl1 hcl2 hb ⊢
  rw [hcl1, hcl2, hb]

/-! ## 3d. C20 at engine level: equivalent spellings give the same answers -/

/-- two clean well-formed trees whose compiled programs denote the same language on an input
    (same flags) have the same `is_match` answer, and `matches(i)` reports the same Boolean and the
    same leftmost start.  (The laws that produce such pairs are the `OpR` equalities of Props/C20.) -/
theorem clean_same_language_same_answer
    (pat1 pat2 : List Nat) (op1 op2 : Op) (mp1 mp2 : Nat) (fl : CFlags)
    (lower : Nat → Nat) (input : List Nat)
    (hc1 : cleanOp op1 = true) (hwf1 : wfOp op1 = true) (hne1 : C08.noEmptyAtoms op1 = true)
    (hc2 : cleanOp op2 = true) (hwf2 : wfOp op2 = true) (hne2 : C08.noEmptyAtoms op2 = true)
    (hlen : input.length < usizeMax)
    (hlang : ∀ p q,
      OpR ((mkProgram pat1 op1 mp1 fl false).ctx lower input) (mkProgram pat1 op1 mp1 fl false).op p q ↔
      OpR ((mkProgram pat2 op2 mp2 fl false).ctx lower input) (mkProgram pat2 op2 mp2 fl false).op p q) :
    (mkProgram pat1 op1 mp1 fl false).isMatch lower input = (mkProgram pat2 op2 mp2 fl false).isMatch lower input ∧
    ∀ (i : Nat), i ≤ input.length → ∀ (st1 st2 : St), st1.panic = none → st2.panic = none →
      (matchesFrom ((mkProgram pat1 op1 mp1 fl false).ctx lower input) (mkProgram pat1 op1 mp1 fl false) i st1).1 =
      (matchesFrom ((mkProgram pat2 op2 mp2 fl false).ctx lower input) (mkProgram pat2 op2 mp2 fl false) i st2).1 ∧
      (C02.capsPos op1 = true → C02.capsPos op2 = true →
        (matchesFrom ((mkProgram pat1 op1 mp1 fl false).ctx lower input) (mkProgram pat1 op1 mp1 fl false) i st1).1 = true →
        getParenStart (matchesFrom ((mkProgram pat1 op1 mp1 fl false).ctx lower input) (mkProgram pat1 op1 mp1 fl false) i st1).2 0 =
        getParenStart (matchesFrom ((mkProgram pat2 op2 mp2 fl false).ctx lower input) (mkProgram pat2 op2 mp2 fl false) i st2).2 0) := by
  refine ⟨?_, ?_⟩
  · obtain ⟨b1, hb1, hi1⟩ := clean_isMatch_ok pat1 op1 mp1 fl lower input hc1 hwf1 hne1 hlen
    obtain ⟨b2, hb2, hi2⟩ := clean_isMatch_ok pat2 op2 mp2 fl lower input hc2 hwf2 hne2 hlen
    rw [hb1, hb2]
    have : b1 = b2 := by
      rw [Bool.eq_iff_iff, hi1, hi2]
      constructor
      · rintro ⟨j, q, h1, h2⟩; exact ⟨j, q, h1, (hlang j q).1 h2⟩
      · rintro ⟨j, q, h1, h2⟩; exact ⟨j, q, h1, (hlang j q).2 h2⟩
    rw [this]
  · intro i hi st1 st2 h1 h2
    have o1 := clean_outcome pat1 op1 mp1 fl lower input hc1 hwf1 hne1 hlen i hi st1 h1
    have o2 := clean_outcome pat2 op2 mp2 fl lower input hc2 hwf2 hne2 hlen i hi st2 h2
    have hl1 : ((mkProgram pat1 op1 mp1 fl false).ctx lower input).len = input.length := rfl
    have hl2 : ((mkProgram pat2 op2 mp2 fl false).ctx lower input).len = input.length := rfl
    have hb : (matchesFrom ((mkProgram pat1 op1 mp1 fl false).ctx lower input) (mkProgram pat1 op1 mp1 fl false) i st1).1 =
        (matchesFrom ((mkProgram pat2 op2 mp2 fl false).ctx lower input) (mkProgram pat2 op2 mp2 fl false) i st2).1 := by
      rw [Bool.eq_iff_iff, o1.iff, o2.iff, hl1, hl2]
      constructor
      · rintro ⟨j, q, a, b, c⟩; exact ⟨j, q, a, b, (hlang j q).1 c⟩
      · rintro ⟨j, q, a, b, c⟩; exact ⟨j, q, a, b, (hlang j q).2 c⟩
    refine ⟨hb, fun hcp1 hcp2 ht => ?_⟩
    obtain ⟨_, hw1, hcp1'⟩ := clean_prog pat1 op1 mp1 fl false hc1 hwf1
    obtain ⟨_, hw2, hcp2'⟩ := clean_prog pat2 op2 mp2 fl false hc2 hwf2
    obtain ⟨j1, n1, hs1, _, a1, _, _, hm1, hmin1⟩ := o1.leftmost hw1 (hcp1' hcp1) ht
    obtain ⟨j2, n2, hs2, _, a2, _, _, hm2, hmin2⟩ := o2.leftmost hw2 (hcp2' hcp2) (hb ▸ ht)
    have : j1 = j2 := by
      rcases Nat.lt_trichotomy j1 j2 with h | h | h
      · exact absurd ((hlang j1 n1).1 hm1) (hmin2 j1 n1 a1 h)
      · exact h
      · exact absurd ((hlang j2 n2).2 hm2) (hmin1 j2 n2 a2 h)
    rw [hs1, hs2, this]

/-! ## 3e. towards C04 / C16: a non-nullable clean program reports only non-empty spans -/

/-- if the program does not match the empty string (`is_match "" = false`: it passes the API gate of
    C16), every span `matches` reports, on any input, from any position, is NON-EMPTY -/
theorem clean_no_zero_length (pat : List Nat) (op : Op) (mp : Nat) (fl : CFlags) (lower : Nat → Nat)
    (hc : cleanOp op = true) (hwf : wfOp op = true) (hne : C08.noEmptyAtoms op = true)
    (hcp : C02.capsPos op = true)
    (hnull : (mkProgram pat op mp fl false).isMatch lower [] = .ok false)
    (input : List Nat) (hlen : input.length < usizeMax)
    (i : Nat) (hi : i ≤ input.length) (st st' : St) (hst : st.panic = none)
    (h : matchesFrom ((mkProgram pat op mp fl false).ctx lower input) (mkProgram pat op mp fl false) i st
      = (true, st')) :
    ∃ j n, getParenStart st' 0 = some j ∧ getParenEnd st' 0 = some n ∧ i ≤ j ∧ j < n ∧ n ≤ input.length := by
  obtain ⟨j, n, hs, he, _, hij, hjn, hnl, hopr, _⟩ :=
    clean_match_is_leftmost_first pat op mp fl lower input hc hwf hne hcp hlen i hi st st' hst h
  refine ⟨j, n, hs, he, hij, ?_, hnl⟩
  rcases Nat.lt_or_ge j n with hlt | hge
  · exact hlt
  · exfalso
    have hjn' : j = n := by omega
    subst hjn'
    have hz := C16.OpR_zero_anywhere _ _ j hopr
    have hm := (clean_isMatch_iff pat op mp fl lower [] hc hwf hne (by decide)).2
      ⟨0, 0, Nat.le_refl _, hz⟩
    rw [hnull] at hm
    cases hm

/-- hence the concrete matcher of such a program satisfies the hypothesis `GoodFind` of every C04
    theorem, with the invariant "panic marker clear" -/
theorem clean_goodFind (pat : List Nat) (op : Op) (mp : Nat) (fl : CFlags) (lower : Nat → Nat)
    (hc : cleanOp op = true) (hwf : wfOp op = true) (hne : C08.noEmptyAtoms op = true)
    (hcp : C02.capsPos op = true)
    (hnull : (mkProgram pat op mp fl false).isMatch lower [] = .ok false)
    (input : List Nat) (hlen : input.length < usizeMax) :
    C04.GoodFind ((mkProgram pat op mp fl false).matcher lower input) input.length
      (fun st => st.panic = none) := by
  constructor
  intro st pos st' m hinv hpos hfind hfailed
  refine ⟨hfailed, fun hm => ?_⟩
  subst hm
  obtain ⟨a, b, h1, h2, h3, h4, h5⟩ :=
    clean_no_zero_length pat op mp fl lower hc hwf hne hcp hnull input hlen pos hpos st st' hinv hfind
  exact ⟨a, b, h1, h2, h3, h4, h5⟩

/-- … and the matcher never fails from a clean state (the premise C04 uses besides `GoodFind`,
    restricted to the states the scan loops actually pass) -/
theorem clean_find_clean (pat : List Nat) (op : Op) (mp : Nat) (fl : CFlags) (lower : Nat → Nat)
    (hc : cleanOp op = true) (hwf : wfOp op = true) (hne : C08.noEmptyAtoms op = true)
    (input : List Nat) (hlen : input.length < usizeMax)
    (st : St) (hst : st.panic = none) (pos : Nat) (hpos : pos ≤ input.length) :
    ((mkProgram pat op mp fl false).matcher lower input).failed
      (((mkProgram pat op mp fl false).matcher lower input).find st pos).2 = none :=
  (clean_outcome pat op mp fl lower input hc hwf hne hlen pos hpos st hst).clean

/-- C04 applied, no sampled hypothesis left: the tokens produced by the scan loop over a clean
    non-nullable program are exactly the pieces between the spans of the common span sequence -/
theorem clean_tokenize_spec (pat : List Nat) (op : Op) (mp : Nat) (fl : CFlags) (lower : Nat → Nat)
    (hc : cleanOp op = true) (hwf : wfOp op = true) (hne : C08.noEmptyAtoms op = true)
    (hcp : C02.capsPos op = true)
    (hnull : (mkProgram pat op mp fl false).isMatch lower [] = .ok false)
    (input : List Nat) (hlen : input.length < usizeMax)
    (limit : Nat) (hl : input.length + 1 ≤ limit) (toks : List (List Nat)) (more : Bool)
    (h : tokenLoop ((mkProgram pat op mp fl false).matcher lower input) input limit (some 0) {} [] = .ok (toks, more)) :
    toks = Spec.pieces input 0 (C04.spanPairs (C04.spansOf ((mkProgram pat op mp fl false).matcher lower input)
      input.length (input.length + 2) 0 {})) ∧ more = false :=
  C04.tokenize_spec _ _ input (clean_goodFind pat op mp fl lower hc hwf hne hcp hnull input hlen)
    {} rfl limit hl toks more h

/-! ## 5. non-vacuity: `(a|ab)(c|bcd)(d*)` on "xabcdd" -/

section example_

/-- the tree the model's compiler builds for `(a|ab)(c|bcd)(d*)` (Props/Clean, examples) -/
def exTree : Op :=
  .seq [.capture 1 (.choice [.atom [97], .atom [97, 98]]),
        .capture 2 (.choice [.atom [99], .atom [98, 99, 100]]),
        .capture 3 (.gfixed (.atom [100]) 0 usizeMax 1),
        .endProgram]

/-- "xabcdd" -/
def exInput : List Nat := [120, 97, 98, 99, 100, 100]

def exProg : Prog := mkProgram [] exTree 4 {} false

theorem exTree_ok : cleanOp exTree = true ∧ wfOp exTree = true ∧ C08.noEmptyAtoms exTree = true ∧
    C02.capsPos exTree = true := by decide

/-- what the engine computes (kernel evaluation of the model): `is_match` is true; `matches(0)`
    reports the span (1, 6); the priority-ordered enumeration from 1 starts with 6
    (`a`·`bcd`·`d`), and there is nothing from 0 -/
theorem ex_computed :
    exProg.isMatch id exInput = .ok true ∧
    (matchesFrom (exProg.ctx id exInput) exProg 0 {}).1 = true ∧
    getParenStart (matchesFrom (exProg.ctx id exInput) exProg 0 {}).2 0 = some 1 ∧
    getParenEnd (matchesFrom (exProg.ctx id exInput) exProg 0 {}).2 0 = some 6 ∧
    enum (exProg.ctx id exInput) exProg.op 1 = [6, 5, 6, 5, 4] ∧
    enum (exProg.ctx id exInput) exProg.op 0 = [] := by decide +kernel

/-- 3a instantiated: the right-hand side holds — and it agrees with the computed answer -/
theorem ex_isMatch : ∃ j q, j ≤ exInput.length ∧ OpR (exProg.ctx id exInput) exProg.op j q :=
  (clean_isMatch_iff [] exTree 4 {} id exInput exTree_ok.1 exTree_ok.2.1 exTree_ok.2.2.1 (by decide)).1
    ex_computed.1

/-- 3b instantiated: the span the theorem predicts — least start with a match, first end of the
    priority order — is the computed span (1, 6): 1 is the least start, `enum … 1` begins with 6 -/
theorem ex_leftmost_first :
    ∃ j n, getParenStart (matchesFrom (exProg.ctx id exInput) exProg 0 {}).2 0 = some j ∧
      getParenEnd (matchesFrom (exProg.ctx id exInput) exProg 0 {}).2 0 = some n ∧
      j = 1 ∧ n = 6 ∧ (enum (exProg.ctx id exInput) exProg.op j).head? = some n ∧
      OpR (exProg.ctx id exInput) exProg.op j n ∧
      ∀ k q, k < j → ¬ OpR (exProg.ctx id exInput) exProg.op k q := by
  obtain ⟨j, n, hs, he, hh, _, _, _, hopr, hmin⟩ :=
    clean_match_is_leftmost_first [] exTree 4 {} id exInput exTree_ok.1 exTree_ok.2.1 exTree_ok.2.2.1
      exTree_ok.2.2.2 (by decide) 0 (Nat.zero_le _) {} (matchesFrom (exProg.ctx id exInput) exProg 0 {}).2 rfl
      (by
        have := ex_computed.2.1
        show matchesFrom (exProg.ctx id exInput) exProg 0 {} = _
        rw [← this])
  obtain ⟨_, _, hcs, hce, _, _⟩ := ex_computed
  have hj : j = 1 := by rw [hcs] at hs; exact (Option.some.inj hs).symm
  have hn : n = 6 := by rw [hce] at he; exact (Option.some.inj he).symm
  exact ⟨j, n, hs, he, hj, hn, hh, hopr, fun k q hk => hmin k q (Nat.zero_le _) hk⟩

/-- 3c instantiated and computed: the bare program reports the same span -/
theorem ex_bare :
    (matchesFrom ((mkBareProgram [] exTree 4 {} false).ctx id exInput) (mkBareProgram [] exTree 4 {} false) 0 {}).1 = true ∧
    getParenStart (matchesFrom ((mkBareProgram [] exTree 4 {} false).ctx id exInput) (mkBareProgram [] exTree 4 {} false) 0 {}).2 0 = some 1 ∧
    getParenEnd (matchesFrom ((mkBareProgram [] exTree 4 {} false).ctx id exInput) (mkBareProgram [] exTree 4 {} false) 0 {}).2 0 = some 6 := by
  have h := clean_opt_eq_bare [] exTree 4 {} id exInput exTree_ok.1 exTree_ok.2.1 exTree_ok.2.2.1
    exTree_ok.2.2.2 (by decide) 0 (Nat.zero_le _) {} {} rfl rfl
  obtain ⟨_, hb, hcs, hce, _, _⟩ := ex_computed
  have h1 := h.1
  have h2 := h.2 hb
  exact ⟨by rw [← h1]; exact hb, by rw [← h2.1]; exact hcs, by rw [← h2.2]; exact hce⟩

/-- 3e instantiated: the pattern is not nullable, so its matcher satisfies `GoodFind` on every input -/
theorem ex_goodFind (input : List Nat) (hlen : input.length < usizeMax) :
    C04.GoodFind (exProg.matcher id input) input.length (fun st => st.panic = none) :=
  clean_goodFind [] exTree 4 {} id exTree_ok.1 exTree_ok.2.1 exTree_ok.2.2.1 exTree_ok.2.2.2
    (by decide +kernel) input hlen

end example_

/-! ## 4. (stretch) from the pattern text

  `parse_noEmptyAtoms` / `compile_noEmptyAtoms`: the model's compiler never builds an empty literal
  for a non-literal pattern (nor for a non-empty literal one), so the hypothesis `noEmptyAtoms`
  disappears; `wfOp` and `capsPos` come from `Api.new_wf`.  What remains, for a regex accepted by
  `Regex::new`: `NoSat` (Props/Api), `cleanOp r.prog.op`, and two decidable facts these proofs
  still need — `r.prog.hasBackrefs = false` (it does NOT follow from `cleanOp`: the parser raises
  the flag for a back-reference that the quantifier `{0}` then deletes, e.g. `(a)\1{0}`,
  `flag_without_backref`; the tree is clean but the matcher runs with the back-reference arrays
  switched on, which the C05 no-panic theorems do not cover) and "not the empty pattern under flag
  `q`" (the one compiled tree with an empty literal; see Proofs/LiteralLemmas). -/

section api

private def env0 : Env :=
  { lower := id, closure := fun _ => [], category := fun _ => none, block := fun _ => none,
    digit := [], word := [], nameStart := [], nameChar := [] }

/-- `(a)\1{0}` compiles to a clean tree (the back-reference is deleted) with OPT_HASBACKREFS set -/
theorem flag_without_backref :
    (match compileCore env0 {} [40, 97, 41, 92, 49, 123, 48, 125] true with
     | .ok pr => cleanOp pr.op && pr.hasBackrefs
     | _ => false) = true := by decide +kernel

/-- the parser never builds an empty literal -/
theorem parse_noEmptyAtoms (c : PC) (fuel : Nat) (s : PS) (top : Bool) (op : Op) (s' : PS)
    (h : parseExpr c fuel s top = .ok op s') : C08.noEmptyAtoms op = true :=
  (parse_NE c fuel).1 s top op s' h

/-- `optimize` keeps that -/
theorem optimize_noEmptyAtoms (env : Env) (fl : CFlags) (op : Op) (h : C08.noEmptyAtoms op = true) :
    C08.noEmptyAtoms (optimize env fl op) = true :=
  optimize_NE env fl op h

/-- hence no compiled program has an empty literal, except the literal program for "" -/
theorem compile_noEmptyAtoms (env : Env) (fl : CFlags) (pat : List Nat) (pr : Prog)
    (h : compileCore env fl pat true = .ok pr) (hlit : fl.literal = true → pat ≠ []) :
    C08.noEmptyAtoms pr.op = true :=
  SearchComplete.compile_noEmptyAtoms env fl pat pr h hlit

theorem compile_is_mkProgram (env : Env) (fl : CFlags) (pat : List Nat) (pr : Prog)
    (h : compileCore env fl pat true = .ok pr) : ∃ op' mp hb, pr = mkProgram pat op' mp fl hb := by
  unfold compileCore at h
  by_cases hl : fl.literal = true
  · rw [if_pos hl] at h
    simp only [if_true, Out.ok.injEq] at h
    exact ⟨_, _, _, h.symm⟩
  · rw [if_neg hl] at h
    dsimp only at h
    cases hp : parseExpr { pat := pat, fl := fl, env := env } (4 * pat.length + 16) {} true with
    | err e => rw [hp] at h; cases h
    | ok op s =>
      rw [hp] at h
      dsimp only at h
      split at h
      · cases h
      · simp only [if_true, Out.ok.injEq] at h
        exact ⟨_, _, _, h.symm⟩

/-- a regex accepted by `Regex::new` whose program is clean: the program is `mkProgram` of a tree
    satisfying every hypothesis of the theorems of this file -/
theorem new_clean (env : Env) (p fs : List Nat) (xsd : Bool) (fl : Flags) (r : Regex)
    (hf : parseFlags fs xsd = some fl) (h : Regex.new env p fs xsd true = .ok r) (hns : Api.NoSat env fl p)
    (hclean : cleanOp r.prog.op = true) (hnb : r.prog.hasBackrefs = false)
    (hlit : fl.literal = true → p ≠ []) :
    ∃ pat' op' mp, r.prog = mkProgram pat' op' mp fl.core false ∧ cleanOp op' = true ∧ wfOp op' = true ∧
      C08.noEmptyAtoms op' = true ∧ C02.capsPos op' = true := by
  obtain ⟨hwf, hcp, _, _⟩ := Api.new_wf env p fs xsd fl r hf h hns
  have hcomp : compileProg env fl p true = .ok r.prog := by
    unfold Regex.new at h
    rw [hf] at h
    dsimp only at h
    cases hc : compileProg env fl p true with
    | ok pr =>
      rw [hc] at h
      dsimp only at h
      cases hn : pr.nullable env.lower with
      | ok n => rw [hn] at h; simp only [Out.ok.injEq] at h; subst h; rfl
      | err e => rw [hn] at h; cases h
      | panic c => rw [hn] at h; cases h
      | diverge => rw [hn] at h; cases h
    | err e => rw [hc] at h; cases h
    | panic c => rw [hc] at h; cases h
    | diverge => rw [hc] at h; cases h
  unfold compileProg at hcomp
  have hlit' : fl.core.literal = true →
      (if (!fl.literal && fl.allowWs) = true then stripWs p 0 false else p) ≠ [] := by
    intro hl
    have hl' : fl.literal = true := hl
    rw [hl']
    simp only [Bool.not_true, Bool.false_and, Bool.false_eq_true, if_false]
    exact hlit hl'
  have hne := SearchComplete.compile_noEmptyAtoms env fl.core _ r.prog hcomp hlit'
  obtain ⟨op', mp, hb, heq⟩ := compile_is_mkProgram env fl.core _ r.prog hcomp
  obtain ⟨hop, hhb⟩ := WF.mkProgram_op (if (!fl.literal && fl.allowWs) = true then stripWs p 0 false else p)
    op' mp fl.core hb
  rw [heq] at hclean hwf hcp hne hnb
  rw [hhb] at hnb
  subst hnb
  rw [hop] at hclean hwf hcp hne
  rw [SearchComplete.cleanOp_numberReps] at hclean
  rw [WF.wfOp_numberReps] at hwf
  rw [WF.capsPos_numberReps] at hcp
  rw [ApiL.noEmptyAtoms_numberReps] at hne
  exact ⟨_, op', mp, heq, hclean, hwf, hne, hcp⟩

/-- 3a from the pattern text: C01 in both directions -/
theorem api_clean_isMatch_iff (env : Env) (p fs : List Nat) (xsd : Bool) (fl : Flags) (r : Regex)
    (hf : parseFlags fs xsd = some fl) (h : Regex.new env p fs xsd true = .ok r) (hns : Api.NoSat env fl p)
    (hclean : cleanOp r.prog.op = true) (hnb : r.prog.hasBackrefs = false)
    (hlit : fl.literal = true → p ≠ [])
    (input : List Nat) (hlen : input.length < usizeMax) :
    (r.prog.isMatch env.lower input = .ok true ↔
      ∃ j q, j ≤ input.length ∧ OpR (r.prog.ctx env.lower input) r.prog.op j q) ∧
    ((¬ ∃ j q, j ≤ input.length ∧ OpR (r.prog.ctx env.lower input) r.prog.op j q) →
      r.prog.isMatch env.lower input = .ok false) := by
  obtain ⟨pat', op', mp, heq, hc, hw, hne, _⟩ := new_clean env p fs xsd fl r hf h hns hclean hnb hlit
  rw [heq]
  exact ⟨clean_isMatch_iff pat' op' mp fl.core env.lower input hc hw hne hlen,
    clean_isMatch_false pat' op' mp fl.core env.lower input hc hw hne hlen⟩

/-- 3b from the pattern text: C02, leftmost start and ordered-choice-first end -/
theorem api_clean_match_is_leftmost_first (env : Env) (p fs : List Nat) (xsd : Bool) (fl : Flags) (r : Regex)
    (hf : parseFlags fs xsd = some fl) (h : Regex.new env p fs xsd true = .ok r) (hns : Api.NoSat env fl p)
    (hclean : cleanOp r.prog.op = true) (hnb : r.prog.hasBackrefs = false)
    (hlit : fl.literal = true → p ≠ [])
    (input : List Nat) (hlen : input.length < usizeMax)
    (i : Nat) (hi : i ≤ input.length) (st st' : St) (hst : st.panic = none)
    (hm : matchesFrom (r.prog.ctx env.lower input) r.prog i st = (true, st')) :
    ∃ j n, getParenStart st' 0 = some j ∧ getParenEnd st' 0 = some n ∧
      (enum (r.prog.ctx env.lower input) r.prog.op j).head? = some n ∧
      i ≤ j ∧ j ≤ n ∧ n ≤ input.length ∧ OpR (r.prog.ctx env.lower input) r.prog.op j n ∧
      ∀ k q, i ≤ k → k < j → ¬ OpR (r.prog.ctx env.lower input) r.prog.op k q := by
  obtain ⟨pat', op', mp, heq, hc, hw, hne, hcp⟩ := new_clean env p fs xsd fl r hf h hns hclean hnb hlit
  rw [heq] at hm ⊢
  exact clean_match_is_leftmost_first pat' op' mp fl.core env.lower input hc hw hne hcp hlen i hi st st' hst hm

/-- 3c from the pattern text: C08 with full result equality, against the search without shortcuts -/
theorem api_clean_opt_eq_noopt (env : Env) (p fs : List Nat) (xsd : Bool) (fl : Flags) (r : Regex)
    (hf : parseFlags fs xsd = some fl) (h : Regex.new env p fs xsd true = .ok r) (hns : Api.NoSat env fl p)
    (hclean : cleanOp r.prog.op = true) (hnb : r.prog.hasBackrefs = false)
    (hlit : fl.literal = true → p ≠ [])
    (input : List Nat) (hlen : input.length < usizeMax)
    (i : Nat) (hi : i ≤ input.length) (st1 st2 : St) (h1 : st1.panic = none) (h2 : st2.panic = none) :
    (matchesFrom (r.prog.ctx env.lower input) r.prog i st1).1 =
      (matchesNaive (r.prog.ctx env.lower input) r.prog.op i st2).1 ∧
    ((matchesFrom (r.prog.ctx env.lower input) r.prog i st1).1 = true →
      getParenStart (matchesFrom (r.prog.ctx env.lower input) r.prog i st1).2 0 =
        getParenStart (matchesNaive (r.prog.ctx env.lower input) r.prog.op i st2).2 0 ∧
      getParenEnd (matchesFrom (r.prog.ctx env.lower input) r.prog i st1).2 0 =
        getParenEnd (matchesNaive (r.prog.ctx env.lower input) r.prog.op i st2).2 0) := by
  obtain ⟨pat', op', mp, heq, hc, hw, hne, hcp⟩ := new_clean env p fs xsd fl r hf h hns hclean hnb hlit
  rw [heq]
  exact clean_opt_eq_noopt pat' op' mp fl.core env.lower input hc hw hne hcp hlen i hi st1 st2 h1 h2

/-- 3e from the pattern text: a regex that passes the nullability gate (`r.nullable = false`)
    drives the scan loops with a matcher satisfying C04's `GoodFind` -/
theorem api_clean_goodFind (env : Env) (p fs : List Nat) (xsd : Bool) (fl : Flags) (r : Regex)
    (hf : parseFlags fs xsd = some fl) (h : Regex.new env p fs xsd true = .ok r) (hns : Api.NoSat env fl p)
    (hclean : cleanOp r.prog.op = true) (hnb : r.prog.hasBackrefs = false)
    (hlit : fl.literal = true → p ≠ []) (hnull : r.nullable = false)
    (input : List Nat) (hlen : input.length < usizeMax) :
    C04.GoodFind (r.prog.matcher env.lower input) input.length (fun st => st.panic = none) := by
  obtain ⟨pat', op', mp, heq, hc, hw, hne, hcp⟩ := new_clean env p fs xsd fl r hf h hns hclean hnb hlit
  have hn := C16.new_nullable env p fs xsd true r h
  rw [hnull, heq] at hn
  rw [heq]
  exact clean_goodFind pat' op' mp fl.core env.lower hc hw hne hcp hn input hlen

end api

end Rx.CleanComplete
