/-
  Props/C03f — captured groups and back-references in programs that ALSO contain capture-free
  VARIABLE-LENGTH repeats (C03, C19):  `(a+)(?:bc|d)+?\1`,  `(x)(?:ab|c)+(y)\2`.

  Props/C03b proves "the reported groups are the spans set on the selected path, a back-reference compares
  against exactly the text its group captured on this path" on `straightCaps`, which has no general
  repeat `.rep`.  Props/Clean3 / Clean4 show that a general repeat whose body is in `cleanOp2`, non-nullable
  and end-deterministic (greedy: `1 ≤ mn`; reluctant: any `mn`) is an exact state-independent enumerator.
  Here the two are joined: the fragment `straightCaps3` (Spec/PathCaps3) = `straightCaps` plus the node
      `.rep id c mn mx g`  with  `cleanOp4F … (.rep id c mn mx g)`  (the Clean4 side conditions)  and
                           `noCapBr c`  (no capture, no back-reference inside; `cleanOp2` alone allows
                           `.capture`)
  in straight-line position next to groups and back-references.  `enumC3` = `enumC` with the ends of the
  new node as in `enum4` and the environment passed through unchanged.  The path semantics `PathR`, the
  representation predicate `ReprOff / Repr` and the scoping predicate `scopeOK` are those of Spec/PathCaps.

  Side conditions (all decidable, `progOK3`): those of C03b (`wfOp`, `C02.capsPos`, `scopeOK`, `Nodup`) and
  those of Clean4 (`noEmptyAtoms`, `clsCanonB`); on the input `InputOK env ctx`.

  Proved:
    0  `frame_lemma`, `frame_caps`   a capture-free, back-reference-free tree (ANY node kinds) leaves the
                                     capture arrays and the back-reference arrays as they are, at every
                                     yield and at exhaustion
       `rep_node`                    node level: the repeat yields exactly its `enum4` ends, the environment
                                     and the arrays representing it unchanged
    1  `sem_enumC3`, `sem_sound_caps3`   the stream theorem (exact list of (end, environment) pairs in priority
                                     order, the arrays REPRESENT the environment at every yield)
    2  `enumC3_iff_PathR`            the enumeration lists exactly the paths
    3  `matchAt_caps3`, `matchAt_caps3_no_panic`   after `match_at` every reported group is exactly the span
                                     set on the FIRST path in priority order; no panic, no fuel exhausted
    4  `backref_exact3`              a `\g` step of a path of the enlarged fragment is an exact copy
    5  `straightCaps3_of_straightCaps`   the fragment of C03b is inside
    6  examples on compiled programs, kernel-evaluated.
  Nothing had to be weakened or refuted.  Not done here: the nesting statement (`groups_nested`) for the
  enlarged fragment (the C03b proof goes through `PathR_inside / PathR_capNodes`, which would have to be
  repeated with the new node; the new node binds no group, so nothing new happens there).
-/
import RxModel.Spec.PathCaps3
import RxModel.Proofs.PathCaps3Lemmas
import RxModel.Props.C03b
import RxModel.Props.C06b
import RxModel.Props.Clean4
namespace Rx.C03f
open Rx
open Rx.C08 (noEmptyAtoms noEmptyAtomsL clsCanon clsCanonL)

/-! ### 0. the frame lemma and the node -/

/-- **frame lemma (generic).**  `I` is any state invariant kept by `clear_captured_groups_beyond(pos)` for
    `pos ≥ p0`, by the divergence marker, by the sequence restore, by the group-0 end write and by writes of
    the zero-length-match memo.  The iterator of a capture-free, back-reference-free tree — general repeats
    and `unamb` included — started at `p ≥ p0` in a state with `I` keeps `I` at every yield, under every
    consumer that hands back states with `I`, and at exhaustion. -/
theorem frame_lemma {p0 : Nat} {I : St → Prop} (W : WritesFrom p0 I)
    (hh : ∀ st (h : List (Nat × Nat)), I st → I { st with hist := h }) (ctx : Ctx) (op : Op)
    (hc : noCapBr op = true) (hwf : wfOp op = true) (p : Nat) (hp0 : p0 ≤ p) (hp : p ≤ ctx.len) (st : St)
    (hst : I st) : (sem ctx op p st).Inv I :=
  frame_inv W hh ctx op hc hwf p st ⟨hp0, hp⟩ hst

/-- **frame lemma for the capture arrays**: the reported arrays and the arrays back-references read
    represent the same environment `e` at every yield and at exhaustion -/
theorem frame_caps (ctx : Ctx) (op : Op) (hc : noCapBr op = true) (hwf : wfOp op = true)
    (T : List Nat) (e : CEnv) (lo p : Nat) (hpl : p ≤ ctx.len) (he : EnvIn e lo p) (st : St)
    (hst : ReprOff ctx T st e) : (sem ctx op p st).Inv (fun st' => ReprOff ctx T st' e) :=
  frame_repr ctx op hc hwf T e lo p hpl he st hst

example : noCapBr (.rep 1 (.choice [.atom [98, 99], .unamb (.atom [100]) 1 3]) 0 5 true) = true := by decide

/-- **node level.**  The capture-free repeat, started in a state representing `e`, yields exactly
    `enum4` (greedy: most iterations first; reluctant: fewest first) paired with `e`, the arrays still
    representing `e` every time and at the end -/
theorem rep_node (env : Env) (ctx : Ctx) (hI : InputOK env ctx) (id : Nat) (c : Op) (mn mx : Nat) (g : Bool)
    (hs : straightCaps3 env ctx.caseBlind ctx.multiLine (.rep id c mn mx g) = true)
    (hwf : wfOp (.rep id c mn mx g) = true) (hne : noEmptyAtoms (.rep id c mn mx g) = true)
    (hcan : clsCanonB (.rep id c mn mx g) = true)
    (T : List Nat) (e : CEnv) (lo p : Nat) (hpl : p ≤ ctx.len) (he : EnvIn e lo p) (st : St)
    (hst : ReprOff ctx T st e) :
    Step.SeqC (ReprOff ctx T) (fun st' => ReprOff ctx T st' e) (sem ctx (.rep id c mn mx g) p st)
      ((enum4 ctx (.rep id c mn mx g) p).map (fun q => (q, e))) :=
  rep_seqC env ctx hI id c mn mx g hs hwf hne (clsCanon_of_B _ hcan) T e lo p hpl he st hst

/-! ### 1. the stream theorem -/

/-- **exactness** (cf. `C03b.sem_enumC`): the iterator yields exactly `enumC3 ctx op p e`, each time in a
    state whose arrays represent the environment of that very path (off `fut`), and ends in a state that
    represents `e` again — under every consumer that resumes it with a state still representing the
    environment of the last yield -/
theorem sem_enumC3 (env : Env) (ctx : Ctx) (hI : InputOK env ctx) (op : Op)
    (hs : straightCaps3 env ctx.caseBlind ctx.multiLine op = true) (hwf : wfOp op = true)
    (hne : noEmptyAtoms op = true) (hcan : clsCanonB op = true)
    (cl fut : List Nat) (hsc : scopeOK ctx.hasBackrefs ctx.maxParens op cl fut = true)
    (lo p : Nat) (e : CEnv) (st : St) (hp : p ≤ ctx.len) (hlo : lo ≤ p) (he : EnvIn e lo p) (hd : Dom cl e)
    (hst : ReprOff ctx (capsOf op ++ fut) st e) :
    Step.SeqC (ReprOff ctx fut) (fun st' => ReprOff ctx (capsOf op ++ fut) st' e) (sem ctx op p st)
      (enumC3 ctx op p e) :=
  sem_seqC3 env ctx hI lo op hs hwf hne (clsCanon_of_B op hcan) cl fut hsc p e st hp hlo he hd hst

/-- **soundness with captures** (cf. `C03b.sem_sound_caps`) -/
theorem sem_sound_caps3 (env : Env) (ctx : Ctx) (hI : InputOK env ctx) (op : Op)
    (hs : straightCaps3 env ctx.caseBlind ctx.multiLine op = true) (hwf : wfOp op = true)
    (hne : noEmptyAtoms op = true) (hcan : clsCanonB op = true)
    (cl fut : List Nat) (hsc : scopeOK ctx.hasBackrefs ctx.maxParens op cl fut = true)
    (lo p : Nat) (e : CEnv) (st : St) (hp : p ≤ ctx.len) (hlo : lo ≤ p) (he : EnvIn e lo p) (hd : Dom cl e)
    (hst : ReprOff ctx (capsOf op ++ fut) st e) :
    Step.Caps (ReprOff ctx fut)
      (fun q e' => PathR ctx op p e q e' ∧ p ≤ q ∧ q ≤ ctx.len ∧ EnvIn e' lo q ∧ Dom (capsOf op ++ cl) e')
      (fun st' => ReprOff ctx (capsOf op ++ fut) st' e) (sem ctx op p st) :=
  (sem_enumC3 env ctx hI op hs hwf hne hcan cl fut hsc lo p e st hp hlo he hd hst).caps (fun x hx =>
    have f := enumC3_facts env ctx hI lo op hs hwf hne (clsCanon_of_B op hcan) cl p e hp hlo he hd x hx
    ⟨f.path, f.le, f.len, f.env, f.dom⟩)

/-! ### 2. the enumeration lists exactly the paths -/

theorem enumC3_iff_PathR (env : Env) (ctx : Ctx) (hI : InputOK env ctx) (op : Op)
    (hs : straightCaps3 env ctx.caseBlind ctx.multiLine op = true) (hwf : wfOp op = true)
    (hne : noEmptyAtoms op = true) (hcan : clsCanonB op = true)
    (lo p : Nat) (e : CEnv) (hp : p ≤ ctx.len) (hlo : lo ≤ p) (he : EnvIn e lo p) (q : Nat) (e' : CEnv) :
    (q, e') ∈ enumC3 ctx op p e ↔ PathR ctx op p e q e' :=
  ⟨fun h => (enumC3_facts env ctx hI lo op hs hwf hne (clsCanon_of_B op hcan) [] p e hp hlo he (Dom.nil e)
      (q, e') h).path,
   fun h => enumC3_complete env ctx hI op hs hwf hne (clsCanon_of_B op hcan) p e q e' hp h⟩

/-! ### 3. `match_at` -/

/-- **`match_at` reports the captures of the selected path** (cf. `C03b.matchAt_caps`): after a successful
    `match_at(i)` there are an end `n` and an environment `e'` such that `(n, e')` is a path of the
    semantics from `(i, ∅)` and it is the FIRST one in priority order (`enumC3 … .head?`: ordered choice,
    greedy-longest, reluctant-shortest — also for the variable-length repeats); group 0 is `(i, n)`; the
    final state represents `e'` (every group `g ≥ 1`: reported arrays and back-reference arrays hold exactly
    `e' g`); every span lies inside `(i, n)`; exactly the groups of the tree are bound. -/
theorem matchAt_caps3 (env : Env) (ctx : Ctx) (hI : InputOK env ctx) (op : Op)
    (hs : straightCaps3 env ctx.caseBlind ctx.multiLine op = true) (hwf : wfOp op = true)
    (hne : noEmptyAtoms op = true) (hcan : clsCanonB op = true)
    (hcp : C02.capsPos op = true) (hsc : scopeOK ctx.hasBackrefs ctx.maxParens op [] [] = true)
    (i : Nat) (hi : i ≤ ctx.len) (st0 st' : St) (h0 : CapsClear op st0) (hp0 : st0.panic = none)
    (h : matchAt ctx op i st0 = (true, st')) :
    ∃ n e', PathR ctx op i CEnv.empty n e' ∧ (enumC3 ctx op i CEnv.empty).head? = some (n, e') ∧
      getParenStart st' 0 = some i ∧ getParenEnd st' 0 = some n ∧ i ≤ n ∧ n ≤ ctx.len ∧
      Repr ctx st' e' ∧ EnvIn e' i n ∧ (∀ g, g ∈ capsOf op ↔ (e' g).isSome = true) := by
  have hcc := clsCanon_of_B op hcan
  obtain ⟨hg0, n0, hg0e, _, _, _⟩ := C02.matchAt_span ctx op hwf hcp i hi st0 st' h
  have hrepr := matchStart_repr ctx op i st0 h0 (.inl hp0)
  have hseq := sem_seqC3 env ctx hI i op hs hwf hne hcc [] [] hsc i CEnv.empty (matchStart ctx i st0) hi
    (Nat.le_refl _) (EnvIn.empty _ _) (Dom.nil _) hrepr
  have hfacts := enumC3_facts env ctx hI i op hs hwf hne hcc [] i CEnv.empty hi (Nat.le_refl _)
    (EnvIn.empty _ _) (Dom.nil _)
  rw [matchAt_eq] at h
  generalize hl : enumC3 ctx op i CEnv.empty = l at hseq hfacts
  generalize sem ctx op i (matchStart ctx i st0) = s at h hseq
  cases hseq with
  | nil st hn => simp at h
  | cons n st r e' l' hr _ =>
    simp only [Prod.mk.injEq, true_and] at h
    subst h
    have f := hfacts (n, e') List.mem_cons_self
    have hend : getParenEnd { st with cap := st.cap.setEnd 0 n } 0 = some n := by
      simp only [getParenEnd, Cap.setEnd]
      exact getO_setAt_zero _ _
    refine ⟨n, e', f.path, rfl, hg0, hend, f.le, f.len, hr.setEnd0 n, f.env, fun g => ⟨fun hg => ?_, fun hg => ?_⟩⟩
    · exact f.dom g (by simpa using hg)
    · apply Classical.byContradiction
      intro hng
      have := PathR_frame3 env _ _ ctx op hs i CEnv.empty n e' f.path g hng
      rw [this] at hg
      simp [CEnv.empty] at hg

mutual
theorem straight3_unambLeaf (env : Env) (cb ml : Bool) : (op : Op) → straightCaps3 env cb ml op = true →
    noEmptyAtoms op = true → C06b.unambLeaf op = true
  | .bol, _, _ | .eol, _, _ | .nothing, _, _ | .endProgram, _, _ | .atom _, _, _ | .cls _, _, _
  | .backref _, _, _ => rfl
  | .unamb _ _ _, h, _ => by simp [straightCaps3] at h
  | .capture _ c, h, hne => by
    simp only [straightCaps3] at h; simp only [noEmptyAtoms] at hne
    simp only [C06b.unambLeaf]; exact straight3_unambLeaf env cb ml c h hne
  | .seq ops, h, hne => by
    simp only [straightCaps3] at h; simp only [noEmptyAtoms] at hne
    simp only [C06b.unambLeaf]; exact straight3_unambLeafL env cb ml ops h hne
  | .choice bs, h, _ =>
    C06b.smallMin_unambLeaf 0 _ (Clean.clean_smallMin 0 (.choice bs)
      (plain_clean _ (by simpa only [straightCaps3, plainOp] using h)))
  | .gfixed c mn mx l, h, _ =>
    C06b.smallMin_unambLeaf 0 _ (Clean.clean_smallMin 0 (.gfixed c mn mx l)
      (plain_clean _ (by simpa only [straightCaps3, plainOp] using h)))
  | .rfixed c mn mx l, h, _ =>
    C06b.smallMin_unambLeaf 0 _ (Clean.clean_smallMin 0 (.rfixed c mn mx l)
      (plain_clean _ (by simpa only [straightCaps3, plainOp] using h)))
  | .rep id c mn mx g, h, hne =>
    SearchComplete.clean4_unambLeaf env cb ml (.rep id c mn mx g) false [] (rep3_split h).1 hne
termination_by structural op => op
theorem straight3_unambLeafL (env : Env) (cb ml : Bool) : (ops : List Op) →
    straightCaps3L env cb ml ops = true → noEmptyAtomsL ops = true → C06b.unambLeafL ops = true
  | [], _, _ => rfl
  | o :: os, h, hne => by
    simp only [straightCaps3L, Bool.and_eq_true] at h
    simp only [noEmptyAtomsL, Bool.and_eq_true] at hne
    simp only [C06b.unambLeafL, Bool.and_eq_true]
    exact ⟨straight3_unambLeaf env cb ml o h.1 hne.1, straight3_unambLeafL env cb ml os h.2 hne.2⟩
termination_by structural ops => ops
end

/-- a successful `match_at` on the enlarged fragment leaves the panic marker clear: neither a back-reference
    nor a capture indexes outside its array, `e - s` never underflows, no fuel runs out — also not the
    fuels of the variable-length repeats, whatever the reluctant minimum -/
theorem matchAt_caps3_no_panic (env : Env) (ctx : Ctx) (hI : InputOK env ctx) (op : Op)
    (hs : straightCaps3 env ctx.caseBlind ctx.multiLine op = true) (hwf : wfOp op = true)
    (hne : noEmptyAtoms op = true) (hcan : clsCanonB op = true)
    (hcp : C02.capsPos op = true) (hsc : scopeOK ctx.hasBackrefs ctx.maxParens op [] [] = true)
    (i : Nat) (hi : i ≤ ctx.len) (st0 st' : St) (h0 : CapsClear op st0) (hp0 : st0.panic = none)
    (h : matchAt ctx op i st0 = (true, st')) : st'.panic = none := by
  obtain ⟨n, e', _, _, _, _, _, _, hrep, _, _⟩ :=
    matchAt_caps3 env ctx hI op hs hwf hne hcan hcp hsc i hi st0 st' h0 hp0 h
  have hnd := C06b.matchAt_no_diverge_all ctx op hwf (straight3_unambLeaf env _ _ op hs hne) i hi st0
    (by unfold C06.NoDivMark; rw [hp0]; exact fun hc => by cases hc)
  rw [h] at hnd
  rcases hrep.np with hnp | hnp
  · exact hnp
  · exact absurd hnp hnd

/-! ### 4. a back-reference step is an exact copy (the path semantics is that of C03b) -/

/-- on the selected path of `matchAt_caps3`, a `\g` step from `p` to `q` in an environment binding
    `g ↦ (a, b)` consumes exactly `b - a` characters, inside the input, pointwise equal (case-blind under
    flag i) to the captured text, and leaves the environment unchanged; an unbound group matches the empty
    string -/
theorem backref_exact3 (ctx : Ctx) (g p q : Nat) (e e' : CEnv) (h : PathR ctx (.backref g) p e q e') :
    e' = e ∧
    (∀ a b, e g = some (a, b) → q = p + (b - a) ∧ q ≤ ctx.len ∧
      ∀ k, k < b - a → ∃ x y, ctx.input[p + k]? = some x ∧ ctx.input[a + k]? = some y ∧ ctx.eqAt x y = true) ∧
    (e g = none → q = p) := by
  refine ⟨by simp only [PathR] at h; exact h.1, fun a b hg => ?_, fun hg => ?_⟩
  · exact (C03b.backref_exact_some ctx g p q e e' a b hg h).2
  · exact ((C03b.backref_exact_none ctx g p q e e' hg).1 h).2

/-! ### 5. the old fragment is inside, with the same enumeration -/

mutual
theorem straightCaps3_of_straightCaps (env : Env) (cb ml : Bool) : (op : Op) → straightCaps op = true →
    straightCaps3 env cb ml op = true
  | .bol, _ | .eol, _ | .nothing, _ | .endProgram, _ | .atom _, _ | .cls _, _ | .backref _, _ => rfl
  | .rep _ _ _ _ _, h | .unamb _ _ _, h => by simp [straightCaps] at h
  | .capture _ c, h => by
    simp only [straightCaps] at h; simp only [straightCaps3]; exact straightCaps3_of_straightCaps env cb ml c h
  | .seq ops, h => by
    simp only [straightCaps] at h; simp only [straightCaps3]; exact straightCaps3L_of_straightCapsL env cb ml ops h
  | .choice _, h => by simpa only [straightCaps, straightCaps3] using h
  | .gfixed _ _ _ _, h => by simpa only [straightCaps, straightCaps3] using h
  | .rfixed _ _ _ _, h => by simpa only [straightCaps, straightCaps3] using h
termination_by structural op => op
theorem straightCaps3L_of_straightCapsL (env : Env) (cb ml : Bool) : (ops : List Op) →
    straightCapsL ops = true → straightCaps3L env cb ml ops = true
  | [], _ => rfl
  | o :: os, h => by
    simp only [straightCapsL, Bool.and_eq_true] at h
    simp only [straightCaps3L, Bool.and_eq_true]
    exact ⟨straightCaps3_of_straightCaps env cb ml o h.1, straightCaps3L_of_straightCapsL env cb ml os h.2⟩
termination_by structural ops => ops
end

/-! ### 6. non-vacuity: compiled programs -/
section examples

private def env0 : Env :=
  { lower := id, closure := fun _ => [], category := fun _ => none, block := fun _ => none,
    digit := [], word := [], nameStart := [], nameChar := [] }

/-- every hypothesis of `matchAt_caps3` on the program side -/
def progOK3 (env : Env) (cb ml hbr : Bool) (mp : Nat) (op : Op) : Bool :=
  straightCaps3 env cb ml op && wfOp op && noEmptyAtoms op && clsCanonB op && C02.capsPos op &&
    scopeOK hbr mp op [] [] && decide (capsOf op).Nodup

private def compiledIs (c : Out Prog) (t : Op) (hbr : Bool) (mp : Nat) : Bool :=
  match c with
  | .ok pr => opEq pr.op t && (pr.hasBackrefs == hbr) && (pr.maxParens == mp) && !pr.caseBlind && !pr.multiLine &&
      progOK3 env0 pr.caseBlind pr.multiLine pr.hasBackrefs pr.maxParens pr.op
  | _ => false

private def ctxOf (mp : Nat) (input : List Nat) : Ctx :=
  { input := input, caseBlind := false, multiLine := false, hasBackrefs := true, maxParens := mp, lower := id }

private theorem ctxOf_ok (mp : Nat) (input : List Nat) (h1 : ∀ c ∈ input, c < cpLimit)
    (h2 : ∀ c ∈ input, isSurrogate c = false) : InputOK env0 (ctxOf mp input) :=
  .of_caseSensitive rfl (fun _ _ h => by cases h) h1 h2

private def groups3 (st' : St) :
    Option Nat × Option Nat × Option Nat × Option Nat × Option Nat × Option Nat :=
  (getParenStart st' 0, getParenEnd st' 0, getParenStart st' 1, getParenEnd st' 1,
   getParenStart st' 2, getParenEnd st' 2)

private theorem matchAt_mk {ctx : Ctx} {op : Op} {i : Nat} {st : St} (h : (matchAt ctx op i st).1 = true) :
    matchAt ctx op i st = (true, (matchAt ctx op i st).2) := by
  rw [← h]

/-- what `matchAt_caps3` + `matchAt_caps3_no_panic` give for a fresh state -/
private def Conclusion (ctx : Ctx) (op : Op) (i : Nat) : Prop :=
  let st' := (matchAt ctx op i {}).2
  (∃ n e', PathR ctx op i CEnv.empty n e' ∧ (enumC3 ctx op i CEnv.empty).head? = some (n, e') ∧
      getParenStart st' 0 = some i ∧ getParenEnd st' 0 = some n ∧ i ≤ n ∧ n ≤ ctx.len ∧
      Repr ctx st' e' ∧ EnvIn e' i n ∧ (∀ g, g ∈ capsOf op ↔ (e' g).isSome = true)) ∧
  st'.panic = none

private theorem conclusion_of (ctx : Ctx) (hI : InputOK env0 ctx) (op : Op) (i : Nat)
    (hok : progOK3 env0 ctx.caseBlind ctx.multiLine ctx.hasBackrefs ctx.maxParens op = true)
    (hi : i ≤ ctx.len) (hm : (matchAt ctx op i {}).1 = true) : Conclusion ctx op i := by
  simp only [progOK3, Bool.and_eq_true, decide_eq_true_eq] at hok
  obtain ⟨⟨⟨⟨⟨⟨h1, h2⟩, h3⟩, h4⟩, h5⟩, h6⟩, _⟩ := hok
  exact ⟨matchAt_caps3 env0 ctx hI op h1 h2 h3 h4 h5 h6 i hi {} _ (capsClear_of_nil op {} rfl rfl) rfl
      (matchAt_mk hm),
    matchAt_caps3_no_panic env0 ctx hI op h1 h2 h3 h4 h5 h6 i hi {} _ (capsClear_of_nil op {} rfl rfl) rfl
      (matchAt_mk hm)⟩

/-! `(a+)(?:bc|d)+?\1` on "aabcdaa": the reluctant repeat first stops after `bc` (the back-reference then
    fails on "da"), is resumed, stops after `bcd`, and `\1` = "aa" matches -/
private def t1 : Op :=
  .seq [.capture 1 (.gfixed (.atom [97]) 1 usizeMax 1),
        .rep 1 (.choice [.atom [98, 99], .atom [100]]) 1 usizeMax false, .backref 1, .endProgram]
example : compiledIs (compileCore env0 {} [40,97,43,41,40,63,58,98,99,124,100,41,43,63,92,49] true) t1 true 2 = true := by
  decide +kernel
example : progOK3 env0 false false true 2 t1 = true := by decide +kernel
/-- the theorems apply … -/
example : Conclusion (ctxOf 2 [97, 97, 98, 99, 100, 97, 97]) t1 0 :=
  conclusion_of _ (ctxOf_ok _ _ (by decide) (by decide)) _ _ (by decide +kernel) (by decide) (by decide +kernel)
/-- … and this is what they talk about: the computed final state and the computed first path agree; the
    enumeration has a single path (the one with TWO iterations of the repeat) -/
example :
    groups3 (matchAt (ctxOf 2 [97, 97, 98, 99, 100, 97, 97]) t1 0 {}).2 =
      (some 0, some 7, some 0, some 2, none, none) ∧
    (enumC3 (ctxOf 2 [97, 97, 98, 99, 100, 97, 97]) t1 0 CEnv.empty).map (fun x => (x.1, x.2 1, x.2 2)) =
      [(7, some (0, 2), none)] := ⟨by decide +kernel, by decide +kernel⟩
/-- the node alone, from 2: the ends for 1, 2 iterations, fewest first, the environment untouched -/
example :
    (enumC3 (ctxOf 2 [97, 97, 98, 99, 100, 97, 97]) (.rep 1 (.choice [.atom [98, 99], .atom [100]]) 1 usizeMax false)
      2 (CEnv.empty.set 1 0 2)).map (fun x => (x.1, x.2 1)) = [(4, some (0, 2)), (5, some (0, 2))] := by
  decide +kernel

/-! `(x)(?:ab|c)+(y)\2` on "xabcyy": a greedy variable-length repeat between two groups -/
private def t2 : Op :=
  .seq [.capture 1 (.atom [120]), .rep 1 (.choice [.atom [97, 98], .atom [99]]) 1 usizeMax true,
        .capture 2 (.atom [121]), .backref 2, .endProgram]
example : compiledIs (compileCore env0 {} [40,120,41,40,63,58,97,98,124,99,41,43,40,121,41,92,50] true) t2 true 3 = true := by
  decide +kernel
example : Conclusion (ctxOf 3 [120, 97, 98, 99, 121, 121]) t2 0 :=
  conclusion_of _ (ctxOf_ok _ _ (by decide) (by decide)) _ _ (by decide +kernel) (by decide) (by decide +kernel)
example :
    groups3 (matchAt (ctxOf 3 [120, 97, 98, 99, 121, 121]) t2 0 {}).2 =
      (some 0, some 6, some 0, some 1, some 4, some 5) ∧
    (enumC3 (ctxOf 3 [120, 97, 98, 99, 121, 121]) t2 0 CEnv.empty).map (fun x => (x.1, x.2 1, x.2 2)) =
      [(6, some (0, 1), some (4, 5))] := ⟨by decide +kernel, by decide +kernel⟩

/-- hypotheses of the node-level theorem and of the frame lemma are satisfiable: the repeat of `t1` -/
example : straightCaps3 env0 false false (.rep 1 (.choice [.atom [98, 99], .atom [100]]) 1 usizeMax false) = true ∧
    noCapBr (.rep 1 (.choice [.atom [98, 99], .atom [100]]) 1 usizeMax false) = true := by decide +kernel

end examples

end Rx.C03f
