/-
  Props/C02 — matches are leftmost, non-overlapping and chosen by ordered-choice priority
  (the part of the statement that is a theorem about E).

  Proved here: a successful `matches(i)` reports a span `(a, b)` with `i ≤ a ≤ b ≤ len` which is a
  member of the program's language (`OpR`), `a` is the first candidate start position whose
  iterator yields anything and `b` is that iterator's first result; driven by any scan loop the
  spans are strictly left to right and disjoint (C04.spans_ordered).  Offsets are code points by
  construction of the model.  The strict ordered-choice clause is established by correspondence
  with the ordered reference (bin/refmatch.py), not by a theorem.
-/
import RxModel.Spec.OpLang
import RxModel.Model.Api
import RxModel.Proofs.InvLemmas
namespace Rx.C02
open Rx

mutual
/-- every capturing group of the tree has a number ≥ 1 (group 0 is the whole match) -/
def capsPos : Op → Bool
  | .capture g c => decide (1 ≤ g) && capsPos c
  | .choice bs => capsPosL bs
  | .seq ops => capsPosL ops
  | .rep _ c _ _ _ => capsPos c
  | .gfixed c _ _ _ => capsPos c
  | .rfixed c _ _ _ => capsPos c
  | .unamb c _ _ => capsPos c
  | _ => true
termination_by structural o => o
def capsPosL : List Op → Bool
  | [] => true
  | o :: os => capsPos o && capsPosL os
termination_by structural l => l
end

mutual
theorem capsPos_eq : (op : Op) → capsPos op = capsPosOp op
  | .bol | .eol | .nothing | .endProgram => by simp only [capsPos, capsPosOp]
  | .atom _ | .cls _ | .backref _ => by simp only [capsPos, capsPosOp]
  | .capture g c => by simp only [capsPos, capsPosOp, capsPos_eq c]
  | .choice bs => by simp only [capsPos, capsPosOp, capsPosL_eq bs]
  | .seq ops => by simp only [capsPos, capsPosOp, capsPosL_eq ops]
  | .rep _ c _ _ _ => by simp only [capsPos, capsPosOp, capsPos_eq c]
  | .gfixed c _ _ _ => by simp only [capsPos, capsPosOp, capsPos_eq c]
  | .rfixed c _ _ _ => by simp only [capsPos, capsPosOp, capsPos_eq c]
  | .unamb c _ _ => by simp only [capsPos, capsPosOp, capsPos_eq c]
termination_by structural op => op
theorem capsPosL_eq : (ops : List Op) → capsPosL ops = capsPosOps ops
  | [] => by simp only [capsPosL, capsPosOps]
  | o :: os => by simp only [capsPosL, capsPosOps, capsPos_eq o, capsPosL_eq os]
termination_by structural ops => ops
end

/-- ORIGINAL STATEMENT, FALSE AS STATED (kept visible; refuted by `sem_keeps_start0_false`):
    the start of group 0 recorded by `match_at` is never overwritten by the engine.
    It fails for trees that are not well-formed: a body whose iterator does not terminate makes
    `first1` hand on the made-up state `({} : St).setPanic panicDiverge`, whose capture arrays are
    empty, and `UnambiguousRepeat` yields that state.  True for well-formed trees started inside
    the input: `sem_keeps_start0_partial`. -/
def sem_keeps_start0 : Prop :=
  ∀ (ctx : Ctx) (op : Op), capsPos op = true → ∀ (j p : Nat) (st : St),
    getO st.cap.startn 0 = some j →
    (sem ctx op p st).Inv (fun st' => getO st'.cap.startn 0 = some j)

section counterexample
private def cexCtx : Ctx :=
  { input := [], caseBlind := false, multiLine := false, hasBackrefs := false, maxParens := 1,
    lower := fun c => c }
/-- the body `(?:){0,∞}?` with recorded length 0 (not well-formed) followed by an empty class:
    its iterator backtracks for ever -/
private def cexOp : Op := .unamb (.seq [.rfixed .nothing 0 usizeMax 0, .cls []]) 0 1
private def cexSt : St := { cap := { startn := [some 0] } }

example : capsPos cexOp = true := by decide
example : wfOp cexOp = false := by decide

/-- the original `sem_keeps_start0` is false -/
theorem sem_keeps_start0_false : ¬ sem_keeps_start0 := by
  intro h
  have h1 := h cexCtx cexOp (by decide) 0 0 cexSt rfl
  have h2 : sem cexCtx cexOp 0 cexSt = .cons 0 (({} : St).setPanic panicDiverge) .nil := rfl
  rw [h2] at h1
  have h3 := h1.head
  simp [St.setPanic, getO] at h3

/-- the variant with the invariant weakened to "… or the divergence marker is set" is false too:
    the sequence iterator restores the capture state it saved on entry (here: the made-up one)
    into whatever state its consumer hands back (here: one without the marker) -/
def sem_keeps_start0_disj : Prop :=
  ∀ (ctx : Ctx) (op : Op), capsPos op = true → ∀ (j p : Nat) (st : St),
    getO st.cap.startn 0 = some j →
    (sem ctx op p st).Inv (fun st' => getO st'.cap.startn 0 = some j ∨ st'.panic = some panicDiverge)

private def cexOp2 : Op := .seq [.choice [cexOp, .nothing], .seq [.capture 1 .nothing, .nothing]]
private def tl (s : Step) (st : St) : Step := match s with | .cons _ _ r => r st | _ => .diverge
private def hdSt (s : Step) : Option St := match s with | .cons _ st _ => some st | _ => none

private theorem inv_tl {I : St → Prop} {s : Step} (h : s.Inv I) (st : St) (hst : I st) : (tl s st).Inv I := by
  cases h with
  | nil _ _ => exact .diverge
  | cons _ _ _ _ hr => exact hr st hst
  | diverge => exact .diverge

private theorem inv_hdSt {I : St → Prop} {s : Step} (h : s.Inv I) (st : St) (hs : hdSt s = some st) : I st := by
  cases h with
  | nil _ _ => cases hs
  | cons _ _ _ h0 _ => cases hs; exact h0
  | diverge => cases hs

example : capsPos cexOp2 = true := by decide

theorem sem_keeps_start0_disj_false : ¬ sem_keeps_start0_disj := by
  intro h
  have h1 := h cexCtx cexOp2 (by decide) 0 0 cexSt rfl
  have h2 := inv_tl h1 cexSt (.inl rfl)
  have h3 := inv_hdSt h2
    { cap := { parenCount := 2, startn := [none, some 0], endn := [none, some 0] } } rfl
  simp [getO] at h3
end counterexample

/-- the start of group 0 recorded by `match_at` is never overwritten by the engine
    (well-formed trees, start position inside the input) -/
theorem sem_keeps_start0_partial (ctx : Ctx) (op : Op) (hwf : wfOp op = true) (hc : capsPos op = true)
    (j p : Nat) (hp : p ≤ ctx.len) (st : St) (h : getO st.cap.startn 0 = some j) :
    (sem ctx op p st).Inv (fun st' => getO st'.cap.startn 0 = some j) :=
  sem_s0 ctx j op hwf (by rw [← capsPos_eq]; exact hc) p st hp h

/-- a successful `match_at(j)`: group 0 spans `[j, n)` where `n` is the first result of the
    iterator, `j ≤ n ≤ len`, and `[j, n)` is in the language of the program -/
theorem matchAt_span (ctx : Ctx) (op : Op) (hwf : wfOp op = true) (hc : capsPos op = true)
    (j : Nat) (hj : j ≤ ctx.len) (st st' : St) (h : matchAt ctx op j st = (true, st')) :
    getParenStart st' 0 = some j ∧
    ∃ n, getParenEnd st' 0 = some n ∧ j ≤ n ∧ n ≤ ctx.len ∧ OpR ctx op j n :=
  matchAt_span_aux ctx op hwf (by rw [← capsPos_eq]; exact hc) j hj st st' h

/-- `tryCands` returns the first candidate at which `match_at` succeeds -/
theorem tryCands_first (ctx : Ctx) (op : Op) (cands : List Nat) (st st' : St)
    (h : tryCands ctx op cands st = (true, st')) :
    ∃ pre j post stj, cands = pre ++ j :: post ∧ matchAt ctx op j stj = (true, st') ∧
      (tryCands ctx op pre st = (false, stj)) :=
  tryCands_first_aux ctx op cands st st' h

/-- a successful `matches(i)` (all shortcuts included) reports a span at or after `i`, inside the
    input, that is a member of the language of the program -/
theorem matchesFrom_span (pr : Prog) (lower : Nat → Nat) (input : List Nat)
    (hwf : wfOp pr.op = true) (hc : capsPos pr.op = true)
    (i : Nat) (hi : i ≤ input.length) (st st' : St)
    (h : matchesFrom (pr.ctx lower input) pr i st = (true, st')) :
    ∃ a b, getParenStart st' 0 = some a ∧ getParenEnd st' 0 = some b ∧
      i ≤ a ∧ a ≤ b ∧ b ≤ input.length ∧ OpR (pr.ctx lower input) pr.op a b := by
  obtain ⟨j, stj, hij, hjl, hm⟩ := matchesFrom_cand (pr.ctx lower input) pr i st st' hi h
  obtain ⟨hs, n, he, hjn, hnl, hopr⟩ := matchAt_span (pr.ctx lower input) pr.op hwf hc j hjl stj st' hm
  exact ⟨j, n, hs, he, hij, hjn, hnl, hopr⟩

/-- with every shortcut off, the reported start is the leftmost position from which the
    program's iterator yields anything (positions are tried in increasing order) -/
theorem matchesNaive_leftmost (ctx : Ctx) (op : Op) (i : Nat) (st st' : St)
    (h : matchesNaive ctx op i st = (true, st')) :
    ∃ a sta, i ≤ a ∧ a ≤ ctx.len ∧ matchAt ctx op a sta = (true, st') ∧
      tryCands ctx op (rangeFrom i a) { st with cap := {} } = (false, sta) := by
  obtain ⟨a, sta, h1, h2, h3, h4⟩ :=
    tryCands_range_leftmost ctx op (ctx.len + 1) _ i _ st' rfl h
  exact ⟨a, sta, h1, by omega, h3, h4⟩

end Rx.C02
