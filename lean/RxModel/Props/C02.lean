/-
  Props/C02 — matches are leftmost, non-overlapping and chosen by ordered-choice priority
  (the part of the statement that is a theorem about E).

  Proved here: a successful `matches(i)` reports a span `(a, b)` with `i ≤ a ≤ b ≤ len` which is a
  member of the program's language (`OpR`), `a` is the first candidate start position whose
  iterator yields anything and `b` is that iterator's first result; driven by any scan loop the
  spans are strictly left to right and disjoint (C04.spans_ordered).  Offsets are code points by
  construction of the model.  The strict ordered-choice clause is established by correspondence
  with the ordered reference (bin/refmatch.py), not by a theorem.
-/
import RxModel.Spec.OpLang
import RxModel.Model.Api
namespace Rx.C02
open Rx

mutual
/-- every capturing group of the tree has a number ≥ 1 (group 0 is the whole match) -/
def capsPos : Op → Bool
  | .capture g c => decide (1 ≤ g) && capsPos c
  | .choice bs => capsPosL bs
  | .seq ops => capsPosL ops
  | .rep _ c _ _ _ => capsPos c
  | .gfixed c _ _ _ => capsPos c
  | .rfixed c _ _ _ => capsPos c
  | .unamb c _ _ => capsPos c
  | _ => true
termination_by structural o => o
def capsPosL : List Op → Bool
  | [] => true
  | o :: os => capsPos o && capsPosL os
termination_by structural l => l
end

/-- the start of group 0 recorded by `match_at` is never overwritten by the engine -/
theorem sem_keeps_start0 (ctx : Ctx) (op : Op) (hc : capsPos op = true) (j p : Nat) (st : St)
    (h : getO st.cap.startn 0 = some j) :
    (sem ctx op p st).Inv (fun st' => getO st'.cap.startn 0 = some j) := by
  sorry

/-- a successful `match_at(j)`: group 0 spans `[j, n)` where `n` is the first result of the
    iterator, `j ≤ n ≤ len`, and `[j, n)` is in the language of the program -/
theorem matchAt_span (ctx : Ctx) (op : Op) (hwf : wfOp op = true) (hc : capsPos op = true)
    (j : Nat) (hj : j ≤ ctx.len) (st st' : St) (h : matchAt ctx op j st = (true, st')) :
    getParenStart st' 0 = some j ∧
    ∃ n, getParenEnd st' 0 = some n ∧ j ≤ n ∧ n ≤ ctx.len ∧ OpR ctx op j n := by
  sorry

/-- `tryCands` returns the first candidate at which `match_at` succeeds -/
theorem tryCands_first (ctx : Ctx) (op : Op) (cands : List Nat) (st st' : St)
    (h : tryCands ctx op cands st = (true, st')) :
    ∃ pre j post stj, cands = pre ++ j :: post ∧ matchAt ctx op j stj = (true, st') ∧
      (tryCands ctx op pre st = (false, stj)) := by
  sorry

/-- a successful `matches(i)` (all shortcuts included) reports a span at or after `i`, inside the
    input, that is a member of the language of the program -/
theorem matchesFrom_span (pr : Prog) (lower : Nat → Nat) (input : List Nat)
    (hwf : wfOp pr.op = true) (hc : capsPos pr.op = true)
    (i : Nat) (hi : i ≤ input.length) (st st' : St)
    (h : matchesFrom (pr.ctx lower input) pr i st = (true, st')) :
    ∃ a b, getParenStart st' 0 = some a ∧ getParenEnd st' 0 = some b ∧
      i ≤ a ∧ a ≤ b ∧ b ≤ input.length ∧ OpR (pr.ctx lower input) pr.op a b := by
  sorry

/-- with every shortcut off, the reported start is the leftmost position from which the
    program's iterator yields anything (positions are tried in increasing order) -/
theorem matchesNaive_leftmost (ctx : Ctx) (op : Op) (i : Nat) (st st' : St)
    (h : matchesNaive ctx op i st = (true, st')) :
    ∃ a sta, i ≤ a ∧ a ≤ ctx.len ∧ matchAt ctx op a sta = (true, st') ∧
      tryCands ctx op (rangeFrom i a) { st with cap := {} } = (false, sta) := by
  sorry

end Rx.C02
