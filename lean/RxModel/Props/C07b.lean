/-
  Props/C07b — C07, acceptance half for WHOLE patterns of any size:
  every pattern that conforms to the XPath 3.1 / XSD 1.1 regular-expression grammar
  (Spec/Grammar: `Ast`, `render`, `ok`) is accepted by the compiler.

    parse_accepts    the top-level `parse_expr` call succeeds on `render a`, consumes all of it, and
                     the group counter ends at `groups a + 1`
    compile_accepts  hence `compileCore` returns a program, with `maxParens = groups a + 1`
    parse_sub_*      the generalised statements for sub-expressions at any position inside a larger
                     pattern (branch, `|`-tail, group, non-capturing group, terminal)

  Scope of `ok` = the whole grammar in the header of Spec/Grammar, both dialects (`c.fl.xsd`), all
  other flags arbitrary (flag `i` included: `class_sim` in Proofs/GrammarLemmas shows that it does not
  change what the class parser accepts).
  Restrictions of the theorem, each visible as a hypothesis:
    * `ParserQuirkFree a`: every quantity in `{n}`, `{n,}`, `{n,m}` is at most 2^64 − 1.  The grammar
      has no such bound; the parser rejects `a{18446744073709551616}` (`quirk_bound_rejected`).
    * character classes are `C09.CExpr` with `C09.CExpr.ok`, i.e. exactly the class sub-grammar of
      Props/C09c (which documents its own leniencies, e.g. `[a-c-9]`, and requires the characters
      inside a class to be code points `< 0x110000`).
    * `fl.literal = false` in `compile_accepts` (with flag `q` nothing is parsed).
  Rejections and examples at the end of the file.
-/
import RxModel.Model.Compile
import RxModel.Spec.Grammar
import RxModel.Proofs.GrammarLemmas
namespace Rx.C07b
open Rx Rx.Grammar

/-- PARSER DEVIATION (kept visible, not folded into `ok`): the grammar puts no upper bound on the
    quantities of `{n}`, `{n,}`, `{n,m}`; the parser rejects any quantity above `usize::MAX`
    = 2^64 − 1.  `ParserQuirkFree a` excludes such trees. -/
def ParserQuirkFree (a : Ast) : Prop := a.inLimit = true

instance (a : Ast) : Decidable (ParserQuirkFree a) := by unfold ParserQuirkFree; infer_instance

/-- MAIN THEOREM.  For a grammar-valid tree `a` whose rendering is the pattern, the top-level
    `parse_expr` (with the fuel `compileCore` gives it) succeeds, consumes the whole pattern, and
    has counted the capturing groups. -/
theorem parse_accepts (c : PC) (a : Ast) (hok : a.ok c = true)
    (hq : ParserQuirkFree a) (hpat : c.pat = a.render) :
    ∃ op s', parseExpr c (4 * c.pat.length + 16) {} true = .ok op s' ∧ s'.idx = c.pat.length ∧
      s'.parens = a.groups + 1 := by
  obtain ⟨op, s', h1, h2, h3, _⟩ :=
    parse_top_gen c a [] hok hq (by simpa using hpat) (.inl rfl)
  exact ⟨op, s', h1, by rw [h2, hpat], h3⟩

/-- … and the list of closed groups is `1 … groups a` in closing order (`closed`) -/
theorem parse_accepts_captures (c : PC) (a : Ast) (hok : a.ok c = true)
    (hq : ParserQuirkFree a) (hpat : c.pat = a.render) :
    ∃ op s', parseExpr c (4 * c.pat.length + 16) {} true = .ok op s' ∧
      s'.captures = a.closed 0 [] := by
  obtain ⟨op, s', h1, _, _, h4⟩ :=
    parse_top_gen c a [] hok hq (by simpa using hpat) (.inl rfl)
  exact ⟨op, s', h1, h4⟩

/-- `ReCompiler::compile` (after the flag and whitespace pre-passes) accepts every grammar-valid
    pattern, optimiser on or off, and records `groups a + 1` as the group count -/
theorem compile_accepts (env : Env) (fl : CFlags) (hlit : fl.literal = false) (a : Ast) (hok : a.okFor fl.xsd env = true)
    (hq : ParserQuirkFree a) (opt : Bool) :
    ∃ pr, compileCore env fl a.render opt = .ok pr ∧ pr.maxParens = a.groups + 1 := by
  obtain ⟨op, s', h1, h2, h3⟩ :=
    parse_accepts { pat := a.render, fl := fl, env := env } a hok hq rfl
  simp only [] at h1 h2
  unfold compileCore
  simp only [hlit, Bool.false_eq_true, if_false, h1]
  have hidx : (s'.idx != a.render.length) = false := by simp [h2]
  simp only [hidx, Bool.false_eq_true, if_false]
  cases opt with
  | true => exact ⟨_, rfl, by rw [mkProgram_maxParens]; exact h3⟩
  | false => exact ⟨_, rfl, h3⟩

/-! ### sub-expressions at arbitrary positions

  `Acc x s k g cl'`: the parser call `x` started in state `s` succeeds, consumes `k` characters,
  opens `g` capturing groups and ends with `cl'` as the list of closed groups.  In every statement
  the parser is positioned (`s.idx`) somewhere inside a larger pattern whose text from there on is
  the rendering of the sub-tree followed by `rest`; `n` capturing groups have been opened
  (`s.parens = n + 1`) and `cl` are closed (`s.captures = cl`).  `f` is any fuel of at least twice
  the rendered length plus a constant — which `4 * c.len + 16` at the top guarantees all the way
  down, because each level of the recursion uses one unit and is entered only after consuming. -/

/-- a branch, followed by the end of the pattern, `)` or `|` -/
theorem parse_sub_branch (c : PC) (f : Nat) (b : Branch) (s : PS)
    (cur : Option Op) (rest : List Nat) (n : Nat) (cl : List Nat)
    (hok : b.ok c.fl.xsd c.env n cl = true) (hlim : b.inLimit = true)
    (hpat : c.pat.drop s.idx = b.render ++ rest) (hrest : FolB rest)
    (hp : s.parens = n + 1) (hc : s.captures = cl) (hf : 2 * b.render.length + 1 ≤ f) :
    Acc (parseBranch c f s cur) s b.render.length b.groups (b.closed n cl) :=
  (parse_all c f).2.2.1 b s cur rest n cl hok hlim hpat hrest hp hc hf

/-- `| r`, followed by the end of the pattern or `)` -/
theorem parse_sub_alternatives (c : PC) (f : Nat) (r : RegExp) (s : PS)
    (acc : List Op) (rest : List Nat) (n : Nat) (cl : List Nat)
    (hok : r.ok c.fl.xsd c.env n cl = true) (hlim : r.inLimit = true)
    (hpat : c.pat.drop s.idx = 124 :: (r.render ++ rest)) (hrest : FolR rest)
    (hp : s.parens = n + 1) (hc : s.captures = cl) (hf : 2 * r.render.length + 3 ≤ f) :
    Acc (parseBranches c f s acc) s (r.render.length + 1) r.groups (r.closed n cl) :=
  (parse_all c f).2.1 r s acc rest n cl hok hlim hpat hrest hp hc hf

/-- a capturing group `( r )`: it gets number `n + 1` and is closed afterwards -/
theorem parse_sub_group (c : PC) (f : Nat) (r : RegExp) (s : PS)
    (rest : List Nat) (n : Nat) (cl : List Nat)
    (hok : r.ok c.fl.xsd c.env (n + 1) cl = true) (hlim : r.inLimit = true)
    (hpat : c.pat.drop s.idx = 40 :: (r.render ++ 41 :: rest))
    (hp : s.parens = n + 1) (hc : s.captures = cl) (hf : 2 * r.render.length + 2 ≤ f) :
    Acc (parseExpr c f s false) s (r.render.length + 2) (r.groups + 1)
      ((n + 1) :: r.closed (n + 1) cl) :=
  (parse_all c f).1.1 r s rest n cl hok hlim hpat hp hc hf

/-- a non-capturing group `(?: r )` (XPath dialect) -/
theorem parse_sub_ncgroup (c : PC) (f : Nat) (r : RegExp) (s : PS)
    (rest : List Nat) (n : Nat) (cl : List Nat) (hx : c.fl.xsd = false)
    (hok : r.ok c.fl.xsd c.env n cl = true) (hlim : r.inLimit = true)
    (hpat : c.pat.drop s.idx = 40 :: 63 :: 58 :: (r.render ++ 41 :: rest))
    (hp : s.parens = n + 1) (hc : s.captures = cl) (hf : 2 * r.render.length + 2 ≤ f) :
    Acc (parseExpr c f s false) s (r.render.length + 4) r.groups (r.closed n cl) :=
  (parse_all c f).1.2 r s rest n cl hx hok hlim hpat hp hc hf

/-- `parse_terminal` on any atom other than a character / single-character escape (those go to
    `parse_atom`, which may merge several pieces: `parse_sub_branch` covers them) -/
theorem parse_sub_terminal (c : PC) (f : Nat) (a : Atom) (s : PS)
    (rest : List Nat) (n : Nat) (cl : List Nat) (hch : a.isChar = false)
    (hok : a.ok c.fl.xsd c.env n cl = true) (hlim : a.inLimit = true)
    (hpat : c.pat.drop s.idx = a.render ++ rest) (hfol : a.followOk n rest = true)
    (hp : s.parens = n + 1) (hc : s.captures = cl) (hf : 2 * a.render.length ≤ f) :
    Acc (parseTerminal c f s) s a.render.length a.groups (a.closed n cl) :=
  (parse_all c f).2.2.2 a s rest n cl hch hok hlim hpat hfol hp hc hf

/-! ### rejections

  Each malformed shape below makes `compileCore` return `Error::Syntax`.  `c₀` abbreviates the
  compiler context of the pattern.  (A stray `)` and a `|`-prefix are handled after ANY well-formed
  prefix of the right kind; the other shapes are stated at the start of the pattern, because an
  error inside a longer pattern is reached through `parse_atom`'s look-ahead as well and that path
  is not characterised here.) -/

/-- unbalanced `)`: a well-formed regExp followed by `)` (and anything) -/
theorem reject_unbalanced_close (env : Env) (fl : CFlags) (hlit : fl.literal = false) (a : Ast) (hok : a.okFor fl.xsd env = true) (hq : ParserQuirkFree a)
    (tl : List Nat) (opt : Bool) : compileCore env fl (a.render ++ 41 :: tl) opt = .err .syntax := by
  obtain ⟨op, s', h1, h2, _, _⟩ :=
    parse_top_gen { pat := a.render ++ 41 :: tl, fl := fl, env := env } a (41 :: tl) hok hq rfl
      (.inr ⟨tl, rfl⟩)
  rw [compileCore_eq env fl _ opt hlit, h1]
  have : (s'.idx != (a.render ++ 41 :: tl).length) = true := by
    rw [h2]; simp
  simp only [this, if_true]

/-- unbalanced `(`: `( r` with the pattern ending where the `)` should be -/
theorem reject_unclosed_group (env : Env) (fl : CFlags) (hlit : fl.literal = false) (r : RegExp) (hok : r.ok fl.xsd env 1 [] = true)
    (hq : r.inLimit = true) (opt : Bool) : compileCore env fl (40 :: r.render) opt = .err .syntax := by
  apply compileCore_err_of_body hlit
  apply exprBody_err_branch
  have hlen : (40 :: r.render).length = r.render.length + 1 := rfl
  rw [show 4 * (40 :: r.render).length + 15 = (4 * r.render.length + 18) + 1 by rw [hlen]; omega]
  refine parseBranch_err_terminal (y := 40) (tl := r.render) rfl (by decide) (by decide) ?_
  rw [show 4 * r.render.length + 18 = (4 * r.render.length + 17) + 1 from rfl,
    parseTerminal_paren (by rfl),
    show 4 * r.render.length + 17 = (4 * r.render.length + 16) + 1 from rfl]
  exact (parseExpr_unclosed (c := { pat := 40 :: r.render, fl := fl, env := env }) (s := {})
    (n := 0) rfl rfl hq (by omega)).1 hok rfl

/-- … and `(?: r` (XPath dialect) -/
theorem reject_unclosed_ncgroup (env : Env) (fl : CFlags) (hlit : fl.literal = false) (hx : fl.xsd = false) (r : RegExp)
    (hok : r.ok fl.xsd env 0 [] = true) (hq : r.inLimit = true) (opt : Bool) :
    compileCore env fl (40 :: 63 :: 58 :: r.render) opt = .err .syntax := by
  apply compileCore_err_of_body hlit
  apply exprBody_err_branch
  have hlen : (40 :: 63 :: 58 :: r.render).length = r.render.length + 3 := rfl
  rw [show 4 * (40 :: 63 :: 58 :: r.render).length + 15 = (4 * r.render.length + 26) + 1 by
    rw [hlen]; omega]
  refine parseBranch_err_terminal (y := 40) (tl := 63 :: 58 :: r.render) rfl (by decide) (by decide) ?_
  rw [show 4 * r.render.length + 26 = (4 * r.render.length + 25) + 1 from rfl,
    parseTerminal_paren (by rfl),
    show 4 * r.render.length + 25 = (4 * r.render.length + 24) + 1 from rfl]
  exact (parseExpr_unclosed (c := { pat := 40 :: 63 :: 58 :: r.render, fl := fl, env := env })
    (s := {}) (n := 0) rfl rfl hq (by omega)).2 hx hok rfl

/-- a quantifier with nothing before it, at the start of the pattern: `*a`, `?`, `+x`, `{2}` -/
theorem reject_leading_quantifier (env : Env) (fl : CFlags) (hlit : fl.literal = false) (q : Nat)
    (tl : List Nat) (hq : isQuantChar q = true) (opt : Bool) :
    compileCore env fl (q :: tl) opt = .err .syntax := by
  apply compileCore_err_of_body hlit
  apply exprBody_err_branch
  rw [show 4 * (q :: tl).length + 15 = (4 * (q :: tl).length + 14) + 1 from rfl]
  refine parseBranch_err_terminal (y := q) (tl := tl) rfl ?_ ?_ ?_
  · intro h; subst h; revert hq; decide
  · intro h; subst h; revert hq; decide
  · rw [show 4 * (q :: tl).length + 14 = (4 * (q :: tl).length + 13) + 1 from rfl]
    exact parseTerminal_quant (by exact hq)

/-- an error of the terminal right after `b |`, for a well-formed branch `b`, is the error of the
    compilation -/
theorem reject_after_bar (env : Env) (fl : CFlags) (hlit : fl.literal = false) (b : Branch) (hok : b.ok fl.xsd env 0 [] = true)
    (hlim : b.inLimit = true) (y : Nat) (tl : List Nat) (hy1 : y ≠ 124) (hy2 : y ≠ 41) (e : Err)
    (h : ∀ f s1, s1.idx = b.render.length + 1 → s1.captures = b.closed 0 [] →
      parseTerminal { pat := b.render ++ 124 :: y :: tl, fl := fl, env := env } (f + 1) s1 = .err e)
    (opt : Bool) : compileCore env fl (b.render ++ 124 :: y :: tl) opt = .err e := by
  apply compileCore_err_of_body hlit
  have hlen : (b.render ++ 124 :: y :: tl).length = b.render.length + (tl.length + 2) := by simp
  obtain ⟨b1, s1, e1, e2, e3, e4⟩ :=
    parse_sub_branch { pat := b.render ++ 124 :: y :: tl, fl := fl, env := env }
      (4 * (b.render ++ 124 :: y :: tl).length + 15) b {} none (124 :: y :: tl) 0 [] hok hlim rfl
      (.inr ⟨_, .inr rfl⟩) rfl rfl (by rw [hlen]; omega)
  refine exprBody_err_branches e1 ?_
  have ht : ({ pat := b.render ++ 124 :: y :: tl, fl := fl, env := env } : PC).pat.drop s1.idx =
      124 :: y :: tl := by
    rw [e2]; simp
  obtain ⟨hlt, hat, ht1⟩ := C09.drop_cons_facts ht
  have hcond : (decide (s1.idx < ({ pat := b.render ++ 124 :: y :: tl, fl := fl, env := env } : PC).len) &&
      ({ pat := b.render ++ 124 :: y :: tl, fl := fl, env := env } : PC).at s1.idx == 124) = true := by
    simp [hlt, hat]
  rw [show 4 * (b.render ++ 124 :: y :: tl).length + 15 =
    (4 * (b.render ++ 124 :: y :: tl).length + 14) + 1 from rfl, parseBranches, if_pos hcond]
  rw [show 4 * (b.render ++ 124 :: y :: tl).length + 14 =
    (4 * (b.render ++ 124 :: y :: tl).length + 13) + 1 from rfl,
    parseBranch_err_terminal (s := { s1 with idx := s1.idx + 1 }) ht1 hy1 hy2
      (by rw [show 4 * (b.render ++ 124 :: y :: tl).length + 13 =
            (4 * (b.render ++ 124 :: y :: tl).length + 12) + 1 from rfl]
          exact h _ _ (by simp only []; rw [e2]; simp) e4)]

/-- a quantifier directly after `|`: `|*`, `ab|+c` -/
theorem reject_quantifier_after_bar (env : Env) (fl : CFlags) (hlit : fl.literal = false) (b : Branch) (hok : b.ok fl.xsd env 0 [] = true)
    (hlim : b.inLimit = true) (q : Nat) (tl : List Nat) (hq : isQuantChar q = true) (opt : Bool) :
    compileCore env fl (b.render ++ 124 :: q :: tl) opt = .err .syntax := by
  refine reject_after_bar env fl hlit b hok hlim q tl ?_ ?_ .syntax ?_ opt
  · intro h; subst h; revert hq; decide
  · intro h; subst h; revert hq; decide
  · intro f s1 hi _
    apply parseTerminal_quant
    have ht : ({ pat := b.render ++ 124 :: q :: tl, fl := fl, env := env } : PC).pat.drop s1.idx =
        q :: tl := by rw [hi]; simp [← List.drop_drop]
    rw [(C09.drop_cons_facts ht).2.1]; exact hq

/-- a quantifier directly after `(`: `(*)`, `(+a)`, `(?)` — everything but `(?:` -/
theorem reject_quantifier_after_paren (env : Env) (fl : CFlags) (hlit : fl.literal = false) (q : Nat)
    (tl : List Nat) (hq : isQuantChar q = true) (hnc : ∀ tl', q :: tl ≠ 63 :: 58 :: tl')
    (opt : Bool) : compileCore env fl (40 :: q :: tl) opt = .err .syntax := by
  apply compileCore_err_of_body hlit
  apply exprBody_err_branch
  have hq1 : q ≠ 124 := by intro h; subst h; revert hq; decide
  have hq2 : q ≠ 41 := by intro h; subst h; revert hq; decide
  rw [show 4 * (40 :: q :: tl).length + 15 = (4 * (40 :: q :: tl).length + 14) + 1 from rfl]
  refine parseBranch_err_terminal (y := 40) (tl := q :: tl) rfl (by decide) (by decide) ?_
  rw [show 4 * (40 :: q :: tl).length + 14 = (4 * (40 :: q :: tl).length + 13) + 1 from rfl,
    parseTerminal_paren (by rfl),
    show 4 * (40 :: q :: tl).length + 13 = (4 * (40 :: q :: tl).length + 12) + 1 from rfl,
    parseExpr_succ,
    exprOpen_group' (c := { pat := 40 :: q :: tl, fl := fl, env := env }) (s := {}) (X := q :: tl) rfl hnc]
  apply exprBody_err_branch
  rw [show 4 * (40 :: q :: tl).length + 12 = (4 * (40 :: q :: tl).length + 11) + 1 from rfl]
  refine parseBranch_err_terminal (y := q) (tl := tl) rfl hq1 hq2 ?_
  rw [show 4 * (40 :: q :: tl).length + 11 = (4 * (40 :: q :: tl).length + 10) + 1 from rfl]
  exact parseTerminal_quant (by exact hq)

/-- an error of the quantifier after a single leading normal character -/
theorem reject_char_quant (env : Env) (fl : CFlags) (hlit : fl.literal = false) (x y : Nat)
    (tl : List Nat) (hx : normalChar fl.xsd x = true) (hy : isQuantChar y = true) (e : Err)
    (h : ∀ ret s1, s1.idx = 1 →
      pieceQuant { pat := x :: y :: tl, fl := fl, env := env } ret s1 = .err e) (opt : Bool) :
    compileCore env fl (x :: y :: tl) opt = .err e := by
  apply compileCore_err_of_body hlit
  apply exprBody_err_branch
  have hn := hx
  simp only [normalChar, Bool.and_eq_true, Bool.not_eq_true', Bool.or_eq_false_iff,
    beq_eq_false_iff_ne, ne_eq] at hn
  rw [show 4 * (x :: y :: tl).length + 15 = (4 * (x :: y :: tl).length + 14) + 1 from rfl]
  refine parseBranch_err_quant (y := x) (tl := y :: tl) (s1 := { ({} : PS) with idx := 1 })
    (ret := .atom [x]) rfl (by omega) (by omega) ?_ (h _ _ rfl)
  rw [show 4 * (x :: y :: tl).length + 14 = (4 * (x :: y :: tl).length + 13) + 1 from rfl]
  exact parseTerminal_char_quant (c := { pat := x :: y :: tl, fl := fl, env := env }) (s := {}) rfl hx hy

/-- `{n,m}` with `n > m` (after a normal character): `a{3,2}` -/
theorem reject_reversed_bounds (env : Env) (fl : CFlags) (hlit : fl.literal = false) (x : Nat)
    (n m tl : List Nat) (hx : normalChar fl.xsd x = true) (hn : numeral n = true)
    (hm : numeral m = true) (hnl : Spec.digitsVal n ≤ usizeMax) (hml : Spec.digitsVal m ≤ usizeMax)
    (hgt : Spec.digitsVal m < Spec.digitsVal n) (opt : Bool) :
    compileCore env fl (x :: 123 :: (n ++ 44 :: (m ++ 125 :: tl))) opt = .err .syntax := by
  refine reject_char_quant env fl hlit x 123 _ hx (by decide) .syntax ?_ opt
  intro ret s1 hi
  have ht : ({ pat := x :: 123 :: (n ++ 44 :: (m ++ 125 :: tl)), fl := fl, env := env } : PC).pat.drop
      s1.idx = 123 :: (n ++ 44 :: (m ++ 125 :: tl)) := by rw [hi]; rfl
  obtain ⟨hlt, hat, _⟩ := C09.drop_cons_facts ht
  have hb := C07.bracket_range { pat := x :: 123 :: (n ++ 44 :: (m ++ 125 :: tl)), fl := fl, env := env }
    s1 n m tl hn hm hnl hml (by simpa using ht)
  rw [if_neg (by omega)] at hb
  exact pieceQuant_err hlt (quantHead_bracket_err hat hb)

/-- THE PARSER DEVIATION, as a theorem: a quantity of 2^64 or more is a syntax error although
    the grammar allows it — e.g. `a{18446744073709551616}` -/
theorem quirk_bound_rejected (env : Env) (fl : CFlags) (hlit : fl.literal = false) (x : Nat)
    (n tl : List Nat) (hx : normalChar fl.xsd x = true) (hn : numeral n = true)
    (hbig : Spec.digitsVal n > usizeMax) (opt : Bool) :
    compileCore env fl (x :: 123 :: (n ++ 125 :: tl)) opt = .err .syntax := by
  refine reject_char_quant env fl hlit x 123 _ hx (by decide) .syntax ?_ opt
  intro ret s1 hi
  have ht : ({ pat := x :: 123 :: (n ++ 125 :: tl), fl := fl, env := env } : PC).pat.drop
      s1.idx = 123 :: (n ++ 125 :: tl) := by rw [hi]; rfl
  obtain ⟨hlt, hat, _⟩ := C09.drop_cons_facts ht
  have hb := C07.bracket_overflow { pat := x :: 123 :: (n ++ 125 :: tl), fl := fl, env := env } s1 n
    (125 :: tl) hn hbig (by intro z hz; simp at hz; subst hz; decide) (by simpa using ht)
  exact pieceQuant_err hlt (quantHead_bracket_err hat hb)

/-- the reluctant marker in the XSD dialect: `a*?`, `a+?`, `a??` -/
theorem reject_xsd_reluctant (env : Env) (fl : CFlags) (hlit : fl.literal = false)
    (hxsd : fl.xsd = true) (x y : Nat) (tl : List Nat) (hx : normalChar fl.xsd x = true)
    (hy : y = 63 ∨ y = 42 ∨ y = 43) (opt : Bool) :
    compileCore env fl (x :: y :: 63 :: tl) opt = .err .syntax := by
  refine reject_char_quant env fl hlit x y _ hx (by rcases hy with h | h | h <;> subst h <;> decide)
    .syntax ?_ opt
  intro ret s1 hi
  have ht : ({ pat := x :: y :: 63 :: tl, fl := fl, env := env } : PC).pat.drop s1.idx =
      y :: 63 :: tl := by rw [hi]; rfl
  obtain ⟨hlt, hat, ht1⟩ := C09.drop_cons_facts ht
  obtain ⟨hlt1, hat1, _⟩ := C09.drop_cons_facts ht1
  have hh : quantHead { pat := x :: y :: 63 :: tl, fl := fl, env := env } s1 =
      .ok true { s1 with idx := s1.idx + 1 } := by
    rcases hy with h | h | h <;> subst h <;> simp [quantHead, hat]
  exact pieceQuant_xsd_reluctant hlt hh (by simp [relAt, hlt1, hat1]) hxsd

/-- `(?:` in the XSD dialect -/
theorem reject_xsd_noncapturing (env : Env) (fl : CFlags) (hlit : fl.literal = false)
    (hxsd : fl.xsd = true) (tl : List Nat) (opt : Bool) :
    compileCore env fl (40 :: 63 :: 58 :: tl) opt = .err .syntax := by
  apply compileCore_err_of_body hlit
  apply exprBody_err_branch
  rw [show 4 * (40 :: 63 :: 58 :: tl).length + 15 = (4 * (40 :: 63 :: 58 :: tl).length + 14) + 1 from rfl]
  refine parseBranch_err_terminal (y := 40) (tl := 63 :: 58 :: tl) rfl (by decide) (by decide) ?_
  rw [show 4 * (40 :: 63 :: 58 :: tl).length + 14 = (4 * (40 :: 63 :: 58 :: tl).length + 13) + 1 from rfl,
    parseTerminal_paren (by rfl),
    show 4 * (40 :: 63 :: 58 :: tl).length + 13 = (4 * (40 :: 63 :: 58 :: tl).length + 12) + 1 from rfl,
    parseExpr_succ,
    exprOpen_nc_xsd (c := { pat := 40 :: 63 :: 58 :: tl, fl := fl, env := env }) (s := {}) (X := tl) rfl hxsd]

/-- a dangling backslash: the pattern `\`, and `b|\` after a well-formed branch -/
theorem reject_dangling_backslash (env : Env) (fl : CFlags) (hlit : fl.literal = false) (opt : Bool) :
    compileCore env fl [92] opt = .err .syntax := by
  apply compileCore_err_of_body hlit
  apply exprBody_err_branch
  refine parseBranch_err_terminal (f := 18) (y := 92) (tl := []) rfl (by decide) (by decide) ?_
  exact parseTerminal_dangling (f := 17) rfl

theorem reject_dangling_backslash_after_bar (env : Env) (fl : CFlags) (hlit : fl.literal = false) (b : Branch) (hok : b.ok fl.xsd env 0 [] = true)
    (hlim : b.inLimit = true) (opt : Bool) :
    compileCore env fl (b.render ++ [124, 92]) opt = .err .syntax := by
  refine reject_after_bar env fl hlit b hok hlim 92 [] (by decide) (by decide) .syntax ?_ opt
  intro f s1 hi _
  apply parseTerminal_dangling
  rw [hi]; simp [← List.drop_drop]

/-- a back-reference where no group exists (start of the pattern): `\1`, `\2x` -/
theorem reject_backref_no_group (env : Env) (fl : CFlags) (hlit : fl.literal = false) (d : Nat)
    (tl : List Nat) (hd : 49 ≤ d ∧ d ≤ 57) (opt : Bool) :
    compileCore env fl (92 :: d :: tl) opt = .err .syntax := by
  apply compileCore_err_of_body hlit
  apply exprBody_err_branch
  rw [show 4 * (92 :: d :: tl).length + 15 = (4 * (92 :: d :: tl).length + 14) + 1 from rfl]
  refine parseBranch_err_terminal (y := 92) (tl := d :: tl) rfl (by decide) (by decide) ?_
  rw [show 4 * (92 :: d :: tl).length + 14 = (4 * (92 :: d :: tl).length + 13) + 1 from rfl]
  exact parseTerminal_backref_none (c := { pat := 92 :: d :: tl, fl := fl, env := env }) (s := {}) rfl hd rfl

/-- … and after `b|` when the branch `b` has no capturing group: `ab|\1` -/
theorem reject_backref_no_group_after_bar (env : Env) (fl : CFlags) (hlit : fl.literal = false) (b : Branch) (hok : b.ok fl.xsd env 0 [] = true)
    (hlim : b.inLimit = true) (hng : b.closed 0 [] = []) (d : Nat) (tl : List Nat)
    (hd : 49 ≤ d ∧ d ≤ 57) (opt : Bool) :
    compileCore env fl (b.render ++ 124 :: 92 :: d :: tl) opt = .err .syntax := by
  refine reject_after_bar env fl hlit b hok hlim 92 (d :: tl) (by decide) (by decide) .syntax ?_ opt
  intro f s1 hi hc
  refine parseTerminal_backref_none (d := d) (tl := tl) ?_ hd (by rw [hc, hng])
  rw [hi]; simp [← List.drop_drop]

/-! ### the side tables of the specification -/

/-- `closed` is what it is meant to be: after a whole pattern every group `1 … groups a` is closed;
    in general the groups closed after a sub-tree are those closed before it plus its own -/
theorem closed_spec (a : Ast) (x : Nat) : x ∈ a.closed 0 [] ↔ (1 ≤ x ∧ x ≤ a.groups) := by
  rw [RegExp.mem_closed x a 0 []]
  simp only [List.not_mem_nil, false_or, Nat.zero_add]
  omega

theorem closed_spec_branch (b : Branch) (n : Nat) (cl : List Nat) (x : Nat) :
    x ∈ b.closed n cl ↔ (x ∈ cl ∨ (n < x ∧ x ≤ n + b.groups)) := Branch.mem_closed x b n cl

/-- the same for `ReCompiler::compile` with its pre-passes, when neither `x` nor `q` is set -/
theorem compileProg_accepts (env : Env) (fl : Flags) (hlit : fl.literal = false)
    (hws : fl.allowWs = false) (a : Ast) (hok : a.okFor fl.xsd env = true) (hq : ParserQuirkFree a)
    (opt : Bool) : ∃ pr, compileProg env fl a.render opt = .ok pr ∧ pr.maxParens = a.groups + 1 := by
  have h := compile_accepts env fl.core hlit a hok hq opt
  simpa [compileProg, hlit, hws] using h

/-! ### non-vacuity: concrete trees against the small environment `C09.envT`
    (digits `0-9`, word characters, categories `L` and `Nd`, block `Basic`) -/

/-- group count of a successful compilation, `none` for an error -/
def parensOf (r : Out Prog) : Option Nat :=
  match r with
  | .ok pr => some pr.maxParens
  | _ => none

def isSyntaxErr (r : Out Prog) : Bool :=
  match r with
  | .err .syntax => true
  | _ => false

/-- `(a(b|))*?\1`: nested groups, an alternation with an empty branch, a quantified group with the
    reluctant marker, a back-reference to the (closed) outer group -/
def ex1 : Ast :=
  .one (.cons (.group (.one (.cons (.chr 97) none
        (.cons (.group (.alt (.cons (.chr 98) none .nil) (.one .nil))) none .nil))))
      (some ⟨.star, true⟩) (.cons (.backref [49]) none .nil))

example : ex1.render = cps "(a(b|))*?\\1" := by decide
example : ex1.okFor false C09.envT = true := by decide
example : ParserQuirkFree ex1 := by decide
example : ex1.groups = 2 ∧ ex1.closed 0 [] = [1, 2] := by decide
example : parensOf (compileCore C09.envT {} ex1.render true) = some 3 := by decide +kernel
example : parensOf (compileCore C09.envT {} ex1.render false) = some 3 := by decide +kernel
/-- the theorem applies (all hypotheses are met), also with flags `i`, `s`, `m` -/
example : ∃ pr, compileCore C09.envT {} ex1.render true = .ok pr ∧ pr.maxParens = 3 :=
  compile_accepts C09.envT {} rfl ex1 (by decide) (by decide) true
example : ∃ pr, compileCore C09.envT { caseBlind := true, singleLine := true, multiLine := true }
    ex1.render true = .ok pr ∧ pr.maxParens = 3 :=
  compile_accepts C09.envT _ rfl ex1 (by decide) (by decide) true
/-- it is not valid XSD (reluctant marker, back-reference) -/
example : ex1.okFor true C09.envT = false := by decide
example : isSyntaxErr (compileCore C09.envT { xsd := true } ex1.render true) = true := by decide +kernel

/-- `[a-z-[aeiou]]+\d{2,3}|^x$|`: class with subtraction, class escape, `{n,m}`, anchors, an empty
    last branch -/
def ex2 : Ast :=
  .alt (.cons (.cls C09.exVowels) (some ⟨.plus, false⟩)
          (.cons (.clsEsc 100) (some ⟨.range [50] [51], false⟩) .nil))
    (.alt (.cons .bol none (.cons (.chr 120) none (.cons .eol none .nil))) (.one .nil))

example : ex2.render = cps "[a-z-[aeiou]]+\\d{2,3}|^x$|" := by decide
example : ex2.okFor false C09.envT = true := by decide
example : parensOf (compileCore C09.envT {} ex2.render true) = some 1 := by decide +kernel
example : ∃ pr, compileCore C09.envT { caseBlind := true } ex2.render true = .ok pr ∧ pr.maxParens = 1 :=
  compile_accepts C09.envT _ rfl ex2 (by decide) (by decide) true

/-- `(?:ab|\p{L}+?)\.\$\P{Nd}{3,}`: non-capturing group, category escapes, single-character escapes
    (`\$` is XPath only), a run of characters that `parse_atom` merges -/
def ex3 : Ast :=
  .one (.cons (.ncgroup (.alt (.cons (.chr 97) none (.cons (.chr 98) none .nil))
                  (.one (.cons (.prop true [76]) (some ⟨.plus, true⟩) .nil)))) none
      (.cons (.esc 46) none (.cons (.esc 36) none
        (.cons (.prop false [78, 100]) (some ⟨.atLeast [51], false⟩) .nil))))

example : ex3.render = cps "(?:ab|\\p{L}+?)\\.\\$\\P{Nd}{3,}" := by decide
example : ex3.okFor false C09.envT = true ∧ ex3.okFor true C09.envT = false := by decide
example : parensOf (compileCore C09.envT {} ex3.render true) = some 1 := by decide +kernel

/-- XSD dialect: `^(a|b)*$` — here `^` and `$` are ordinary characters -/
def ex4 : Ast :=
  .one (.cons (.chr 94) none
    (.cons (.group (.alt (.cons (.chr 97) none .nil) (.one (.cons (.chr 98) none .nil))))
      (some ⟨.star, false⟩) (.cons (.chr 36) none .nil)))

example : ex4.render = cps "^(a|b)*$" := by decide
example : ex4.okFor true C09.envT = true ∧ ex4.okFor false C09.envT = false := by decide
example : parensOf (compileCore C09.envT { xsd := true } ex4.render true) = some 2 := by decide +kernel
example : ∃ pr, compileCore C09.envT { xsd := true } ex4.render true = .ok pr ∧ pr.maxParens = 2 :=
  compile_accepts C09.envT _ rfl ex4 (by decide) (by decide) true

/-- the multi-digit rule.  `(a)\10`: one group, so `\10` is `\1` followed by the character `0`. -/
def ex5 : Ast :=
  .one (.cons (.group (.one (.cons (.chr 97) none .nil))) none
    (.cons (.backref [49]) none (.cons (.chr 48) none .nil)))

example : ex5.render = cps "(a)\\10" := by decide
example : ex5.okFor false C09.envT = true := by decide
example : parensOf (compileCore C09.envT {} ex5.render true) = some 2 := by decide +kernel

/-- ten groups `(a)`: then `\10` IS the back-reference to group 10 … -/
def tenGroups : Branch → Branch :=
  fun tail => (List.range 10).foldr (fun _ b => .cons (.group (.one (.cons (.chr 97) none .nil))) none b) tail
def ex6 : Ast := .one (tenGroups (.cons (.backref [49, 48]) none .nil))
/-- … and reading the same text as `\1` followed by `0` is not a valid tree (`followOk` fails) -/
def ex6bad : Ast := .one (tenGroups (.cons (.backref [49]) none (.cons (.chr 48) none .nil)))

example : ex6.render = cps "(a)(a)(a)(a)(a)(a)(a)(a)(a)(a)\\10" ∧ ex6bad.render = ex6.render := by decide
example : ex6.okFor false C09.envT = true ∧ ex6bad.okFor false C09.envT = false := by decide
example : parensOf (compileCore C09.envT {} ex6.render true) = some 11 := by decide +kernel

/-- back-reference to a group that is still open: `(a\1)` is not well formed, and rejected -/
def ex7bad : Ast :=
  .one (.cons (.group (.one (.cons (.chr 97) none (.cons (.backref [49]) none .nil)))) none .nil)
example : ex7bad.okFor false C09.envT = false := by decide
example : isSyntaxErr (compileCore C09.envT {} ex7bad.render true) = true := by decide +kernel

/-- the parser deviation: `a{18446744073709551616}` is grammar-valid, not `ParserQuirkFree`, and
    rejected; one less is accepted -/
def exBig : Ast := .one (.cons (.chr 97) (some ⟨.exact (cps "18446744073709551616"), false⟩) .nil)
def exMax : Ast := .one (.cons (.chr 97) (some ⟨.exact (cps "18446744073709551615"), false⟩) .nil)
example : exBig.okFor false C09.envT = true ∧ ¬ ParserQuirkFree exBig := by decide
example : isSyntaxErr (compileCore C09.envT {} exBig.render true) = true := by decide +kernel
example : compileCore C09.envT {} exBig.render true = .err .syntax :=
  quirk_bound_rejected C09.envT {} rfl 97 (cps "18446744073709551616") [] (by decide) (by decide)
    (by decide) true
example : exMax.okFor false C09.envT = true ∧ ParserQuirkFree exMax := by decide
example : parensOf (compileCore C09.envT {} exMax.render true) = some 1 := by decide +kernel

/-- the rejection theorems on concrete patterns: `a)`, `(a`, `*a`, `|*`, `(*)`, `a{3,2}`, `\`, `\1` -/
example : isSyntaxErr (compileCore C09.envT {} (cps "a)") true) = true ∧
    isSyntaxErr (compileCore C09.envT {} (cps "(a") true) = true ∧
    isSyntaxErr (compileCore C09.envT {} (cps "*a") true) = true ∧
    isSyntaxErr (compileCore C09.envT {} (cps "|*") true) = true ∧
    isSyntaxErr (compileCore C09.envT {} (cps "(*)") true) = true ∧
    isSyntaxErr (compileCore C09.envT {} (cps "a{3,2}") true) = true ∧
    isSyntaxErr (compileCore C09.envT {} (cps "\\") true) = true ∧
    isSyntaxErr (compileCore C09.envT {} (cps "\\1") true) = true := by decide +kernel
example : compileCore C09.envT {} (cps "(*)") true = .err .syntax :=
  reject_quantifier_after_paren C09.envT {} rfl 42 [41] (by decide) (by intro tl h; cases h) true
example : compileCore C09.envT {} (cps "ab|+c") true = .err .syntax :=
  reject_quantifier_after_bar C09.envT {} rfl (.cons (.chr 97) none (.cons (.chr 98) none .nil))
    (by decide) (by decide) 43 [99] (by decide) true

/-- shapes the parser accepts in agreement with the grammar (no deviation): an empty group `()`,
    an empty branch, a quantified anchor `^*`, `$+` -/
example : parensOf (compileCore C09.envT {} (cps "()") true) = some 2 ∧
    parensOf (compileCore C09.envT {} (cps "a||b") true) = some 1 ∧
    parensOf (compileCore C09.envT {} (cps "^*a$+") true) = some 1 := by decide +kernel
/-- … and shapes it rejects in agreement with the XSD 1.1 grammar: a literal `{`, `}` or `]`, adjacent
    quantifiers -/
example : isSyntaxErr (compileCore C09.envT {} (cps "a{") true) = true ∧
    isSyntaxErr (compileCore C09.envT {} (cps "a}") true) = true ∧
    isSyntaxErr (compileCore C09.envT {} (cps "a]") true) = true ∧
    isSyntaxErr (compileCore C09.envT {} (cps "a**") true) = true ∧
    isSyntaxErr (compileCore C09.envT {} (cps "a*??") true) = true := by decide +kernel

end Rx.C07b
