/-
  Props/C05b — C05 ("no API call panics") for programs WITH back-references.

  History.  On the crate as first modelled the claim was FALSE: the patterns

      (?:(a)\1*a){2}        flags ""   input "aaab"        — greedy quantifiers only
      (?:.b?)*?(a)??\1c     flags ""   input "abc"         — a reluctant loop

  made `is_match` (and `replace_all`, `tokenize`, `analyze`) panic with "attempt to subtract with
  overflow" at `let l = e - s;` in op_back_reference.rs: `captureGen` writes `startBr[g] := p` when
  group `g` is ENTERED; if the body then fails the pair is left as `(new p, old e)` with `p > e`, and
  a greedy loop re-extended from its own start, or a reluctant loop that moves forward, reaches a `\g`
  before any `clearBeyond` repairs the pair.  The crate was repaired (fix a635aaf: `e ≤ s` counts as
  "no captured text"), the model follows it, and on the repaired engine the claim is a THEOREM:

  1. `prog1_isMatch_ok`, `prog2_isMatch_ok` : the two former witnesses, as `compileCore` builds them,
     now evaluate without panic (regression witnesses of the fix).
  2. `sem_no_panic_backrefs`, `matchAt_no_panic_backrefs`, `matchesFrom_no_panic_backrefs`,
     `isMatch_no_panic_backrefs` : for EVERY program satisfying `progOK` — `wfOp`, group and
     back-reference numbers below `maxParens`, a back-reference only under the `hasBackrefs` flag,
     plain preconditions, `prefix.len ≤ minimum_length` — no engine step, no `match_at`, no `matches(i)`
     (`i ≤ len`, any start state) and no `is_match` sets a real panic marker.  (This subsumes
     `C05.isMatch_no_panic`, which needed "no back-reference at all".)
     The invariant: no real panic marker, and — when the program has the flag — both back-reference
     arrays have length exactly `maxParens` (`IdxInv`).
  3. `sem_spine_clean` : what remains of the "spine" analysis.  When every REFERENCED group is captured
     in spine position (reachable from the root through `.seq` / `.capture` only) every back-reference
     reads a CLEAN pair `s ≤ e`: the repaired branch `e < s` is dead code on such programs, the fix
     changes nothing there.
  4. `compile_progOK`, `api_*` : the compiler establishes `progOK`; C05 for `is_match` from the
     pattern text (see the end of the file).
-/
import RxModel.Props.C05
import RxModel.Props.C02
import RxModel.Spec.PathCaps
import RxModel.Proofs.PathCapsLemmas
import RxModel.Proofs.BrSafeLemmas
import RxModel.Proofs.BrCompileLemmas
import RxModel.Proofs.BrScanLemmas
import RxModel.Props.Api
namespace Rx.C05b
open Rx

/-! ### the side conditions -/

/- `prefixOK`, `presOK`, `progOK` are defined in Proofs/BrSafeLemmas (the compiler lemmas need them):
   `progOK pr = wfOp pr.op && brOK pr.hasBackrefs pr.maxParens pr.op && presOK pr && prefixOK pr`. -/

theorem noPanic_iff (st : St) : C05.NoPanic st ↔ NoRealPanic st := Iff.rfl

/-! ### 2. no panic, for every program -/

/-- no engine step raises a panic marker, whatever the consumer does (with states in which no
    panic marker is set and the arrays keep their allotted length) -/
theorem sem_no_panic_backrefs (ctx : Ctx) (op : Op) (hwf : wfOp op = true)
    (hg : brOK ctx.hasBackrefs ctx.maxParens op = true)
    (p : Nat) (hp : p ≤ ctx.len) (st : St) (h : IdxInv ctx st) : (sem ctx op p st).Inv (IdxInv ctx) :=
  sem_idx ctx op hwf hg p st hp h

/-- `match_at` keeps the state panic-free -/
theorem matchAt_no_panic_backrefs (ctx : Ctx) (op : Op) (hwf : wfOp op = true)
    (hg : brOK ctx.hasBackrefs ctx.maxParens op = true)
    (j : Nat) (hj : j ≤ ctx.len) (st : St) (h : C05.NoPanic st) : C05.NoPanic (matchAt ctx op j st).2 :=
  matchAt_idx ctx op hwf hg j hj st h

theorem progOK_parts {pr : Prog} (hs : progOK pr = true) :
    wfOp pr.op = true ∧ brOK pr.hasBackrefs pr.maxParens pr.op = true ∧
    (∀ q ∈ pr.pres, wfOp q.op = true ∧ plainTree q.op = true) ∧
    (∀ pre, pr.prefix_ = some pre → pre.length ≤ pr.minLen ∨ pr.minLen = usizeMax) := by
  simp only [progOK, Bool.and_eq_true] at hs
  obtain ⟨⟨⟨h1, h2⟩, h4⟩, h5⟩ := hs
  refine ⟨h1, h2, fun q hq => ?_, fun pre hpre => ?_⟩
  · simp only [presOK, List.all_eq_true, Bool.and_eq_true] at h4
    exact h4 q hq
  · simp only [prefixOK, hpre, Bool.or_eq_true, decide_eq_true_eq] at h5
    exact h5

/-- `matches(i)` for `i ≤ len` keeps the state panic-free, from ANY panic-free start state (hence
    every step of the iterators of `replace_all`, `tokenize`, `analyze`, which call `matches` again
    from the state it leaves) -/
theorem matchesFrom_no_panic_backrefs (pr : Prog) (lower : Nat → Nat) (input : List Nat)
    (hs : progOK pr = true) (hlen : input.length < usizeMax)
    (i : Nat) (hi : i ≤ input.length) (st : St) (h : C05.NoPanic st) :
    C05.NoPanic (matchesFrom (pr.ctx lower input) pr i st).2 := by
  obtain ⟨hwf, hg, hpres, hpre⟩ := progOK_parts hs
  exact matchesFrom_Q searchQ_np (pr.ctx lower input) pr
    (fun j st' hj h' => matchAt_idx (pr.ctx lower input) pr.op hwf hg j hj st' h')
    (fun q hq => sem_plain _ writes_np noRealPanic_junk q.op (hpres q hq).1 (hpres q hq).2)
    hpre hlen i hi st h

/-- **`is_match` never panics** — for every program the compiler can produce -/
theorem isMatch_no_panic_backrefs (pr : Prog) (lower : Nat → Nat) (input : List Nat)
    (hs : progOK pr = true) (hlen : input.length < usizeMax) (c : Nat) :
    pr.isMatch lower input ≠ .panic c :=
  isMatch_np pr lower input
    (matchesFrom_no_panic_backrefs pr lower input hs hlen 0 (Nat.zero_le _) {} (.inl rfl)) c

/-! ### 1. the former counterexamples -/

private def env0 : Env :=
  { lower := id, closure := fun _ => [], category := fun _ => none, block := fun _ => none,
    digit := [], word := [], nameStart := [], nameChar := [] }

private def progOf (c : Out Prog) : Prog :=
  match c with
  | .ok pr => pr
  | _ => default

private def isOk (c : Out Prog) : Bool :=
  match c with
  | .ok _ => true
  | _ => false

private theorem eq_ok_progOf {c : Out Prog} (h : isOk c = true) : c = .ok (progOf c) := by
  cases c <;> simp_all [isOk, progOf]

/-- `(?:(a)\1*a){2}` -/
def pat1 : List Nat := [40, 63, 58, 40, 97, 41, 92, 49, 42, 97, 41, 123, 50, 125]
/-- "aaab" -/
def input1 : List Nat := [97, 97, 97, 98]

def compiled1 : Out Prog := compileCore env0 {} pat1 true
/-- the program the compiler produces for `(?:(a)\1*a){2}` -/
def prog1 : Prog := progOf compiled1

theorem compiled1_ok : compiled1 = .ok prog1 := eq_ok_progOf (by decide +kernel)

/-- … it is the tree the crate dumps:
    `(seq (rep 1 (seq (capture 1 (atom 97)) (rep 2 (backref 1) 0 max 1) (atom 97)) 2 2 1) (end))` -/
theorem prog1_tree :
    opEq prog1.op (.seq [.rep 1 (.seq [.capture 1 (.atom [97]), .rep 2 (.backref 1) 0 usizeMax true, .atom [97]]) 2 2 true,
      .endProgram]) = true ∧ prog1.hasBackrefs = true ∧ prog1.maxParens = 2 := by
  refine ⟨by decide +kernel, by decide +kernel, by decide +kernel⟩

theorem prog1_progOK : progOK prog1 = true := by decide +kernel

/-- regression witness of fix a635aaf: `is_match` on "aaab" used to be `.panic 2` (`e - s`) -/
theorem prog1_isMatch_ok : prog1.isMatch id input1 = .ok false := by decide +kernel

/-- the attempt `match_at(1)` (on "aab") used to set the marker; it now fails cleanly -/
theorem prog1_matchAt_ok :
    (matchAt (prog1.ctx id input1) prog1.op 1 {}).1 = false ∧
    (matchAt (prog1.ctx id input1) prog1.op 1 {}).2.panic = none := ⟨by decide +kernel, by decide +kernel⟩

/-- … also with optimisation off (the verification hook's path) -/
theorem prog1_noopt_ok :
    (progOf (compileCore env0 {} pat1 false)).isMatch id input1 = .ok false := by decide +kernel

/-- `(?:.b?)*?(a)??\1c` -/
def pat2 : List Nat := [40, 63, 58, 46, 98, 63, 41, 42, 63, 40, 97, 41, 63, 63, 92, 49, 99]
/-- "abc" -/
def input2 : List Nat := [97, 98, 99]

def compiled2 : Out Prog := compileCore env0 {} pat2 true
def prog2 : Prog := progOf compiled2

theorem compiled2_ok : compiled2 = .ok prog2 := eq_ok_progOf (by decide +kernel)

/-- `(seq (rep 1 (seq (cls . ) (gfixed (atom 98) 0 1 1)) 0 max 0) (rfixed (capture 1 (atom 97)) 0 1 1)
         (backref 1) (atom 99) (end))` -/
theorem prog2_tree :
    opEq prog2.op (.seq [.rep 1 (.seq [.cls [(0, 10), (11, 13), (14, 1114112)], .gfixed (.atom [98]) 0 1 1]) 0 usizeMax false,
      .rfixed (.capture 1 (.atom [97])) 0 1 1, .backref 1, .atom [99], .endProgram]) = true := by
  decide +kernel

theorem prog2_progOK : progOK prog2 = true := by decide +kernel

/-- regression witness of fix a635aaf: `is_match` on "abc" used to be `.panic 2` -/
theorem prog2_isMatch_ok : prog2.isMatch id input2 = .ok true := by decide +kernel

/-- the theorem applies to both (and says more: no input makes them panic) -/
example (input : List Nat) (hlen : input.length < usizeMax) (c : Nat) : prog1.isMatch id input ≠ .panic c :=
  isMatch_no_panic_backrefs prog1 id input prog1_progOK hlen c

/-- neither program is in the spine fragment of part 3: the referenced group is under a quantifier -/
theorem witnesses_not_spine :
    (spineOp prog1.maxParens prog1.op []).isSome = false ∧ (spineOp prog2.maxParens prog2.op []).isSome = false :=
  ⟨by decide +kernel, by decide +kernel⟩

/-! ### 3. referenced groups in spine position: the repaired branch is dead code -/

/-- Started inside the input in a state (`BI ctx R`: no panic, arrays allotted, every group of `R`
    CLEAN — a recorded pair has `start ≤ end`) where `R` are the spine groups closed so far, the
    iterator of a spine-safe tree exposes only such states, at every yield even with the groups `R'`
    closed by the tree itself clean, as long as the consumer hands back states of the latter kind.
    A back-reference in such a tree is to a group of the current `R` (`freeOK`), so it never sees
    `end < start`. -/
theorem sem_spine_clean (ctx : Ctx) (hb : ctx.hasBackrefs = true) (op : Op) (hwf : wfOp op = true)
    (R R' : List Nat) (hsp : spineOp ctx.maxParens op R = some R')
    (p : Nat) (st : St) (hp : p ≤ ctx.len) (h : BI ctx R st) :
    (sem ctx op p st).Inv2 (BI ctx R) (BI ctx R') :=
  sem_spine ctx hb op hwf R R' hsp p st hp h

/-! ### 4. from the pattern text -/

/-- every optimised program `compileCore` produces satisfies `progOK` (side condition as in
    `WF.compile_wf`: no saturated body length) -/
theorem compile_progOK (env : Env) (fl : CFlags) (pat : List Nat) (pr : Prog)
    (h : compileCore env fl pat true = .ok pr)
    (hns : ∀ op s, parseExpr { pat := pat, fl := fl, env := env } (4 * pat.length + 16) {} true = .ok op s →
              WF.noSat (optimize env fl op) = true ∧ WF.noSat op = true) :
    progOK pr = true :=
  Rx.compile_progOK env fl pat pr h hns

/-- the program inside whatever `Regex::new` accepts, and what produced it -/
theorem new_compiled (env : Env) (p fs : List Nat) (xsd : Bool) (fl : Flags) (r : Regex)
    (hf : parseFlags fs xsd = some fl) (h : Regex.new env p fs xsd true = .ok r) :
    compileProg env fl p true = .ok r.prog := by
  unfold Regex.new at h
  rw [hf] at h
  dsimp only at h
  cases hc : compileProg env fl p true with
  | ok pr =>
    rw [hc] at h
    dsimp only at h
    cases hn : pr.nullable env.lower with
    | ok n =>
      rw [hn] at h
      simp only [Out.ok.injEq] at h
      subst h
      rfl
    | err e => rw [hn] at h; cases h
    | panic c => rw [hn] at h; cases h
    | diverge => rw [hn] at h; cases h
  | err e => rw [hc] at h; cases h
  | panic c => rw [hc] at h; cases h
  | diverge => rw [hc] at h; cases h

/-- whatever `Regex::new` accepts satisfies `progOK` -/
theorem new_progOK (env : Env) (p fs : List Nat) (xsd : Bool) (fl : Flags) (r : Regex)
    (hf : parseFlags fs xsd = some fl) (h : Regex.new env p fs xsd true = .ok r) (hns : Api.NoSat env fl p) :
    progOK r.prog = true :=
  Rx.compile_progOK env fl.core _ r.prog (new_compiled env p fs xsd fl r hf h) hns

/-- **C05 for `is_match`, from the pattern text, for ALL accepted patterns** (back-references or
    not): `is_match` never panics -/
theorem api_isMatch_no_panic (env : Env) (p fs : List Nat) (xsd : Bool) (fl : Flags) (r : Regex)
    (hf : parseFlags fs xsd = some fl) (h : Regex.new env p fs xsd true = .ok r) (hns : Api.NoSat env fl p)
    (input : List Nat) (hlen : input.length < usizeMax) (c : Nat) :
    r.prog.isMatch env.lower input ≠ .panic c :=
  isMatch_no_panic_backrefs r.prog env.lower input (new_progOK env p fs xsd fl r hf h hns) hlen c

/-- … and every call `matches(i)`, `i ≤ len`, from any panic-free matcher state -/
theorem api_matchesFrom_no_panic (env : Env) (p fs : List Nat) (xsd : Bool) (fl : Flags) (r : Regex)
    (hf : parseFlags fs xsd = some fl) (h : Regex.new env p fs xsd true = .ok r) (hns : Api.NoSat env fl p)
    (input : List Nat) (hlen : input.length < usizeMax) (i : Nat) (hi : i ≤ input.length) (st : St)
    (hst : C05.NoPanic st) : C05.NoPanic (matchesFrom (r.prog.ctx env.lower input) r.prog i st).2 :=
  matchesFrom_no_panic_backrefs r.prog env.lower input (new_progOK env p fs xsd fl r hf h hns) hlen i hi st hst

/-- the compiler proper has no panic outcome -/
theorem compileProg_ne_panic (env : Env) (fl : Flags) (p : List Nat) (opt : Bool) (c : Nat) :
    compileProg env fl p opt ≠ .panic c := by
  unfold compileProg compileCore
  generalize (if (!fl.literal && fl.allowWs) = true then stripWs p 0 false else p) = pat
  split
  · split <;> (intro hx; cases hx)
  · dsimp only
    cases parseExpr { pat := pat, fl := fl.core, env := env } (4 * pat.length + 16) {} true with
    | err e => intro hx; cases hx
    | ok op s =>
      dsimp only
      split
      · intro hx; cases hx
      · split <;> (intro hx; cases hx)

/-- `Regex::new` itself never panics (its only engine call is the nullability test `is_match("")`) -/
theorem api_new_no_panic (env : Env) (p fs : List Nat) (xsd : Bool)
    (hns : ∀ fl, parseFlags fs xsd = some fl → Api.NoSat env fl p) (c : Nat) :
    Regex.new env p fs xsd true ≠ .panic c := by
  unfold Regex.new
  cases hf : parseFlags fs xsd with
  | none => intro hx; cases hx
  | some fl =>
    dsimp only
    cases hc : compileProg env fl p true with
    | ok pr =>
      dsimp only
      have hok : progOK pr = true := Rx.compile_progOK env fl.core _ pr hc (hns fl hf)
      cases hn : pr.nullable env.lower with
      | ok n => intro hx; cases hx
      | err e => intro hx; cases hx
      | diverge => intro hx; cases hx
      | panic c' =>
        exact absurd hn (isMatch_no_panic_backrefs pr env.lower [] hok (by decide) c')
    | err e => intro hx; cases hx
    | diverge => intro hx; cases hx
    | panic c' =>
      exact absurd hc (compileProg_ne_panic env fl p true c')

/-! ### 5. the scan loops: `replace_all`, `tokenize`, `analyze` -/

/-- the concrete matcher of a program with `progOK` and positive group numbers is a `SafeFind`:
    it never fails with a real panic, and reports spans at or after the requested position -/
theorem prog_safeFind (pr : Prog) (lower : Nat → Nat) (input : List Nat)
    (hs : progOK pr = true) (hcp : C02.capsPos pr.op = true) (hlen : input.length < usizeMax) :
    SafeFind (pr.matcher lower input) input.length NoRealPanic where
  step := fun st pos st' m hI hpos hfind => by
    have hfind' : matchesFrom (pr.ctx lower input) pr pos st = (m, st') := hfind
    have hnp : NoRealPanic st' := by
      have := matchesFrom_no_panic_backrefs pr lower input hs hlen pos hpos st hI
      rw [hfind'] at this
      exact this
    refine ⟨hnp, fun c hc => ?_, fun hm _ => ?_⟩
    · have hc' : st'.panic = some c := hc
      rcases hnp with h | h
      · rw [h] at hc'; cases hc'
      · rw [h] at hc'
        simp only [Option.some.injEq] at hc'
        exact hc'.symm
    · subst hm
      obtain ⟨a, b, ha, hb, h1, h2, h3, _⟩ :=
        C02.matchesFrom_span pr lower input (progOK_parts hs).1 hcp pos hpos st st' hfind'
      exact ⟨a, b, ha, hb, h1, h2, h3⟩

/-- **`replace_all` never panics** -/
theorem replaceAll_no_panic (r : Regex) (lower : Nat → Nat) (input repl : List Nat)
    (hs : progOK r.prog = true) (hcp : C02.capsPos r.prog.op = true) (hlen : input.length < usizeMax)
    (c : Nat) : r.replaceAll lower input repl ≠ .panic c := by
  unfold Regex.replaceAll
  split
  · intro hx; cases hx
  · exact replaceWith_no_panic _ NoRealPanic input _ _ (prog_safeFind r.prog lower input hs hcp hlen) {}
      (.inl rfl) c

/-- **`tokenize` (and every step of its iterator, up to any `limit`) never panics** -/
theorem tokenize_no_panic (r : Regex) (lower : Nat → Nat) (input : List Nat) (limit : Nat)
    (hs : progOK r.prog = true) (hcp : C02.capsPos r.prog.op = true) (hlen : input.length < usizeMax)
    (c : Nat) : r.tokenize lower input limit ≠ .panic c := by
  unfold Regex.tokenize
  split
  · intro hx; cases hx
  · split
    · intro hx; cases hx
    · exact tokenLoop_no_panic _ NoRealPanic input (prog_safeFind r.prog lower input hs hcp hlen) c
        limit (some 0) {} [] (.inl rfl) (fun pe hpe => by cases hpe; exact Nat.zero_le _)

/-- the tree builder `process_matching_substring` has one panic code -/
theorem processMatch_panic (tbl : List (Nat × Nat)) (st : St) (cur : List Nat) (c : Nat)
    (h : processMatch tbl st cur = .panic c) : c = panicAnalyze := by
  unfold processMatch at h
  split at h
  · simp only [Out.panic.injEq] at h; exact h.symm
  · simp only at h
    split at h
    · cases h
    · split at h
      · simp only [Out.panic.injEq] at h; exact h.symm
      · split at h
        · cases h
        · simp only [Out.panic.injEq] at h; exact h.symm

/-- **`analyze`**: the engine and the scan loop contribute no panic; what remains are the panic
    sites of the nesting table (`compute_nesting_table`, `panicNesting`) and of the tree builder
    (`process_matching_substring`, `panicAnalyze`), which depend on the reported group spans being
    properly nested — proved only for straight-line programs (C03c), open in general -/
theorem analyze_panic_only_tree (r : Regex) (lower : Nat → Nat) (input : List Nat) (limit : Nat)
    (hs : progOK r.prog = true) (hcp : C02.capsPos r.prog.op = true) (hlen : input.length < usizeMax)
    (c : Nat) (h : r.analyze lower input limit = .panic c) : c = panicNesting ∨ c = panicAnalyze := by
  unfold Regex.analyze at h
  split at h
  · cases h
  · dsimp only at h
    split at h
    · simp only [Out.panic.injEq] at h
      exact .inl h.symm
    · rename_i tbl _
      obtain ⟨st, t, ht⟩ := analyzeLoop_panic _ NoRealPanic (processMatch tbl) input
        (prog_safeFind r.prog lower input hs hcp hlen) c limit { st := ({} : St) } []
        ⟨.inl rfl, (fun pe hpe => by cases hpe; exact Nat.zero_le _), (fun hx => by cases hx)⟩ h
      exact .inr (processMatch_panic tbl st t c ht)

/-! #### … from the pattern text -/

theorem api_replaceAll_no_panic (env : Env) (p fs : List Nat) (xsd : Bool) (fl : Flags) (r : Regex)
    (hf : parseFlags fs xsd = some fl) (h : Regex.new env p fs xsd true = .ok r) (hns : Api.NoSat env fl p)
    (input repl : List Nat) (hlen : input.length < usizeMax) (c : Nat) :
    r.replaceAll env.lower input repl ≠ .panic c :=
  replaceAll_no_panic r env.lower input repl (new_progOK env p fs xsd fl r hf h hns)
    (Api.new_wf env p fs xsd fl r hf h hns).2.1 hlen c

theorem api_tokenize_no_panic (env : Env) (p fs : List Nat) (xsd : Bool) (fl : Flags) (r : Regex)
    (hf : parseFlags fs xsd = some fl) (h : Regex.new env p fs xsd true = .ok r) (hns : Api.NoSat env fl p)
    (input : List Nat) (limit : Nat) (hlen : input.length < usizeMax) (c : Nat) :
    r.tokenize env.lower input limit ≠ .panic c :=
  tokenize_no_panic r env.lower input limit (new_progOK env p fs xsd fl r hf h hns)
    (Api.new_wf env p fs xsd fl r hf h hns).2.1 hlen c

theorem api_analyze_panic_only_tree (env : Env) (p fs : List Nat) (xsd : Bool) (fl : Flags) (r : Regex)
    (hf : parseFlags fs xsd = some fl) (h : Regex.new env p fs xsd true = .ok r) (hns : Api.NoSat env fl p)
    (input : List Nat) (limit : Nat) (hlen : input.length < usizeMax) (c : Nat)
    (hc : r.analyze env.lower input limit = .panic c) : c = panicNesting ∨ c = panicAnalyze :=
  analyze_panic_only_tree r env.lower input limit (new_progOK env p fs xsd fl r hf h hns)
    (Api.new_wf env p fs xsd fl r hf h hns).2.1 hlen c hc

end Rx.C05b
