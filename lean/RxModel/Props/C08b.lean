/-
  Props/C08b — positional preconditions are sound (the fifth search shortcut).

  `ReProgram::add_precondition` records, for the elements of the top-level sequence, operations
  that must match at a fixed position (after `^` outside multi-line mode) or somewhere at or after
  a minimum position.  `check_preconditions(start)` refuses to search when one of them cannot be
  met.  Here: whenever a member of the program's language starts at or after `start`, every
  recorded precondition can be met — so the check never discards a match.
-/
import RxModel.Spec.OpLang
import RxModel.Model.Program
import RxModel.Props.C08
namespace Rx.C08
open Rx

/-- what `check_preconditions(start)` demands for one recorded precondition, in terms of the language -/
def PreOK (ctx : Ctx) (q : Pre) (start : Nat) : Prop :=
  match q.fixed with
  | some f => ∃ n, OpR ctx q.op f n
  | none => ∃ k n, start ≤ k ∧ q.minPos ≤ k ∧ k < ctx.len ∧ OpR ctx q.op k n

mutual
/-- no empty literal (the compiler never builds one outside the literal program `atom "" · end`,
    whose preconditions are never consulted because it has a prefix) -/
def noEmptyAtoms : Op → Bool
  | .atom cs => !cs.isEmpty
  | .capture _ c => noEmptyAtoms c
  | .choice bs => noEmptyAtomsL bs
  | .seq ops => noEmptyAtomsL ops
  | .rep _ c _ _ _ => noEmptyAtoms c
  | .gfixed c _ _ _ => noEmptyAtoms c
  | .rfixed c _ _ _ => noEmptyAtoms c
  | .unamb c _ _ => noEmptyAtoms c
  | _ => true
termination_by structural o => o
def noEmptyAtomsL : List Op → Bool
  | [] => true
  | o :: os => noEmptyAtoms o && noEmptyAtomsL os
termination_by structural l => l
end

/-- a fixed match length in terms of the language -/
theorem OpR_matchLen (ctx : Ctx) (op : Op) (hwf : wfOp op = true) (l : Nat) (hl : matchLen op = some l)
    (hlt : l < usizeMax) (x y : Nat) (h : OpR ctx op x y) : y = x + l := by
  sorry

/-- the general step: an operation matched from `x`, where `x` is the recorded fixed position (if
    any), at least the recorded minimum position and at least `start`, satisfies every
    precondition recorded for it -/
theorem addPre_sound (ctx : Ctx) (hlen : ctx.len < usizeMax) (op : Op) (hwf : wfOp op = true)
    (hne : noEmptyAtoms op = true)
    (fp : Option Nat) (mp start x y : Nat)
    (h : OpR ctx op x y) (hx : x ≤ ctx.len) (hfp : ∀ f, fp = some f → x = f) (hmp : mp ≤ x) (hst : start ≤ x) :
    ∀ q ∈ addPre ctx.multiLine op fp mp, PreOK ctx q start := by
  sorry

/-- hence `check_preconditions(start)` can be met whenever a member of the program's language
    starts at or after `start` -/
theorem preconditions_sound (ctx : Ctx) (hlen : ctx.len < usizeMax) (op : Op) (hwf : wfOp op = true)
    (hne : noEmptyAtoms op = true)
    (start a b : Nat) (hsa : start ≤ a) (ha : a ≤ ctx.len) (h : OpR ctx op a b) :
    ∀ q ∈ addPre ctx.multiLine op none 0, PreOK ctx q start := by
  sorry

end Rx.C08
