/-
  Props/C08b — positional preconditions are sound (the fifth search shortcut).

  `ReProgram::add_precondition` records, for the elements of the top-level sequence, operations
  that must match at a fixed position (after `^` outside multi-line mode) or somewhere at or after
  a minimum position.  `check_preconditions(start)` refuses to search when one of them cannot be
  met.  Here: whenever a member of the program's language starts at or after `start`, every
  recorded precondition can be met — so the check never discards a match.
-/
import RxModel.Spec.OpLang
import RxModel.Model.Program
import RxModel.Props.C08
import RxModel.Proofs.PreLemmas
namespace Rx.C08
open Rx

/-! `PreOK` (what `check_preconditions(start)` demands for one recorded precondition, in terms of
    the language) and `noEmptyAtoms` / `noEmptyAtomsL` (no empty literal) are defined, unchanged, in
    `Proofs/PreLemmas` (namespace `Rx.C08`), because the helper lemmas need them. -/

/-- a fixed match length in terms of the language -/
theorem OpR_matchLen (ctx : Ctx) (op : Op) (hwf : wfOp op = true) (l : Nat) (hl : matchLen op = some l)
    (hlt : l < usizeMax) (x y : Nat) (h : OpR ctx op x y) : y = x + l :=
  (PreL.ML_op ctx op hwf l hl x y h).2 hlt

/-- the general step: an operation matched from `x`, where `x` is the recorded fixed position (if
    any), at least the recorded minimum position and at least `start`, satisfies every
    precondition recorded for it -/
theorem addPre_sound (ctx : Ctx) (hlen : ctx.len < usizeMax) (op : Op) (hwf : wfOp op = true)
    (hne : noEmptyAtoms op = true)
    (fp : Option Nat) (mp start x y : Nat)
    (h : OpR ctx op x y) (hx : x ≤ ctx.len) (hfp : ∀ f, fp = some f → x = f) (hmp : mp ≤ x) (hst : start ≤ x) :
    ∀ q ∈ addPre ctx.multiLine op fp mp, PreOK ctx q start :=
  PreL.addPre_op ctx hlen op hwf hne fp mp start x y h hx hfp hmp hst

/-- hence `check_preconditions(start)` can be met whenever a member of the program's language
    starts at or after `start` -/
theorem preconditions_sound (ctx : Ctx) (hlen : ctx.len < usizeMax) (op : Op) (hwf : wfOp op = true)
    (hne : noEmptyAtoms op = true)
    (start a b : Nat) (hsa : start ≤ a) (ha : a ≤ ctx.len) (h : OpR ctx op a b) :
    ∀ q ∈ addPre ctx.multiLine op none 0, PreOK ctx q start :=
  addPre_sound ctx hlen op hwf hne none 0 start a b h ha (fun _ hf => by cases hf) (Nat.zero_le _) hsa

end Rx.C08
