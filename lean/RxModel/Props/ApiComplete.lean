/-
  Props/ApiComplete — properties C16, C04, C06 and C20 at the level of the REAL API functions
  (`is_match`, `replace_all`, `tokenize`, `analyze` of Model/Api) on the enlarged clean fragment
  (Spec/Enum2; Props/Clean2Api).

  `Clean2Regex env fl r`: `r` was returned by `Regex::new` (optimiser on) and satisfies the hypotheses of
  the `api_clean2_*` theorems: `Api.NoSat`, the decidable `cleanProg2` / `clsCanonB` of the compiled tree,
  `r.prog.hasBackrefs = false`, "not the empty pattern under flag q".
  `GoodInput env fl input`: the data hypotheses `InputOKFor` (vacuous on the case tables for a
  case-sensitive regex) and `input.length < usize::MAX`.

    1 (C16)  `api_gate_iff`: the bit stored by the constructor is "the regex SEMANTICALLY matches the empty
             string"; `c16_rejected`, `c16_only_those` (as iff's: `replaceAll_gate_iff`, …), `c16_no_empty_span`
    2 (C04)  `spans`: the STATE-FREE span list (least start with a match, first end of the priority order
             `enum2`, continue from that end).  `scan_sees_spans`: the span sequence the three scan loops
             compute with the concrete matcher IS this list.  `api_replace_spec` (+ `_plain`, `_dollar0`),
             `api_tokenize_spec`, `api_analyze_spec` (+ `api_analyze_plain`, `api_analyze_concat` for
             programs without capturing groups), the bounds.
    3 (C06)  totality: `api_isMatch_total`, `api_replace_total`, `api_tokenize_total`, `api_analyze_total`
    4 (C20)  `api_same_language`: same `is_match`, same gate bit, same start of the next match from every
             position; `api_same_spans` when the `enum2` heads agree.  The requested "same span START
             list" is FALSE (`api_same_start_list_false`), and so is end equality (`ends_differ`).
    5        `a*b(c|d)+e` through `Regex.new Env.std`, on "xaabcde-bce".
-/
import RxModel.Proofs.ApiCompleteLemmas
import RxModel.Proofs.C03cTree
namespace Rx.ApiComplete
open Rx Rx.SearchComplete Rx.Spec Rx.Clean2Api
open Rx.C08 (noEmptyAtoms)

/-! ## the bundles -/

/-- `r` is what `Regex::new env p fs xsd` (optimiser on) returned, and satisfies the hypotheses of the
    `api_clean2_*` theorems of Props/Clean2Api -/
structure Clean2New (env : Env) (p fs : List Nat) (xsd : Bool) (fl : Flags) (r : Regex) : Prop where
  hf : parseFlags fs xsd = some fl
  hnew : Regex.new env p fs xsd true = .ok r
  hns : Api.NoSat env fl p
  hclean : cleanProg2 env fl.caseBlind fl.multiLine r.prog.op = true
  hcan : clsCanonB r.prog.op = true
  hnb : r.prog.hasBackrefs = false
  hlit : fl.literal = true → p ≠ []

def Clean2Regex (env : Env) (fl : Flags) (r : Regex) : Prop := ∃ p fs xsd, Clean2New env p fs xsd fl r

/-- the data hypotheses on one input -/
structure GoodInput (env : Env) (fl : Flags) (input : List Nat) : Prop where
  ok : InputOKFor env fl.core env.lower input
  len : input.length < usizeMax

theorem GoodInput.nil {env : Env} {fl : Flags} {input : List Nat} (G : GoodInput env fl input) :
    GoodInput env fl [] :=
  ⟨inputOKFor_nil G.ok, by decide⟩

/-- case-sensitive regex over the real tables: every input of scalar values is good -/
theorem goodInput_std_cs {fl : Flags} (hcb : fl.caseBlind = false) {input : List Nat}
    (hsv : ScalarInput input) (hlen : input.length < usizeMax) : GoodInput Env.std fl input :=
  ⟨inputOK_std_cs hcb hsv, hlen⟩

/-- everything the proofs below use about such a regex -/
theorem Clean2Regex.core {env : Env} {fl : Flags} {r : Regex} (R : Clean2Regex env fl r) :
    ∃ pat op mp, r.prog = mkProgram pat op mp fl.core false ∧
      cleanProg2 env fl.core.caseBlind fl.core.multiLine op = true ∧ wfOp op = true ∧
      noEmptyAtoms op = true ∧ clsCanonB op = true ∧ C02.capsPos op = true ∧
      r.prog.isMatch env.lower [] = .ok r.nullable ∧ r.prog.maxParens ≠ 0 := by
  obtain ⟨p, fs, xsd, N⟩ := R
  obtain ⟨pat, op, mp, heq, a1, a2, a3, a4, a5⟩ :=
    new_clean2 env p fs xsd fl r N.hf N.hnew N.hns N.hclean N.hcan N.hnb N.hlit
  have hcomp := new_compile env p fs xsd true fl r N.hf N.hnew
  rw [compileProg_core] at hcomp
  exact ⟨pat, op, mp, heq, a1, a2, a3, a4, a5, C16.new_nullable env p fs xsd true r N.hnew,
    compile_maxParens env fl.core _ r.prog hcomp⟩

/-- flag `q` of the program is flag `q` of the call -/
theorem Clean2Regex.literal {env : Env} {fl : Flags} {r : Regex} (R : Clean2Regex env fl r) :
    r.prog.literal = fl.literal := by
  obtain ⟨pat, op, mp, heq, _⟩ := R.core
  rw [heq]
  exact mkProgram_literal pat op mp fl.core false

/-- the concrete matcher of a non-nullable regex of the fragment, on a good input -/
theorem Clean2Regex.findOK {env : Env} {fl : Flags} {r : Regex} (R : Clean2Regex env fl r)
    (hnull : r.nullable = false) {input : List Nat} (G : GoodInput env fl input) :
    FindOK (r.prog.ctx env.lower input) r.prog := by
  obtain ⟨pat, op, mp, heq, hc, hw, hne, hca, hcp, hn, _⟩ := R.core
  rw [hnull, heq] at hn
  rw [heq]
  exact findOK_of_clean2 env pat op mp fl.core env.lower hc hw hne hca hcp hn input G.ok G.len

/-- C01 both ways (Props/Clean2Api), in bundle form -/
theorem Clean2Regex.isMatch_iff {env : Env} {fl : Flags} {r : Regex} (R : Clean2Regex env fl r)
    {input : List Nat} (G : GoodInput env fl input) :
    (r.prog.isMatch env.lower input = .ok true ↔
      ∃ j q, j ≤ input.length ∧ OpR (r.prog.ctx env.lower input) r.prog.op j q) ∧
    ((¬ ∃ j q, j ≤ input.length ∧ OpR (r.prog.ctx env.lower input) r.prog.op j q) →
      r.prog.isMatch env.lower input = .ok false) := by
  obtain ⟨p, fs, xsd, N⟩ := R
  exact api_clean2_isMatch_iff env p fs xsd fl r N.hf N.hnew N.hns N.hclean N.hcan N.hnb N.hlit input G.ok G.len

/-! ## 1. C16 — regexes that match the empty string are rejected up front, and only those -/

/-- the gate bit is SEMANTIC: `r.nullable` iff the empty string is in the language of the program -/
theorem api_gate_iff {env : Env} {fl : Flags} {r : Regex} (R : Clean2Regex env fl r)
    (G0 : GoodInput env fl []) :
    r.nullable = true ↔ ∃ q, OpR (r.prog.ctx env.lower []) r.prog.op 0 q := by
  obtain ⟨_, _, _, _, _, _, _, _, _, hn, _⟩ := R.core
  obtain ⟨h1, h2⟩ := R.isMatch_iff G0
  constructor
  · intro hnull
    rw [hnull] at hn
    obtain ⟨j, q, hj, hq⟩ := h1.1 hn
    have : j = 0 := by simpa using hj
    subst this
    exact ⟨q, hq⟩
  · rintro ⟨q, hq⟩
    have := h1.2 ⟨0, q, Nat.le_refl _, hq⟩
    rw [hn] at this
    simpa using this

/-- … in the form "matches the empty string": a zero-length member AT 0 of the empty input -/
theorem api_gate_iff_empty {env : Env} {fl : Flags} {r : Regex} (R : Clean2Regex env fl r)
    (G0 : GoodInput env fl []) :
    r.nullable = true ↔ OpR (r.prog.ctx env.lower []) r.prog.op 0 0 := by
  rw [api_gate_iff R G0]
  constructor
  · rintro ⟨q, hq⟩
    have := (C01.OpR_bounds _ _ 0 q (Nat.zero_le _) hq).2
    have hq0 : q = 0 := by simpa [Ctx.len, Prog.ctx] using this
    subst hq0
    exact hq
  · intro h; exact ⟨0, h⟩

/-- C16, first sentence: a regex that matches the empty string is rejected by `replace_all`, `analyze`
    and (on a non-empty input) `tokenize` with `MatchesEmptyString` -/
theorem c16_rejected {env : Env} {fl : Flags} {r : Regex} (R : Clean2Regex env fl r) (G0 : GoodInput env fl [])
    (hempty : ∃ q, OpR (r.prog.ctx env.lower []) r.prog.op 0 q)
    (lower : Nat → Nat) (input repl : List Nat) (limit : Nat) :
    r.replaceAll lower input repl = .err .matchesEmptyString ∧
    r.analyze lower input limit = .err .matchesEmptyString ∧
    (input ≠ [] → r.tokenize lower input limit = .err .matchesEmptyString) ∧
    r.tokenize lower [] limit = .ok ([], false) := by
  have hn := (api_gate_iff R G0).2 hempty
  exact ⟨C16.replace_nullable r lower input repl hn, C16.analyze_nullable r lower input limit hn,
    fun hne => C16.tokenize_nullable r lower input limit hn hne, C16.tokenize_empty r lower limit⟩

/-- C16, second sentence ("and only those"), as equivalences: the error is returned EXACTLY when the
    regex matches the empty string -/
theorem replaceAll_gate_iff {env : Env} {fl : Flags} {r : Regex} (R : Clean2Regex env fl r)
    (G0 : GoodInput env fl []) (lower : Nat → Nat) (input repl : List Nat) :
    r.replaceAll lower input repl = .err .matchesEmptyString ↔
      ∃ q, OpR (r.prog.ctx env.lower []) r.prog.op 0 q := by
  rw [← api_gate_iff R G0]
  constructor
  · intro h
    cases hn : r.nullable with
    | true => rfl
    | false => exact absurd h (C16.replace_not_nullable r lower input repl hn)
  · exact C16.replace_nullable r lower input repl

theorem analyze_gate_iff {env : Env} {fl : Flags} {r : Regex} (R : Clean2Regex env fl r)
    (G0 : GoodInput env fl []) (lower : Nat → Nat) (input : List Nat) (limit : Nat) :
    r.analyze lower input limit = .err .matchesEmptyString ↔
      ∃ q, OpR (r.prog.ctx env.lower []) r.prog.op 0 q := by
  rw [← api_gate_iff R G0]
  constructor
  · intro h
    cases hn : r.nullable with
    | true => rfl
    | false => exact absurd h (C16.analyze_not_nullable r lower input limit hn)
  · exact C16.analyze_nullable r lower input limit

theorem tokenize_gate_iff {env : Env} {fl : Flags} {r : Regex} (R : Clean2Regex env fl r)
    (G0 : GoodInput env fl []) (lower : Nat → Nat) (input : List Nat) (limit : Nat) (hne : input ≠ []) :
    r.tokenize lower input limit = .err .matchesEmptyString ↔
      ∃ q, OpR (r.prog.ctx env.lower []) r.prog.op 0 q := by
  rw [← api_gate_iff R G0]
  constructor
  · intro h
    cases hn : r.nullable with
    | true => rfl
    | false => exact absurd h (C16.tokenize_not_nullable r lower input limit hn)
  · intro hn; exact C16.tokenize_nullable r lower input limit hn hne

theorem c16_only_those {env : Env} {fl : Flags} {r : Regex} (R : Clean2Regex env fl r) (G0 : GoodInput env fl [])
    (hnot : ¬ ∃ q, OpR (r.prog.ctx env.lower []) r.prog.op 0 q)
    (lower : Nat → Nat) (input repl : List Nat) (limit : Nat) :
    r.replaceAll lower input repl ≠ .err .matchesEmptyString ∧
    r.analyze lower input limit ≠ .err .matchesEmptyString ∧
    r.tokenize lower input limit ≠ .err .matchesEmptyString := by
  have hn : r.nullable = false := by
    cases h : r.nullable with
    | false => rfl
    | true => exact absurd ((api_gate_iff R G0).1 h) hnot
  exact ⟨C16.replace_not_nullable r lower input repl hn, C16.analyze_not_nullable r lower input limit hn,
    C16.tokenize_not_nullable r lower input limit hn⟩

/-! ## 2. C04 — the three APIs partition the input consistently -/

/-- THE span list of a regex on an input, state-free: from position 0, repeatedly the least start with
    a match and the first end of the priority order from it (`firstSpan`), continuing from that end -/
def spans (r : Regex) (lower : Nat → Nat) (input : List Nat) : List (Nat × Nat) :=
  spansFrom (r.prog.ctx lower input) r.prog.op (input.length + 2) 0

/-- what an element of the list is: `firstSpan` from the previous end -/
theorem firstSpan_spec (ctx : Ctx) (op : Op) (pos j n : Nat) (h : firstSpan ctx op pos = some (j, n)) :
    pos ≤ j ∧ j ≤ ctx.len ∧ (enum2 ctx op j).head? = some n ∧
    ∀ k, pos ≤ k → k < j → (enum2 ctx op k).head? = none := by
  obtain ⟨h1, h2, h3, h4⟩ := firstFrom_some _ _ _ _ _ h
  exact ⟨h1, by omega, h3, h4⟩

/-- … and in terms of the language: a member `[j, n)`, and no member starts in `[pos, j)` -/
theorem firstSpan_sem {env : Env} {fl : Flags} {r : Regex} (R : Clean2Regex env fl r)
    (hnull : r.nullable = false) {input : List Nat} (G : GoodInput env fl input)
    (pos j n : Nat) (hpos : pos ≤ input.length)
    (h : firstSpan (r.prog.ctx env.lower input) r.prog.op pos = some (j, n)) :
    OpR (r.prog.ctx env.lower input) r.prog.op j n ∧ j < n ∧
    ∀ k q, pos ≤ k → k < j → ¬ OpR (r.prog.ctx env.lower input) r.prog.op k q := by
  have F := R.findOK hnull G
  obtain ⟨h1, h2⟩ := (F.sem pos hpos).1 j n h
  refine ⟨h1, ?_, h2⟩
  rcases F.step pos {} hpos rfl with ⟨_, j', n', _, _, a3, _, _, _, a7, _⟩ | ⟨_, _, _, a3⟩
  · rw [h] at a3
    simp only [Option.some.injEq, Prod.mk.injEq] at a3
    obtain ⟨rfl, rfl⟩ := a3
    exact a7
  · rw [h] at a3; cases a3

/-- the list is strictly left to right, its spans are non-empty and inside the input -/
theorem spans_ordered {env : Env} {fl : Flags} {r : Regex} (R : Clean2Regex env fl r)
    (hnull : r.nullable = false) {input : List Nat} (G : GoodInput env fl input) :
    C04.Ordered input.length 0 (spans r env.lower input) :=
  spansFrom_ordered (R.findOK hnull G) _ 0 (Nat.zero_le _)

theorem ordered_mem (len : Nat) : ∀ (l : List (Nat × Nat)) (pos : Nat), C04.Ordered len pos l →
    ∀ x ∈ l, pos ≤ x.1 ∧ x.1 < x.2 ∧ x.2 ≤ len
  | [], _, _, x, hx => by cases hx
  | (a, b) :: rest, pos, ho, x, hx => by
    obtain ⟨h1, h2, h3, h4⟩ := ho
    rcases List.mem_cons.1 hx with rfl | hx
    · exact ⟨h1, h2, h3⟩
    · have := ordered_mem len rest b h4 x hx
      exact ⟨by omega, this.2.1, this.2.2⟩

/-- C16, third sentence: a regex that does not match the empty string never reports an empty span -/
theorem c16_no_empty_span {env : Env} {fl : Flags} {r : Regex} (R : Clean2Regex env fl r)
    (hnull : r.nullable = false) {input : List Nat} (G : GoodInput env fl input) :
    (∀ x ∈ spans r env.lower input, x.1 < x.2 ∧ x.2 ≤ input.length) ∧
    (∀ pos st st', pos ≤ input.length → st.panic = none →
      matchesFrom (r.prog.ctx env.lower input) r.prog pos st = (true, st') →
      ∃ j n, getParenStart st' 0 = some j ∧ getParenEnd st' 0 = some n ∧ pos ≤ j ∧ j < n ∧ n ≤ input.length) := by
  refine ⟨fun x hx => ?_, fun pos st st' hpos hst hm => ?_⟩
  · have := ordered_mem _ _ 0 (spans_ordered R hnull G) x hx
    exact ⟨this.2.1, this.2.2⟩
  · rcases (R.findOK hnull G).step pos st hpos hst with ⟨st2, j, n, he, _, _, a4, a5, a6, a7, a8, _⟩ | ⟨st2, he, _⟩
    · rw [hm] at he
      simp only [Prod.mk.injEq, true_and] at he
      subst he
      exact ⟨j, n, a4, a5, a6, a7, a8⟩
    · rw [hm] at he; cases he

/-- **the scan sees exactly the semantic spans**: the span sequence `C04.spansOf` that the three scan
    loops compute with the concrete, stateful matcher is the state-free list `spans` -/
theorem scan_sees_spans {env : Env} {fl : Flags} {r : Regex} (R : Clean2Regex env fl r)
    (hnull : r.nullable = false) {input : List Nat} (G : GoodInput env fl input) :
    C04.spanPairs (C04.spansOf (r.prog.matcher env.lower input) input.length (input.length + 2) 0 {}) =
      spans r env.lower input :=
  spansOf_eq (R.findOK hnull G) _ 0 {} rfl (Nat.zero_le _)

/-- the matcher satisfies the hypothesis of every theorem of Props/C04 -/
theorem api_goodFind {env : Env} {fl : Flags} {r : Regex} (R : Clean2Regex env fl r)
    (hnull : r.nullable = false) {input : List Nat} (G : GoodInput env fl input) :
    C04.GoodFind (r.prog.matcher env.lower input) input.length (fun st => st.panic = none) :=
  (R.findOK hnull G).goodFind

/-! ### (a) replace -/

/-- `replace_all` with a well-formed replacement that refers to no group but `$0` (`Dep0`; decidable
    sufficient condition `dollar0Only`): the call SUCCEEDS and returns the input with every span of
    `spans` replaced by the expansion of the replacement for that span -/
theorem api_replace_spec {env : Env} {fl : Flags} {r : Regex} (R : Clean2Regex env fl r)
    (hnull : r.nullable = false) {input : List Nat} (G : GoodInput env fl input) (repl : List Nat)
    (hd : Dep0 (r.prog.maxParens - 1) repl) :
    r.replaceAll env.lower input repl =
      .ok (replaced input 0 ((spans r env.lower input).map
        (fun x => (x.1, x.2, replText r.prog input repl x.1 x.2)))) := by
  obtain ⟨_, _, _, _, _, _, _, _, _, _, hmp⟩ := R.core
  simp only [Regex.replaceAll, hnull, Bool.false_eq_true, if_false, replaceWith]
  have := replaceLoop_spec (R.findOK hnull G) repl hmp hd (input.length + 2) 0 {} true false [] rfl
    (Nat.zero_le _) (by omega) (fun _ => ⟨rfl, rfl⟩) (fun h => by cases h) (fun h => by cases h)
  simpa [spans] using this

/-- a replacement without `$` and `\`: the pieces between the spans, joined by it -/
theorem api_replace_plain {env : Env} {fl : Flags} {r : Regex} (R : Clean2Regex env fl r)
    (hnull : r.nullable = false) {input : List Nat} (G : GoodInput env fl input) (repl : List Nat)
    (hp : plainRepl repl = true) :
    r.replaceAll env.lower input repl =
      .ok (joinWith repl (pieces input 0 (spans r env.lower input))) := by
  rw [api_replace_spec R hnull G repl (dep0_of_plain _ repl hp)]
  have ht : ∀ j n, replText r.prog input repl j n = repl := by
    intro j n
    unfold replText
    split
    · rfl
    · rw [expandSpec_plain _ _ _ hp]; rfl
  simp only [ht]
  rw [replaced_const']

/-- `$0` (without flag q): the input comes back unchanged -/
theorem api_replace_dollar0 {env : Env} {fl : Flags} {r : Regex} (R : Clean2Regex env fl r)
    (hnull : r.nullable = false) {input : List Nat} (G : GoodInput env fl input)
    (hlit : fl.literal = false) :
    r.replaceAll env.lower input [36, 48] = .ok input := by
  rw [api_replace_spec R hnull G _ (dep0_dollar0 _)]
  have ht : ∀ j n, replText r.prog input [36, 48] j n = slice input j n := by
    intro j n
    unfold replText
    rw [R.literal, hlit]
    simp only [Bool.false_eq_true, if_false]
    rw [expandSpec_dollar0]; rfl
  simp only [ht]
  rw [replaced_self' input input.length _ 0 (spans_ordered R hnull G)]
  rfl

/-! ### (b) tokenize -/

/-- `tokenize` (pulled to exhaustion): exactly the pieces between consecutive spans — including empty
    leading, trailing and adjacent pieces — and then the iterator is exhausted -/
theorem api_tokenize_spec {env : Env} {fl : Flags} {r : Regex} (R : Clean2Regex env fl r)
    (hnull : r.nullable = false) {input : List Nat} (G : GoodInput env fl input) (hne : input ≠ [])
    (limit : Nat) (hl : input.length + 1 ≤ limit) :
    r.tokenize env.lower input limit = .ok (pieces input 0 (spans r env.lower input), false) := by
  have he : input.isEmpty = false := by
    cases input with
    | nil => exact absurd rfl hne
    | cons a t => rfl
  simp only [Regex.tokenize, he, hnull, Bool.false_eq_true, if_false]
  have := tokenLoop_spec (R.findOK hnull G) limit (input.length + 2) 0 {} [] rfl (Nat.zero_le _)
    (by omega) (by omega)
  simpa [spans] using this

/-- the number of tokens -/
theorem api_tokenize_count {env : Env} {fl : Flags} {r : Regex} (R : Clean2Regex env fl r)
    (hnull : r.nullable = false) {input : List Nat} (G : GoodInput env fl input) :
    (pieces input 0 (spans r env.lower input)).length = (spans r env.lower input).length + 1 ∧
    (spans r env.lower input).length ≤ input.length := by
  refine ⟨C04.pieces_length _ _ _, ?_⟩
  have := C04.ordered_length input.length _ 0 (Nat.zero_le _) (spans_ordered R hnull G)
  omega

/-! ### (c) analyze -/

/-- `analyze` (pulled to exhaustion): whatever it answers with `.ok` is the alternating list of
    non-match / match entries over a list `L` whose spans are exactly `spans` — the Match entries are
    exactly the spans (their contents, the group trees, are the subject of Props/C03c) -/
theorem api_analyze_spec {env : Env} {fl : Flags} {r : Regex} (R : Clean2Regex env fl r)
    (hnull : r.nullable = false) {input : List Nat} (G : GoodInput env fl input)
    (limit : Nat) (hl : 2 * input.length + 1 ≤ limit) (es : List AEntry) (more : Bool)
    (h : r.analyze env.lower input limit = .ok (es, more)) :
    ∃ L : List (Nat × Nat × List MEntry),
      L.map (fun x => (x.1, x.2.1)) = spans r env.lower input ∧ es = entries input 0 L ∧ more = false := by
  simp only [Regex.analyze, hnull, Bool.false_eq_true, if_false] at h
  cases htbl : (if r.prog.literal = true then some [] else nestingTable r.prog.pattern) with
  | none => rw [htbl] at h; cases h
  | some tbl =>
    rw [htbl] at h
    obtain ⟨h1, h2⟩ := C04.analyze_spec (r.prog.matcher env.lower input) (fun st => st.panic = none) input
      (processMatch tbl) (api_goodFind R hnull G) {} rfl limit hl es more h
    refine ⟨_, ?_, h1, h2⟩
    rw [List.map_map]
    exact scan_sees_spans R hnull G

/-- a regex WITHOUT capturing groups: the Match entry of a span is its text -/
theorem api_analyze_plain {env : Env} {fl : Flags} {r : Regex} (R : Clean2Regex env fl r)
    (hnull : r.nullable = false) (hnc : hasCapNode r.prog.op = false)
    {input : List Nat} (G : GoodInput env fl input)
    (limit : Nat) (hl : 2 * input.length + 1 ≤ limit) (es : List AEntry) (more : Bool)
    (h : r.analyze env.lower input limit = .ok (es, more)) :
    es = entries input 0 ((spans r env.lower input).map
      (fun x => (x.1, x.2, [MEntry.str (slice input x.1 x.2)]))) ∧ more = false := by
  simp only [Regex.analyze, hnull, Bool.false_eq_true, if_false] at h
  cases htbl : (if r.prog.literal = true then some [] else nestingTable r.prog.pattern) with
  | none => rw [htbl] at h; cases h
  | some tbl =>
    rw [htbl] at h
    obtain ⟨h1, h2⟩ := C04.analyze_spec (r.prog.matcher env.lower input) (fun st => st.panic = none) input
      (processMatch tbl) (api_goodFind R hnull G) {} rfl limit hl es more h
    refine ⟨?_, h2⟩
    rw [h1]
    congr 1
    exact spansOf_map (R.findOK hnull G)
      (fun st j n => C04.entryD (processMatch tbl) st (slice input j n))
      (fun j n => [MEntry.str (slice input j n)])
      (fun st j n PM => by
        simp only [C04.entryD]
        rw [C03.processMatch_plain tbl st _ (PM.pc1 hnc)])
      (input.length + 2) 0 {} rfl (Nat.zero_le _)

/-- … and the texts of all entries concatenate to the input -/
theorem api_analyze_concat {env : Env} {fl : Flags} {r : Regex} (R : Clean2Regex env fl r)
    (hnull : r.nullable = false) (hnc : hasCapNode r.prog.op = false)
    {input : List Nat} (G : GoodInput env fl input)
    (limit : Nat) (hl : 2 * input.length + 1 ≤ limit) (es : List AEntry) (more : Bool)
    (h : r.analyze env.lower input limit = .ok (es, more)) : aTextL es = input := by
  rw [(api_analyze_plain R hnull hnc G limit hl es more h).1]
  exact entries_text' input _ 0 (spans_ordered R hnull G)

/-- the bounds on the number of entries (any regex of the fragment, any limit) -/
theorem api_analyze_bound {env : Env} {fl : Flags} {r : Regex} (R : Clean2Regex env fl r)
    (hnull : r.nullable = false) {input : List Nat} (G : GoodInput env fl input)
    (limit : Nat) (es : List AEntry) (more : Bool)
    (h : r.analyze env.lower input limit = .ok (es, more)) : es.length ≤ 2 * input.length + 1 := by
  simp only [Regex.analyze, hnull, Bool.false_eq_true, if_false] at h
  cases htbl : (if r.prog.literal = true then some [] else nestingTable r.prog.pattern) with
  | none => rw [htbl] at h; cases h
  | some tbl =>
    rw [htbl] at h
    exact C04.analyze_bound (r.prog.matcher env.lower input) (fun st => st.panic = none) input
      (processMatch tbl) (api_goodFind R hnull G) {} rfl limit es more h

theorem api_tokenize_bound {env : Env} {fl : Flags} {r : Regex} (R : Clean2Regex env fl r)
    (hnull : r.nullable = false) {input : List Nat} (G : GoodInput env fl input)
    (limit : Nat) (toks : List (List Nat)) (more : Bool)
    (h : r.tokenize env.lower input limit = .ok (toks, more)) : toks.length ≤ input.length + 1 := by
  unfold Regex.tokenize at h
  split at h
  · simp only [Out.ok.injEq, Prod.mk.injEq] at h
    rw [← h.1]; simp
  · simp only [hnull, Bool.false_eq_true, if_false] at h
    exact C04.tokenize_bound (r.prog.matcher env.lower input) (fun st => st.panic = none) input
      (api_goodFind R hnull G) {} rfl limit toks more h

/-! ## 3. C06 — the four API functions are total on the fragment -/

theorem api_isMatch_total {env : Env} {fl : Flags} {r : Regex} (R : Clean2Regex env fl r)
    {input : List Nat} (G : GoodInput env fl input) :
    ∃ b, r.prog.isMatch env.lower input = .ok b := by
  obtain ⟨h1, h2⟩ := R.isMatch_iff G
  by_cases h : ∃ j q, j ≤ input.length ∧ OpR (r.prog.ctx env.lower input) r.prog.op j q
  · exact ⟨true, h1.2 h⟩
  · exact ⟨false, h2 h⟩

/-- `replace_all` with ANY replacement string: `.ok`, or one of the two classified errors — never a
    panic, never divergence -/
theorem api_replace_total {env : Env} {fl : Flags} {r : Regex} (R : Clean2Regex env fl r)
    {input : List Nat} (G : GoodInput env fl input) (repl : List Nat) :
    (∃ out, r.replaceAll env.lower input repl = .ok out) ∨
    r.replaceAll env.lower input repl = .err .invalidReplacement ∨
    r.replaceAll env.lower input repl = .err .matchesEmptyString := by
  cases hnull : r.nullable with
  | true => exact .inr (.inr (C16.replace_nullable r _ _ _ hnull))
  | false =>
    simp only [Regex.replaceAll, hnull, Bool.false_eq_true, if_false, replaceWith]
    rcases replaceLoop_total (R.findOK hnull G) (r.prog.subst input repl) r.prog.literal
        (input.length + 2) 0 {} true false [] rfl (Nat.zero_le _) (by omega) with h | h
    · exact .inl h
    · exact .inr (.inl h)

/-- `tokenize`, any limit -/
theorem api_tokenize_total {env : Env} {fl : Flags} {r : Regex} (R : Clean2Regex env fl r)
    {input : List Nat} (G : GoodInput env fl input) (limit : Nat) :
    (∃ toks more, r.tokenize env.lower input limit = .ok (toks, more)) ∨
    r.tokenize env.lower input limit = .err .matchesEmptyString := by
  unfold Regex.tokenize
  split
  · exact .inl ⟨_, _, rfl⟩
  · cases hnull : r.nullable with
    | true => exact .inr (by simp)
    | false =>
      simp only [Bool.false_eq_true, if_false]
      exact .inl (tokenLoop_total (R.findOK hnull G) limit (some 0) {} [] rfl
        (fun p hp => by cases hp; exact Nat.zero_le _))

/-- `analyze`, any limit: `.ok`, the gate error, or a panic at one of the two sites of the group-tree
    builder (`process_matching_substring`, `compute_nesting_table`) — never divergence, no other panic.
    Without capturing groups the builder cannot panic (`api_analyze_total_plain`). -/
theorem api_analyze_total {env : Env} {fl : Flags} {r : Regex} (R : Clean2Regex env fl r)
    {input : List Nat} (G : GoodInput env fl input) (limit : Nat) :
    (∃ es more, r.analyze env.lower input limit = .ok (es, more)) ∨
    r.analyze env.lower input limit = .err .matchesEmptyString ∨
    r.analyze env.lower input limit = .panic panicAnalyze ∨
    r.analyze env.lower input limit = .panic panicNesting := by
  cases hnull : r.nullable with
  | true => exact .inr (.inl (C16.analyze_nullable r _ _ _ hnull))
  | false =>
    simp only [Regex.analyze, hnull, Bool.false_eq_true, if_false]
    cases htbl : (if r.prog.literal = true then some [] else nestingTable r.prog.pattern) with
    | none => exact .inr (.inr (.inr rfl))
    | some tbl =>
      simp only
      rcases analyzeLoop_total (R.findOK hnull G) (processMatch tbl) (fun c => c = panicAnalyze)
          (fun st t j n _ => by
            rcases processMatch_cases tbl st t with h | h
            · exact .inl h
            · exact .inr ⟨_, h, rfl⟩)
          limit _ [] (AInv.init r.prog input) with h | ⟨c, h, hc⟩
      · exact .inl h
      · subst hc; exact .inr (.inr (.inl h))

theorem api_analyze_total_plain {env : Env} {fl : Flags} {r : Regex} (R : Clean2Regex env fl r)
    (hnull : r.nullable = false) (hnc : hasCapNode r.prog.op = false)
    (htbl : r.prog.literal = true ∨ (nestingTable r.prog.pattern).isSome = true)
    {input : List Nat} (G : GoodInput env fl input) (limit : Nat) :
    ∃ es more, r.analyze env.lower input limit = .ok (es, more) := by
  simp only [Regex.analyze, hnull, Bool.false_eq_true, if_false]
  have ht : ∃ tbl, (if r.prog.literal = true then some [] else nestingTable r.prog.pattern) = some tbl := by
    rcases htbl with h | h
    · exact ⟨[], by rw [if_pos h]⟩
    · by_cases hl : r.prog.literal = true
      · exact ⟨[], by rw [if_pos hl]⟩
      · rw [if_neg hl]
        cases hn : nestingTable r.prog.pattern with
        | none => rw [hn] at h; cases h
        | some t => exact ⟨t, rfl⟩
  obtain ⟨tbl, ht⟩ := ht
  rw [ht]
  simp only
  rcases analyzeLoop_total (R.findOK hnull G) (processMatch tbl) (fun _ => False)
      (fun st t j n PM => .inl ⟨_, C03.processMatch_plain tbl st t (PM.pc1 hnc)⟩)
      limit _ [] (AInv.init r.prog input) with h | ⟨c, _, hc⟩
  · exact h
  · exact hc.elim

/-! ## 4. C20 at API level — equivalent spellings -/

/-- the fields of the context the language depends on come from the flags -/
theorem Clean2Regex.ctx_flags {env : Env} {fl : Flags} {r : Regex} (R : Clean2Regex env fl r)
    (lower : Nat → Nat) (input : List Nat) :
    (r.prog.ctx lower input).caseBlind = fl.caseBlind ∧ (r.prog.ctx lower input).multiLine = fl.multiLine := by
  obtain ⟨pat, op, mp, heq, _⟩ := R.core
  rw [heq]
  obtain ⟨h1, h2, _⟩ := mkProgram_ctx pat op mp fl.core false lower input
  exact ⟨h1, h2⟩

/-- language equality of the two trees (in every context, as the laws of Props/C20 provide it), moved
    to the two programs' own contexts (which may differ in the number of groups) -/
theorem lang_transfer {env : Env} {fl : Flags} {r1 r2 : Regex} (R1 : Clean2Regex env fl r1)
    (R2 : Clean2Regex env fl r2)
    (hlang : ∀ ctx p q, OpR ctx r1.prog.op p q ↔ OpR ctx r2.prog.op p q)
    (lower : Nat → Nat) (input : List Nat) (p q : Nat) :
    OpR (r1.prog.ctx lower input) r1.prog.op p q ↔ OpR (r2.prog.ctx lower input) r2.prog.op p q := by
  obtain ⟨a1, a2⟩ := R1.ctx_flags lower input
  obtain ⟨b1, b2⟩ := R2.ctx_flags lower input
  exact (hlang _ p q).trans
    (OpR_ctx_congr (r1.prog.ctx lower input) (r2.prog.ctx lower input) rfl (a1.trans b1.symm)
      (a2.trans b2.symm) rfl r2.prog.op p q)

/-- two regexes of the fragment (same tables, flags, dialect) whose trees have the same language:
    the same gate bit, the same `is_match` on every good input, and — if they pass the gate — from
    every position the NEXT match starts at the same place -/
theorem api_same_language {env : Env} {fl : Flags} {r1 r2 : Regex} (R1 : Clean2Regex env fl r1)
    (R2 : Clean2Regex env fl r2)
    (hlang : ∀ ctx p q, OpR ctx r1.prog.op p q ↔ OpR ctx r2.prog.op p q)
    {input : List Nat} (G : GoodInput env fl input) :
    r1.nullable = r2.nullable ∧
    r1.prog.isMatch env.lower input = r2.prog.isMatch env.lower input ∧
    (r1.nullable = false → ∀ pos, pos ≤ input.length →
      (firstSpan (r1.prog.ctx env.lower input) r1.prog.op pos).map (·.1) =
      (firstSpan (r2.prog.ctx env.lower input) r2.prog.op pos).map (·.1)) := by
  have hn : r1.nullable = r2.nullable := by
    rw [Bool.eq_iff_iff, api_gate_iff R1 G.nil, api_gate_iff R2 G.nil]
    constructor
    · rintro ⟨q, hq⟩; exact ⟨q, (lang_transfer R1 R2 hlang _ _ 0 q).1 hq⟩
    · rintro ⟨q, hq⟩; exact ⟨q, (lang_transfer R1 R2 hlang _ _ 0 q).2 hq⟩
  refine ⟨hn, ?_, ?_⟩
  · obtain ⟨a1, a2⟩ := R1.isMatch_iff G
    obtain ⟨b1, b2⟩ := R2.isMatch_iff G
    by_cases h : ∃ j q, j ≤ input.length ∧ OpR (r1.prog.ctx env.lower input) r1.prog.op j q
    · rw [a1.2 h]
      obtain ⟨j, q, hj, hq⟩ := h
      rw [b1.2 ⟨j, q, hj, (lang_transfer R1 R2 hlang _ _ j q).1 hq⟩]
    · rw [a2 h]
      rw [b2 (fun ⟨j, q, hj, hq⟩ => h ⟨j, q, hj, (lang_transfer R1 R2 hlang _ _ j q).2 hq⟩)]
  · intro hn1 pos hpos
    have F1 := R1.findOK hn1 G
    have F2 := R2.findOK (hn ▸ hn1) G
    obtain ⟨s1, t1⟩ := F1.sem pos hpos
    obtain ⟨s2, t2⟩ := F2.sem pos hpos
    have hlen2 : (r2.prog.ctx env.lower input).len = input.length := rfl
    have hlen1 : (r1.prog.ctx env.lower input).len = input.length := rfl
    cases h1 : firstSpan (r1.prog.ctx env.lower input) r1.prog.op pos with
    | none =>
      cases h2 : firstSpan (r2.prog.ctx env.lower input) r2.prog.op pos with
      | none => rfl
      | some x =>
        obtain ⟨j2, n2⟩ := x
        obtain ⟨c1, c2, _⟩ := firstSpan_spec _ _ _ _ _ h2
        exact absurd ((lang_transfer R1 R2 hlang _ _ j2 n2).2 (s2 j2 n2 h2).1) (t1 h1 j2 n2 c1 (by omega))
    | some x =>
      obtain ⟨j1, n1⟩ := x
      obtain ⟨c1, c2, _⟩ := firstSpan_spec _ _ _ _ _ h1
      cases h2 : firstSpan (r2.prog.ctx env.lower input) r2.prog.op pos with
      | none =>
        exact absurd ((lang_transfer R1 R2 hlang _ _ j1 n1).1 (s1 j1 n1 h1).1) (t2 h2 j1 n1 c1 (by omega))
      | some y =>
        obtain ⟨j2, n2⟩ := y
        obtain ⟨d1, d2, _⟩ := firstSpan_spec _ _ _ _ _ h2
        simp only [Option.map_some, Option.some.injEq]
        rcases Nat.lt_trichotomy j1 j2 with h | h | h
        · exact absurd ((lang_transfer R1 R2 hlang _ _ j1 n1).1 (s1 j1 n1 h1).1) ((s2 j2 n2 h2).2 j1 n1 c1 h)
        · exact h
        · exact absurd ((lang_transfer R1 R2 hlang _ _ j2 n2).2 (s2 j2 n2 h2).1) ((s1 j1 n1 h1).2 j2 n2 d1 h)

/-- … and the same span list outright — hence the same `replace_all`, `tokenize`, `analyze` spans —
    when in addition the heads of the two priority enumerations agree at every start -/
theorem api_same_spans {r1 r2 : Regex} (lower : Nat → Nat) (input : List Nat)
    (hheads : ∀ j, j ≤ input.length →
      (enum2 (r1.prog.ctx lower input) r1.prog.op j).head? = (enum2 (r2.prog.ctx lower input) r2.prog.op j).head?) :
    spans r1 lower input = spans r2 lower input := by
  unfold spans
  refine spansFrom_congr (r1.prog.ctx lower input) (r2.prog.ctx lower input) r1.prog.op r2.prog.op rfl
    (fun pos => ?_) _ _
  unfold firstSpan
  have hl1 : (r1.prog.ctx lower input).len = input.length := rfl
  have hl2 : (r2.prog.ctx lower input).len = input.length := rfl
  rw [hl1, hl2]
  exact firstFrom_congr _ _ _ _ (fun k _ hk2 => hheads k (by omega))

/-- when that is the case (1): the languages are equal and from every start there is at most ONE end
    (then there is nothing for ordered choice to prefer) -/
theorem heads_of_unique {env : Env} {fl : Flags} {r1 r2 : Regex} (R1 : Clean2Regex env fl r1)
    (R2 : Clean2Regex env fl r2) (hn1 : r1.nullable = false)
    (hlang : ∀ ctx p q, OpR ctx r1.prog.op p q ↔ OpR ctx r2.prog.op p q)
    {input : List Nat} (G : GoodInput env fl input)
    (huniq : ∀ j q q', OpR (r1.prog.ctx env.lower input) r1.prog.op j q →
      OpR (r1.prog.ctx env.lower input) r1.prog.op j q' → q = q') :
    ∀ j, j ≤ input.length →
      (enum2 (r1.prog.ctx env.lower input) r1.prog.op j).head? =
      (enum2 (r2.prog.ctx env.lower input) r2.prog.op j).head? := by
  have hn := (api_same_language R1 R2 hlang G).1
  have F1 := R1.findOK hn1 G
  have F2 := R2.findOK (hn ▸ hn1) G
  -- at a start `j`: the head is `some n` with a member `[j, n)`, or `none` and there is no member
  have key : ∀ (r : Regex) (F : FindOK (r.prog.ctx env.lower input) r.prog) (j : Nat), j ≤ input.length →
      (∃ n, (enum2 (r.prog.ctx env.lower input) r.prog.op j).head? = some n ∧
          OpR (r.prog.ctx env.lower input) r.prog.op j n) ∨
      ((enum2 (r.prog.ctx env.lower input) r.prog.op j).head? = none ∧
          ∀ q, ¬ OpR (r.prog.ctx env.lower input) r.prog.op j q) := by
    intro r F j hj
    obtain ⟨s, t⟩ := F.sem j hj
    cases h : firstSpan (r.prog.ctx env.lower input) r.prog.op j with
    | none =>
      right
      refine ⟨firstFrom_none _ _ _ h j (Nat.le_refl _) ?_, fun q => t h j q (Nat.le_refl _) hj⟩
      have : (r.prog.ctx env.lower input).len = input.length := rfl
      omega
    | some x =>
      obtain ⟨j', n⟩ := x
      obtain ⟨c1, _, c3, c4⟩ := firstSpan_spec _ _ _ _ _ h
      by_cases hjj : j' = j
      · subst hjj
        exact .inl ⟨n, c3, (s j' n h).1⟩
      · right
        exact ⟨c4 j (Nat.le_refl _) (by omega), fun q => (s j' n h).2 j q (Nat.le_refl _) (by omega)⟩
  intro j hj
  rcases key r1 F1 j hj with ⟨n1, e1, m1⟩ | ⟨e1, m1⟩ <;> rcases key r2 F2 j hj with ⟨n2, e2, m2⟩ | ⟨e2, m2⟩
  · rw [e1, e2]
    have := huniq j n1 n2 m1 ((lang_transfer R1 R2 hlang _ _ j n2).2 m2)
    rw [this]
  · exact absurd ((lang_transfer R1 R2 hlang _ _ j n1).1 m1) (m2 n1)
  · exact absurd ((lang_transfer R1 R2 hlang _ _ j n2).2 m2) (m1 n2)
  · rw [e1, e2]

/-- … hence the same span list -/
theorem api_same_spans_of_unique {env : Env} {fl : Flags} {r1 r2 : Regex} (R1 : Clean2Regex env fl r1)
    (R2 : Clean2Regex env fl r2) (hn1 : r1.nullable = false)
    (hlang : ∀ ctx p q, OpR ctx r1.prog.op p q ↔ OpR ctx r2.prog.op p q)
    {input : List Nat} (G : GoodInput env fl input)
    (huniq : ∀ j q q', OpR (r1.prog.ctx env.lower input) r1.prog.op j q →
      OpR (r1.prog.ctx env.lower input) r1.prog.op j q' → q = q') :
    spans r1 env.lower input = spans r2 env.lower input :=
  api_same_spans env.lower input (heads_of_unique R1 R2 hn1 hlang G huniq)

/-! ## regexes from pattern texts over the real tables (for the examples and counterexamples) -/

section std

/-- the side condition `NoSat` of a pattern without flags, from a kernel-checkable Boolean -/
theorem noSat_of_check (pat : List Nat)
    (hk : (match parseExpr { pat := pat, fl := ({} : Flags).core, env := Env.std }
        (4 * pat.length + 16) {} true with
      | .ok op _ => WF.noSat (optimize Env.std ({} : Flags).core op) && WF.noSat op
      | .err _ => true) = true) : Api.NoSat Env.std {} pat := by
  intro op s hp
  have hp' : parseExpr { pat := pat, fl := ({} : Flags).core, env := Env.std }
      (4 * pat.length + 16) {} true = .ok op s := hp
  rw [hp'] at hk
  simpa only [Bool.and_eq_true] using hk

theorem scalar_of_all (input : List Nat)
    (h : input.all (fun c => decide (c < cpLimit) && (isSurrogate c == false)) = true) : ScalarInput input := by
  intro c hc
  have := List.all_eq_true.1 h c hc
  simpa only [Bool.and_eq_true, decide_eq_true_eq, beq_iff_eq] using this

/-- a regex built by `Regex.new Env.std` (no flags) that passes the kernel-checkable tests: it is in the
    fragment, passes the gate, its tree is `tree`, its span list on `input` is `expected` -/
theorem std_regex_of_check (pat : List Nat) (tree : Op) (input : List Nat) (expected : List (Nat × Nat))
    (hns : Api.NoSat Env.std {} pat)
    (hk : (match Regex.new Env.std pat [] false true with
      | .ok r => cleanProg2 Env.std false false r.prog.op && clsCanonB r.prog.op && !r.prog.hasBackrefs &&
          !r.nullable && opEq r.prog.op tree && (spans r Env.std.lower input == expected)
      | _ => false) = true) :
    ∃ r, Regex.new Env.std pat [] false true = .ok r ∧ Clean2Regex Env.std {} r ∧ r.nullable = false ∧
      r.prog.op = tree ∧ spans r Env.std.lower input = expected := by
  cases h : Regex.new Env.std pat [] false true with
  | ok r =>
    rw [h] at hk
    simp only [Bool.and_eq_true, Bool.not_eq_true', beq_iff_eq] at hk
    obtain ⟨⟨⟨⟨⟨k1, k2⟩, k3⟩, k4⟩, k5⟩, k6⟩ := hk
    exact ⟨r, rfl, ⟨pat, [], false, ⟨rfl, h, hns, k1, k2, k3, fun hl => by cases hl⟩⟩, k4, opEq_sound _ _ k5, k6⟩
  | err e => rw [h] at hk; cases hk
  | panic c => rw [h] at hk; cases hk
  | diverge => rw [h] at hk; cases hk

end std

/-! ### what is FALSE: equal languages do not give equal ends, nor equal lists of starts -/

section counterexamples

/-- `a|ab` -/
def patA : List Nat := [97, 124, 97, 98]
/-- `ab|a` -/
def patB : List Nat := [97, 98, 124, 97]
/-- `a|ab|b` -/
def patC : List Nat := [97, 124, 97, 98, 124, 98]
/-- `ab|a|b` -/
def patD : List Nat := [97, 98, 124, 97, 124, 98]

def treeA : Op := .seq [.choice [.atom [97], .atom [97, 98]], .endProgram]
def treeB : Op := .seq [.choice [.atom [97, 98], .atom [97]], .endProgram]
def treeC : Op := .seq [.choice [.atom [97], .atom [97, 98], .atom [98]], .endProgram]
def treeD : Op := .seq [.choice [.atom [97, 98], .atom [97], .atom [98]], .endProgram]

theorem lang_AB (ctx : Ctx) (p q : Nat) : OpR ctx treeA p q ↔ OpR ctx treeB p q := by
  simp only [treeA, treeB, OpR, OpRSeq, OpRAny, or_false]
  constructor
  · rintro ⟨m, h | h, rest⟩
    · exact ⟨m, .inr h, rest⟩
    · exact ⟨m, .inl h, rest⟩
  · rintro ⟨m, h | h, rest⟩
    · exact ⟨m, .inr h, rest⟩
    · exact ⟨m, .inl h, rest⟩

theorem lang_CD (ctx : Ctx) (p q : Nat) : OpR ctx treeC p q ↔ OpR ctx treeD p q := by
  simp only [treeC, treeD, OpR, OpRSeq, OpRAny, or_false]
  constructor
  · rintro ⟨m, h | h | h, rest⟩
    · exact ⟨m, .inr (.inl h), rest⟩
    · exact ⟨m, .inl h, rest⟩
    · exact ⟨m, .inr (.inr h), rest⟩
  · rintro ⟨m, h | h | h, rest⟩
    · exact ⟨m, .inr (.inl h), rest⟩
    · exact ⟨m, .inl h, rest⟩
    · exact ⟨m, .inr (.inr h), rest⟩

/-- END equality does not follow from language equality: `a|ab` and `ab|a` (alternation is commutative
    as a language, `C01.OpR_choice_comm`) report `(0,1)` and `(0,2)` on "ab" -/
theorem ends_differ :
    ∃ r1 r2, Clean2Regex Env.std {} r1 ∧ Clean2Regex Env.std {} r2 ∧
      (∀ ctx p q, OpR ctx r1.prog.op p q ↔ OpR ctx r2.prog.op p q) ∧
      spans r1 Env.std.lower [97, 98] = [(0, 1)] ∧ spans r2 Env.std.lower [97, 98] = [(0, 2)] := by
  obtain ⟨r1, _, R1, _, o1, s1⟩ := std_regex_of_check patA treeA [97, 98] [(0, 1)]
    (noSat_of_check patA (by decide +kernel)) (by decide +kernel)
  obtain ⟨r2, _, R2, _, o2, s2⟩ := std_regex_of_check patB treeB [97, 98] [(0, 2)]
    (noSat_of_check patB (by decide +kernel)) (by decide +kernel)
  refine ⟨r1, r2, R1, R2, fun ctx p q => ?_, s1, s2⟩
  rw [o1, o2]
  exact lang_AB ctx p q

/-- ORIGINAL STATEMENT — FALSE: "two regexes of the fragment with the same language produce the same
    list of span STARTS".  Only the FIRST start from a given position is determined by the language
    (`api_same_language`); where the scan continues depends on the END of the previous match, which
    ordered choice decides.  Refuted by `api_same_start_list_false`. -/
def api_same_start_list : Prop :=
  ∀ (env : Env) (fl : Flags) (r1 r2 : Regex) (input : List Nat),
    Clean2Regex env fl r1 → Clean2Regex env fl r2 →
    (∀ ctx p q, OpR ctx r1.prog.op p q ↔ OpR ctx r2.prog.op p q) →
    r1.nullable = false → r2.nullable = false → GoodInput env fl input →
    (spans r1 env.lower input).map (·.1) = (spans r2 env.lower input).map (·.1)

/-- `a|ab|b` against `ab|a|b` on "ab": spans `(0,1), (1,2)` against `(0,2)` — starts `[0, 1]` against `[0]` -/
theorem api_same_start_list_false : ¬ api_same_start_list := by
  intro h
  obtain ⟨r1, _, R1, n1, o1, s1⟩ := std_regex_of_check patC treeC [97, 98] [(0, 1), (1, 2)]
    (noSat_of_check patC (by decide +kernel)) (by decide +kernel)
  obtain ⟨r2, _, R2, n2, o2, s2⟩ := std_regex_of_check patD treeD [97, 98] [(0, 2)]
    (noSat_of_check patD (by decide +kernel)) (by decide +kernel)
  have := h Env.std {} r1 r2 [97, 98] R1 R2 (fun ctx p q => by rw [o1, o2]; exact lang_CD ctx p q) n1 n2
    (goodInput_std_cs rfl (scalar_of_all _ (by decide)) (by decide))
  rw [s1, s2] at this
  exact absurd this (by decide)

end counterexamples

/-! ## 5. non-vacuity: `a*b(c|d)+e` through `Regex.new Env.std`, on "xaabcde-bce" -/

section example_

/-- "xaabcde-bce" -/
def ex5Input : List Nat := [120, 97, 97, 98, 99, 100, 101, 45, 98, 99, 101]

theorem ex5_good : GoodInput Env.std {} ex5Input :=
  goodInput_std_cs rfl (scalar_of_all _ (by decide)) (by decide)

/-- the regex `Regex.new Env.std` builds from `a*b(c|d)+e` is in the fragment and passes the gate -/
theorem ex5_regex (r : Regex) (h : Regex.new Env.std exPat [] false true = .ok r) :
    Clean2Regex Env.std {} r ∧ r.nullable = false := by
  have hk := ex_new.1
  rw [h] at hk
  simp only [Bool.and_eq_true, Bool.not_eq_true'] at hk
  obtain ⟨⟨⟨⟨k1, k2⟩, k3⟩, k4⟩, _⟩ := hk
  exact ⟨⟨exPat, [], false, ⟨rfl, h, ex_noSat, k1, k2, k3, fun hl => by cases hl⟩⟩, k4⟩

private def ex5Entries : List AEntry :=
  [.nonMatch [120],
   .isMatch [.str [97, 97, 98, 99], .group 1 [.str [100]], .str [101]],
   .nonMatch [45],
   .isMatch [.str [98], .group 1 [.str [99]], .str [101]]]

/-- what the model computes (kernel evaluation): the state-free span list, and the answers of the three
    scan APIs -/
theorem ex5_computed :
    (match Regex.new Env.std exPat [] false true with
     | .ok r =>
       (spans r Env.std.lower ex5Input == [(1, 7), (8, 11)]) &&
       (r.tokenize Env.std.lower ex5Input 100 == .ok ([[120], [45], []], false)) &&
       (match r.analyze Env.std.lower ex5Input 100 with
        | .ok (es, more) => aEqL es ex5Entries && !more
        | _ => false) &&
       (r.replaceAll Env.std.lower ex5Input [35] == .ok [120, 35, 45, 35]) &&
       (r.replaceAll Env.std.lower ex5Input [36, 48] == .ok ex5Input)
     | _ => false) = true := by decide +kernel

/-- C16 instantiated: the regex does not match the empty string, and never reports an empty span -/
theorem ex5_gate (r : Regex) (h : Regex.new Env.std exPat [] false true = .ok r) :
    (¬ ∃ q, OpR (r.prog.ctx Env.std.lower []) r.prog.op 0 q) ∧
    ∀ x ∈ spans r Env.std.lower ex5Input, x.1 < x.2 := by
  obtain ⟨R, hn⟩ := ex5_regex r h
  refine ⟨fun he => ?_, fun x hx => ((c16_no_empty_span R hn ex5_good).1 x hx).1⟩
  have := (api_gate_iff R ex5_good.nil).2 he
  rw [hn] at this
  cases this

/-- C04 instantiated: `tokenize` is the pieces between `spans`, `replace_all` with `#` joins them by `#`,
    with `$0` returns the input, `analyze` has its Match entries exactly at `spans` — and the computed
    answers agree: the tokens are "x", "-", "" -/
theorem ex5_scan (r : Regex) (h : Regex.new Env.std exPat [] false true = .ok r) :
    spans r Env.std.lower ex5Input = [(1, 7), (8, 11)] ∧
    r.tokenize Env.std.lower ex5Input 100 = .ok (pieces ex5Input 0 (spans r Env.std.lower ex5Input), false) ∧
    r.tokenize Env.std.lower ex5Input 100 = .ok ([[120], [45], []], false) ∧
    r.replaceAll Env.std.lower ex5Input [35] = .ok (joinWith [35] (pieces ex5Input 0 (spans r Env.std.lower ex5Input))) ∧
    r.replaceAll Env.std.lower ex5Input [35] = .ok [120, 35, 45, 35] ∧
    r.replaceAll Env.std.lower ex5Input [36, 48] = .ok ex5Input ∧
    (∃ es, r.analyze Env.std.lower ex5Input 100 = .ok (es, false) ∧ es = ex5Entries ∧
      ∃ L : List (Nat × Nat × List MEntry),
        L.map (fun x => (x.1, x.2.1)) = spans r Env.std.lower ex5Input ∧ es = entries ex5Input 0 L) := by
  obtain ⟨R, hn⟩ := ex5_regex r h
  have hk := ex5_computed
  rw [h] at hk
  simp only [Bool.and_eq_true, beq_iff_eq] at hk
  obtain ⟨⟨⟨⟨k1, k2⟩, k3⟩, k4⟩, k5⟩ := hk
  refine ⟨k1, api_tokenize_spec R hn ex5_good (by decide) 100 (by decide), k2,
    api_replace_plain R hn ex5_good [35] (by decide), k4, api_replace_dollar0 R hn ex5_good rfl, ?_⟩
  cases ha : r.analyze Env.std.lower ex5Input 100 with
  | ok x =>
    obtain ⟨es, more⟩ := x
    rw [ha] at k3
    simp only [Bool.and_eq_true, Bool.not_eq_true'] at k3
    obtain ⟨k31, k32⟩ := k3
    subst k32
    obtain ⟨L, l1, l2, _⟩ := api_analyze_spec R hn ex5_good 100 (by decide) es false ha
    exact ⟨es, rfl, aEqL_sound _ _ k31, L, l1, l2⟩
  | err e => rw [ha] at k3; cases k3
  | panic c => rw [ha] at k3; cases k3
  | diverge => rw [ha] at k3; cases k3

/-- C06 instantiated: on EVERY input of scalar values the four API functions of this regex are total -/
theorem ex5_total (r : Regex) (h : Regex.new Env.std exPat [] false true = .ok r)
    (input : List Nat) (hsv : ScalarInput input) (hlen : input.length < usizeMax) (repl : List Nat) (limit : Nat) :
    (∃ b, r.prog.isMatch Env.std.lower input = .ok b) ∧
    ((∃ out, r.replaceAll Env.std.lower input repl = .ok out) ∨
      r.replaceAll Env.std.lower input repl = .err .invalidReplacement) ∧
    (∃ toks more, r.tokenize Env.std.lower input limit = .ok (toks, more)) ∧
    ((∃ es more, r.analyze Env.std.lower input limit = .ok (es, more)) ∨
      r.analyze Env.std.lower input limit = .panic panicAnalyze ∨
      r.analyze Env.std.lower input limit = .panic panicNesting) := by
  obtain ⟨R, hn⟩ := ex5_regex r h
  have G : GoodInput Env.std {} input := goodInput_std_cs rfl hsv hlen
  refine ⟨api_isMatch_total R G, ?_, ?_, ?_⟩
  · rcases api_replace_total R G repl with h1 | h1 | h1
    · exact .inl h1
    · exact .inr h1
    · exact absurd h1 (C16.replace_not_nullable r _ _ _ hn)
  · rcases api_tokenize_total R G limit with h1 | h1
    · exact h1
    · exact absurd h1 (C16.tokenize_not_nullable r _ _ _ hn)
  · rcases api_analyze_total R G limit with h1 | h1 | h1 | h1
    · exact .inl h1
    · exact absurd h1 (C16.analyze_not_nullable r _ _ _ hn)
    · exact .inr (.inl h1)
    · exact .inr (.inr h1)

end example_

end Rx.ApiComplete
