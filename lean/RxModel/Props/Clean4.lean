/-
  Props/Clean4 — the GENERAL RELUCTANT repeat `.rep id c mn mx false` (variable-length body: `(?:ab|c)+?`,
  `(?:a|bc){2,3}?`, `(?:ab|c)*?`) enters the fragment on which the engine is an exact, priority-ordered enumerator.

  THE FRAGMENT (`cleanOp4` / `cleanProg4`, Spec/Enum4) = the fragment of Spec/Enum3 plus `.rep id c mn mx false` with
      body `c` ∈ `cleanOp2` (rep-free),  `nonNull c`,  `detB env cb c`  — for ANY `mn`, including 0:
  the reluctant iterator neither reads nor writes the zero-length-match memo, so (unlike the greedy node,
  Props/Clean3 "min = 0") nothing depends on the matcher state.

  PROVED on it (hypotheses as in Props/Clean3: `wfOp`, `noEmptyAtoms`, `clsCanonB`, `InputOK env ctx`):
    1. `reluctant_node`      node level: the iterator yields EXACTLY `reluctIter (enum4 c) mn mx 0 p` — the ends for
                             `mn, mn+1, …` iterations, fewest first, strictly increasing (`reluctant_sorted`): the
                             zero-width rule of `iterMinZ` never fires, the fuels `loopFuel ctx mn` and
                             `6 * (len + 3)` suffice (each iteration advances), the force-progress cut never fires
    2. `sem_seq_enum4`       the iterator of every tree of the fragment yields EXACTLY `enum4`, under every
                             consumer, from EVERY state
    3. `enum4_sound`, `enum4_iff_OpR` (compositional fragment), `enum4_complete` (whole programs),
       `completeAt_clean4`, `matchAt_iff4`, `matchAt_end4`, `first1_enum4`, `sem_noDiv4`
    4. through the search loop (Props/SearchComplete): `clean4_isMatch_iff`, `clean4_isMatch_false`,
       `clean4_matchesFrom_iff`, `clean4_match_is_leftmost_first`, `clean4_opt_eq_noopt`.
       No bound on the reluctant minimum is needed: `Quiet` comes from Props/C06b (`unambLeaf`), not from
       `C06.smallMin` (which demands `mn < len + 1000` of a reluctant repeat).
    5. `k2_outside`: the K2 witness `(?:a|ab)+?c` (ambiguous body: the iterator never backtracks into the body)
       is NOT in the fragment — exactly `detB` fails; `ex_compiled`, `ex_*`: `(?:ab|c)+?c` and `(?:ab|c)*?d` as
       the model's compiler builds them ARE, with the theorems applied.
  Nothing had to be weakened or refuted: `max` is handled as in `reluctIter` (`count < max`), and with a
  non-nullable body the zero-width rule of `iterMinZ` is dead code.
  The fragments of Spec/Enum2, Spec/Enum3 are inside (`cleanProg4_of_cleanProg3`), and `enum4 = enum3` there
  (`enum4_eq_enum3`).
-/
import RxModel.Spec.Enum4
import RxModel.Proofs.Enum4Lemmas
import RxModel.Proofs.Clean4SearchLemmas
import RxModel.Props.Clean3
import RxModel.Props.Findings
namespace Rx.Clean4
open Rx Rx.SearchComplete
open Rx.C08 (noEmptyAtoms noEmptyAtomsL clsCanon clsCanonL)

/-! ### 1. the reluctant node -/

/-- NODE LEVEL, for ANY `mn` (including 0) and from EVERY state: the ends for `mn, mn+1, …` iterations -/
theorem reluctant_node (env : Env) (ctx : Ctx) (hI : InputOK env ctx) (id : Nat) (c : Op) (mn mx : Nat)
    (hc : cleanOp4 env ctx.caseBlind ctx.multiLine (.rep id c mn mx false) = true)
    (hwf : wfOp (.rep id c mn mx false) = true) (hne : noEmptyAtoms (.rep id c mn mx false) = true)
    (hcan : clsCanonB (.rep id c mn mx false) = true) (p : Nat) (hp : p ≤ ctx.len) (st : St) (_ : anySt st) :
    Step.Seq anySt (sem ctx (.rep id c mn mx false) p st) (reluctIter (enum4 ctx c) mn mx 0 p) := by
  have h := sem_ex4_op env ctx hI _ false [] hc hwf hne (clsCanon_of_B _ hcan) p hp st
  simpa only [enum4, Bool.false_eq_true, if_false] using h

/-- … strictly increasing: the head is the SHORTEST match of the node -/
theorem reluctant_sorted (env : Env) (ctx : Ctx) (hI : InputOK env ctx) (id : Nat) (c : Op) (mn mx : Nat)
    (hc : cleanOp4 env ctx.caseBlind ctx.multiLine (.rep id c mn mx false) = true)
    (hwf : wfOp (.rep id c mn mx false) = true) (hne : noEmptyAtoms (.rep id c mn mx false) = true)
    (hcan : clsCanonB (.rep id c mn mx false) = true) (p : Nat) (hp : p ≤ ctx.len) :
    (enum4 ctx (.rep id c mn mx false) p).Pairwise (· < ·) := by
  have hr := repOK4_of (top := false) (F := []) hc hwf hne (clsCanon_of_B _ hcan)
  simp only [enum4, Bool.false_eq_true, if_false]
  exact reluctIter_sorted (detBody4_of env ctx hI hr).prog mn mx 0 p hp

/-! ### 2. the iterator yields exactly `enum4` -/

theorem sem_seq_enum4 (env : Env) (ctx : Ctx) (hI : InputOK env ctx) (op : Op)
    (hc : cleanProg4 env ctx.caseBlind ctx.multiLine op = true) (hwf : wfOp op = true)
    (hne : noEmptyAtoms op = true) (hcan : clsCanonB op = true) (p : Nat) (hp : p ≤ ctx.len) (st : St)
    (h : anySt st) : Step.Seq anySt (sem ctx op p st) (enum4 ctx op p) :=
  Clean4L.sem_seq_enum4 env ctx hI op hc hwf hne hcan p hp st h

theorem sem_seq_enum4_of (I : St → Prop) (env : Env) (ctx : Ctx) (hI : InputOK env ctx) (op : Op)
    (hc : cleanProg4 env ctx.caseBlind ctx.multiLine op = true) (hwf : wfOp op = true)
    (hne : noEmptyAtoms op = true) (hcan : clsCanonB op = true) (p : Nat) (hp : p ≤ ctx.len) (st : St) :
    Step.Seq I (sem ctx op p st) (enum4 ctx op p) :=
  Clean4L.sem_seq_enum4_of I env ctx hI op hc hwf hne hcan p hp st

/-- the fragments of Spec/Enum2 and Spec/Enum3 are inside, and the enumeration is the old one there -/
theorem cleanOp4_of_cleanOp3 (env : Env) (cb ml : Bool) (op : Op) (h : cleanOp3 env cb ml op = true) :
    cleanOp4 env cb ml op = true :=
  clean4_of_clean3 env cb ml op false [] h

theorem cleanProg4_of_cleanProg3 (env : Env) (cb ml : Bool) (op : Op) (h : cleanProg3 env cb ml op = true) :
    cleanProg4 env cb ml op = true := by
  cases op with
  | seq ops => exact clean4_of_clean3Seq env cb ml ops true h
  | _ => exact clean4_of_clean3 env cb ml _ false [] h

theorem cleanProg4_of_cleanProg2 (env : Env) (cb ml : Bool) (op : Op) (h : cleanProg2 env cb ml op = true) :
    cleanProg4 env cb ml op = true :=
  Clean4L.cleanProg4_of_cleanProg2 env cb ml op h

theorem enum4_eq_enum3 (env : Env) (ctx : Ctx) (op : Op) (h : cleanProg3 env ctx.caseBlind ctx.multiLine op = true) :
    enum4 ctx op = enum3 ctx op :=
  enum4_eq_enum3_shape ctx op (shape3_of_cleanProg3 env _ _ op h)

/-! ### 3. soundness, completeness, `CompleteAt`, `match_at` -/

theorem enum4_sound (env : Env) (ctx : Ctx) (hI : InputOK env ctx) (op : Op)
    (hc : cleanProg4 env ctx.caseBlind ctx.multiLine op = true) (hwf : wfOp op = true)
    (hne : noEmptyAtoms op = true) (hcan : clsCanonB op = true) (p q : Nat) (hp : p ≤ ctx.len)
    (h : q ∈ enum4 ctx op p) : OpR ctx op p q :=
  Clean4L.enum4_sound env ctx hI op hc hwf hne hcan p q hp h

/-- the compositional fragment: `enum4` lists exactly the language -/
theorem enum4_iff_OpR (env : Env) (ctx : Ctx) (hI : InputOK env ctx) (op : Op)
    (hc : cleanOp4 env ctx.caseBlind ctx.multiLine op = true) (hwf : wfOp op = true)
    (hne : noEmptyAtoms op = true) (hcan : clsCanonB op = true) (p q : Nat) (hp : p ≤ ctx.len) :
    q ∈ enum4 ctx op p ↔ OpR ctx op p q :=
  Clean4L.enum4_iff_OpR env ctx hI op hc hwf hne hcan p q hp

/-- whole programs: if the language has a member from `p`, the enumeration is non-empty -/
theorem enum4_complete (env : Env) (ctx : Ctx) (hI : InputOK env ctx) (op : Op)
    (hc : cleanProg4 env ctx.caseBlind ctx.multiLine op = true) (hwf : wfOp op = true)
    (hne : noEmptyAtoms op = true) (hcan : clsCanonB op = true) (p : Nat) (hp : p ≤ ctx.len)
    (h : ∃ q, OpR ctx op p q) : enum4 ctx op p ≠ [] :=
  Clean4L.enum4_complete env ctx hI op hc hwf hne hcan p hp h

theorem first1_enum4 (env : Env) (ctx : Ctx) (hI : InputOK env ctx) (op : Op)
    (hc : cleanProg4 env ctx.caseBlind ctx.multiLine op = true) (hwf : wfOp op = true)
    (hne : noEmptyAtoms op = true) (hcan : clsCanonB op = true) (p : Nat) (hp : p ≤ ctx.len) (st : St) :
    (first1 (sem ctx op p st)).1.map (·.1) = (enum4 ctx op p).head? :=
  Clean4L.first1_enum4 env ctx hI op hc hwf hne hcan p hp st

/-- the engine test is complete on the fragment, from EVERY state -/
theorem completeAt_clean4 (env : Env) (ctx : Ctx) (hI : InputOK env ctx) (op : Op)
    (hc : cleanProg4 env ctx.caseBlind ctx.multiLine op = true) (hwf : wfOp op = true)
    (hne : noEmptyAtoms op = true) (hcan : clsCanonB op = true) : CompleteAt ctx op :=
  Clean4L.completeAt_clean4 env ctx hI op hc hwf hne hcan

theorem matchAt_iff4 (env : Env) (ctx : Ctx) (hI : InputOK env ctx) (op : Op)
    (hc : cleanProg4 env ctx.caseBlind ctx.multiLine op = true) (hwf : wfOp op = true)
    (hne : noEmptyAtoms op = true) (hcan : clsCanonB op = true) (i : Nat) (hi : i ≤ ctx.len) (st : St) :
    (matchAt ctx op i st).1 = true ↔ ∃ j, OpR ctx op i j :=
  Clean4L.matchAt_iff4 env ctx hI op hc hwf hne hcan i hi st

/-- on success the end recorded for group 0 is the head of `enum4` (reluctant ⇒ fewest iterations first) -/
theorem matchAt_end4 (env : Env) (ctx : Ctx) (hI : InputOK env ctx) (op : Op)
    (hc : cleanProg4 env ctx.caseBlind ctx.multiLine op = true) (hwf : wfOp op = true)
    (hne : noEmptyAtoms op = true) (hcan : clsCanonB op = true) (i : Nat) (hi : i ≤ ctx.len) (st : St)
    (h : (matchAt ctx op i st).1 = true) :
    getParenEnd (matchAt ctx op i st).2 0 = (enum4 ctx op i).head? :=
  Clean4L.matchAt_end4 env ctx hI op hc hwf hne hcan i hi st h

theorem sem_noDiv4 (env : Env) (ctx : Ctx) (hI : InputOK env ctx) (op : Op)
    (hc : cleanProg4 env ctx.caseBlind ctx.multiLine op = true) (hwf : wfOp op = true)
    (hne : noEmptyAtoms op = true) (hcan : clsCanonB op = true) (p : Nat) (hp : p ≤ ctx.len) (st : St) :
    (sem ctx op p st).NoDiv :=
  Clean4L.sem_noDiv4 env ctx hI op hc hwf hne hcan p hp st

/-! ### 4. through the search loop -/

theorem clean4_isMatch_ok (env : Env) (pat : List Nat) (op : Op) (mp : Nat) (fl : CFlags)
    (lower : Nat → Nat) (input : List Nat) (hI : InputOKFor env fl lower input)
    (hc : cleanProg4 env fl.caseBlind fl.multiLine (mkProgram pat op mp fl false).op = true)
    (hwf : wfOp op = true) (hne : noEmptyAtoms op = true)
    (hcan : clsCanonB (mkProgram pat op mp fl false).op = true) (hlen : input.length < usizeMax) :
    ∃ b, (mkProgram pat op mp fl false).isMatch lower input = .ok b ∧
      (b = true ↔ ∃ j q, j ≤ input.length ∧
        OpR ((mkProgram pat op mp fl false).ctx lower input) (mkProgram pat op mp fl false).op j q) := by
  have ho := clean4_outcome env pat op mp fl lower input hI hc hwf hne hcan hlen 0 (Nat.zero_le _) {} rfl
  have hiff := ho.iff
  have hcl := ho.clean
  unfold Prog.isMatch
  generalize matchesFrom ((mkProgram pat op mp fl false).ctx lower input) (mkProgram pat op mp fl false) 0 {} = r at *
  obtain ⟨m, st⟩ := r
  simp only at hcl hiff ⊢
  rw [hcl]
  refine ⟨m, rfl, hiff.trans ?_⟩
  constructor
  · rintro ⟨j, q, _, h2, h3⟩; exact ⟨j, q, h2, h3⟩
  · rintro ⟨j, q, h2, h3⟩; exact ⟨j, q, Nat.zero_le _, h2, h3⟩

theorem clean4_isMatch_iff (env : Env) (pat : List Nat) (op : Op) (mp : Nat) (fl : CFlags)
    (lower : Nat → Nat) (input : List Nat) (hI : InputOKFor env fl lower input)
    (hc : cleanProg4 env fl.caseBlind fl.multiLine (mkProgram pat op mp fl false).op = true)
    (hwf : wfOp op = true) (hne : noEmptyAtoms op = true)
    (hcan : clsCanonB (mkProgram pat op mp fl false).op = true) (hlen : input.length < usizeMax) :
    (mkProgram pat op mp fl false).isMatch lower input = .ok true ↔
      ∃ j q, j ≤ input.length ∧
        OpR ((mkProgram pat op mp fl false).ctx lower input) (mkProgram pat op mp fl false).op j q := by
  obtain ⟨b, hb, hiff⟩ := clean4_isMatch_ok env pat op mp fl lower input hI hc hwf hne hcan hlen
  rw [hb]
  constructor
  · intro h
    simp only [Out.ok.injEq] at h
    exact hiff.1 h
  · intro h
    rw [hiff.2 h]

theorem clean4_isMatch_false (env : Env) (pat : List Nat) (op : Op) (mp : Nat) (fl : CFlags)
    (lower : Nat → Nat) (input : List Nat) (hI : InputOKFor env fl lower input)
    (hc : cleanProg4 env fl.caseBlind fl.multiLine (mkProgram pat op mp fl false).op = true)
    (hwf : wfOp op = true) (hne : noEmptyAtoms op = true)
    (hcan : clsCanonB (mkProgram pat op mp fl false).op = true) (hlen : input.length < usizeMax)
    (hno : ¬ ∃ j q, j ≤ input.length ∧
        OpR ((mkProgram pat op mp fl false).ctx lower input) (mkProgram pat op mp fl false).op j q) :
    (mkProgram pat op mp fl false).isMatch lower input = .ok false := by
  obtain ⟨b, hb, hiff⟩ := clean4_isMatch_ok env pat op mp fl lower input hI hc hwf hne hcan hlen
  rw [hb]
  cases b with
  | false => rfl
  | true => exact absurd (hiff.1 rfl) hno

theorem clean4_matchesFrom_iff (env : Env) (pat : List Nat) (op : Op) (mp : Nat) (fl : CFlags)
    (lower : Nat → Nat) (input : List Nat) (hI : InputOKFor env fl lower input)
    (hc : cleanProg4 env fl.caseBlind fl.multiLine (mkProgram pat op mp fl false).op = true)
    (hwf : wfOp op = true) (hne : noEmptyAtoms op = true)
    (hcan : clsCanonB (mkProgram pat op mp fl false).op = true) (hlen : input.length < usizeMax)
    (i : Nat) (hi : i ≤ input.length) (st : St) (hst : st.panic = none) :
    ((matchesFrom ((mkProgram pat op mp fl false).ctx lower input) (mkProgram pat op mp fl false) i st).1 = true ↔
      ∃ j q, i ≤ j ∧ j ≤ input.length ∧
        OpR ((mkProgram pat op mp fl false).ctx lower input) (mkProgram pat op mp fl false).op j q) ∧
    (matchesFrom ((mkProgram pat op mp fl false).ctx lower input) (mkProgram pat op mp fl false) i st).2.panic = none :=
  let h := clean4_outcome env pat op mp fl lower input hI hc hwf hne hcan hlen i hi st hst
  ⟨h.iff, h.clean⟩

/-- the facts about the program's tree that the span theorems need -/
theorem prog_facts (env : Env) (pat : List Nat) (op : Op) (mp : Nat) (fl : CFlags)
    (lower : Nat → Nat) (input : List Nat)
    (hc : cleanProg4 env fl.caseBlind fl.multiLine (mkProgram pat op mp fl false).op = true)
    (hwf : wfOp op = true) (hne : noEmptyAtoms op = true) (hcp : C02.capsPos op = true) :
    cleanProg4 env ((mkProgram pat op mp fl false).ctx lower input).caseBlind
      ((mkProgram pat op mp fl false).ctx lower input).multiLine (mkProgram pat op mp fl false).op = true ∧
    wfOp (mkProgram pat op mp fl false).op = true ∧ noEmptyAtoms (mkProgram pat op mp fl false).op = true ∧
    C02.capsPos (mkProgram pat op mp fl false).op = true := by
  obtain ⟨hop, _⟩ := WF.mkProgram_op pat op mp fl false
  obtain ⟨hcb, hml, _⟩ := mkProgram_ctx pat op mp fl false lower input
  refine ⟨by rw [hcb, hml]; exact hc, ?_, ?_, ?_⟩
  · rw [hop, WF.wfOp_numberReps]; exact hwf
  · rw [hop, ApiL.noEmptyAtoms_numberReps]; exact hne
  · rw [hop, WF.capsPos_numberReps]; exact hcp

/-- when `matches(i)` succeeds, group 0 is `(j, n)`: `j` the LEAST start `≥ i` from which the language has
    a member, `n` the FIRST element of `enum4` from `j` (ordered choice; greedy = more iterations first) -/
theorem clean4_match_is_leftmost_first (env : Env) (pat : List Nat) (op : Op) (mp : Nat) (fl : CFlags)
    (lower : Nat → Nat) (input : List Nat) (hI : InputOKFor env fl lower input)
    (hc : cleanProg4 env fl.caseBlind fl.multiLine (mkProgram pat op mp fl false).op = true)
    (hwf : wfOp op = true) (hne : noEmptyAtoms op = true)
    (hcan : clsCanonB (mkProgram pat op mp fl false).op = true) (hcp : C02.capsPos op = true)
    (hlen : input.length < usizeMax)
    (i : Nat) (hi : i ≤ input.length) (st st' : St) (hst : st.panic = none)
    (h : matchesFrom ((mkProgram pat op mp fl false).ctx lower input) (mkProgram pat op mp fl false) i st
      = (true, st')) :
    ∃ j n, getParenStart st' 0 = some j ∧ getParenEnd st' 0 = some n ∧
      (enum4 ((mkProgram pat op mp fl false).ctx lower input) (mkProgram pat op mp fl false).op j).head? = some n ∧
      i ≤ j ∧ j ≤ n ∧ n ≤ input.length ∧
      OpR ((mkProgram pat op mp fl false).ctx lower input) (mkProgram pat op mp fl false).op j n ∧
      ∀ k q, i ≤ k → k < j →
        ¬ OpR ((mkProgram pat op mp fl false).ctx lower input) (mkProgram pat op mp fl false).op k q := by
  obtain ⟨f1, f2, f3, f4⟩ := prog_facts env pat op mp fl lower input hc hwf hne hcp
  have ho := clean4_outcome env pat op mp fl lower input hI hc hwf hne hcan hlen i hi st hst
  have := ho.span_clean4 (hI.ctx pat op mp false) f1 f2 f3 hcan f4 (by rw [h])
  rw [h] at this
  exact this

/-- shortcuts on / off on the same tree: Boolean, start and end -/
theorem clean4_opt_eq_noopt (env : Env) (pat : List Nat) (op : Op) (mp : Nat) (fl : CFlags)
    (lower : Nat → Nat) (input : List Nat) (hI : InputOKFor env fl lower input)
    (hc : cleanProg4 env fl.caseBlind fl.multiLine (mkProgram pat op mp fl false).op = true)
    (hwf : wfOp op = true) (hne : noEmptyAtoms op = true)
    (hcan : clsCanonB (mkProgram pat op mp fl false).op = true) (hcp : C02.capsPos op = true)
    (hlen : input.length < usizeMax)
    (i : Nat) (hi : i ≤ input.length) (st1 st2 : St) (h1 : st1.panic = none) (h2 : st2.panic = none) :
    let pr := mkProgram pat op mp fl false
    let ctx := pr.ctx lower input
    (matchesFrom ctx pr i st1).1 = (matchesNaive ctx pr.op i st2).1 ∧
    ((matchesFrom ctx pr i st1).1 = true →
      getParenStart (matchesFrom ctx pr i st1).2 0 = getParenStart (matchesNaive ctx pr.op i st2).2 0 ∧
      getParenEnd (matchesFrom ctx pr i st1).2 0 = getParenEnd (matchesNaive ctx pr.op i st2).2 0) := by
  intro pr ctx
  obtain ⟨f1, f2, f3, f4⟩ := prog_facts env pat op mp fl lower input hc hwf hne hcp
  have o1 := clean4_outcome env pat op mp fl lower input hI hc hwf hne hcan hlen i hi st1 h1
  have o2 := clean4_naive_outcome env pat op mp fl lower input hI hc hwf hne hcan i st2 h2
  have hb : (matchesFrom ctx pr i st1).1 = (matchesNaive ctx pr.op i st2).1 := by
    rw [Bool.eq_iff_iff]
    exact o1.iff.trans o2.iff.symm
  refine ⟨hb, fun ht => ?_⟩
  obtain ⟨j1, n1, hs1, he1, hh1, a1, _, _, hm1, hl1⟩ :=
    o1.span_clean4 (hI.ctx pat op mp false) f1 f2 f3 hcan f4 ht
  obtain ⟨j2, n2, hs2, he2, hh2, a2, _, _, hm2, hl2⟩ :=
    o2.span_clean4 (hI.ctx pat op mp false) f1 f2 f3 hcan f4 (hb ▸ ht)
  have : j1 = j2 := by
    rcases Nat.lt_trichotomy j1 j2 with h | h | h
    · exact absurd hm1 (hl2 j1 n1 a1 h)
    · exact h
    · exact absurd hm2 (hl1 j2 n2 a2 h)
  subst this
  rw [hh1] at hh2
  simp only [Option.some.injEq] at hh2
  subst hh2
  exact ⟨by rw [hs1, hs2], by rw [he1, he2]⟩

/-! ### 5. delimiting the fragment; non-vacuity -/
section examples

def exEnv : Env :=
  { lower := id, closure := fun _ => [], category := fun _ => none, block := fun _ => none,
    digit := [], word := [], nameStart := [], nameChar := [] }

/-- K2 (Props/Findings): `(?:a|ab)+?c` — a reluctant repeat whose body is rep-free and not nullable but NOT
    end-deterministic (`a` and `ab` share their first character).  The engine loses the match on "abc"
    (`Findings.K2_isMatch`, `K2_member`): the iterator takes the body's first match and never backtracks into
    the body.  The program is outside the fragment, and `detB` is exactly the condition that fails. -/
theorem k2_outside : cleanProg4 exEnv false false Findings.progK2.op = false ∧
    (match Findings.progK2.op with
     | .seq (.rep _ c _ _ g :: _) => !g && cleanOp2 exEnv false false c && nonNull c && !detB exEnv false c
     | _ => false) = true := by decide +kernel

/-- `(?:ab|c)+?c`, `(?:ab|c)*?d` (min = 0) and `(?:a|bc){2,3}?x` as the model's compiler builds them are
    programs of the fragment (outside the fragment of Props/Clean3) -/
theorem ex_compiled :
    (match compileCore exEnv {} [40, 63, 58, 97, 98, 124, 99, 41, 43, 63, 99] true with
     | .ok pr => cleanProg4 exEnv false false pr.op && wfOp pr.op && noEmptyAtoms pr.op && clsCanonB pr.op &&
         !cleanProg3 exEnv false false pr.op
     | _ => false) = true ∧
    (match compileCore exEnv {} [40, 63, 58, 97, 98, 124, 99, 41, 42, 63, 100] true with
     | .ok pr => cleanProg4 exEnv false false pr.op && wfOp pr.op && noEmptyAtoms pr.op && clsCanonB pr.op &&
         !cleanProg3 exEnv false false pr.op
     | _ => false) = true ∧
    (match compileCore exEnv {} [40, 63, 58, 97, 124, 98, 99, 41, 123, 50, 44, 51, 125, 63, 120] true with
     | .ok pr => cleanProg4 exEnv false false pr.op && wfOp pr.op && noEmptyAtoms pr.op && clsCanonB pr.op &&
         !cleanProg3 exEnv false false pr.op
     | _ => false) = true := by decide +kernel

/-- `(?:ab|c)+?c` as handed to `ReProgram::new` (un-numbered) -/
def exTree : Op :=
  .seq [.rep 0 (.choice [.atom [97, 98], .atom [99]]) 1 usizeMax false, .atom [99], .endProgram]

/-- "xabcc" -/
def exInput : List Nat := [120, 97, 98, 99, 99]

def exProg : Prog := mkProgram [] exTree 1 {} false

theorem ex_ok : cleanProg4 exEnv false false exProg.op = true ∧ wfOp exTree = true ∧
    noEmptyAtoms exTree = true ∧ clsCanonB exProg.op = true ∧ C02.capsPos exTree = true := by
  refine ⟨?_, ?_, ?_, ?_, ?_⟩ <;> decide +kernel

/-- the compiler's output for the pattern text is this program's tree -/
theorem ex_is_compiled :
    (match compileCore exEnv {} [40, 63, 58, 97, 98, 124, 99, 41, 43, 63, 99] true with
     | .ok pr => (enum4 (pr.ctx id exInput) pr.op 1 == enum4 (exProg.ctx id exInput) exProg.op 1) &&
         (pr.isMatch id exInput == exProg.isMatch id exInput)
     | _ => false) = true := by decide +kernel

theorem exInputOK : InputOKFor exEnv {} id exInput :=
  .of_caseSensitive rfl (fun _ _ h => by cases h) (by decide) (by decide)

private def ctxOf (input : List Nat) : Ctx :=
  { input := input, caseBlind := false, multiLine := false, hasBackrefs := false, maxParens := 1, lower := id }

private theorem ctxOf_ok (input : List Nat) (h1 : ∀ c ∈ input, c < cpLimit) (h2 : ∀ c ∈ input, isSurrogate c = false) :
    InputOK exEnv (ctxOf input) :=
  .of_caseSensitive rfl (fun _ _ h => by cases h) h1 h2

/-- what the engine computes on "xabcc": `is_match` true, span (1, 4) — the SHORTEST match from 1 —,
    `enum4` from 1 is [4, 5] (one iteration `ab` then `c`; two iterations `ab`·`c` then `c`);
    the node alone, from 1, lists the ends for 1, 2, 3 iterations: 3, 4, 5 -/
theorem ex_computed :
    exProg.isMatch id exInput = .ok true ∧
    (matchesFrom (exProg.ctx id exInput) exProg 0 {}).1 = true ∧
    getParenStart (matchesFrom (exProg.ctx id exInput) exProg 0 {}).2 0 = some 1 ∧
    getParenEnd (matchesFrom (exProg.ctx id exInput) exProg 0 {}).2 0 = some 4 ∧
    enum4 (exProg.ctx id exInput) exProg.op 1 = [4, 5] ∧ enum4 (exProg.ctx id exInput) exProg.op 0 = [] ∧
    enum4 (ctxOf exInput) (.rep 1 (.choice [.atom [97, 98], .atom [99]]) 1 usizeMax false) 1 = [3, 4, 5] := by
  decide +kernel

/-- `reluctant_node` / `reluctant_sorted` instantiated: `(?:ab|c){0,2}?` (min = 0) from 1 on "xabcc" -/
example : Step.Seq anySt (sem (ctxOf exInput) (.rep 7 (.choice [.atom [97, 98], .atom [99]]) 0 2 false) 1 {})
      [1, 3, 4] ∧
    (enum4 (ctxOf exInput) (.rep 7 (.choice [.atom [97, 98], .atom [99]]) 0 2 false) 1).Pairwise (· < ·) := by
  have hI := ctxOf_ok exInput (by decide) (by decide)
  have h := reluctant_node exEnv (ctxOf exInput) hI 7 (.choice [.atom [97, 98], .atom [99]]) 0 2
    (by decide +kernel) (by decide +kernel) (by decide +kernel) (by decide +kernel) 1 (by decide) {} trivial
  have e : reluctIter (enum4 (ctxOf exInput) (.choice [.atom [97, 98], .atom [99]])) 0 2 0 1 = [1, 3, 4] := by
    decide +kernel
  rw [e] at h
  exact ⟨h, reluctant_sorted exEnv (ctxOf exInput) hI 7 _ 0 2
    (by decide +kernel) (by decide +kernel) (by decide +kernel) (by decide +kernel) 1 (by decide)⟩

/-- `sem_seq_enum4`, `enum4_iff_OpR`, `matchAt_iff4`, `matchAt_end4` instantiated on the program's tree -/
example : Step.Seq anySt (sem (exProg.ctx id exInput) exProg.op 1 {}) [4, 5] ∧
    (matchAt (exProg.ctx id exInput) exProg.op 1 {}).1 = true ∧
    getParenEnd (matchAt (exProg.ctx id exInput) exProg.op 1 {}).2 0 = some 4 ∧
    (5 ∈ enum4 (ctxOf exInput) (.rep 1 (.choice [.atom [97, 98], .atom [99]]) 1 usizeMax false) 1 ↔
      OpR (ctxOf exInput) (.rep 1 (.choice [.atom [97, 98], .atom [99]]) 1 usizeMax false) 1 5) := by
  have hI : InputOK exEnv (exProg.ctx id exInput) := exInputOK.ctx [] exTree 1 false
  have hw : wfOp exProg.op = true := by decide +kernel
  have hn : noEmptyAtoms exProg.op = true := by decide +kernel
  have h := sem_seq_enum4 exEnv _ hI exProg.op ex_ok.1 hw hn ex_ok.2.2.2.1 1 (by decide) {} trivial
  rw [ex_computed.2.2.2.2.1] at h
  have hm : (matchAt (exProg.ctx id exInput) exProg.op 1 {}).1 = true :=
    (matchAt_iff4 exEnv _ hI exProg.op ex_ok.1 hw hn ex_ok.2.2.2.1 1 (by decide) {}).2
      ⟨4, enum4_sound exEnv _ hI exProg.op ex_ok.1 hw hn ex_ok.2.2.2.1 1 4 (by decide)
        (by rw [ex_computed.2.2.2.2.1]; decide)⟩
  have he := matchAt_end4 exEnv _ hI exProg.op ex_ok.1 hw hn ex_ok.2.2.2.1 1 (by decide) {} hm
  rw [ex_computed.2.2.2.2.1] at he
  exact ⟨h, hm, he, enum4_iff_OpR exEnv (ctxOf exInput) (ctxOf_ok exInput (by decide) (by decide)) _
    (by decide +kernel) (by decide +kernel) (by decide +kernel) (by decide +kernel) 1 5 (by decide)⟩

/-- `min = 0`: `(?:ab|c)*?d` — `CompleteAt` HOLDS (from every state), in contrast with the greedy
    `(?:ab|c)*d` (`Clean3.completeAt_min0_false`): the reluctant iterator does not consult the memo -/
def starTreeR : Op :=
  .seq [.rep 1 (.choice [.atom [97, 98], .atom [99]]) 0 usizeMax false, .atom [100], .endProgram]

theorem star_reluctant_completeAt : CompleteAt Clean3.starCtx starTreeR :=
  completeAt_clean4 exEnv Clean3.starCtx (.of_caseSensitive rfl (fun _ _ h => by cases h) (by decide) (by decide))
    starTreeR (by decide +kernel) (by decide +kernel) (by decide +kernel) (by decide +kernel)

/-- … also from the state whose memo has the entry that defeats the greedy iterator -/
example : (first1 (sem Clean3.starCtx starTreeR 0 { hist := [(1, 0)] })).1.isSome = true :=
  (star_reluctant_completeAt 0 { hist := [(1, 0)] } (by decide) rfl).2 ⟨1, by
    simp only [starTreeR, OpR, OpRSeq]
    refine ⟨0, ⟨0, Nat.le_refl _, Nat.zero_le _, .zero 0⟩, 1, ?_, 1, rfl, rfl⟩
    decide⟩

/-- C01 instantiated -/
theorem ex_isMatch : ∃ j q, j ≤ exInput.length ∧ OpR (exProg.ctx id exInput) exProg.op j q :=
  (clean4_isMatch_iff exEnv [] exTree 1 {} id exInput exInputOK ex_ok.1 ex_ok.2.1 ex_ok.2.2.1 ex_ok.2.2.2.1
    (by decide)).1 ex_computed.1

/-- C02 instantiated: the predicted span is the computed one — leftmost start, SHORTEST end -/
theorem ex_leftmost_first :
    ∃ j n, getParenStart (matchesFrom (exProg.ctx id exInput) exProg 0 {}).2 0 = some j ∧
      getParenEnd (matchesFrom (exProg.ctx id exInput) exProg 0 {}).2 0 = some n ∧
      j = 1 ∧ n = 4 ∧ (enum4 (exProg.ctx id exInput) exProg.op j).head? = some n ∧
      ∀ k q, k < j → ¬ OpR (exProg.ctx id exInput) exProg.op k q := by
  obtain ⟨j, n, hs, he, hh, _, _, _, _, hmin⟩ :=
    clean4_match_is_leftmost_first exEnv [] exTree 1 {} id exInput exInputOK ex_ok.1 ex_ok.2.1 ex_ok.2.2.1
      ex_ok.2.2.2.1 ex_ok.2.2.2.2 (by decide) 0 (Nat.zero_le _) {}
      (matchesFrom (exProg.ctx id exInput) exProg 0 {}).2 rfl
      (by
        have := ex_computed.2.1
        show matchesFrom (exProg.ctx id exInput) exProg 0 {} = _
        rw [← this])
  obtain ⟨_, _, hcs, hce, _, _⟩ := ex_computed
  have hj : j = 1 := by rw [hcs] at hs; exact (Option.some.inj hs).symm
  have hn : n = 4 := by rw [hce] at he; exact (Option.some.inj he).symm
  exact ⟨j, n, hs, he, hj, hn, hh, fun k q hk => hmin k q (Nat.zero_le _) hk⟩

/-- `clean4_isMatch_false` / `clean4_matchesFrom_iff` instantiated: on "xab" there is no match, and the
    hypothesis "no member of the language" is satisfiable (here obtained from the computed answer) -/
example : exProg.isMatch id [120, 97, 98] = .ok false ∧
    ((matchesFrom (exProg.ctx id [120, 97, 98]) exProg 0 {}).1 = true ↔
      ∃ j q, 0 ≤ j ∧ j ≤ 3 ∧ OpR (exProg.ctx id [120, 97, 98]) exProg.op j q) := by
  have hI : InputOKFor exEnv {} id [120, 97, 98] :=
    .of_caseSensitive rfl (fun _ _ h => by cases h) (by decide) (by decide)
  have hno : ¬ ∃ j q, j ≤ [120, 97, 98].length ∧ OpR (exProg.ctx id [120, 97, 98]) exProg.op j q := by
    intro h
    have : exProg.isMatch id [120, 97, 98] = .ok true :=
      (clean4_isMatch_iff exEnv [] exTree 1 {} id [120, 97, 98] hI ex_ok.1 ex_ok.2.1 ex_ok.2.2.1
        ex_ok.2.2.2.1 (by decide)).2 h
    have hc : exProg.isMatch id [120, 97, 98] = .ok false := by decide +kernel
    rw [hc] at this
    cases this
  exact ⟨clean4_isMatch_false exEnv [] exTree 1 {} id [120, 97, 98] hI ex_ok.1 ex_ok.2.1 ex_ok.2.2.1
      ex_ok.2.2.2.1 (by decide) hno,
    (clean4_matchesFrom_iff exEnv [] exTree 1 {} id [120, 97, 98] hI ex_ok.1 ex_ok.2.1 ex_ok.2.2.1
      ex_ok.2.2.2.1 (by decide) 0 (Nat.zero_le _) {} rfl).1⟩

/-- shortcuts on / off instantiated -/
example : (matchesFrom (exProg.ctx id exInput) exProg 0 {}).1 = (matchesNaive (exProg.ctx id exInput) exProg.op 0 {}).1 :=
  (clean4_opt_eq_noopt exEnv [] exTree 1 {} id exInput exInputOK ex_ok.1 ex_ok.2.1 ex_ok.2.2.1
    ex_ok.2.2.2.1 ex_ok.2.2.2.2 (by decide) 0 (Nat.zero_le _) {} {} rfl rfl).1

end examples

end Rx.Clean4
