/-
  Props/Findings — the engine is NOT complete w.r.t. the language `OpR` of its program, and the
  incompleteness is the implementation's, not only the model's: kernel-checked witnesses for the
  catalogued findings K2, K3, K4, K9 (KNOWN_FINDINGS.json).  For each: the program is the one the
  crate compiles for the witness pattern (compared textually on every run, `dump`), the model's
  `is_match` answers `false` (by computation in the kernel) although some substring is in the
  language of the program (explicit derivation).  Every run replays the same witnesses on the crate.
  These are the "third case" theorems: model and implementation agree and the (completeness half of
  the) property is false of both.
-/
import RxModel.Props.C01
import RxModel.Model.Compile
namespace Rx.Findings

def a : Op := .atom [97]
def b : Op := .atom [98]
def c : Op := .atom [99]
def x : Op := .atom [120]

/-! ### K2 — a reluctant variable-length repeat takes only the body's first match: `(?:a|ab)+?c` on "abc" -/
def progK2 : Prog :=
  { op := .seq [.rep 1 (.choice [a, .atom [97, 98]]) 1 usizeMax false, c, .endProgram],
    minLen := 2, pres := [{ op := c, fixed := none, minPos := 1 }] }

theorem K2_isMatch : progK2.isMatch id [97, 98, 99] = .ok false := by decide +kernel

theorem K2_member : OpR (progK2.ctx id [97, 98, 99]) progK2.op 0 3 := by
  have h02 : OpR (progK2.ctx id [97, 98, 99]) (.choice [a, .atom [97, 98]]) 0 2 :=
    .inr (.inl ⟨rfl, by decide, by decide⟩)
  exact ⟨2, ⟨1, by decide, by decide, .succ (.zero 0) h02⟩, 3, ⟨rfl, by decide, by decide⟩, 3, rfl, rfl⟩

theorem K2_wf : wfOp progK2.op = true := by decide

/-! ### K4 — greedy re-extension stops one iteration short: `^(?:a|ab|b){0,2}$` on "abb" -/
def progK4 : Prog :=
  { op := .seq [.bol, .rep 1 (.choice [a, .atom [97, 98], b]) 0 2 true, .eol, .endProgram], hasBol := true }

theorem K4_isMatch : progK4.isMatch id [97, 98, 98] = .ok false := by decide +kernel

theorem K4_member : OpR (progK4.ctx id [97, 98, 98]) progK4.op 0 3 := by
  have h02 : OpR (progK4.ctx id [97, 98, 98]) (.choice [a, .atom [97, 98], b]) 0 2 :=
    .inr (.inl ⟨rfl, by decide, by decide⟩)
  have h23 : OpR (progK4.ctx id [97, 98, 98]) (.choice [a, .atom [97, 98], b]) 2 3 :=
    .inr (.inr (.inl ⟨rfl, by decide, by decide⟩))
  exact ⟨0, ⟨rfl, .inl rfl⟩, 3, ⟨2, by decide, by decide, .succ (.succ (.zero 0) h02) h23⟩, 3, ⟨rfl, .inl (by decide)⟩, 3, rfl, rfl⟩

/-! ### K3 — the zero-length-match memo suppresses a zero-iteration alternative: `^(?:(?:xx|x)(?:ab|c)*){2}$` on "xx" -/
def progK3 : Prog :=
  { op := .seq [.bol, .rep 1 (.seq [.choice [.atom [120, 120], x], .rep 2 (.choice [.atom [97, 98], c]) 0 usizeMax true]) 2 2 true,
                .eol, .endProgram],
    hasBol := true, minLen := 2 }

theorem K3_isMatch : progK3.isMatch id [120, 120] = .ok false := by decide +kernel

theorem K3_member : OpR (progK3.ctx id [120, 120]) progK3.op 0 2 := by
  have body : ∀ p, p < 2 → OpR (progK3.ctx id [120, 120])
      (.seq [.choice [.atom [120, 120], x], .rep 2 (.choice [.atom [97, 98], c]) 0 usizeMax true]) p (p + 1) := by
    intro p hp
    refine ⟨p + 1, .inr (.inl ⟨rfl, ?_, ?_⟩), p + 1, ⟨0, by decide, by decide, .zero _⟩, rfl⟩
    · simp [Prog.ctx, Ctx.len]; omega
    · match p, hp with
      | 0, _ => decide
      | 1, _ => decide
  refine ⟨0, ⟨rfl, .inl rfl⟩, 2, ⟨2, by decide, by decide, .succ (.succ (.zero 0) (body 0 (by decide))) (body 1 (by decide))⟩,
    2, ⟨rfl, .inl (by decide)⟩, 2, rfl, rfl⟩

/-! ### K9 — the five-in-a-row cut of `ForceProgressIterator`: `(?:a+b?|a+b?){3}a` on "aaaaba" -/
def ab? : Op := .seq [.gfixed a 1 usizeMax 1, .gfixed b 0 1 1]
def progK9 : Prog :=
  { op := .seq [.rep 1 (.choice [ab?, ab?]) 3 3 true, a, .endProgram],
    minLen := 4, pres := [{ op := a, fixed := none, minPos := 3 }] }

theorem K9_isMatch : progK9.isMatch id [97, 97, 97, 97, 98, 97] = .ok false := by decide +kernel

/-- the same program with the body written once matches: `(?:a+b?){3}a` -/
def progK9' : Prog :=
  { op := .seq [.rep 1 ab? 3 3 true, a, .endProgram],
    minLen := 4, pres := [{ op := .gfixed a 1 usizeMax 1, fixed := none, minPos := 0 }, { op := a, fixed := none, minPos := 3 }] }
theorem K9'_isMatch : progK9'.isMatch id [97, 97, 97, 97, 98, 97] = .ok true := by decide +kernel

/-- … and both have the same language (C20's law r|r = r), so the first answer contradicts completeness -/
theorem K9_same_language (ctx : Ctx) (p q : Nat) : OpR ctx progK9.op p q ↔ OpR ctx progK9'.op p q := by
  simp only [progK9, progK9', OpR, OpRSeq, OpRAny, or_false, or_self]

/-- the converse of `C01.isMatch_sound` is false: completeness of the engine w.r.t. `OpR` does not hold -/
theorem completeness_false :
    ¬ ∀ (pr : Prog) (lower : Nat → Nat) (input : List Nat), wfOp pr.op = true →
        (∃ i j, OpR (pr.ctx lower input) pr.op i j) → pr.isMatch lower input = .ok true := by
  intro h
  have := h progK2 id [97, 98, 99] K2_wf ⟨0, 3, K2_member⟩
  rw [K2_isMatch] at this
  exact absurd this (by decide)

/-! ### K1 — a counted quantifier over a nullable body is compiled to `*`: `^(?:a?){2}$` matches "aaa" -/
def env0 : Env :=
  { lower := id, closure := fun _ => [], category := fun _ => none, block := fun _ => none,
    digit := [], word := [], nameStart := [], nameChar := [] }

/-- the model's compiler applied to the pattern text (no table is consulted for this pattern) -/
def compiledK1 : Out Prog := compileCore env0 {} [94, 40, 63, 58, 97, 63, 41, 123, 50, 125, 36] true

theorem K1_isMatch :
    (match compiledK1 with | .ok pr => pr.isMatch id [97, 97, 97] | _ => .diverge) = .ok true := by decide +kernel

/-- … while the two-fold concatenation `^(?:a?)(?:a?)$` does not -/
def compiledK1' : Out Prog :=
  compileCore env0 {} [94, 40, 63, 58, 97, 63, 41, 40, 63, 58, 97, 63, 41, 36] true
theorem K1'_isMatch :
    (match compiledK1' with | .ok pr => pr.isMatch id [97, 97, 97] | _ => .diverge) = .ok false := by decide +kernel

end Rx.Findings
