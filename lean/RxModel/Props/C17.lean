/-
  Props/C17 — the XSD dialect rejects XPath extensions and agrees on the common subset.

  The dialect is one Boolean of the compiler context (`CFlags.xsd`).  Nothing after the compiler
  sees it: `Prog` has no such field, so equal programs mean equal results from every API.
-/
import RxModel.Model.Compile
namespace Rx.C17
open Rx

/-- the pattern contains neither `^` nor `$` -/
def noAnchorChars (pat : List Nat) : Bool := pat.all (fun c => c != 94 && c != 36)

mutual
/-- no XPath-only construct in a compiled tree: no anchors, no reluctant repeat, no back-reference -/
def xsdOnly : Op → Bool
  | .bol | .eol => false
  | .backref _ => false
  | .rfixed _ _ _ _ => false
  | .rep _ c _ _ g => g && xsdOnly c
  | .capture _ c => xsdOnly c
  | .choice bs => xsdOnlyL bs
  | .seq ops => xsdOnlyL ops
  | .gfixed c _ _ _ => xsdOnly c
  | .unamb c _ _ => xsdOnly c
  | _ => true
termination_by structural o => o
def xsdOnlyL : List Op → Bool
  | [] => true
  | o :: os => xsdOnly o && xsdOnlyL os
termination_by structural l => l
end

/-- lock-step: whatever the XSD parser accepts (on a pattern without `^`/`$`) the XPath parser
    accepts with the same tree and the same final compiler state -/
theorem parse_xsd_subset (env : Env) (fl : CFlags) (hx : fl.xsd = true) (pat : List Nat)
    (hna : noAnchorChars pat = true) (fuel : Nat) (s : PS) (top : Bool) (op : Op) (s' : PS)
    (h : parseExpr { pat := pat, fl := fl, env := env } fuel s top = .ok op s') :
    parseExpr { pat := pat, fl := { fl with xsd := false }, env := env } fuel s top = .ok op s' := by
  sorry

/-- … hence the same program (so every API agrees; `Prog` does not record the dialect) -/
theorem compile_xsd_subset (env : Env) (fl : CFlags) (hx : fl.xsd = true) (pat : List Nat)
    (hna : noAnchorChars pat = true) (opt : Bool) (pr : Prog)
    (h : compileCore env fl pat opt = .ok pr) :
    compileCore env { fl with xsd := false } pat opt = .ok pr := by
  sorry

/-- the XSD parser never produces an anchor, a reluctant repeat or a back-reference -/
theorem parse_xsd_only (env : Env) (fl : CFlags) (hx : fl.xsd = true) (pat : List Nat)
    (fuel : Nat) (s : PS) (top : Bool) (op : Op) (s' : PS)
    (h : parseExpr { pat := pat, fl := fl, env := env } fuel s top = .ok op s') :
    xsdOnly op = true ∧ (s.hasBackrefs = false → s'.hasBackrefs = false) := by
  sorry

/-- flag q is rejected in the XSD dialect -/
theorem xsd_rejects_q (pre post : List Nat) (hpre : ∀ c ∈ pre, c ≠ 59) :
    parseFlags (pre ++ 113 :: post) true = none := by
  sorry

/-- the same flag string is accepted by both dialects unless it contains q -/
theorem flags_dialect (fs : List Nat) (fl : Flags) (h : parseFlags fs true = some fl) :
    parseFlags fs false = some { fl with xsd := false } := by
  sorry

/-- in the XSD dialect `^` and `$` are ordinary characters: the parser's terminal step on them is
    the atom parser -/
theorem xsd_anchor_is_atom (c : PC) (hx : c.fl.xsd = true) (f : Nat) (s : PS)
    (h : c.at s.idx = 94 ∨ c.at s.idx = 36) :
    parseTerminal c (f + 1) s = parseAtom c s := by
  sorry

/-- … and the atom parser takes them into the atom -/
theorem xsd_anchor_pushed (c : PC) (hx : c.fl.xsd = true) (f : Nat) (s : PS) (ub : List Nat)
    (hlt : s.idx < c.len) (h : c.at s.idx = 94 ∨ c.at s.idx = 36)
    (hnq : ¬ (s.idx + 1 < c.len ∧ isQuantChar (c.at (s.idx + 1)) = true ∧ ub ≠ [])) :
    parseAtomGo c (f + 1) s ub = parseAtomGo c f { s with idx := s.idx + 1 } (ub ++ [c.at s.idx]) := by
  sorry

end Rx.C17
