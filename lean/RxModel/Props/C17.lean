/-
  Props/C17 — the XSD dialect rejects XPath extensions and agrees on the common subset.

  The dialect is one Boolean of the compiler context (`CFlags.xsd`).  Nothing after the compiler
  sees it: `Prog` has no such field, so equal programs mean equal results from every API.
-/
import RxModel.Model.Compile
import RxModel.Proofs.XsdLemmas
namespace Rx.C17
open Rx

/-- lock-step: whatever the XSD parser accepts (on a pattern without `^`/`$`) the XPath parser
    accepts with the same tree and the same final compiler state -/
theorem parse_xsd_subset (env : Env) (fl : CFlags) (hx : fl.xsd = true) (pat : List Nat)
    (hna : noAnchorChars pat = true) (fuel : Nat) (s : PS) (top : Bool) (op : Op) (s' : PS)
    (h : parseExpr { pat := pat, fl := fl, env := env } fuel s top = .ok op s') :
    parseExpr { pat := pat, fl := { fl with xsd := false }, env := env } fuel s top = .ok op s' :=
  (parse_le { pat := pat, fl := fl, env := env } hx (noAnch_of pat fl env hna) fuel).1 s top op s' h

/-- … hence the same program (so every API agrees; `Prog` does not record the dialect) -/
theorem compile_xsd_subset (env : Env) (fl : CFlags) (hx : fl.xsd = true) (pat : List Nat)
    (hna : noAnchorChars pat = true) (opt : Bool) (pr : Prog)
    (h : compileCore env fl pat opt = .ok pr) :
    compileCore env { fl with xsd := false } pat opt = .ok pr :=
  compileCore_le env fl hx pat (noAnch_of pat fl env hna) opt pr h

/-- the XSD parser never produces an anchor, a reluctant repeat or a back-reference -/
theorem parse_xsd_only (env : Env) (fl : CFlags) (hx : fl.xsd = true) (pat : List Nat)
    (fuel : Nat) (s : PS) (top : Bool) (op : Op) (s' : PS)
    (h : parseExpr { pat := pat, fl := fl, env := env } fuel s top = .ok op s') :
    xsdOnly op = true ∧ (s.hasBackrefs = false → s'.hasBackrefs = false) := by
  have hp := (parse_ok { pat := pat, fl := fl, env := env } hx s.hasBackrefs fuel).1 s top rfl op s' h
  exact ⟨hp.1, fun hs => hp.2.trans hs⟩

/-- flag q is rejected in the XSD dialect -/
theorem xsd_rejects_q (pre post : List Nat) (hpre : ∀ c ∈ pre, c ≠ 59) :
    parseFlags (pre ++ 113 :: post) true = none :=
  parseFlagsGo_q pre post hpre _ rfl

/-- the same flag string is accepted by both dialects unless it contains q -/
theorem flags_dialect (fs : List Nat) (fl : Flags) (h : parseFlags fs true = some fl) :
    parseFlags fs false = some { fl with xsd := false } :=
  parseFlagsGo_dialect fs _ fl h

/-- in the XSD dialect `^` and `$` are ordinary characters: the parser's terminal step on them is
    the atom parser -/
theorem xsd_anchor_is_atom (c : PC) (hx : c.fl.xsd = true) (f : Nat) (s : PS)
    (h : c.at s.idx = 94 ∨ c.at s.idx = 36) :
    parseTerminal c (f + 1) s = parseAtom c s := by
  rw [parseTerminal]
  rcases h with h | h <;> simp [h, hx]

/-- … and the atom parser takes them into the atom -/
theorem xsd_anchor_pushed (c : PC) (hx : c.fl.xsd = true) (f : Nat) (s : PS) (ub : List Nat)
    (hlt : s.idx < c.len) (h : c.at s.idx = 94 ∨ c.at s.idx = 36)
    (hnq : ¬ (s.idx + 1 < c.len ∧ isQuantChar (c.at (s.idx + 1)) = true ∧ ub ≠ [])) :
    parseAtomGo c (f + 1) s ub = parseAtomGo c f { s with idx := s.idx + 1 } (ub ++ [c.at s.idx]) :=
  parseAtomGo_anchor_pushed c hx f s ub hlt h hnq

end Rx.C17
