/-
  Props/C09 — character class expressions denote exactly their set algebra.

  `Ranges` (canonical lists of half-open ranges) is the model of ICU's inversion lists; the builder
  operations used by the class parser are `addRange`/`addChar` (add_range/add_char), `unionR`
  (add_set), `complR` (complement), `diffR` (remove_set).  Here: each of them denotes the set
  operation it is named after and keeps lists canonical; `ClsSt.finish` (the last lines of
  `parse_character_class`) denotes (members ∪ class escapes), complemented for `[^…]`, minus the
  subtrahend; the escapes \S \I \C \D \W \P{…} are complements; `[c]` and the literal `c` match the
  same characters; `is_disjoint` is exact up to its give-up threshold.
-/
import RxModel.Model.Parser
import RxModel.Proofs.CharSetLemmas
namespace Rx.C09
open Rx

/- `Canon` (canonical: non-empty ranges, strictly increasing, not adjacent, below `cpLimit`) is
   defined in `Proofs/CharSetLemmas.lean`:
     def Canon : Ranges → Prop
       | [] => True
       | [(a, b)] => a < b ∧ b ≤ cpLimit
       | (a, b) :: (c, d) :: rs => a < b ∧ b < c ∧ Canon ((c, d) :: rs)            -/

theorem contains_addRange (rs : Ranges) (h : Canon rs) (a b c : Nat) :
    clsContains (addRange a b rs) c = ((decide (a ≤ c) && decide (c < b)) || clsContains rs c) := by
  exact chain_contains_addRange rs (chain_of_canon rs h) a b c

theorem canon_addRange (rs : Ranges) (h : Canon rs) (a b : Nat) (hb : b ≤ cpLimit) :
    Canon (addRange a b rs) := by
  exact canon_of_chain _ 0 (chain_addRange rs (chain_of_canon rs h) a b (Nat.zero_le _) hb)

theorem contains_addChar (rs : Ranges) (h : Canon rs) (x c : Nat) :
    clsContains (addChar x rs) c = (decide (c = x) || clsContains rs c) := by
  unfold addChar
  rw [contains_addRange rs h]
  congr 1
  rw [Bool.eq_iff_iff]
  simp only [Bool.and_eq_true, decide_eq_true_eq]
  omega

/-- union (`add_set`) -/
theorem contains_unionR (a b : Ranges) (ha : Canon a) (hb : Canon b) (c : Nat) :
    clsContains (unionR a b) c = (clsContains a c || clsContains b c) := by
  exact (chain_unionR_both a b (chain_of_canon a ha) (chain_of_canon b hb)).2 c

theorem canon_unionR (a b : Ranges) (ha : Canon a) (hb : Canon b) : Canon (unionR a b) := by
  exact canon_of_chain _ 0 (chain_unionR_both a b (chain_of_canon a ha) (chain_of_canon b hb)).1

/-- complement within all code points -/
theorem contains_complR (a : Ranges) (ha : Canon a) (c : Nat) (hc : c < cpLimit) :
    clsContains (complR a) c = !clsContains a c := by
  unfold complR
  rw [chain_contains_complFrom a (chain_of_canon a ha) c]
  simp [hc]

theorem canon_complR (a : Ranges) (ha : Canon a) : Canon (complR a) := by
  exact canon_of_chain _ 0 (chain_complFrom a (chain_of_canon a ha))

/-- nothing outside the code point range is ever a member -/
theorem contains_lt_limit (a : Ranges) (ha : Canon a) (c : Nat) (h : clsContains a c = true) : c < cpLimit := by
  exact chain_contains_limit (chain_of_canon a ha) h

theorem contains_interR (a b : Ranges) (ha : Canon a) (hb : Canon b) (c : Nat) :
    clsContains (interR a b) c = (clsContains a c && clsContains b c) := by
  unfold interR
  have hca := canon_complR a ha
  have hcb := canon_complR b hb
  have hu := canon_unionR _ _ hca hcb
  by_cases hc : c < cpLimit
  · rw [contains_complR _ hu c hc, contains_unionR _ _ hca hcb, contains_complR a ha c hc,
      contains_complR b hb c hc]
    cases clsContains a c <;> cases clsContains b c <;> rfl
  · have h1 : clsContains (complR (unionR (complR a) (complR b))) c = false := by
      cases h : clsContains (complR (unionR (complR a) (complR b))) c
      · rfl
      · exact absurd (contains_lt_limit _ (canon_complR _ hu) c h) hc
    have h2 : clsContains a c = false := by
      cases h : clsContains a c
      · rfl
      · exact absurd (contains_lt_limit a ha c h) hc
    rw [h1, h2]; rfl

/-- difference (`remove_set`): `A - B` -/
theorem contains_diffR (a b : Ranges) (ha : Canon a) (hb : Canon b) (c : Nat) :
    clsContains (diffR a b) c = (clsContains a c && !clsContains b c) := by
  unfold diffR
  rw [contains_interR a _ ha (canon_complR b hb)]
  by_cases hc : c < cpLimit
  · rw [contains_complR b hb c hc]
  · have h2 : clsContains a c = false := by
      cases h : clsContains a c
      · rfl
      · exact absurd (contains_lt_limit a ha c h) hc
    rw [h2]; rfl

theorem canon_diffR (a b : Ranges) (ha : Canon a) (hb : Canon b) : Canon (diffR a b) := by
  unfold diffR interR
  exact canon_complR _ (canon_unionR _ _ (canon_complR a ha) (canon_complR _ (canon_complR b hb)))

/-- the last two steps of `ClsSt.finish` (complement for `[^…]`, then subtraction) on a canonical `r` -/
theorem finish_tail (r : Ranges) (hr : Canon r) (positive : Bool) (subtrahend : Option Ranges)
    (hs : ∀ s, subtrahend = some s → Canon s) (c : Nat) (hc : c < cpLimit) :
    clsContains
        (match (generalizing := false) subtrahend with
         | some sub => diffR (if positive then r else complR r) sub
         | none => if positive then r else complR r) c =
      ((if positive then clsContains r c else !clsContains r c)
       && !((subtrahend.map (clsContains · c)).getD false)) := by
  have h2 : Canon (if positive = true then r else complR r) ∧
      clsContains (if positive = true then r else complR r) c =
        (if positive = true then clsContains r c else !clsContains r c) := by
    cases positive with
    | true => exact ⟨hr, by simp⟩
    | false => exact ⟨canon_complR r hr, by simp [contains_complR r hr c hc]⟩
  generalize (if positive = true then r else complR r) = r' at h2
  obtain ⟨hr', hrc'⟩ := h2
  rw [← hrc']
  cases subtrahend with
  | none => simp
  | some sub => simp [contains_diffR _ _ hr' (hs sub rfl)]

/-- what a finished class expression denotes: (builder ∪ addend), complemented when negative,
    minus the subtrahend -/
theorem finish_denotes (k : ClsSt) (hb : Canon k.builder)
    (ha : ∀ a, k.addend = some a → Canon a) (hs : ∀ s, k.subtrahend = some s → Canon s)
    (c : Nat) (hc : c < cpLimit) :
    clsContains k.finish c =
      ((if k.positive then (clsContains k.builder c || (k.addend.map (clsContains · c)).getD false)
        else !(clsContains k.builder c || (k.addend.map (clsContains · c)).getD false))
       && !((k.subtrahend.map (clsContains · c)).getD false)) := by
  obtain ⟨positive, definingRange, rangeStart, builder, addend, subtrahend⟩ := k
  simp only at hb ha hs ⊢
  unfold ClsSt.finish
  simp only
  cases addend with
  | none =>
    simp only [Option.map_none, Option.getD_none, Bool.or_false]
    exact finish_tail builder hb positive subtrahend hs c hc
  | some a =>
    have hu := canon_unionR _ _ hb (ha a rfl)
    simp only [Option.map_some, Option.getD_some, ← contains_unionR _ _ hb (ha a rfl)]
    exact finish_tail _ hu positive subtrahend hs c hc

/-- a one-character class matches exactly that character, like the literal -/
theorem single_char_class (x c : Nat) : clsContains (addChar x []) c = decide (c = x) := by
  simp only [addChar, addRange, Nat.lt_succ_self, if_true, clsContains, Bool.or_false]
  rw [Bool.eq_iff_iff]
  simp only [Bool.and_eq_true, decide_eq_true_eq]
  omega

/-- the class generator and the one-character atom generator agree (case-sensitive matching) -/
theorem single_char_class_eq_atom (ctx : Ctx) (hcb : ctx.caseBlind = false) (x p : Nat) (st : St) :
    clsGen ctx (addChar x []) p st = atomGen ctx [x] p st := by
  unfold clsGen atomGen
  simp only [List.length_cons, List.length_nil, Nat.zero_add, Ctx.len]
  cases hp : ctx.input[p]? with
  | none =>
    have : ctx.input.length ≤ p := List.getElem?_eq_none_iff.1 hp
    simp only
    rw [if_pos (by omega)]
  | some y =>
    obtain ⟨hlt, hy⟩ := List.getElem?_eq_some_iff.1 hp
    have h1 : ¬ (p + 1 > ctx.input.length) := by omega
    have h2 : prefixMatch ctx [x] (List.drop p ctx.input) = (y == x) := by
      rw [List.drop_eq_getElem_cons hlt, hy]
      simp [prefixMatch, Ctx.eqAt, hcb]
    have h3 : clsContains (addChar x []) y = (y == x) := by
      rw [single_char_class]
      cases h : y == x <;> simp_all
    simp only [h1, h2, h3, if_false]

/-- `.` without flag s -/
theorem dot_set (c : Nat) (hc : c < cpLimit) :
    clsContains (complR (addChars [10, 13] [])) c = (decide (c ≠ 10) && decide (c ≠ 13)) := by
  have : complR (addChars [10, 13] []) = [(0, 10), (11, 13), (14, 1114112)] := by decide
  rw [this]
  simp only [cpLimit] at hc
  simp only [clsContains]
  grind

/-- `.` with flag s -/
theorem dot_all (c : Nat) (hc : c < cpLimit) : clsContains allR c = true := by
  simp only [allR, clsContains, Bool.or_false, Bool.and_eq_true, decide_eq_true_eq]
  omega

/-- `\s` = {tab, LF, CR, space} -/
theorem escape_s (c : Nat) : clsContains escapeS c = (c == 9 || c == 10 || c == 13 || c == 32) := by
  have : escapeS = [(9, 11), (13, 14), (32, 33)] := by decide
  rw [this]
  simp only [clsContains]
  grind

/-- `CharacterClass::is_disjoint`: true iff `other` has at most 100 scalar values and none of
    them is in `self` (so a `true` answer is always right; C08 relies on that direction) -/
theorem isDisjoint_sound (self other : Ranges) (ho : Canon other)
    (h : isDisjoint self other = true) (c : Nat) (hs : isSurrogate c = false)
    (hc : clsContains other c = true) : clsContains self c = false := by
  have _ := ho
  unfold isDisjoint at h
  obtain ⟨hlen, hmem⟩ := isDisjointGo_true self _ 0 (by omega) h
  apply hmem c
  apply takeChars_complete _ 101 other _ (by omega) c hs hc
  have := costs_le other
  omega

example : Canon (addChars [98, 97, 100] []) ∧ addChars [98, 97, 100] [] = [(97, 99), (100, 101)] := by
  refine ⟨?_, by decide⟩
  show Canon [(97, 99), (100, 101)]
  simp [Canon, cpLimit]
example : diffR (addRange 97 123 []) (addChar 98 []) = [(97, 98), (99, 123)] := by decide

end Rx.C09
