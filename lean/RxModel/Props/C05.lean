/-
  Props/C05 — no API call panics (the part of the statement that is a theorem about E).

  A Rust panic is the sticky marker `St.panic = some site` (site ≠ panicDiverge) that the API layer
  turns into `Out.panic site`.  Proved here: for programs without back-references (and
  `OPT_HASBACKREFS` off, as the compiler guarantees for them) no engine step ever raises the
  marker, for every input, position and consumer; the search loop adds no panic when the compiled
  facts are consistent (`prefix.len ≤ minimum_length`, which `ReProgram::new` guarantees);
  hence `is_match` never panics.  With back-references, in `analyze`'s tree builder and for the
  parser's `Error::Internal` sites the claim is established by correspondence only (DESIGN.md §6).
-/
import RxModel.Spec.OpLang
import RxModel.Model.Compile
import RxModel.Proofs.InvLemmas
namespace Rx.C05
open Rx

/-- "no real panic": the marker is clear, or only records non-termination -/
def NoPanic (st : St) : Prop := st.panic = none ∨ st.panic = some panicDiverge

/-- no engine step of a back-reference-free tree raises a panic, whatever the consumer does -/
theorem sem_no_panic (ctx : Ctx) (hb : ctx.hasBackrefs = false) (op : Op) (hop : hasBackref op = false)
    (p : Nat) (st : St) (h : NoPanic st) : (sem ctx op p st).Inv NoPanic :=
  sem_np ctx hb op hop p st trivial h

/-- `first1` hands on a panic-free state -/
theorem first1_no_panic (s : Step) (h : s.Inv NoPanic) : NoPanic (first1 s).2 :=
  first1_inv h (fun _ => noRealPanic_junk)

/-- `match_at` keeps the state panic-free -/
theorem matchAt_no_panic (ctx : Ctx) (hb : ctx.hasBackrefs = false) (op : Op) (hop : hasBackref op = false)
    (j : Nat) (st : St) (h : NoPanic st) : NoPanic (matchAt ctx op j st).2 :=
  matchAt_np ctx hb op hop j st h

/-- the facts `ReProgram::new` derives never make the search loop itself panic -/
def FactsOK (pr : Prog) : Prop :=
  (∀ pre, pr.prefix_ = some pre → pre.length ≤ pr.minLen ∨ pr.minLen = usizeMax) ∧
  (∀ q ∈ pr.pres, hasBackref q.op = false)

/-- `matches(i)` for `i ≤ len` keeps the state panic-free -/
theorem matchesFrom_no_panic (pr : Prog) (lower : Nat → Nat) (input : List Nat)
    (hb : pr.hasBackrefs = false) (hop : hasBackref pr.op = false) (hf : FactsOK pr)
    (hlen : input.length < usizeMax)
    (i : Nat) (hi : i ≤ input.length) (st : St) (h : NoPanic st) :
    NoPanic (matchesFrom (pr.ctx lower input) pr i st).2 :=
  matchesFrom_np pr lower input hb hop hf.1 hf.2 hlen i hi st h

/-- `is_match` never panics on a back-reference-free program -/
theorem isMatch_no_panic (pr : Prog) (lower : Nat → Nat) (input : List Nat)
    (hb : pr.hasBackrefs = false) (hop : hasBackref pr.op = false) (hf : FactsOK pr)
    (hlen : input.length < usizeMax) (c : Nat) :
    pr.isMatch lower input ≠ .panic c :=
  isMatch_np pr lower input
    (matchesFrom_np pr lower input hb hop hf.1 hf.2 hlen 0 (Nat.zero_le _) {} (.inl rfl)) c

/-- the program built by `ReProgram::new` has consistent facts -/
theorem mkProgram_factsOK (pat : List Nat) (op : Op) (mp : Nat) (fl : CFlags) (hop : hasBackref op = false) :
    FactsOK (mkProgram pat op mp fl false) :=
  mkProgram_facts pat op mp fl hop

set_option linter.unusedVariables false in
/-- replacement-string expansion is total: its only failure is InvalidReplacementString -/
theorem subst_total (pr : Prog) (input repl : List Nat) (st : St) (simple : Bool) (hmp : pr.maxParens ≠ 0) :
    (pr.subst input repl st simple).isSome ∨ pr.subst input repl st simple = none := by
  cases pr.subst input repl st simple <;> simp

/-- flag parsing and the whitespace pre-pass are total functions with classified results only -/
theorem flags_classified (fs : List Nat) (xsd : Bool) (env : Env) (p : List Nat) (opt : Bool)
    (h : parseFlags fs xsd = none) : Regex.new env p fs xsd opt = .err .invalidFlags := by
  unfold Regex.new
  rw [h]

end Rx.C05
