/-
  Props/EnvStd — the hypotheses about the environment, discharged for the REAL tables `Env.std`.

  Several property theorems are stated for an arbitrary `env : Env` / `lower : Nat → Nat` under
  hypotheses that are checkable facts of the library data.  Here each of them is decided for
  `Env.std` (Model/Unicode: the regenerated ICU / block / category / XML-name tables) by a Boolean
  test over the WHOLE table, run by the kernel (`decide +kernel`), lifted by a general lemma of
  Proofs/EnvStdLemmas; then the theorems are instantiated.  Nothing depends on particular table
  contents beyond what these tests establish: a regenerated table either passes them again or makes
  this file fail to check.

    hypothesis                                             for `Env.std`
    ------------------------------------------------------------------------------------------
    `C09.EnvCanon env`                                     TRUE   `envStd_canon`
    `∀ a x, x ∈ env.closure a → x < cpLimit`  (`hce`)      TRUE   `closure_bound_std`
    `∀ x, lower (lower x) = lower x`          (`hidem`)    TRUE   `lower_idem_std`
    `C11b.NewlineCaseless lower`              (`hnl`)      TRUE   (`C11b.newlineCaseless_std`)
    `C08.CaseOK env lower`                    (`hcase`)    FALSE  `caseOK_std_false`
        witness: U+0130 / `i` — `lower 0x130 = 'i'`, but the case closure of `i` is `{I}` and that
        of U+0130 is empty.  The closest true statement, `caseOK_std_on`: `CaseOKOn` on the alphabet
        without U+0130.

  Consequences of the FALSE one (section 3): for `Env.std` under flag i the first-set theorems of
  C08c hold only for inputs and literals avoiding U+0130 (`initialClass_sound_std_partial`,
  `disjoint_maxmunch_std_partial`); the unrestricted statements are refuted
  (`initialClass_sound_std_false`, `disjoint_maxmunch_std_false`) — and this is not an artefact of
  the statement: the non-backtracking rewrite built on the first sets LOSES MATCHES on the model
  of the real compiler (`dotted_I_unamb_finding`).
-/
import RxModel.Proofs.EnvStdLemmas
import RxModel.Props.C09c
import RxModel.Model.Compile
import RxModel.Model.Api
namespace Rx.EnvStd
open Rx Rx.EnvStdL Rx.C08 Rx.C09

/-! ### 0. the table tests (kernel computations over the regenerated tables) -/

/-- the keys of the case-closure table are strictly increasing -/
theorem closureTable_keysInc : keysInc Gen.closureTable = true := by decide +kernel

/-- the keys of the lower-casing table are strictly increasing -/
theorem lowerTable_keysInc : keysInc Gen.lowerTable = true := by decide +kernel

/-- every member of every case closure is a code point -/
theorem closureTable_bound : closureBoundB Gen.closureTable = true := by decide +kernel

/-- the case tables are adequate on the alphabet without U+0130 (two linear merges) … -/
theorem caseTables_fast : caseOnFastB C11b.notDottedI Gen.lowerTable Gen.closureTable = true := by decide +kernel

/-- … which is the stated check -/
theorem caseTables_ok : caseOnB C11b.notDottedI Gen.lowerTable Gen.closureTable = true := by
  rw [← caseOnFast_eq _ _ _ closureTable_keysInc]; exact caseTables_fast

/-- the value of every entry of the lower-casing table is mapped to itself (one linear merge) … -/
theorem lowerTable_idem_fast : idemFastB Gen.lowerTable = true := by decide +kernel

/-- … which is the stated check -/
theorem lowerTable_idem : idemB Gen.lowerTable = true := by
  rw [← idemFast_eq _ lowerTable_keysInc]; exact lowerTable_idem_fast

/-- the range of every block is a canonical list -/
theorem blocks_canon :
    Gen.allBlocks.all (fun e => C10.canonB (addRange e.2.1 (e.2.2 + 1) [])) = true := by decide +kernel

/-- the private-use set is a canonical list -/
theorem privateUse_canon :
    C10.canonB (Gen.privateUseRanges.foldl (fun acc r => addRange r.1 (r.2 + 1) acc) []) = true := by decide +kernel

/-- `\d`, `\w`, `\i`, `\c` are canonical lists -/
theorem digit_canon : C10.canonB digitStd = true := by decide +kernel
theorem word_canon : C10.canonB wordStd = true := by decide +kernel
theorem nameStart_canon : C10.canonB (rangesOfInclusive Gen.nameStartRanges) = true := by decide +kernel
theorem nameChar_canon : C10.canonB (rangesOfInclusive Gen.nameCharRanges) = true := by decide +kernel

theorem stdClosure_eq : Env.std.closure = closureOfT Gen.closureTable := rfl

/-! ### 1. `EnvCanon` -/

/-- whatever the category look-up returns is canonical -/
theorem category_canon_std : ∀ n rs, Env.std.category n = some rs → Canon rs := by
  intro n rs h
  obtain ⟨long, hm⟩ := categoryStd_mem n rs h
  exact canonB_sound rs (List.all_eq_true.1 (Bool.and_eq_true_iff.1 C10.categories_canon).2 _ hm)

/-- whatever the block look-up returns is canonical -/
theorem block_canon_std : ∀ n rs, Env.std.block n = some rs → Canon rs := by
  intro n rs h
  rcases blockStd_mem n rs h with h1 | ⟨e, he, h1⟩
  · rw [h1]; exact canonB_sound _ privateUse_canon
  · rw [h1]; exact canonB_sound _ (List.all_eq_true.1 blocks_canon e he)

set_option maxRecDepth 100000 in
/-- every table of the real environment is a canonical inversion list -/
theorem envStd_canon : EnvCanon Env.std :=
  ⟨canonB_sound _ digit_canon, canonB_sound _ word_canon, canonB_sound _ nameStart_canon,
   canonB_sound _ nameChar_canon, category_canon_std, block_canon_std⟩

/-- `C09.denote_member` for the real tables -/
theorem denote_member_std (xsd : Bool) (e : CExpr) (hok : e.ok xsd Env.std = true) :
    Canon (e.denote Env.std) ∧
      ∀ x, x < cpLimit → (clsContains (e.denote Env.std) x = true ↔ e.Member Env.std x) :=
  denote_member Env.std envStd_canon xsd e hok

/-- `C09.parse_class_full` for a parser context over the real tables: if the pattern text at `s.idx`
    is the rendering of a well-formed class expression, `parse_character_class` succeeds, consumes
    exactly the expression, and returns the canonical inversion list of the denoted set -/
theorem parse_class_full_std (c : PC) (henv : c.env = Env.std) (hci : c.fl.caseBlind = false) (e : CExpr)
    (hok : e.ok c.fl.xsd c.env = true) (s : PS) (rest : List Nat)
    (hpat : c.pat.drop s.idx = e.render ++ rest) (fuel : Nat) (hfuel : e.render.length ≤ fuel) :
    ∃ R, parseClass c fuel s = .ok R { s with idx := s.idx + e.render.length } ∧
      R = e.denote c.env ∧ Canon R ∧
      ∀ x, x < cpLimit → (clsContains R x = true ↔ e.Member c.env x) :=
  parse_class_full c hci (henv ▸ envStd_canon) e hok s rest hpat fuel hfuel

/-- `C09.parse_class_full_xsd_xpath` for the real tables -/
theorem parse_class_full_xsd_xpath_std (c : PC) (henv : c.env = Env.std) (hci : c.fl.caseBlind = false)
    (e : CExpr) (hok : e.ok true c.env = true) (s : PS) (rest : List Nat)
    (hpat : c.pat.drop s.idx = e.render ++ rest) (fuel : Nat) (hfuel : e.render.length ≤ fuel) :
    parseClass c fuel s = .ok (e.denote c.env) { s with idx := s.idx + e.render.length } ∧
    Canon (e.denote c.env) ∧
    ∀ x, x < cpLimit → (clsContains (e.denote c.env) x = true ↔ e.Member c.env x) :=
  parse_class_full_xsd_xpath c hci (henv ▸ envStd_canon) e hok s rest hpat fuel hfuel

/-- `[\p{IsGreek}a-c\d-[\p{IsBasicLatin}-[b]]]` against the real tables -/
def exStd : CExpr :=
  .minus false [.prop true [73, 115, 71, 114, 101, 101, 107], .range (.plain 97) (.plain 99), .cls 100]
    (.minus false [.prop true [73, 115, 66, 97, 115, 105, 99, 76, 97, 116, 105, 110]]
      (.leaf false [.one (.plain 98)]))

theorem exStd_ok : exStd.ok true Env.std = true := by decide +kernel

/-- the theorem applies to it (all hypotheses are met) … -/
example : ∃ R, parseClass ⟨exStd.render, {}, Env.std⟩ exStd.render.length {} =
      .ok R { idx := exStd.render.length } ∧
    R = exStd.denote Env.std ∧ Canon R ∧
    ∀ x, x < cpLimit → (clsContains R x = true ↔ exStd.Member Env.std x) := by
  have h := parse_class_full_std ⟨exStd.render, {}, Env.std⟩ rfl rfl exStd
    (CExpr.ok_mono exStd_ok _) {} [] (by simp) exStd.render.length (Nat.le_refl _)
  simpa using h

/-- … and the set is what one expects: `b` stays, `a`, `c`, `5` are removed, U+03B1 and the
    Arabic-Indic digit U+0663 are in -/
example : (fun R => clsContains R 98 && !clsContains R 97 && !clsContains R 99 && !clsContains R 53 &&
    clsContains R 0x3B1 && clsContains R 0x663) (exStd.denote Env.std) = true := by
  decide +kernel

/-! ### 2. the case data -/

/-- `hce`: the members of every case closure are code points -/
theorem closure_bound_std : ∀ a x, x ∈ Env.std.closure a → x < cpLimit := by
  intro a x hx
  rw [stdClosure_eq] at hx
  exact closureBound_of_check _ closureTable_bound a x hx

/-- REQUESTED STATEMENT (false): the real case data are adequate for `equal_case_blind` -/
def caseOK_std : Prop := CaseOK Env.std Env.std.lower

/-- counterexample: `a = 'i'`, `x = U+0130`.  `equal_case_blind` identifies them (simple lower-casing
    maps U+0130 to `i`), but U+0130 is not in the case closure of `i`, which is `{I}` -/
theorem caseOK_std_false : ¬ caseOK_std := by
  intro h
  have he : eqCB Env.std.lower 304 105 = true :=
    (C11.eqCB_iff_lower _ _ _).2 (by decide +kernel : Env.std.lower 304 = Env.std.lower 105)
  rcases h.1 105 304 he with h0 | h0
  · exact absurd h0 (by decide)
  · rw [C11b.dotted_I_entry.2.1] at h0
    simp at h0

/-- the closest true statement: on the alphabet without U+0130, whatever `equal_case_blind`
    identifies with `a` is `a` itself or in `a`'s closure.  (Added: both characters are not U+0130.) -/
theorem caseOK_std_on : CaseOKOn C11b.notDottedI Env.std Env.std.lower := by
  refine ⟨fun a x ha hx he => ?_, closure_bound_std⟩
  rw [C11.eqCB_iff_lower, C11b.stdLower_eq] at he
  rw [stdClosure_eq]
  exact caseOn_of_check _ _ _ caseTables_ok a x ha hx he

/-- U+0130 is the ONLY exception: the check fails on the full alphabet … -/
theorem caseTables_not_ok_all : caseOnFastB (fun _ => true) Gen.lowerTable Gen.closureTable = false := by
  decide +kernel

/-- `hidem`: simple lower-casing is idempotent -/
theorem lower_idem_std : ∀ x, Env.std.lower (Env.std.lower x) = Env.std.lower x := by
  intro x
  rw [C11b.stdLower_eq]
  exact tableLower_idem _ lowerTable_idem x

/-! ### 3. the first-set theorems of C08c for the real tables -/

/-- `C08.initialClass_canon` -/
theorem initialClass_canon_std (cb : Bool) (op : Op) (hc : clsCanon op) : Canon (initialClass Env.std cb op) :=
  initialClass_canon Env.std cb closure_bound_std op hc

/-- `C08.nullable_first_all_partial` -/
theorem nullable_first_all_partial_std (ctx : Ctx)
    (op : Op) (hc : clsCanon op) (hne : noEmptyAtoms op = true) (hns : noEmptySeq op = true)
    (p : Nat) (hp : p ≤ ctx.len) (h : OpR ctx op p p)
    (c : Nat) (hcl : c < cpLimit) : clsContains (initialClass Env.std ctx.caseBlind op) c = true :=
  nullable_first_all_partial Env.std ctx closure_bound_std op hc hne hns p hp h c hcl

/-- `C08.nullable_first_all_wf` -/
theorem nullable_first_all_wf_std (ctx : Ctx)
    (op : Op) (hc : clsCanon op) (hne : noEmptyAtoms op = true) (hwf : wfOp op = true)
    (p : Nat) (hp : p ≤ ctx.len) (h : OpR ctx op p p)
    (c : Nat) (hcl : c < cpLimit) : clsContains (initialClass Env.std ctx.caseBlind op) c = true :=
  nullable_first_all_wf Env.std ctx closure_bound_std op hc hne hwf p hp h c hcl

/-- the matcher context of the counterexamples: input "İ" (U+0130), flag i, the real lower-casing -/
def ctxDottedI : Ctx := ⟨[304], true, false, false, 1, Env.std.lower⟩

/-- under flag i the literal `i` matches "İ" -/
theorem i_matches_dottedI : OpR ctxDottedI (.atom [105]) 0 1 := by
  simp only [OpR]
  exact ⟨rfl, by decide, by decide +kernel⟩

/-- … and so does the literal `İ` -/
theorem dottedI_matches_dottedI : OpR ctxDottedI (.atom [304]) 0 1 := by
  simp only [OpR]
  exact ⟨rfl, by decide, by decide +kernel⟩

/-- STATEMENT OF `C08.initialClass_sound` FOR THE REAL TABLES, without a condition on the alphabet
    (false): a non-empty member of the language starts with a character of the first set -/
def initialClass_sound_std : Prop :=
  ∀ (ctx : Ctx), ctx.lower = Env.std.lower → (∀ c ∈ ctx.input, c < cpLimit) →
    ∀ (op : Op), clsCanon op → ∀ (p q : Nat), p ≤ ctx.len → OpR ctx op p q → p < q →
      ∃ c, ctx.input[p]? = some c ∧ clsContains (initialClass Env.std ctx.caseBlind op) c = true

/-- counterexample: flag i, the literal `i`, the input "İ": the literal matches, but the first set
    of `i` under flag i is `{I, i}` -/
theorem initialClass_sound_std_false : ¬ initialClass_sound_std := by
  intro h
  obtain ⟨c, h1, h2⟩ := h ctxDottedI rfl (by decide) (.atom [105]) (by simp only [clsCanon]; decide)
    0 1 (by decide) i_matches_dottedI (by decide)
  have hc : c = 304 := by simpa [ctxDottedI] using h1.symm
  subst hc
  exact absurd h2 (by decide +kernel)

/-- the closest true statement.  Added: under flag i, the input and the literals of the tree avoid
    U+0130 (without flag i nothing is added). -/
theorem initialClass_sound_std_partial (ctx : Ctx) (hl : ctx.lower = Env.std.lower)
    (hin : ∀ c ∈ ctx.input, c < cpLimit) (op : Op) (hc : clsCanon op)
    (hdi : ctx.caseBlind = true → (∀ c ∈ ctx.input, c ≠ 304) ∧ atomsOverB C11b.notDottedI op = true)
    (p q : Nat) (hp : p ≤ ctx.len) (h : OpR ctx op p q) (hpq : p < q) :
    ∃ c, ctx.input[p]? = some c ∧ clsContains (initialClass Env.std ctx.caseBlind op) c = true := by
  cases hcb : ctx.caseBlind with
  | false =>
    have := initialClass_sound Env.std ctx (fun hb => by rw [hcb] at hb; cases hb) closure_bound_std hin op hc
      p q hp h hpq
    rwa [hcb] at this
  | true =>
    have := sound_op_on C11b.notDottedI Env.std ctx (fun _ => hl ▸ caseOK_std_on) closure_bound_std hin
      (fun c hm => by simpa [C11b.notDottedI] using (hdi hcb).1 c hm) op hc (hdi hcb).2 p q hp h hpq
    rwa [hcb] at this

/-- non-vacuity: `Hi[A-Za-z]` under flag i meets every hypothesis, for every input without U+0130: a
    non-empty member of its language starts with `H` or `h` -/
example (input : List Nat) (hin : ∀ c ∈ input, c < cpLimit) (hdi : ∀ c ∈ input, c ≠ 304) (p q : Nat)
    (hp : p ≤ input.length)
    (h : OpR ⟨input, true, false, false, 1, Env.std.lower⟩ (.seq [.atom [72, 105], .cls C11b.letters]) p q)
    (hpq : p < q) : input[p]? = some 72 ∨ input[p]? = some 104 := by
  obtain ⟨c, h1, h2⟩ := initialClass_sound_std_partial ⟨input, true, false, false, 1, Env.std.lower⟩ rfl hin
    (.seq [.atom [72, 105], .cls C11b.letters])
    (by simp only [clsCanon, clsCanonL, and_true]; exact ⟨by decide, canonB_sound _ (by decide)⟩)
    (fun _ => ⟨hdi, by decide⟩) p q hp h hpq
  have hs : initialClass Env.std true (.seq [.atom [72, 105], .cls C11b.letters]) = [(72, 73), (104, 105)] := by
    decide +kernel
  rw [show (⟨input, true, false, false, 1, Env.std.lower⟩ : Ctx).caseBlind = true from rfl, hs] at h2
  simp only [clsContains, Bool.or_false, Bool.or_eq_true, Bool.and_eq_true, decide_eq_true_eq] at h2
  rcases h2 with h2 | h2
  · left; rw [h1]; congr 1; omega
  · right; rw [h1]; congr 1; omega

/-- STATEMENT OF `C08.disjoint_maxmunch_wf` FOR THE REAL TABLES, without a condition on the
    alphabet (false): with disjoint first sets every match of `X{mn,mx} · next · rest` takes the
    maximal run of X -/
def disjoint_maxmunch_std : Prop :=
  ∀ (ctx : Ctx), ctx.lower = Env.std.lower → (∀ c ∈ ctx.input, c < cpLimit) →
    (∀ c ∈ ctx.input, isSurrogate c = false) →
    ∀ (x next : Op), isAtomOrClass x = true → clsCanon x → clsCanon next →
    noEmptyAtoms x = true → noEmptyAtoms next = true → wfOp next = true →
    isDisjoint (initialClass Env.std ctx.caseBlind x) (initialClass Env.std ctx.caseBlind next) = true →
    ∀ (k p m q : Nat), p ≤ ctx.len →
    IterR (fun a b => OpR ctx x a b) k p m → OpR ctx next m q → ∀ (mx : Nat), k ≤ mx →
    k = mx ∨ ¬ ∃ m', OpR ctx x m m'

/-- counterexample: flag i, `X` = the literal `İ`, `next` = the literal `i`, the input "İ".  The first
    sets `{İ}` and `{I, i}` are disjoint, zero iterations of `X` followed by `next` is a match
    (`i` matches "İ"), but `X` matches at that position, too -/
theorem disjoint_maxmunch_std_false : ¬ disjoint_maxmunch_std := by
  intro h
  have := h ctxDottedI rfl (by decide) (by decide) (.atom [304]) (.atom [105]) (by decide)
    (by simp only [clsCanon]; decide) (by simp only [clsCanon]; decide) (by decide) (by decide) (by decide)
    (by decide +kernel) 0 0 0 1 (by decide) (IterR.zero 0) i_matches_dottedI 1 (by decide)
  rcases this with h0 | h1
  · cases h0
  · exact h1 ⟨1, dottedI_matches_dottedI⟩

/-- the closest true statement.  Added: under flag i, the input and the literals of `X` and `next`
    avoid U+0130 (without flag i nothing is added). -/
theorem disjoint_maxmunch_std_partial (ctx : Ctx) (hl : ctx.lower = Env.std.lower)
    (hin : ∀ c ∈ ctx.input, c < cpLimit) (hsc : ∀ c ∈ ctx.input, isSurrogate c = false)
    (x next : Op) (hx : isAtomOrClass x = true) (hcx : clsCanon x) (hcn : clsCanon next)
    (hnx : noEmptyAtoms x = true) (hnn : noEmptyAtoms next = true) (hwf : wfOp next = true)
    (hdi : ctx.caseBlind = true → (∀ c ∈ ctx.input, c ≠ 304) ∧
      atomsOverB C11b.notDottedI x = true ∧ atomsOverB C11b.notDottedI next = true)
    (hdis : isDisjoint (initialClass Env.std ctx.caseBlind x) (initialClass Env.std ctx.caseBlind next) = true)
    (k p m q : Nat) (hp : p ≤ ctx.len)
    (hiter : IterR (fun a b => OpR ctx x a b) k p m) (hnext : OpR ctx next m q) (mx : Nat) (hk : k ≤ mx) :
    k = mx ∨ ¬ ∃ m', OpR ctx x m m' := by
  cases hcb : ctx.caseBlind with
  | false =>
    exact disjoint_maxmunch_wf Env.std ctx (fun hb => by rw [hcb] at hb; cases hb) closure_bound_std hin hsc
      x next hx hcx hcn hnx hnn hwf hdis k p m q hp hiter hnext mx hk
  | true =>
    exact .inr (maxmunch_on C11b.notDottedI Env.std ctx (fun _ => hl ▸ caseOK_std_on) closure_bound_std hin
      (fun c hm => by simpa [C11b.notDottedI] using (hdi hcb).1 c hm) hsc x next hx hcx hcn
      (hdi hcb).2.1 (hdi hcb).2.2 hnx hnn (noEmptySeq_of_wfOp next hwf) hdis k p m q hp hiter hnext)

/-- non-vacuity: the class and the literal of `[a-k]*x` compiled under flag i (`C11b.compiledEx`: the
    class is `[A-Ka-k]` plus U+212A) meet every hypothesis, for every input of scalar values without
    U+0130: the run of the class before `x` is maximal -/
example (input : List Nat) (hin : ∀ c ∈ input, c < cpLimit) (hsc : ∀ c ∈ input, isSurrogate c = false)
    (hdi : ∀ c ∈ input, c ≠ 304) (k p m q : Nat) (hp : p ≤ input.length)
    (hiter : IterR (fun a b => OpR ⟨input, true, false, false, 1, Env.std.lower⟩
      (.cls [(65, 76), (97, 108), (8490, 8491)]) a b) k p m)
    (hnext : OpR ⟨input, true, false, false, 1, Env.std.lower⟩ (.atom [120]) m q) :
    ¬ ∃ m', OpR ⟨input, true, false, false, 1, Env.std.lower⟩ (.cls [(65, 76), (97, 108), (8490, 8491)]) m m' := by
  have hd : isDisjoint (initialClass Env.std true (.cls [(65, 76), (97, 108), (8490, 8491)]))
      (initialClass Env.std true (.atom [120])) = true := by decide +kernel
  have := disjoint_maxmunch_std_partial ⟨input, true, false, false, 1, Env.std.lower⟩ rfl hin hsc
    (.cls [(65, 76), (97, 108), (8490, 8491)]) (.atom [120]) (by decide)
    (by simp only [clsCanon]; exact canonB_sound _ (by decide)) (by simp only [clsCanon]; decide)
    (by decide) (by decide) (by decide) (fun _ => ⟨hdi, by decide, by decide⟩) hd
    k p m q hp hiter hnext (k + 1) (Nat.le_succ k)
  rcases this with h0 | h0
  · omega
  · exact h0

/-- a compiled program under flag i whose literals avoid U+0130 (the decidable hypothesis, on the
    output of the model's compiler): `^[a-k]+x$` -/
example : (match C11b.compiledEx with
    | .ok pr => atomsOverB C11b.notDottedI pr.op
    | _ => false) = true := by decide +kernel

/-! ### ENGINE FINDING: the non-backtracking rewrite loses matches at U+0130 under flag i

  `Sequence::optimize` turns `X*` into a repeat that never gives characters back when
  `no_ambiguity` judges the first sets of `X` and of the following term disjoint.  Under flag i the
  first set of a literal is "the character and its case closure" (`CaseMapCloser`), but the matcher
  compares by simple lower-casing (`equal_case_blind`), and the two disagree at U+0130
  (`caseOK_std_false`).  So the first sets of `i` and of anything containing "İ" but not `i`/`I` are
  judged disjoint although both match "İ" (resp. `i`), the repeat is made non-backtracking, and the
  match that needs the repeat to give the character back is lost.  Kernel-checked on the model of
  the real compiler and matcher (`compileCore Env.std`, optimised vs. un-optimised, then
  `Prog.isMatch`); to replay on the Rust code: flags "i", `Regex::is_match`:

      pattern    input   un-optimised   optimised
      `İ*i`      "İ"     true           FALSE        (İ = U+0130)
      `i*İ`      "i"     true           FALSE
      `[^a-z]*i` "İ"     true           FALSE        (pattern is plain ASCII)
      `[^i]*i`   "İ"     true           FALSE        (pattern is plain ASCII)

  Replayed on the harness binary of the real crate (`rxh worker`, modes `noopt` / `opt`, api
  `is_match`): the four rows answer T / F exactly as above, and `dump` of the optimised `İ*i` shows
  `(seq (unamb (atom 304) 0 18446744073709551615) (atom 105) (end))`.
-/

/-- the answer of the compiled program (`optimizeOn`: with / without the optimiser) under flag i -/
def answer (pat input : List Nat) (optimizeOn : Bool) : Out Bool :=
  match compileCore Env.std { caseBlind := true } pat optimizeOn with
  | .ok pr => pr.isMatch Env.std.lower input
  | _ => .diverge

/-- `İ*i` on "İ" -/
theorem dotted_I_unamb_finding :
    answer [304, 42, 105] [304] false = .ok true ∧ answer [304, 42, 105] [304] true = .ok false := by
  decide +kernel

/-- `i*İ` on "i" -/
theorem dotted_I_unamb_finding_2 :
    answer [105, 42, 304] [105] false = .ok true ∧ answer [105, 42, 304] [105] true = .ok false := by
  decide +kernel

/-- `[^a-z]*i` on "İ": the pattern is plain ASCII -/
theorem dotted_I_unamb_finding_3 :
    answer [91, 94, 97, 45, 122, 93, 42, 105] [304] false = .ok true ∧
    answer [91, 94, 97, 45, 122, 93, 42, 105] [304] true = .ok false := by
  decide +kernel

/-- `[^i]*i` on "İ": the pattern is plain ASCII -/
theorem dotted_I_unamb_finding_4 :
    answer [91, 94, 105, 93, 42, 105] [304] false = .ok true ∧
    answer [91, 94, 105, 93, 42, 105] [304] true = .ok false := by
  decide +kernel

/-- what the optimiser did: the repeat became an `unamb` (UnambiguousRepeat) node -/
theorem dotted_I_unamb_program :
    (match compileCore Env.std { caseBlind := true } [304, 42, 105] true with
     | .ok pr =>
       (match pr.op with
        | .seq [.unamb (.atom a) 0 mx, .atom b, .endProgram] => a == [304] && mx == usizeMax && b == [105]
        | _ => false)
     | _ => false) = true := by decide +kernel

/-- control: when neither the pattern nor the input contains U+0130 the two programs agree, e.g.
    `[^i]*i` on "xi" and on "I"; and so they do for `x*i` on "İ" (no rewrite: `x` does not match "İ") -/
example : answer [91, 94, 105, 93, 42, 105] [120, 105] false = .ok true ∧
    answer [91, 94, 105, 93, 42, 105] [120, 105] true = .ok true ∧
    answer [91, 94, 105, 93, 42, 105] [73] false = .ok true ∧
    answer [91, 94, 105, 93, 42, 105] [73] true = .ok true ∧
    answer [120, 42, 105] [304] false = .ok true ∧ answer [120, 42, 105] [304] true = .ok true := by
  decide +kernel

/-! ### 4. the other theorems that carry a hypothesis on `lower` -/

/-- `C11.eqCB_lower_left` for the real table: a character and its simple lower-case counterpart
    are interchangeable -/
theorem eqCB_lower_left_std (a b : Nat) : eqCB Env.std.lower (Env.std.lower a) b = eqCB Env.std.lower a b :=
  C11.eqCB_lower_left Env.std.lower lower_idem_std a b

/-- `C11b.CaseEquivInputs.map_lower` for the real table: lower-casing every character gives a
    case-equivalent input -/
theorem caseEquiv_map_lower_std (xs : List Nat) :
    C11b.CaseEquivInputs Env.std.lower xs (xs.map Env.std.lower) :=
  C11b.CaseEquivInputs.map_lower Env.std.lower lower_idem_std xs

/-- `C11b.language_lowercased_input` for the real table (both table hypotheses discharged; the
    hypothesis on the classes stays: it is about the tree, `C11b.allClsClosed_of_check` decides it) -/
theorem language_lowercased_input_std (ctx : Ctx) (hl : ctx.lower = Env.std.lower) (hcb : ctx.caseBlind = true)
    (op : Op) (hc : C11b.allClsClosed ctx.lower op) :
    OpR ctx op = OpR { ctx with input := ctx.input.map ctx.lower } op :=
  C11b.language_lowercased_input ctx hcb (hl ▸ lower_idem_std) (hl ▸ C11b.newlineCaseless_std) op hc

/-- `C11b.language_case_invariant_on` for the real table on the alphabet without U+0130 (the table
    hypothesis `NewlineCaseless` discharged) -/
theorem language_case_invariant_std (ctx : Ctx) (hl : ctx.lower = Env.std.lower) (ys : List Nat)
    (hcb : ctx.caseBlind = true) (hin : C11b.CaseEquivInputs ctx.lower ctx.input ys)
    (hA : C11b.Over C11b.notDottedI ctx.input) (hA' : C11b.Over C11b.notDottedI ys)
    (op : Op) (hc : C11b.allClsClosedOn C11b.notDottedI ctx.lower op) :
    OpR ctx op = OpR { ctx with input := ys } op :=
  C11b.language_case_invariant_on C11b.notDottedI ctx ys hcb hin hA hA' (hl ▸ C11b.newlineCaseless_std) op hc

/-- non-vacuity of the last two: `^[a-h]+x$` compiled under flags i, m (`C11b.compiledEx2`, its class
    is closed on the full alphabet) has the same language on an input and on its lower-casing -/
example (pr : Prog) (hpr : C11b.compiledEx2 = .ok pr) (xs : List Nat) :
    OpR (pr.ctx Env.std.lower xs) pr.op = OpR (pr.ctx Env.std.lower (xs.map Env.std.lower)) pr.op := by
  have h2 := C11b.compiledEx2_closed
  rw [hpr] at h2
  simp only [Bool.and_eq_true] at h2
  exact language_lowercased_input_std (pr.ctx Env.std.lower xs) rfl h2.2 pr.op
    (C11b.allClsClosed_of_check pr.op h2.1)

end Rx.EnvStd
