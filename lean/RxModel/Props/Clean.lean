/-
  Props/Clean — on the clean fragment the engine is an exact, priority-ordered enumerator.

  Fragment (`cleanOp`, Spec/Enum): anchors, atoms, classes, captures, alternation, sequence and the
  two fixed-length-body quantifiers `gfixed` (greedy) / `rfixed` (reluctant).  Excluded: `backref`,
  the general repeat `rep`, `unamb`.  Nothing else had to be excluded: the bodies of `gfixed` /
  `rfixed` may contain captures, alternations, nested fixed quantifiers.

  Proved here (over the model E; `wfOp` = what the compiler builds; start position inside the input):
    a. `enum_iff_OpR`   the pure enumeration `enum` lists exactly the compositional language `OpR`
    b. `sem_seq_enum`   the iterator `sem ctx op p st` yields exactly the list `enum ctx op p` — the
                        same positions, the same multiplicities, the same order — and then ends,
                        whatever states its consumer hands back (`I = anySt = fun _ => True`, the
                        weakest possible consumer assumption: the positions an iterator of this
                        fragment yields do not depend on the matcher state at all).  Soundness,
                        completeness, priority order and termination in one statement.
    c. `matchAt_iff`    `match_at(i)` is a correct and complete test for "some match starts at `i`"
       `matchAt_end`    … and the end it records for group 0 is the FIRST element of the priority
                        order: the ordered-choice / greedy-longest / reluctant-shortest match.
    d. examples         `(a|ab)(c|bcd)(d*)` as the model's compiler builds it, on "abcd".
    e. (extra) `matchesNaive_iff`, `matchesNaive_which`: the search with every shortcut off finds a
                        match iff the language has a member starting at or after `i`, and then reports
                        the LEFTMOST start and, from it, the FIRST end of the priority order.

  Remark (multiplicities).  `enum` for `gfixed` / `rfixed` continues an iteration from the body's
  first end only, so each end of the quantifier is listed once, although a body such as `(a|a)` has
  two derivations of the same end.  A backtracking matcher that re-enters the body's alternatives
  would list such ends repeatedly (`(a|a){0,2}` on "aa": 2,2,1,2,2,1,0 instead of 2,1,0).  Since the
  body has a fixed length, all its ends from a given start coincide, and on this fragment nothing to
  the right can tell the derivations apart (no back-references): the order of first occurrences, the
  set of ends, and therefore every answer of `match_at`, are the same.  The engine (and `enum`)
  simply do not repeat.  See the examples at the end.
-/
import RxModel.Spec.Enum
import RxModel.Proofs.EnumLemmas
import RxModel.Proofs.InvLemmas
import RxModel.Model.Compile
import RxModel.Props.C02
import RxModel.Props.C05
import RxModel.Props.C06
namespace Rx.Clean
open Rx

/-! ### a. the enumeration is the language -/

/-- `enum` lists exactly the members of the compositional language -/
theorem enum_iff_OpR (ctx : Ctx) (op : Op) (hc : cleanOp op = true) (hwf : wfOp op = true)
    (p q : Nat) (hp : p ≤ ctx.len) : q ∈ enum ctx op p ↔ OpR ctx op p q :=
  ⟨fun h => enum_sound ctx op hc hwf hp h, fun h => enum_complete_op ctx op hc hwf p q hp h⟩

/-! ### b. the iterator yields exactly the enumeration, in order

  `Step.Seq I s l` (Spec/Enum): `s` yields exactly `l` and then ends, whatever state satisfying `I`
  the consumer hands back at each resumption; a diverging stream satisfies no `Step.Seq`. -/

/-- soundness + completeness + order + termination, under every consumer -/
theorem sem_seq_enum (ctx : Ctx) (op : Op) (hc : cleanOp op = true) (hwf : wfOp op = true)
    (p : Nat) (hp : p ≤ ctx.len) (st : St) (_ : anySt st) :
    Step.Seq anySt (sem ctx op p st) (enum ctx op p) :=
  sem_ex_op ctx op hc hwf p hp st

/-- … a fortiori under the consumers that respect any given invariant `I` -/
theorem sem_seq_enum_of (I : St → Prop) (ctx : Ctx) (op : Op) (hc : cleanOp op = true) (hwf : wfOp op = true)
    (p : Nat) (hp : p ≤ ctx.len) (st : St) : Step.Seq I (sem ctx op p st) (enum ctx op p) :=
  (sem_ex_op ctx op hc hwf p hp st).weaken

/-- the list is determined by the iterator: `Step.Seq anySt s` holds of at most one list -/
theorem seq_unique {s : Step} {l l' : List Nat} (h : Step.Seq anySt s l) (h' : Step.Seq anySt s l') :
    l = l' :=
  Step.Ex.unique h h'

/-- in particular an iterator of the fragment never diverges -/
theorem sem_noDiv (ctx : Ctx) (op : Op) (hc : cleanOp op = true) (hwf : wfOp op = true)
    (p : Nat) (hp : p ≤ ctx.len) (st : St) : (sem ctx op p st).NoDiv := by
  have h := sem_ex_op ctx op hc hwf p hp st
  generalize sem ctx op p st = s at h
  generalize enum ctx op p = l at h
  induction h with
  | nil st => exact .nil st
  | cons n st r l _ ih => exact .cons n st r (fun st' => ih st' trivial)

/-- the first pull of a fresh iterator returns the head of the enumeration -/
theorem first1_enum (ctx : Ctx) (op : Op) (hc : cleanOp op = true) (hwf : wfOp op = true)
    (p : Nat) (hp : p ≤ ctx.len) (st : St) :
    (first1 (sem ctx op p st)).1.map (·.1) = (enum ctx op p).head? := by
  have h := sem_ex_op ctx op hc hwf p hp st
  cases hl : enum ctx op p with
  | nil =>
    rw [hl] at h
    obtain ⟨st', hf⟩ := h.first1_nil
    rw [hf]; rfl
  | cons n l =>
    rw [hl] at h
    obtain ⟨st', hf⟩ := h.first1_cons
    rw [hf]; rfl

/-! ### c. `match_at` -/

/-- what `match_at` does with an iterator that yields exactly `l` -/
theorem matchAt_of_ex (ctx : Ctx) (op : Op) (i : Nat) (l : List Nat)
    (h : ∀ st, Step.Ex (sem ctx op i st) l) (st : St) :
    ((matchAt ctx op i st).1 = true ↔ l ≠ []) ∧
    ((matchAt ctx op i st).1 = true → getParenEnd (matchAt ctx op i st).2 0 = l.head?) := by
  unfold matchAt
  simp only
  split
  · rename_i n st' r heq
    have hex : Step.Ex (Step.cons n st' r) l := by rw [← heq]; exact h _
    cases hex with
    | cons _ _ _ l' _ =>
      refine ⟨⟨fun _ => List.cons_ne_nil _ _, fun _ => rfl⟩, fun _ => ?_⟩
      simp only [getParenEnd, Cap.setEnd, List.head?_cons]
      exact getO_setAt_zero _ _
  · rename_i st' heq
    have hex : Step.Ex (Step.nil st') l := by rw [← heq]; exact h _
    cases hex with
    | nil =>
      refine ⟨⟨fun hf => ?_, fun hf => absurd rfl hf⟩, fun hf => ?_⟩ <;> simp at hf
  · rename_i heq
    have hex : Step.Ex Step.diverge l := by rw [← heq]; exact h _
    cases hex

/-- `match_at(i)` succeeds iff some member of the language starts at `i` — from every state -/
theorem matchAt_iff (ctx : Ctx) (op : Op) (hc : cleanOp op = true) (hwf : wfOp op = true)
    (i : Nat) (hi : i ≤ ctx.len) (st : St) :
    (matchAt ctx op i st).1 = true ↔ ∃ j, OpR ctx op i j := by
  rw [(matchAt_of_ex ctx op i _ (fun st' => sem_ex_op ctx op hc hwf i hi st') st).1]
  constructor
  · intro hne
    cases hl : enum ctx op i with
    | nil => exact absurd hl hne
    | cons j t =>
      exact ⟨j, (enum_iff_OpR ctx op hc hwf i j hi).1 (by rw [hl]; exact List.mem_cons_self)⟩
  · intro ⟨j, hj⟩ hnil
    have := (enum_iff_OpR ctx op hc hwf i j hi).2 hj
    rw [hnil] at this
    cases this

/-- when `match_at(i)` succeeds, the end it records for group 0 is the first element of the priority
    order -/
theorem matchAt_end (ctx : Ctx) (op : Op) (hc : cleanOp op = true) (hwf : wfOp op = true)
    (i : Nat) (hi : i ≤ ctx.len) (st : St) (h : (matchAt ctx op i st).1 = true) :
    getParenEnd (matchAt ctx op i st).2 0 = (enum ctx op i).head? :=
  (matchAt_of_ex ctx op i _ (fun st' => sem_ex_op ctx op hc hwf i hi st') st).2 h

/-- … and `match_at(i)` fails cleanly (no panic marker is added, no divergence) otherwise:
    the answer `false` means the language has no member starting at `i` -/
theorem matchAt_false_iff (ctx : Ctx) (op : Op) (hc : cleanOp op = true) (hwf : wfOp op = true)
    (i : Nat) (hi : i ≤ ctx.len) (st : St) :
    (matchAt ctx op i st).1 = false ↔ ¬ ∃ j, OpR ctx op i j := by
  rw [← matchAt_iff ctx op hc hwf i hi st]
  cases (matchAt ctx op i st).1 <;> simp

/-! ### e. the search with every shortcut off: leftmost start, first end of the priority order -/

mutual
theorem clean_noBackref : (op : Op) → cleanOp op = true → hasBackref op = false
  | .bol, _ | .eol, _ | .nothing, _ | .endProgram, _ | .atom _, _ | .cls _, _ => rfl
  | .backref _, h | .rep _ _ _ _ _, h | .unamb _ _ _, h => by simp [cleanOp] at h
  | .capture _ c, h => by simp only [cleanOp] at h; simp only [hasBackref]; exact clean_noBackref c h
  | .choice bs, h => by simp only [cleanOp] at h; simp only [hasBackref]; exact clean_noBackrefL bs h
  | .seq ops, h => by simp only [cleanOp] at h; simp only [hasBackref]; exact clean_noBackrefL ops h
  | .gfixed c _ _ _, h => by simp only [cleanOp] at h; simp only [hasBackref]; exact clean_noBackref c h
  | .rfixed c _ _ _, h => by simp only [cleanOp] at h; simp only [hasBackref]; exact clean_noBackref c h
termination_by structural op => op
theorem clean_noBackrefL : (ops : List Op) → cleanOps ops = true → hasBackrefL ops = false
  | [], _ => rfl
  | o :: os, h => by
    simp only [cleanOps, Bool.and_eq_true] at h
    simp only [hasBackrefL, Bool.or_eq_false_iff]
    exact ⟨clean_noBackref o h.1, clean_noBackrefL os h.2⟩
termination_by structural ops => ops
end

mutual
theorem clean_smallMin (n : Nat) : (op : Op) → cleanOp op = true → C06.smallMin n op = true
  | .bol, _ | .eol, _ | .nothing, _ | .endProgram, _ | .atom _, _ | .cls _, _ => rfl
  | .backref _, h | .rep _ _ _ _ _, h | .unamb _ _ _, h => by simp [cleanOp] at h
  | .capture _ c, h => by simp only [cleanOp] at h; simp only [C06.smallMin]; exact clean_smallMin n c h
  | .choice bs, h => by simp only [cleanOp] at h; simp only [C06.smallMin]; exact clean_smallMinL n bs h
  | .seq ops, h => by simp only [cleanOp] at h; simp only [C06.smallMin]; exact clean_smallMinL n ops h
  | .gfixed c _ _ _, h => by simp only [cleanOp] at h; simp only [C06.smallMin]; exact clean_smallMin n c h
  | .rfixed c _ _ _, h => by simp only [cleanOp] at h; simp only [C06.smallMin]; exact clean_smallMin n c h
termination_by structural op => op
theorem clean_smallMinL (n : Nat) : (ops : List Op) → cleanOps ops = true → C06.smallMinL n ops = true
  | [], _ => rfl
  | o :: os, h => by
    simp only [cleanOps, Bool.and_eq_true] at h
    simp only [C06.smallMinL, Bool.and_eq_true]
    exact ⟨clean_smallMin n o h.1, clean_smallMinL n os h.2⟩
termination_by structural ops => ops
end

/-- `match_at` leaves the panic marker clear (no panic site is reachable, no fuel runs out) -/
theorem matchAt_panic_none (ctx : Ctx) (op : Op) (hc : cleanOp op = true) (hwf : wfOp op = true)
    (hb : ctx.hasBackrefs = false) (j : Nat) (hj : j ≤ ctx.len) (st : St) (hst : st.panic = none) :
    (matchAt ctx op j st).2.panic = none := by
  have h1 := C05.matchAt_no_panic ctx hb op (clean_noBackref op hc) j st (.inl hst)
  have h2 := C06.matchAt_no_diverge ctx op hwf (clean_smallMin _ op hc) j hj st
    (by unfold C06.NoDivMark; rw [hst]; exact fun h => by cases h)
  rcases h1 with h | h
  · exact h
  · exact absurd h h2

/-- trying candidates in order: succeeds iff the language has a member starting at one of them -/
theorem tryCands_iff (ctx : Ctx) (op : Op) (hc : cleanOp op = true) (hwf : wfOp op = true)
    (hb : ctx.hasBackrefs = false) : ∀ (cands : List Nat), (∀ j, j ∈ cands → j ≤ ctx.len) →
    ∀ st, st.panic = none →
      ((tryCands ctx op cands st).1 = true ↔ ∃ j, j ∈ cands ∧ ∃ b, OpR ctx op j b) := by
  intro cands
  induction cands with
  | nil => intro _ st _; simp [tryCands]
  | cons j js ih =>
    intro hle st hst
    have hj : j ≤ ctx.len := hle j List.mem_cons_self
    have hiff := matchAt_iff ctx op hc hwf j hj st
    have hpn := matchAt_panic_none ctx op hc hwf hb j hj st hst
    unfold tryCands
    split
    · rename_i st1 heq
      rw [heq] at hiff
      exact ⟨fun _ => ⟨j, List.mem_cons_self, hiff.1 rfl⟩, fun _ => rfl⟩
    · rename_i st1 heq
      rw [heq] at hiff hpn
      simp only at hpn
      rw [hpn]
      simp only [Option.isSome_none, Bool.false_eq_true, if_false]
      rw [ih (fun j' hj' => hle j' (List.mem_cons_of_mem _ hj')) st1 hpn]
      constructor
      · intro ⟨j', hj', hb'⟩
        exact ⟨j', List.mem_cons_of_mem _ hj', hb'⟩
      · intro ⟨j', hj', hb'⟩
        rcases List.mem_cons.1 hj' with rfl | hj'
        · have := hiff.2 hb'
          simp at this
        · exact ⟨j', hj', hb'⟩

/-- the search with every shortcut off succeeds iff the language has a member starting at or after
    `i` (inside the input) -/
theorem matchesNaive_iff (ctx : Ctx) (op : Op) (hc : cleanOp op = true) (hwf : wfOp op = true)
    (hb : ctx.hasBackrefs = false) (i : Nat) (st : St) (hst : st.panic = none) :
    (matchesNaive ctx op i st).1 = true ↔ ∃ a b, i ≤ a ∧ a ≤ ctx.len ∧ OpR ctx op a b := by
  unfold matchesNaive
  rw [tryCands_iff ctx op hc hwf hb _ (fun j hj => by have := mem_rangeFrom hj; omega) { st with cap := {} } hst]
  constructor
  · intro ⟨j, hj, b, hjb⟩
    have := mem_rangeFrom hj
    exact ⟨j, b, this.1, by omega, hjb⟩
  · intro ⟨a, b, h1, h2, h3⟩
    refine ⟨a, ?_, b, h3⟩
    simp only [rangeFrom, List.mem_filter, List.mem_range, decide_eq_true_eq]
    omega

/-- … and when it succeeds it reports the LEFTMOST start `a ≥ i` from which the language has a
    member, and as end the FIRST element of the priority order from `a` -/
theorem matchesNaive_which (ctx : Ctx) (op : Op) (hc : cleanOp op = true) (hwf : wfOp op = true)
    (hcp : C02.capsPos op = true) (hb : ctx.hasBackrefs = false) (i : Nat) (st st' : St)
    (hst : st.panic = none) (h : matchesNaive ctx op i st = (true, st')) :
    ∃ a, i ≤ a ∧ a ≤ ctx.len ∧ (∀ a', i ≤ a' → a' < a → ¬ ∃ b, OpR ctx op a' b) ∧
      getParenStart st' 0 = some a ∧ getParenEnd st' 0 = (enum ctx op a).head? := by
  obtain ⟨a, sta, h1, h2, h3, h4⟩ := C02.matchesNaive_leftmost ctx op i st st' h
  refine ⟨a, h1, h2, ?_, (C02.matchAt_span ctx op hwf hcp a h2 sta st' h3).1, ?_⟩
  · intro a' ha1 ha2 hex
    have hiff := tryCands_iff ctx op hc hwf hb (rangeFrom i a)
      (fun j hj => by have := mem_rangeFrom hj; omega) { st with cap := {} } hst
    rw [h4] at hiff
    have : a' ∈ rangeFrom i a := by
      simp only [rangeFrom, List.mem_filter, List.mem_range, decide_eq_true_eq]; omega
    have := hiff.2 ⟨a', this, hex⟩
    simp at this
  · have := matchAt_end ctx op hc hwf a h2 sta (by rw [h3])
    rw [h3] at this
    exact this

/-! ### d. non-vacuity -/
section examples

private def env0 : Env :=
  { lower := id, closure := fun _ => [], category := fun _ => none, block := fun _ => none,
    digit := [], word := [], nameStart := [], nameChar := [] }

/-- `(a|ab)(c|bcd)(d*)` -/
private def pat : List Nat := [40, 97, 124, 97, 98, 41, 40, 99, 124, 98, 99, 100, 41, 40, 100, 42, 41]

/-- the model's compiler applied to the pattern text -/
private def compiled : Out Prog := compileCore env0 {} pat true

/-- the tree it builds -/
private def tree : Op :=
  .seq [.capture 1 (.choice [.atom [97], .atom [97, 98]]),
        .capture 2 (.choice [.atom [99], .atom [98, 99, 100]]),
        .capture 3 (.gfixed (.atom [100]) 0 usizeMax 1),
        .endProgram]

private def ctxOf (input : List Nat) : Ctx :=
  { input := input, caseBlind := false, multiLine := false, hasBackrefs := false, maxParens := 4, lower := id }

/-- the compiled program is in the fragment and well-formed -/
example : (match compiled with | .ok pr => cleanOp pr.op && wfOp pr.op | _ => false) = true := by
  decide +kernel
example : cleanOp tree = true ∧ wfOp tree = true ∧ C02.capsPos tree = true := by decide

/-- "abcd": `a`·`bcd`·`` ends at 4; then `ab`·`c`·`d` at 4, `ab`·`c`·`` at 3 — in this order -/
example : enum (ctxOf [97, 98, 99, 100]) tree 0 = [4, 4, 3] := by decide +kernel
example : (match compiled with | .ok pr => enum (pr.ctx id [97, 98, 99, 100]) pr.op 0 | _ => []) = [4, 4, 3] := by
  decide +kernel
/-- "abcdd": the greedy `d*` prefers the longer end -/
example : enum (ctxOf [97, 98, 99, 100, 100]) tree 0 = [5, 4, 5, 4, 3] := by decide +kernel
/-- the reluctant `d*?` prefers the shorter one -/
example : enum (ctxOf [97, 98, 99, 100, 100])
    (.seq [.capture 1 (.choice [.atom [97], .atom [97, 98]]),
           .capture 2 (.choice [.atom [99], .atom [98, 99, 100]]),
           .capture 3 (.rfixed (.atom [100]) 0 usizeMax 1), .endProgram]) 0 = [4, 5, 3, 4, 5] := by
  decide +kernel
/-- the engine on the same input: `match_at(0)` answers `true` and records the first of these -/
example : (matchAt (ctxOf [97, 98, 99, 100, 100]) tree 0 {}).1 = true ∧
    getParenEnd (matchAt (ctxOf [97, 98, 99, 100, 100]) tree 0 {}).2 0 = some 5 := by decide +kernel
/-- no match starts at 1 -/
example : enum (ctxOf [97, 98, 99, 100]) tree 1 = [] ∧ (matchAt (ctxOf [97, 98, 99, 100]) tree 1 {}).1 = false := by
  decide +kernel

/-- multiplicities: the body `(a|a)` has two derivations of its end … -/
example : enum (ctxOf [97, 97]) (.choice [.atom [97], .atom [97]]) 0 = [1, 1] := by decide +kernel
/-- … but the quantifier `(a|a){0,2}` lists each of its ends once (and so does the engine, by
    `sem_seq_enum`) -/
example : enum (ctxOf [97, 97]) (.gfixed (.choice [.atom [97], .atom [97]]) 0 2 1) 0 = [2, 1, 0] := by
  decide +kernel
example : enum (ctxOf [97, 97]) (.rfixed (.choice [.atom [97], .atom [97]]) 0 2 1) 0 = [0, 1, 2] := by
  decide +kernel

end examples

end Rx.Clean
