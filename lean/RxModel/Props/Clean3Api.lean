/-
  Props/Clean3Api — the fragments with the GENERAL greedy repeat (Spec/Enum3, Props/Clean3, Props/Clean3Memo)
  from the pattern text: `Regex::new`.

  The decidable hypotheses are stated on the compiled program's own tree `r.prog.op` (the numbered tree):
      `cleanProg3 env fl.caseBlind fl.multiLine r.prog.op`, `clsCanonB r.prog.op`      (`min ≥ 1` repeats)
      `Memo.cleanProg3m env fl.caseBlind fl.multiLine r.prog.op`, `clsCanonB r.prog.op` (root-level `min = 0`)
  plus `Api.NoSat`, `r.prog.hasBackrefs = false`, "not the empty pattern under flag q", `InputOKFor`.

  1  `api_clean3_isMatch_iff`, `api_clean3_match_is_leftmost_first` (end = `(enum3 …).head?`),
     `api_clean3_opt_eq_noopt`; `…_std_cs` over `Env.std`, case-sensitive (only `ScalarInput input` left)
  2  scan level: `clean3_no_zero_length`, `clean3_goodFind`, `clean3_find_clean`, `clean3_tokenize_spec`,
     `api_clean3_goodFind` (+ `_std_cs`): a regex of the fragment that passes the nullability gate drives
     replace / tokenize / analyze with a matcher satisfying `C04.GoodFind`.
     NOT instantiated: the headline theorems of Props/ApiComplete (`api_gate_iff`, `api_tokenize_spec`,
     `api_replace_spec`, `api_analyze_spec`, `api_*_total`).  They go through `ApiL.FindOK`, which is stated
     in terms of `ApiL.firstSpan`, and `firstSpan` is DEFINED with `enum2` (`firstFrom (fun j => (enum2 ctx op
     j).head?) …`); `enum2` of a `.rep` node is `[]`, so `FindOK` as it stands is false of these programs.
     Re-doing it means a copy of Proofs/ApiCompleteLemmas with `enum3` for `enum2` (the proofs use only
     `Outcome`, the least start and "the end is the head of the enumeration", all of which Props/Clean3Complete
     provides) — a parametrisation of that file, not an instantiation.
  3  `api_clean3m_isMatch_iff`: `is_match` for programs with skippable repeats in the root sequence
     (Props/Clean3Memo; memo invariant)
  4  `x(?:a|bc)+y` through `Regex.new Env.std`, on "zxabcay".
-/
import RxModel.Props.Clean3Complete
import RxModel.Props.Clean3Memo
import RxModel.Props.Clean2Api
namespace Rx.Clean3Api
open Rx Rx.SearchComplete Rx.Clean2Api
open Rx.C08 (noEmptyAtoms)

/-! ## 1. from `Regex::new`: the `min ≥ 1` fragment -/

/-- a regex accepted by `Regex::new`: its program is `mkProgram` of a well-formed tree without empty
    literal, groups numbered from 1 — whatever fragment its tree is in -/
theorem new_prog (env : Env) (p fs : List Nat) (xsd : Bool) (fl : Flags) (r : Regex)
    (hf : parseFlags fs xsd = some fl) (h : Regex.new env p fs xsd true = .ok r) (hns : Api.NoSat env fl p)
    (hnb : r.prog.hasBackrefs = false) (hlit : fl.literal = true → p ≠ []) :
    ∃ pat' op' mp, r.prog = mkProgram pat' op' mp fl.core false ∧ wfOp op' = true ∧
      noEmptyAtoms op' = true ∧ C02.capsPos op' = true := by
  obtain ⟨hwf, hcp, _, _⟩ := Api.new_wf env p fs xsd fl r hf h hns
  have hcomp := new_compile env p fs xsd true fl r hf h
  rw [compileProg_core] at hcomp
  have hlit' : fl.core.literal = true → effPat fl p ≠ [] := by
    intro hl
    have hl' : fl.literal = true := hl
    unfold effPat
    rw [hl']
    simp only [Bool.not_true, Bool.false_and, Bool.false_eq_true, if_false]
    exact hlit hl'
  have hne := SearchComplete.compile_noEmptyAtoms env fl.core _ r.prog hcomp hlit'
  obtain ⟨op', mp, hb, heq⟩ := CleanComplete.compile_is_mkProgram env fl.core _ r.prog hcomp
  obtain ⟨hop, hhb⟩ := WF.mkProgram_op (effPat fl p) op' mp fl.core hb
  rw [heq] at hwf hcp hne hnb
  rw [hhb] at hnb
  subst hnb
  rw [hop] at hwf hcp hne
  rw [WF.wfOp_numberReps] at hwf
  rw [WF.capsPos_numberReps] at hcp
  rw [ApiL.noEmptyAtoms_numberReps] at hne
  exact ⟨_, op', mp, heq, hwf, hne, hcp⟩

/-- C01 from the pattern text, both directions -/
theorem api_clean3_isMatch_iff (env : Env) (p fs : List Nat) (xsd : Bool) (fl : Flags) (r : Regex)
    (hf : parseFlags fs xsd = some fl) (h : Regex.new env p fs xsd true = .ok r) (hns : Api.NoSat env fl p)
    (hclean : cleanProg3 env fl.caseBlind fl.multiLine r.prog.op = true) (hcan : clsCanonB r.prog.op = true)
    (hnb : r.prog.hasBackrefs = false) (hlit : fl.literal = true → p ≠ [])
    (input : List Nat) (hI : InputOKFor env fl.core env.lower input) (hlen : input.length < usizeMax) :
    (r.prog.isMatch env.lower input = .ok true ↔
      ∃ j q, j ≤ input.length ∧ OpR (r.prog.ctx env.lower input) r.prog.op j q) ∧
    ((¬ ∃ j q, j ≤ input.length ∧ OpR (r.prog.ctx env.lower input) r.prog.op j q) →
      r.prog.isMatch env.lower input = .ok false) := by
  obtain ⟨pat', op', mp, heq, hw, hne, _⟩ := new_prog env p fs xsd fl r hf h hns hnb hlit
  rw [heq] at hclean hcan ⊢
  exact ⟨Clean3Complete.clean3_isMatch_iff env pat' op' mp fl.core env.lower input hI hclean hw hne hcan hlen,
    Clean3Complete.clean3_isMatch_false env pat' op' mp fl.core env.lower input hI hclean hw hne hcan hlen⟩

/-- C02 from the pattern text: least start; end = head of the engine's priority enumeration `enum3` -/
theorem api_clean3_match_is_leftmost_first (env : Env) (p fs : List Nat) (xsd : Bool) (fl : Flags) (r : Regex)
    (hf : parseFlags fs xsd = some fl) (h : Regex.new env p fs xsd true = .ok r) (hns : Api.NoSat env fl p)
    (hclean : cleanProg3 env fl.caseBlind fl.multiLine r.prog.op = true) (hcan : clsCanonB r.prog.op = true)
    (hnb : r.prog.hasBackrefs = false) (hlit : fl.literal = true → p ≠ [])
    (input : List Nat) (hI : InputOKFor env fl.core env.lower input) (hlen : input.length < usizeMax)
    (i : Nat) (hi : i ≤ input.length) (st st' : St) (hst : st.panic = none)
    (hm : matchesFrom (r.prog.ctx env.lower input) r.prog i st = (true, st')) :
    ∃ j n, getParenStart st' 0 = some j ∧ getParenEnd st' 0 = some n ∧
      (enum3 (r.prog.ctx env.lower input) r.prog.op j).head? = some n ∧
      i ≤ j ∧ j ≤ n ∧ n ≤ input.length ∧ OpR (r.prog.ctx env.lower input) r.prog.op j n ∧
      ∀ k q, i ≤ k → k < j → ¬ OpR (r.prog.ctx env.lower input) r.prog.op k q := by
  obtain ⟨pat', op', mp, heq, hw, hne, hcp⟩ := new_prog env p fs xsd fl r hf h hns hnb hlit
  rw [heq] at hclean hcan hm ⊢
  exact Clean3Complete.clean3_match_is_leftmost_first env pat' op' mp fl.core env.lower input hI hclean hw hne
    hcan hcp hlen i hi st st' hst hm

/-- shortcuts on / off on the compiled tree: Boolean, start and end -/
theorem api_clean3_opt_eq_noopt (env : Env) (p fs : List Nat) (xsd : Bool) (fl : Flags) (r : Regex)
    (hf : parseFlags fs xsd = some fl) (h : Regex.new env p fs xsd true = .ok r) (hns : Api.NoSat env fl p)
    (hclean : cleanProg3 env fl.caseBlind fl.multiLine r.prog.op = true) (hcan : clsCanonB r.prog.op = true)
    (hnb : r.prog.hasBackrefs = false) (hlit : fl.literal = true → p ≠ [])
    (input : List Nat) (hI : InputOKFor env fl.core env.lower input) (hlen : input.length < usizeMax)
    (i : Nat) (hi : i ≤ input.length) (st1 st2 : St) (h1 : st1.panic = none) (h2 : st2.panic = none) :
    (matchesFrom (r.prog.ctx env.lower input) r.prog i st1).1 =
      (matchesNaive (r.prog.ctx env.lower input) r.prog.op i st2).1 ∧
    ((matchesFrom (r.prog.ctx env.lower input) r.prog i st1).1 = true →
      getParenStart (matchesFrom (r.prog.ctx env.lower input) r.prog i st1).2 0 =
        getParenStart (matchesNaive (r.prog.ctx env.lower input) r.prog.op i st2).2 0 ∧
      getParenEnd (matchesFrom (r.prog.ctx env.lower input) r.prog i st1).2 0 =
        getParenEnd (matchesNaive (r.prog.ctx env.lower input) r.prog.op i st2).2 0) := by
  obtain ⟨pat', op', mp, heq, hw, hne, hcp⟩ := new_prog env p fs xsd fl r hf h hns hnb hlit
  rw [heq] at hclean hcan ⊢
  exact Clean3Complete.clean3_opt_eq_noopt env pat' op' mp fl.core env.lower input hI hclean hw hne hcan hcp
    hlen i hi st1 st2 h1 h2

/-! ### the real tables, case-sensitive -/

theorem api_clean3_isMatch_iff_std_cs (p fs : List Nat) (xsd : Bool) (fl : Flags) (r : Regex)
    (hf : parseFlags fs xsd = some fl) (h : Regex.new Env.std p fs xsd true = .ok r)
    (hns : Api.NoSat Env.std fl p) (hcb : fl.caseBlind = false)
    (hclean : cleanProg3 Env.std false fl.multiLine r.prog.op = true) (hcan : clsCanonB r.prog.op = true)
    (hnb : r.prog.hasBackrefs = false) (hlit : fl.literal = true → p ≠ [])
    (input : List Nat) (hsv : ScalarInput input) (hlen : input.length < usizeMax) :
    (r.prog.isMatch Env.std.lower input = .ok true ↔
      ∃ j q, j ≤ input.length ∧ OpR (r.prog.ctx Env.std.lower input) r.prog.op j q) ∧
    ((¬ ∃ j q, j ≤ input.length ∧ OpR (r.prog.ctx Env.std.lower input) r.prog.op j q) →
      r.prog.isMatch Env.std.lower input = .ok false) :=
  api_clean3_isMatch_iff Env.std p fs xsd fl r hf h hns (by rw [hcb]; exact hclean) hcan hnb hlit input
    (inputOK_std_cs hcb hsv) hlen

theorem api_clean3_match_is_leftmost_first_std_cs (p fs : List Nat) (xsd : Bool) (fl : Flags) (r : Regex)
    (hf : parseFlags fs xsd = some fl) (h : Regex.new Env.std p fs xsd true = .ok r)
    (hns : Api.NoSat Env.std fl p) (hcb : fl.caseBlind = false)
    (hclean : cleanProg3 Env.std false fl.multiLine r.prog.op = true) (hcan : clsCanonB r.prog.op = true)
    (hnb : r.prog.hasBackrefs = false) (hlit : fl.literal = true → p ≠ [])
    (input : List Nat) (hsv : ScalarInput input) (hlen : input.length < usizeMax)
    (i : Nat) (hi : i ≤ input.length) (st st' : St) (hst : st.panic = none)
    (hm : matchesFrom (r.prog.ctx Env.std.lower input) r.prog i st = (true, st')) :
    ∃ j n, getParenStart st' 0 = some j ∧ getParenEnd st' 0 = some n ∧
      (enum3 (r.prog.ctx Env.std.lower input) r.prog.op j).head? = some n ∧
      i ≤ j ∧ j ≤ n ∧ n ≤ input.length ∧ OpR (r.prog.ctx Env.std.lower input) r.prog.op j n ∧
      ∀ k q, i ≤ k → k < j → ¬ OpR (r.prog.ctx Env.std.lower input) r.prog.op k q :=
  api_clean3_match_is_leftmost_first Env.std p fs xsd fl r hf h hns (by rw [hcb]; exact hclean) hcan hnb hlit
    input (inputOK_std_cs hcb hsv) hlen i hi st st' hst hm

theorem api_clean3_opt_eq_noopt_std_cs (p fs : List Nat) (xsd : Bool) (fl : Flags) (r : Regex)
    (hf : parseFlags fs xsd = some fl) (h : Regex.new Env.std p fs xsd true = .ok r)
    (hns : Api.NoSat Env.std fl p) (hcb : fl.caseBlind = false)
    (hclean : cleanProg3 Env.std false fl.multiLine r.prog.op = true) (hcan : clsCanonB r.prog.op = true)
    (hnb : r.prog.hasBackrefs = false) (hlit : fl.literal = true → p ≠ [])
    (input : List Nat) (hsv : ScalarInput input) (hlen : input.length < usizeMax)
    (i : Nat) (hi : i ≤ input.length) (st1 st2 : St) (h1 : st1.panic = none) (h2 : st2.panic = none) :
    (matchesFrom (r.prog.ctx Env.std.lower input) r.prog i st1).1 =
      (matchesNaive (r.prog.ctx Env.std.lower input) r.prog.op i st2).1 ∧
    ((matchesFrom (r.prog.ctx Env.std.lower input) r.prog i st1).1 = true →
      getParenStart (matchesFrom (r.prog.ctx Env.std.lower input) r.prog i st1).2 0 =
        getParenStart (matchesNaive (r.prog.ctx Env.std.lower input) r.prog.op i st2).2 0 ∧
      getParenEnd (matchesFrom (r.prog.ctx Env.std.lower input) r.prog i st1).2 0 =
        getParenEnd (matchesNaive (r.prog.ctx Env.std.lower input) r.prog.op i st2).2 0) :=
  api_clean3_opt_eq_noopt Env.std p fs xsd fl r hf h hns (by rw [hcb]; exact hclean) hcan hnb hlit
    input (inputOK_std_cs hcb hsv) hlen i hi st1 st2 h1 h2

/-! ## 2. scan level (C04 / C16) -/

theorem clean3_no_zero_length (env : Env) (pat : List Nat) (op : Op) (mp : Nat) (fl : CFlags) (lower : Nat → Nat)
    (hc : cleanProg3 env fl.caseBlind fl.multiLine (mkProgram pat op mp fl false).op = true)
    (hwf : wfOp op = true) (hne : noEmptyAtoms op = true)
    (hcan : clsCanonB (mkProgram pat op mp fl false).op = true) (hcp : C02.capsPos op = true)
    (hI0 : InputOKFor env fl lower [])
    (hnull : (mkProgram pat op mp fl false).isMatch lower [] = .ok false)
    (input : List Nat) (hI : InputOKFor env fl lower input) (hlen : input.length < usizeMax)
    (i : Nat) (hi : i ≤ input.length) (st st' : St) (hst : st.panic = none)
    (h : matchesFrom ((mkProgram pat op mp fl false).ctx lower input) (mkProgram pat op mp fl false) i st
      = (true, st')) :
    ∃ j n, getParenStart st' 0 = some j ∧ getParenEnd st' 0 = some n ∧ i ≤ j ∧ j < n ∧ n ≤ input.length := by
  obtain ⟨j, n, hs, he, _, hij, hjn, hnl, hopr, _⟩ :=
    Clean3Complete.clean3_match_is_leftmost_first env pat op mp fl lower input hI hc hwf hne hcan hcp hlen
      i hi st st' hst h
  refine ⟨j, n, hs, he, hij, ?_, hnl⟩
  rcases Nat.lt_or_ge j n with hlt | hge
  · exact hlt
  · exfalso
    have hjn' : j = n := by omega
    subst hjn'
    have hz := C16.OpR_zero_anywhere _ _ j hopr
    have hm := (Clean3Complete.clean3_isMatch_iff env pat op mp fl lower [] hI0 hc hwf hne hcan (by decide)).2
      ⟨0, 0, Nat.le_refl _, hz⟩
    rw [hnull] at hm
    cases hm

theorem clean3_goodFind (env : Env) (pat : List Nat) (op : Op) (mp : Nat) (fl : CFlags) (lower : Nat → Nat)
    (hc : cleanProg3 env fl.caseBlind fl.multiLine (mkProgram pat op mp fl false).op = true)
    (hwf : wfOp op = true) (hne : noEmptyAtoms op = true)
    (hcan : clsCanonB (mkProgram pat op mp fl false).op = true) (hcp : C02.capsPos op = true)
    (hnull : (mkProgram pat op mp fl false).isMatch lower [] = .ok false)
    (input : List Nat) (hI : InputOKFor env fl lower input) (hlen : input.length < usizeMax) :
    C04.GoodFind ((mkProgram pat op mp fl false).matcher lower input) input.length
      (fun st => st.panic = none) := by
  constructor
  intro st pos st' m hinv hpos hfind hfailed
  refine ⟨hfailed, fun hm => ?_⟩
  subst hm
  obtain ⟨a, b, h1, h2, h3, h4, h5⟩ :=
    clean3_no_zero_length env pat op mp fl lower hc hwf hne hcan hcp (inputOKFor_nil hI) hnull input hI hlen
      pos hpos st st' hinv hfind
  exact ⟨a, b, h1, h2, h3, h4, h5⟩

theorem clean3_find_clean (env : Env) (pat : List Nat) (op : Op) (mp : Nat) (fl : CFlags) (lower : Nat → Nat)
    (hc : cleanProg3 env fl.caseBlind fl.multiLine (mkProgram pat op mp fl false).op = true)
    (hwf : wfOp op = true) (hne : noEmptyAtoms op = true)
    (hcan : clsCanonB (mkProgram pat op mp fl false).op = true)
    (input : List Nat) (hI : InputOKFor env fl lower input) (hlen : input.length < usizeMax)
    (st : St) (hst : st.panic = none) (pos : Nat) (hpos : pos ≤ input.length) :
    ((mkProgram pat op mp fl false).matcher lower input).failed
      (((mkProgram pat op mp fl false).matcher lower input).find st pos).2 = none :=
  (clean3_outcome env pat op mp fl lower input hI hc hwf hne hcan hlen pos hpos st hst).clean

theorem clean3_tokenize_spec (env : Env) (pat : List Nat) (op : Op) (mp : Nat) (fl : CFlags) (lower : Nat → Nat)
    (hc : cleanProg3 env fl.caseBlind fl.multiLine (mkProgram pat op mp fl false).op = true)
    (hwf : wfOp op = true) (hne : noEmptyAtoms op = true)
    (hcan : clsCanonB (mkProgram pat op mp fl false).op = true) (hcp : C02.capsPos op = true)
    (hnull : (mkProgram pat op mp fl false).isMatch lower [] = .ok false)
    (input : List Nat) (hI : InputOKFor env fl lower input) (hlen : input.length < usizeMax)
    (limit : Nat) (hl : input.length + 1 ≤ limit) (toks : List (List Nat)) (more : Bool)
    (h : tokenLoop ((mkProgram pat op mp fl false).matcher lower input) input limit (some 0) {} [] = .ok (toks, more)) :
    toks = Spec.pieces input 0 (C04.spanPairs (C04.spansOf ((mkProgram pat op mp fl false).matcher lower input)
      input.length (input.length + 2) 0 {})) ∧ more = false :=
  C04.tokenize_spec _ _ input (clean3_goodFind env pat op mp fl lower hc hwf hne hcan hcp hnull input hI hlen)
    {} rfl limit hl toks more h

/-- from the pattern text: a regex of the fragment that passes the nullability gate drives the scan loops
    with a matcher satisfying C04's `GoodFind` -/
theorem api_clean3_goodFind (env : Env) (p fs : List Nat) (xsd : Bool) (fl : Flags) (r : Regex)
    (hf : parseFlags fs xsd = some fl) (h : Regex.new env p fs xsd true = .ok r) (hns : Api.NoSat env fl p)
    (hclean : cleanProg3 env fl.caseBlind fl.multiLine r.prog.op = true) (hcan : clsCanonB r.prog.op = true)
    (hnb : r.prog.hasBackrefs = false) (hlit : fl.literal = true → p ≠ []) (hnull : r.nullable = false)
    (input : List Nat) (hI : InputOKFor env fl.core env.lower input) (hlen : input.length < usizeMax) :
    C04.GoodFind (r.prog.matcher env.lower input) input.length (fun st => st.panic = none) := by
  obtain ⟨pat', op', mp, heq, hw, hne, hcp⟩ := new_prog env p fs xsd fl r hf h hns hnb hlit
  have hn := C16.new_nullable env p fs xsd true r h
  rw [hnull, heq] at hn
  rw [heq] at hclean hcan ⊢
  exact clean3_goodFind env pat' op' mp fl.core env.lower hclean hw hne hcan hcp hn input hI hlen

theorem api_clean3_goodFind_std_cs (p fs : List Nat) (xsd : Bool) (fl : Flags) (r : Regex)
    (hf : parseFlags fs xsd = some fl) (h : Regex.new Env.std p fs xsd true = .ok r)
    (hns : Api.NoSat Env.std fl p) (hcb : fl.caseBlind = false)
    (hclean : cleanProg3 Env.std false fl.multiLine r.prog.op = true) (hcan : clsCanonB r.prog.op = true)
    (hnb : r.prog.hasBackrefs = false) (hlit : fl.literal = true → p ≠ []) (hnull : r.nullable = false)
    (input : List Nat) (hsv : ScalarInput input) (hlen : input.length < usizeMax) :
    C04.GoodFind (r.prog.matcher Env.std.lower input) input.length (fun st => st.panic = none) :=
  api_clean3_goodFind Env.std p fs xsd fl r hf h hns (by rw [hcb]; exact hclean) hcan hnb hlit hnull input
    (inputOK_std_cs hcb hsv) hlen

/-! ## 3. `is_match` for programs with skippable repeats in the root sequence (memo invariant) -/

theorem api_clean3m_isMatch_iff (env : Env) (p fs : List Nat) (xsd : Bool) (fl : Flags) (r : Regex)
    (hf : parseFlags fs xsd = some fl) (h : Regex.new env p fs xsd true = .ok r) (hns : Api.NoSat env fl p)
    (hclean : Memo.cleanProg3m env fl.caseBlind fl.multiLine r.prog.op = true) (hcan : clsCanonB r.prog.op = true)
    (hnb : r.prog.hasBackrefs = false) (hlit : fl.literal = true → p ≠ [])
    (input : List Nat) (hI : InputOKFor env fl.core env.lower input) (hlen : input.length < usizeMax) :
    (r.prog.isMatch env.lower input = .ok true ↔
      ∃ j q, j ≤ input.length ∧ OpR (r.prog.ctx env.lower input) r.prog.op j q) ∧
    ((¬ ∃ j q, j ≤ input.length ∧ OpR (r.prog.ctx env.lower input) r.prog.op j q) →
      r.prog.isMatch env.lower input = .ok false) := by
  obtain ⟨pat', op', mp, heq, hw, hne, _⟩ := new_prog env p fs xsd fl r hf h hns hnb hlit
  obtain ⟨l, hl⟩ : ∃ l, r.prog.op = .seq l := by
    cases hop : r.prog.op with
    | seq l => exact ⟨l, rfl⟩
    | _ => rw [hop] at hclean; simp [Memo.cleanProg3m] at hclean
  rw [hl] at hclean hcan
  rw [heq] at hl ⊢
  exact ⟨Clean3Memo.clean3m_isMatch_iff env pat' op' mp fl.core env.lower input hI l hl hclean hw hne hcan hlen,
    Clean3Memo.clean3m_isMatch_false env pat' op' mp fl.core env.lower input hI l hl hclean hw hne hcan hlen⟩

theorem api_clean3m_isMatch_iff_std_cs (p fs : List Nat) (xsd : Bool) (fl : Flags) (r : Regex)
    (hf : parseFlags fs xsd = some fl) (h : Regex.new Env.std p fs xsd true = .ok r)
    (hns : Api.NoSat Env.std fl p) (hcb : fl.caseBlind = false)
    (hclean : Memo.cleanProg3m Env.std false fl.multiLine r.prog.op = true) (hcan : clsCanonB r.prog.op = true)
    (hnb : r.prog.hasBackrefs = false) (hlit : fl.literal = true → p ≠ [])
    (input : List Nat) (hsv : ScalarInput input) (hlen : input.length < usizeMax) :
    (r.prog.isMatch Env.std.lower input = .ok true ↔
      ∃ j q, j ≤ input.length ∧ OpR (r.prog.ctx Env.std.lower input) r.prog.op j q) ∧
    ((¬ ∃ j q, j ≤ input.length ∧ OpR (r.prog.ctx Env.std.lower input) r.prog.op j q) →
      r.prog.isMatch Env.std.lower input = .ok false) :=
  api_clean3m_isMatch_iff Env.std p fs xsd fl r hf h hns (by rw [hcb]; exact hclean) hcan hnb hlit input
    (inputOK_std_cs hcb hsv) hlen

/-! ## 4. `x(?:a|bc)+y` (and `(?:ab|c)*d`) through `Regex.new Env.std` -/
section example_

/-- `x(?:a|bc)+y` -/
def exPat : List Nat := [120, 40, 63, 58, 97, 124, 98, 99, 41, 43, 121]
/-- `(?:ab|c)*d` -/
def exPat0 : List Nat := [40, 63, 58, 97, 98, 124, 99, 41, 42, 100]
/-- "zxabcay" -/
def exInput : List Nat := [122, 120, 97, 98, 99, 97, 121]

/-- `Regex::new` accepts both patterns and the compiled programs satisfy the decidable hypotheses -/
theorem ex_new :
    (match Regex.new Env.std exPat [] false true with
     | .ok r => cleanProg3 Env.std false false r.prog.op && clsCanonB r.prog.op && !r.prog.hasBackrefs &&
         !r.nullable && !cleanProg2 Env.std false false r.prog.op
     | _ => false) = true ∧
    (match Regex.new Env.std exPat0 [] false true with
     | .ok r => Memo.cleanProg3m Env.std false false r.prog.op && clsCanonB r.prog.op && !r.prog.hasBackrefs &&
         !cleanProg3 Env.std false false r.prog.op
     | _ => false) = true := by decide +kernel

theorem noSat_of (pat : List Nat)
    (hk : (match parseExpr { pat := pat, fl := ({} : Flags).core, env := Env.std } (4 * pat.length + 16) {} true with
      | .ok op _ => WF.noSat (optimize Env.std ({} : Flags).core op) && WF.noSat op
      | .err _ => true) = true) : Api.NoSat Env.std {} pat := by
  intro op s hp
  have hp' : parseExpr { pat := pat, fl := ({} : Flags).core, env := Env.std } (4 * pat.length + 16) {} true
      = .ok op s := hp
  rw [hp'] at hk
  simpa only [Bool.and_eq_true] using hk

theorem ex_noSat : Api.NoSat Env.std {} exPat := noSat_of exPat (by decide +kernel)
theorem ex_noSat0 : Api.NoSat Env.std {} exPat0 := noSat_of exPat0 (by decide +kernel)

theorem ex_scalar : ScalarInput exInput := by
  intro c hc
  simp only [exInput, List.mem_cons, List.not_mem_nil, or_false] at hc
  rcases hc with rfl | rfl | rfl | rfl | rfl | rfl | rfl <;> decide

/-- C01 for `x(?:a|bc)+y`, every input of scalar values -/
theorem ex_isMatch_iff (input : List Nat) (hsv : ScalarInput input) (hlen : input.length < usizeMax)
    (r : Regex) (h : Regex.new Env.std exPat [] false true = .ok r) :
    (r.prog.isMatch Env.std.lower input = .ok true ↔
      ∃ j q, j ≤ input.length ∧ OpR (r.prog.ctx Env.std.lower input) r.prog.op j q) ∧
    ((¬ ∃ j q, j ≤ input.length ∧ OpR (r.prog.ctx Env.std.lower input) r.prog.op j q) →
      r.prog.isMatch Env.std.lower input = .ok false) := by
  have hk := ex_new.1
  rw [h] at hk
  simp only [Bool.and_eq_true, Bool.not_eq_true'] at hk
  obtain ⟨⟨⟨⟨k1, k2⟩, k3⟩, _⟩, _⟩ := hk
  exact api_clean3_isMatch_iff_std_cs exPat [] false {} r rfl h ex_noSat rfl k1 k2 k3
    (fun hl => by cases hl) input hsv hlen

/-- … it passes the nullability gate, so it drives the scan loops with a `GoodFind` matcher -/
theorem ex_goodFind (input : List Nat) (hsv : ScalarInput input) (hlen : input.length < usizeMax)
    (r : Regex) (h : Regex.new Env.std exPat [] false true = .ok r) :
    C04.GoodFind (r.prog.matcher Env.std.lower input) input.length (fun st => st.panic = none) := by
  have hk := ex_new.1
  rw [h] at hk
  simp only [Bool.and_eq_true, Bool.not_eq_true'] at hk
  obtain ⟨⟨⟨⟨k1, k2⟩, k3⟩, k4⟩, _⟩ := hk
  exact api_clean3_goodFind_std_cs exPat [] false {} r rfl h ex_noSat rfl k1 k2 k3
    (fun hl => by cases hl) k4 input hsv hlen

/-- C01 for `(?:ab|c)*d` (skippable repeat; memo invariant), every input of scalar values -/
theorem ex0_isMatch_iff (input : List Nat) (hsv : ScalarInput input) (hlen : input.length < usizeMax)
    (r : Regex) (h : Regex.new Env.std exPat0 [] false true = .ok r) :
    (r.prog.isMatch Env.std.lower input = .ok true ↔
      ∃ j q, j ≤ input.length ∧ OpR (r.prog.ctx Env.std.lower input) r.prog.op j q) ∧
    ((¬ ∃ j q, j ≤ input.length ∧ OpR (r.prog.ctx Env.std.lower input) r.prog.op j q) →
      r.prog.isMatch Env.std.lower input = .ok false) := by
  have hk := ex_new.2
  rw [h] at hk
  simp only [Bool.and_eq_true, Bool.not_eq_true'] at hk
  obtain ⟨⟨⟨k1, k2⟩, k3⟩, _⟩ := hk
  exact api_clean3m_isMatch_iff_std_cs exPat0 [] false {} r rfl h ex_noSat0 rfl k1 k2 k3
    (fun hl => by cases hl) input hsv hlen

/-- the computed answer on "zxabcay": `true`, span (1, 7), `enum3` from 1 is [7] -/
theorem ex_computed :
    (match Regex.new Env.std exPat [] false true with
     | .ok r => (r.prog.isMatch Env.std.lower exInput == .ok true) &&
         (getParenStart (matchesFrom (r.prog.ctx Env.std.lower exInput) r.prog 0 {}).2 0 == some 1) &&
         (getParenEnd (matchesFrom (r.prog.ctx Env.std.lower exInput) r.prog 0 {}).2 0 == some 7) &&
         (enum3 (r.prog.ctx Env.std.lower exInput) r.prog.op 1 == [7])
     | _ => false) = true := by decide +kernel

/-- … agrees with the right-hand side the theorem predicts -/
theorem ex_member (r : Regex) (h : Regex.new Env.std exPat [] false true = .ok r) :
    ∃ j q, j ≤ exInput.length ∧ OpR (r.prog.ctx Env.std.lower exInput) r.prog.op j q := by
  have hk := ex_computed
  rw [h] at hk
  simp only [Bool.and_eq_true, beq_iff_eq] at hk
  exact ((ex_isMatch_iff exInput ex_scalar (by decide) r h).1).1 hk.1.1.1

end example_

end Rx.Clean3Api
