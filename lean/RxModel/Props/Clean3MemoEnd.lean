/-
  Props/Clean3MemoEnd — the END reported by `matches` for programs of the memo fragment (`Memo.cleanProg3m`:
  a root sequence with skippable greedy repeats `x*`, `x{0,n}` over deterministic bodies, Props/Clean3Memo) is
  the PRIORITY-FIRST end: the head of the state-free enumeration `enum3` (greedy = most iterations first) from
  the reported start — whatever the memo contains, as long as it satisfies the invariant.

  Props/Clean3Memo / Clean3MemoScan proved that the start is the leftmost one and the end A member of the
  language; this module closes the item "NOT DONE: that the END of each span is the one a fresh matcher
  reports".  The statement is TRUE as asked (no refutation needed):

    `clean3m_match_end_first`          under the absolute invariant `HR st`: span `[j, n)` reported ⇒
                                        `(enum3 ctx prog.op j).head? = some n`
    `clean3m_match_is_leftmost_first`  … together with: `j` is the least start `≥ i` with a match, `[j, n)` is
                                        in the language
    `clean3m_match_end_first_from`, `clean3m_match_is_leftmost_first_from`
                                        the same under the RELATIVE scan invariant `HRfrom i st` (the one that
                                        survives successful `matches` calls, Props/Clean3MemoScan)
    `clean3m_end_state_free`           two searches from `i`, from ANY two states satisfying the invariant
                                        (e.g. the threaded one and a fresh one) report the same span

  Why it holds (Proofs/MemoEndLemmas): the memo entry `(id, p)` only removes the zero-iteration end `p` — the
  LAST element of the repeat's enumeration — and the invariant says the followers are dead from `p`.  The
  list of ends the repeat's iterator yields therefore agrees with `enum3` up to and including the first end
  from which the followers are live, the followers (entered with the invariant) yield first the head of
  their own enumeration, and a failed attempt of the followers leaves the invariant intact.
-/
import RxModel.Proofs.MemoEndLemmas
import RxModel.Props.Clean3MemoScan
namespace Rx.Clean3MemoEnd
open Rx Rx.SearchComplete Rx.Memo Rx.MemoScan Rx.MemoEnd Rx.Clean3MemoScan
open Rx.C08 (noEmptyAtoms)

section
variable {env : Env} {pat : List Nat} {op : Op} {mp : Nat} {fl : CFlags} {lower : Nat → Nat}
  {input : List Nat} {l : List Op}

/-- `matches(i)` under the relative invariant: start and end of a success, in terms of `enumSeq3` -/
theorem clean3m_endFirst_from (P : Prog3m env pat op mp fl lower input l)
    (i : Nat) (hi : i ≤ input.length) (st : St) (hp : st.panic = none)
    (hm : HRfrom ((mkProgram pat op mp fl false).ctx lower input) l i st) :
    EndFirst ((mkProgram pat op mp fl false).ctx lower input) l i
      (matchesFrom ((mkProgram pat op mp fl false).ctx lower input) (mkProgram pat op mp fl false) i st) := by
  obtain ⟨T, _, hP⟩ := program_facts env pat op mp fl lower input P.inp l P.hop P.clean P.wf P.ne P.can P.len
  exact matchesFrom_EF P.hop T (prog_wf P).2 hP i hi st ⟨hp, hm⟩

/-- SCAN VERSION, combined: least start, member of the language, and the end is the priority-first one -/
theorem clean3m_match_is_leftmost_first_from (P : Prog3m env pat op mp fl lower input l)
    (i : Nat) (hi : i ≤ input.length) (st st' : St) (hp : st.panic = none)
    (hm : HRfrom ((mkProgram pat op mp fl false).ctx lower input) l i st)
    (h : matchesFrom ((mkProgram pat op mp fl false).ctx lower input) (mkProgram pat op mp fl false) i st
      = (true, st')) :
    ∃ j n, getParenStart st' 0 = some j ∧ getParenEnd st' 0 = some n ∧ i ≤ j ∧ j ≤ n ∧ n ≤ input.length ∧
      OpR ((mkProgram pat op mp fl false).ctx lower input) (mkProgram pat op mp fl false).op j n ∧
      (∀ k q, i ≤ k → k < j →
        ¬ OpR ((mkProgram pat op mp fl false).ctx lower input) (mkProgram pat op mp fl false).op k q) ∧
      (enum3 ((mkProgram pat op mp fl false).ctx lower input) (mkProgram pat op mp fl false).op j).head? = some n := by
  have ho := clean3m_outcome_from P i hi st hp hm
  have he := clean3m_endFirst_from P i hi st hp hm
  rw [h] at ho he
  obtain ⟨hwT, hcT⟩ := prog_wf P
  obtain ⟨j, n, hs, hen, hij, hjn, hnl, hopr, hleft⟩ := ho.1.leftmost hwT hcT rfl
  obtain ⟨j', _, _, hs', he'⟩ := he rfl
  have hjj : j' = j := by
    have : some j' = some j := by rw [← hs', ← hs]
    exact Option.some.inj this
  subst hjj
  rw [P.hop]
  refine ⟨j', n, hs, hen, hij, hjn, hnl, hopr, hleft, ?_⟩
  simp only [enum3]
  rw [← he', hen]

/-- SCAN VERSION: the reported end is the head of the enumeration from the reported start -/
theorem clean3m_match_end_first_from (P : Prog3m env pat op mp fl lower input l)
    (i : Nat) (hi : i ≤ input.length) (st st' : St) (hp : st.panic = none)
    (hm : HRfrom ((mkProgram pat op mp fl false).ctx lower input) l i st)
    (h : matchesFrom ((mkProgram pat op mp fl false).ctx lower input) (mkProgram pat op mp fl false) i st
      = (true, st')) :
    ∃ j n, getParenStart st' 0 = some j ∧ getParenEnd st' 0 = some n ∧
      (enum3 ((mkProgram pat op mp fl false).ctx lower input) (mkProgram pat op mp fl false).op j).head? = some n := by
  obtain ⟨j, n, h1, h2, _, _, _, _, _, h3⟩ := clean3m_match_is_leftmost_first_from P i hi st st' hp hm h
  exact ⟨j, n, h1, h2, h3⟩

/-- the reported span does not depend on the memo: any two states satisfying the invariant (the threaded one
    and a fresh one, say) give the same answer and, on success, the same span -/
theorem clean3m_end_state_free (P : Prog3m env pat op mp fl lower input l)
    (i : Nat) (hi : i ≤ input.length) (st1 st2 : St) (hp1 : st1.panic = none) (hp2 : st2.panic = none)
    (hm1 : HRfrom ((mkProgram pat op mp fl false).ctx lower input) l i st1)
    (hm2 : HRfrom ((mkProgram pat op mp fl false).ctx lower input) l i st2) :
    (matchesFrom ((mkProgram pat op mp fl false).ctx lower input) (mkProgram pat op mp fl false) i st1).1 =
      (matchesFrom ((mkProgram pat op mp fl false).ctx lower input) (mkProgram pat op mp fl false) i st2).1 ∧
    ((matchesFrom ((mkProgram pat op mp fl false).ctx lower input) (mkProgram pat op mp fl false) i st1).1 = true →
      getParenStart (matchesFrom ((mkProgram pat op mp fl false).ctx lower input) (mkProgram pat op mp fl false) i st1).2 0 =
        getParenStart (matchesFrom ((mkProgram pat op mp fl false).ctx lower input) (mkProgram pat op mp fl false) i st2).2 0 ∧
      getParenEnd (matchesFrom ((mkProgram pat op mp fl false).ctx lower input) (mkProgram pat op mp fl false) i st1).2 0 =
        getParenEnd (matchesFrom ((mkProgram pat op mp fl false).ctx lower input) (mkProgram pat op mp fl false) i st2).2 0) := by
  have ho1 := clean3m_outcome_from P i hi st1 hp1 hm1
  have ho2 := clean3m_outcome_from P i hi st2 hp2 hm2
  obtain ⟨hwT, hcT⟩ := prog_wf P
  obtain ⟨hb, hs⟩ := Outcome.agree hwT hcT ho1.1 ho2.1
  refine ⟨hb, fun ht => ?_⟩
  obtain ⟨hst, j, hj⟩ := hs ht
  refine ⟨hst, ?_⟩
  obtain ⟨j1, _, _, s1, e1⟩ := clean3m_endFirst_from P i hi st1 hp1 hm1 ht
  obtain ⟨j2, _, _, s2, e2⟩ := clean3m_endFirst_from P i hi st2 hp2 hm2 (hb ▸ ht)
  have h1 : j1 = j := Option.some.inj (by rw [← s1, ← hj])
  have h2 : j2 = j := Option.some.inj (by rw [← s2, ← hst, ← hj])
  rw [e1, e2, h1, h2]

end

/-! ### under the absolute invariant `HR` of Props/Clean3Memo (hypotheses as in `clean3m_match_is_leftmost`) -/

/-- `HR` implies `HRfrom` for every start -/
theorem HRfrom_of_HR (ctx : Ctx) (l : List Op) (i : Nat) (st : St) (h : HR ctx l st) : HRfrom ctx l i st :=
  HRG_of_HR ctx l _ st h

/-- COMBINED: on success group 0 starts at the LEAST start `≥ i` that has a match and ends at the
    PRIORITY-FIRST end from there (the head of `enum3`), which is a member of the language -/
theorem clean3m_match_is_leftmost_first (env : Env) (pat : List Nat) (op : Op) (mp : Nat) (fl : CFlags)
    (lower : Nat → Nat) (input : List Nat) (hI : InputOKFor env fl lower input) (l : List Op)
    (hop : (mkProgram pat op mp fl false).op = .seq l)
    (hc : cleanProg3m env fl.caseBlind fl.multiLine (.seq l) = true)
    (hwf : wfOp op = true) (hne : noEmptyAtoms op = true) (hcan : clsCanonB (.seq l) = true)
    (hcp : C02.capsPos op = true) (hlen : input.length < usizeMax)
    (i : Nat) (hi : i ≤ input.length) (st st' : St) (hp : st.panic = none)
    (hm : HR ((mkProgram pat op mp fl false).ctx lower input) l st)
    (h : matchesFrom ((mkProgram pat op mp fl false).ctx lower input) (mkProgram pat op mp fl false) i st
      = (true, st')) :
    ∃ j n, getParenStart st' 0 = some j ∧ getParenEnd st' 0 = some n ∧ i ≤ j ∧ j ≤ n ∧ n ≤ input.length ∧
      OpR ((mkProgram pat op mp fl false).ctx lower input) (mkProgram pat op mp fl false).op j n ∧
      (∀ k q, i ≤ k → k < j →
        ¬ OpR ((mkProgram pat op mp fl false).ctx lower input) (mkProgram pat op mp fl false).op k q) ∧
      (enum3 ((mkProgram pat op mp fl false).ctx lower input) (mkProgram pat op mp fl false).op j).head? = some n :=
  clean3m_match_is_leftmost_first_from ⟨hI, hop, hc, hwf, hne, hcan, hcp, hlen⟩ i hi st st' hp
    (HRfrom_of_HR _ l i st hm) h

/-- the reported END is the first element of `enum3` of the program from the reported start -/
theorem clean3m_match_end_first (env : Env) (pat : List Nat) (op : Op) (mp : Nat) (fl : CFlags)
    (lower : Nat → Nat) (input : List Nat) (hI : InputOKFor env fl lower input) (l : List Op)
    (hop : (mkProgram pat op mp fl false).op = .seq l)
    (hc : cleanProg3m env fl.caseBlind fl.multiLine (.seq l) = true)
    (hwf : wfOp op = true) (hne : noEmptyAtoms op = true) (hcan : clsCanonB (.seq l) = true)
    (hcp : C02.capsPos op = true) (hlen : input.length < usizeMax)
    (i : Nat) (hi : i ≤ input.length) (st st' : St) (hp : st.panic = none)
    (hm : HR ((mkProgram pat op mp fl false).ctx lower input) l st)
    (h : matchesFrom ((mkProgram pat op mp fl false).ctx lower input) (mkProgram pat op mp fl false) i st
      = (true, st')) :
    ∃ j n, getParenStart st' 0 = some j ∧ getParenEnd st' 0 = some n ∧
      (enum3 ((mkProgram pat op mp fl false).ctx lower input) (mkProgram pat op mp fl false).op j).head? = some n := by
  obtain ⟨j, n, h1, h2, _, _, _, _, _, h3⟩ :=
    clean3m_match_is_leftmost_first env pat op mp fl lower input hI l hop hc hwf hne hcan hcp hlen i hi st st' hp hm h
  exact ⟨j, n, h1, h2, h3⟩

/-! ## example: `(?:ab|c)*c` — the repeat must give back its last iteration -/
section examples
open Rx.Clean3Memo (exEnv exInputOK)

/-- `(?:ab|c)*c`, as handed to `ReProgram::new` -/
def starcTree : Op :=
  .seq [.rep 0 (.choice [.atom [97, 98], .atom [99]]) 0 usizeMax true, .atom [99], .endProgram]
/-- … and numbered -/
def starcList : List Op :=
  [.rep 1 (.choice [.atom [97, 98], .atom [99]]) 0 usizeMax true, .atom [99], .endProgram]
def starcProg : Prog := mkProgram [] starcTree 1 {} false

theorem starc_op : starcProg.op = .seq starcList := rfl

/-- the decidable hypotheses -/
theorem starc_ok :
    cleanProg3m exEnv false false (.seq starcList) = true ∧ wfOp starcTree = true ∧
    noEmptyAtoms starcTree = true ∧ clsCanonB (.seq starcList) = true ∧ C02.capsPos starcTree = true := by
  refine ⟨?_, ?_, ?_, ?_, ?_⟩ <;> decide +kernel

/-- the compiler's output for the pattern text `(?:ab|c)*c` is this program (compared on the tree's behaviour) -/
theorem starc_compiled :
    (match compileCore exEnv {} [40, 63, 58, 97, 98, 124, 99, 41, 42, 99] true with
     | .ok pr => cleanProg3m exEnv false false pr.op &&
         (enum3 (pr.ctx id [97, 98, 99, 99]) pr.op 0 == enum3 (starcProg.ctx id [97, 98, 99, 99]) starcProg.op 0) &&
         ((matchesFrom (pr.ctx id [97, 98, 99, 99]) pr 0 {}).1 ==
          (matchesFrom (starcProg.ctx id [97, 98, 99, 99]) starcProg 0 {}).1)
     | _ => false) = true := by decide +kernel

/-- `clean3m_match_is_leftmost_first` instantiated: for EVERY input of scalar values, every start, every
    state satisfying the invariant -/
theorem starc_leftmost_first (input : List Nat) (hin : ∀ c ∈ input, c < cpLimit)
    (hsc : ∀ c ∈ input, isSurrogate c = false) (hlen : input.length < usizeMax)
    (i : Nat) (hi : i ≤ input.length) (st st' : St) (hp : st.panic = none)
    (hm : HR (starcProg.ctx id input) starcList st)
    (h : matchesFrom (starcProg.ctx id input) starcProg i st = (true, st')) :
    ∃ j n, getParenStart st' 0 = some j ∧ getParenEnd st' 0 = some n ∧ i ≤ j ∧ j ≤ n ∧ n ≤ input.length ∧
      OpR (starcProg.ctx id input) starcProg.op j n ∧
      (∀ k q, i ≤ k → k < j → ¬ OpR (starcProg.ctx id input) starcProg.op k q) ∧
      (enum3 (starcProg.ctx id input) starcProg.op j).head? = some n :=
  clean3m_match_is_leftmost_first exEnv [] starcTree 1 {} id input (exInputOK input hin hsc) starcList starc_op
    starc_ok.1 starc_ok.2.1 starc_ok.2.2.1 starc_ok.2.2.2.1 starc_ok.2.2.2.2 hlen i hi st st' hp hm h

/-- computed (kernel evaluation) on "abcc": the enumeration from 0 is `[4, 3]` — three iterations `ab·c·c`
    leave nothing for the final `c`, two iterations and `c` end at 4 (the head), one iteration (`ab`, then `c`)
    ends at 3 — and the engine reports (0, 4) from a fresh matcher -/
theorem starc_computed :
    enum3 (starcProg.ctx id [97, 98, 99, 99]) starcProg.op 0 = [4, 3] ∧
    (matchesFrom (starcProg.ctx id [97, 98, 99, 99]) starcProg 0 {}).1 = true ∧
    getParenStart (matchesFrom (starcProg.ctx id [97, 98, 99, 99]) starcProg 0 {}).2 0 = some 0 ∧
    getParenEnd (matchesFrom (starcProg.ctx id [97, 98, 99, 99]) starcProg 0 {}).2 0 = some 4 := by decide +kernel

theorem pair_true {r : Bool × St} (h : r.1 = true) : r = (true, r.2) := Prod.ext h rfl

theorem starcList_ok : wfOp (.seq starcList) = true ∧ noEmptyAtoms (.seq starcList) = true := by
  refine ⟨?_, ?_⟩ <;> decide +kernel

/-- the headline theorem in a state with a NON-EMPTY memo: the state a FAILED `match_at(0)` leaves behind
    satisfies the invariant (`matchAt_complete`), so a later successful search from it reports the
    priority-first end -/
theorem starc_after_fail (input : List Nat) (hin : ∀ c ∈ input, c < cpLimit)
    (hsc : ∀ c ∈ input, isSurrogate c = false) (hlen : input.length < usizeMax) (i : Nat) (hi : i ≤ input.length)
    (hfail : (matchAt (starcProg.ctx id input) (.seq starcList) 0 {}).1 = false)
    (hp : (matchAt (starcProg.ctx id input) (.seq starcList) 0 {}).2.panic = none)
    (ht : (matchesFrom (starcProg.ctx id input) starcProg i
      (matchAt (starcProg.ctx id input) (.seq starcList) 0 {}).2).1 = true) :
    HR (starcProg.ctx id input) starcList (matchAt (starcProg.ctx id input) (.seq starcList) 0 {}).2 ∧
    ∃ j n,
      getParenStart (matchesFrom (starcProg.ctx id input) starcProg i
        (matchAt (starcProg.ctx id input) (.seq starcList) 0 {}).2).2 0 = some j ∧
      getParenEnd (matchesFrom (starcProg.ctx id input) starcProg i
        (matchAt (starcProg.ctx id input) (.seq starcList) 0 {}).2).2 0 = some n ∧
      (enum3 (starcProg.ctx id input) starcProg.op j).head? = some n := by
  have hIn : InputOK exEnv (starcProg.ctx id input) := (exInputOK input hin hsc).ctx [] starcTree 1 false
  have hHR := (Clean3Memo.matchAt_complete exEnv (starcProg.ctx id input) hIn starcList starc_ok.1 starcList_ok.1
      starcList_ok.2 starc_ok.2.2.2.1 0 (Nat.zero_le _) {} (Clean3Memo.HR_fresh _ starcList)).2 hfail
  generalize (matchAt (starcProg.ctx id input) (.seq starcList) 0 {}).2 = st1 at hp ht hHR ⊢
  refine ⟨hHR, ?_⟩
  have hpe := pair_true ht
  generalize (matchesFrom (starcProg.ctx id input) starcProg i st1).2 = st' at hpe ⊢
  exact clean3m_match_end_first exEnv [] starcTree 1 {} id input (exInputOK input hin hsc) starcList starc_op
    starc_ok.1 starc_ok.2.1 starc_ok.2.2.1 starc_ok.2.2.2.1 starc_ok.2.2.2.2 hlen i hi st1 st' hp hHR hpe

/-- on "abxabcc": the failed attempt at 0 leaves memo entries; the search from 1 in that state succeeds -/
theorem starc_after_fail_facts :
    (matchAt (starcProg.ctx id [97, 98, 120, 97, 98, 99, 99]) (.seq starcList) 0 {}).1 = false ∧
    (matchAt (starcProg.ctx id [97, 98, 120, 97, 98, 99, 99]) (.seq starcList) 0 {}).2.panic = none ∧
    (matchesFrom (starcProg.ctx id [97, 98, 120, 97, 98, 99, 99]) starcProg 1
      (matchAt (starcProg.ctx id [97, 98, 120, 97, 98, 99, 99]) (.seq starcList) 0 {}).2).1 = true ∧
    (matchAt (starcProg.ctx id [97, 98, 120, 97, 98, 99, 99]) (.seq starcList) 0 {}).2.hist ≠ [] ∧
    getParenEnd (matchesFrom (starcProg.ctx id [97, 98, 120, 97, 98, 99, 99]) starcProg 1
      (matchAt (starcProg.ctx id [97, 98, 120, 97, 98, 99, 99]) (.seq starcList) 0 {}).2).2 0 = some 7 := by
  refine ⟨?_, ?_, ?_, ?_, ?_⟩ <;> decide +kernel

/-- the hypotheses of the headline theorems are satisfiable on a concrete instance with a non-empty memo -/
example := starc_after_fail [97, 98, 120, 97, 98, 99, 99] (by decide +kernel) (by decide +kernel) (by decide) 1
  (by decide) starc_after_fail_facts.1 starc_after_fail_facts.2.1 starc_after_fail_facts.2.2.1

/-- … and the relative invariant of the scan loops holds of a fresh matcher -/
example : HRfrom (starcProg.ctx id [97, 98, 99, 99]) starcList 0 {} := HRfrom_fresh _ _ 0

end examples

end Rx.Clean3MemoEnd
