/-
  Props/C12b — anchors and dot: the position sets, "anchors consume nothing", and the engine-level
  consequences on the proved fragment (`cleanProg2`, Props/Clean2Complete).

  1. `OpR_bol_iff`, `OpR_eol_iff`, `OpR_dot_iff`: the language clauses of `^`, `$` and of the class
     the compiler builds for `.` (`dot_compiles'`), in the property's wording: without m, `^` only
     at offset 0 and `$` only at the end; with m, `^` also right after a newline that is not the
     last character, `$` also right before a newline; `.` = everything but U+000A / U+000D, with s
     everything.
  2. `anchor_consumes_nothing_*`: an anchor inside a sequence is a pure test of the position where it
     stands (first, or after any prefix of terms); removing it keeps every span.
  3. for ANY `cleanProg2` program (`Clean2Hyps`, the hypotheses of `clean2_match_is_leftmost_first`):
     the span `matches(i)` reports is in the language (`reported_span`), so for `^X…` the reported
     start and for `…X$` the reported end obey the clauses (`bol_first_start`, `eol_last_end`, and
     their `_no_m` forms); `bol_isMatch_iff_no_m`: without m, `^X…` matches iff `X…` matches from 0.
  4. kernel-checked runs of the compiled programs (`compileCore Env.std`) that agree.
-/
import RxModel.Props.C12
import RxModel.Props.Clean2Complete
import RxModel.Model.Unicode
namespace Rx.C12
open Rx Rx.SearchComplete
open Rx.C08 (noEmptyAtoms)

/-! ### 1. the position sets -/

/-- where `^` holds: offset 0, or (flag m) right after a newline that is not the last character -/
def bolHolds (ctx : Ctx) (p : Nat) : Prop :=
  p = 0 ∨ (ctx.multiLine = true ∧ ctx.input[p - 1]? = some 10 ∧ p < ctx.len)

/-- where `$` holds: the end of the input, or (flag m) right before a newline -/
def eolHolds (ctx : Ctx) (p : Nat) : Prop :=
  p ≥ ctx.len ∨ (ctx.multiLine = true ∧ ctx.input[p]? = some 10)

theorem OpR_bol_iff (ctx : Ctx) (p q : Nat) : OpR ctx .bol p q ↔ q = p ∧ bolHolds ctx p := by
  simp only [OpR, bolHolds]

theorem OpR_eol_iff (ctx : Ctx) (p q : Nat) : OpR ctx .eol p q ↔ q = p ∧ eolHolds ctx p := by
  simp only [OpR, eolHolds]

/-- without m, `^` holds only at offset 0 -/
theorem bolHolds_no_m (ctx : Ctx) (hm : ctx.multiLine = false) (p : Nat) : bolHolds ctx p ↔ p = 0 := by
  simp [bolHolds, hm]

/-- with m: offset 0, or the previous character is a newline and `p` is not the end -/
theorem bolHolds_m (ctx : Ctx) (hm : ctx.multiLine = true) (p : Nat) :
    bolHolds ctx p ↔ p = 0 ∨ (ctx.input[p - 1]? = some 10 ∧ p < ctx.len) := by
  simp [bolHolds, hm]

/-- with m, `^` never holds at the end of a non-empty input (so not after a final newline) -/
theorem not_bolHolds_end (ctx : Ctx) (p : Nat) (hp : p ≠ 0) (hend : p = ctx.len) : ¬ bolHolds ctx p := by
  simp only [bolHolds]; omega

/-- without m, `$` holds (inside the input) only at the end -/
theorem eolHolds_no_m (ctx : Ctx) (hm : ctx.multiLine = false) (p : Nat) (hp : p ≤ ctx.len) :
    eolHolds ctx p ↔ p = ctx.len := by
  simp only [eolHolds, hm, Bool.false_eq_true, false_and, or_false]; omega

/-- with m: the end, or the character at `p` is a newline -/
theorem eolHolds_m (ctx : Ctx) (hm : ctx.multiLine = true) (p : Nat) (hp : p ≤ ctx.len) :
    eolHolds ctx p ↔ p = ctx.len ∨ ctx.input[p]? = some 10 := by
  simp only [eolHolds, hm, true_and]
  constructor
  · rintro (h | h)
    · exact .inl (by omega)
    · exact .inr h
  · rintro (h | h)
    · exact .inl (by omega)
    · exact .inr h

/-- the class the compiler builds for `.` -/
def dotClass (singleLine : Bool) : Ranges := if singleLine then allR else complR (addChars [10, 13] [])

/-- `C12.dot_compiles`, with the class named -/
theorem dot_compiles' (c : PC) (f : Nat) (s : PS) (h : c.at s.idx = 46) :
    parseTerminal c (f + 1) s = .ok (.cls (dotClass c.fl.singleLine)) { s with idx := s.idx + 1 } :=
  dot_compiles c f s h

/-- `.` matches exactly one character: any but U+000A and U+000D, or any at all with flag s -/
theorem OpR_dot_iff (ctx : Ctx) (hin : ∀ c ∈ ctx.input, c < cpLimit) (sl : Bool) (p q : Nat) :
    OpR ctx (.cls (dotClass sl)) p q ↔
      q = p + 1 ∧ ∃ c, ctx.input[p]? = some c ∧ (sl = true ∨ (c ≠ 10 ∧ c ≠ 13)) := by
  simp only [OpR]
  refine and_congr Iff.rfl (exists_congr fun c => and_congr_right fun hc => ?_)
  have hlt := hin c (List.mem_of_getElem? hc)
  cases sl with
  | true => simp [dotClass, C09.dot_all c hlt]
  | false => simp [dotClass, C09.dot_set c hlt]

/-! ### 2. anchors consume nothing -/

theorem OpRSeq_append (ctx : Ctx) : ∀ (xs ys : List Op) (p q : Nat),
    OpRSeq ctx (xs ++ ys) p q ↔ ∃ m, OpRSeq ctx xs p m ∧ OpRSeq ctx ys m q
  | [], ys, p, q => by simp [OpRSeq]
  | x :: xs, ys, p, q => by
    simp only [List.cons_append, OpRSeq, OpRSeq_append ctx xs ys]
    constructor
    · rintro ⟨m, h1, k, h2, h3⟩; exact ⟨k, ⟨m, h1, h2⟩, h3⟩
    · rintro ⟨k, ⟨m, h1, h2⟩, h3⟩; exact ⟨m, h1, k, h2, h3⟩

/-- a leading `^` is a test of the start position and nothing else -/
theorem anchor_consumes_nothing_bol (ctx : Ctx) (rest : List Op) (p q : Nat) :
    OpRSeq ctx (.bol :: rest) p q ↔ bolHolds ctx p ∧ OpRSeq ctx rest p q := by
  simp only [OpRSeq, OpR_bol_iff]
  constructor
  · rintro ⟨m, ⟨rfl, hb⟩, h⟩; exact ⟨hb, h⟩
  · rintro ⟨hb, h⟩; exact ⟨p, ⟨rfl, hb⟩, h⟩

theorem anchor_consumes_nothing_eol (ctx : Ctx) (rest : List Op) (p q : Nat) :
    OpRSeq ctx (.eol :: rest) p q ↔ eolHolds ctx p ∧ OpRSeq ctx rest p q := by
  simp only [OpRSeq, OpR_eol_iff]
  constructor
  · rintro ⟨m, ⟨rfl, hb⟩, h⟩; exact ⟨hb, h⟩
  · rintro ⟨hb, h⟩; exact ⟨p, ⟨rfl, hb⟩, h⟩

/-- an anchor after other terms tests the position the terms before it have reached -/
theorem anchor_consumes_nothing_bol_mid (ctx : Ctx) (pre rest : List Op) (p q : Nat) :
    OpRSeq ctx (pre ++ .bol :: rest) p q ↔ ∃ m, OpRSeq ctx pre p m ∧ bolHolds ctx m ∧ OpRSeq ctx rest m q := by
  simp only [OpRSeq_append, anchor_consumes_nothing_bol]

theorem anchor_consumes_nothing_eol_mid (ctx : Ctx) (pre rest : List Op) (p q : Nat) :
    OpRSeq ctx (pre ++ .eol :: rest) p q ↔ ∃ m, OpRSeq ctx pre p m ∧ eolHolds ctx m ∧ OpRSeq ctx rest m q := by
  simp only [OpRSeq_append, anchor_consumes_nothing_eol]

/-- removing an anchor keeps every span (the anchor only restricts) … -/
theorem anchor_removal (ctx : Ctx) (pre rest : List Op) (a : Op) (ha : a = .bol ∨ a = .eol) (p q : Nat)
    (h : OpRSeq ctx (pre ++ a :: rest) p q) : OpRSeq ctx (pre ++ rest) p q := by
  rcases ha with rfl | rfl
  · obtain ⟨m, h1, _, h2⟩ := (anchor_consumes_nothing_bol_mid ctx pre rest p q).1 h
    exact (OpRSeq_append ctx pre rest p q).2 ⟨m, h1, h2⟩
  · obtain ⟨m, h1, _, h2⟩ := (anchor_consumes_nothing_eol_mid ctx pre rest p q).1 h
    exact (OpRSeq_append ctx pre rest p q).2 ⟨m, h1, h2⟩

/-- … and inserting `^` where it holds changes neither start nor end -/
theorem anchor_insertion_bol (ctx : Ctx) (pre rest : List Op) (p m q : Nat) (h1 : OpRSeq ctx pre p m)
    (hb : bolHolds ctx m) (h2 : OpRSeq ctx rest m q) : OpRSeq ctx (pre ++ .bol :: rest) p q :=
  (anchor_consumes_nothing_bol_mid ctx pre rest p q).2 ⟨m, h1, hb, h2⟩

theorem anchor_insertion_eol (ctx : Ctx) (pre rest : List Op) (p m q : Nat) (h1 : OpRSeq ctx pre p m)
    (hb : eolHolds ctx m) (h2 : OpRSeq ctx rest m q) : OpRSeq ctx (pre ++ .eol :: rest) p q :=
  (anchor_consumes_nothing_eol_mid ctx pre rest p q).2 ⟨m, h1, hb, h2⟩

/-! ### 3. engine level, on the proved fragment -/

/-- the hypotheses of `Clean2Complete.clean2_match_is_leftmost_first`, bundled: decidable facts of the
    tree, and `InputOKFor` (scalar input; case data adequate if the program is case-blind) -/
structure Clean2Hyps (env : Env) (op : Op) (fl : CFlags) (lower : Nat → Nat) (input : List Nat) : Prop where
  inputOK : InputOKFor env fl lower input
  clean : cleanProg2 env fl.caseBlind fl.multiLine op = true
  wf : wfOp op = true
  noEmpty : noEmptyAtoms op = true
  canon : clsCanonB op = true
  caps : C02.capsPos op = true
  len : input.length < usizeMax

section engine
variable {env : Env} {op : Op} {fl : CFlags} {lower : Nat → Nat} {input : List Nat}

/-- the matcher context of the program built from `op` -/
abbrev ctxOf (pat : List Nat) (op : Op) (mp : Nat) (fl : CFlags) (lower : Nat → Nat) (input : List Nat) : Ctx :=
  (mkProgram pat op mp fl false).ctx lower input

theorem ctxOf_input (pat : List Nat) (mp : Nat) : (ctxOf pat op mp fl lower input).input = input := rfl
theorem ctxOf_len (pat : List Nat) (mp : Nat) : (ctxOf pat op mp fl lower input).len = input.length := rfl
theorem ctxOf_multiLine (pat : List Nat) (mp : Nat) : (ctxOf pat op mp fl lower input).multiLine = fl.multiLine :=
  (mkProgram_shape pat op mp fl false).2.2.1

/-- **anchors are position tests, engine level**: whatever span `matches(i)` reports is in the
    language of the tree — so every anchor in it held at the position where it stands -/
theorem reported_span (H : Clean2Hyps env op fl lower input) (pat : List Nat) (mp : Nat)
    (i : Nat) (hi : i ≤ input.length) (st st' : St) (hst : st.panic = none)
    (h : matchesFrom (ctxOf pat op mp fl lower input) (mkProgram pat op mp fl false) i st = (true, st')) :
    ∃ j n, getParenStart st' 0 = some j ∧ getParenEnd st' 0 = some n ∧ i ≤ j ∧ j ≤ n ∧ n ≤ input.length ∧
      OpR (ctxOf pat op mp fl lower input) op j n := by
  obtain ⟨j, n, h1, h2, _, h4, h5, h6, h7, _⟩ :=
    Clean2Complete.clean2_match_is_leftmost_first env pat op mp fl lower input H.inputOK H.clean H.wf
      H.noEmpty H.canon H.caps H.len i hi st st' hst h
  rw [Clean2Complete.prog_op env pat op mp fl false H.clean] at h7
  exact ⟨j, n, h1, h2, h4, h5, h6, h7⟩

/-- a program beginning with `^` reports only starts where `^` holds: offset 0, or (flag m) right
    after a newline that is not the last character -/
theorem bol_first_start (rest : List Op) (H : Clean2Hyps env (.seq (.bol :: rest)) fl lower input)
    (pat : List Nat) (mp : Nat) (i : Nat) (hi : i ≤ input.length) (st st' : St) (hst : st.panic = none)
    (h : matchesFrom (ctxOf pat (.seq (.bol :: rest)) mp fl lower input)
      (mkProgram pat (.seq (.bol :: rest)) mp fl false) i st = (true, st')) :
    ∃ j, getParenStart st' 0 = some j ∧
      (j = 0 ∨ (fl.multiLine = true ∧ input[j - 1]? = some 10 ∧ j < input.length)) := by
  obtain ⟨j, n, h1, _, _, _, _, h6⟩ := reported_span H pat mp i hi st st' hst h
  simp only [OpR] at h6
  have hb := ((anchor_consumes_nothing_bol _ rest j n).1 h6).1
  simp only [bolHolds, ctxOf_multiLine, ctxOf_input, ctxOf_len] at hb
  exact ⟨j, h1, hb⟩

/-- without m: only start 0 -/
theorem bol_first_start_no_m (rest : List Op) (H : Clean2Hyps env (.seq (.bol :: rest)) fl lower input)
    (hm : fl.multiLine = false)
    (pat : List Nat) (mp : Nat) (i : Nat) (hi : i ≤ input.length) (st st' : St) (hst : st.panic = none)
    (h : matchesFrom (ctxOf pat (.seq (.bol :: rest)) mp fl lower input)
      (mkProgram pat (.seq (.bol :: rest)) mp fl false) i st = (true, st')) :
    getParenStart st' 0 = some 0 := by
  obtain ⟨j, h1, hj⟩ := bol_first_start rest H pat mp i hi st st' hst h
  rcases hj with rfl | ⟨h0, _⟩
  · exact h1
  · rw [hm] at h0; cases h0

/-- a program ending with `$` reports only ends where `$` holds: the end of the input, or (flag m)
    right before a newline -/
theorem eol_last_end (xs : List Op) (H : Clean2Hyps env (.seq (xs ++ [.eol, .endProgram])) fl lower input)
    (pat : List Nat) (mp : Nat) (i : Nat) (hi : i ≤ input.length) (st st' : St) (hst : st.panic = none)
    (h : matchesFrom (ctxOf pat (.seq (xs ++ [.eol, .endProgram])) mp fl lower input)
      (mkProgram pat (.seq (xs ++ [.eol, .endProgram])) mp fl false) i st = (true, st')) :
    ∃ n, getParenEnd st' 0 = some n ∧
      (n = input.length ∨ (fl.multiLine = true ∧ input[n]? = some 10)) := by
  obtain ⟨j, n, _, h2, _, _, h5, h6⟩ := reported_span H pat mp i hi st st' hst h
  simp only [OpR] at h6
  obtain ⟨m, _, he, hr⟩ := (anchor_consumes_nothing_eol_mid _ xs [.endProgram] j n).1 h6
  simp only [OpRSeq, OpR] at hr
  obtain ⟨_, rfl, rfl⟩ := hr
  simp only [eolHolds, ctxOf_multiLine, ctxOf_input, ctxOf_len] at he
  refine ⟨n, h2, ?_⟩
  rcases he with he | he
  · exact .inl (by omega)
  · exact .inr he

/-- without m: only the end of the input -/
theorem eol_last_end_no_m (xs : List Op) (H : Clean2Hyps env (.seq (xs ++ [.eol, .endProgram])) fl lower input)
    (hm : fl.multiLine = false)
    (pat : List Nat) (mp : Nat) (i : Nat) (hi : i ≤ input.length) (st st' : St) (hst : st.panic = none)
    (h : matchesFrom (ctxOf pat (.seq (xs ++ [.eol, .endProgram])) mp fl lower input)
      (mkProgram pat (.seq (xs ++ [.eol, .endProgram])) mp fl false) i st = (true, st')) :
    getParenEnd st' 0 = some input.length := by
  obtain ⟨n, h1, hn⟩ := eol_last_end xs H pat mp i hi st st' hst h
  rcases hn with rfl | ⟨h0, _⟩
  · exact h1
  · rw [hm] at h0; cases h0

/-- without m, `^X…` matches somewhere iff `X…` matches from offset 0 (both directions, on the engine) -/
theorem bol_isMatch_iff_no_m (rest : List Op) (H : Clean2Hyps env (.seq (.bol :: rest)) fl lower input)
    (hm : fl.multiLine = false) (pat : List Nat) (mp : Nat) :
    (mkProgram pat (.seq (.bol :: rest)) mp fl false).isMatch lower input = .ok true ↔
      ∃ q, OpRSeq (ctxOf pat (.seq (.bol :: rest)) mp fl lower input) rest 0 q := by
  rw [Clean2Complete.clean2_isMatch_iff env pat _ mp fl lower input H.inputOK H.clean H.wf H.noEmpty H.canon H.len,
    Clean2Complete.prog_op env pat _ mp fl false H.clean]
  simp only [OpR, anchor_consumes_nothing_bol]
  constructor
  · rintro ⟨j, q, _, hb, hr⟩
    rw [bolHolds_no_m _ (by rw [ctxOf_multiLine]; exact hm)] at hb
    subst hb
    exact ⟨q, hr⟩
  · rintro ⟨q, hr⟩
    exact ⟨0, q, Nat.zero_le _, .inl rfl, hr⟩

end engine

/-! ### 4. the compiled programs, run by the kernel -/

/-- answer and span of group 0 of `matches(0)` for `pat` compiled with the real tables -/
def run (fl : CFlags) (pat input : List Nat) : Option (Bool × Option Nat × Option Nat) :=
  match compileCore Env.std fl pat true with
  | .ok pr =>
    let r := matchesFrom (pr.ctx Env.std.lower input) pr 0 {}
    if r.2.panic.isSome then none else some (r.1, getParenStart r.2 0, getParenEnd r.2 0)
  | _ => none

/-- `^a`: with m it matches "b\na" at (2, 3) (after the newline) and "a\n" at (0, 1); without m not
    "b\na" -/
example : run { multiLine := true } [94, 97] [98, 10, 97] = some (true, some 2, some 3) ∧
    run { multiLine := true } [94, 97] [97, 10] = some (true, some 0, some 1) ∧
    (run {} [94, 97] [98, 10, 97]).map (·.1) = some false := by decide +kernel

/-- `a$`: with m it matches "a\nb" at (0, 1) (before the newline), without m it does not;
    without m it matches "ba" at (1, 2) -/
example : run { multiLine := true } [97, 36] [97, 10, 98] = some (true, some 0, some 1) ∧
    (run {} [97, 36] [97, 10, 98]).map (·.1) = some false ∧
    run {} [97, 36] [98, 97] = some (true, some 1, some 2) := by decide +kernel

/-- `^$`: matches "" with and without m; "\n" only with m, at (0, 0) — `$` before the newline; `^` does
    not hold after the final newline -/
example : run {} [94, 36] [] = some (true, some 0, some 0) ∧
    run { multiLine := true } [94, 36] [] = some (true, some 0, some 0) ∧
    (run {} [94, 36] [10]).map (·.1) = some false ∧
    run { multiLine := true } [94, 36] [10] = some (true, some 0, some 0) := by decide +kernel

/-- `.` on "\r" and "\n": no match without s, a match with s; on "x" always -/
example : (run {} [46] [13]).map (·.1) = some false ∧ (run {} [46] [10]).map (·.1) = some false ∧
    run { singleLine := true } [46] [13] = some (true, some 0, some 1) ∧
    run { singleLine := true } [46] [10] = some (true, some 0, some 1) ∧
    run {} [46] [120] = some (true, some 0, some 1) := by decide +kernel

/-- the compiled `^a` (flag m) and `a$` are of the shapes of `bol_first_start` / `eol_last_end` and meet
    the decidable hypotheses -/
example : (match compileCore Env.std { multiLine := true } [94, 97] true with
    | .ok pr => (match pr.op with
        | .seq (.bol :: rest) => cleanProg2 Env.std false true pr.op && wfOp pr.op && noEmptyAtoms pr.op &&
            clsCanonB pr.op && C02.capsPos pr.op && !rest.isEmpty
        | _ => false)
    | _ => false) = true ∧
    (match compileCore Env.std {} [97, 36] true with
    | .ok pr => (match pr.op with
        | .seq [.atom a, .eol, .endProgram] => cleanProg2 Env.std false false pr.op && wfOp pr.op &&
            noEmptyAtoms pr.op && clsCanonB pr.op && C02.capsPos pr.op && a == [97]
        | _ => false)
    | _ => false) = true := by decide +kernel

end Rx.C12
