/-
  Props/C09b — the class parser builds the denoted set, for the item grammar
  "plain character | range of plain characters", optionally negated (no escapes, no subtraction,
  case-sensitive): `parse_character_class` applied to the rendered text returns exactly
  (the union of the items), complemented for `[^…]`, and consumes exactly the class.
-/
import RxModel.Model.Parser
import RxModel.Props.C09
import RxModel.Proofs.ClassParseLemmas
namespace Rx.C09
open Rx

/- The item grammar is defined in `Proofs/ClassParseLemmas.lean` (moved there unchanged so that the
   helper lemmas can mention it):

     inductive CItem where
       | chr (c : Nat)
       | range (a b : Nat)

     /-- a character that stands for itself inside a class: not `\`, `[`, `]`, `-`, `^` -/
     def plainCh (c : Nat) : Bool := !(c == 92 || c == 91 || c == 93 || c == 45 || c == 94)

     def CItem.ok : CItem → Bool
       | .chr c => plainCh c
       | .range a b => plainCh a && plainCh b && decide (a ≤ b)

     def CItem.render : CItem → List Nat
       | .chr c => [c]
       | .range a b => [a, 45, b]

     def renderItems : List CItem → List Nat
       | [] => []
       | i :: is => i.render ++ renderItems is

     def CItem.addTo (rs : Ranges) : CItem → Ranges
       | .chr c => addChar c rs
       | .range a b => addRange a (b + 1) rs

     /-- the set a list of items denotes: the union, built left to right -/
     def denoteItems (items : List CItem) : Ranges := items.foldl CItem.addTo []            -/

/-- `[items]` / `[^items]` parses to the denoted set (complemented when negated) and consumes
    exactly the class expression -/
theorem parse_simple_class (c : PC) (hci : c.fl.caseBlind = false) (items : List CItem) (neg : Bool)
    (s : PS) (rest : List Nat) (hne : items ≠ []) (hok : items.all CItem.ok = true)
    (hpat : c.pat.drop s.idx = 91 :: ((if neg then [94] else []) ++ renderItems items ++ 93 :: rest))
    (fuel : Nat) (hfuel : (renderItems items).length + 2 ≤ fuel) :
    parseClass c fuel s =
      .ok (if neg then complR (denoteItems items) else denoteItems items)
          { s with idx := s.idx + 1 + (if neg then 1 else 0) + (renderItems items).length + 1 } := by
  obtain ⟨y, tl, hy, hyp⟩ := render_head_plain items hne hok
  obtain ⟨h92, h91, h93, h45, h94⟩ := (plainCh_iff y).1 hyp
  obtain ⟨f, rfl⟩ : ∃ f, fuel = f + 1 := ⟨fuel - 1, by omega⟩
  obtain ⟨hlt, hat, h1⟩ := drop_cons_facts hpat
  have c0 : (c.at s.idx != 91) = false := by simp [hat]
  cases neg with
  | false =>
    simp only [Bool.false_eq_true, if_false, List.nil_append] at h1 ⊢
    have h1' := h1
    rw [hy, List.cons_append] at h1'
    obtain ⟨_, hat1, _⟩ := drop_cons_facts h1'
    have hlen := drop_len h1'
    simp only [List.length_cons, List.length_append] at hlen
    have c1 : (decide (s.idx + 1 + 1 ≥ c.len) || c.at (s.idx + 1) == 93) = false := by
      simp [hat1, h93]; omega
    have t94 : thereFollows c (s.idx + 1) [94] = false := by
      rw [thereFollows_eq h1' (by simp)]; simp [h94]
    have t45 : thereFollows c (s.idx + 1) [45, 91] = false := by
      rw [thereFollows_eq h1' (by simp)]; simp [h45]
    rw [parseClass]
    simp only [c0, c1, t94, t45, Bool.false_eq_true, if_false]
    rw [classLoop_items hci rest items f { s with idx := s.idx + 1 } {} hok h1 rfl rfl (by omega)]
    rfl
  | true =>
    simp only [if_true, List.cons_append, List.nil_append] at h1 ⊢
    obtain ⟨_, hat1, h2⟩ := drop_cons_facts h1
    have h1' := h1
    rw [hy, List.cons_append] at h1'
    have hlen := drop_len h1'
    simp only [List.length_cons, List.length_append] at hlen
    have c1 : (decide (s.idx + 1 + 1 ≥ c.len) || c.at (s.idx + 1) == 93) = false := by
      simp [hat1]; omega
    have t94 : thereFollows c (s.idx + 1) [94] = true := by
      rw [thereFollows_eq h1' (by simp)]; simp
    have t1 : thereFollows c (s.idx + 1) [94, 45, 91] = false := by
      rw [thereFollows_eq h1' (by simp)]; simp [h45]
    have t2 : thereFollows c (s.idx + 1) [94, 93] = false := by
      rw [thereFollows_eq h1' (by simp)]; simp [h93]
    rw [parseClass]
    simp only [c0, c1, t94, t1, t2, Bool.false_eq_true, if_false, if_true]
    rw [classLoop_items hci rest items f { s with idx := s.idx + 1 + 1 } { positive := false }
          hok h2 rfl rfl (by omega)]
    rfl

/-- membership in the denoted set is membership in one of the items -/
theorem denoteItems_contains (items : List CItem) (hok : items.all CItem.ok = true)
    (hlim : ∀ i ∈ items, match i with | .chr c => c < cpLimit | .range _ b => b < cpLimit) (x : Nat) :
    clsContains (denoteItems items) x =
      items.any (fun i => match i with | .chr c => decide (x = c) | .range a b => decide (a ≤ x) && decide (x ≤ b)) := by
  have h := (foldl_addTo_spec x items [] (by simp [Canon]) hok hlim).2
  rw [show clsContains ([] : Ranges) x = false from rfl, Bool.or_false] at h
  exact h

example : renderItems [.chr 97, .range 98 100] = [97, 98, 45, 100] := by decide

end Rx.C09
