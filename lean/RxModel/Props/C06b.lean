/-
  Props/C06b — C06 (termination) after fix abfdb8a, WITHOUT the bound on reluctant minima.

  The crate hung at construction on `(?:…|^|…){18446744073709551615}?`: `ReluctantRepeatIterator::next`
  ran every mandatory iteration even when they were zero-width.  The fix (model: `iterMinZ`): a
  mandatory iteration that returns the position it started from completes the minimum.  Hence every
  mandatory iteration but the last advances the position, at most `len + 1` run, and the model's fuel
  `loopFuel ctx min = min (min+1) (len+1000)` suffices for EVERY `min` (`repReluctantGen_term_all`).

  `smallMin len op` (C06) said two things: (1) a reluctant variable repeat has `min < len + 1000`,
  (2) a non-backtracking repeat `.unamb` is over a single non-empty character.  (1) is no longer
  needed; (2) — `unambLeaf` — still is (`unambGen` is only known to terminate over a body that
  advances; the compiler builds `.unamb` over an atom or a class only).

    `sem_no_diverge_all`, `matchAt_no_diverge_all`, `isMatch_no_diverge_all`
        the C06 headline theorems with `unambLeaf` instead of `smallMin`
    `smallMin_unambLeaf`   the old hypothesis implies the new one
    `hang_*`               regression witnesses, by `decide +kernel`, on the compiled
                           `(?:^|a){18446744073709551615}?`
-/
import RxModel.Props.C06
import RxModel.Model.Compile
namespace Rx.C06b
open Rx Rx.C06

mutual
/-- a non-backtracking repeat is over a single non-empty character (what `Sequence::optimize` builds) -/
def unambLeaf : Op → Bool
  | .capture _ c => unambLeaf c
  | .choice bs => unambLeafL bs
  | .seq ops => unambLeafL ops
  | .rep _ c _ _ _ => unambLeaf c
  | .gfixed c _ _ _ => unambLeaf c
  | .rfixed c _ _ _ => unambLeaf c
  | .unamb c _ _ => (match c with | .atom cs => !cs.isEmpty | .cls _ => true | _ => false)
  | _ => true
termination_by structural o => o
def unambLeafL : List Op → Bool
  | [] => true
  | o :: os => unambLeaf o && unambLeafL os
termination_by structural l => l
end

mutual
/-- the old hypothesis of C06 implies the new one -/
theorem smallMin_unambLeaf (len : Nat) : (op : Op) → smallMin len op = true → unambLeaf op = true
  | .bol, _ | .eol, _ | .nothing, _ | .endProgram, _ | .atom _, _ | .cls _, _ | .backref _, _ => rfl
  | .capture _ c, h => by simp only [smallMin] at h; simp only [unambLeaf]; exact smallMin_unambLeaf len c h
  | .choice bs, h => by simp only [smallMin] at h; simp only [unambLeaf]; exact smallMinL_unambLeafL len bs h
  | .seq ops, h => by simp only [smallMin] at h; simp only [unambLeaf]; exact smallMinL_unambLeafL len ops h
  | .rep _ c _ _ _, h => by
    simp only [smallMin, Bool.and_eq_true] at h; simp only [unambLeaf]; exact smallMin_unambLeaf len c h.1
  | .gfixed c _ _ _, h => by simp only [smallMin] at h; simp only [unambLeaf]; exact smallMin_unambLeaf len c h
  | .rfixed c _ _ _, h => by simp only [smallMin] at h; simp only [unambLeaf]; exact smallMin_unambLeaf len c h
  | .unamb c _ _, h => by simp only [smallMin] at h; simp only [unambLeaf]; exact h
termination_by structural op => op
theorem smallMinL_unambLeafL (len : Nat) : (l : List Op) → smallMinL len l = true → unambLeafL l = true
  | [], _ => rfl
  | o :: os, h => by
    simp only [smallMinL, Bool.and_eq_true] at h
    simp only [unambLeafL, Bool.and_eq_true]
    exact ⟨smallMin_unambLeaf len o h.1, smallMinL_unambLeafL len os h.2⟩
termination_by structural l => l
end

/-! the generic form: as `C06.sem_term`, the reluctant repeat by `repReluctantGen_term_all` -/
mutual
theorem sem_term_all (ctx : Ctx) (b : Bool) : (op : Op) → wfOp op = true → unambLeaf op = true →
    ∀ p, p ≤ ctx.len → ∀ st, MarkOk b st → (sem ctx op p st).Term (MarkOk b)
  | .bol, _, _, p, _, st, hm => by simp only [sem]; exact bolGen_term ctx p st hm
  | .eol, _, _, p, _, st, hm => by simp only [sem]; exact eolGen_term ctx p st hm
  | .nothing, _, _, p, _, st, hm => by simp only [sem]; exact nothingGen_term p st hm
  | .endProgram, _, _, p, _, st, hm => by simp only [sem]; exact endGen_term p st hm
  | .atom cs, _, _, p, _, st, hm => by simp only [sem]; exact atomGen_term ctx cs p st hm
  | .cls rs, _, _, p, _, st, hm => by simp only [sem]; exact clsGen_term ctx rs p st hm
  | .backref g, _, _, p, _, st, hm => by simp only [sem]; exact backrefGen_term ctx g p st hm
  | .capture g c, hwf, hs, p, hp, st, hm => by
    simp only [wfOp] at hwf
    simp only [unambLeaf] at hs
    simp only [sem]
    exact captureGen_term ctx g (fun st h => sem_term_all ctx b c hwf hs p hp st h) st hm
  | .choice bs, hwf, hs, p, hp, st, hm => by
    simp only [wfOp, Bool.and_eq_true] at hwf
    simp only [unambLeaf] at hs
    simp only [sem]
    exact sem_term_all_choice ctx b bs hwf.2 hs p hp st hm
  | .seq ops, hwf, hs, p, hp, st, hm => by
    simp only [wfOp, Bool.and_eq_true] at hwf
    simp only [unambLeaf] at hs
    simp only [sem]
    exact seqGen_term _ (fun st h => sem_term_all_seq ctx b ops hwf.2 hs p hp st h) st hm
  | .rep id c mn mx g, hwf, hs, p, hp, st, hm => by
    simp only [wfOp, Bool.and_eq_true, decide_eq_true_eq] at hwf
    obtain ⟨⟨hwc, _⟩, _⟩ := hwf
    simp only [unambLeaf] at hs
    have hsc := hs
    have hB := sem_boundsD ctx c hwc
    have hT : ∀ p st, p ≤ ctx.len → MarkOk b st → (sem ctx c p st).Term (MarkOk b) :=
      fun p st hp h => sem_term_all ctx b c hwc hsc p hp st h
    cases g with
    | true =>
      simp only [sem, if_true]
      exact repGreedyGen_term (D := fun p => p ≤ ctx.len) ctx hB hT id mn mx p hp st hm
    | false =>
      simp only [sem, Bool.false_eq_true, if_false]
      exact repReluctantGen_term_all (D := fun p => p ≤ ctx.len) ctx hB hT mn mx p hp st hm
  | .gfixed c mn mx len, hwf, hs, p, hp, st, hm => by
    simp only [wfOp, Bool.and_eq_true, decide_eq_true_eq, beq_iff_eq] at hwf
    obtain ⟨⟨⟨⟨⟨hwc, _⟩, hlen0⟩, _⟩, _⟩, _⟩ := hwf
    simp only [unambLeaf] at hs
    simp only [sem]
    exact gfixedGen_term ctx mn mx len hlen0
      (fun p st hp h => sem_term_all ctx b c hwc hs p hp st h) p st hm
  | .rfixed c mn mx len, hwf, hs, p, hp, st, hm => by
    simp only [wfOp, Bool.and_eq_true, decide_eq_true_eq, beq_iff_eq] at hwf
    obtain ⟨⟨⟨⟨⟨hwc, hc⟩, hlen0⟩, hlen1⟩, _⟩, _⟩ := hwf
    simp only [unambLeaf] at hs
    simp only [sem]
    have hB := sem_boundsLen ctx c hwc len hc hlen1
    have hT : ∀ p st, p ≤ ctx.len → MarkOk b st → (sem ctx c p st).Term (MarkOk b) :=
      fun p st hp h => sem_term_all ctx b c hwc hs p hp st h
    exact rfixedGen_term (D := fun p => p ≤ ctx.len) ctx hB hT hlen0 mn mx p hp st hm
  | .unamb c mn mx, _, hs, p, _, st, hm => by
    have hl : isLeaf1 c = true := by
      simp only [unambLeaf] at hs
      cases c <;> first | exact hs | (simp at hs)
    simp only [sem]
    exact unambGen_leaf_term ctx b c hl mn mx p st hm
termination_by structural op => op
theorem sem_term_all_choice (ctx : Ctx) (b : Bool) : (bs : List Op) → wfOps bs = true →
    unambLeafL bs = true →
    ∀ p, p ≤ ctx.len → ∀ st, MarkOk b st → (choiceGen (semL ctx bs) p st).Term (MarkOk b)
  | [], _, _, p, _, st, hm => by simp only [semL]; exact choiceGen_nil_term p st hm
  | o :: os, hwf, hs, p, hp, st, hm => by
    simp only [wfOps, Bool.and_eq_true] at hwf
    simp only [unambLeafL, Bool.and_eq_true] at hs
    simp only [semL]
    exact choiceGen_cons_term (fun st h => sem_term_all ctx b o hwf.1 hs.1 p hp st h)
      (fun st h => sem_term_all_choice ctx b os hwf.2 hs.2 p hp st h) st hm
termination_by structural bs => bs
theorem sem_term_all_seq (ctx : Ctx) (b : Bool) : (ops : List Op) → wfOps ops = true →
    unambLeafL ops = true →
    ∀ p, p ≤ ctx.len → ∀ st, MarkOk b st → (seqGo (semL ctx ops) p st).Term (MarkOk b)
  | [], _, _, p, _, st, hm => by simp only [semL]; exact seqGo_nil_term p st hm
  | o :: os, hwf, hs, p, hp, st, hm => by
    simp only [wfOps, Bool.and_eq_true] at hwf
    simp only [unambLeafL, Bool.and_eq_true] at hs
    simp only [semL]
    exact seqGo_cons_term (P := fun n => n ≤ ctx.len)
      (fun st h => sem_term_all ctx b o hwf.1 hs.1 p hp st h)
      (fun st => (sem_boundsD ctx o hwf.1 p st hp).mono (fun n h => h.1))
      (fun n st hn h => sem_term_all_seq ctx b os hwf.2 hs.2 n hn st h) st hm
termination_by structural ops => ops
end

/-- no iterator of a well-formed tree ever diverges, whatever its consumer does, and it never
    raises the divergence marker — for EVERY minimum of a reluctant repeat -/
theorem sem_no_diverge_all (ctx : Ctx) (op : Op) (hwf : wfOp op = true) (hs : unambLeaf op = true)
    (p : Nat) (hp : p ≤ ctx.len) (st : St) (h : NoDivMark st) :
    (sem ctx op p st).NoDiv ∧ (sem ctx op p st).Inv NoDivMark :=
  term_pack (fun b => sem_term_all ctx b op hwf hs p hp st (fun _ => h))

/-- `match_at` terminates -/
theorem matchAt_no_diverge_all (ctx : Ctx) (op : Op) (hwf : wfOp op = true) (hs : unambLeaf op = true)
    (j : Nat) (hj : j ≤ ctx.len) (st : St) (h : NoDivMark st) :
    NoDivMark (matchAt ctx op j st).2 :=
  matchAt_mk ctx op j (fun st h => sem_term_all ctx true op hwf hs j hj st h) st (fun _ => h) rfl

/-- `is_match` terminates -/
theorem isMatch_no_diverge_all (pr : Prog) (lower : Nat → Nat) (input : List Nat)
    (hwf : wfOp pr.op = true) (hs : unambLeaf pr.op = true)
    (hpre : ∀ q ∈ pr.pres, simplePre q.op = true) :
    pr.isMatch lower input ≠ .diverge :=
  isMatch_ne_diverge pr lower input
    (matchesFrom_mk (pr.ctx lower input) pr
      (fun j st hj h => sem_term_all (pr.ctx lower input) true pr.op hwf hs j hj st h)
      (fun q hq p st h => pre_term _ true q.op (hpre q hq) p st h)
      0 (Nat.zero_le _) {} (fun _ => by decide))

/-- the same with the preconditions only known to terminate (from every position) -/
theorem isMatch_no_diverge_pre (pr : Prog) (lower : Nat → Nat) (input : List Nat)
    (hwf : wfOp pr.op = true) (hs : unambLeaf pr.op = true)
    (hpre : ∀ q ∈ pr.pres, ∀ p st, MarkOk true st → (sem (pr.ctx lower input) q.op p st).Term (MarkOk true)) :
    pr.isMatch lower input ≠ .diverge :=
  isMatch_ne_diverge pr lower input
    (matchesFrom_mk (pr.ctx lower input) pr
      (fun j st hj h => sem_term_all (pr.ctx lower input) true pr.op hwf hs j hj st h)
      (fun q hq p st h => hpre q hq p st h)
      0 (Nat.zero_le _) {} (fun _ => by decide))

/-! ### regression witnesses of fix abfdb8a -/

private def env0 : Env :=
  { lower := id, closure := fun _ => [], category := fun _ => none, block := fun _ => none,
    digit := [], word := [], nameStart := [], nameChar := [] }

private def progOf (c : Out Prog) : Prog :=
  match c with
  | .ok pr => pr
  | _ => default

private def isOk (c : Out Prog) : Bool :=
  match c with
  | .ok _ => true
  | _ => false

/-- `(?:^|a){18446744073709551615}?` -/
def hangPat : List Nat :=
  [40, 63, 58, 94, 124, 97, 41, 123, 49, 56, 52, 52, 54, 55, 52, 52, 48, 55, 51, 55, 48, 57, 53, 53, 49, 54, 49, 53, 125, 63]

/-- the program the compiler produces for it:
    `(seq (rep 1 (choice bol (atom 97)) usizeMax usizeMax reluctant) (end))` -/
def hangProg : Prog := progOf (compileCore env0 {} hangPat true)

theorem hang_compiles : isOk (compileCore env0 {} hangPat true) = true := by decide +kernel

theorem hang_shape : wfOp hangProg.op = true ∧ unambLeaf hangProg.op = true ∧ hangProg.pres = [] ∧
    smallMin 0 hangProg.op = false := by
  refine ⟨by decide +kernel, by decide +kernel, by decide +kernel, by decide +kernel⟩

/-- the construction probe `is_match("")` returns (it used to spin through 2^64 zero-width iterations;
    in the model: `.diverge`) -/
theorem hang_probe_ok : hangProg.isMatch id [] = .ok true := by decide +kernel

/-- `is_match("ba")` -/
theorem hang_isMatch_ba : hangProg.isMatch id [98, 97] = .ok true := by decide +kernel

/-- … and the theorem applies: no input makes it diverge (C06 could not say this: `smallMin` fails) -/
theorem hang_never_diverges (input : List Nat) : hangProg.isMatch id input ≠ .diverge :=
  isMatch_no_diverge_all hangProg id input hang_shape.1 hang_shape.2.1
    (fun q hq => by rw [hang_shape.2.2.1] at hq; cases hq)

end Rx.C06b
